import Vata.RenameCoded
import Vata.UnionModel
import Vata.IsectModel
/-!
# `Union`, `UnionDisjointStates`, `Intersection` of the explicit tree automata ON THE RULE STORE (properties C02 / C11 / C14)

Definitions only; proofs in `Vata/Proofs/UnionStoreCoded*.lean`, theorems in `Vata/Properties/C02_StoreCoded.lean`.

C++ (`src/explicit_tree_union.cc`):

```
StateType stateCnt = 0;
for (const auto& statePair : *pTranslMapLhs) stateCnt = std::max(stateCnt, statePair.second + 1);   // the repair (D11)
for (const auto& statePair : *pTranslMapRhs) stateCnt = std::max(stateCnt, statePair.second + 1);
auto translFunc = [&stateCnt](const StateType&){return stateCnt++;};                                // ONE counter
StateToStateTranslWeak stateTransLhs(*pTranslMapLhs, translFunc);
StateToStateTranslWeak stateTransRhs(*pTranslMapRhs, translFunc);
ExplicitTreeAutCore res(lhs.cache_, lhs.alphabet_);                                                 // fresh, empty
lhs.ReindexStates(res, stateTransLhs);
rhs.ReindexStates(res, stateTransRhs);
return res;
```

```
ExplicitTreeAutCore res(lhs);                                                                       // copy of lhs
res.uniqueClusterMap()->insert(rhs.transitions_->begin(), rhs.transitions_->end());                 // (pointer, not deep, copy)
assert(lhs.transitions_->size() + rhs.transitions_->size() == res.transitions_->size());
res.finalStates_.insert(rhs.finalStates_.begin(), rhs.finalStates_.end());
assert(lhs.finalStates_.size() + rhs.finalStates_.size() == res.finalStates_.size());
```

`unordered_map::insert(first, last)` does NOT replace an element whose key is present: the LEFT cluster of a shared parent state
is kept and the right one is dropped (the asserts – compiled out with `NDEBUG` – are the only guard).

`Intersection` (`src/explicit_tree_isect.cc`): see `Vata/IsectModel.lean`; here the result is the rule STORE built in discovery
order (`SetStateFinal(u->second)` for the final pairs, then one insert per pair of matching tuples).
-/
namespace Vata.UnionStoreCoded
open Vata.Store Vata.RenameCoded

/-! ## `Union` -/

/-- `Union(lhs, rhs, pTranslMapLhs, pTranslMapRhs)`: (the result, `*pTranslMapLhs`, `*pTranslMapRhs` afterwards).  The two
`ReindexStates(res, …)` calls are `reindexInto (weakT .counter)` into ONE destination; the second translator starts with the
counter value the first left behind (`[&stateCnt]`). -/
def unionStoreCoded (A B : Store) (mL mR : SMap) : Store × SMap × SMap :=
  let stateCnt := unionCnt mL mR                                                -- the two `max` loops
  let res : Store := empty                                                      -- `res(lhs.cache_, lhs.alphabet_)`
  let R1 := reindexInto (weakT .counter) A res ⟨mL, stateCnt⟩ true              -- `lhs.ReindexStates(res, stateTransLhs)`
  let R2 := reindexInto (weakT .counter) B R1.dst ⟨mR, R1.tr.cnt⟩ true          -- `rhs.ReindexStates(res, stateTransRhs)`
  (R2.dst, R1.tr.map, R2.tr.map)

/-- the code before the repair (finding D11): `stateCnt = 0` whatever the maps contain -/
def unionStoreCodedOld (A B : Store) (mL mR : SMap) : Store × SMap × SMap :=
  let R1 := reindexInto (weakT .counter) A empty ⟨mL, 0⟩ true
  let R2 := reindexInto (weakT .counter) B R1.dst ⟨mR, R1.tr.cnt⟩ true
  (R2.dst, R1.tr.map, R2.tr.map)

/-- a seeded slip: each translator gets its OWN counter (both start at the same value) -/
def unionStoreCodedTwoCounters (A B : Store) (mL mR : SMap) : Store × SMap × SMap :=
  let R1 := reindexInto (weakT .counter) A empty ⟨mL, unionCnt mL mR⟩ true
  let R2 := reindexInto (weakT .counter) B R1.dst ⟨mR, unionCnt mL mR⟩ true
  (R2.dst, R1.tr.map, R2.tr.map)

/-! ## `UnionDisjointStates` -/

/-- `std::unordered_map::insert(value)`: nothing happens when the key is present -/
def insertCluster (m : List (Nat × Cluster)) (qc : Nat × Cluster) : List (Nat × Cluster) :=
  match m.lookup qc.1 with
  | some _ => m
  | none => m ++ [qc]

/-- `res.uniqueClusterMap()->insert(rhs.transitions_->begin(), rhs.transitions_->end())` -/
def insertClusters (rhs m : List (Nat × Cluster)) : List (Nat × Cluster) := rhs.foldl insertCluster m

/-- `UnionDisjointStates(lhs, rhs)` with `NDEBUG` (the asserts compiled out) -/
def unionDisjStoreCoded (A B : Store) : Store :=
  ⟨insertClusters B.clusters A.clusters, B.final.foldl (fun acc q => insN q acc) A.final⟩

/-- the two `assert`s of `UnionDisjointStates` -/
def unionDisjAssertsB (A B : Store) : Bool :=
  (A.clusters.length + B.clusters.length == (unionDisjStoreCoded A B).clusters.length) &&
  (A.final.length + B.final.length == (unionDisjStoreCoded A B).final.length)

/-- the debug build: `none` = an assertion fails -/
def unionDisjStoreCodedDbg (A B : Store) : Option Store :=
  if unionDisjAssertsB A B then some (unionDisjStoreCoded A B) else none

/-- a seeded variant: `operator[]`-style insert that REPLACES the cluster of a shared parent -/
def unionDisjStoreOverwrite (A B : Store) : Store :=
  ⟨B.clusters.foldl (fun m qc => upsert qc.1 (fun _ => qc.2) m) A.clusters, B.final.foldl (fun acc q => insN q acc) A.final⟩

/-! ## `Intersection` with the result in the store -/

/-- the body of the work-list loop for a popped pair with number `n`: as `isectProc`, the rule goes into the store
(`tuplePtrSet->insert(res.tupleLookup(children))` through the pointers of `uniqueCluster(n)` / `uniqueTuplePtrSet(f)`, i.e. the
commented-out `res.AddTransition(children, f, p->second)`) -/
def isectProcS (n : Nat) : List (Rule × Rule) → PMap → List (Nat × Nat) → Store → PMap × List (Nat × Nat) × Store
  | [], m, st, s => (m, st, s)
  | rr :: rest, m, st, s =>
    let a := addPairs (rr.1.kids.zip rr.2.kids) m st
    isectProcS n rest a.1 a.2.1 (addTransition s ⟨rr.1.sym, a.2.2, n⟩)

/-- the work-list loop (`while (!stack.empty())`), LIFO; `none` when the fuel ends before the stack is empty -/
def isectLoopS (A B : TA) : Nat → PMap → List (Nat × Nat) → Store → Option (PMap × Store)
  | 0, m, st, s => if st.isEmpty then some (m, s) else none
  | _+1, m, [], s => some (m, s)
  | n+1, m, pr :: st, s =>
    let p := isectProcS (lookupF m pr) (isectMatching A B pr) m st s
    isectLoopS A B n p.1 p.2.1 p.2.2

/-- `Intersection(lhs, rhs, pTranslMap)` on stores: the final pairs (`SetStateFinal(u->second)` for EVERY pair, also a repeated
one), then the loop; the same closedness certificate as `isectTD` -/
def isectStoreCoded (A B : Store) (fuel : Nat) : Option (Store × PMap) :=
  let i := addPairs (finalPairs (toTA A) (toTA B)) [] []
  match isectLoopS (toTA A) (toTA B) fuel i.1 i.2.1 (setFinals empty i.2.2) with
  | none => none
  | some (m, s) => if isClosedB (toTA A) (toTA B) m.dom then some (s, m) else none

/-- with the fuel bound of `isectTDRef` (always enough: `C02_store_isect_total`) -/
def isectStoreCodedRef (A B : Store) : Option (Store × PMap) := isectStoreCoded A B (isectFuel (toTA A) (toTA B))

end Vata.UnionStoreCoded
