import Vata.ReduceModel
/-!
# Executable model of `include/vata/util/binary_relation.hh` AS CODED

Classes `BinaryRelation` (`Mat`), `Identity` (`Ident`) and `DiscontBinaryRelation` (`Disc`); definitions only (core Lean,
executable, linked into `vdriver` through `Driver/BinRelChk.lean`); the theorems are in `Vata/Proofs/BinRel.lean`.

`BinaryRelation` is a flat `std::vector<bool> data_` of `rowSize_ * rowSize_` cells, entry `(r, c)` lives in cell
`r * rowSize_ + c`; only the `size_ × size_` corner is the relation, the rest is capacity.  The model keeps exactly these
three members, and every member function is the loop of the C++ over the flat vector (`forN` = `for (i = 0; i < n; ++i)`,
`forR` = `for (i = lo; i < hi; ++i)`).  Two consequences of the code that the model reproduces on purpose:

* `resize`/`alloc` initialise new entries ONLY when the capacity is exceeded (`realloc` then copies the old
  `size_ × size_` corner into a vector filled with `defVal`).  Growing inside the capacity just moves `size_`: the new
  entries show whatever the cells hold (the constructor's `defVal`, or entries of an earlier, larger extent).
* `buildIndex`/`buildInvIndex` `resize` the output vector but never clear it: they APPEND to rows that are already there.

`assert`s are preconditions (the release build has none): the history interpreter `stepC` refuses a step whose
precondition fails (`none`), exactly as the harness does.  A constructor argument `rowSize = 0` is outside the model
(`grow` would shift `0` left for ever).
-/
namespace Vata
namespace BinRel

/-- `for (i = 0; i < n; ++i) s = f i s` -/
def forN {σ : Type} (n : Nat) (f : Nat → σ → σ) (s : σ) : σ := (List.range n).foldl (fun s i => f i s) s

/-- `for (i = lo; i < hi; ++i) s = f i s` -/
def forR {σ : Type} (lo hi : Nat) (f : Nat → σ → σ) (s : σ) : σ := (List.range' lo (hi - lo)).foldl (fun s i => f i s) s

/-- `std::vector<T>::resize(n, d)` -/
def resizeL {α : Type} (l : List α) (n : Nat) (d : α) : List α := l.take n ++ List.replicate (n - l.length) d

/-! ## `BinaryRelation` -/

/-- the three data members -/
structure Mat where
  data : Array Bool
  rowSize : Nat
  size : Nat
  deriving DecidableEq, Repr

namespace Mat

/-- `data_[r*rowSize_ + c]` -/
def get (m : Mat) (r c : Nat) : Bool := m.data.getD (r * m.rowSize + c) false

/-- `data_[r*rowSize_ + c] = v` -/
def set (m : Mat) (r c : Nat) (v : Bool) : Mat := { m with data := m.data.setIfInBounds (r * m.rowSize + c) v }

/-- `std::fill(data_.begin(), data_.end(), defVal)`: the whole capacity, not only the corner -/
def reset (m : Mat) (v : Bool) : Mat := { m with data := Array.replicate m.data.size v }

/-- `std::copy(src + so, src + so + n, dst + d0)` -/
def copyCells (src : Array Bool) (so n : Nat) (dst : Array Bool) (d0 : Nat) : Array Bool :=
  forN n (fun j t => t.setIfInBounds (d0 + j) (src.getD (so + j) false)) dst

/-- `realloc(newRowSize, defVal)`: the loop carries the iterators `src` and `dst` as offsets -/
def realloc (m : Mat) (nrs : Nat) (d : Bool) : Mat :=
  let st := forN m.size (fun _ (st : Array Bool × Nat × Nat) =>
    (copyCells m.data st.2.1 m.size st.1 st.2.2, st.2.1 + m.rowSize, st.2.2 + nrs)) (Array.replicate (nrs * nrs) d, 0, 0)
  { data := st.1, rowSize := nrs, size := m.size }

/-- `while (newRowSize <= newSize) newRowSize <<= 1;` with a bound on the number of rounds (structural recursion, so that
the kernel can evaluate it) -/
def growRowF : Nat → Nat → Nat → Nat
  | 0, rs, _ => rs
  | f + 1, rs, n => if 0 < rs ∧ rs ≤ n then growRowF f (rs <<< 1) n else rs

/-- the doubling loop of `grow`; `n + 1` rounds always suffice from a positive start (`growRow_spec`); the C++ does not
terminate from `0`, the model returns `0` -/
def growRow (rs n : Nat) : Nat := growRowF (n + 1) rs n

/-- `grow(newSize, defVal)` -/
def grow (m : Mat) (newSize : Nat) (d : Bool) : Mat := m.realloc (growRow m.rowSize newSize) d

/-- `resize(size, defVal)` -/
def resize (m : Mat) (n : Nat) (d : Bool) : Mat :=
  let m' := if m.rowSize < n then m.grow n d else m
  { m' with size := n }

/-- `if (size_ >= rowSize_) this->grow(size_ + 1);` – the common prologue of `alloc` and `split` -/
def ensure (m : Mat) : Mat := if m.size ≥ m.rowSize then m.grow (m.size + 1) false else m

/-- `alloc()`: the new relation and the returned index -/
def alloc (m : Mat) : Mat × Nat :=
  let m' := m.ensure
  ({ m' with size := m'.size + 1 }, m'.size)

/-- `split` after the prologue: column loop, row copy, diagonal bit – all in place on `data_` -/
def splitCore (m : Mat) (i : Nat) (refl : Bool) : Mat × Nat :=
  let rs := m.rowSize
  let n := m.size
  let d1 := forN n (fun r t => t.setIfInBounds (r * rs + n) (t.getD (r * rs + i) false)) m.data
  let d2 := forN n (fun c t => t.setIfInBounds (n * rs + c) (t.getD (i * rs + c) false)) d1
  let d3 := d2.setIfInBounds (n * rs + n) refl
  ({ data := d3, rowSize := rs, size := n + 1 }, n)

/-- `split(i, reflexive)` -/
def split (m : Mat) (i : Nat) (refl : Bool) : Mat × Nat := m.ensure.splitCore i refl

/-- `BinaryRelation(size, defVal, rowSize)` -/
def mk' (size : Nat) (d : Bool) (rs : Nat) : Mat :=
  ({ data := Array.replicate (rs * rs) d, rowSize := rs, size := 0 } : Mat).resize size d

/-- `BinaryRelation(const std::vector<std::vector<bool>>&)` -/
def ofRows (rows : List (List Bool)) : Mat :=
  let n := rows.length
  forN n (fun i m => forN n (fun j m => m.set i j ((rows.getD i []).getD j false)) m) ((mk' 0 false 16).resize n false)

/-- `sym(row, column)` -/
def sym (m : Mat) (r c : Nat) : Bool := m.get r c && m.get c r

/-- `operator&=` (`rhs` is read while `*this` changes; they may be the same object, see `andSelf`) -/
def andWith (m rhs : Mat) : Mat :=
  let n := m.size
  forN n (fun i a => forN n (fun j a => a.set i j (a.get i j && rhs.get i j)) a) m

/-- `r &= r` -/
def andSelf (m : Mat) : Mat :=
  let n := m.size
  forN n (fun i a => forN n (fun j a => a.set i j (a.get i j && a.get i j)) a) m

/-- `transposed(dst)` for `&dst != this` -/
def transposedInto (m dst : Mat) : Mat :=
  forN m.size (fun i d => forN m.size (fun j d => d.set j i (m.get i j)) d) (dst.resize m.size false)

/-- `r.transposed(r)`: source and destination are the same object -/
def transposedSelf (m : Mat) : Mat :=
  forN m.size (fun i d => forN m.size (fun j d => d.set j i (d.get i j)) d) (m.resize m.size false)

/-- `dst[r].push_back(x)` -/
def pushAt (dst : List (List Nat)) (r x : Nat) : List (List Nat) := dst.modify r (· ++ [x])

/-- `buildIndex(dst)`: `dst.resize(size_)` (no clearing), then every related column is appended to its row's list.
The C++ walks `data_` with iterators (`rowStart` advances by `rowSize_`, the inner loop runs over `size_` cells). -/
def buildIndex (m : Mat) (dst : List (List Nat)) : List (List Nat) :=
  forN m.size (fun r dst =>
    forN m.size (fun i dst => if m.data.getD (r * m.rowSize + i) false then pushAt dst r i else dst) dst)
    (resizeL dst m.size [])

/-- `buildInvIndex(dst)` -/
def buildInvIndex (m : Mat) (dst : List (List Nat)) : List (List Nat) :=
  forN m.size (fun i dst => forN m.size (fun j dst => if m.get i j then pushAt dst j i else dst) dst)
    (resizeL dst m.size [])

/-- `buildIndex(ind, inv)` -/
def buildIndex2 (m : Mat) (ind inv : List (List Nat)) : List (List Nat) × List (List Nat) :=
  forN m.size (fun i st => forN m.size (fun j (st : List (List Nat) × List (List Nat)) =>
      if m.get i j then (pushAt st.1 i j, pushAt st.2 j i) else st) st)
    (resizeL ind m.size [], resizeL inv m.size [])

/-- body of the inner loop of `RestrictToSymmetric` -/
def symStep (row : Nat) (m : Mat) (col : Nat) : Mat :=
  let res := m.get row col && m.get col row
  (m.set row col res).set col row res

/-- `for (col = row + 1; col < size; ++col)` -/
def symRow (n : Nat) (m : Mat) (row : Nat) : Mat := forR (row + 1) n (fun col m => symStep row m col) m

/-- `RestrictToSymmetric()` -/
def restrictToSymmetric (m : Mat) : Mat :=
  let n := m.size
  forN n (fun row a => symRow n a row) m

/-- body of the inner loop of `GetQuotientProjection` (`none` = `UNDEF_PROJ`; the `assert(UNDEF_PROJ == quotProj[col])`
is not there in a release build: the entry is overwritten) -/
def qpStep (m : Mat) (row : Nat) (proj : List (Option Nat)) (col : Nat) : List (Option Nat) :=
  if m.get row col then proj.set col (some row) else proj

/-- body of the outer loop of `GetQuotientProjection` -/
def qpRow (m : Mat) (proj : List (Option Nat)) (row : Nat) : List (Option Nat) :=
  if (proj.getD row none).isSome then proj
  else forR (row + 1) m.size (fun col proj => qpStep m row proj col) (proj.set row (some row))

/-- `GetQuotientProjection(quotProj)`: the vector is resized and every element overwritten with `UNDEF_PROJ` first, so
its previous content does not matter -/
def quotProj (m : Mat) : List (Option Nat) :=
  forN m.size (fun row proj => qpRow m proj row) (List.replicate m.size none)

/-- `operator<<` -/
def print (m : Mat) : String :=
  forN m.size (fun i s => forN m.size (fun j s => s ++ (if m.get i j then "1" else "0")) s ++ "\n") ""

/-- the `size × size` corner, row by row: the observable state, and the matrix of `Vata/ReduceModel.lean` -/
def toBMat (m : Mat) : BMat := (List.range m.size).map (fun r => (List.range m.size).map (fun c => m.get r c))

/-- Boolean test: the corner is an equivalence on the indices below `size` (`isEquivB_iff`) -/
def isEquivB (m : Mat) : Bool :=
  let ix := List.range m.size
  ix.all (fun i => m.get i i) &&
  ix.all (fun i => ix.all (fun j => !m.get i j || m.get j i)) &&
  ix.all (fun i => ix.all (fun j => ix.all (fun k => !(m.get i j && m.get j k) || m.get i k)))

/-- Boolean test: `sym` – the relation `buildClasses` looks at – is an equivalence below `size` (`isSymEquivB_sound`) -/
def isSymEquivB (m : Mat) : Bool :=
  let ix := List.range m.size
  ix.all (fun i => m.get i i) &&
  ix.all (fun i => ix.all (fun j => ix.all (fun k => !(m.sym i j && m.sym j k) || m.sym i k)))

end Mat

/-! ## `buildClasses` (the same code in `BinaryRelation` and `Identity`) -/

/-- `while ((j < head.size()) && !sym(i, head[j])) ++j;` -/
def findHead (sym : Nat → Nat → Bool) (i : Nat) (head : List Nat) : Nat := head.findIdx (fun h => sym i h)

/-- `buildClasses(headIndex)`: state = (`headIndex`, `head`); every element of `headIndex` is overwritten -/
def classes1 (sym : Nat → Nat → Bool) (n : Nat) : List Nat :=
  (forN n (fun i (st : List Nat × List Nat) =>
    let j := findHead sym i st.2
    if j < st.2.length then (st.1.set i (st.2.getD j 0), st.2) else (st.1.set i i, st.2 ++ [i]))
    (List.replicate n 0, [])).1

/-- `buildClasses(index, head)` -/
def classes2 (sym : Nat → Nat → Bool) (n : Nat) : List Nat × List Nat :=
  forN n (fun i (st : List Nat × List Nat) =>
    let j := findHead sym i st.2
    if j < st.2.length then (st.1.set i j, st.2) else (st.1.set i st.2.length, st.2 ++ [i]))
    (List.replicate n 0, [])

/-! ## `Identity` -/

/-- `Identity(size)`: everything the class offers, computed the way the class does -/
structure Ident where
  size : Nat
  deriving DecidableEq, Repr

namespace Ident
def get (_ : Ident) (r c : Nat) : Bool := r == c
def sym (_ : Ident) (r c : Nat) : Bool := r == c
def classes1 (a : Ident) : List Nat := BinRel.classes1 a.sym a.size
def classes2 (a : Ident) : List Nat × List Nat := BinRel.classes2 a.sym a.size
/-- `buildIndex(dst)` into an empty map, as an association list in key order -/
def buildIndex (a : Ident) : List (Nat × List Nat) := (List.range a.size).map (fun i => (i, [i]))
def print (a : Ident) : String :=
  forN a.size (fun i s => forN a.size (fun j s => s ++ (if a.get i j then "1" else "0")) s ++ "\n") ""
end Ident

/-! ## `DiscontBinaryRelation` -/

/-- `TwoWayDict` over two hash maps: `Insert` inserts into each direction unless that direction already has the key (the
`assert(false)` behind a clash is not there in a release build) -/
structure Dict where
  fwd : List (Nat × Nat)
  bwd : List (Nat × Nat)
  deriving DecidableEq, Repr

namespace Dict
def empty : Dict := ⟨[], []⟩
def insert (d : Dict) (k v : Nat) : Dict :=
  { fwd := if (d.fwd.lookup k).isSome then d.fwd else d.fwd ++ [(k, v)],
    bwd := if (d.bwd.lookup v).isSome then d.bwd else d.bwd ++ [(v, k)] }
/-- a dictionary filled pair by pair -/
def ofList (l : List (Nat × Nat)) : Dict := l.foldl (fun d p => d.insert p.1 p.2) empty
/-- `TranslateBwd` (`std::out_of_range` when the index is unknown) -/
def translateBwd (d : Dict) (i : Nat) : Except String Nat :=
  match d.bwd.lookup i with
  | some k => pure k
  | none => throw "out_of_range"
end Dict

/-- the data members (`transl_` is `dict_` plus the allocator `indexCnt_++`) -/
structure Disc where
  rel : Mat
  cnt : Nat
  dict : Dict
  deriving DecidableEq, Repr

namespace Disc

/-- `DiscontBinaryRelation(size, defVal, rowSize)` -/
def mk' (size : Nat) (d : Bool) (rs : Nat) : Disc := ⟨Mat.mk' size d rs, 0, Dict.empty⟩

/-- `DiscontBinaryRelation(rel, dict)`: NOTE `indexCnt_(0)` whatever the dictionary holds -/
def ofRel (rel : Mat) (dict : Dict) : Disc := ⟨rel, 0, dict⟩

/-- `transl_.at(x)` (const: throws for an unknown state) -/
def at' (d : Disc) (x : Nat) : Except String Nat :=
  match d.dict.fwd.lookup x with
  | some i => pure i
  | none => throw "runtime_error"

/-- `transl_[x]`: an unknown state gets the index `indexCnt_++` -/
def translate (d : Disc) (x : Nat) : Disc × Nat :=
  match d.dict.fwd.lookup x with
  | some i => (d, i)
  | none => ({ d with cnt := d.cnt + 1, dict := d.dict.insert x d.cnt }, d.cnt)

/-- the inner indices `get(row, column)` reads -/
def getIdx (d : Disc) (r c : Nat) : Except String (Nat × Nat) := do
  let a ← d.at' r
  let b ← d.at' c
  pure (a, b)

def get (d : Disc) (r c : Nat) : Except String Bool := do
  let (a, b) ← d.getIdx r c
  pure (d.rel.get a b)

/-- `set(row, column, value)` = `rel_.set(transl_[row], transl_[column], value)`; the order in which the two arguments
are evaluated is unspecified in C++ (`rtl`: the column is translated first, which is what g++ does); returns the inner
indices too (the precondition of `rel_.set` is about them) -/
def setIdx (d : Disc) (r c : Nat) (rtl : Bool) : Disc × Nat × Nat :=
  if rtl then
    let (d1, b) := d.translate c
    let (d2, a) := d1.translate r
    (d2, a, b)
  else
    let (d1, a) := d.translate r
    let (d2, b) := d1.translate c
    (d2, a, b)

def set (d : Disc) (r c : Nat) (v : Bool) (rtl : Bool) : Disc :=
  let (d', a, b) := d.setIdx r c rtl
  { d' with rel := d'.rel.set a b v }

def size (d : Disc) : Nat := d.rel.size

/-- `translateIndexToDiscont`: keys in the order of insertion into the result map; `std::out_of_range` as soon as an
inner index has no state -/
def translateIndex (d : Disc) (inner : List (List Nat)) : Except String (List (Nat × List Nat)) :=
  (inner.zip (List.range inner.length)).mapM (fun p => do
    let imgs ← p.1.mapM d.dict.translateBwd
    let k ← d.dict.translateBwd p.2
    pure (k, imgs))

def buildIndex (d : Disc) : Except String (List (Nat × List Nat)) := d.translateIndex (d.rel.buildIndex [])

def buildIndex2 (d : Disc) : Except String (List (Nat × List Nat) × List (Nat × List Nat)) := do
  let (a, b) := d.rel.buildIndex2 [] []
  let x ← d.translateIndex a
  let y ← d.translateIndex b
  pure (x, y)

def restrictToSymmetric (d : Disc) : Disc := { d with rel := d.rel.restrictToSymmetric }

/-- `GetQuotientProjection(quotProj)` into an empty map: pairs in insertion order -/
def quotProj (d : Disc) : Except String (List (Nat × Nat)) :=
  ((d.rel.quotProj.zip (List.range d.rel.size))).mapM (fun p => do
    let k ← d.dict.translateBwd p.2
    let v ← match p.1 with
      | some j => d.dict.translateBwd j
      | none => throw "undef"
    pure (k, v))

/-- the pairs `ToString` prints (iteration over `dict_` × `dict_`, here in the dictionary's insertion order; the C++
order is the hash map's) -/
def pairs (d : Disc) : Except String (List (Nat × Nat)) :=
  (d.dict.fwd.flatMap (fun p => d.dict.fwd.map (fun q => (p.1, q.1)))).filterMapM (fun pq => do
    let b ← d.get pq.1 pq.2
    pure (if b then some pq else none))

end Disc

/-! ## histories over a pool of live `BinaryRelation`s -/

/-- what a step returns besides the new pool -/
inductive Out where
  | none
  | nat (n : Nat)
  | bool (b : Bool)
  | onats (l : List (Option Nat))
  | nats (l : List Nat)
  | idx (l : List (List Nat))
  | idx2 (a b : List (List Nat))
  | classes (index head : List Nat)
  | text (s : String)
  deriving DecidableEq, Repr

inductive Op where
  | new (size : Nat) (d : Bool) (rs : Nat)
  | ofRows (rows : List (List Bool))
  | copy (k : Nat)
  | assign (k j : Nat)
  | set (k r c : Nat) (v : Bool)
  | reset (k : Nat) (v : Bool)
  | resize (k n : Nat) (d : Bool)
  | alloc (k : Nat)
  | split (k i : Nat) (refl : Bool)
  | transp (k j : Nat)
  | and (k j : Nat)
  | rsym (k : Nat)
  | get (k r c : Nat)
  | sym (k r c : Nat)
  | index (k : Nat) (pre : List (List Nat))
  | invIndex (k : Nat) (pre : List (List Nat))
  | index2 (k : Nat) (pre1 pre2 : List (List Nat))
  | quot (k : Nat)
  | classes1 (k : Nat)
  | classes2 (k : Nat)
  | print (k : Nat)
  deriving Repr

abbrev Pool := List Mat

/-- one step on the pool; `none` = the step is outside the contract (a dead index, an `assert` of the class, `rowSize = 0`,
rows of unequal length) and is not executed -/
def stepC (p : Pool) : Op → Option (Pool × Out)
  | .new size d rs => if 0 < rs then some (p ++ [Mat.mk' size d rs], .none) else none
  | .ofRows rows => if rows.all (fun r => r.length == rows.length) then some (p ++ [Mat.ofRows rows], .none) else none
  | .copy k => do let m ← p[k]?; some (p ++ [m], .none)
  | .assign k j => do let _ ← p[k]?; let m ← p[j]?; some (p.set k m, .none)
  | .set k r c v => do
    let m ← p[k]?
    if r < m.size ∧ c < m.size then some (p.set k (m.set r c v), .none) else none
  | .reset k v => do let m ← p[k]?; some (p.set k (m.reset v), .none)
  | .resize k n d => do let m ← p[k]?; some (p.set k (m.resize n d), .none)
  | .alloc k => do let m ← p[k]?; let r := m.alloc; some (p.set k r.1, .nat r.2)
  | .split k i refl => do
    let m ← p[k]?
    if i < m.size then let r := m.split i refl; some (p.set k r.1, .nat r.2) else none
  | .transp k j => do
    let m ← p[k]?
    let d ← p[j]?
    some (p.set j (if k = j then m.transposedSelf else m.transposedInto d), .none)
  | .and k j => do
    let m ← p[k]?
    let d ← p[j]?
    if m.size = d.size then some (p.set k (if k = j then m.andSelf else m.andWith d), .none) else none
  | .rsym k => do let m ← p[k]?; some (p.set k m.restrictToSymmetric, .none)
  | .get k r c => do
    let m ← p[k]?
    if r < m.size ∧ c < m.size then some (p, .bool (m.get r c)) else none
  | .sym k r c => do
    let m ← p[k]?
    if r < m.size ∧ c < m.size then some (p, .bool (m.sym r c)) else none
  | .index k pre => do let m ← p[k]?; some (p, .idx (m.buildIndex pre))
  | .invIndex k pre => do let m ← p[k]?; some (p, .idx (m.buildInvIndex pre))
  | .index2 k pre1 pre2 => do let m ← p[k]?; let r := m.buildIndex2 pre1 pre2; some (p, .idx2 r.1 r.2)
  | .quot k => do let m ← p[k]?; some (p, .onats m.quotProj)
  | .classes1 k => do let m ← p[k]?; some (p, .nats (classes1 m.sym m.size))
  | .classes2 k => do let m ← p[k]?; let r := classes2 m.sym m.size; some (p, .classes r.1 r.2)
  | .print k => do let m ← p[k]?; some (p, .text m.print)

/-- a whole history: refused steps leave the pool as it is and produce no output -/
def runC (p : Pool) : List Op → Pool × List (Option Out)
  | [] => (p, [])
  | op :: ops =>
    match stepC p op with
    | some (p', o) => let r := runC p' ops; (r.1, some o :: r.2)
    | none => let r := runC p ops; (r.1, none :: r.2)

end BinRel
end Vata
