import Vata.RcStoreX
import Vata.MtbddOps
/-!
# Histories whose `Rename` / `ExtendWith` calls respect the variable order (property C17, canonicity at store level)

Executable (decidable) side conditions on a history of `RcSX.Op`s (`Vata/RcStoreX.lean`) under which the second store
invariant `WfInv` ("every allocated inner node is reduced and its children carry smaller variables") survives the extended
operation set.

`OndriksMTBDD::renameNode` (`ondriks_mtbdd.hh` l. 427) does not test anything; it only `assert`s

    assert(lowTree != highTree);                              // after the two recursive calls
    if (IsInternal(lowTree))  assert(GetVarFromInternal(lowTree)  < newVar);
    if (IsInternal(highTree)) assert(GetVarFromInternal(highTree) < newVar);

`renOkT ren t` is exactly the conjunction of these assertions over the whole recursion on the diagram `t` (the WEAK condition,
`opOkW` / `MonoW`).  The condition of the task text, "the renamer is strictly monotone on the variables that occur below the
root", is `strictMonoOn ren (varsBelow s root)` (`opOk` / `Mono`); on an ordered, reduced diagram it implies the assertions
(`Vata/Proofs/RcStoreXWfRename.lean`).

`ExtendWith(asgn, offset)` (l. 595 → the 4-argument `constructMTBDD`, l. 162) stacks nodes with variables `offset + i` on top
of the root WITHOUT any test or assertion; the result is ordered iff the root variable is below `offset + k`, `k` the first
`ZERO` / `ONE` position of `asgn` (`opOkW`; `opOk` asks for the simpler `vltB offset (dat root)`; the only call in the library is `ExtendWith(prefix, SYMBOL_SIZE)` on diagrams over the symbol
variables `0 … SYMBOL_SIZE-1`).  Both conditions are checked only for the calls that are executed (operand live, target free).
-/
namespace Vata.RcSX
open Vata.R (Data)
open Vata.RcS

/-- the variables on the inner nodes of a diagram -/
def treeVars : M.Node Nat → List Nat
  | .leaf _ => []
  | .node x lo hi => x :: (treeVars lo ++ treeVars hi)

/-- the variables that occur below node `n` of the store -/
def varsBelow (s : Store) (n : Nat) : List Nat := treeVars (unfold s.dat (n+1) n)

/-- `ren` is strictly monotone on the variables of the list -/
def strictMonoOn (ren : Nat → Nat) (L : List Nat) : Bool :=
  L.all (fun x => L.all (fun y => !decide (x < y) || decide (ren x < ren y)))

/-- the root variable (if the root is an inner node) is smaller than `x` -/
def topLt (x : Nat) : M.Node Nat → Bool
  | .leaf _ => true
  | .node y _ _ => decide (y < x)

/-- the three `assert`s of `renameNode`, for every inner node of the diagram -/
def renOkT (ren : Nat → Nat) : M.Node Nat → Bool
  | .leaf _ => true
  | .node x lo hi =>
    decide (M.rename ren lo ≠ M.rename ren hi) &&            -- assert(lowTree != highTree);
    topLt (ren x) (M.rename ren lo) &&                        -- assert(GetVarFromInternal(lowTree) < newVar);
    topLt (ren x) (M.rename ren hi) &&                        -- assert(GetVarFromInternal(highTree) < newVar);
    renOkT ren lo && renOkT ren hi

/-- `IsLeaf(n) || GetVarFromInternal(n) < x` -/
def vltB (x : Nat) : Data → Bool
  | .leaf _ => true
  | .int _ _ y => decide (y < x)

/-- the index of the first `ZERO` / `ONE` position of a symbolic assignment: the loop of `constructMTBDD` spawns its first node
    (on top of the given root) for this position -/
def firstSet : List (Option Bool) → Option Nat
  | [] => none
  | none :: as => (firstSet as).map (· + 1)
  | some _ :: _ => some 0

/-- the side condition of one operation in store `s` (task text): an executed `rename` uses a renamer that is strictly monotone
    on the variables below the operand's root; an executed `extendWith` has an offset above the operand's root variable -/
def opOk (s : Store) : Op → Bool
  | .rename a dst tab =>
    match find a s.hs, find dst s.hs with
    | some ra, none => strictMonoOn (renOf tab) (varsBelow s ra)
    | _, _ => true
  | .extendWith a dst _ offset =>
    match find a s.hs, find dst s.hs with
    | some ra, none => vltB offset (s.dat ra)
    | _, _ => true
  | _ => true

/-- the weak (exact) side condition: an executed `rename` passes the `assert`s of `renameNode`; in an executed `extendWith` the
    first node that the loop stacks on the root (if there is a `ZERO` / `ONE` position at all) carries a variable above the
    operand's root variable -/
def opOkW (s : Store) : Op → Bool
  | .rename a dst tab =>
    match find a s.hs, find dst s.hs with
    | some ra, none => renOkT (renOf tab) (unfold s.dat (ra+1) ra)
    | _, _ => true
  | .extendWith a dst asgn offset =>
    match find a s.hs, find dst s.hs with
    | some ra, none =>
      match firstSet asgn with
      | none => true
      | some k => vltB (offset + k) (s.dat ra)
    | _, _ => true
  | _ => true

/-- every operation of the history satisfies `ok` in the store in which it is executed -/
def okFrom (ok : Store → Op → Bool) (F : Fns) : XStore → List Op → Bool
  | _, [] => true
  | x, op :: ops => ok x.st op && okFrom ok F (stepX F x op) ops

/-- `Mono F ops`: every executed `rename` of the history is strictly monotone on the variables that occur, every executed
    `extendWith` has its offset above the operand's root variable -/
def Mono (F : Fns) (ops : List Op) : Prop := okFrom opOk F xempty ops = true

/-- `MonoW F ops`: every executed `rename` passes the assertions of `renameNode`, every executed `extendWith` that builds a
    node builds it with a variable above the operand's root variable -/
def MonoW (F : Fns) (ops : List Op) : Prop := okFrom opOkW F xempty ops = true

instance (F : Fns) (ops : List Op) : Decidable (Mono F ops) := by unfold Mono; exact inferInstance
instance (F : Fns) (ops : List Op) : Decidable (MonoW F ops) := by unfold MonoW; exact inferInstance

/-- for a driver: does the history (with the leaf operations `stdFns` of `RcSX.run`) keep the store ordered and reduced;
    at a `rename` this is the conjunction of the assertions of `renameNode` (a debug build of the C++ aborts there iff it fails) -/
def monoW (ops : List Op) : Bool := okFrom opOkW stdFns xempty ops

end Vata.RcSX
