import Vata.UnionModel
import Vata.IsectModel
import Vata.IsectBU
/-!
# Executable models of `Union` / `Intersection` / `IntersectionBU` with CALLER-SUPPLIED translation maps, property C02

Definitions only (core Lean, can be linked into the driver); the theorems are in `Vata/Proofs/UnionIsectMaps*.lean`,
the user-facing statements in `Vata/Properties/C02_Maps.lean`.

## `Union` with ONE map object for both operands (`src/explicit_tree_union.cc`)

```
StateType stateCnt = 0;
for (const auto& statePair : *pTranslMapLhs) { stateCnt = std::max(stateCnt, statePair.second + 1); }
for (const auto& statePair : *pTranslMapRhs) { stateCnt = std::max(stateCnt, statePair.second + 1); }
auto translFunc = [&stateCnt](const StateType&){return stateCnt++;};
StateToStateTranslWeak stateTransLhs(*pTranslMapLhs, translFunc);
StateToStateTranslWeak stateTransRhs(*pTranslMapRhs, translFunc);
...
lhs.ReindexStates(res, stateTransLhs);
rhs.ReindexStates(res, stateTransRhs);
```
With `pTranslMapLhs == pTranslMapRhs` the two weak translators hold references to the SAME `unordered_map`; the second
pass therefore starts from the map as the first pass left it: a state number of `rhs` that already occurred in `lhs` (or
in the pre-filled map) is *known* and keeps the number given before.  `unionSameMapOrd` is exactly that: the counter
starts at `unionCnt m0 m0` (both loops run over the same entries), `weakTrAll` over the visiting order of `lhs`, then
`weakTrAll` over the visiting order of `rhs` CONTINUING WITH THE MAP AND THE COUNTER of the first pass.  `lhs` is
re-indexed with the map after the first pass, `rhs` with the map after the second pass (that is what the C++ does; the
second map extends the first, `unionSameMap_glues` shows the difference is invisible).

## `Intersection` with a pre-filled `ProductTranslMap` (`src/explicit_tree_isect.cc`)

```
for (const StateType& s : lhs.finalStates_) for (const StateType& t : rhs.finalStates_) {
    auto u = pTranslMap->insert(std::make_pair(std::make_pair(s, t), pTranslMap->size())).first;
    res.SetStateFinal(u->second);
    stack.push_back(&*u);                       // pushed whether or not the pair was new
}
...
auto u = pTranslMap->insert(std::make_pair(std::make_pair((*leftTuplePtr)[i], (*rightTuplePtr)[i]), pTranslMap->size()));
if (u.second) { stack.push_back(&*u.first); }   // a child pair is pushed ONLY when it was new
children.push_back(u.first->second);
```
* fresh numbers are `pTranslMap->size()` (there is no counter): with a pre-filled map the first fresh number is the
  number of entries of the map, whatever numbers the entries carry;
* pairs of final states are always put on the work-list (explored), also when they are pre-filled;
* a child pair that is found in the map is taken as *already done*: it is not put on the work-list, so a pre-filled pair
  that is not a pair of final states is NEVER explored and gets no rules.

`initPairs` is the first loop (push always), the work-list loop is `isectLoop` of `Vata/IsectModel.lean` unchanged
(`addPairs` pushes only new pairs).  `isectTDFrom A B m0 fuel` returns the loop's output as it is (no closure check as in
`isectTD`: with a pre-filled map the domain need not be closed); `none` = too little fuel, `isectFromFuel` is enough
(`isectTDFrom_total`).  A `PMap` stands for an `unordered_map`, so the keys of `m0` are meant to be distinct
(`m0.length` = `size()`).

## `IntersectionBU` with a pre-filled map (`src/explicit_tree_isect_bu.cc`)

The leaf phase and the loop of `Vata/IsectBU.lean` already take the map as a parameter; `isectBUFrom A B m0 fuel` starts
them from `m0` and returns the loop's output as it is (no certificate check: `buCertB` characterises the rules by the
whole domain of the map, which is wrong for pre-filled pairs that are never popped).
-/
namespace Vata

/-! ### Union, one map -/

/-- model of `Union(lhs, rhs, &m, &m)` for given visiting orders: the automaton and the (one) final map -/
def unionSameMapOrd (oA oB : List Nat) (A B : TA) (m0 : SMap) : TA × SMap :=
  let l := weakTrAll oA m0 (unionCnt m0 m0)
  let r := weakTrAll oB l.1 l.2
  (unionWith (applyMap l.1) (applyMap r.1) A B, r.1)

/-- model of `Union(lhs, rhs, &m, &m)` (list order replaces hash order) -/
def unionSameMap (A B : TA) (m0 : SMap) : TA × SMap :=
  unionSameMapOrd (visitOrder A) (visitOrder B) A B m0

/-! ### Intersection, pre-filled map -/

/-- the first loop of `Intersection`: `insert(make_pair(p, size()))`, `SetStateFinal`, `stack.push_back` (always);
returns the map, the stack and the numbers of the pairs (the final states of the result) -/
def initPairs : List (Nat × Nat) → PMap → List (Nat × Nat) → PMap × List (Nat × Nat) × List Nat
  | [], m, st => (m, st, [])
  | p :: ps, m, st =>
    match m.lookup p with
    | some n => let r := initPairs ps m (p :: st); (r.1, r.2.1, n :: r.2.2)
    | none => let r := initPairs ps (m ++ [(p, m.length)]) (p :: st); (r.1, r.2.1, m.length :: r.2.2)

/-- model of `Intersection(lhs, rhs, &m)` with `m = m0` on entry: the product and the map on exit -/
def isectTDFrom (A B : TA) (m0 : PMap) (fuel : Nat) : Option (TA × PMap) :=
  let i := initPairs (finalPairs A B) m0 []
  match isectLoop A B fuel i.1 i.2.1 [] with
  | none => none
  | some (m, rs) => some (⟨rs, i.2.2⟩, m)

/-- every pop is either one of the initial pushes or the push of a NEW pair of states -/
def isectFromFuel (A B : TA) : Nat := (finalPairs A B).length + A.states.length * B.states.length

/-- numbers below the size, different keys have different numbers (Boolean version of `Isx.MapOk`): what a map
returned by an earlier `Intersection` / `IntersectionBU` satisfies -/
def pmapOkB (m : PMap) : Bool := m.all (fun e => e.2 < m.length) && pmapInjB m

/-- every pre-filled pair is a pair of final states (explored anyway) or has no pair of matching rules (nothing to
explore) -/
def prefillOkB (A B : TA) (m0 : PMap) : Bool :=
  m0.all (fun e => (finalPairs A B).contains e.1 || (isectMatching A B e.1).isEmpty)

/-- the pairs that are popped from the work-list: pairs of final states and pairs that were not pre-filled -/
def exploredPairs (A B : TA) (m0 m : PMap) : List (Nat × Nat) :=
  m.dom.filter (fun pr => (finalPairs A B).contains pr || !m0.dom.contains pr)

/-! ### IntersectionBU, pre-filled map -/

/-- model of `IntersectionBU(lhs, rhs, &m)` with `m = m0` on entry -/
def isectBUFrom (A B : TA) (m0 : PMap) (fuel : Nat) : Option (TA × PMap) :=
  let l := buLeafPhase A B (buLeafPairs A B) m0 [] [] []
  match buLoop A B fuel l.1 l.2.1 [] l.2.2.1 l.2.2.2 with
  | none => none
  | some (m, rs, fs) => some (⟨rs, fs⟩, m)

end Vata
