import Vata.UnionModel
/-!
# `Union` with the start value of its ONE fresh-state counter as a parameter (properties C02 / C10 / C08)

Definitions only; theorems in `Vata/Proofs/UnionCounter.lean`, user-facing statements in
`Vata/Properties/C02_UnionCounter.lean`.

The same code occurs in `src/explicit_tree_union.cc`, `src/explicit_finite_aut_core.cc` (word automata),
`src/bdd_td_tree_aut_union.cc`, `src/bdd_bu_tree_aut_union.cc`:
```
StateType stateCnt = 0;                                                   // <- `c0` of the model: what the loops below leave
for (statePair : *pTranslMapLhs) stateCnt = std::max(stateCnt, statePair.second + 1);
for (statePair : *pTranslMapRhs) stateCnt = std::max(stateCnt, statePair.second + 1);
auto translFunc = [&stateCnt](const StateType&){return stateCnt++;};
StateToStateTranslWeak stateTransLhs(*pTranslMapLhs, translFunc);       // `weakTrAll oA mL c0`
StateToStateTranslWeak stateTransRhs(*pTranslMapRhs, translFunc);       // `weakTrAll oB mR` continuing the counter
```
`unionModelFromOrd c0` is `unionModelOrd` with the value of `stateCnt` before the first translation as a PARAMETER, so that
every way of computing the start (0 = the code before repairs D11/D19/D20, max over the keys, `second` without `+ 1`, the
repaired `max (second + 1)`) is an instance.  The three wrong variants are given as executable functions.
-/
namespace Vata

/-- `Union` whose counter starts at `c0`, for given visiting orders -/
def unionModelFromOrd (c0 : Nat) (oA oB : List Nat) (A B : TA) (mL mR : SMap) : TA × SMap × SMap :=
  let l := weakTrAll oA mL c0
  let r := weakTrAll oB mR l.2
  (unionWith (applyMap l.1) (applyMap r.1) A B, l.1, r.1)

/-- `Union` whose counter starts at `c0` (list order replaces hash order) -/
def unionModelFrom (c0 : Nat) (A B : TA) (mL mR : SMap) : TA × SMap × SMap :=
  unionModelFromOrd c0 (visitOrder A) (visitOrder B) A B mL mR

/-! ### the wrong ways of computing the start that have been seen or seeded -/

/-- the code before the repair: `StateType stateCnt = 0;` and no loop -/
def cntZero (_mL _mR : SMap) : Nat := 0

/-- seeded change: `statePair.first + 1` instead of `statePair.second + 1` in the loop over the RIGHT map -/
def cntKeysRight (mL mR : SMap) : Nat := mR.foldl (fun a e => max a (e.1 + 1)) (maxVal mL 0)

/-- seeded change: `statePair.second` instead of `statePair.second + 1` (both loops) -/
def cntNoSucc (mL mR : SMap) : Nat := mR.foldl (fun a e => max a e.2) (mL.foldl (fun a e => max a e.2) 0)

/-! ### the operands that expose a start value that is too small

`v` is a number that the map of ONE operand gives to its state `p`, `c0 ≤ v` the start of the counter, `d = v - c0`.
The OTHER operand (`chainTA`) has the `d + 1` states `K, K+1, …, K+d` (with `K` above the keys of its map, so all are
unknown to the translator), visited in this order (parent `K` of the first rule, then its children); they get the
numbers `c0, …, c0 + d = v`, so its state `K + d` – the target of the leaf rule `b → K + d` – is merged with the FINAL
state `p` of `pointTA p`.  Both operands have the EMPTY language (`chainTA` has no final state, `pointTA` no rule), the
result accepts the leaf `b`. -/

/-- one above the largest key of a map -/
def keyBound (m : SMap) : Nat := m.foldl (fun a e => max a (e.1 + 1)) 0

/-- no rule, the only final state is `p` -/
def pointTA (p : Nat) : TA := ⟨[], [p]⟩

/-- `g(K+1, …, K+d) → K`, `b → K+d`, no final state -/
def chainTA (K d : Nat) : TA := ⟨[⟨2, List.range' (K + 1) d, K⟩, ⟨1, [], K + d⟩], []⟩

/-- the leaf `b` -/
def leafB : Tree := .node 1 []

end Vata
