import Vata.InclUp
/-!
# Complementation over a ranked alphabet (property C06): reference and model of the C++ construction

* `complRef A Sg fuel` (L1 reference): bottom-up determinisation over the ranked alphabet `Sg`.  The states are the
  reachable profiles (`reach`-sets as sorted duplicate-free lists), numbered by their position in the list of discovered
  profiles; the automaton is complete over `Sg`; final are the profiles that contain no final state of `A`.
* `complTD A Sg fuel` (L2 model): `ExplicitDownwardComplementation::Compute` (`src/explicit_tree_comp_down.hh`)
  instantiated with the identity preorder as in `ExplicitTreeAutCore::Complement`, followed by `RemoveUselessStates`.
  A macro-state is a sorted duplicate-free list `P` of states of `A`, read "the tree is accepted from none of the states
  in `P`".  `stateCache` is the list of macro-states in discovery order (number = position); `todo` is the part of the
  cache not processed yet (FIFO; the C++ container is an address-ordered hash set, any order gives the same automaton up
  to the numbering).  For the picked `P` and every symbol `f/n`: `W` = the distinct children tuples of the `f`-rules
  whose parent is in `P`; the choice functions `W → {0..n-1}` are enumerated as `ChoiceFunction::next` does (first
  counter fastest); each gives the rule `f(P₀..Pₙ₋₁) → P` with `Pᵢ = {w[i] | c w = i}`.  The special cases of the code
  (`W` empty, rank `0`) are mirrored.  With the identity preorder `ind[s] = inv[s] = {s}`, so
  `post[i].contains/refine/insert` followed by `std::sort` is `normS`.
  The run ends *certify-then-trust*: the result is only returned after the Boolean check `tdCertB` (the cache starts with
  the set of final states, it is closed, and the rules are exactly the ones the cache prescribes).

Definitions only (core Lean); the theorems are in `Vata/Proofs/Compl.lean`.
-/
namespace Vata
namespace Compl

open InclUp (normS)

/-! ### lists of macro-states / profiles -/

/-- insertion keeping the list duplicate-free -/
def insM (x : List Nat) (l : List (List Nat)) : List (List Nat) := if l.contains x then l else l ++ [x]
def unionM (l₁ l₂ : List (List Nat)) : List (List Nat) := l₂.foldl (fun acc x => insM x acc) l₁
def dedupM (l : List (List Nat)) : List (List Nat) := unionM [] l

/-- all `n`-tuples over `P` -/
def tuplesM (P : List (List Nat)) : Nat → List (List (List Nat))
  | 0 => [[]]
  | n+1 => P.flatMap (fun p => (tuplesM P n).map (fun ps => p :: ps))

/-! ## 1. reference: bottom-up determinisation, complete over `Sg` -/

/-- the profiles of all trees `f(t₁..tₙ)`, `f/n ∈ Sg`, whose children have their profiles in `Ps` -/
def detStep (A : TA) (Sg : List (Nat × Nat)) (Ps : List (List Nat)) : List (List Nat) :=
  Sg.flatMap (fun fa => (tuplesM Ps fa.2).map (fun ps => normS (post A fa.1 ps)))

def detClosedB (A : TA) (Sg : List (Nat × Nat)) (Ps : List (List Nat)) : Bool :=
  (detStep A Sg Ps).all (fun p => Ps.contains p)

/-- saturation; `none` = fuel exhausted -/
def detSat (A : TA) (Sg : List (Nat × Nat)) : Nat → List (List Nat) → Option (List (List Nat))
  | 0, Ps => if detClosedB A Sg Ps then some Ps else none
  | n+1, Ps => if detClosedB A Sg Ps then some Ps else detSat A Sg n (unionM Ps (detStep A Sg Ps))

/-- the rules of the complete deterministic automaton on the profiles `Ps` -/
def detRules (A : TA) (Sg : List (Nat × Nat)) (Ps : List (List Nat)) : List Rule :=
  Sg.flatMap (fun fa => (tuplesM Ps fa.2).map (fun ps =>
    ⟨fa.1, ps.map (fun p => Ps.idxOf p), Ps.idxOf (normS (post A fa.1 ps))⟩))

/-- the profiles without a final state of `A` -/
def detFinal (A : TA) (Ps : List (List Nat)) : List Nat :=
  (Ps.filter (fun p => !accepting A p)).map (fun p => Ps.idxOf p)

def detAut (A : TA) (Sg : List (Nat × Nat)) (Ps : List (List Nat)) : TA := ⟨detRules A Sg Ps, detFinal A Ps⟩

/-- the reference complement of `A` over `Sg` -/
def complRef (A : TA) (Sg : List (Nat × Nat)) (fuel : Nat) : Option TA :=
  (detSat A Sg fuel []).map (detAut A Sg)

/-! ## 2. model of `ExplicitDownwardComplementation::Compute` + `RemoveUselessStates` -/

/-- `W`: the distinct children tuples of the `f/n`-rules whose parent is in the macro-state `P`
(`transitionIndex[state][symbol]`, duplicates removed through `tupleSet`) -/
def tdW (A : TA) (P : List Nat) (f n : Nat) : List (List Nat) :=
  dedupM (P.flatMap (fun q =>
    (A.rules.filter (fun r => r.parent == q && r.sym == f && r.kids.length == n)).map (·.kids)))

/-- the choice functions `{0..k-1} → {0..n-1}` in the order of `ChoiceFunction::next` (counter `0` fastest) -/
def choices : Nat → Nat → List (List Nat)
  | 0, _ => [[]]
  | k+1, n => (choices k n).flatMap (fun rest => (List.range n).map (fun i => i :: rest))

/-- `post[i]` after the inner loop, sorted: the `i`-th children of the tuples that the choice function sends to `i` -/
def macroAt (W : List (List Nat)) (c : List Nat) (i : Nat) : List Nat :=
  normS (((W.zip c).filter (fun wc => wc.2 == i)).map (fun wc => wc.1.getD i 0))

/-- the tuple `P₀..Pₙ₋₁` of macro-states of a choice function -/
def macros (W : List (List Nat)) (c : List Nat) (n : Nat) : List (List Nat) := (List.range n).map (macroAt W c)

structure St where
  /-- `stateCache`: macro-states in discovery order, the number of a macro-state is its position -/
  cache : List (List Nat)
  /-- the transitions of `dst` -/
  rules : List Rule

/-- `stateCache.insert(make_pair(P, stateCache.size()))`: the new cache and the number of `P` -/
def addMacro (cache : List (List Nat)) (P : List Nat) : List (List Nat) × Nat :=
  if cache.contains P then (cache, cache.idxOf P) else (cache ++ [P], cache.length)

/-- the loop `for (i = 0; i < arity; ++i)` that looks up / inserts the macro-states and fills `stateTuple` -/
def addMacros (cache : List (List Nat)) : List (List Nat) → List (List Nat) × List Nat
  | [] => (cache, [])
  | P :: Ps =>
    let r := addMacro cache P
    let rs := addMacros r.1 Ps
    (rs.1, r.2 :: rs.2)

/-- `dst.AddTransition` (the transitions form a set) -/
def insRule (r : Rule) (rs : List Rule) : List Rule := if rs.contains r then rs else rs ++ [r]

/-- the body of `do … while (choiceFunction.next())` for the macro-state number `k` -/
def procChoice (f n : Nat) (W : List (List Nat)) (k : Nat) (st : St) (c : List Nat) : St :=
  let r := addMacros st.cache (macros W c n)
  ⟨r.1, insRule ⟨f, r.2, k⟩ st.rules⟩

/-- the body of `for (auto symbolIndexPair : symbolMap)` for the macro-state `P` with number `k` -/
def procSym (A : TA) (P : List Nat) (k : Nat) (st : St) (fa : Nat × Nat) : St :=
  let W := tdW A P fa.1 fa.2
  if W.isEmpty then
    if fa.2 == 0 then ⟨st.cache, insRule ⟨fa.1, [], k⟩ st.rules⟩
    else
      let r := addMacro st.cache []
      ⟨r.1, insRule ⟨fa.1, List.replicate fa.2 r.2, k⟩ st.rules⟩
  else if fa.2 == 0 then st
  else (choices W.length fa.2).foldl (procChoice fa.1 fa.2 W k) st

/-- `while (todo.size())`: `k` is the number of the next macro-state to process; one unit of fuel per macro-state -/
def loop (A : TA) (Sg : List (Nat × Nat)) : Nat → Nat → St → Option St
  | 0, _, _ => none
  | fuel+1, k, st =>
    match st.cache[k]? with
    | none => some st
    | some P => loop A Sg fuel (k+1) (Sg.foldl (procSym A P k) st)

/-- the construction proper (`Compute`): the cache and the rules; the final state is `0` -/
def tdRun (A : TA) (Sg : List (Nat × Nat)) (fuel : Nat) : Option St :=
  loop A Sg fuel 0 ⟨[normS A.final], []⟩

/-! ### the certificate -/

/-- the rules prescribed by a cache -/
def tdExpected (A : TA) (Sg : List (Nat × Nat)) (cache : List (List Nat)) : List Rule :=
  cache.flatMap (fun P => Sg.flatMap (fun fa =>
    let W := tdW A P fa.1 fa.2
    (choices W.length fa.2).map (fun c => ⟨fa.1, (macros W c fa.2).map (fun Q => cache.idxOf Q), cache.idxOf P⟩)))

/-- every macro-state of every prescribed rule is in the cache -/
def tdClosedB (A : TA) (Sg : List (Nat × Nat)) (cache : List (List Nat)) : Bool :=
  cache.all (fun P => Sg.all (fun fa =>
    let W := tdW A P fa.1 fa.2
    (choices W.length fa.2).all (fun c => (macros W c fa.2).all (fun Q => cache.contains Q))))

def tdCertB (A : TA) (Sg : List (Nat × Nat)) (st : St) : Bool :=
  st.cache.head? == some (normS A.final) && tdClosedB A Sg st.cache && rulesEq st.rules (tdExpected A Sg st.cache)

/-- model of `ExplicitTreeAutCore::Complement`; `none` = fuel exhausted (or, never observed, a failed certificate) -/
def complTD (A : TA) (Sg : List (Nat × Nat)) (fuel : Nat) : Option TA :=
  match tdRun A Sg fuel with
  | none => none
  | some st => if tdCertB A Sg st then some (removeUseless ⟨st.rules, [0]⟩) else none

/-! ### examples and self-tests (`isComplM` is the exact decider of the complement property) -/
namespace Ex

/-- alphabet `{a/0, f/2}` -/
def sg : List (Nat × Nat) := [(0, 0), (1, 2)]
/-- with the additional unary symbol `g/1` -/
def sg3 : List (Nat × Nat) := [(0, 0), (1, 2), (2, 1)]
/-- nullary symbols only -/
def sg0 : List (Nat × Nat) := [(0, 0), (3, 0)]

/-- accepts every tree over `sg` -/
def aAll : TA := ⟨[⟨0, [], 0⟩, ⟨1, [0, 0], 0⟩], [0]⟩
/-- accepts nothing -/
def aNone : TA := ⟨[], []⟩
/-- nondeterministic (state `0` accepts everything, `2` guesses a subtree `f(a, a)`): every tree over `sg` but `a` -/
def aND : TA := ⟨[⟨0, [], 0⟩, ⟨1, [0, 0], 0⟩, ⟨0, [], 1⟩, ⟨1, [1, 1], 2⟩, ⟨1, [2, 0], 2⟩, ⟨1, [0, 2], 2⟩], [2]⟩
/-- only the leaf `a` -/
def aLeaf : TA := ⟨[⟨0, [], 0⟩], [0]⟩
/-- nondeterministic (`a` is read into `0` or `1`): the trees `f(a, t)`, `t` arbitrary over `sg` -/
def aLeft : TA := ⟨[⟨0, [], 0⟩, ⟨0, [], 1⟩, ⟨1, [1, 1], 1⟩, ⟨1, [0, 1], 2⟩], [2]⟩

def okRef (A : TA) (Sg : List (Nat × Nat)) : Bool :=
  match complRef A Sg 20 with
  | some C => isComplM C A Sg 50 == some true
  | none => false

def okTD (A : TA) (Sg : List (Nat × Nat)) : Bool :=
  match complTD A Sg 50 with
  | some C => isComplM C A Sg 50 == some true
  | none => false

#guard okRef aAll sg
#guard okRef aNone sg
#guard okRef aND sg
#guard okRef aND sg3
#guard okRef aLeaf sg0
#guard okRef aLeaf sg
#guard okRef aLeft sg
#guard okRef aLeft sg3
#guard okRef aNone sg0
#guard okRef aAll []

#guard okTD aAll sg
#guard okTD aNone sg
#guard okTD aND sg
#guard okTD aND sg3
#guard okTD aLeaf sg0
#guard okTD aLeaf sg
#guard okTD aLeft sg
#guard okTD aLeft sg3
#guard okTD aNone sg0
#guard okTD aAll []

-- `A` accepts everything: the trimmed complement is empty
#guard (complTD aAll sg 50).map (fun C => (C.rules.length, C.final)) == some (0, [])
#guard (complRef aAll sg 20).map (fun C => C.final) == some []
-- `A` is empty: one macro-state `[]`, one rule per symbol
#guard (complTD aNone sg 50).map (fun C => C.rules) == some [⟨0, [], 0⟩, ⟨1, [0, 0], 0⟩]
-- both complements are language-equivalent
#guard (do let C ← complRef aND sg3 20; let D ← complTD aND sg3 50; equivM C D 50) == some true
-- the fuel bound is observed
#guard (complTD aND sg 2).isNone

end Ex

end Compl
end Vata
