/-!
# The utility classes inside the LTS simulation engine, AS CODED (supports C16, C04)

`Vata/LtsEngine.lean` models `SimulationEngine` with five helper classes abstracted to values.  This file models the
classes themselves, the way they are written: arrays with index arithmetic, reference counts stored in memory cells,
singly / doubly linked cells in a heap of addresses, free lists of reclaimed objects.

| C++ class (file)                                                  | here     | value in `Vata/LtsEngine.lean`                   |
|-------------------------------------------------------------------|----------|--------------------------------------------------|
| `SmartSet` (`include/vata/util/smart_set.hh`)                     | `LU.SS`  | `List (Nat × Nat)` with `insAdd`/`insRemove`     |
| `SharedCounter` (`src/util/shared_counter.hh`)                    | `LU.SC`  | `cnt[block][label][state]`                       |
| `SharedList` (`src/util/shared_list.hh`)                          | `LU.SL`  | `RemList` = segments, newest first, `sharedId`   |
| `CachingAllocator`, `CachingArrayAllocator` (`caching_allocator.hh`)| `LU.CA` (and inside `SC`, `SL`, `SR`) | no counterpart               |
| `SplittingRelation` (`src/util/splitting_relation.hh`)            | `LU.SR`  | `List (List Nat)` rows, `relSplit`, `filter`     |

Conventions.
* A heap is `Heap α` (address ↦ cell, `get`/`set` with `Heap.get_set`); fresh addresses come from a counter and are
  never reused by the model's `new`, so a dangling pointer stays recognisable.  Memory handed to a caching allocator's
  free list is NOT freed (the C++ keeps it, too): its stale content stays readable and is modelled.
* Every operation returns `Option`: `none` = the C++ has no defined behaviour there (a violated `assert`, an index out of
  range, a null / dangling pointer dereference, a loop that does not terminate).
* Each class has `Op`, `step` (one call on a world of several live objects, returning the observable result of the
  call) – the functions the history theorems in `Vata/Proofs/LtsUtil*.lean` are about and the ones the driver
  (`Driver/LtsUtilChk.lean`) runs against the real classes (`harness/op_ltsutil.inc`).
* The second half of each section is the VALUE the engine model uses for the class (`A…` definitions: abstract state,
  abstract step, the call discipline `ok` as a Boolean).  They are stated without importing `Vata/LtsEngine.lean`; the
  proofs file shows they are the functions used there (`insAdd`, `insRemove`, `relSplit`, `enqueueToRemove`, …).

Definitions only, core Lean, no imports.
-/
namespace Vata.LU

/-! ## heaps -/

/-- address ↦ cell; reading an address never written gives `default` -/
structure Heap (α : Type) where
  data : List α

namespace Heap
variable {α : Type} [Inhabited α]

def empty : Heap α := ⟨[]⟩

def get (h : Heap α) (a : Nat) : α := h.data.getD a default

def set (h : Heap α) (a : Nat) (v : α) : Heap α :=
  ⟨if a < h.data.length then h.data.set a v else h.data ++ List.replicate (a - h.data.length) default ++ [v]⟩

theorem get_empty (a : Nat) : (empty : Heap α).get a = default := by
  simp [empty, get]

theorem get_set (h : Heap α) (a b : Nat) (v : α) : (h.set a v).get b = if b = a then v else h.get b := by
  unfold get set
  simp only [List.getD_eq_getElem?_getD]
  split
  · rename_i hlt
    rw [List.getElem?_set]
    by_cases hb : b = a
    · subst hb; simp [hlt]
    · have : ¬ a = b := fun e => hb e.symm
      simp [this, hb]
  · rename_i hlt
    have hle : h.data.length ≤ a := Nat.le_of_not_lt hlt
    rw [List.getElem?_append, List.getElem?_append]
    simp only [List.length_append, List.length_replicate, List.getElem?_replicate]
    by_cases hb : b = a
    · subst hb
      have h1 : ¬ (b < h.data.length + (b - h.data.length)) := by omega
      have h2 : b - (h.data.length + (b - h.data.length)) = 0 := by omega
      simp [h1, h2]
    · by_cases hb1 : b < h.data.length
      · have : b < h.data.length + (a - h.data.length) := by omega
        simp [hb, hb1, this]
      · have hn : h.data[b]? = none := List.getElem?_eq_none (Nat.le_of_not_lt hb1)
        by_cases hb3 : b < a
        · have h1 : b < h.data.length + (a - h.data.length) := by omega
          have h2 : b - h.data.length < a - h.data.length := by omega
          simp [hb, hb1, h1, h2]
        · have h1 : ¬ b < h.data.length + (a - h.data.length) := by omega
          have h2 : 1 ≤ b - (h.data.length + (a - h.data.length)) := by omega
          have h3 : ([v] : List α)[b - (h.data.length + (a - h.data.length))]? = none :=
            List.getElem?_eq_none (by simpa using h2)
          simp [hb, h1, hn, h3]

@[simp] theorem get_set_same (h : Heap α) (a : Nat) (v : α) : (h.set a v).get a = v := by simp [get_set]

theorem get_set_ne (h : Heap α) {a b : Nat} (v : α) (hne : b ≠ a) : (h.set a v).get b = h.get b := by simp [get_set, hne]

end Heap

/-- `x - 1` on `size_t` -/
def dec64 (x : Nat) : Nat := if x = 0 then 2 ^ 64 - 1 else x - 1

/-! ## `CachingAllocator<T>` / `CachingArrayAllocator<T>` on its own

`store_` is the list `free` (head = `store_.back()`); objects are addresses; `next` numbers the objects obtained from
`new T()` / `::operator new`; `inits` counts the calls of the initializer functor (called on EVERY allocation, fresh or
recycled). -/
namespace CA

structure T where
  free : List Nat
  next : Nat
  inits : Nat
deriving Repr, DecidableEq

def mk : T := ⟨[], 0, 0⟩

/-- `operator()()` -/
def alloc (a : T) : Nat × T :=
  match a.free with
  | p :: f => (p, { a with free := f, inits := a.inits + 1 })
  | [] => (a.next, { a with next := a.next + 1, inits := a.inits + 1 })

/-- `reclaim(ptr)` -/
def reclaim (a : T) (p : Nat) : T := { a with free := p :: a.free }

inductive Op
  | alloc
  | reclaim (p : Nat)
deriving Repr, DecidableEq

/-- result: the address returned by `alloc` -/
def step (a : T) : Op → T × List Nat
  | .alloc => let r := alloc a; (r.2, [r.1])
  | .reclaim p => (reclaim a p, [])

/-- the value: the set of LIVE objects (handed out and not reclaimed), as a list -/
abbrev A := List Nat

/-- discipline: only a live object is reclaimed (once) -/
def ok (live : A) : Op → Bool
  | .alloc => true
  | .reclaim p => live.contains p

def aStep (live : A) (out : List Nat) : Op → A
  | .alloc => out ++ live
  | .reclaim p => live.filter (· != p)

end CA

/-! ## `SmartSet`

`Element { next, key, count }` cells in a heap; address `0` is the embedded sentinel `head_`; `index_[key]` is the address
of the PREDECESSOR of the element of `key` (or `nullptr`).  `delete` makes the address dead (`none`). -/
namespace SS

structure Cell where
  next : Option Nat
  key : Nat
  count : Nat
deriving Repr, DecidableEq

structure T where
  heap : Heap (Option Cell)
  nextAddr : Nat
  last : Nat
  size : Nat
  index : List (Option Nat)

/-- `SmartSet(range)` -/
def mk (range : Nat) : T :=
  { heap := Heap.empty.set 0 (some ⟨none, 0, 0⟩), nextAddr := 1, last := 0, size := 0, index := List.replicate range none }

/-- `insert(key)`: the state and the address of the element whose `count` is returned by reference -/
def insert (s : T) (key : Nat) : Option (T × Nat) :=
  if key < s.index.length then
    match s.index.getD key none with
    | some prev =>
      match s.heap.get prev with
      | none => none
      | some pc =>
        match pc.next with
        | none => none
        | some e => some (s, e)
    | none =>
      match s.heap.get s.last with
      | none => none     -- `last_` dangles
      | some pc =>
        some ({ s with
                heap := (s.heap.set s.last (some { pc with next := some s.nextAddr })).set s.nextAddr (some ⟨none, key, 0⟩)
                nextAddr := s.nextAddr + 1, last := s.nextAddr, size := s.size + 1
                index := s.index.set key (some s.last) }, s.nextAddr)
  else none

def setCount (s : T) (a : Nat) (f : Nat → Nat) : Option T :=
  match s.heap.get a with
  | none => none
  | some c => some { s with heap := s.heap.set a (some { c with count := f c.count }) }

/-- `add(key)` = `++insert(key)` -/
def add (s : T) (key : Nat) : Option T :=
  match insert s key with
  | none => none
  | some (s1, a) => setCount s1 a (· + 1)

/-- `erase(prev)` with `prev` = the reference `index_[key]`.  NOTE: `last_` is not touched (as coded). -/
def erase (s : T) (key prev : Nat) : Option T :=
  match s.heap.get prev with
  | none => none
  | some pc =>
    match pc.next with
    | none => none
    | some el =>
      match s.heap.get el with
      | none => none
      | some ec =>
        let heap1 := s.heap.set prev (some { pc with next := ec.next })
        let index1 : Option (List (Option Nat)) :=
          match ec.next with
          | none => some s.index
          | some n =>
            match heap1.get n with
            | none => none
            | some nc => if nc.key < s.index.length then some (s.index.set nc.key (some prev)) else none
        match index1 with
        | none => none
        | some ix => some { s with heap := heap1.set el none, size := s.size - 1, index := ix.set key none }

/-- `remove(key)` (`strict = false`) / `removeStrict(key)` -/
def remove (s : T) (key : Nat) (strict : Bool) : Option T :=
  if key < s.index.length then
    match s.index.getD key none with
    | none => if strict then none else some s
    | some prev =>
      match s.heap.get prev with
      | none => none
      | some pc =>
        match pc.next with
        | none => none
        | some el =>
          match s.heap.get el with
          | none => none
          | some ec => if ec.count = 1 then erase s key prev else setCount s el (· - 1)
  else none

/-- `init(key, count)` -/
def init (s : T) (key count : Nat) : Option T :=
  if count > 0 then
    match insert s key with
    | none => none
    | some (s1, a) => setCount s1 a (fun _ => count)
  else if key < s.index.length then
    match s.index.getD key none with
    | none => some s
    | some prev => erase s key prev
  else none

/-- follow `next` from a pointer (fuel = number of addresses ever allocated) -/
def walk (heap : Heap (Option Cell)) : Nat → Option Nat → Option (List (Nat × Cell))
  | _, none => some []
  | 0, some _ => none
  | fuel + 1, some a =>
    match heap.get a with
    | none => none
    | some c =>
      match walk heap fuel c.next with
      | none => none
      | some r => some ((a, c) :: r)

/-- the elements behind `head_` -/
def cells (s : T) : Option (List (Nat × Cell)) :=
  match s.heap.get 0 with
  | none => none
  | some h => walk s.heap s.nextAddr h.next

/-- iteration `begin() … end()` with the counts -/
def toList (s : T) : Option (List (Nat × Nat)) := (cells s).map (fun l => l.map (fun ac => (ac.2.key, ac.2.count)))

/-- `clear()` -/
def clear (s : T) : Option T :=
  match cells s, s.heap.get 0 with
  | some cs, some h =>
    if cs.all (fun ac => ac.2.key < s.index.length) then
      some { s with
             heap := (cs.foldl (fun hp ac => hp.set ac.1 none) s.heap).set 0 (some { h with next := none })
             index := cs.foldl (fun ix ac => ix.set ac.2.key none) s.index
             last := 0, size := 0 }
    else none
  | _, _ => none

/-- one round of the copy loops: `index_[key] = last_; last_->next = new Element(key, count); last_ = last_->next` -/
def pushElem (t : T) (kc : Nat × Nat) : Option T :=
  match t.heap.get t.last with
  | none => none
  | some lc =>
    if kc.1 < t.index.length then
      some { t with
             heap := (t.heap.set t.last (some { lc with next := some t.nextAddr })).set t.nextAddr (some ⟨none, kc.1, kc.2⟩)
             nextAddr := t.nextAddr + 1, last := t.nextAddr
             index := t.index.set kc.1 (some t.last) }
    else none

def fillFrom : T → List (Nat × Nat) → Option T
  | t, [] => some t
  | t, kc :: r =>
    match pushElem t kc with
    | none => none
    | some t1 => fillFrom t1 r

/-- `std::vector::resize(n, nullptr)` -/
def resizeIndex (ix : List (Option Nat)) (n : Nat) : List (Option Nat) := ix.take n ++ List.replicate (n - ix.length) none

/-- `this->assignFlat(s)` (`this ≠ &s`) -/
def assignFlat (t s : T) : Option T :=
  match toList s, clear t with
  | some src, some t1 =>
    match fillFrom { t1 with index := resizeIndex t1.index s.index.length, last := 0 } (src.map (fun kc => (kc.1, 1))) with
    | none => none
    | some t2 => some { t2 with size := s.size }
  | _, _ => none

/-- `SmartSet(const SmartSet& s)` -/
def copy (s : T) : Option T :=
  match toList s with
  | none => none
  | some src =>
    match fillFrom { mk s.index.length with size := s.size } src with
    | none => none
    | some t => some t

/-- `*this = s` (`this ≠ &s`; `assert(nullptr == head_.next)`) -/
def assign (t s : T) : Option T :=
  match toList s, t.heap.get 0 with
  | some src, some h =>
    if h.next.isSome then none else
    match fillFrom { t with index := resizeIndex (t.index.map (fun _ => none)) s.index.length, last := 0 } src with
    | none => none
    | some t2 => some { t2 with size := s.size }
  | _, _ => none

/-- `contains(key)` -/
def contains (s : T) (key : Nat) : Option Bool :=
  if key < s.index.length then some (s.index.getD key none).isSome else none

/-- `count(key)` -/
def count (s : T) (key : Nat) : Option Nat :=
  if key < s.index.length then
    match s.index.getD key none with
    | none => some 0
    | some prev =>
      match s.heap.get prev with
      | none => none
      | some pc =>
        match pc.next with
        | none => none
        | some e => (s.heap.get e).map (·.count)
  else none

/-- `empty()` -/
def isEmpty (s : T) : Option Bool := (s.heap.get 0).map (fun h => h.next.isNone)

/-! ### histories over several live sets -/

inductive Op
  | new (range : Nat)
  | add (i key : Nat)
  | remove (i key : Nat)
  | removeStrict (i key : Nat)
  | init (i key count : Nat)
  | clear (i : Nat)
  | assignFlat (i j : Nat)
  | copy (i : Nat)
  | assign (i j : Nat)
deriving Repr, DecidableEq

abbrev World := List T

def upd1 (w : World) (i : Nat) (r : Option T) : Option World := r.map (fun t => w.set i t)

def step (w : World) : Op → Option World
  | .new r => some (w ++ [mk r])
  | .add i k => match w[i]? with | some s => upd1 w i (add s k) | none => none
  | .remove i k => match w[i]? with | some s => upd1 w i (remove s k false) | none => none
  | .removeStrict i k => match w[i]? with | some s => upd1 w i (remove s k true) | none => none
  | .init i k c => match w[i]? with | some s => upd1 w i (init s k c) | none => none
  | .clear i => match w[i]? with | some s => upd1 w i (clear s) | none => none
  | .assignFlat i j => if i = j then none else match w[i]?, w[j]? with | some t, some s => upd1 w i (assignFlat t s) | _, _ => none
  | .copy i => match w[i]? with | some s => (copy s).map (fun t => w ++ [t]) | none => none
  | .assign i j => if i = j then some w else match w[i]?, w[j]? with | some t, some s => upd1 w i (assign t s) | _, _ => none

/-! ### the value: `(key, count)` pairs in iteration order -/

structure A where
  items : List (Nat × Nat)
  range : Nat
  /-- `last_` points to a deleted element (the element that was last has been erased since the last `clear`) -/
  dangling : Bool
deriving Repr, DecidableEq

def aAdd : List (Nat × Nat) → Nat → List (Nat × Nat)
  | [], a => [(a, 1)]
  | (b, c) :: s, a => if b == a then (b, c + 1) :: s else (b, c) :: aAdd s a

def aRemove : List (Nat × Nat) → Nat → List (Nat × Nat)
  | [], _ => []
  | (b, c) :: s, a => if b == a then (if c ≤ 1 then s else (b, c - 1) :: s) else (b, c) :: aRemove s a

def aSet : List (Nat × Nat) → Nat → Nat → List (Nat × Nat)
  | [], a, n => [(a, n)]
  | (b, c) :: s, a, n => if b == a then (b, n) :: s else (b, c) :: aSet s a n

def aErase (l : List (Nat × Nat)) (a : Nat) : List (Nat × Nat) := l.filter (fun kc => kc.1 != a)

def aKeys (l : List (Nat × Nat)) : List Nat := l.map (·.1)

def aCount (l : List (Nat × Nat)) (a : Nat) : Nat := match l.find? (fun kc => kc.1 == a) with | some kc => kc.2 | none => 0

/-- does removing one occurrence of `a` delete the LAST element of the list? -/
def erasesLast (l : List (Nat × Nat)) (a : Nat) : Bool :=
  match l.getLast? with
  | some (b, c) => b == a && c ≤ 1
  | none => false

def aMk (range : Nat) : A := ⟨[], range, false⟩

abbrev AWorld := List A

/-- the call discipline.  `add`/`init` of a key that is not yet a member needs an intact `last_`; `removeStrict` needs a
member; `assign` needs an empty target; keys are below the range. -/
def ok (w : AWorld) : Op → Bool
  | .new _ => true
  | .add i k => match w[i]? with | some a => k < a.range && ((aKeys a.items).contains k || !a.dangling) | none => false
  | .remove i k => match w[i]? with | some a => k < a.range | none => false
  | .removeStrict i k => match w[i]? with | some a => k < a.range && (aKeys a.items).contains k | none => false
  | .init i k c => match w[i]? with
    | some a => k < a.range && (c == 0 || (aKeys a.items).contains k || !a.dangling)
    | none => false
  | .clear i => i < w.length
  | .assignFlat i j => i != j && i < w.length && j < w.length
  | .copy i => i < w.length
  | .assign i j => i < w.length && j < w.length && (i == j || match w[i]? with | some a => a.items.isEmpty | none => false)

def aStep (w : AWorld) : Op → AWorld
  | .new r => w ++ [aMk r]
  | .add i k => match w[i]? with | some a => w.set i { a with items := aAdd a.items k } | none => w
  | .remove i k | .removeStrict i k =>
    match w[i]? with
    | some a => w.set i { a with items := aRemove a.items k, dangling := a.dangling || erasesLast a.items k }
    | none => w
  | .init i k c =>
    match w[i]? with
    | some a =>
      if c > 0 then w.set i { a with items := aSet a.items k c }
      else w.set i { a with items := aErase a.items k,
                            dangling := a.dangling || (match a.items.getLast? with | some (b, _) => b == k | none => false) }
    | none => w
  | .clear i => match w[i]? with | some a => w.set i { a with items := [], dangling := false } | none => w
  | .assignFlat i j =>
    match w[i]?, w[j]? with
    | some _, some s => w.set i ⟨s.items.map (fun kc => (kc.1, 1)), s.range, false⟩
    | _, _ => w
  | .copy i => match w[i]? with | some a => w ++ [{ a with dangling := false }] | none => w
  | .assign i j =>
    if i = j then w else
    match w[i]?, w[j]? with
    | some _, some s => w.set i ⟨s.items, s.range, false⟩
    | _, _ => w

end SS

/-! ## `SharedCounter` (with the `CachingArrayAllocator<size_t>` it draws its rows from)

A row is an array of `rowSize + 1` numbers in `Mem.cells`; the cell `rowSize` (the LAST one) holds the reference count.
The allocator's initializer functor is a constructor parameter of the allocator: the engine passes none, the harness
passes "fill the row with `poison`" so that reads of never written cells are deterministic and visible. -/
namespace SC

structure Cfg where
  /-- `key_[label * states + state]`, `2^64 - 1` = no entry -/
  key : List Nat
  states : Nat
  /-- `labelMap_[label]` = (first row, one past the last row) -/
  labelMap : List (Nat × Nat)
  rowSize : Nat
  poison : Nat
deriving Repr, DecidableEq

/-- `SimulationEngine::getRowSize(states)` -/
def getRowSize (states : Nat) : Nat :=
  let treshold := Nat.sqrt states / 2
  let rec go : Nat → Nat → Nat
    | 0, r => r
    | fuel + 1, r => if r ≤ treshold then go fuel (r * 2) else r
  go 64 32 - 1

/-- the loop of `SimulationEngine::init` that fills `key_` and `labelMap_` from the sets `delta1[a]` (iteration order) -/
def mkLayout (rowSize states : Nat) (delta1 : List (List Nat)) : List Nat × List (Nat × Nat) :=
  let labels := delta1.length
  let init : List Nat × List (Nat × Nat) × Nat × Nat := (List.replicate (labels * states) (2 ^ 64 - 1), [], 0, 0)
  let r := delta1.foldl (fun (st : List Nat × List (Nat × Nat) × Nat × Nat) d =>
    let (key, lm, x, a) := st
    let n := d.length
    let lm1 := lm ++ [(x / rowSize, ((x + n + (2 ^ 64 - 1)) % 2 ^ 64) / rowSize + (if n > 0 then 1 else 0))]
    let kx := d.foldl (fun (kx : List Nat × Nat) q => (kx.1.set (a * states + q) kx.2, kx.2 + 1)) (key, x)
    (kx.1, lm1, kx.2, a + 1)) init
  (r.1, r.2.1)

def mkCfg (rowSize states poison : Nat) (delta1 : List (List Nat)) : Cfg :=
  let kl := mkLayout rowSize states delta1
  ⟨kl.1, states, kl.2, rowSize, poison⟩

structure Row where
  master : Nat
  data : Option Nat
deriving Repr, DecidableEq, Inhabited

structure Mem where
  cells : Heap (List Nat)
  free : List Nat
  next : Nat

abbrev Cnt := List Row

def Mem.empty : Mem := ⟨Heap.empty, [], 0⟩

def poisonRow (cfg : Cfg) : List Nat := List.replicate (cfg.rowSize + 1) cfg.poison

/-- `allocator_()` followed by the initializer -/
def alloc (cfg : Cfg) (m : Mem) : Nat × Mem :=
  match m.free with
  | p :: f => (p, { m with free := f, cells := m.cells.set p (poisonRow cfg) })
  | [] => (m.next, { m with next := m.next + 1, cells := m.cells.set m.next (poisonRow cfg) })

def reclaim (m : Mem) (p : Nat) : Mem := { m with free := p :: m.free }

def setCell (m : Mem) (p i v : Nat) : Mem := { m with cells := m.cells.set p ((m.cells.get p).set i v) }

def cell (m : Mem) (p i : Nat) : Nat := (m.cells.get p).getD i 0

/-- `(rowIndex, colIndex)` of `(label, state)` -/
def locate (cfg : Cfg) (label state : Nat) : Option (Nat × Nat) :=
  if label * cfg.states + state < cfg.key.length ∧ 0 < cfg.rowSize then
    some (cfg.key.getD (label * cfg.states + state) 0 / cfg.rowSize, cfg.key.getD (label * cfg.states + state) 0 % cfg.rowSize)
  else none

/-- `get(label, state)` -/
def get (cfg : Cfg) (m : Mem) (c : Cnt) (label state : Nat) : Option Nat :=
  match locate cfg label state with
  | none => none
  | some (r, col) =>
    match c[r]? with
    | none => none
    | some row =>
      match row.data with
      | none => some row.master
      | some p => some (cell m p col)

/-- `set(label, state, count)` -/
def set (cfg : Cfg) (m : Mem) (c : Cnt) (label state count : Nat) : Option (Mem × Cnt) :=
  match locate cfg label state with
  | none => none
  | some (r, col) =>
    match c[r]? with
    | none => none
    | some row =>
      if count = 0 then none
      else if row.master ≠ 0 then
        match row.data with
        | none => none
        | some p => some (setCell (setCell m p col count) p cfg.rowSize 1, c.set r ⟨row.master + count, some p⟩)
      else
        let pm := alloc cfg m
        some (setCell (setCell pm.2 pm.1 cfg.rowSize 0) pm.1 col count, c.set r ⟨count, some pm.1⟩)

/-- `decr(label, state)`: new memory, new counter, returned value -/
def decr (cfg : Cfg) (m : Mem) (c : Cnt) (label state : Nat) : Option (Mem × Cnt × Nat) :=
  match locate cfg label state with
  | none => none
  | some (r, col) =>
    match c[r]? with
    | none => none
    | some row =>
      if row.master = 0 then none
      else
        match row.data with
        | none => some (m, c.set r ⟨row.master - 1, none⟩, row.master - 1)
        | some p =>
          let v := cell m p col
          let rc := cell m p cfg.rowSize
          if row.master = v ∨ row.master = 2 then
            -- move everything to master
            let m1 := setCell m p cfg.rowSize (dec64 rc)
            some (if dec64 rc = 0 then reclaim m1 p else m1, c.set r ⟨row.master - 1, none⟩, dec64 v)
          else if rc > 1 then
            -- copy on write
            let m1 := setCell m p cfg.rowSize (rc - 1)
            let qm := alloc cfg m1
            let copied := (qm.2.cells.get p).take cfg.rowSize ++ (qm.2.cells.get qm.1).drop cfg.rowSize
            let m2 : Mem := { qm.2 with cells := qm.2.cells.set qm.1 copied }
            let m3 := setCell m2 qm.1 cfg.rowSize 1
            some (setCell m3 qm.1 col (dec64 (cell m3 qm.1 col)), c.set r ⟨row.master - 1, some qm.1⟩, dec64 (cell m3 qm.1 col))
          else
            some (setCell m p col (dec64 v), c.set r ⟨row.master - 1, some p⟩, dec64 v)

/-- `init()` -/
def initRows (cfg : Cfg) : Mem → List Row → Mem × List Row
  | m, [] => (m, [])
  | m, row :: rest =>
    match row.data with
    | none => let r := initRows cfg m rest; (r.1, row :: r.2)
    | some p =>
      if cell m p cfg.rowSize = 1 then let r := initRows cfg m rest; (r.1, row :: r.2)
      else let r := initRows cfg (reclaim m p) rest; (r.1, ⟨row.master, none⟩ :: r.2)

/-- `~SharedCounter()` -/
def destroyRows (cfg : Cfg) : Mem → List Row → Mem
  | m, [] => m
  | m, row :: rest =>
    match row.data with
    | none => destroyRows cfg m rest
    | some p =>
      let m1 := setCell m p cfg.rowSize (dec64 (cell m p cfg.rowSize))
      destroyRows cfg (if dec64 (cell m p cfg.rowSize) = 0 then reclaim m1 p else m1) rest

/-- `resize(rowCount)` -/
def resize (c : Cnt) (n : Nat) : Cnt := c.take n ++ List.replicate (n - c.length) ⟨0, none⟩

/-- the first loop of `copyLabels`: the row ranges of the labels, cut at the size of the other counter -/
def copyRanges (cfg : Cfg) (otherLen : Nat) : List Nat → Option (List (Nat × Nat))
  | [] => some []
  | l :: ls =>
    match cfg.labelMap[l]?, copyRanges cfg otherLen ls with
    | some lm, some r => if min otherLen lm.2 ≤ lm.1 then some r else some ((lm.1, min otherLen lm.2) :: r)
    | _, _ => none

/-- one row of the second loop (`done` = `rowMask`) -/
def copyRow (cfg : Cfg) (src : Cnt) (st : Mem × Cnt × List Nat) (i : Nat) : Mem × Cnt × List Nat :=
  if st.2.2.contains i then st
  else
    let s := src.getD i default
    let d := st.2.1.getD i default
    match s.data with
    | none => (st.1, st.2.1.set i ⟨s.master, d.data⟩, i :: st.2.2)
    | some p => (setCell st.1 p cfg.rowSize (cell st.1 p cfg.rowSize + 1), st.2.1.set i ⟨s.master, some p⟩, i :: st.2.2)

/-- `dst.copyLabels(labels, src)` (`&dst ≠ &src`) -/
def copyLabels (cfg : Cfg) (m : Mem) (dst : Cnt) (labels : List Nat) (src : Cnt) : Option (Mem × Cnt) :=
  match copyRanges cfg src.length labels with
  | none => none
  | some ranges =>
    let sent := ranges.foldl (fun s r => max s r.2) 0
    let r := ranges.foldl (fun st rg => (List.range' rg.1 (rg.2 - rg.1)).foldl (copyRow cfg src) st) (m, resize dst sent, [])
    some (r.1, r.2.1)

/-! ### histories: one allocator, several counters (`none` = destroyed) -/

structure World where
  mem : Mem
  cnts : List (Option Cnt)

def World.empty : World := ⟨Mem.empty, []⟩

inductive Op
  | new
  | copyCtor (i : Nat)
  | resize (i n : Nat)
  | set (i label state count : Nat)
  | init (i : Nat)
  | decr (i label state : Nat)
  | copyLabels (i j : Nat) (labels : List Nat)
  | destroy (i : Nat)
deriving Repr, DecidableEq

def World.cnt (w : World) (i : Nat) : Option Cnt := (w.cnts.getD i none)

/-- one call; the result list holds the value returned by `decr` -/
def step (cfg : Cfg) (w : World) : Op → Option (World × List Nat)
  | .new => some ({ w with cnts := w.cnts ++ [some []] }, [])
  | .copyCtor i => match w.cnt i with | some _ => some ({ w with cnts := w.cnts ++ [some []] }, []) | none => none
  | .resize i n => match w.cnt i with | some c => some ({ w with cnts := w.cnts.set i (some (resize c n)) }, []) | none => none
  | .set i a q n =>
    match w.cnt i with
    | some c => (set cfg w.mem c a q n).map (fun mc => (⟨mc.1, w.cnts.set i (some mc.2)⟩, []))
    | none => none
  | .init i =>
    match w.cnt i with
    | some c => let r := initRows cfg w.mem c; some (⟨r.1, w.cnts.set i (some r.2)⟩, [])
    | none => none
  | .decr i a q =>
    match w.cnt i with
    | some c => (decr cfg w.mem c a q).map (fun r => (⟨r.1, w.cnts.set i (some r.2.1)⟩, [r.2.2]))
    | none => none
  | .copyLabels i j labels =>
    if i = j then none else
    match w.cnt i, w.cnt j with
    | some d, some s => (copyLabels cfg w.mem d labels s).map (fun mc => (⟨mc.1, w.cnts.set i (some mc.2)⟩, []))
    | _, _ => none
  | .destroy i =>
    match w.cnt i with
    | some c => some (⟨destroyRows cfg w.mem c, w.cnts.set i none⟩, [])
    | none => none

/-! ### the value: a number per key index (`val`), defined for the rows below `rows` -/

inductive Phase
  | fresh      -- constructed, no rows yet
  | filling    -- `resize` done, `set` calls
  | running    -- after `init()` or `copyLabels`
deriving Repr, DecidableEq

structure A where
  rows : Nat
  val : List Nat           -- indexed by key index, length `rows * rowSize`
  phase : Phase
deriving Repr, DecidableEq

abbrev AWorld := List (Option A)

def keyIdx (cfg : Cfg) (label state : Nat) : Option Nat :=
  if label * cfg.states + state < cfg.key.length ∧ 0 < cfg.rowSize then some (cfg.key.getD (label * cfg.states + state) 0) else none

def A.at (a : A) (idx : Nat) : Nat := a.val.getD idx 0

/-- rows copied by `copyLabels` -/
def copiedRows (cfg : Cfg) (labels : List Nat) (srcRows : Nat) : List Nat :=
  (List.range srcRows).filter (fun r => labels.any (fun l =>
    match cfg.labelMap[l]? with
    | some lm => lm.1 ≤ r && r < lm.2
    | none => false))

/-- the call discipline of the engine -/
def ok (cfg : Cfg) (w : AWorld) : Op → Bool
  | .new => true
  | .copyCtor i => (w.getD i none).isSome
  | .resize i _ => match w.getD i none with | some a => a.phase == .fresh | none => false
  | .set i l q n =>
    match w.getD i none, keyIdx cfg l q with
    | some a, some idx => a.phase == .filling && n > 0 && idx < a.rows * cfg.rowSize && a.at idx == 0
    | _, _ => false
  | .init i => match w.getD i none with | some a => a.phase == .filling | none => false
  | .decr i l q =>
    match w.getD i none, keyIdx cfg l q with
    | some a, some idx => a.phase == .running && idx < a.rows * cfg.rowSize && a.at idx > 0
    | _, _ => false
  | .copyLabels i j labels =>
    i != j && labels.all (· < cfg.labelMap.length) &&
    match w.getD i none, w.getD j none with
    | some d, some s => d.phase == .fresh && s.phase == .running
    | _, _ => false
  | .destroy i => match w.getD i none with | some a => a.phase != .filling | none => false

def aStep (cfg : Cfg) (w : AWorld) : Op → AWorld
  | .new => w ++ [some ⟨0, [], .fresh⟩]
  | .copyCtor _ => w ++ [some ⟨0, [], .fresh⟩]
  | .resize i n => w.set i (some ⟨n, List.replicate (n * cfg.rowSize) 0, .filling⟩)
  | .set i l q n =>
    match w.getD i none, keyIdx cfg l q with
    | some a, some idx => w.set i (some { a with val := a.val.set idx n })
    | _, _ => w
  | .init i => match w.getD i none with | some a => w.set i (some { a with phase := .running }) | none => w
  | .decr i l q =>
    match w.getD i none, keyIdx cfg l q with
    | some a, some idx => w.set i (some { a with val := a.val.set idx (a.at idx - 1) })
    | _, _ => w
  | .copyLabels i j labels =>
    match w.getD j none with
    | some s =>
      let rows := copiedRows cfg labels s.rows
      let n := rows.foldl (fun m r => max m (r + 1)) 0
      w.set i (some ⟨n, (List.range (n * cfg.rowSize)).map (fun idx => if rows.contains (idx / cfg.rowSize) then s.at idx else 0),
                     .running⟩)
    | none => w
  | .destroy i => w.set i none

/-- the value `decr` must return -/
def aOut (cfg : Cfg) (w : AWorld) : Op → List Nat
  | .decr i l q =>
    match w.getD i none, keyIdx cfg l q with
    | some a, some idx => [a.at idx - 1]
    | _, _ => []
  | _ => []

end SC

/-! ## `SharedList<std::vector<size_t>>` with the two `CachingAllocator`s of the engine

`nodes` = `SharedList` objects `{ next_, subList_, refCount_ }`, `vecs` = the `std::vector<size_t>` sub-lists;
`nfree`/`vfree` = `removeAllocator_.store_` / `vectorAllocator_.store_`.  The initializer of the node allocator is the
engine's `SharedListInitF`: `sublist = vectorAllocator_(); sublist->clear(); list->init(sublist)`. -/
namespace SL

structure Node where
  next : Option Nat
  sub : Option Nat
  rc : Nat
deriving Repr, DecidableEq

instance : Inhabited Node := ⟨⟨none, none, 0⟩⟩

structure W where
  nodes : Heap Node
  vecs : Heap (List Nat)
  nfree : List Nat
  vfree : List Nat
  nnext : Nat
  vnext : Nat

def W.empty : W := ⟨Heap.empty, Heap.empty, [], [], 0, 0⟩

/-- `vectorAllocator_()` (`new std::vector<size_t>()` when the store is empty; a recycled vector keeps its content) -/
def allocVec (w : W) : Nat × W :=
  match w.vfree with
  | v :: f => (v, { w with vfree := f })
  | [] => (w.vnext, { w with vnext := w.vnext + 1, vecs := w.vecs.set w.vnext [] })

/-- `removeAllocator_()`: pop or `new SharedList()` (`next_ = nullptr, subList_ = nullptr, refCount_ = 1`), then the
initializer.  A recycled node keeps `next_` and `refCount_`. -/
def allocNode (w : W) : Nat × W :=
  let nw : Nat × W :=
    match w.nfree with
    | n :: f => (n, { w with nfree := f })
    | [] => (w.nnext, { w with nnext := w.nnext + 1, nodes := w.nodes.set w.nnext ⟨none, none, 1⟩ })
  let vw := allocVec nw.2
  (nw.1, { vw.2 with vecs := vw.2.vecs.set vw.1 [], nodes := vw.2.nodes.set nw.1 { vw.2.nodes.get nw.1 with sub := some vw.1 } })

/-- `list->subList_->push_back(v)` -/
def pushBack (w : W) (n x : Nat) : Option W :=
  match (w.nodes.get n).sub with
  | none => none
  | some v => some { w with vecs := w.vecs.set v (w.vecs.get v ++ [x]) }

def setNext (w : W) (n : Nat) (nx : Option Nat) : W := { w with nodes := w.nodes.set n { w.nodes.get n with next := nx } }

/-- `SharedList::append(list, v, allocator)`: new world, new value of the handle `list`, the returned flag -/
def append (w : W) (list : Option Nat) (x : Nat) : Option (W × Nat × Bool) :=
  match list with
  | none =>
    let nw := allocNode w
    (pushBack (setNext nw.2 nw.1 none) nw.1 x).map (fun w' => (w', nw.1, true))
  | some l =>
    if (w.nodes.get l).rc > 1 then
      let nw := allocNode w
      (pushBack (setNext nw.2 nw.1 (some l)) nw.1 x).map (fun w' => (w', nw.1, false))
    else (pushBack w l x).map (fun w' => (w', l, false))

/-- `copy()` -/
def copy (w : W) (l : Nat) : W := { w with nodes := w.nodes.set l { w.nodes.get l with rc := (w.nodes.get l).rc + 1 } }

/-- `unsafeRelease(deleter)` with the engine's deleter (`vectorAllocator_.reclaim(list->subList());
removeAllocator_.reclaim(list)`); also returns the nodes handed to the deleter, in order -/
def release : Nat → W → Option Nat → Option (W × List Nat)
  | _, w, none => some (w, [])
  | 0, _, some _ => none
  | fuel + 1, w, some e =>
    if (w.nodes.get e).rc = 1 then
      match (w.nodes.get e).sub with
      | none => none
      | some v =>
        match release fuel { w with vfree := v :: w.vfree, nfree := e :: w.nfree } (w.nodes.get e).next with
        | none => none
        | some (w', l) => some (w', e :: l)
    else some ({ w with nodes := w.nodes.set e { w.nodes.get e with rc := dec64 (w.nodes.get e).rc } }, [])

/-- `new RemoveList(new std::vector<size_t>(l))` (the lists made by `SimulationEngine::init`) -/
def newList (w : W) (l : List Nat) : Nat × W :=
  (w.nnext, { w with nnext := w.nnext + 1, vnext := w.vnext + 1,
                     nodes := w.nodes.set w.nnext ⟨none, some w.vnext, 1⟩, vecs := w.vecs.set w.vnext l })

/-- iteration `begin() … end()`; an empty sub-list makes the iterator run off the vector -/
def iter : Nat → W → Option Nat → Option (List Nat)
  | _, _, none => some []
  | 0, _, some _ => none
  | fuel + 1, w, some e =>
    match (w.nodes.get e).sub with
    | none => none
    | some v =>
      if (w.vecs.get v).isEmpty then none
      else (iter fuel w (w.nodes.get e).next).map (fun r => w.vecs.get v ++ r)

/-- the chain of nodes behind a handle -/
def chain : Nat → W → Option Nat → Option (List Nat)
  | _, _, none => some []
  | 0, _, some _ => none
  | fuel + 1, w, some e => (chain fuel w (w.nodes.get e).next).map (fun r => e :: r)

/-! ### histories: the handles `Block::remove_[a]` (slots) and the one list detached by `processRemove` -/

structure World where
  w : W
  slots : List (Option Nat)
  detached : Option Nat

def World.mk0 (n : Nat) : World := ⟨W.empty, List.replicate n none, none⟩

inductive Op
  | append (s x : Nat)          -- `enqueueToRemove`: `RemoveList::append(remove_[s], x, removeAllocator_)`
  | copy (s t : Nat)            -- `remove_[t] = remove_[s]->copy()`
  | newList (s : Nat) (l : List Nat)
  | take (s : Nat)              -- `remove = remove_[s]; remove_[s] = nullptr`, iterate it
  | release                     -- `remove->unsafeRelease(...)`
  | iter (s : Nat)
deriving Repr, DecidableEq

/-- result: `append` → `[flag]`; `take`/`iter` → the elements; `release` → the nodes given to the deleter -/
def step (W : World) : Op → Option (World × List Nat)
  | .append s x =>
    if s < W.slots.length then
      (append W.w (W.slots.getD s none) x).map (fun r => ({ W with w := r.1, slots := W.slots.set s (some r.2.1) }, [if r.2.2 then 1 else 0]))
    else none
  | .copy s t =>
    if s < W.slots.length ∧ t < W.slots.length then
      match W.slots.getD s none with
      | none => none
      | some l => some ({ W with w := copy W.w l, slots := W.slots.set t (some l) }, [])
    else none
  | .newList s l =>
    if s < W.slots.length then
      let nw := newList W.w l
      some ({ W with w := nw.2, slots := W.slots.set s (some nw.1) }, [])
    else none
  | .take s =>
    if s < W.slots.length ∧ W.detached.isNone then
      match W.slots.getD s none with
      | none => none
      | some l => (iter W.w.nnext W.w (some l)).map (fun r => ({ W with slots := W.slots.set s none, detached := some l }, r))
    else none
  | .release =>
    match W.detached with
    | none => none
    | some l => (release W.w.nnext W.w (some l)).map (fun r => ({ W with w := r.1, detached := none }, r.2))
  | .iter s =>
    if s < W.slots.length then
      (iter W.w.nnext W.w (W.slots.getD s none)).map (fun r => (W, r))
    else none

/-! ### the value: lists of segments `(id, vector)`, newest first; a node is shared iff its id occurs behind another handle -/

abbrev Seg := Nat × List Nat
abbrev RemList := List Seg

structure A where
  slots : List (Option RemList)
  detached : Option RemList
  nextId : Nat
deriving Repr, DecidableEq

def A.mk0 (n : Nat) : A := ⟨List.replicate n none, none, 0⟩

def flat (r : RemList) : List Nat := r.flatMap (·.2)

/-- the id occurs behind another handle (another slot or the detached list) -/
def sharedId (a : A) (s id : Nat) : Bool :=
  (List.range a.slots.length).any (fun s' => s' != s &&
    match a.slots.getD s' none with
    | none => false
    | some r => r.any (fun sg => sg.1 == id)) ||
  (match a.detached with
   | none => false
   | some r => r.any (fun sg => sg.1 == id))

/-- discipline of the engine: `copy` into an empty slot from a non-empty one; `newList` into an empty slot with a non-empty
vector; `take` of a non-empty slot while nothing is detached -/
def ok (a : A) : Op → Bool
  | .append s _ => s < a.slots.length
  | .copy s t => s < a.slots.length && t < a.slots.length && (a.slots.getD s none).isSome && (a.slots.getD t none).isNone
  | .newList s l => s < a.slots.length && (a.slots.getD s none).isNone && !l.isEmpty
  | .take s => s < a.slots.length && (a.slots.getD s none).isSome && a.detached.isNone
  | .release => a.detached.isSome
  | .iter s => s < a.slots.length

def aStep (a : A) : Op → A
  | .append s x =>
    match a.slots.getD s none with
    | none | some [] => { a with slots := a.slots.set s (some [(a.nextId, [x])]), nextId := a.nextId + 1 }
    | some ((id, seg) :: rest) =>
      if sharedId a s id then { a with slots := a.slots.set s (some ((a.nextId, [x]) :: (id, seg) :: rest)), nextId := a.nextId + 1 }
      else { a with slots := a.slots.set s (some ((id, seg ++ [x]) :: rest)) }
  | .copy s t => { a with slots := a.slots.set t (a.slots.getD s none) }
  | .newList s l => { a with slots := a.slots.set s (some [(a.nextId, l)]), nextId := a.nextId + 1 }
  | .take s => { a with slots := a.slots.set s none, detached := a.slots.getD s none }
  | .release => { a with detached := none }
  | .iter _ => a

/-- what the value says about the result of a call (`release` is not observable on values: `none`) -/
def aOut (a : A) : Op → Option (List Nat)
  | .append s _ => some [if (a.slots.getD s none).isNone then 1 else 0]
  | .take s | .iter s => some (match a.slots.getD s none with | some r => flat r | none => [])
  | .release => none
  | _ => some []

end SL

/-! ## `SplittingRelation`

Cells `Element { up_, down_, left_, right_, col_, row_ }`; the vectors `rows_`/`columns_` of `(first, second)` pointer
pairs double as the sentinels of the lists through the `offsetof` trick of `rowBegin`/`rowEnd`/`colBegin`/`colEnd`:
`rowBegin(i)->right_` IS `rows_[i].first`, `rowEnd(i)->left_` IS `rows_[i].second`, `colBegin(i)->down_` IS
`columns_[i].first`, `colEnd(i)->up_` IS `columns_[i].second`.  With the field order `up_, down_, left_, right_` and
16-byte pairs the arithmetic makes `rowEnd(i)` and `rowBegin(i+1)` the same address (likewise `colEnd(i)` =
`colBegin(i+1)`): one family of sentinels `rowS k` / `colS k` per direction.  Any other field of a sentinel lies in a
neighbouring vector element or outside the vector: `none`. -/
namespace SR

inductive Ptr
  | null
  | cell (a : Nat)
  /-- the fake element whose `right_` is `rows_[k].first` and whose `left_` is `rows_[k-1].second`:
  `rowBegin(k)` and `rowEnd(k-1)` are the SAME address -/
  | rowS (k : Nat)
  /-- the fake element whose `down_` is `columns_[k].first` and whose `up_` is `columns_[k-1].second`:
  `colBegin(k)` = `colEnd(k-1)` -/
  | colS (k : Nat)
deriving Repr, DecidableEq

/-- `rowBegin(i)` -/
abbrev Ptr.rowB (i : Nat) : Ptr := .rowS i
/-- `rowEnd(i)` -/
abbrev Ptr.rowE (i : Nat) : Ptr := .rowS (i + 1)
/-- `colBegin(i)` -/
abbrev Ptr.colB (i : Nat) : Ptr := .colS i
/-- `colEnd(i)` -/
abbrev Ptr.colE (i : Nat) : Ptr := .colS (i + 1)

instance : Inhabited Ptr := ⟨.null⟩

structure Cell where
  up : Ptr
  down : Ptr
  left : Ptr
  right : Ptr
  col : Nat
  row : Nat
deriving Repr, DecidableEq

instance : Inhabited Cell := ⟨⟨.null, .null, .null, .null, 0, 0⟩⟩

structure T where
  cells : Heap Cell
  next : Nat
  /-- `allocator_.store_`, head = back -/
  free : List Nat
  rows : List (Ptr × Ptr)
  cols : List (Ptr × Ptr)
  size : Nat

/-- `SplittingRelation(maxSize)` -/
def mk (maxSize : Nat) : T :=
  ⟨Heap.empty, 0, [], List.replicate maxSize (.null, .null), List.replicate maxSize (.null, .null), 0⟩

def getRight (s : T) : Ptr → Option Ptr
  | .cell a => some (s.cells.get a).right
  | .rowS i => (s.rows[i]?).map (·.1)
  | _ => none

def getLeft (s : T) : Ptr → Option Ptr
  | .cell a => some (s.cells.get a).left
  | .rowS (i + 1) => (s.rows[i]?).map (·.2)
  | _ => none

def getDown (s : T) : Ptr → Option Ptr
  | .cell a => some (s.cells.get a).down
  | .colS i => (s.cols[i]?).map (·.1)
  | _ => none

def getUp (s : T) : Ptr → Option Ptr
  | .cell a => some (s.cells.get a).up
  | .colS (i + 1) => (s.cols[i]?).map (·.2)
  | _ => none

def setRight (s : T) (p v : Ptr) : Option T :=
  match p with
  | .cell a => some { s with cells := s.cells.set a { s.cells.get a with right := v } }
  | .rowS i => if i < s.rows.length then some { s with rows := s.rows.set i (v, (s.rows.getD i default).2) } else none
  | _ => none

def setLeft (s : T) (p v : Ptr) : Option T :=
  match p with
  | .cell a => some { s with cells := s.cells.set a { s.cells.get a with left := v } }
  | .rowS (i + 1) => if i < s.rows.length then some { s with rows := s.rows.set i ((s.rows.getD i default).1, v) } else none
  | _ => none

def setDown (s : T) (p v : Ptr) : Option T :=
  match p with
  | .cell a => some { s with cells := s.cells.set a { s.cells.get a with down := v } }
  | .colS i => if i < s.cols.length then some { s with cols := s.cols.set i (v, (s.cols.getD i default).2) } else none
  | _ => none

def setUp (s : T) (p v : Ptr) : Option T :=
  match p with
  | .cell a => some { s with cells := s.cells.set a { s.cells.get a with up := v } }
  | .colS (i + 1) => if i < s.cols.length then some { s with cols := s.cols.set i ((s.cols.getD i default).1, v) } else none
  | _ => none

/-- `rows_[i].second = v` -/
def setRowSecond (s : T) (i : Nat) (v : Ptr) : Option T :=
  if i < s.rows.length then some { s with rows := s.rows.set i ((s.rows.getD i default).1, v) } else none

/-- `columns_[i].second = v` -/
def setColSecond (s : T) (i : Nat) (v : Ptr) : Option T :=
  if i < s.cols.length then some { s with cols := s.cols.set i ((s.cols.getD i default).1, v) } else none

/-- `allocator_()`: pop the free list (the cell keeps its stale fields) or `new Element()` -/
def alloc (s : T) : Nat × T :=
  match s.free with
  | p :: f => (p, { s with free := f })
  | [] => (s.next, { s with next := s.next + 1, cells := s.cells.set s.next default })

/-- the inner loop body of `init` for the element `(i, j)`: state, `lastV`, `last` -/
def initCell (i : Nat) (st : T × List Ptr × Ptr) (j : Nat) : Option (T × List Ptr × Ptr) :=
  match st.2.1[j]? with
  | none => none
  | some lv =>
    let a := st.1.next
    let s1 : T := { st.1 with next := a + 1, cells := st.1.cells.set a ⟨lv, .null, st.2.2, .null, j, i⟩ }
    match setDown s1 lv (.cell a) with
    | none => none
    | some s2 =>
      match setRight s2 st.2.2 (.cell a) with
      | none => none
      | some s3 => some (s3, st.2.1.set j (.cell a), .cell a)

def initCells (i : Nat) : T × List Ptr × Ptr → List Nat → Option (T × List Ptr × Ptr)
  | st, [] => some st
  | st, j :: js =>
    match initCell i st j with
    | none => none
    | some st1 => initCells i st1 js

/-- the outer loop of `init`: row `i` -/
def initRow (st : T × List Ptr) (irow : Nat × List Nat) : Option (T × List Ptr) :=
  match initCells irow.1 (st.1, st.2, .rowB irow.1) irow.2 with
  | none => none
  | some (s1, lastV, last) =>
    match setRight s1 last (.rowE irow.1) with
    | none => none
    | some s2 => (setRowSecond s2 irow.1 last).map (fun s3 => (s3, lastV))

def initRows : T × List Ptr → List (Nat × List Nat) → Option (T × List Ptr)
  | st, [] => some st
  | st, r :: rs =>
    match initRow st r with
    | none => none
    | some st1 => initRows st1 rs

/-- the last loop of `init`: close column `i` -/
def initCol (lastV : List Ptr) (s : T) (i : Nat) : Option T :=
  match lastV[i]? with
  | none => none
  | some lv =>
    match setDown s lv (.colE i) with
    | none => none
    | some s1 => setColSecond s1 i lv

def initCols (lastV : List Ptr) : T → List Nat → Option T
  | s, [] => some s
  | s, i :: is =>
    match initCol lastV s i with
    | none => none
    | some s1 => initCols lastV s1 is

/-- `init(index)` -/
def init (s : T) (index : List (List Nat)) : Option T :=
  if index.length ≤ s.cols.length ∧ index.length ≤ s.rows.length then
    match initRows (s, (List.range index.length).map Ptr.colB) ((List.range index.length).zip index) with
    | none => none
    | some (s1, lastV) => initCols lastV { s1 with size := index.length } (List.range index.length)
  else none

/-- loop "copy column" of `split`: `(state, last, el)` -/
def splitCol (index newIndex : Nat) : Nat → T → Ptr → Ptr → Option (T × Ptr)
  | 0, _, _, _ => none
  | fuel + 1, s, last, el =>
    if el = .colE index then some (s, last)
    else
      match el with
      | .cell e =>
        let r := (s.cells.get e).row
        let ts := alloc s
        let tmp := Ptr.cell ts.1
        match setDown ts.2 last tmp with
        | none => none
        | some s1 =>
          let s2 : T := { s1 with cells := s1.cells.set ts.1 { s1.cells.get ts.1 with up := last } }
          match s2.rows[r]? with
          | none => none
          | some rw =>
            match setRight s2 rw.2 tmp with
            | none => none
            | some s3 =>
              let s4 : T := { s3 with cells := s3.cells.set ts.1 { s3.cells.get ts.1 with left := (s3.rows.getD r default).2, right := .rowE r } }
              match setRowSecond s4 r tmp with
              | none => none
              | some s5 =>
                let s6 : T := { s5 with cells := s5.cells.set ts.1 { s5.cells.get ts.1 with col := newIndex, row := r } }
                splitCol index newIndex fuel s6 tmp (s6.cells.get e).down
      | _ => none

/-- loop "copy row" of `split`: `(state, last, el)`, stops at `rows_[index].second` -/
def splitRow (index newIndex : Nat) : Nat → T → Ptr → Ptr → Option (T × Ptr)
  | 0, _, _, _ => none
  | fuel + 1, s, last, el =>
    match s.rows[index]? with
    | none => none
    | some rw =>
      if el = rw.2 then some (s, last)
      else
        match el with
        | .cell e =>
          let c := (s.cells.get e).col
          let ts := alloc s
          let tmp := Ptr.cell ts.1
          match setRight ts.2 last tmp with
          | none => none
          | some s1 =>
            let s2 : T := { s1 with cells := s1.cells.set ts.1 { s1.cells.get ts.1 with left := last } }
            match s2.cols[c]? with
            | none => none
            | some cl =>
              match setDown s2 cl.2 tmp with
              | none => none
              | some s3 =>
                let s4 : T := { s3 with cells := s3.cells.set ts.1 { s3.cells.get ts.1 with up := (s3.cols.getD c default).2, down := .colE c } }
                match setColSecond s4 c tmp with
                | none => none
                | some s5 =>
                  let s6 : T := { s5 with cells := s5.cells.set ts.1 { s5.cells.get ts.1 with col := c, row := newIndex } }
                  splitRow index newIndex fuel s6 tmp (s6.cells.get e).right
        | _ => none

/-- `split(index)`: the new state (the returned index is the old `size`) -/
def split (s : T) (index : Nat) : Option T :=
  if index < s.size ∧ s.size < s.cols.length ∧ s.size < s.rows.length then
    let newIndex := s.size
    match s.cols[index]? with
    | none => none
    | some cl =>
      match splitCol index newIndex (s.next + 1) s (.colB newIndex) cl.1 with
      | none => none
      | some (s1, last) =>
        -- put reflexivity
        let es := alloc s1
        let el := Ptr.cell es.1
        match setDown es.2 last el with
        | none => none
        | some s2 =>
          let s3 : T := { s2 with cells := s2.cells.set es.1 { s2.cells.get es.1 with up := last, down := .colE newIndex } }
          match setColSecond s3 newIndex el with
          | none => none
          | some s4 =>
            let s5 : T := { s4 with cells := s4.cells.set es.1 { s4.cells.get es.1 with right := .rowE newIndex, col := newIndex, row := newIndex } }
            -- copy row
            match s5.rows[index]? with
            | none => none
            | some rw =>
              match splitRow index newIndex (s5.next + 1) s5 (.rowB newIndex) rw.1 with
              | none => none
              | some (s6, last2) =>
                -- finish reflexivity
                let cs := (s6.cols.getD newIndex default).2
                match setRight s6 last2 cs with
                | none => none
                | some s7 =>
                  match setLeft s7 cs last2 with
                  | none => none
                  | some s8 =>
                    match setRowSecond s8 newIndex (s8.cols.getD newIndex default).2 with
                    | none => none
                    | some s9 => some { s9 with size := s9.size + 1 }
  else none

/-- `erase(iter)` for an iterator standing on cell `e` -/
def erase (s : T) (e : Nat) : Option T :=
  let c := s.cells.get e
  match setDown s c.up c.down with
  | none => none
  | some s1 =>
    match setUp s1 (s1.cells.get e).down (s1.cells.get e).up with
    | none => none
    | some s2 =>
      match setRight s2 (s2.cells.get e).left (s2.cells.get e).right with
      | none => none
      | some s3 =>
        match setLeft s3 (s3.cells.get e).right (s3.cells.get e).left with
        | none => none
        | some s4 => some { s4 with free := e :: s4.free }

/-- iterate `row(i)`: the cells (address, column) -/
def rowWalk (s : T) (i : Nat) : Nat → Ptr → Option (List (Nat × Nat))
  | 0, _ => none
  | fuel + 1, p =>
    if p = .rowE i then some []
    else
      match p with
      | .cell a => (rowWalk s i fuel (s.cells.get a).right).map (fun r => (a, (s.cells.get a).col) :: r)
      | _ => none

def rowCells (s : T) (i : Nat) : Option (List (Nat × Nat)) :=
  match s.rows[i]? with
  | none => none
  | some rw => rowWalk s i (s.next + 1) rw.1

/-- iterate `column(i)`: the cells (address, row) -/
def colWalk (s : T) (i : Nat) : Nat → Ptr → Option (List (Nat × Nat))
  | 0, _ => none
  | fuel + 1, p =>
    if p = .colE i then some []
    else
      match p with
      | .cell a => (colWalk s i fuel (s.cells.get a).down).map (fun r => (a, (s.cells.get a).row) :: r)
      | _ => none

def colCells (s : T) (i : Nat) : Option (List (Nat × Nat)) :=
  match s.cols[i]? with
  | none => none
  | some cl => colWalk s i (s.next + 1) cl.1

/-- the engine's loop `for (col = row.begin(); col != row.end(); ++col) if (mask[*col]) relation_.erase(col);`
(`++col` reads `right_` of the cell just reclaimed) -/
def eraseLoop (mask : List Nat) (i : Nat) : Nat → T → Ptr → Option T
  | 0, _, _ => none
  | fuel + 1, s, p =>
    if p = .rowE i then some s
    else
      match p with
      | .cell a =>
        match (if mask.contains (s.cells.get a).col then erase s a else some s) with
        | none => none
        | some s1 => eraseLoop mask i fuel s1 (s1.cells.get a).right
      | _ => none

def eraseRow (s : T) (i : Nat) (mask : List Nat) : Option T :=
  match s.rows[i]? with
  | none => none
  | some rw => eraseLoop mask i (s.next + 1) s rw.1

inductive Op
  | init (index : List (List Nat))
  | split (i : Nat)
  | eraseRow (i : Nat) (mask : List Nat)
deriving Repr, DecidableEq

/-- result: `split` → `[new index]` -/
def step (s : T) : Op → Option (T × List Nat)
  | .init index => (init s index).map (fun t => (t, []))
  | .split i => (split s i).map (fun t => (t, [s.size]))
  | .eraseRow i mask => (eraseRow s i mask).map (fun t => (t, []))

/-! ### the value: the rows as lists of column indices -/

structure A where
  rel : List (List Nat)
  maxSize : Nat
  inited : Bool
deriving Repr, DecidableEq

def aSplit (rel : List (List Nat)) (i : Nat) : List (List Nat) :=
  rel.map (fun row => if row.contains i then row ++ [rel.length] else row) ++ [rel.getD i [] ++ [rel.length]]

def hasDup : List Nat → Bool
  | [] => false
  | x :: r => r.contains x || hasDup r

/-- discipline: one `init` with in-range, duplicate-free rows and at most `maxSize` of them; `split(i)` of a reflexive index
below the capacity; rows are erased through their own iterator (the engine's loop; it never erases the diagonal
element, which is what keeps `split` applicable) -/
def ok (a : A) : Op → Bool
  | .init index => !a.inited && index.length ≤ a.maxSize && index.all (fun r => r.all (· < index.length) && !hasDup r)
  | .split i => a.inited && i < a.rel.length && a.rel.length < a.maxSize && (a.rel.getD i []).contains i
  | .eraseRow i _ => a.inited && i < a.rel.length

def aStep (a : A) : Op → A
  | .init index => { a with rel := index, inited := true }
  | .split i => { a with rel := aSplit a.rel i }
  | .eraseRow i mask => { a with rel := a.rel.set i ((a.rel.getD i []).filter (fun c => !mask.contains c)) }

/-- column `j` of the value (rows in increasing order) -/
def aCol (rel : List (List Nat)) (j : Nat) : List Nat := (List.range rel.length).filter (fun i => (rel.getD i []).contains j)

end SR

end Vata.LU
