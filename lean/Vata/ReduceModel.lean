import Vata.Ref
/-!
# Executable model of `Reduce` as coded (`src/explicit_tree_aut_core.cc`, `include/vata/util/binary_relation.hh`), property C05

Definitions only (core Lean, executable); the theorems are in `Vata/Proofs/ReduceModel.lean`.

`ExplicitTreeAutCore::Reduce` does

1. `ComputeSimulation` – the downward simulation as a `DiscontBinaryRelation`: a square Boolean matrix `rel_` over the
   indices `0 … n-1` together with a dictionary state ↔ index.  The index of a state is the position at which the
   translation to an LTS met the state first; this is hash order in the C++, so the model takes the list `order`
   (`order[i]` is the state with index `i`) as a PARAMETER and the theorems hold for every `order` that is a permutation
   of `A.states`.  The matrix is `relMatrix (downSimRef A) order` (that the relation the code computes is `downSimRef A`
   is property C04).
2. `RestrictToSymmetric` – the two nested loops over the part above the diagonal, `restrictToSymmetric`, written with
   the accessors `mget`/`mset` the way the C++ uses `get`/`set`.
3. `GetQuotientProjection` – on the matrix (`quotientProjectionIdx`: the vector `quotProj`, `none` is `UNDEF_PROJ`; a row
   whose entry is still undefined becomes its own representative and the representative of every later column that is
   related to it), then the translation of the vector back to states (`projToMap`: `quotProj.insert(TranslateBwd(i),
   TranslateBwd(innerProj[i]))`, as an association list in insertion order).
4. `CollapseStates` = `ReindexStates` with the map (`reindex`, C14) and `RemoveUnreachableStates` (`removeUnreachable`, C03).

`restrictToSymmetricSkip0`/`reduceModelSkip0` is a realistic slip (the outer loop of `RestrictToSymmetric` starts at row
`1`); `Vata/Proofs/ReduceModel.lean` shows that it changes the language on a concrete automaton.
-/
namespace Vata

/-- a Boolean matrix, row by row (`BinaryRelation`) -/
abbrev BMat := List (List Bool)

/-- `BinaryRelation::get` -/
def mget (m : BMat) (i j : Nat) : Bool := (m.getD i []).getD j false

/-- `BinaryRelation::set` -/
def mset (m : BMat) (i j : Nat) (v : Bool) : BMat := m.modify i (fun row => row.set j v)

/-- the relation `R` as a matrix over the indices given by `order`: entry `(i, j)` says `(order[i], order[j]) ∈ R` -/
def relMatrix (R : Rel) (order : List Nat) : BMat := order.map (fun p => order.map (fun q => R.contains (p, q)))

/-- body of the inner loop of `RestrictToSymmetric` -/
def symStep (row : Nat) (m : BMat) (col : Nat) : BMat :=
  let res := mget m row col && mget m col row
  mset (mset m row col res) col row res

/-- the inner loop `for (col = row + 1; col < size; ++col)` -/
def symRow (n : Nat) (m : BMat) (row : Nat) : BMat := (List.range' (row + 1) (n - (row + 1))).foldl (symStep row) m

/-- `BinaryRelation::RestrictToSymmetric`: `for (row = 0; row < size; ++row)` around the inner loop -/
def restrictToSymmetric (m : BMat) : BMat := (List.range m.length).foldl (symRow m.length) m

/-- the slip: the outer loop starts at row `1` -/
def restrictToSymmetricSkip0 (m : BMat) : BMat := (List.range' 1 (m.length - 1)).foldl (symRow m.length) m

/-- body of the inner loop of `GetQuotientProjection` (the `assert(UNDEF_PROJ == quotProj[col])` is not modelled: a
release build overwrites) -/
def qpStep (m : BMat) (row : Nat) (proj : List (Option Nat)) (col : Nat) : List (Option Nat) :=
  if mget m row col then proj.set col (some row) else proj

/-- body of the outer loop of `GetQuotientProjection` -/
def qpRow (m : BMat) (n : Nat) (proj : List (Option Nat)) (row : Nat) : List (Option Nat) :=
  if (proj.getD row none).isSome then proj
  else (List.range' (row + 1) (n - (row + 1))).foldl (qpStep m row) (proj.set row (some row))

/-- `BinaryRelation::GetQuotientProjection`: the vector `quotProj` (`none` = `UNDEF_PROJ`) -/
def quotientProjectionIdx (m : BMat) : List (Option Nat) :=
  (List.range m.length).foldl (qpRow m m.length) (List.replicate m.length none)

/-- `TranslateBwd(innerProj[i])` for the state `q = TranslateBwd(i)` (an index that is undefined or out of range –
neither happens – leaves the state where it is) -/
def projTarget (order : List Nat) (q : Nat) : Option Nat → Nat
  | some k => order.getD k q
  | none => q

/-- `DiscontBinaryRelation::GetQuotientProjection`: back from indices to states, in insertion order -/
def projToMap (order : List Nat) (proj : List (Option Nat)) : List (Nat × Nat) :=
  (order.zip proj).map (fun p => (p.1, projTarget order p.1 p.2))

/-- the collapse map `Reduce` computes, with the symmetric restriction `sym` as a parameter -/
def quotientMapWith (sym : BMat → BMat) (A : TA) (order : List Nat) : List (Nat × Nat) :=
  projToMap order (quotientProjectionIdx (sym (relMatrix (downSimRef A) order)))

/-- the collapse map of `Reduce` as an association list (`collapseMap` in the C++) -/
def quotientMap (A : TA) (order : List Nat) : List (Nat × Nat) := quotientMapWith restrictToSymmetric A order

/-- … and as a function on states -/
def quotientProjection (A : TA) (order : List Nat) : Nat → Nat := applyMap (quotientMap A order)

/-- model of `ExplicitTreeAutCore::Reduce`; `order` is the order in which the simulation computation numbers the states -/
def reduceModel (A : TA) (order : List Nat) : TA :=
  let m := quotientMap A order
  removeUnreachable (reindex (applyMap m) A)

/-- the model with the slip in `RestrictToSymmetric` -/
def reduceModelSkip0 (A : TA) (order : List Nat) : TA :=
  let m := quotientMapWith restrictToSymmetricSkip0 A order
  removeUnreachable (reindex (applyMap m) A)

end Vata
