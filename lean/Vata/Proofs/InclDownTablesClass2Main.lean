import Vata.Proofs.InclDownTablesClass2Inv
/-!
# The run on the tables IS the abstract run on the dumps – without symbol-determinism (identity preorder; property C07)

`expandT_eq_expand_good`: for `TabOK` tables and the dumps in path order, on every state that satisfies the invariant `GI`
(`Vata/Proofs/InclDownTablesClass2Inv.lean`; the initial state does), `expandT` on the tables and `InclDown.expand` on the dumps
return the SAME result: verdict, `childrenCache`, `nonincluded` (with the witness trees), `trues`.

The proof is an induction on the fuel of the conjunction of
* `CallGood`: agreement of the two calls on good states, the invariant is kept, and a finished call is idempotent on every later
  state of the same functor (same kind of verdict, state untouched);
* `RCall`: relative completeness (a call for a pair subsumed by `trues ++ ws` does not fail).
The two bodies agree (`bodyT_eq_good`) because both are the loop over the common de-duplication `dd` of their call lists: a repeated
call of the functor with the same pair of leaves is without effect (`forAllL_dd_good`).
-/
namespace Vata
namespace InclDownTables
open M BddAbs BddAbsTD BddTraverse InclDown
open InclUp (normS prodWit Wit)

theorem good_model {Φ : Frame} {α : Type} {R : α → α → Prop} {F F' : Step α} (h : Good Φ R F F' F) : Good Φ R F' F' F' := by
  intro cc st hG
  obtain ⟨e, p⟩ := h cc st hG
  refine ⟨rfl, ?_⟩
  intro v cc' st' hr
  rw [← e] at hr
  obtain ⟨g, l, q⟩ := p v cc' st' hr
  refine ⟨g, l, ?_⟩
  intro c2 s2 hle hG2
  obtain ⟨v', hk, he⟩ := q c2 s2 hle hG2
  exact ⟨v', hk, by rw [← (h c2 s2 hG2).1]; exact he⟩

theorem callGood_model {Φ : Frame} {cT cM : Call} (h : CallGood Φ cT cM cT) : CallGood Φ cM cM cM :=
  fun x X hX => good_model (h x X hX)

/-! ### the two bodies as loops over items -/

theorem bodyT_items (call1 call2 : Call) (TA TB : TableTD) (wit : Wit) (post : List Nat → List Nat) (p : Nat) (P : List Nat)
    (cc : List Pair) (st : St) :
    bodyT call1 call2 TA TB wit post p P cc st =
      forAllL (fItem call1 call2 wit post) ((voidApply2Calls (getTD TA p) (unionAllTD TB P)).map symItem) cc st := by
  unfold bodyT travDown
  rw [forAllL_map]; rfl

theorem body_items {n : Nat} {ar : Nat → Nat} {syms : List Nat} {TA TB : TableTD} (FA FB : List Nat)
    (hs : syms.Pairwise (· < ·)) (hb : ∀ c, c ∈ syms → c < 2 ^ n)
    (hcov : ∀ p c, c < 2 ^ n → eval (getTD TA p) (bits c) ≠ [] → c ∈ syms)
    (okA : TabOK n ar TA) (okB : TabOK n ar TB)
    (call1 call2 : Call) (wit : Wit) (post : List Nat → List Nat) (p : Nat) (P : List Nat) (cc : List Pair) (st : St) :
    body call1 call2 (pathOrder syms TA FA) (pathOrder syms TB FB) wit post p P cc st =
      forAllL (fItem call1 call2 wit post) (symItems (getTD TA p) (unionAllTD TB P) 0 (2 ^ n)) cc st := by
  unfold body
  have e3 : forAllL (fItem call1 call2 wit post) (symItems (getTD TA p) (unionAllTD TB P) 0 (2 ^ n)) cc st =
      forAllL (fItem call1 call2 wit post) (neIt (symItems (getTD TA p) (unionAllTD TB P) 0 (2 ^ n))) cc st := by
    unfold neIt
    refine (forAllL_filter _ _ ?_ _ cc st).symm
    intro i hi cc st
    have : i.2.1 = [] := by
      cases hcl : i.2.1 with
      | nil => rfl
      | cons a l => rw [hcl] at hi; simp at hi
    unfold fItem
    rw [this]; rfl
  rw [e3, groupItems_pathOrder FA FB hs hb hcov okA okB p P]
  unfold groupItems
  rw [forAllL_map]
  exact forAllL_congr (fun g hg => by
    funext cc st
    exact procGroup_eq_procLeaf call1 call2 _ _ wit post p P hg cc st) cc st

/-- the body of the model is good when its calls are -/
theorem good_body {Φ : Frame} {call : Call} (hc : CallGood Φ call call call) (A B : Vata.TA) (wit : Wit)
    (post : List Nat → List Nat) (p : Nat) (P : List Nat) : Good1 Φ sameKind (body call call A B wit post p P) := by
  unfold body
  refine good_forAllL _ (fun g hg => ?_)
  have : procGroup call call A B wit post p P g.1 g.2 =
      procLeaf call call wit post g.1 (lhsTuples A p g.1 g.2) (rhsTuples B P g.1 g.2) := by
    funext cc st; exact procGroup_eq_procLeaf call call A B wit post p P hg cc st
  rw [this]
  exact good_procLeaf hc wit post g.1 g.1 _ _

/-- **the two bodies agree on the good states**: the traversal as coded (one call per pair of leaves) and the loop of the model
(one call per ranked symbol) are both the loop over the first occurrences of the pairs of leaves -/
theorem bodyT_eq_good {n : Nat} {ar : Nat → Nat} {syms : List Nat} {TA TB : TableTD} (FA FB : List Nat)
    (hs : syms.Pairwise (· < ·)) (hb : ∀ c, c ∈ syms → c < 2 ^ n)
    (hcov : ∀ p c, c < 2 ^ n → eval (getTD TA p) (bits c) ≠ [] → c ∈ syms)
    (okA : TabOK n ar TA) (okB : TabOK n ar TB) {Φ : Frame} {cT cM : Call} (hc : CallGood Φ cT cM cT) (wit : Wit)
    (post : List Nat → List Nat) (p : Nat) (P : List Nat) (cc : List Pair) (st : St) (hG : Φ.G cc st) :
    bodyT cT cT TA TB wit post p P cc st =
      body cM cM (pathOrder syms TA FA) (pathOrder syms TB FB) wit post p P cc st := by
  have hu := unionAllTD_wf okB.wf P
  have hcM := callGood_model hc
  rw [bodyT_items, body_items FA FB hs hb hcov okA okB]
  have hF1 : ∀ i j : It, i.2 = j.2 →
      Good Φ sameKind (fItem cT cT wit post i) (fItem cM cM wit post i) (fItem cT cT wit post j) := by
    intro i j he
    unfold fItem
    rw [← he]
    exact good_procLeaf hc wit post i.1 j.1 i.2.1 i.2.2
  have hF2 : ∀ i j : It, i.2 = j.2 →
      Good Φ sameKind (fItem cM cM wit post i) (fItem cM cM wit post i) (fItem cM cM wit post j) := by
    intro i j he
    unfold fItem
    rw [← he]
    exact good_procLeaf hcM wit post i.1 j.1 i.2.1 i.2.2
  have hE : ∀ (c1 c2 : Call) (i : It), i.2.1 = [] → ∀ cc st, fItem c1 c2 wit post i cc st = some (.holds, cc, st) := by
    intro c1 c2 i h cc st
    unfold fItem
    rw [h]; rfl
  have hnil : ∀ (F : It → List Pair → St → Ret) j, j ∈ ([] : List It) → ∀ i : It, i.2 = j.2 → ∀ c2 s2, Φ.Le cc st c2 s2 →
      Φ.G c2 s2 → F i c2 s2 = some (.holds, c2, s2) := fun _ _ hj => by cases hj
  rw [forAllL_dd_good hF1 (hE cT cT) _ [] cc st hG (hnil _),
    forAllL_agree _ (fun a _ => hF1 a a rfl) cc st hG,
    dd_calls_eq (okA.wf p).1 hu.1 (okA.wf p).2 hu.2,
    ← forAllL_dd_good hF2 (hE cM cM) _ [] cc st hG (hnil _)]

/-! ### one step of `expand` -/

section step
variable {TA TB : TableTD} {A B : Vata.TA} {wit : Wit}

theorem expandT_body {fuel : Nat} {ws cc : List Pair} {st : St} {x : Nat} {X : List Nat}
    (h1 : covers idOrd ws x X = false) (h2 : niFind idOrd st.nonIncl x X = none) (h3 : covers idOrd cc x X = false) :
    expandT idOrd TA TB wit (fuel+1) ws cc st x X =
      match bodyT (expandT idOrd TA TB wit fuel ((x, X) :: ws)) (expandT idOrd TA TB wit fuel ((x, X) :: ws)) TA TB wit normS
          x X [] st with
      | none => none
      | some (.holds, _, st') => some (.holds, ccAdd idOrd cc x X, ⟨st'.nonIncl, addTrue st'.trues (x, X)⟩)
      | some (.fails w, _, st') => some (.fails w, cc, ⟨niAdd idOrd st'.nonIncl x X w, st.trues⟩) := by
  simp only [expandT, h1, h2, h3, byPre_id, Bool.false_eq_true, if_false]
  generalize bodyT _ _ TA TB wit normS x X [] st = r
  rcases r with _ | ⟨v, c, s⟩
  · rfl
  · cases v <;> rfl

theorem expand_body {fuel : Nat} {ws cc : List Pair} {st : St} {x : Nat} {X : List Nat}
    (h1 : covers idOrd ws x X = false) (h2 : niFind idOrd st.nonIncl x X = none) (h3 : covers idOrd cc x X = false) :
    expand idOrd A B wit (fuel+1) ws cc st x X =
      match body (expand idOrd A B wit fuel ((x, X) :: ws)) (expand idOrd A B wit fuel ((x, X) :: ws)) A B wit normS
          x X [] st with
      | none => none
      | some (.holds, _, st') => some (.holds, ccAdd idOrd cc x X, ⟨st'.nonIncl, addTrue st'.trues (x, X)⟩)
      | some (.fails w, _, st') => some (.fails w, cc, ⟨niAdd idOrd st'.nonIncl x X w, st.trues⟩) := by
  simp only [expand, h1, h2, h3, byPre_id, Bool.false_eq_true, if_false]
  generalize body _ _ A B wit normS x X [] st = r
  rcases r with _ | ⟨v, c, s⟩
  · rfl
  · cases v <;> rfl

/-- the invariant after `workset_.insert(key)`, with the fresh `childrenCache` of `innerFctor` -/
theorem gi_push {ws cc : List Pair} {st : St} {x : Nat} {X : List Nat} (hG : GI A B ws cc st) (hX : X ≠ [])
    (h2 : niFind idOrd st.nonIncl x X = none) : GI A B ((x, X) :: ws) [] st := by
  obtain ⟨hI, hJ, hNE⟩ := hG
  refine ⟨inv_push (x, X) hI, ?_, ?_⟩
  · intro y Y hs himp
    obtain ⟨S0, hm, hsub⟩ := hs
    rcases List.mem_append.mp hm with h | h
    · exact hJ y Y ⟨S0, List.mem_append_left _ h, hsub⟩ himp
    · rcases List.mem_cons.mp h with h | h
      · simp only [Prod.mk.injEq] at h
        obtain ⟨e, he, e1, e2⟩ := himp
        refine niFind_none_iff.mp h2 ⟨e, he, by rw [e1, h.1], fun s hs => e2 s (hsub s ?_)⟩
        rw [h.2]; exact hs
      · exact hJ y Y ⟨S0, List.mem_append_right _ h, hsub⟩ himp
  · intro t ht
    rcases List.mem_append.mp ht with h | h
    · exact hNE t (List.mem_append_left _ h)
    · rcases List.mem_cons.mp h with h | h
      · rw [h]; exact hX
      · exact hNE t (List.mem_append_right _ h)

/-- the body of a call for a pair that is subsumed by `trues ++ ws` (and not by `ws`) does not fail -/
theorem body_nofail_sub {ws cc : List Pair} {st : St} {x : Nat} {X : List Nat} {call : Call}
    (hc : CallGood (frameI A B ((x, X) :: ws)) call call call) (hrc : RCall A B ((x, X) :: ws) call)
    (hG : GI A B ws cc st) (hG1 : GI A B ((x, X) :: ws) [] st) (h1 : covers idOrd ws x X = false)
    (hs : Sub (st.trues ++ ws) x X) : NoFail (body call call A B wit normS x X) [] st := by
  obtain ⟨S0, hm, hsub⟩ := hs
  rcases List.mem_append.mp hm with h | h
  · have hcl := hG.1.closed (x, S0) h
    refine body_nofail hc hrc wit x S0 X hsub [] st hG1 (closedAt_mono ?_ hcl)
    intro z hz
    rcases List.mem_append.mp hz with h' | h'
    · exact List.mem_append_left _ h'
    · exact List.mem_append_right _ (List.mem_cons_of_mem _ h')
  · have : covers idOrd ws x X = true := covers_id.mpr ⟨S0, h, hsub⟩
    rw [h1] at this; cases this

end step

/-! ### the induction on the fuel -/

theorem full_expand {TA TB : TableTD} {A B : Vata.TA} {wit : Wit}
    (hbody : ∀ (ws : List Pair) (cT cM : Call), CallGood (frameI A B ws) cT cM cT → ∀ p P cc st, GI A B ws cc st →
      bodyT cT cT TA TB wit normS p P cc st = body cM cM A B wit normS p P cc st)
    (hspec : ∀ fuel ws, CallSpec idOrd A B ws (expandT idOrd TA TB wit fuel ws)) :
    ∀ (fuel : Nat) (ws : List Pair),
      CallGood (frameI A B ws) (expandT idOrd TA TB wit fuel ws) (expand idOrd A B wit fuel ws)
        (expandT idOrd TA TB wit fuel ws) ∧
      RCall A B ws (expand idOrd A B wit fuel ws)
  | 0, ws => by
    refine ⟨?_, ?_⟩
    · intro x X _ cc st _
      exact ⟨rfl, fun v cc' st' h => by simp [expandT] at h⟩
    · intro y Y cc st _ _ _ w c' s' h
      simp [expand] at h
  | fuel+1, ws => by
    have ih := full_expand hbody hspec fuel
    refine ⟨?_, ?_⟩
    · intro x X hX cc st hG
      show expandT idOrd TA TB wit (fuel+1) ws cc st x X = expand idOrd A B wit (fuel+1) ws cc st x X ∧
        ∀ v cc' st', expandT idOrd TA TB wit (fuel+1) ws cc st x X = some (v, cc', st') →
          GI A B ws cc' st' ∧ LeI cc st cc' st' ∧ ∀ c2 s2, LeI cc' st' c2 s2 → GI A B ws c2 s2 →
            ∃ v', sameKind v v' ∧ expandT idOrd TA TB wit (fuel+1) ws c2 s2 x X = some (v', c2, s2)
      obtain ⟨hI, hJ, hNE⟩ := hG
      have hG : GI A B ws cc st := ⟨hI, hJ, hNE⟩
      have hsp := hspec (fuel+1) ws x X
      -- the call in a later state
      have quiet_holds : ∀ c2 s2, GI A B ws c2 s2 → covers idOrd ws x X = false → Sub c2 x X →
          expandT idOrd TA TB wit (fuel+1) ws c2 s2 x X = some (.holds, c2, s2) := by
        intro c2 s2 hG2 h1 hs
        have hcov : covers idOrd c2 x X = true := covers_id.mpr hs
        have hsub : Sub (s2.trues ++ ws) x X := subR_id_iff.mp (covers_ccOK hcov hG2.1.cc_sub)
        have h2 : niFind idOrd s2.nonIncl x X = none := niFind_none_iff.mpr (hG2.2.1 x X hsub)
        simp only [expandT, h1, h2, hcov, Bool.false_eq_true, if_false, if_true]
      have quiet_fails : ∀ c2 (s2 : St), covers idOrd ws x X = false → Impl s2.nonIncl x X →
          ∃ w, expandT idOrd TA TB wit (fuel+1) ws c2 s2 x X = some (.fails w, c2, s2) := by
        intro c2 s2 h1 himp
        cases h2 : niFind idOrd s2.nonIncl x X with
        | none => exact absurd himp (niFind_none_iff.mp h2)
        | some e => exact ⟨e.2.2, by simp only [expandT, h1, h2, Bool.false_eq_true, if_false]⟩
      by_cases h1 : covers idOrd ws x X = true
      · have eT : expandT idOrd TA TB wit (fuel+1) ws cc st x X = some (.holds, cc, st) := by
          simp only [expandT, h1, if_true]
        have eM : expand idOrd A B wit (fuel+1) ws cc st x X = some (.holds, cc, st) := by
          simp only [expand, h1, if_true]
        refine ⟨by rw [eT, eM], ?_⟩
        intro v cc' st' h
        rw [eT] at h
        simp only [Option.some.injEq, Prod.mk.injEq] at h
        obtain ⟨k1, k2, k3⟩ := h
        subst k1 k2 k3
        exact ⟨hG, (frameI A B ws).refl _ _, fun c2 s2 _ _ => ⟨.holds, trivial, by simp only [expandT, h1, if_true]⟩⟩
      · have h1' : covers idOrd ws x X = false := by
          cases hb : covers idOrd ws x X with
          | true => exact absurd hb h1
          | false => rfl
        cases h2 : niFind idOrd st.nonIncl x X with
        | some e =>
          have eT : expandT idOrd TA TB wit (fuel+1) ws cc st x X = some (.fails e.2.2, cc, st) := by
            simp only [expandT, h1', h2, Bool.false_eq_true, if_false]
          have eM : expand idOrd A B wit (fuel+1) ws cc st x X = some (.fails e.2.2, cc, st) := by
            simp only [expand, h1', h2, Bool.false_eq_true, if_false]
          refine ⟨by rw [eT, eM], ?_⟩
          intro v cc' st' h
          rw [eT] at h
          simp only [Option.some.injEq, Prod.mk.injEq] at h
          obtain ⟨k1, k2, k3⟩ := h
          subst k1 k2 k3
          refine ⟨hG, (frameI A B ws).refl _ _, ?_⟩
          intro c2 s2 hle _
          have himp : Impl st.nonIncl x X := niFind_isSome_iff.mp (by rw [h2]; rfl)
          obtain ⟨w, hw⟩ := quiet_fails c2 s2 h1' (hle.2.1 x X himp)
          exact ⟨.fails w, trivial, hw⟩
        | none =>
          by_cases h3 : covers idOrd cc x X = true
          · have eT : expandT idOrd TA TB wit (fuel+1) ws cc st x X = some (.holds, cc, st) := by
              simp only [expandT, h1', h2, h3, Bool.false_eq_true, if_false, if_true]
            have eM : expand idOrd A B wit (fuel+1) ws cc st x X = some (.holds, cc, st) := by
              simp only [expand, h1', h2, h3, Bool.false_eq_true, if_false, if_true]
            refine ⟨by rw [eT, eM], ?_⟩
            intro v cc' st' h
            rw [eT] at h
            simp only [Option.some.injEq, Prod.mk.injEq] at h
            obtain ⟨k1, k2, k3⟩ := h
            subst k1 k2 k3
            refine ⟨hG, (frameI A B ws).refl _ _, ?_⟩
            intro c2 s2 hle hG2
            exact ⟨.holds, trivial, quiet_holds c2 s2 hG2 h1' (hle.1 x X (covers_id.mp h3))⟩
          · have h3' : covers idOrd cc x X = false := by
              cases hb : covers idOrd cc x X with
              | true => exact absurd hb h3
              | false => rfl
            have hG1 : GI A B ((x, X) :: ws) [] st := gi_push hG hX h2
            obtain ⟨hcg, hrc⟩ := ih ((x, X) :: ws)
            have hcM := callGood_model hcg
            have hb := hbody _ _ _ hcg x X [] st hG1
            have eT := expandT_body (TA := TA) (TB := TB) (wit := wit) (fuel := fuel) h1' h2 h3'
            rw [hb] at eT
            have eM := expand_body (A := A) (B := B) (wit := wit) (fuel := fuel) h1' h2 h3'
            have gb := (good_body hcM A B wit normS x X [] st hG1).2
            cases hr : body (expand idOrd A B wit fuel ((x, X) :: ws)) (expand idOrd A B wit fuel ((x, X) :: ws)) A B wit
                normS x X [] st with
            | none =>
              rw [hr] at eT eM
              exact ⟨by rw [eT, eM], fun v cc' st' h => by rw [eT] at h; cases h⟩
            | some r =>
              obtain ⟨vb, cc1, st1⟩ := r
              obtain ⟨g1, l1, _⟩ := gb _ _ _ hr
              rw [hr] at eT eM
              have hconv : ∀ t, t ∈ st.trues ++ ws → t ∈ st1.trues ++ (x, X) :: ws := by
                intro t ht
                rcases List.mem_append.mp ht with h | h
                · exact List.mem_append_left _ (l1.2.2 t h)
                · exact List.mem_append_right _ (List.mem_cons_of_mem _ h)
              cases vb with
              | holds =>
                simp only [] at eT eM
                refine ⟨by rw [eT, eM], ?_⟩
                intro v cc' st' h
                have hI' := (hsp cc st _ _ _ eT hI).1
                rw [eT] at h
                simp only [Option.some.injEq, Prod.mk.injEq] at h
                obtain ⟨k1, k2, k3⟩ := h
                subst k1 k2 k3
                have hconv2 : ∀ t, t ∈ addTrue st1.trues (x, X) ++ ws → t ∈ st1.trues ++ (x, X) :: ws := by
                  intro t ht
                  rcases List.mem_append.mp ht with h | h
                  · rcases mem_addTrue.mp h with h | h
                    · exact List.mem_append_left _ h
                    · exact List.mem_append_right _ (by rw [h]; exact List.mem_cons_self)
                  · exact List.mem_append_right _ (List.mem_cons_of_mem _ h)
                refine ⟨⟨hI', ?_, ?_⟩, ?_, ?_⟩
                · intro y Y hs himp
                  exact g1.2.1 y Y (sub_mono hconv2 (fun _ h => h) hs) himp
                · intro t ht
                  exact g1.2.2 t (hconv2 t ht)
                · exact ⟨fun y Y h => sub_ccAdd_mono h, fun y Y h => l1.2.1 y Y h,
                    fun t ht => mem_addTrue.mpr (Or.inl (l1.2.2 t ht))⟩
                · intro c2 s2 hle hG2
                  exact ⟨.holds, trivial, quiet_holds c2 s2 hG2 h1' (hle.1 x X (sub_ccAdd_self cc x X))⟩
              | fails w =>
                simp only [] at eT eM
                refine ⟨by rw [eT, eM], ?_⟩
                intro v cc' st' h
                have hI' := (hsp cc st _ _ _ eT hI).1
                rw [eT] at h
                simp only [Option.some.injEq, Prod.mk.injEq] at h
                obtain ⟨k1, k2, k3⟩ := h
                subst k1 k2 k3
                refine ⟨⟨hI', ?_, hNE⟩, ?_, ?_⟩
                · intro y Y hs himp
                  obtain ⟨e, he, e1, e2⟩ := himp
                  rcases mem_niAdd he with h | h
                  · exact g1.2.1 y Y (sub_mono hconv (fun _ h => h) hs) ⟨e, h, e1, e2⟩
                  · rw [h] at e1 e2
                    simp only at e1 e2
                    subst e1
                    have hs' : Sub (st.trues ++ ws) x X := sub_mono (fun _ h => h) e2 hs
                    exact body_nofail_sub hcM hrc hG hG1 h1' hs' w cc1 st1 hr
                · exact ⟨fun y Y h => h, fun y Y h => impl_niAdd_mono (l1.2.1 y Y h), fun t ht => ht⟩
                · intro c2 s2 hle _
                  obtain ⟨w', hw'⟩ := quiet_fails c2 s2 h1' (hle.2.1 x X (impl_niAdd_self _ x X w))
                  exact ⟨.fails w', trivial, hw'⟩
    · intro x X cc st hX hG hs w c' s' h
      by_cases h1 : covers idOrd ws x X = true
      · simp only [expand, h1, if_true] at h
        cases h
      · have h1' : covers idOrd ws x X = false := by
          cases hb : covers idOrd ws x X with
          | true => exact absurd hb h1
          | false => rfl
        cases h2 : niFind idOrd st.nonIncl x X with
        | some e => exact hG.2.1 x X hs (niFind_isSome_iff.mp (by rw [h2]; rfl))
        | none =>
          by_cases h3 : covers idOrd cc x X = true
          · simp only [expand, h1', h2, h3, Bool.false_eq_true, if_false, if_true] at h
            cases h
          · have h3' : covers idOrd cc x X = false := by
              cases hb : covers idOrd cc x X with
              | true => exact absurd hb h3
              | false => rfl
            have hG1 : GI A B ((x, X) :: ws) [] st := gi_push hG hX h2
            obtain ⟨hcg, hrc⟩ := ih ((x, X) :: ws)
            have hcM := callGood_model hcg
            rw [expand_body (A := A) (B := B) (wit := wit) (fuel := fuel) h1' h2 h3'] at h
            cases hr : body (expand idOrd A B wit fuel ((x, X) :: ws)) (expand idOrd A B wit fuel ((x, X) :: ws)) A B wit
                normS x X [] st with
            | none => rw [hr] at h; cases h
            | some r =>
              obtain ⟨vb, cc1, st1⟩ := r
              rw [hr] at h
              cases vb with
              | holds => simp at h
              | fails w1 => exact body_nofail_sub hcM hrc hG hG1 h1' hs w1 cc1 st1 hr

end InclDownTables
end Vata
