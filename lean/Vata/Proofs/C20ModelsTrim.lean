import Vata.C20Models
import Vata.Proofs.TrimCodedLoop
/-!
# C20: `RemoveUselessStates` (explicit encoding) never fails `reachedBy`'s assertion and never decrements `remaining` at 0

The flag of `C20M.innerStepC` / `mainLoopC` / `finalStC` is never raised, and forgetting it gives `TrimCoded.finalSt decOne`.
Both follow from the loop invariant `TrimCoded.Inv` (`Vata/Proofs/TrimCodedLoop.lean`): `Inv.assert_holds` is the assertion;
a transition that fires is not yet in `reachableTransitions`, which is duplicate-free and holds rule indices only, so
`|reachableTransitions| < |rules| ≤ remaining + |reachableTransitions|` (`Inv.cnt`).
-/
namespace Vata.C20M
open Vata Vata.TrimCoded

theorem decOne_le (r : Rule) : decOne r ≤ 1 := Nat.le_refl 1

/-- when a transition fires inside the invariant, `remaining` is positive -/
theorem remaining_pos_of_fire {A : TA} {σ : St} {s0 j : Nat} {rest : List Nat} (h : Inv A σ s0 (j :: rest)) :
    0 < σ.remaining := by
  obtain ⟨r, c, hr, hc, hs0c⟩ := h.assert_holds
  have hjrt : j ∉ σ.rtrans := by
    intro hj
    obtain ⟨r', _, hi'⟩ := h.rt j hj
    rw [hc] at hi'
    have : c = [] := (Info.mk.inj (Option.some.inj hi')).2
    rw [this] at hs0c
    exact absurd hs0c List.not_mem_nil
  have hjlt : j < A.rules.length := (List.getElem?_eq_some_iff.mp hr).1
  have hnd : (j :: σ.rtrans).Nodup := List.nodup_cons.mpr ⟨hjrt, h.rtnd⟩
  have hlen := nodup_length_le A.rules.length (j :: σ.rtrans) hnd (by
    intro k hk
    rcases List.mem_cons.mp hk with rfl | hk
    · exact hjlt
    · obtain ⟨r', hr', _⟩ := h.rt k hk
      exact (List.getElem?_eq_some_iff.mp hr').1)
  have := h.cnt
  simp only [List.length_cons] at hlen
  omega

/-- one checked step inside the invariant: the flag is unchanged -/
theorem innerStepC_eq {A : TA} {σ : St} {s0 j : Nat} {rest : List Nat} (h : Inv A σ s0 (j :: rest)) (b : Bool) :
    innerStepC s0 (σ, b) j = (innerStep decOne s0 σ j, b) := by
  obtain ⟨r, c, _, hc, hs0c⟩ := h.assert_holds
  have hpos := remaining_pos_of_fire h
  unfold innerStepC
  simp only [hc]
  have h2 : (σ.remaining == 0) = false := by
    cases hr : σ.remaining with
    | zero => omega
    | succ n => rfl
  simp [hs0c, h2]

theorem innerFoldC_eq {A : TA} {s0 : Nat} : ∀ (pend : List Nat) (σ : St) (b : Bool), Inv A σ s0 pend →
    pend.foldl (innerStepC s0) (σ, b) = (pend.foldl (innerStep decOne s0) σ, b)
  | [], _, _, _ => rfl
  | j :: rest, σ, b, h => by
    rw [List.foldl_cons, List.foldl_cons, innerStepC_eq h b]
    exact innerFoldC_eq rest _ b (innerStep_inv decOne_le h)

theorem mainLoopC_eq {A : TA} : ∀ (f : Nat) (σ : St) (s0 : Nat) (b : Bool), Inv A σ s0 [] →
    mainLoopC f (σ, b) = (mainLoop decOne f σ, b)
  | 0, σ, _, b, _ => by unfold mainLoopC mainLoop; rfl
  | f+1, σ, s0, b, h => by
    unfold mainLoopC mainLoop
    cases hw : σ.work with
    | nil => simp only
    | cons s w =>
      simp only
      have hp := inv_pop h hw
      have hg : smGet σ.smap s = (σ.smap.lookup s).getD [] := rfl
      cases hl : σ.smap.lookup s with
      | none =>
        simp only
        rw [hg, hl] at hp
        exact mainLoopC_eq f _ s b hp
      | some v =>
        simp only
        rw [hg, hl] at hp
        rw [innerFoldC_eq v _ b hp]
        exact mainLoopC_eq f _ s b (inner_inv decOne_le v _ hp).1

/-- **the checked run of both loops**: the state is the one of `TrimCoded.finalSt decOne`, and the flag is down – no
`TransitionInfo` index dangles, `assert(childrenSet_.count(state))` holds at every call of `reachedBy`, and `--remaining` is
never executed at `0` -/
theorem finalStC_eq (A : TA) : finalStC A = (finalSt decOne A, false) :=
  mainLoopC_eq _ _ 0 false (inv_init A 0)

end Vata.C20M
