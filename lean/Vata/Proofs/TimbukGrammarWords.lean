import Vata.Proofs.TimbukGrammarTrim
/-!
# The word loop, numerals and tokens of the Timbuk grammar are what the parser computes (property C13)
-/
namespace Vata.Timbuk

/-! ## words -/

theorem words_word {l : Str} {ws : List Str} (h : Words l ws) : ∀ w ∈ ws, Word w := by
  induction h with
  | nil hg => intro w hw; cases hw
  | cons hg hw hr hrest ih =>
    intro x hx
    rcases List.mem_cons.mp hx with hx | hx
    · subst hx; exact hw
    · exact ih x hx

theorem headWs_nil : HeadWs [] := by intro c hc; cases hc

theorem headWs_append_allWs {r post : Str} (hr : HeadWs r) (hp : AllWs post) : HeadWs (r ++ post) := by
  intro c hc
  cases r with
  | nil =>
    cases post with
    | nil => cases hc
    | cons a q =>
      simp only [List.nil_append, List.head?_cons, Option.some.injEq] at hc
      subst hc; exact hp _ List.mem_cons_self
  | cons a q => exact hr c (by simpa using hc)

theorem Words.append_ws {r post : Str} {ws : List Str} (h : Words r ws) (hp : AllWs post) : Words (r ++ post) ws := by
  induction h with
  | nil hg => exact Words.nil (allWs_append hg hp)
  | @cons g w rest ws hg hw hr hrest ih =>
    have : g ++ w ++ rest ++ post = g ++ w ++ (rest ++ post) := by simp
    rw [this]
    exact Words.cons hg hw (headWs_append_allWs hr hp) ih

theorem words_readWords {l : Str} {ws : List Str} (h : Words l ws) : readWords (trim l) = ws := by
  induction h with
  | nil hg => rw [trim_allWs hg, readWords_nil]
  | @cons g w rest ws hg hw hr hrest ih =>
    obtain ⟨p, q, hrest_eq, hp, hq, hh, hl⟩ := trim_decomp rest
    by_cases hc : trim rest = []
    · have hall : AllWs rest := (trim_eq_nil_iff rest).mp hc
      rw [trim_pad w hg hall hw.2.headOk hw.2.lastOk, readWords_ne hw.1, readWord_word hw.2]
      simp only
      rw [readWords_nil, ← ih, hc, readWords_nil]
    · have hpne : p ≠ [] := by
        intro hp0
        subst hp0
        obtain ⟨c, r, hcr, hsp⟩ := trim_ne_nil_head hc
        have := hr c (by rw [hrest_eq, hcr]; rfl)
        rw [hsp] at this; cases this
      have e : g ++ w ++ rest = g ++ (w ++ (p ++ trim rest)) ++ q := by
        conv => lhs; rw [hrest_eq]
        simp
      have hpc : p ++ trim rest ≠ [] := by simp [hc]
      have hl' : LastOk (w ++ (p ++ trim rest)) := by
        have : w ++ (p ++ trim rest) = (w ++ p) ++ trim rest := by simp
        rw [this]; exact lastOk_append hc hl
      have hne : w ++ (p ++ trim rest) ≠ [] := by simp [hw.1]
      rw [e, trim_pad _ hg hq (headOk_append hw.1 hw.2.headOk) hl', readWords_ne hne,
        readWord_append hw.2 (headWs_of_allWs _ hp hpne)]
      simp only
      have : trim (p ++ trim rest) = trim rest := by
        have := trim_pad (pre := p) (post := []) (trim rest) hp allWs_nil hh hl
        simpa using this
      rw [this, ih]

theorem core_split {c : Str} (hc : c ≠ []) (hh : HeadOk c) :
    ∃ w r, c = w ++ r ∧ Word w ∧ HeadWs r ∧ readWords c = w :: readWords (trim r) := by
  refine ⟨c.takeWhile (fun x => !isSpace x), c.dropWhile (fun x => !isSpace x),
    (List.takeWhile_append_dropWhile).symm, ⟨?_, ?_⟩, ?_, ?_⟩
  · cases c with
    | nil => exact absurd rfl hc
    | cons a r =>
      have hsp : isSpace a = false := hh a rfl
      rw [List.takeWhile_cons_of_pos (by simp [hsp])]; simp
  · intro x hx
    have := mem_takeWhile_imp hx
    simpa using this
  · intro x hx
    have := List.head?_dropWhile_not (fun x => !isSpace x) c
    rw [hx] at this
    simpa using this
  · rw [readWords_ne hc]; rfl

theorem readWords_words_aux : ∀ n, ∀ l : Str, l.length ≤ n → Words l (readWords (trim l)) := by
  intro n
  induction n with
  | zero =>
    intro l hl
    have : l = [] := List.length_eq_zero_iff.mp (Nat.le_zero.mp hl)
    subst this
    rw [trim_allWs allWs_nil, readWords_nil]
    exact Words.nil allWs_nil
  | succ n ih =>
    intro l hl
    by_cases hc : trim l = []
    · rw [hc, readWords_nil]; exact Words.nil ((trim_eq_nil_iff l).mp hc)
    · obtain ⟨pre, post, hl_eq, hpre, hpost, hh, hlast⟩ := trim_decomp l
      obtain ⟨w, r, hsplit, hw, hhw, hrw⟩ := core_split hc hh
      have hlen : r.length ≤ n := by
        have h1 := congrArg List.length hl_eq
        have h2 := congrArg List.length hsplit
        simp only [List.length_append] at h1 h2
        have h3 : 0 < w.length := List.length_pos_iff.mpr hw.1
        omega
      have hrec := ih _ hlen
      rw [hrw]
      have hfin := Words.cons hpre hw (headWs_append_allWs hhw hpost) (hrec.append_ws hpost)
      have e : pre ++ w ++ (r ++ post) = l := by
        rw [hl_eq, hsplit]; simp
      rw [e] at hfin
      exact hfin

/-- the word loop of the parser computes the words of the grammar -/
theorem words_iff (l : Str) (ws : List Str) : Words l ws ↔ readWords (trim l) = ws := by
  constructor
  · exact words_readWords
  · rintro rfl
    exact readWords_words_aux l.length l (Nat.le_refl _)

/-! ## numerals -/

theorem signSplit_of_head {s : Str} (h : ∀ c, s.head? = some c → c ≠ '-' ∧ c ≠ '+') : signSplit s = (false, s) := by
  unfold signSplit
  split
  · exact absurd rfl (h '-' rfl).1
  · exact absurd rfl (h '+' rfl).2
  · rfl

theorem digits_head_sign {ds junk : Str} (hd : Digits ds) :
    ∀ c, (ds ++ junk).head? = some c → c ≠ '-' ∧ c ≠ '+' := by
  intro c hc
  obtain ⟨hne, hall⟩ := hd
  cases ds with
  | nil => exact absurd rfl hne
  | cons a r =>
    simp only [List.cons_append, List.head?_cons, Option.some.injEq] at hc
    subst hc
    have := hall a List.mem_cons_self
    exact ⟨isDigit_ne this (by decide), isDigit_ne this (by decide)⟩

theorem takeWhile_digits {ds junk : Str} (hd : Digits ds) (hj : NoDigitHead junk) :
    (ds ++ junk).takeWhile isDigit = ds := by
  rw [List.takeWhile_append_of_pos hd.2, takeWhile_headNeg hj, List.append_nil]

theorem isEmpty_digits {ds : Str} (hd : Digits ds) : ds.isEmpty = false := by
  obtain ⟨hne, _⟩ := hd
  cases ds with
  | nil => exact absurd rfl hne
  | cons a r => rfl

theorem numeral_fromStringInt {s : Str} {v : Int} (h : Numeral s v) : fromStringInt s = .ok v := by
  cases h with
  | @pos ds junk hd hj hmax =>
    have hmin : ¬ ((digitsVal ds : Int) < intMin) := by
      have : (0 : Int) ≤ (digitsVal ds : Int) := Int.natCast_nonneg _
      unfold intMin; omega
    have hmax' : ¬ (intMax < (digitsVal ds : Int)) := by omega
    simp [fromStringInt, signSplit_of_head (digits_head_sign hd), takeWhile_digits hd hj, isEmpty_digits hd,
      hmin, hmax']
  | @plus ds junk hd hj hmax =>
    have hmin : ¬ ((digitsVal ds : Int) < intMin) := by
      have : (0 : Int) ≤ (digitsVal ds : Int) := Int.natCast_nonneg _
      unfold intMin; omega
    have hmax' : ¬ (intMax < (digitsVal ds : Int)) := by omega
    have hs : signSplit ('+' :: (ds ++ junk)) = (false, ds ++ junk) := rfl
    simp [fromStringInt, hs, takeWhile_digits hd hj, isEmpty_digits hd, hmin, hmax']
  | @minus ds junk hd hj hmin =>
    have hmin' : ¬ (- (digitsVal ds : Int) < intMin) := by omega
    have hmax : ¬ (intMax < - (digitsVal ds : Int)) := by
      have : (0 : Int) ≤ (digitsVal ds : Int) := Int.natCast_nonneg _
      unfold intMax; omega
    have hs : signSplit ('-' :: (ds ++ junk)) = (true, ds ++ junk) := rfl
    simp [fromStringInt, hs, takeWhile_digits hd hj, isEmpty_digits hd, hmin', hmax]

/-- the digits / junk split of what follows the sign -/
theorem digits_split (t : Str) (h : (t.takeWhile isDigit).isEmpty = false) :
    t = t.takeWhile isDigit ++ t.dropWhile isDigit ∧ Digits (t.takeWhile isDigit) ∧
      NoDigitHead (t.dropWhile isDigit) := by
  refine ⟨(List.takeWhile_append_dropWhile).symm, ⟨?_, fun c hc => mem_takeWhile_imp hc⟩, ?_⟩
  · intro h0; rw [h0] at h; cases h
  · intro c hc
    have := List.head?_dropWhile_not isDigit t
    rw [hc] at this
    simpa using this

theorem fromStringInt_ok {s : Str} {v : Int} (h : fromStringInt s = .ok v) :
    ((signSplit s).2.takeWhile isDigit).isEmpty = false ∧
    v = (if (signSplit s).1 then - (digitsVal ((signSplit s).2.takeWhile isDigit) : Int)
      else (digitsVal ((signSplit s).2.takeWhile isDigit) : Int)) ∧ intMin ≤ v ∧ v ≤ intMax := by
  unfold fromStringInt at h
  simp only at h
  generalize (signSplit s).1 = neg at *
  generalize ((signSplit s).2.takeWhile isDigit) = ds at *
  cases hemp : ds.isEmpty
  · rw [hemp] at h
    simp only [Bool.false_eq_true, if_false] at h
    generalize (if neg = true then - (digitsVal ds : Int) else (digitsVal ds : Int)) = x at *
    by_cases hb : (decide (x < intMin) || decide (intMax < x)) = true
    · rw [if_pos hb] at h; cases h
    · rw [if_neg hb] at h
      injection h with h
      subst h
      simp only [Bool.or_eq_true, decide_eq_true_eq, not_or, Int.not_lt] at hb
      exact ⟨rfl, rfl, hb.1, hb.2⟩
  · rw [hemp] at h
    simp only [if_true] at h
    cases h

theorem fromStringInt_numeral {s : Str} {v : Int} (h : fromStringInt s = .ok v) : Numeral s v := by
  obtain ⟨hemp, hv, hmin, hmax⟩ := fromStringInt_ok h
  have key : ∀ neg t, signSplit s = (neg, t) → (neg = true → s = '-' :: t) →
      (neg = false → s = t ∨ s = '+' :: t) → Numeral s v := by
    intro neg t hss h1 h2
    rw [hss] at hemp hv
    simp only at hemp hv
    obtain ⟨hsplit, hd, hj⟩ := digits_split t hemp
    cases neg with
    | true =>
      simp only [if_true] at hv
      rw [hv] at hmin
      have := Numeral.minus hd hj hmin
      rw [← hsplit] at this
      rw [h1 rfl, hv]; exact this
    | false =>
      simp only [Bool.false_eq_true, if_false] at hv
      rw [hv] at hmax
      rcases h2 rfl with e | e
      · have := Numeral.pos hd hj hmax
        rw [← hsplit] at this
        rw [e, hv]; exact this
      · have := Numeral.plus hd hj hmax
        rw [← hsplit] at this
        rw [e, hv]; exact this
  cases s with
  | nil => exact key false [] rfl (by intro h; cases h) (fun _ => Or.inl rfl)
  | cons c r =>
    by_cases hc1 : c = '-'
    · subst hc1
      exact key true r rfl (fun _ => rfl) (by intro h; cases h)
    · by_cases hc2 : c = '+'
      · subst hc2
        exact key false r rfl (by intro h; cases h) (fun _ => Or.inr rfl)
      · have hh : ∀ d, (c :: r).head? = some d → d ≠ '-' ∧ d ≠ '+' := by
          intro d hd
          simp only [List.head?_cons, Option.some.injEq] at hd
          subst hd; exact ⟨hc1, hc2⟩
        exact key false (c :: r) (signSplit_of_head hh) (by intro h; cases h) (fun _ => Or.inl rfl)

theorem numeral_iff (s : Str) (v : Int) : Numeral s v ↔ fromStringInt s = .ok v :=
  ⟨numeral_fromStringInt, fromStringInt_numeral⟩

/-! ## tokens -/

theorem token_iff {w : Str} (hw : NoWs w) (n : Str) (r : Int) : Token w n r ↔ parseColonned w = .ok (n, r) := by
  constructor
  · intro h
    cases h with
    | plain hc => exact parseColonned_plain hw hc
    | @ranked _ num _ hc hnum =>
      have hp : ∀ a ∈ n, (fun c => c != ':') a = true := by
        intro a ha; simp only [bne_iff_ne, ne_eq]; intro e; subst e; exact hc ha
      have hd : (n ++ ':' :: num).dropWhile (fun c => c != ':') = ':' :: num := by
        rw [List.dropWhile_append_of_pos hp, List.dropWhile_cons_of_neg (by simp)]
      have ht : (n ++ ':' :: num).takeWhile (fun c => c != ':') = n := by
        rw [List.takeWhile_append_of_pos hp, List.takeWhile_cons_of_neg (by simp), List.append_nil]
      unfold parseColonned
      simp only [trim_noWs hw, hd, ht, (numeral_iff num r).mp hnum]
  · intro h
    unfold parseColonned at h
    simp only [trim_noWs hw] at h
    rcases find_char ':' w with ⟨hd, hc⟩ | ⟨q, hd, hsplit, hc⟩
    · rw [hd] at h
      simp only [Except.ok.injEq, Prod.mk.injEq] at h
      obtain ⟨rfl, rfl⟩ := h
      exact Token.plain hc
    · rw [hd] at h
      simp only at h
      cases hq : fromStringInt q with
      | error e => rw [hq] at h; cases h
      | ok v =>
        rw [hq] at h
        simp only [Except.ok.injEq, Prod.mk.injEq] at h
        obtain ⟨rfl, rfl⟩ := h
        have := Token.ranked hc ((numeral_iff q v).mpr hq)
        rw [← hsplit] at this
        exact this

theorem tokens_iff {ws : List Str} (hws : ∀ w ∈ ws, NoWs w) (ps : List (Str × Int)) :
    Tokens ws ps ↔ parseTokens ws = .ok ps := by
  induction ws generalizing ps with
  | nil =>
    constructor
    · intro h; cases h; rfl
    · intro h
      simp only [parseTokens, Except.ok.injEq] at h
      subst h; exact Tokens.nil
  | cons w ws ih =>
    have hw : NoWs w := hws w List.mem_cons_self
    have hws' : ∀ x ∈ ws, NoWs x := fun x hx => hws x (List.mem_cons_of_mem _ hx)
    constructor
    · intro h
      cases h with
      | @cons _ n r _ ps' ht hts =>
        simp only [parseTokens, (token_iff hw n r).mp ht, (ih hws' ps').mp hts]
    · intro h
      unfold parseTokens at h
      cases h1 : parseColonned w with
      | error e => rw [h1] at h; cases h
      | ok p =>
        rw [h1] at h
        simp only at h
        cases h2 : parseTokens ws with
        | error e => rw [h2] at h; cases h
        | ok ps' =>
          rw [h2] at h
          simp only [Except.ok.injEq] at h
          subst h
          obtain ⟨n, r⟩ := p
          exact Tokens.cons ((token_iff hw n r).mpr h1) ((ih hws' ps').mpr h2)

end Vata.Timbuk
