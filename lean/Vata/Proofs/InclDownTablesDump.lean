import Vata.Proofs.InclDownTablesCalls
import Vata.Proofs.BddAbsTD
/-!
# The dump in path order agrees with the traversal

`TabOK n ar T`: the MTBDDs of the table are ordered and reduced over the variables `< n`, every leaf is a sorted vector of
tuples (`OrdVector<StateTuple>`) and the tuples below the ranked symbol `c` have the length `ar c` (for loaded tables: `n = 22`,
`ar = arOf`, the arity bits).  For such tables, a sorted list `syms` of ranked symbols that covers the left table, and a
symbol-deterministic left table (`SymDet`), the groups of `pathOrder syms TA FA` / `pathOrder syms TB FB` are, LIST for LIST, what
the traversal as coded hands to the functor (`groupsAgree_pathOrder`).
-/
namespace Vata
namespace InclDownTables
open M BddAbs BddAbsTD BddTraverse InclDown

/-! ### `operator<` of tuples, sorted vectors -/

theorem ltT_iff : ∀ (a b : List Nat), ltT a b = true ↔ a < b
  | [], [] => by simp [ltT]
  | [], _ :: _ => by simp [ltT]
  | _ :: _, [] => by simp [ltT]
  | x :: xs, y :: ys => by
    simp only [ltT, List.cons_lt_cons_iff]
    have ih := ltT_iff xs ys
    split
    · simp [*]
    · split
      · simp; omega
      · have : x = y := by omega
        simp [this, ih]

theorem lt_of_le_ne {a b : List Nat} (h : a ≤ b) (h2 : a ≠ b) : a < b :=
  Decidable.byContradiction fun h3 => h2 (List.le_antisymm h (List.not_lt.mp h3))

theorem insT_sorted (x : List Nat) : ∀ {l : LS}, l.Pairwise (· < ·) → (insT x l).Pairwise (· < ·)
  | [], _ => by simp [insT]
  | y :: l, h => by
    obtain ⟨h1, h2⟩ := List.pairwise_cons.mp h
    unfold insT
    split
    · next hlt =>
      have hxy := (ltT_iff x y).mp hlt
      exact List.pairwise_cons.mpr ⟨fun z hz => by
        rcases List.mem_cons.mp hz with e | hz
        · rw [e]; exact hxy
        · exact List.lt_trans hxy (h1 z hz), h⟩
    · next hnlt =>
      split
      · exact h
      · next hne =>
        have hne' : x ≠ y := by simpa using hne
        have hyx : y < x :=
          lt_of_le_ne (List.not_lt.mp (fun hh => hnlt ((ltT_iff x y).mpr hh))) (Ne.symm hne')
        exact List.pairwise_cons.mpr ⟨fun z hz => by
          rcases mem_insT.mp hz with e | hz
          · rw [e]; exact hyx
          · exact h1 z hz, insT_sorted x h2⟩

theorem normT_sorted (l : LS) : (normT l).Pairwise (· < ·) := by
  induction l with
  | nil => simp [normT]
  | cons x l ih => exact insT_sorted x ih

theorem sortedT_ext : ∀ {l₁ l₂ : LS}, l₁.Pairwise (· < ·) → l₂.Pairwise (· < ·) → (∀ x, x ∈ l₁ ↔ x ∈ l₂) → l₁ = l₂
  | [], [], _, _, _ => rfl
  | [], b :: _, _, _, h => absurd ((h b).mpr List.mem_cons_self) (by simp)
  | a :: _, [], _, _, h => absurd ((h a).mp List.mem_cons_self) (by simp)
  | a :: t, b :: u, h1, h2, h => by
    rw [List.pairwise_cons] at h1 h2
    have hab : a = b := by
      rcases List.mem_cons.mp ((h a).mp List.mem_cons_self) with e | ha
      · exact e
      · rcases List.mem_cons.mp ((h b).mpr List.mem_cons_self) with e | hb
        · exact e.symm
        · exact absurd (List.lt_trans (h2.1 a ha) (h1.1 b hb)) (List.lt_irrefl _)
    subst hab
    congr 1
    refine sortedT_ext h1.2 h2.2 (fun x => ⟨fun hx => ?_, fun hx => ?_⟩)
    · rcases List.mem_cons.mp ((h x).mp (List.mem_cons_of_mem _ hx)) with e | hx'
      · have := h1.1 x hx; rw [e] at this; exact absurd this (List.lt_irrefl _)
      · exact hx'
    · rcases List.mem_cons.mp ((h x).mpr (List.mem_cons_of_mem _ hx)) with e | hx'
      · have := h2.1 x hx; rw [e] at this; exact absurd this (List.lt_irrefl _)
      · exact hx'

theorem dedup_pairwise {α : Type} [BEq α] [LawfulBEq α] {R S : α → α → Prop} (hRS : ∀ a b, R a b → a ≠ b → S a b) :
    ∀ {l : List α}, l.Pairwise R → (dedup l).Pairwise S
  | [], _ => by simp [dedup]
  | x :: l, h => by
    obtain ⟨h1, h2⟩ := List.pairwise_cons.mp h
    simp only [dedup]
    refine List.pairwise_cons.mpr ⟨fun y hy => ?_, (dedup_pairwise hRS h2).filter _⟩
    obtain ⟨hy1, hy2⟩ := List.mem_filter.mp hy
    have hne : y ≠ x := by simpa using hy2
    exact hRS x y (h1 y (mem_dedup.mp hy1)) (Ne.symm hne)

theorem sorted_eval_unionAllTD (T : TableTD) (ρ : Nat → Bool) (P : List Nat) :
    (eval (unionAllTD T P) ρ).Pairwise (· < ·) := by
  unfold unionAllTD
  rw [eval_foldl_apply2 unionTS (getTD T)]
  suffices h : ∀ (l : List Nat) (S : LS), S.Pairwise (· < ·) →
      (l.foldl (fun S k => unionTS S (eval (getTD T k) ρ)) S).Pairwise (· < ·) from h _ _ (by simp [eval])
  intro l
  induction l with
  | nil => intro S h; exact h
  | cons k l ih => intro S _; exact ih _ (normT_sorted _)

/-! ### the tables -/

structure TabOK (n : Nat) (ar : Nat → Nat) (T : TableTD) : Prop where
  wf : ∀ p, WF (getTD T p) ∧ Below n (getTD T p)
  sorted : ∀ p c, c < 2 ^ n → (eval (getTD T p) (bits c)).Pairwise (· < ·)
  ranked : ∀ p c ks, c < 2 ^ n → ks ∈ eval (getTD T p) (bits c) → ks.length = ar c

theorem unionAllTD_wf {n : Nat} {T : TableTD} (h : ∀ p, WF (getTD T p) ∧ Below n (getTD T p)) (P : List Nat) :
    WF (unionAllTD T P) ∧ Below n (unionAllTD T P) := by
  unfold unionAllTD
  suffices hh : ∀ (l : List Nat) (m : MTD), WF m ∧ Below n m →
      WF (l.foldl (fun m q => apply2 unionTS m (getTD T q)) m) ∧
        Below n (l.foldl (fun m q => apply2 unionTS m (getTD T q)) m) from hh _ _ ⟨trivial, trivial⟩
  intro l
  induction l with
  | nil => intro m hm; exact hm
  | cons q l ih =>
    intro m hm
    exact ih _ ⟨apply2_wf _ _ _ hm.1 (h q).1, apply2_below _ _ _ hm.2 (h q).2⟩

theorem getTD_all {Q : MTD → Prop} (h0 : Q (.leaf [])) : ∀ {T : TableTD}, (∀ e, e ∈ T → Q e.2) → ∀ p, Q (getTD T p)
  | [], _, _ => h0
  | (q, m) :: es, h, p => by
    simp only [getTD]
    split
    · exact h (q, m) List.mem_cons_self
    · exact getTD_all h0 (fun e he => h e (List.mem_cons_of_mem _ he)) p

/-- `TabOK` from the entries of the table -/
theorem tabOK_of_entries {n : Nat} {ar : Nat → Nat} {T : TableTD}
    (h : ∀ e, e ∈ T → (WF e.2 ∧ Below n e.2) ∧ (∀ c, c < 2 ^ n → (eval e.2 (bits c)).Pairwise (· < ·)) ∧
      ∀ c ks, c < 2 ^ n → ks ∈ eval e.2 (bits c) → ks.length = ar c) : TabOK n ar T :=
  ⟨getTD_all (Q := fun m => WF m ∧ Below n m) ⟨trivial, trivial⟩ (fun e he => (h e he).1),
   getTD_all (Q := fun m => ∀ c, c < 2 ^ n → (eval m (bits c)).Pairwise (· < ·)) (fun _ _ => by simp [eval])
     (fun e he => (h e he).2.1),
   fun p c ks => getTD_all (Q := fun m => ∀ c ks, c < 2 ^ n → ks ∈ eval m (bits c) → ks.length = ar c)
     (fun _ _ _ hk => by simp [eval] at hk) (fun e he => (h e he).2.2) p c ks⟩

theorem symDet_of_entries {n : Nat} {T : TableTD} (h : ∀ e, e ∈ T → SymDet n e.2) : ∀ p, SymDet n (getTD T p) :=
  getTD_all (Q := SymDet n) (fun _ _ _ _ hne => absurd rfl hne) h

/-! ### the rules of the dump -/

theorem mem_rulesAtTD {T : TableTD} {c : Nat} {r : Rule} :
    r ∈ rulesAtTD T c ↔ r.sym = c ∧ r.parent ∈ keysTD T ∧ r.kids ∈ eval (getTD T r.parent) (bits c) := by
  unfold rulesAtTD tuplesAt
  simp only [List.mem_flatMap, List.mem_map, List.mem_filter, mem_normT, List.contains_iff_mem]
  constructor
  · rintro ⟨ks, _, q, ⟨hq, hc⟩, rfl⟩
    exact ⟨rfl, hq, hc⟩
  · rintro ⟨h1, h2, h3⟩
    obtain ⟨f, ks, p⟩ := r
    simp only at h1 h2 h3
    subst h1
    exact ⟨ks, ⟨p, h2, h3⟩, p, ⟨h2, h3⟩, rfl⟩

theorem mem_pathOrder {syms : List Nat} {T : TableTD} {F : List Nat} {r : Rule} :
    r ∈ (pathOrder syms T F).rules ↔ r.sym ∈ syms ∧ r.kids ∈ eval (getTD T r.parent) (bits r.sym) := by
  unfold pathOrder
  simp only [List.mem_flatMap, mem_rulesAtTD]
  constructor
  · rintro ⟨c, hc, h1, _, h3⟩
    subst h1; exact ⟨hc, h3⟩
  · rintro ⟨h1, h2⟩
    refine ⟨r.sym, h1, rfl, ?_, h2⟩
    refine Decidable.byContradiction (fun hn => ?_)
    rw [getTD_not_key hn] at h2
    simp [eval] at h2

/-- the order of the rule list: ranked symbols increasing, tuples non-decreasing -/
def RO (r r' : Rule) : Prop := r.sym < r'.sym ∨ (r.sym = r'.sym ∧ r.kids ≤ r'.kids)

theorem rulesAt_pairwise (T : TableTD) (c : Nat) : (rulesAtTD T c).Pairwise (fun r r' => r.kids ≤ r'.kids) := by
  unfold rulesAtTD
  refine List.pairwise_flatMap.mpr ⟨fun ks _ => ?_, ?_⟩
  · rw [List.pairwise_map]
    exact List.pairwise_of_forall (fun _ _ => List.le_refl ks)
  · refine List.Pairwise.imp ?_ (normT_sorted _)
    intro ks ks' hlt x hx y hy
    obtain ⟨_, _, rfl⟩ := List.mem_map.mp hx
    obtain ⟨_, _, rfl⟩ := List.mem_map.mp hy
    exact List.le_of_lt hlt

theorem rules_pairwise {syms : List Nat} (hs : syms.Pairwise (· < ·)) (T : TableTD) (F : List Nat) :
    (pathOrder syms T F).rules.Pairwise RO := by
  unfold pathOrder
  refine List.pairwise_flatMap.mpr ⟨fun c _ => ?_, ?_⟩
  · refine List.Pairwise.imp_of_mem ?_ (rulesAt_pairwise T c)
    intro r r' hr hr' h
    exact Or.inr ⟨by rw [(mem_rulesAtTD.mp hr).1, (mem_rulesAtTD.mp hr').1], h⟩
  · refine List.Pairwise.imp ?_ hs
    intro c c' hlt x hx y hy
    exact Or.inl (by rw [(mem_rulesAtTD.mp hx).1, (mem_rulesAtTD.mp hy).1]; exact hlt)

/-- the kids of the rules of one ranked symbol are non-decreasing -/
theorem kids_pairwise {syms : List Nat} (hs : syms.Pairwise (· < ·)) (T : TableTD) (F : List Nat) (c : Nat)
    (keep : Rule → Bool) (hk : ∀ r, keep r = true → r.sym = c) :
    (((pathOrder syms T F).rules.filter keep).map (·.kids)).Pairwise (· ≤ ·) := by
  rw [List.pairwise_map]
  refine List.Pairwise.imp_of_mem ?_ ((rules_pairwise hs T F).filter keep)
  intro r r' hr hr' h
  have e1 := hk r (List.mem_filter.mp hr).2
  have e2 := hk r' (List.mem_filter.mp hr').2
  rcases h with h | h
  · omega
  · exact h.2

theorem lhsTuples_pathOrder {n : Nat} {ar : Nat → Nat} {syms : List Nat} {T : TableTD} (F : List Nat)
    (hs : syms.Pairwise (· < ·)) (ok : TabOK n ar T) (p : Nat) {c : Nat} (hc : c ∈ syms) (hlt : c < 2 ^ n) :
    lhsTuples (pathOrder syms T F) p c (ar c) = eval (getTD T p) (bits c) := by
  refine sortedT_ext ?_ (ok.sorted p c hlt) (fun ks => ?_)
  · unfold lhsTuples
    refine dedup_pairwise (fun a b h hne => lt_of_le_ne h hne) (kids_pairwise hs T F c _ (fun r hr => ?_))
    simp only [Bool.and_eq_true, beq_iff_eq] at hr
    exact hr.1.2
  · rw [mem_lhsTuples]
    constructor
    · rintro ⟨ρ, h1, h2, h3, _, h5⟩
      have := (mem_pathOrder.mp h1).2
      rw [h2, h3, h5] at this
      exact this
    · intro h
      exact ⟨⟨c, ks, p⟩, mem_pathOrder.mpr ⟨hc, h⟩, rfl, rfl, ok.ranked p c ks hlt h, rfl⟩

theorem rhsTuples_pathOrder {n : Nat} {ar : Nat → Nat} {syms : List Nat} {T : TableTD} (F : List Nat)
    (hs : syms.Pairwise (· < ·)) (ok : TabOK n ar T) (P : List Nat) {c : Nat} (hc : c ∈ syms) (hlt : c < 2 ^ n) :
    rhsTuples (pathOrder syms T F) P c (ar c) = eval (unionAllTD T P) (bits c) := by
  refine sortedT_ext ?_ (sorted_eval_unionAllTD T _ P) (fun ks => ?_)
  · unfold rhsTuples rulesOf
    refine dedup_pairwise (fun a b h hne => lt_of_le_ne h hne) (kids_pairwise hs T F c _ (fun r hr => ?_))
    simp only [Bool.and_eq_true, beq_iff_eq] at hr
    exact hr.1.2
  · rw [mem_rhsTuples, mem_eval_unionAllTD]
    constructor
    · rintro ⟨σ, hσ, rfl⟩
      obtain ⟨h1, h2, h3, _⟩ := mem_rulesOf.mp hσ
      have := (mem_pathOrder.mp h1).2
      rw [h3] at this
      exact ⟨σ.parent, h2, this⟩
    · rintro ⟨q, hq, h⟩
      exact ⟨⟨c, ks, q⟩, mem_rulesOf.mpr ⟨mem_pathOrder.mpr ⟨hc, h⟩, hq, rfl, ok.ranked q c ks hlt h⟩, rfl⟩

/-- the groups of `p` in the dump: the listed ranked symbols with a non-empty leaf, increasing -/
theorem lhsGroups_pathOrder {n : Nat} {ar : Nat → Nat} {syms : List Nat} {T : TableTD} (F : List Nat)
    (hs : syms.Pairwise (· < ·)) (hb : ∀ c, c ∈ syms → c < 2 ^ n) (ok : TabOK n ar T) (p : Nat) :
    lhsGroups (pathOrder syms T F) p =
      (syms.filter (fun c => !(eval (getTD T p) (bits c)).isEmpty)).map (fun c => (c, ar c)) := by
  have hmem : ∀ g, g ∈ lhsGroups (pathOrder syms T F) p ↔
      g.1 ∈ syms ∧ eval (getTD T p) (bits g.1) ≠ [] ∧ g.2 = ar g.1 := by
    intro g
    rw [mem_lhsGroups]
    constructor
    · rintro ⟨ρ, h1, h2, h3, h4⟩
      obtain ⟨m1, m2⟩ := mem_pathOrder.mp h1
      rw [h2, h3] at m2
      rw [h3] at m1
      exact ⟨m1, List.ne_nil_of_mem m2, by rw [← h4]; exact ok.ranked p g.1 _ (hb _ m1) m2⟩
    · rintro ⟨m1, m2, m3⟩
      obtain ⟨ks, hks⟩ := List.exists_mem_of_ne_nil _ m2
      exact ⟨⟨g.1, ks, p⟩, mem_pathOrder.mpr ⟨m1, hks⟩, rfl, rfl, by rw [m3]; exact ok.ranked p g.1 ks (hb _ m1) hks⟩
  have e1 : lhsGroups (pathOrder syms T F) p = ((lhsGroups (pathOrder syms T F) p).map (·.1)).map (fun c => (c, ar c)) := by
    rw [List.map_map]
    conv => lhs; rw [← List.map_id (lhsGroups (pathOrder syms T F) p)]
    refine List.map_congr_left (fun g hg => ?_)
    have := ((hmem g).mp hg).2.2
    simp only [id, Function.comp]
    rw [← this]
  rw [e1]
  congr 1
  refine sorted_ext ?_ (hs.filter _) (fun c => ?_)
  · rw [List.pairwise_map]
    unfold lhsGroups
    refine dedup_pairwise (R := fun g g' : Nat × Nat => g.1 < g'.1 ∨ g = g') (fun a b h hne => ?_) ?_
    · rcases h with h | h
      · exact h
      · exact absurd h hne
    · rw [List.pairwise_map]
      refine List.Pairwise.imp_of_mem ?_ ((rules_pairwise hs T F).filter _)
      intro r r' hr hr' h
      obtain ⟨m1, m2⟩ := List.mem_filter.mp hr
      obtain ⟨m1', m2'⟩ := List.mem_filter.mp hr'
      simp only [beq_iff_eq] at m2 m2'
      rcases h with h | h
      · exact Or.inl h
      · refine Or.inr ?_
        have k1 := ok.ranked p r.sym r.kids (hb _ (mem_pathOrder.mp m1).1) (by rw [← m2]; exact (mem_pathOrder.mp m1).2)
        have k2 := ok.ranked p r'.sym r'.kids (hb _ (mem_pathOrder.mp m1').1)
          (by rw [← m2']; exact (mem_pathOrder.mp m1').2)
        rw [Prod.mk.injEq]
        exact ⟨h.1, by rw [k1, k2, h.1]⟩
  · simp only [List.mem_map, List.mem_filter, Bool.not_eq_true', List.isEmpty_eq_false_iff]
    constructor
    · rintro ⟨g, hg, rfl⟩
      exact ⟨((hmem g).mp hg).1, ((hmem g).mp hg).2.1⟩
    · rintro ⟨h1, h2⟩
      exact ⟨(c, ar c), (hmem _).mpr ⟨h1, h2, rfl⟩, rfl⟩

/-- **the groups agree**: for a symbol-deterministic left table and a sorted list of ranked symbols that covers it, the
traversal as coded hands to the functor exactly the groups of the dumps in path order -/
theorem groupsAgree_pathOrder {n : Nat} {ar : Nat → Nat} {syms : List Nat} {TA TB : TableTD} (FA FB : List Nat)
    (hs : syms.Pairwise (· < ·)) (hb : ∀ c, c ∈ syms → c < 2 ^ n)
    (hcov : ∀ p c, c < 2 ^ n → eval (getTD TA p) (bits c) ≠ [] → c ∈ syms)
    (okA : TabOK n ar TA) (okB : TabOK n ar TB) (hd : ∀ p, SymDet n (getTD TA p)) :
    GroupsAgree TA TB (pathOrder syms TA FA) (pathOrder syms TB FB) := by
  intro p P
  have hu := unionAllTD_wf okB.wf P
  have h1 := calls_ne_eq (okA.wf p).1 hu.1 (okA.wf p).2 hu.2 (hd p)
  have e1 : (neCalls (travDown TA TB p P)).map callItem =
      neIt ((voidApply2Calls (getTD TA p) (unionAllTD TB P)).map symItem) := by
    unfold neCalls neIt travDown
    rw [List.filter_map]
    rfl
  rw [e1, h1]
  unfold groupItems
  rw [lhsGroups_pathOrder FA hs hb okA p, List.map_map]
  unfold neIt symItems
  rw [List.filter_map]
  have e2 : (List.range (2 ^ n)).filter ((fun i : It => !i.2.1.isEmpty) ∘
      fun g => (0 + g, eval (getTD TA p) (bits (0 + g)), eval (unionAllTD TB P) (bits (0 + g)))) =
      syms.filter (fun c => !(eval (getTD TA p) (bits c)).isEmpty) := by
    refine sorted_ext (List.pairwise_lt_range.filter _) (hs.filter _) (fun c => ?_)
    simp only [List.mem_filter, List.mem_range, Function.comp, Nat.zero_add, Bool.not_eq_true',
      List.isEmpty_eq_false_iff]
    constructor
    · rintro ⟨h1, h2⟩; exact ⟨hcov p c h1 h2, h2⟩
    · rintro ⟨h1, h2⟩; exact ⟨hb c h1, h2⟩
  rw [e2]
  refine List.map_congr_left (fun c hc => ?_)
  obtain ⟨hc1, _⟩ := List.mem_filter.mp hc
  simp only [Function.comp, Nat.zero_add]
  rw [lhsTuples_pathOrder FA hs okA p hc1 (hb c hc1), rhsTuples_pathOrder FB hs okB P hc1 (hb c hc1)]

/-! ### loaded tables -/

theorem sorted_foldl_addTransition : ∀ (rs : List Rule) (T : TableTD),
    (∀ p ρ, (eval (getTD T p) ρ).Pairwise (· < ·)) →
    ∀ p ρ, (eval (getTD (rs.foldl (fun T r => addTransitionTD T r.kids r.sym r.parent) T) p) ρ).Pairwise (· < ·)
  | [], _, h => h
  | r :: rs, T, h => by
    rw [List.foldl_cons]
    refine sorted_foldl_addTransition rs _ (fun p ρ => ?_)
    unfold addTransitionTD addCubeTD
    rw [getTD_setTD]
    split
    · rw [apply2_eval]; exact normT_sorted _
    · exact h p ρ

theorem arity_of_arOK {c n : Nat} (hc : c < 2 ^ 22) (hn : n < 64) (h : arOK (bits c) n = true) : n = arOf c := by
  rw [arOK_iff] at h
  unfold arOf
  apply Nat.eq_of_testBit_eq
  intro j
  by_cases hj : j < 6
  · have := h j hj
    simp only [bits] at this
    rw [Nat.testBit_div_two_pow, ← this, Nat.add_comm]
  · have h1 : n < 2 ^ j := Nat.lt_of_lt_of_le hn (by
      have : 2 ^ 6 ≤ 2 ^ j := Nat.pow_le_pow_right (by decide) (by omega)
      omega)
    have h2 : c / 2 ^ 16 < 2 ^ j := by
      have : c / 2 ^ 16 < 64 := by omega
      have : 2 ^ 6 ≤ 2 ^ j := Nat.pow_le_pow_right (by decide) (by omega)
      omega
    rw [Nat.testBit_lt_two_pow h1, Nat.testBit_lt_two_pow h2]

/-- loaded tables satisfy `TabOK` (arities `< 64`) -/
theorem tabOK_ofRulesTD (rs : List Rule) (hrs : ∀ r, r ∈ rs → r.kids.length < 64) : TabOK 22 arOf (ofRulesTD rs) := by
  refine ⟨fun p => ⟨(tableTD_ofRulesTD rs).1 p, (tableTD_ofRulesTD rs).2 p⟩, fun p c _ => ?_, fun p c ks hc hk => ?_⟩
  · exact sorted_foldl_addTransition rs [] (fun _ _ => by simp [getTD, eval]) p _
  · obtain ⟨r, hr, h1, _, _, h4⟩ := (hasRuleTD_ofRulesTD_gen rs (bits c) p ks).mp hk
    exact arity_of_arOK hc (by rw [← h1]; exact hrs r hr) h4

end InclDownTables
end Vata
