import Vata.Proofs.LtsUtilSR5

/-!
# `SplittingRelation` — part 6: `split_refines`, capacity, `step_refines`, `run_refines`

* `aSplit_length`, `aSplit_last`, `aSplit_old`, `aSplit_mem_new`: what `aSplit` does to the value.
* `split_refines`: `split(i)` of a reflexive index below the capacity succeeds and represents `aSplit rel i`.
* `init_len`, `split_len` (+ `eraseRow_refines_cap` in part 2): no operation changes the capacity `rows_.size()`.
* `Rep`, `step_refines`, `run`, `aRun`, `okAll`, `run_refines`: every history inside the call discipline `ok`.
-/
namespace Vata.LU.SR
namespace P
local notation "cs" => List.map Ptr.cell

theorem map_eq_append_singleton {f : Nat → Nat} {l : List Nat} {v : List Nat} {n : Nat} (h : l.map f = v ++ [n]) :
    ∃ orig z, l = orig ++ [z] ∧ orig.map f = v ∧ f z = n := by
  rcases List.eq_nil_or_concat l with rfl | ⟨orig, z, rfl⟩
  · simp at h
  · rw [List.concat_eq_append] at h ⊢
    refine ⟨orig, z, rfl, ?_⟩
    rw [List.map_append] at h
    have := List.append_inj' h (by simp)
    exact ⟨this.1, by simpa using this.2⟩

end P

theorem aSplit_length (rel : List (List Nat)) (i : Nat) : (aSplit rel i).length = rel.length + 1 := by
  simp [aSplit]

/-- the new index is related exactly like `i`, plus itself -/
theorem aSplit_last (rel : List (List Nat)) (i : Nat) :
    (aSplit rel i).getD rel.length [] = rel.getD i [] ++ [rel.length] := by
  simp [aSplit, List.getD_eq_getElem?_getD]

theorem aSplit_old (rel : List (List Nat)) (i : Nat) {k : Nat} (hk : k < rel.length) :
    (aSplit rel i).getD k [] =
      if (rel.getD k []).contains i then rel.getD k [] ++ [rel.length] else rel.getD k [] := by
  simp [aSplit, List.getD_eq_getElem?_getD, List.getElem?_append_left, hk]

/-- row `r < n` is related to the new index iff it is related to `i` (rows have entries `< n`) -/
theorem aSplit_mem_new (rel : List (List Nat)) (i : Nat) {r : Nat} (hr : r < rel.length)
    (hlt : ∀ c ∈ rel.getD r [], c < rel.length) :
    rel.length ∈ (aSplit rel i).getD r [] ↔ i ∈ rel.getD r [] := by
  rw [aSplit_old rel i hr]
  by_cases hc : (rel.getD r []).contains i = true
  · simp only [hc, if_true, List.mem_append, List.mem_singleton, or_true, true_iff]
    simpa using hc
  · simp only [hc, if_false, Bool.false_eq_true]
    constructor
    · intro hm; exact absurd (hlt _ hm) (Nat.lt_irrefl _)
    · intro hm; exact absurd (by simpa using hm) hc

/-- `split(i)` of a reflexive index below the capacity: succeeds, and the result represents `aSplit rel i` -/
theorem split_refines {s : T} {rel : List (List Nat)} (h : Inv s rel) {i : Nat} (hi : i < rel.length)
    (hcap : rel.length < s.rows.length) (hrefl : (rel.getD i []).contains i = true) :
    ∃ s', split s i = some s' ∧ Inv s' (aSplit rel i) := by
  obtain ⟨R, C, hs, hv⟩ := h
  obtain ⟨g0, m0, sz0⟩ := (P.Shape_iff_GS _ _ _ _).1 hs
  have d0 := hs.data
  -- phase 1
  obtain ⟨g0', hRn, hCn⟩ := g0.grow (show rel.length < (P.obs s).nr from hcap)
  have hSC : P.SC (P.obs s) rel.length i R C [] (C i) :=
    ⟨g0'.weaken (fun k _ hk => ⟨trivial, hk⟩) (fun k _ hk => ⟨trivial, hk⟩), m0, by simp, hRn, by rw [hCn]⟩
  have hlenC : (C i).length < s.next + 1 :=
    Nat.lt_succ_of_le (P.length_le_of_lt (d0.C_nodup i) (fun a ha => m0.lt _ a (d0.cr i a ha)))
  obtain ⟨s1, R1, C1, e1, h1, hv1, hx1, hsz1⟩ := P.splitCol_spec i rel.length hi (C i) (s.next + 1) s R C [] hSC hlenC
  obtain ⟨cl, hcl1, hcl2⟩ := P.cols_first (P.DL_head _ _ _ (hs.colC i hi))
  rw [hCn, P.lastP_nil] at e1
  -- phase 2
  have hal1 := P.alloc_spec s1 h1.mem.fnd h1.mem.flt
  have hfresh1 : ∀ k, (alloc s1).1 ∉ R1 k := h1.mem.fresh hal1
  have g1 := h1.gs.alloc hal1 hfresh1
  have hnc1 : rel.length < (P.obs (alloc s1).2).nc := by rw [g1.nc]; exact g1.nr
  obtain ⟨q, hq⟩ := P.gd_lastP_some (s := (alloc s1).2) (C1 rel.length) hnc1
  obtain ⟨q', hq'⟩ := P.gu_colS_some hnc1
  obtain ⟨s5, e5, o5⟩ := P.phase2_obs (n := rel.length) hq hq'
  obtain ⟨g5, f1, f2, f3, f4, f5, f6, f7⟩ := P.reflex_shape g1 hfresh1 o5
  have m5 : P.Mem (P.obs s5) R1 := (h1.mem.alloc hal1).congr (by rw [o5]) (by rw [o5])
  have hEL : P.EL (P.obs s5) rel.length (alloc s1).1 R1 C1 :=
    ⟨f1, f2, f3, f4, f5, f6, f7, by rw [o5]; exact hal1.t_nfree, by rw [o5]; exact hal1.t_lt, hfresh1⟩
  -- row `i` after phase 1
  have hii : i ∈ (C i).map (P.obs s).row := by
    have : i ∈ rel.getD i [] := by simpa using hrefl
    rw [← hv i hi] at this
    obtain ⟨a, ha, hai⟩ := List.mem_map.1 this
    have := d0.rc i a ha
    rw [hai] at this
    exact List.mem_map.2 ⟨a, this, d0.rrow i a ha⟩
  have hRi := hv1 i hi
  rw [if_pos hii] at hRi
  obtain ⟨orig, z, hRz, horig, hz⟩ := P.map_eq_append_singleton hRi
  have hcol5 : ∀ x k, x ∈ R1 k → (P.obs s5).col x = (P.obs s1).col x := by
    intro x k hx
    have hxt : x ≠ (alloc s1).1 := fun e' => hfresh1 k (e' ▸ hx)
    rw [o5]; show P.updN _ _ _ x = _
    rw [P.updN_ne _ _ hxt]; exact hal1.col x hxt
  have hzR : z ∈ R1 i := by rw [hRz]; simp
  have hSW : P.SW (P.obs s5) rel.length i (alloc s1).1 R1 C1 [] orig z :=
    ⟨g5, m5, hEL, by simpa using hRz, by rw [hcol5 z i hzR]; exact hz, by rw [h1.rn]⟩
  have hlenR : orig.length < s5.next + 1 := by
    have := P.length_le_of_lt (g5.data.R_nodup i) (m5.lt i)
    rw [hRz] at this
    simp only [List.length_append, List.length_cons, List.length_nil] at this
    have e' : (P.obs s5).next = s5.next := rfl
    omega
  obtain ⟨s6, R6, C6, e6, h6, hk6, hx6, hsz6⟩ :=
    P.splitRow_spec i rel.length (alloc s1).1 hi orig (s5.next + 1) s5 R1 C1 [] z hSW hlenR
  have hrC5 := g5.rowC (i := i) (by omega) hi
  obtain ⟨rw5, hrw1, hrw2⟩ := P.rows_first (P.DL_head _ _ _ hrC5)
  rw [hRz, P.headP_append_singleton] at hrw2
  rw [h1.rn, P.lastP_nil] at e6
  -- phase 4
  have hnr6 : rel.length < (P.obs s6).nr := h6.gs.nr
  obtain ⟨q6, hq6⟩ := P.gr_lastP_some (s := s6) (R6 rel.length) hnr6
  obtain ⟨q6', hq6'⟩ := P.gl_rowS_some hnr6
  obtain ⟨s9, e9, o9⟩ := P.phase4_obs h6.el.u2 hq6 hq6'
  have hsize6 : (P.obs s6).size = rel.length := by
    rw [hsz6, o5]; show (P.obs (alloc s1).2).size = _; rw [hal1.size, hsz1]; exact sz0
  have hshape := P.finish_shape h6 hsize6 o9
  have hcond : i < s.size ∧ s.size < s.cols.length ∧ s.size < s.rows.length := by
    have e1' : s.size = rel.length := sz0
    have e2' : s.cols.length = s.rows.length := g0.nc
    rw [e1', e2']; exact ⟨hi, hcap, hcap⟩
  have esz : s.size = rel.length := sz0
  refine ⟨s9, ?_, _, _, by rw [aSplit_length]; exact hshape, ?_⟩
  · refine P.split_some (s1 := s1) (last := P.lastP (.colS rel.length) (C1 rel.length)) (s5 := s5) (s6 := s6)
      (last2 := P.lastP (.rowS rel.length) (R6 rel.length)) hcond hcl1 ?_ ?_ hrw1 ?_ ?_
    · rw [esz, hcl2]; exact e1
    · rw [esz]; exact e5
    · rw [esz, hrw2]; exact e6
    · rw [esz]; exact e9
  · -- the value
    intro k hk
    rw [aSplit_length] at hk
    have hcol9 : (P.obs s9).col = (P.obs s6).col := by rw [o9]
    rw [hcol9]
    by_cases hkn : k = rel.length
    · subst hkn
      rw [P.setL_same, aSplit_last, List.map_append, h6.rn, ← hv i hi, ← horig]
      simp only [List.nil_append, List.map_cons, List.map_nil, h6.el.col]
      congr 1
      refine List.map_congr_left (fun x hx => ?_)
      have hxR : x ∈ R1 i := by rw [hRz]; simp [hx]
      rw [(hx6 x i hxR).2, hcol5 x i hxR]
    · have hk' : k < rel.length := by omega
      rw [P.setL_ne _ _ hkn, hk6 k hkn, aSplit_old rel i hk']
      rw [List.map_congr_left (fun x hx => ((hx6 x k hx).2.trans (hcol5 x k hx))), hv1 k hk', hv k hk']
      have hiff : k ∈ (C i).map (P.obs s).row ↔ (rel.getD k []).contains i = true := by
        rw [d0.col_eq hv i]
        simp [aCol, hk']
      by_cases hc : (rel.getD k []).contains i = true
      · rw [if_pos (hiff.2 hc), if_pos hc]
      · rw [if_neg (fun hm => hc (hiff.1 hm)), if_neg hc]; simp


/-! ### the capacity never changes -/

namespace P

theorem setRight_len {s s' : T} {p v : Ptr} (h : setRight s p v = some s') : s'.rows.length = s.rows.length := by
  cases p <;> simp only [setRight, reduceCtorEq] at h
  · obtain rfl := Option.some.inj h; rfl
  · split at h
    · obtain rfl := Option.some.inj h; simp
    · simp at h

theorem setDown_len {s s' : T} {p v : Ptr} (h : setDown s p v = some s') : s'.rows.length = s.rows.length := by
  cases p <;> simp only [setDown, reduceCtorEq] at h
  · obtain rfl := Option.some.inj h; rfl
  · split at h
    · obtain rfl := Option.some.inj h; rfl
    · simp at h

theorem setLeft_len {s s' : T} {p v : Ptr} (h : setLeft s p v = some s') : s'.rows.length = s.rows.length := by
  cases p with
  | cell a => simp only [setLeft] at h; obtain rfl := Option.some.inj h; rfl
  | rowS k =>
    cases k with
    | zero => simp [setLeft] at h
    | succ k =>
      simp only [setLeft] at h
      split at h
      · obtain rfl := Option.some.inj h; simp
      · simp at h
  | _ => simp [setLeft] at h

theorem setUp_len {s s' : T} {p v : Ptr} (h : setUp s p v = some s') : s'.rows.length = s.rows.length := by
  cases p with
  | cell a => simp only [setUp] at h; obtain rfl := Option.some.inj h; rfl
  | colS k =>
    cases k with
    | zero => simp [setUp] at h
    | succ k =>
      simp only [setUp] at h
      split at h
      · obtain rfl := Option.some.inj h; rfl
      · simp at h
  | _ => simp [setUp] at h

theorem initCell_len {i j : Nat} {st st' : T × List Ptr × Ptr} (h : initCell i st j = some st') :
    st'.1.rows.length = st.1.rows.length := by
  unfold initCell at h
  split at h
  · simp at h
  · simp only [] at h
    split at h
    · simp at h
    · rename_i s2 h2
      split at h
      · simp at h
      · rename_i s3 h3
        obtain rfl := Option.some.inj h
        simp only []
        rw [setRight_len h3, setDown_len h2]

theorem initCells_len {i : Nat} : ∀ (js : List Nat) {st st' : T × List Ptr × Ptr}, initCells i st js = some st' →
    st'.1.rows.length = st.1.rows.length
  | [], st, st', h => by simp only [initCells] at h; obtain rfl := Option.some.inj h; rfl
  | j :: js, st, st', h => by
    simp only [initCells] at h
    split at h
    · simp at h
    · rename_i st1 h1
      rw [initCells_len js h, initCell_len h1]

theorem initRow_len {st st' : T × List Ptr} {irow : Nat × List Nat} (h : initRow st irow = some st') :
    st'.1.rows.length = st.1.rows.length := by
  unfold initRow at h
  split at h
  · simp at h
  · rename_i s1 lastV last h1
    split at h
    · simp at h
    · rename_i s2 h2
      simp only [Option.map_eq_some_iff] at h
      obtain ⟨s3, h3, rfl⟩ := h
      simp only []
      rw [setRowSecond_eq] at h3
      rw [setLeft_len h3, setRight_len h2]
      exact initCells_len _ h1

theorem initRows_len : ∀ (rs : List (Nat × List Nat)) {st st' : T × List Ptr}, initRows st rs = some st' →
    st'.1.rows.length = st.1.rows.length
  | [], st, st', h => by simp only [initRows] at h; obtain rfl := Option.some.inj h; rfl
  | r :: rs, st, st', h => by
    simp only [initRows] at h
    split at h
    · simp at h
    · rename_i st1 h1
      rw [initRows_len rs h, initRow_len h1]

theorem initCols_len (lastV : List Ptr) : ∀ (js : List Nat) {s s' : T}, initCols lastV s js = some s' →
    s'.rows.length = s.rows.length
  | [], s, s', h => by simp only [initCols] at h; obtain rfl := Option.some.inj h; rfl
  | j :: js, s, s', h => by
    simp only [initCols] at h
    split at h
    · simp at h
    · rename_i s1 h1
      rw [initCols_len lastV js h]
      unfold initCol at h1
      split at h1
      · simp at h1
      · split at h1
        · simp at h1
        · rename_i s0 h0
          rw [setColSecond_eq] at h1
          rw [setUp_len h1, setDown_len h0]

theorem init_len {s s' : T} {index : List (List Nat)} (h : init s index = some s') : s'.rows.length = s.rows.length := by
  unfold init at h
  split at h
  · split at h
    · simp at h
    · rename_i s1 lastV h1
      rw [initCols_len _ _ h]
      exact initRows_len _ h1
  · simp at h

theorem alloc_len (s : T) : (alloc s).2.rows.length = s.rows.length := by
  unfold alloc; split <;> rfl

theorem splitCol_len (idx n : Nat) : ∀ (fuel : Nat) {s s' : T} {last el l' : Ptr},
    splitCol idx n fuel s last el = some (s', l') → s'.rows.length = s.rows.length
  | 0, _, _, _, _, _, h => by simp [splitCol] at h
  | fuel + 1, s, s', last, el, l', h => by
    unfold splitCol at h
    split at h
    · obtain ⟨rfl, _⟩ := Prod.mk.inj (Option.some.inj h); rfl
    · split at h
      · simp only [] at h
        split at h
        · simp at h
        · rename_i s1 h1
          split at h
          · simp at h
          · split at h
            · simp at h
            · rename_i s3 h3
              split at h
              · simp at h
              · rename_i s5 h5
                rw [splitCol_len idx n fuel h]
                simp only []
                rw [setRowSecond_eq] at h5
                rw [setLeft_len h5]
                simp only []
                rw [setRight_len h3]
                simp only []
                rw [setDown_len h1, alloc_len]
      · simp at h

theorem splitRow_len (idx n : Nat) : ∀ (fuel : Nat) {s s' : T} {last el l' : Ptr},
    splitRow idx n fuel s last el = some (s', l') → s'.rows.length = s.rows.length
  | 0, _, _, _, _, _, h => by simp [splitRow] at h
  | fuel + 1, s, s', last, el, l', h => by
    unfold splitRow at h
    split at h
    · simp at h
    · split at h
      · obtain ⟨rfl, _⟩ := Prod.mk.inj (Option.some.inj h); rfl
      · split at h
        · simp only [] at h
          split at h
          · simp at h
          · rename_i s1 h1
            split at h
            · simp at h
            · split at h
              · simp at h
              · rename_i s3 h3
                split at h
                · simp at h
                · rename_i s5 h5
                  rw [splitRow_len idx n fuel h]
                  simp only []
                  rw [setColSecond_eq] at h5
                  rw [setUp_len h5]
                  simp only []
                  rw [setDown_len h3]
                  simp only []
                  rw [setRight_len h1, alloc_len]
        · simp at h

theorem split_len {s s' : T} {idx : Nat} (h : split s idx = some s') : s'.rows.length = s.rows.length := by
  unfold split at h
  split at h
  · simp only [] at h
    split at h
    · simp at h
    · split at h
      · simp at h
      · rename_i s1 last h1
        split at h
        · simp at h
        · rename_i s2 h2
          split at h
          · simp at h
          · rename_i s4 h4
            split at h
            · simp at h
            · split at h
              · simp at h
              · rename_i s6 last2 h6
                split at h
                · simp at h
                · rename_i s7 h7
                  split at h
                  · simp at h
                  · rename_i s8 h8
                    split at h
                    · simp at h
                    · rename_i s9 h9
                      obtain rfl := Option.some.inj h
                      simp only []
                      rw [setRowSecond_eq] at h9
                      rw [setLeft_len h9, setLeft_len h8, setRight_len h7, splitRow_len _ _ _ h6]
                      simp only []
                      rw [setColSecond_eq] at h4
                      rw [setUp_len h4]
                      simp only []
                      rw [setDown_len h2, alloc_len, splitCol_len _ _ _ h1]
  · simp at h

end P

/-! ### histories -/

/-- the concrete state `s` represents the abstract state `a`: before `init` the object is as constructed, afterwards the
invariant holds for `a.rel`; the capacity is `a.maxSize` throughout -/
def Rep (s : T) (a : A) : Prop :=
  s.rows.length = a.maxSize ∧ (if a.inited = true then Inv s a.rel else s = mk a.maxSize)

/-- the observable result of a call on the value side (`split` returns the new index) -/
def aOut (a : A) : Op → List Nat
  | .split _ => [a.rel.length]
  | _ => []

theorem step_refines {s : T} {a : A} (h : Rep s a) {op : Op} (hok : ok a op = true) :
    ∃ s', step s op = some (s', aOut a op) ∧ Rep s' (aStep a op) := by
  obtain ⟨hcap, hrep⟩ := h
  cases op with
  | init index =>
    have hin : a.inited = false := by
      simp only [ok, Bool.and_eq_true, Bool.not_eq_true'] at hok; exact hok.1.1
    rw [hin] at hrep
    simp only [Bool.false_eq_true, if_false] at hrep
    have hok' : ok ⟨[], a.maxSize, false⟩ (.init index) = true := by
      simp only [ok, hin] at hok ⊢; exact hok
    obtain ⟨s', e1, hinv⟩ := init_refines hok'
    refine ⟨s', by simp only [step, hrep, e1, aOut]; rfl, ?_, ?_⟩
    · rw [P.init_len e1]; simp [mk, aStep]
    · simp only [aStep, if_true]; exact hinv
  | split i =>
    simp only [ok, Bool.and_eq_true, decide_eq_true_eq] at hok
    obtain ⟨⟨⟨hin, hi⟩, hlt⟩, hrefl⟩ := hok
    rw [hin] at hrep
    simp only [if_true] at hrep
    obtain ⟨s', e1, hinv⟩ := split_refines hrep hi (by rw [hcap]; exact hlt) hrefl
    refine ⟨s', ?_, ?_, ?_⟩
    · simp only [step, e1, aOut, size_refines hrep]; rfl
    · rw [P.split_len e1]; exact hcap
    · simp only [aStep, hin, if_true]; exact hinv
  | eraseRow i mask =>
    simp only [ok, Bool.and_eq_true, decide_eq_true_eq] at hok
    obtain ⟨hin, hi⟩ := hok
    rw [hin] at hrep
    simp only [if_true] at hrep
    obtain ⟨s', e1, hinv, hlen⟩ := eraseRow_refines_cap hrep hi mask
    refine ⟨s', by simp only [step, e1, aOut]; rfl, ?_, ?_⟩
    · rw [hlen]; exact hcap
    · simp only [aStep, hin, if_true]; exact hinv

/-- run a history on the model; the results of the calls are collected -/
def run : T → List Op → Option (T × List (List Nat))
  | s, [] => some (s, [])
  | s, op :: ops =>
    match step s op with
    | none => none
    | some (s1, out) => (run s1 ops).map (fun r => (r.1, out :: r.2))

/-- run a history on the value -/
def aRun : A → List Op → A × List (List Nat)
  | a, [] => (a, [])
  | a, op :: ops => ((aRun (aStep a op) ops).1, aOut a op :: (aRun (aStep a op) ops).2)

/-- the whole history respects the call discipline -/
def okAll : A → List Op → Bool
  | _, [] => true
  | a, op :: ops => ok a op && okAll (aStep a op) ops

theorem run_refines : ∀ (ops : List Op) {s : T} {a : A}, Rep s a → okAll a ops = true →
    ∃ s', run s ops = some (s', (aRun a ops).2) ∧ Rep s' (aRun a ops).1
  | [], s, a, h, _ => ⟨s, rfl, h⟩
  | op :: ops, s, a, h, hok => by
    simp only [okAll, Bool.and_eq_true] at hok
    obtain ⟨s1, e1, h1⟩ := step_refines h hok.1
    obtain ⟨s', e2, h2⟩ := run_refines ops h1 hok.2
    exact ⟨s', by simp only [run, e1, e2, aRun]; rfl, h2⟩

theorem rep_mk (m : Nat) : Rep (mk m) ⟨[], m, false⟩ := by
  refine ⟨by simp [mk], ?_⟩
  simp

/-- every history on a new object that respects the call discipline: the model never gets stuck (no undefined
behaviour), returns what the value returns, and ends in a state that represents the final value -/
theorem run_refines_mk (m : Nat) (ops : List Op) (hok : okAll ⟨[], m, false⟩ ops = true) :
    ∃ s', run (mk m) ops = some (s', (aRun ⟨[], m, false⟩ ops).2) ∧ Rep s' (aRun ⟨[], m, false⟩ ops).1 :=
  run_refines ops (rep_mk m) hok

/-- what can be observed after such a history (once `init` has been called): `size()`, every `row(i)` and every
`column(i)` iterate exactly the final value -/
theorem run_observe_mk (m : Nat) (ops : List Op) (hok : okAll ⟨[], m, false⟩ ops = true)
    (hin : (aRun ⟨[], m, false⟩ ops).1.inited = true) :
    ∃ s', run (mk m) ops = some (s', (aRun ⟨[], m, false⟩ ops).2) ∧
      s'.size = (aRun ⟨[], m, false⟩ ops).1.rel.length ∧
      ∀ i, i < (aRun ⟨[], m, false⟩ ops).1.rel.length →
        (rowCells s' i).map (·.map (·.2)) = some ((aRun ⟨[], m, false⟩ ops).1.rel.getD i []) ∧
        (colCells s' i).map (·.map (·.2)) = some (aCol (aRun ⟨[], m, false⟩ ops).1.rel i) := by
  obtain ⟨s', h1, h2⟩ := run_refines_mk m ops hok
  have hinv : Inv s' (aRun ⟨[], m, false⟩ ops).1.rel := by
    have := h2.2; rw [hin] at this; simpa using this
  exact ⟨s', h1, size_refines hinv, fun i hi => ⟨rowCells_refines hinv hi, colCells_refines hinv hi⟩⟩

/-! ### concrete instances (non-vacuity) -/

namespace Ex

def ops : List Op := [.init [[0, 1], [1]], .split 1, .eraseRow 0 [1], .split 0, .eraseRow 3 [0, 2]]

example : okAll ⟨[], 5, false⟩ ops = true := by decide

example : (aRun ⟨[], 5, false⟩ ops).1.rel = [[0, 2, 3], [1, 2], [1, 2], [3]] := by decide

example : (aRun ⟨[], 5, false⟩ ops).2 = [[], [2], [], [3], []] := by decide

/-- `split_refines` / `eraseRow_refines` / `init_refines` apply along this history -/
example : ∃ s', run (mk 5) ops = some (s', [[], [2], [], [3], []]) ∧ Inv s' [[0, 2, 3], [1, 2], [1, 2], [3]] := by
  obtain ⟨s', h1, h2⟩ := run_refines_mk 5 ops (by decide)
  refine ⟨s', h1, ?_⟩
  have e : (aRun ⟨[], 5, false⟩ ops).1 = ⟨[[0, 2, 3], [1, 2], [1, 2], [3]], 5, true⟩ := by decide
  have := h2.2
  rw [e] at this
  simpa using this

example : aSplit [[0, 1], [1]] 1 = [[0, 1, 2], [1, 2], [1, 2]] := by decide

/-- non-vacuity of `split_refines`: a state inside the invariant with a reflexive index below the capacity -/
example : ∃ s s', init (mk 5) [[0, 1], [1]] = some s ∧ split s 1 = some s' ∧ Inv s' [[0, 1, 2], [1, 2], [1, 2]] := by
  obtain ⟨s, h1, h2⟩ := init_refines (m := 5) (index := [[0, 1], [1]]) (by decide)
  have hcap : s.rows.length = 5 := by rw [P.init_len h1]; simp [mk]
  obtain ⟨s', h3, h4⟩ := split_refines h2 (i := 1) (by decide) (by rw [hcap]; decide) (by decide)
  exact ⟨s, s', h1, h3, h4⟩

/-- non-vacuity of `eraseRow_refines` / `erase_refines` -/
example : ∃ s s', init (mk 5) [[0, 1], [1]] = some s ∧ eraseRow s 0 [1] = some s' ∧ Inv s' [[0], [1]] := by
  obtain ⟨s, h1, h2⟩ := init_refines (m := 5) (index := [[0, 1], [1]]) (by decide)
  obtain ⟨s', h3, h4⟩ := eraseRow_refines h2 (i := 0) (by decide) [1]
  exact ⟨s, s', h1, h3, h4⟩

/-- the model really computes: rows / columns read back after `init; split 1; eraseRow 0 [1]` (instances of
`rowCells_refines` / `colCells_refines`) -/
example : (run (mk 5) [.init [[0, 1], [1]], .split 1, .eraseRow 0 [1]]).bind
    (fun r => (rowCells r.1 0).map (·.map (·.2))) = some [0, 2] := by decide

example : (run (mk 5) [.init [[0, 1], [1]], .split 1, .eraseRow 0 [1]]).bind
    (fun r => (colCells r.1 2).map (·.map (·.2))) = some (aCol [[0, 2], [1, 2], [1, 2]] 2) := by decide

example : (aRun ⟨[], 5, false⟩ ops).1.inited = true := by decide

/-- outside the discipline the model may be undefined: `split` at full capacity -/
example : run (mk 2) [.init [[0, 1], [1]], .split 1] = none := by decide

/-- the bound `j < rel.length` in `colCells_refines` is needed: beyond `size()` the sentinel pair is still null -/
example : (init (mk 3) [[0]]).bind (fun s => colCells s 1) = none ∧ aCol [[0]] 1 = [] := by decide

end Ex

end Vata.LU.SR
