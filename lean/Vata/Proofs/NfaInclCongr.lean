import Vata.Proofs.NfaIncl
/-!
# The exploration of `nfaInclCongr` is right by itself (on operands with disjoint states)

The main theorems of `Vata/Proofs/NfaIncl.lean` trust only the final Boolean checks.  Here the work-list algorithm of the
congruence model is analysed, for operands `A`, `B` with disjoint sets of states (what `SanitizeAutsForInclusion`
produces) and `U = A ⊎ B`:

* `runCongr_error_ok`  : when the exploration ends with `return false` at the word `w`, then `A` accepts `w` and `B` does
                         not (so the final check never turns a `false` run into `none`);
* `runCongr_ok_cert`   : when it ends with `return true`, the final relation is a bisimulation up to congruence that
                         relates the start macro-states (`CongrCert`): the pruning by the congruence closure of
                         `next_ ∪ relation_` (Bonchi–Pous) is sound.
-/
namespace Vata
open Vata.W
namespace NfaIncl

/-! ### the congruence closure is monotone in the relation -/

/-- rules may be replaced by derived rules -/
theorem CongrCl.subst {R R' : List CRule} (h : ∀ p, p ∈ R → CongrCl R' p.1 p.2) {X Y : List Nat}
    (hc : CongrCl R X Y) : CongrCl R' X Y := by
  induction hc with
  | base hm => exact h _ hm
  | refl he => exact .refl he
  | symm _ ih => exact .symm ih
  | trans _ _ ih1 ih2 => exact .trans ih1 ih2
  | union _ _ ih1 ih2 => exact .union ih1 ih2

theorem CongrCl.mono {R R' : List CRule} (h : ∀ p, p ∈ R → p ∈ R') {X Y : List Nat} (hc : CongrCl R X Y) :
    CongrCl R' X Y :=
  hc.subst (fun p hp => .base (h p hp))

/-! ### the rewriting of `GetCongrClosure` stays inside the congruence class -/

/-- firing the rule `Yᵢ → Xᵢ ∪ Yᵢ` -/
theorem congrCl_fire_right {R : List CRule} {r : CRule} (hr : r ∈ R) {b T : List Nat} (hT : CongrCl R b T)
    (hm : Vata.subB r.2 T = true) : CongrCl R b (normS (T ++ r.1 ++ r.2)) :=
  .trans hT (congrCl_fire hr (Or.inr (subB_iff.mp hm)))

theorem sweep_sound {R : List CRule} {s b : List Nat} : ∀ (rs un : List CRule) (set : List Nat) (ap : Bool),
    (∀ r, r ∈ rs → r ∈ R) → (∀ r, r ∈ un → r ∈ R) → CongrCl R b set →
    (∀ un' set' ap', sweep s rs un set ap = some (un', set', ap') → (∀ r, r ∈ un' → r ∈ R) ∧ CongrCl R b set') ∧
    (sweep s rs un set ap = none → ∃ set', CongrCl R b set' ∧ ∀ x, x ∈ s → x ∈ set')
  | [], un, set, ap, _, hun, hset => by
    constructor
    · intro un' set' ap' h
      simp only [sweep, Option.some.injEq, Prod.mk.injEq] at h
      obtain ⟨rfl, rfl, _⟩ := h
      exact ⟨fun r hr => hun r (List.mem_reverse.mp hr), hset⟩
    · intro h; simp [sweep] at h
  | r :: rs, un, set, ap, hrs, hun, hset => by
    have hrs' : ∀ r', r' ∈ rs → r' ∈ R := fun r' h => hrs r' (List.mem_cons_of_mem _ h)
    have hr : r ∈ R := hrs r List.mem_cons_self
    unfold sweep
    split
    · next hm =>
      have hset' := congrCl_fire_right hr hset hm
      simp only
      split
      · next hsub =>
        constructor
        · intro _ _ _ h; cases h
        · intro _; exact ⟨_, hset', subB_iff.mp hsub⟩
      · exact sweep_sound rs un _ true hrs' hun hset'
    · exact sweep_sound rs (r :: un) set ap hrs'
        (fun r' h => by rcases List.mem_cons.mp h with rfl | h; exact hr; exact hun r' h) hset

theorem closeLoop_sound {R : List CRule} {s b : List Nat} : ∀ (n : Nat) (rules : List CRule) (set : List Nat),
    (∀ r, r ∈ rules → r ∈ R) → CongrCl R b set → closeLoop s n rules set = true →
      ∃ set', CongrCl R b set' ∧ ∀ x, x ∈ s → x ∈ set'
  | 0, _, set, _, hset, h => ⟨set, hset, subB_iff.mp (by simpa [closeLoop] using h)⟩
  | n+1, rules, set, hrules, hset, h => by
    obtain ⟨h1, h2⟩ := sweep_sound (s := s) rules [] set false hrules (fun _ h => by simp at h) hset
    unfold closeLoop at h
    split at h
    · next hsw => exact h2 hsw
    · next un set' ap hsw =>
      obtain ⟨hun, hset'⟩ := h1 un set' ap hsw
      split at h
      · exact closeLoop_sound n un set' hun hset' h
      · exact ⟨set', hset', subB_iff.mp h⟩

/-- a pair with `b ⊆ s` that passes the test of `MakePost` is in the congruence closure of the rules -/
theorem inClosure_sound {rules : List CRule} {s b : List Nat} (hbs : ∀ x, x ∈ b → x ∈ s)
    (h : inClosure rules s b = true) : CongrCl rules s b := by
  obtain ⟨set, hset, hs⟩ := closeLoop_sound (R := rules) (b := b) _ rules b (fun _ h => h) (.rfl' b) h
  -- `s = s ∪ b ~ s ∪ set = set ~ b`
  have h1 : CongrCl rules (s ++ b) (s ++ set) := .union (.rfl' s) hset
  have e1 : CongrCl rules s (s ++ b) := by
    refine .refl ?_
    intro x; simp only [List.mem_append]
    exact ⟨Or.inl, fun h => h.elim id (hbs x)⟩
  have e2 : CongrCl rules (s ++ set) set := by
    refine .refl ?_
    intro x; simp only [List.mem_append]
    exact ⟨fun h => h.elim (hs x) id, Or.inr⟩
  exact .trans e1 (.trans h1 (.trans e2 hset.symm))

/-! ### macro-states of `B` inside `U = A ⊎ B` -/

theorem foldl_stepW_states (N : NFA) : ∀ (w : List Nat) (S : List Nat), (∀ y, y ∈ S → y ∈ nfaStates N) →
    ∀ x, x ∈ w.foldl (stepW N) S → x ∈ nfaStates N
  | [], _, h => h
  | a :: w, S, _ => by
    simp only [List.foldl_cons]
    apply foldl_stepW_states N w
    intro y hy
    obtain ⟨p, _, he⟩ := mem_stepW.mp hy
    exact tgt_mem_nfaStates he

theorem run_states (N : NFA) (w : List Nat) : ∀ x, x ∈ run N w → x ∈ nfaStates N :=
  foldl_stepW_states N w N.start (fun _ h => start_mem_nfaStates h)

theorem stepW_union_right {A B : NFA} (hdis : ∀ q, q ∈ nfaStates A → q ∈ nfaStates B → False) {Y : List Nat}
    (hY : ∀ y, y ∈ Y → y ∈ nfaStates B) (a : Nat) :
    ∀ x, x ∈ stepW (nfaUnionDisjoint A B) Y a ↔ x ∈ stepW B Y a := by
  intro x
  simp only [mem_stepW]
  constructor
  · rintro ⟨p, hp, he⟩
    rcases List.mem_append.mp he with h | h
    · exact (hdis p (src_mem_nfaStates h) (hY p hp)).elim
    · exact ⟨p, hp, h⟩
  · rintro ⟨p, hp, he⟩
    exact ⟨p, hp, List.mem_append_right _ he⟩

theorem accepting_union_right {A B : NFA} (hdis : ∀ q, q ∈ nfaStates A → q ∈ nfaStates B → False) {Y : List Nat}
    (hY : ∀ y, y ∈ Y → y ∈ nfaStates B) : W.accepting (nfaUnionDisjoint A B) Y = W.accepting B Y := by
  rw [Bool.eq_iff_iff]
  simp only [W.accepting, List.any_eq_true, List.contains_iff_mem]
  constructor
  · rintro ⟨q, hq, hf⟩
    rcases List.mem_append.mp hf with h | h
    · exact (hdis q (final_mem_nfaStates h) (hY q hq)).elim
    · exact ⟨q, hq, h⟩
  · rintro ⟨q, hq, hf⟩
    exact ⟨q, hq, List.mem_append_right _ hf⟩

/-! ### `congrPost` -/

/-- the pair `MakePostForAut` builds for the symbol `a` -/
def csucc (U B : NFA) (it : CItem) (a : Nat) : CItem := ⟨macroStep U it.X a, macroStep B it.Y a, it.w ++ [a]⟩

/-- enqueue a pair that has not been visited -/
def pushSt (breadth : Bool) (st : CSt) (c : CItem) : CSt :=
  ⟨st.relation, addNext breadth st.next c, (c.X, c.Y) :: st.visited⟩

theorem congrPost_cons (U B : NFA) (breadth : Bool) (it : CItem) (a : Nat) (as : List Nat) (st : CSt) :
    congrPost U B breadth it (a :: as) st =
      if W.accepting U (csucc U B it a).X != W.accepting B (csucc U B it a).Y then .error (csucc U B it a).w
      else if (csucc U B it a).X.isEmpty && (csucc U B it a).Y.isEmpty then congrPost U B breadth it as st
      else if st.visited.contains ((csucc U B it a).X, (csucc U B it a).Y) then congrPost U B breadth it as st
      else congrPost U B breadth it as (pushSt breadth st (csucc U B it a)) := rfl

theorem mem_addNext {breadth : Bool} {next : List CItem} {c i : CItem} :
    i ∈ addNext breadth next c ↔ i = c ∨ i ∈ next := by
  unfold addNext
  split
  · simp only [List.mem_append, List.mem_singleton]; exact Or.comm
  · exact List.mem_cons

/-- a `return false` of `congrPost` comes from a successor pair with different acceptance -/
theorem congrPost_error {U B : NFA} {breadth : Bool} {it : CItem} : ∀ (as : List Nat) (st : CSt) (w : List Nat),
    congrPost U B breadth it as st = .error w →
      ∃ a, W.accepting U (csucc U B it a).X ≠ W.accepting B (csucc U B it a).Y ∧ w = (csucc U B it a).w
  | [], st, w, h => by simp [congrPost] at h
  | a :: as, st, w, h => by
    rw [congrPost_cons] at h
    split at h
    · next hne =>
      simp only [Except.error.injEq] at h
      exact ⟨a, by simpa using hne, h.symm⟩
    · split at h
      · exact congrPost_error as _ w h
      · split at h
        · exact congrPost_error as _ w h
        · exact congrPost_error as _ w h

/-! ### the words of the pairs -/

/-- the word of a pair reaches it: `X = run U w` and `Y = run B w` -/
def CWordOK (U B : NFA) (i : CItem) : Prop := (∀ x, x ∈ i.X ↔ x ∈ run U i.w) ∧ (∀ x, x ∈ i.Y ↔ x ∈ run B i.w)

theorem csucc_ok {U B : NFA} {it : CItem} (hi : CWordOK U B it) (a : Nat) : CWordOK U B (csucc U B it a) := by
  constructor
  · intro x
    show x ∈ normS (stepW U it.X a) ↔ x ∈ run U (it.w ++ [a])
    rw [mem_normS, W.run_snoc, W.stepW_congr U hi.1]
  · intro x
    show x ∈ normS (stepW B it.Y a) ↔ x ∈ run B (it.w ++ [a])
    rw [mem_normS, W.run_snoc, W.stepW_congr B hi.2]

/-- a pair with different acceptance whose word reaches it is a counterexample -/
theorem cbad_counterexample {A B : NFA} (hdis : ∀ q, q ∈ nfaStates A → q ∈ nfaStates B → False) {i : CItem}
    (hi : CWordOK (nfaUnionDisjoint A B) B i)
    (hb : W.accepting (nfaUnionDisjoint A B) i.X ≠ W.accepting B i.Y) :
    acceptsW A i.w = true ∧ acceptsW B i.w = false := by
  have h1 : W.accepting (nfaUnionDisjoint A B) i.X = acceptsW (nfaUnionDisjoint A B) i.w :=
    W.accepting_congr _ hi.1
  have h2 : W.accepting B i.Y = acceptsW B i.w := W.accepting_congr _ hi.2
  rw [h1, h2, nfaUnionDisjoint_lang A B i.w hdis] at hb
  cases hA : acceptsW A i.w <;> cases hB : acceptsW B i.w <;> simp [hA, hB] at hb ⊢

/-! ### the invariant of the exploration -/

/-- the rules at hand: extra rules `E` (the pair being processed) and the pairs of `next_` and `relation_` -/
def rulesE (E : List CRule) (st : CSt) : List CRule := E ++ rulesOf (st.next ++ st.relation)

theorem mem_rulesOf {l : List CItem} {p : CRule} : p ∈ rulesOf l ↔ ∃ i, i ∈ l ∧ p = (i.X, i.Y) := by
  simp only [rulesOf, List.mem_map]
  constructor
  · rintro ⟨i, hi, rfl⟩; exact ⟨i, hi, rfl⟩
  · rintro ⟨i, hi, rfl⟩; exact ⟨i, hi, rfl⟩

theorem mem_rulesE {E : List CRule} {st : CSt} {p : CRule} :
    p ∈ rulesE E st ↔ p ∈ E ∨ ∃ i, (i ∈ st.next ∨ i ∈ st.relation) ∧ p = (i.X, i.Y) := by
  simp only [rulesE, List.mem_append, mem_rulesOf]

/-- the invariant, relative to a set `T` of rules -/
structure CInv (A B : NFA) (T : List CRule) (st : CSt) : Prop where
  words : ∀ i, i ∈ st.next → CWordOK (nfaUnionDisjoint A B) B i
  init : CongrCl T (A.start ++ B.start) B.start
  acc : ∀ i, i ∈ st.next → W.accepting (nfaUnionDisjoint A B) i.X = W.accepting (nfaUnionDisjoint A B) i.Y
  bisim : ∀ i, i ∈ st.relation →
    W.accepting (nfaUnionDisjoint A B) i.X = W.accepting (nfaUnionDisjoint A B) i.Y ∧
    ∀ a, CongrCl T (stepW (nfaUnionDisjoint A B) i.X a) (stepW (nfaUnionDisjoint A B) i.Y a)
  visited : ∀ v, v ∈ st.visited → CongrCl T v.1 v.2

theorem CInv.transfer {A B : NFA} {T T' : List CRule} {st : CSt} (h : CInv A B T st)
    (hT : ∀ p, p ∈ T → CongrCl T' p.1 p.2) : CInv A B T' st :=
  ⟨h.words, h.init.subst hT, h.acc, fun i hi => ⟨(h.bisim i hi).1, fun a => ((h.bisim i hi).2 a).subst hT⟩,
    fun v hv => (h.visited v hv).subst hT⟩

/-- `Y ⊆ states of B` for a pair whose word reaches it -/
theorem CWordOK.y_states {U B : NFA} {i : CItem} (hi : CWordOK U B i) : ∀ y, y ∈ i.Y → y ∈ nfaStates B :=
  fun y hy => run_states B i.w y ((hi.2 y).mp hy)

/-- `Y ⊆ X` for a pair whose word reaches it -/
theorem CWordOK.y_sub_x {A B : NFA} {i : CItem} (hi : CWordOK (nfaUnionDisjoint A B) B i) :
    ∀ y, y ∈ i.Y → y ∈ i.X := by
  intro y hy
  rw [hi.1]
  obtain ⟨s, hs, hp⟩ := (mem_run_iff B i.w y).mp ((hi.2 y).mp hy)
  exact (mem_run_iff _ i.w y).mpr ⟨s, List.mem_append_right _ hs,
    hp.mono (fun e he => List.mem_append_right _ he)⟩

theorem pushSt_inv {A B : NFA} (hdis : ∀ q, q ∈ nfaStates A → q ∈ nfaStates B → False) {E : List CRule}
    {breadth : Bool} {st : CSt} {c : CItem} (h : CInv A B (rulesE E st) st)
    (hc : CWordOK (nfaUnionDisjoint A B) B c)
    (hacc : W.accepting (nfaUnionDisjoint A B) c.X = W.accepting B c.Y) :
    CInv A B (rulesE E (pushSt breadth st c)) (pushSt breadth st c) := by
  have hmono : ∀ p, p ∈ rulesE E st → p ∈ rulesE E (pushSt breadth st c) := by
    intro p hp
    rcases mem_rulesE.mp hp with hp | ⟨i, hi, rfl⟩
    · exact mem_rulesE.mpr (Or.inl hp)
    · refine mem_rulesE.mpr (Or.inr ⟨i, ?_, rfl⟩)
      rcases hi with hi | hi
      · exact Or.inl (mem_addNext.mpr (Or.inr hi))
      · exact Or.inr hi
  have h' := h.transfer (fun p hp => CongrCl.base (hmono p hp))
  refine ⟨?_, h'.init, ?_, h'.bisim, ?_⟩
  · intro i hi
    rcases mem_addNext.mp hi with rfl | hi
    · exact hc
    · exact h.words i hi
  · intro i hi
    rcases mem_addNext.mp hi with rfl | hi
    · rw [hacc, accepting_union_right hdis hc.y_states]
    · exact h.acc i hi
  · intro v hv
    rcases List.mem_cons.mp hv with rfl | hv
    · exact .base (mem_rulesE.mpr (Or.inr ⟨c, Or.inl (mem_addNext.mpr (Or.inl rfl)), rfl⟩))
    · exact h'.visited v hv

/-- what `congrPost` leaves: the invariant, and every explored successor pair is trivial or has been visited -/
theorem congrPost_inv {A B : NFA} (hdis : ∀ q, q ∈ nfaStates A → q ∈ nfaStates B → False) {E : List CRule}
    {breadth : Bool} {it : CItem} (hit : CWordOK (nfaUnionDisjoint A B) B it) :
    ∀ (as : List Nat) (st st' : CSt), CInv A B (rulesE E st) st →
      congrPost (nfaUnionDisjoint A B) B breadth it as st = .ok st' →
      CInv A B (rulesE E st') st' ∧ st'.relation = st.relation ∧
      (∀ v, v ∈ st.visited → v ∈ st'.visited) ∧
      (∀ a, a ∈ as →
        W.accepting (nfaUnionDisjoint A B) (csucc (nfaUnionDisjoint A B) B it a).X =
          W.accepting B (csucc (nfaUnionDisjoint A B) B it a).Y ∧
        (((csucc (nfaUnionDisjoint A B) B it a).X = [] ∧ (csucc (nfaUnionDisjoint A B) B it a).Y = []) ∨
         ((csucc (nfaUnionDisjoint A B) B it a).X, (csucc (nfaUnionDisjoint A B) B it a).Y) ∈ st'.visited))
  | [], st, st', hI, h => by
    simp only [congrPost, Except.ok.injEq] at h
    subst h
    exact ⟨hI, rfl, fun _ h => h, fun _ ha => by simp at ha⟩
  | a :: as, st, st', hI, h => by
    rw [congrPost_cons] at h
    split at h
    · cases h
    · next hacc =>
      have hacc' : W.accepting (nfaUnionDisjoint A B) (csucc (nfaUnionDisjoint A B) B it a).X =
          W.accepting B (csucc (nfaUnionDisjoint A B) B it a).Y := by simpa using hacc
      split at h
      · next hemp =>
        obtain ⟨h1, h2, h3, h4⟩ := congrPost_inv hdis hit as st st' hI h
        refine ⟨h1, h2, h3, ?_⟩
        intro a' ha'
        rcases List.mem_cons.mp ha' with rfl | ha'
        · simp only [Bool.and_eq_true, List.isEmpty_iff] at hemp
          exact ⟨hacc', Or.inl hemp⟩
        · exact h4 a' ha'
      · split at h
        · next hvis =>
          obtain ⟨h1, h2, h3, h4⟩ := congrPost_inv hdis hit as st st' hI h
          refine ⟨h1, h2, h3, ?_⟩
          intro a' ha'
          rcases List.mem_cons.mp ha' with rfl | ha'
          · exact ⟨hacc', Or.inr (h3 _ (List.contains_iff_mem.mp hvis))⟩
          · exact h4 a' ha'
        · obtain ⟨h1, h2, h3, h4⟩ := congrPost_inv hdis hit as _ st'
            (pushSt_inv hdis hI (csucc_ok hit a) hacc') h
          refine ⟨h1, h2, fun v hv => h3 v (List.mem_cons_of_mem _ hv), ?_⟩
          intro a' ha'
          rcases List.mem_cons.mp ha' with rfl | ha'
          · exact ⟨hacc', Or.inr (h3 _ List.mem_cons_self)⟩
          · exact h4 a' ha'

theorem mem_postSyms {U B : NFA} {X Y : List Nat} {a : Nat} :
    a ∈ postSyms U B X Y ↔ (∃ e, e ∈ U.trans ∧ e.1 ∈ X ∧ e.2.1 = a) ∨ (∃ e, e ∈ B.trans ∧ e.1 ∈ Y ∧ e.2.1 = a) := by
  simp only [postSyms, List.mem_eraseDups, List.mem_append, List.mem_map, List.mem_filter, List.contains_iff_mem,
    and_assoc]

theorem stepW_nil_of_not_postSym {U B : NFA} {X Y : List Nat} {a : Nat} (h : a ∉ postSyms U B X Y) :
    stepW U X a = [] ∧ stepW B Y a = [] := by
  rw [mem_postSyms, not_or] at h
  constructor
  · apply List.eq_nil_iff_forall_not_mem.mpr
    intro x hx
    obtain ⟨p, hp, he⟩ := mem_stepW.mp hx
    exact h.1 ⟨_, he, hp, rfl⟩
  · apply List.eq_nil_iff_forall_not_mem.mpr
    intro x hx
    obtain ⟨p, hp, he⟩ := mem_stepW.mp hx
    exact h.2 ⟨_, he, hp, rfl⟩

/-- the loop: a `return false` is justified, a `return true` leaves a bisimulation up to congruence -/
theorem loopCongr_inv {A B : NFA} (hdis : ∀ q, q ∈ nfaStates A → q ∈ nfaStates B → False) {breadth : Bool} :
    ∀ (n : Nat) (st : CSt), CInv A B (rulesE [] st) st →
    (∀ w, loopCongr (nfaUnionDisjoint A B) B breadth n st = some (.error w) →
      acceptsW A w = true ∧ acceptsW B w = false) ∧
    (∀ R, loopCongr (nfaUnionDisjoint A B) B breadth n st = some (.ok R) → CongrCert A B (rulesOf R))
  | 0, _, _ => by constructor <;> intro _ h <;> simp [loopCongr] at h
  | n+1, st, hI => by
    unfold loopCongr
    split
    · next hn =>
      constructor
      · intro w h; simp at h
      · intro R h
        simp only [Option.some.injEq, Except.ok.injEq] at h
        subst h
        have hT : ∀ p, p ∈ rulesE [] st → p ∈ rulesOf st.relation := by
          intro p hp
          rcases mem_rulesE.mp hp with hp | ⟨i, hi, rfl⟩
          · simp at hp
          · rcases hi with hi | hi
            · rw [hn] at hi; simp at hi
            · exact mem_rulesOf.mpr ⟨i, hi, rfl⟩
        refine ⟨hdis, hI.init.mono hT, ?_⟩
        intro p hp
        obtain ⟨i, hi, rfl⟩ := mem_rulesOf.mp hp
        exact ⟨(hI.bisim i hi).1, fun a => ((hI.bisim i hi).2 a).mono hT⟩
    · next it rest hn =>
      have hit : CWordOK (nfaUnionDisjoint A B) B it := hI.words it (by rw [hn]; exact List.mem_cons_self)
      have hitacc := hI.acc it (by rw [hn]; exact List.mem_cons_self)
      -- the state after the pop, with the picked pair as an extra rule
      have hI1 : CInv A B (rulesE [(it.X, it.Y)] ⟨st.relation, rest, st.visited⟩) ⟨st.relation, rest, st.visited⟩ := by
        have := hI.transfer (T' := rulesE [(it.X, it.Y)] ⟨st.relation, rest, st.visited⟩) (by
          intro p hp
          refine .base ?_
          rcases mem_rulesE.mp hp with hp | ⟨i, hi, rfl⟩
          · simp at hp
          · rcases hi with hi | hi
            · rw [hn] at hi
              rcases List.mem_cons.mp hi with rfl | hi
              · exact mem_rulesE.mpr (Or.inl (List.mem_singleton.mpr rfl))
              · exact mem_rulesE.mpr (Or.inr ⟨i, Or.inl hi, rfl⟩)
            · exact mem_rulesE.mpr (Or.inr ⟨i, Or.inr hi, rfl⟩))
        exact ⟨fun i hi => hI.words i (by rw [hn]; exact List.mem_cons_of_mem _ hi), this.init,
          fun i hi => hI.acc i (by rw [hn]; exact List.mem_cons_of_mem _ hi), this.bisim, this.visited⟩
      split
      · next hcl =>
        -- the pair is in the congruence closure of the other pairs: it is dropped
        apply loopCongr_inv hdis n
        have hc : CongrCl (rulesOf (rest.reverse ++ st.relation)) it.X it.Y := inClosure_sound hit.y_sub_x hcl
        apply hI1.transfer
        intro p hp
        have hsub : ∀ p, p ∈ rulesOf (rest.reverse ++ st.relation) →
            p ∈ rulesE [] ⟨st.relation, rest, st.visited⟩ := by
          intro p hp
          obtain ⟨i, hi, rfl⟩ := mem_rulesOf.mp hp
          refine mem_rulesE.mpr (Or.inr ⟨i, ?_, rfl⟩)
          rcases List.mem_append.mp hi with hi | hi
          · exact Or.inl (List.mem_reverse.mp hi)
          · exact Or.inr hi
        rcases mem_rulesE.mp hp with hp | ⟨i, hi, rfl⟩
        · rw [List.mem_singleton.mp hp]; exact hc.mono hsub
        · exact .base (mem_rulesE.mpr (Or.inr ⟨i, hi, rfl⟩))
      · split
        · next w hw =>
          constructor
          · intro w' h
            simp only [Option.some.injEq, Except.error.injEq] at h
            subst h
            obtain ⟨a, hne, rfl⟩ := congrPost_error _ _ _ hw
            exact cbad_counterexample hdis (csucc_ok hit a) hne
          · intro R h; simp at h
        · next st' h' =>
          obtain ⟨h1, h2, _, h4⟩ := congrPost_inv hdis hit _ _ st' hI1 h'
          apply loopCongr_inv hdis n
          -- the picked pair moves from the extra rules to the relation
          have hT : ∀ p, p ∈ rulesE [(it.X, it.Y)] st' →
              p ∈ rulesE [] ⟨st'.relation ++ [it], st'.next, st'.visited⟩ := by
            intro p hp
            rcases mem_rulesE.mp hp with hp | ⟨i, hi, rfl⟩
            · rw [List.mem_singleton.mp hp]
              exact mem_rulesE.mpr (Or.inr ⟨it, Or.inr (List.mem_append_right _ (List.mem_singleton.mpr rfl)), rfl⟩)
            · refine mem_rulesE.mpr (Or.inr ⟨i, ?_, rfl⟩)
              rcases hi with hi | hi
              · exact Or.inl hi
              · exact Or.inr (List.mem_append_left _ hi)
          have h1' := h1.transfer (fun p hp => CongrCl.base (hT p hp))
          refine ⟨h1.words, h1'.init, h1.acc, ?_, h1'.visited⟩
          intro i hi
          rcases List.mem_append.mp hi with hi | hi
          · exact h1'.bisim i hi
          · rw [List.mem_singleton.mp hi]
            refine ⟨hitacc, fun a => ?_⟩
            -- the successors in `U`, from the successors the code computes
            have hY : ∀ x, x ∈ stepW (nfaUnionDisjoint A B) it.Y a ↔ x ∈ stepW B it.Y a :=
              stepW_union_right hdis hit.y_states a
            have e2 : CongrCl (rulesE [] ⟨st'.relation ++ [it], st'.next, st'.visited⟩)
                (csucc (nfaUnionDisjoint A B) B it a).Y (stepW (nfaUnionDisjoint A B) it.Y a) :=
              .refl (fun x => by
                show x ∈ normS (stepW B it.Y a) ↔ _
                rw [mem_normS, hY])
            have e1 : CongrCl (rulesE [] ⟨st'.relation ++ [it], st'.next, st'.visited⟩)
                (stepW (nfaUnionDisjoint A B) it.X a) (csucc (nfaUnionDisjoint A B) B it a).X :=
              .refl (fun x => by
                show _ ↔ x ∈ normS (stepW (nfaUnionDisjoint A B) it.X a)
                rw [mem_normS])
            refine .trans e1 (.trans ?_ e2)
            by_cases ha : a ∈ postSyms (nfaUnionDisjoint A B) B it.X it.Y
            · rcases (h4 a ha).2 with ⟨hx, hy⟩ | hv
              · rw [hx, hy]; exact .rfl' []
              · exact h1'.visited _ hv
            · obtain ⟨hx, hy⟩ := stepW_nil_of_not_postSym ha
              have hx' : (csucc (nfaUnionDisjoint A B) B it a).X = [] := by
                show normS (stepW (nfaUnionDisjoint A B) it.X a) = []
                rw [hx]; rfl
              have hy' : (csucc (nfaUnionDisjoint A B) B it a).Y = [] := by
                show normS (stepW B it.Y a) = []
                rw [hy]; rfl
              rw [hx', hy']; exact .rfl' []

theorem runCongr_inv {A B : NFA} (hdis : ∀ q, q ∈ nfaStates A → q ∈ nfaStates B → False) {breadth : Bool}
    {fuel : Nat} :
    (∀ w, runCongr (nfaUnionDisjoint A B) B breadth fuel = some (.error w) →
      acceptsW A w = true ∧ acceptsW B w = false) ∧
    (∀ R, runCongr (nfaUnionDisjoint A B) B breadth fuel = some (.ok R) → CongrCert A B (rulesOf R)) := by
  have hw0 : CWordOK (nfaUnionDisjoint A B) B ⟨normS (nfaUnionDisjoint A B).start, normS B.start, []⟩ :=
    ⟨fun _ => mem_normS, fun _ => mem_normS⟩
  unfold runCongr
  simp only
  split
  · next hne =>
    constructor
    · intro w h
      simp only [Option.some.injEq, Except.error.injEq] at h
      subst h
      exact cbad_counterexample hdis hw0 (by simpa using hne)
    · intro R h; simp at h
  · next hacc =>
    have hacc' : W.accepting (nfaUnionDisjoint A B) (normS (nfaUnionDisjoint A B).start) =
        W.accepting B (normS B.start) := by simpa using hacc
    apply loopCongr_inv hdis fuel
    refine ⟨?_, ?_, ?_, fun _ h => by simp at h, ?_⟩
    · intro i hi; rw [List.mem_singleton.mp hi]; exact hw0
    · have hb : CongrCl (rulesE [] ⟨[], [⟨normS (nfaUnionDisjoint A B).start, normS B.start, []⟩],
          [(normS (nfaUnionDisjoint A B).start, normS B.start)]⟩)
          (normS (nfaUnionDisjoint A B).start) (normS B.start) :=
        .base (mem_rulesE.mpr (Or.inr ⟨_, Or.inl (List.mem_singleton.mpr rfl), rfl⟩))
      exact .trans (.refl (fun x => (mem_normS (l := A.start ++ B.start)).symm))
        (.trans hb (.refl (fun x => mem_normS)))
    · intro i hi
      rw [List.mem_singleton.mp hi]
      show W.accepting _ (normS (nfaUnionDisjoint A B).start) = W.accepting _ (normS B.start)
      rw [hacc', accepting_union_right hdis hw0.y_states]
    · intro v hv
      rw [List.mem_singleton.mp hv]
      exact .base (mem_rulesE.mpr (Or.inr ⟨_, Or.inl (List.mem_singleton.mpr rfl), rfl⟩))

/-- a `return false` of the exploration is justified -/
theorem runCongr_error_ok {A B : NFA} (hdis : ∀ q, q ∈ nfaStates A → q ∈ nfaStates B → False) {breadth : Bool}
    {fuel : Nat} {w : List Nat} (h : runCongr (nfaUnionDisjoint A B) B breadth fuel = some (.error w)) :
    acceptsW A w = true ∧ acceptsW B w = false :=
  (runCongr_inv hdis).1 w h

/-- the relation of a finished `true` run is a bisimulation up to congruence that relates the start macro-states -/
theorem runCongr_ok_cert {A B : NFA} (hdis : ∀ q, q ∈ nfaStates A → q ∈ nfaStates B → False) {breadth : Bool}
    {fuel : Nat} {R : List CItem} (h : runCongr (nfaUnionDisjoint A B) B breadth fuel = some (.ok R)) :
    CongrCert A B (rulesOf R) :=
  (runCongr_inv hdis).2 R h

end NfaIncl
end Vata
