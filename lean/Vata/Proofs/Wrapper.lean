import Vata.Wrapper
import Vata.Proofs.LoadDump
/-!
# The wrapper `ExplicitTreeAut`: the loader with the explicit counter, and the invariant of reachable worlds

* `loadFromW_sim`   the loader with the counter `nextSymbol_` kept as a field (`Wrapper.loadFromW`) computes what the
                    loader of `Vata/LoadDump.lean` (counter = size of the dictionary) computes, and leaves the counter at the
                    size of the dictionary, whenever it starts with the counter at the size
* `World.Ok`, `reach_ok`   in every reachable world: the global alphabet exists and is an `OnTheFlyAlphabet`; every
                    automaton points to an existing alphabet object; every `OnTheFlyAlphabet` has distinct keys, values
                    `0 … n-1` and `nextSymbol_ = n` (so every symbol NUMBER has exactly one `(name, rank)`)
-/
namespace Vata.Wrapper
open Vata Vata.LoadDump Vata.Dict

/-! ## the counter -/

def LStW.toL (s : LStW) : LSt := ⟨s.sd, s.cnt, s.yd⟩

/-- `nextSymbol_ == symbolDict_.size ()` -/
def LStW.Sync (s : LStW) : Prop := s.next = s.yd.length

theorem weak_counter {κ : Type} [DecidableEq κ] (D : Dict κ) (k : κ) :
    (D.weak D.length k).2.2 = (D.weak D.length k).2.1.length := by
  unfold Dict.weak
  cases D.fwd? k <;> simp [Dict.insert]

theorem trStateW_sim (s : LStW) (h : s.Sync) (q : String) :
    (trStateW s q).1 = (trState s.toL q).1 ∧ (trStateW s q).2.toL = (trState s.toL q).2 ∧ (trStateW s q).2.Sync :=
  ⟨rfl, rfl, h⟩

theorem trSymW_sim (s : LStW) (h : s.Sync) (k : String × Nat) :
    (trSymW s k).1 = (trSym s.toL k).1 ∧ (trSymW s k).2.toL = (trSym s.toL k).2 ∧ (trSymW s k).2.Sync := by
  unfold LStW.Sync at h
  refine ⟨?_, ?_, ?_⟩
  · simp only [trSymW, trSym, LStW.toL, h]
  · simp only [trSymW, trSym, LStW.toL, h]
  · simp only [trSymW, LStW.Sync, h]; exact weak_counter s.yd k

theorem trStatesW_sim (s : LStW) (h : s.Sync) (qs : List String) :
    (trStatesW s qs).1 = (trStates s.toL qs).1 ∧ (trStatesW s qs).2.toL = (trStates s.toL qs).2 ∧
      (trStatesW s qs).2.Sync := by
  induction qs generalizing s with
  | nil => exact ⟨rfl, rfl, h⟩
  | cons q qs ih =>
    obtain ⟨a1, a2, a3⟩ := trStateW_sim s h q
    obtain ⟨b1, b2, b3⟩ := ih (trStateW s q).2 a3
    simp only [trStatesW, trStates]
    rw [a2] at b1 b2
    exact ⟨by rw [a1, b1], b2, b3⟩

theorem regSymsW_sim (s : LStW) (h : s.Sync) (ps : List (String × Int)) :
    (regSymsW s ps).toL = regSyms s.toL ps ∧ (regSymsW s ps).Sync := by
  induction ps generalizing s with
  | nil => exact ⟨rfl, h⟩
  | cons p ps ih =>
    obtain ⟨_, a2, a3⟩ := trSymW_sim s h (p.1, rankKey p.2)
    obtain ⟨b1, b2⟩ := ih _ a3
    simp only [regSymsW, regSyms]
    rw [a2] at b1
    exact ⟨b1, b2⟩

theorem trRuleW_sim (s : LStW) (h : s.Sync) (t : List String × String × String) :
    (trRuleW s t).1 = (trRule s.toL t).1 ∧ (trRuleW s t).2.toL = (trRule s.toL t).2 ∧ (trRuleW s t).2.Sync := by
  obtain ⟨a1, a2, a3⟩ := trStatesW_sim s h t.1
  obtain ⟨b1, b2, b3⟩ := trSymW_sim _ a3 (t.2.1, t.1.length)
  obtain ⟨c1, c2, c3⟩ := trStateW_sim _ b3 t.2.2
  rw [a2] at b1 b2
  rw [b2] at c1 c2
  simp only [trRuleW, trRule]
  exact ⟨by rw [a1, b1, c1], c2, c3⟩

theorem trRulesW_sim (s : LStW) (h : s.Sync) (ts : List (List String × String × String)) :
    (trRulesW s ts).1 = (trRules s.toL ts).1 ∧ (trRulesW s ts).2.toL = (trRules s.toL ts).2 ∧ (trRulesW s ts).2.Sync := by
  induction ts generalizing s with
  | nil => exact ⟨rfl, rfl, h⟩
  | cons t ts ih =>
    obtain ⟨a1, a2, a3⟩ := trRuleW_sim s h t
    obtain ⟨b1, b2, b3⟩ := ih (trRuleW s t).2 a3
    simp only [trRulesW, trRules]
    rw [a2] at b1 b2
    exact ⟨by rw [a1, b1], b2, b3⟩

/-- the loader with the explicit counter agrees with the loader of `Vata/LoadDump.lean`, and keeps the counter at the
size of the dictionary -/
theorem loadFromW_sim (s : LStW) (h : s.Sync) (d : AutDesc) :
    (loadFromW s d).1 = (loadFrom s.toL d).1 ∧ (loadFromW s d).2.toL = (loadFrom s.toL d).2 ∧ (loadFromW s d).2.Sync := by
  obtain ⟨a1, a2⟩ := regSymsW_sim s h d.symbols
  obtain ⟨b1, b2, b3⟩ := trStatesW_sim _ a2 d.final
  obtain ⟨c1, c2, c3⟩ := trRulesW_sim _ b3 d.trans
  rw [a1] at b1 b2
  rw [b2] at c1 c2
  simp only [loadFromW, loadFrom]
  exact ⟨by rw [b1, c1], c2, c3⟩

/-! ## the invariant of the worlds -/

/-- an `OnTheFlyAlphabet` in a state that the library can produce: distinct keys, the `i`-th registered symbol has the
number `i`, `nextSymbol_` is the number of registered symbols -/
def Alphabet.Ok : Alphabet → Prop
  | .otf d n => d.Ok ∧ n = d.length
  | .direct => True

structure World.Ok (w : World) : Prop where
  global : ∃ d n, w.alphas[0]? = some (.otf d n)
  alpha : ∀ A, A ∈ w.auts → A.alpha < w.alphas.length
  alphas : ∀ al, al ∈ w.alphas → al.Ok

theorem aut?_ok {w : World} {i : Nat} {A : WAut} (h : w.aut? i = .ok A) : w.auts[i]? = some A := by
  unfold World.aut? at h
  split at h
  · rename_i B e; cases h; exact e
  · cases h

theorem aut?_mem {w : World} {i : Nat} {A : WAut} (h : w.aut? i = .ok A) : A ∈ w.auts :=
  List.mem_of_getElem? (aut?_ok h)

theorem alpha?_ok {w : World} {a : Nat} {al : Alphabet} (h : w.alpha? a = .ok al) : w.alphas[a]? = some al := by
  unfold World.alpha? at h
  split at h
  · rename_i B e; cases h; exact e
  · cases h

theorem alpha?_mem {w : World} {a : Nat} {al : Alphabet} (h : w.alpha? a = .ok al) : al ∈ w.alphas :=
  List.mem_of_getElem? (alpha?_ok h)

theorem alpha?_lt {w : World} {a : Nat} {al : Alphabet} (h : w.alpha? a = .ok al) : a < w.alphas.length := by
  have := alpha?_ok h
  exact (List.getElem?_eq_some_iff.mp this).1

theorem World.Ok.zero_lt {w : World} (h : w.Ok) : 0 < w.alphas.length := by
  obtain ⟨d, n, e⟩ := h.global
  exact (List.getElem?_eq_some_iff.mp e).1

theorem worldInit_ok : World.init.Ok := by
  refine ⟨⟨[], 0, rfl⟩, ?_, ?_⟩
  · intro A h; cases h
  · intro al h
    simp only [World.init, List.mem_singleton] at h
    subst h; exact ⟨ok_nil, rfl⟩

theorem push_ok {w : World} (h : w.Ok) (A : WAut) (hA : A.alpha < w.alphas.length) : (w.push A).Ok :=
  ⟨h.global, by
    intro B hB
    simp only [World.push, List.mem_append, List.mem_singleton] at hB
    rcases hB with hB | hB
    · exact h.alpha B hB
    · subst hB; exact hA, h.alphas⟩

theorem setAut_ok {w : World} (h : w.Ok) (i : Nat) (A : WAut) (hA : A.alpha < w.alphas.length) :
    ({ w with auts := w.auts.set i A } : World).Ok :=
  ⟨h.global, by
    intro B hB
    rcases List.mem_or_eq_of_mem_set hB with hB | hB
    · exact h.alpha B hB
    · subst hB; exact hA, h.alphas⟩

theorem addAlpha_ok {w : World} (h : w.Ok) (al : Alphabet) (hal : al.Ok) :
    ({ w with alphas := w.alphas ++ [al] } : World).Ok :=
  ⟨by
    obtain ⟨d, n, e⟩ := h.global
    exact ⟨d, n, by
      show (w.alphas ++ [al])[0]? = _
      rw [List.getElem?_append_left h.zero_lt]; exact e⟩, by
    intro B hB
    have := h.alpha B hB
    show B.alpha < (w.alphas ++ [al]).length
    rw [List.length_append]; omega, by
    intro b hb
    show b.Ok
    have hb' : b ∈ w.alphas ++ [al] := hb
    rcases List.mem_append.mp hb' with hb | hb
    · exact h.alphas b hb
    · rw [List.mem_singleton] at hb; subst hb; exact hal⟩

theorem unreachAlpha_lt {w : World} (h : w.Ok) (A : TA) {a : Nat} (ha : a < w.alphas.length) :
    unreachAlpha A a < w.alphas.length := by
  unfold unreachAlpha
  split
  · exact ha
  · exact h.zero_lt

theorem K1.alpha_lt {w : World} (h : w.Ok) (k : K1) {a : Nat} (ha : a < w.alphas.length) :
    k.alpha a < w.alphas.length := by
  cases k
  · exact ha
  · exact h.zero_lt
  · exact h.zero_lt

/-! ## the symbol dictionary during a load (for ANY state dictionary, pre-filled or not) -/

/-- the alphabet part of the translator state: `Ok`, counter at the size, extends `y0` -/
structure YOk (y0 : SymDict) (s : LStW) : Prop where
  ok : s.yd.Ok
  sync : s.next = s.yd.length
  sub : Sub y0 s.yd

theorem YOk.mono {y0 : SymDict} {s s' : LStW} (h : YOk y0 s) (h' : YOk s.yd s') : YOk y0 s' :=
  ⟨h'.ok, h'.sync, h.sub.trans h'.sub⟩

theorem trStateW_y (s : LStW) (h : s.yd.Ok) (hn : s.next = s.yd.length) (q : String) : YOk s.yd (trStateW s q).2 :=
  ⟨h, hn, Sub.refl _⟩

theorem trSymW_y (s : LStW) (h : s.yd.Ok) (hn : s.next = s.yd.length) (k : String × Nat) :
    YOk s.yd (trSymW s k).2 ∧ (trSymW s k).2.yd.fwd? k = some (trSymW s k).1 := by
  obtain ⟨h1, h2, h3, h4, _⟩ := weak_spec s.yd h k
  simp only [trSymW, hn]
  exact ⟨⟨h1, h2, h3⟩, h4⟩

theorem trStatesW_y (s : LStW) (h : s.yd.Ok) (hn : s.next = s.yd.length) (qs : List String) :
    YOk s.yd (trStatesW s qs).2 ∧ (trStatesW s qs).1.length = qs.length := by
  induction qs generalizing s with
  | nil => exact ⟨⟨h, hn, Sub.refl _⟩, rfl⟩
  | cons q qs ih =>
    have a := trStateW_y s h hn q
    obtain ⟨b, bl⟩ := ih (trStateW s q).2 a.ok a.sync
    simp only [trStatesW, List.length_cons, bl]
    exact ⟨a.mono b, trivial⟩

theorem regSymsW_y (s : LStW) (h : s.yd.Ok) (hn : s.next = s.yd.length) (ps : List (String × Int)) :
    YOk s.yd (regSymsW s ps) := by
  induction ps generalizing s with
  | nil => exact ⟨h, hn, Sub.refl _⟩
  | cons p ps ih =>
    obtain ⟨a, _⟩ := trSymW_y s h hn (p.1, rankKey p.2)
    exact a.mono (ih _ a.ok a.sync)

/-- the rule's symbol number is the number of `(name, number of children)` in the dictionary `yd` -/
def RuleIn (yd : SymDict) (r : Rule) : Prop := ∃ name, yd.fwd? (name, r.kids.length) = some r.sym

theorem RuleIn.mono {yd yd' : SymDict} {r : Rule} (h : RuleIn yd r) (hs : Sub yd yd') : RuleIn yd' r := by
  obtain ⟨n, e⟩ := h; exact ⟨n, hs _ _ e⟩

theorem trRuleW_y (s : LStW) (h : s.yd.Ok) (hn : s.next = s.yd.length) (t : List String × String × String) :
    YOk s.yd (trRuleW s t).2 ∧ RuleIn (trRuleW s t).2.yd (trRuleW s t).1 := by
  obtain ⟨a, al⟩ := trStatesW_y s h hn t.1
  obtain ⟨b, bf⟩ := trSymW_y _ a.ok a.sync (t.2.1, t.1.length)
  have c := trStateW_y _ b.ok b.sync t.2.2
  refine ⟨(a.mono b).mono c, t.2.1, ?_⟩
  simp only [trRuleW, al]
  exact bf

theorem trRulesW_y (s : LStW) (h : s.yd.Ok) (hn : s.next = s.yd.length) (ts : List (List String × String × String)) :
    YOk s.yd (trRulesW s ts).2 ∧ ∀ r, r ∈ (trRulesW s ts).1 → RuleIn (trRulesW s ts).2.yd r := by
  induction ts generalizing s with
  | nil => exact ⟨⟨h, hn, Sub.refl _⟩, fun r hr => by cases hr⟩
  | cons t ts ih =>
    obtain ⟨a, ar⟩ := trRuleW_y s h hn t
    obtain ⟨b, br⟩ := ih (trRuleW s t).2 a.ok a.sync
    refine ⟨a.mono b, ?_⟩
    intro r hr
    simp only [trRulesW, List.mem_cons] at hr
    rcases hr with e | hr
    · rw [e]; exact ar.mono b.sub
    · exact br r hr

/-- a load on an `Ok` alphabet, with any state dictionary: the alphabet stays `Ok` with its counter at the size, keeps its
translations, and every loaded rule carries the number of (its symbol name, its number of children) -/
theorem loadFromW_y (sd : StateDict) (c : Nat) (yd : SymDict) (n : Nat) (h : yd.Ok) (hn : n = yd.length) (d : AutDesc) :
    YOk yd (loadFromW ⟨sd, c, yd, n⟩ d).2 ∧
      ∀ r, r ∈ (loadFromW ⟨sd, c, yd, n⟩ d).1.rules → RuleIn (loadFromW ⟨sd, c, yd, n⟩ d).2.yd r := by
  have a := regSymsW_y ⟨sd, c, yd, n⟩ h hn d.symbols
  obtain ⟨b, _⟩ := trStatesW_y _ a.ok a.sync d.final
  obtain ⟨e, er⟩ := trRulesW_y _ (a.mono b).ok (a.mono b).sync d.trans
  exact ⟨(a.mono b).mono e, er⟩

end Vata.Wrapper
