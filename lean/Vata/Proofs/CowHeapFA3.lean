import Vata.Proofs.CowHeapFA2
/-!
# The work-list loops of `RemoveUnreachableStates` / `GetCandidateTree` on finite automata terminate within their fuel
(proofs for `Vata/CowHeapFA.lean`, third part)

`reachLoop_stable`: more fuel than `stack length + number of transition targets not yet reached` does not change the result
of `reachLoop`; `reachStates_fuel`: the fuel used by `reachStates` is of that kind, i.e. `reachStates` returns
`reachableStates` of a run of the C++ loop to its end (`newStates.empty()`).  Likewise `candLoop_stable`, `candSearch_fuel`.
-/
namespace Vata.CowHeapFA

open Vata.CowHeap (Val)

/-- the members of `U` that are not in `reach` -/
def unreached (U reach : List Nat) : Nat := (U.filter (fun q => !reach.contains q)).length

theorem unreached_le (U reach : List Nat) : unreached U reach ≤ U.length := List.length_filter_le _ _

theorem contains_snoc_ne {reach : List Nat} {q u : Nat} (h : u ≠ q) :
    (reach ++ [q]).contains u = reach.contains u := by
  rw [Bool.eq_iff_iff]
  simp only [List.contains_iff_mem, List.mem_append, List.mem_singleton]
  constructor
  · rintro (h' | h')
    · exact h'
    · exact absurd h' h
  · exact Or.inl

theorem unreached_snoc_le (U reach : List Nat) (q : Nat) : unreached U (reach ++ [q]) ≤ unreached U reach := by
  induction U with
  | nil => exact Nat.le_refl _
  | cons u U ih =>
    unfold unreached at ih ⊢
    simp only [List.filter_cons]
    by_cases e : u = q
    · subst e
      have h1 : (reach ++ [u]).contains u = true := by simp
      rw [h1]
      simp only [Bool.not_true, Bool.false_eq_true, if_false]
      split
      · simp only [List.length_cons]; omega
      · exact ih
    · rw [contains_snoc_ne e]
      split
      · simp only [List.length_cons]; omega
      · exact ih

theorem unreached_snoc_lt {U reach : List Nat} {q : Nat} (hq : q ∈ U) (hr : reach.contains q = false) :
    unreached U (reach ++ [q]) + 1 ≤ unreached U reach := by
  induction U with
  | nil => simp at hq
  | cons u U ih =>
    have hle := unreached_snoc_le U reach q
    unfold unreached at ih hle ⊢
    simp only [List.filter_cons]
    by_cases e : u = q
    · subst e
      have h1 : (reach ++ [u]).contains u = true := by simp
      rw [h1, hr]
      simp only [Bool.not_true, Bool.false_eq_true, if_false, Bool.not_false, if_true, List.length_cons]
      omega
    · have hq' : q ∈ U := by
        rcases List.mem_cons.mp hq with h | h
        · exact absurd h.symm e
        · exact h
      rw [contains_snoc_ne e]
      have := ih hq'
      split
      · simp only [List.length_cons]; omega
      · exact this

/-- the inner loops (`for (symbolsToStateSet : *cluster) for (state : …) if (reachableStates.insert(state).second)
    newStates.push_back(state);`) do not increase `stack length + unreached` -/
theorem inner_measure (U : List Nat) (ts : List Nat) (hts : ∀ q, q ∈ ts → q ∈ U) (reach stack : List Nat) :
    (ts.foldl (fun (rs : List Nat × List Nat) q => if rs.1.contains q then rs else (rs.1 ++ [q], q :: rs.2))
        (reach, stack)).2.length +
      unreached U (ts.foldl (fun (rs : List Nat × List Nat) q =>
        if rs.1.contains q then rs else (rs.1 ++ [q], q :: rs.2)) (reach, stack)).1 ≤
    stack.length + unreached U reach := by
  induction ts generalizing reach stack with
  | nil => exact Nat.le_refl _
  | cons q ts ih =>
    rw [List.foldl_cons]
    have hts' : ∀ q, q ∈ ts → q ∈ U := fun x hx => hts x (List.mem_cons_of_mem _ hx)
    cases hc : reach.contains q with
    | true =>
      simp only [if_true]
      exact ih hts' reach stack
    | false =>
      simp only [Bool.false_eq_true, if_false]
      have h1 := ih hts' (reach ++ [q]) (q :: stack)
      have h2 := unreached_snoc_lt (hts q List.mem_cons_self) hc
      simp only [List.length_cons] at h1
      omega

/-- fuel above `stack length + unreached targets` is never used: the loop has stopped with `newStates.empty()` -/
theorem reachLoop_stable (t : Val) (U : List Nat)
    (hU : ∀ act c, t.lookup act = some c → ∀ q, q ∈ targets c → q ∈ U) :
    ∀ (n : Nat) (reach stack : List Nat), stack.length + unreached U reach ≤ n →
      ∀ k, reachLoop t (n + k) reach stack = reachLoop t n reach stack := by
  intro n
  induction n with
  | zero =>
    intro reach stack h k
    have hs : stack = [] := List.eq_nil_of_length_eq_zero (by omega)
    subst hs
    cases k with
    | zero => rfl
    | succ k => rw [Nat.zero_add]; simp only [reachLoop]
  | succ n ih =>
    intro reach stack h k
    rw [Nat.add_right_comm]
    cases stack with
    | nil => simp only [reachLoop]
    | cons act st =>
      simp only [reachLoop]
      simp only [List.length_cons] at h
      cases hl : t.lookup act with
      | none =>
        simp only
        exact ih reach st (by omega) k
      | some c =>
        simp only
        have hm := inner_measure U (targets c) (hU act c hl) reach st
        exact ih _ _ (by omega) k

theorem targets_in_trans (t : Val) (act : Nat) (c : Store.Cluster) (hl : t.lookup act = some c) (q : Nat)
    (hq : q ∈ targets c) : q ∈ (transOf t).map (fun e => e.2.2) := by
  have hm := Vata.Store.mem_of_lookup hl
  simp only [targets, List.mem_flatMap, List.mem_map] at hq
  obtain ⟨st, hst, r, hr, e⟩ := hq
  simp only [transOf, List.mem_map, List.mem_flatMap]
  exact ⟨(act, st.1, r.headD 0), ⟨(act, c), hm, st, hst, r, hr, rfl⟩, e⟩

/-- `reachStates` runs the work-list loop of `RemoveUnreachableStates` to its end: any larger fuel gives the same set -/
theorem reachStates_fuel (v : FAVal) (k : Nat) :
    reachLoop v.trans ((v.mem.start.foldl Vata.insN []).length + (transOf v.trans).length + 1 + k)
        (v.mem.start.foldl Vata.insN []) (v.mem.start.foldl Vata.insN []).reverse =
      reachStates v := by
  unfold reachStates
  simp only
  apply reachLoop_stable v.trans ((transOf v.trans).map (fun e => e.2.2)) (targets_in_trans v.trans)
  have := unreached_le ((transOf v.trans).map (fun e => e.2.2)) (v.mem.start.foldl Vata.insN [])
  simp only [List.length_map, List.length_reverse] at this ⊢
  omega

/-! ### the loop of `GetCandidateTree` -/

theorem candInner_measure (v : FAVal) (U : List Nat) (act : Nat) (ts : List Nat) (hts : ∀ q, q ∈ ts → q ∈ U)
    (s : CandSt) :
    (candInner v act ts s).queue.length + unreached U (candInner v act ts s).reach ≤
      s.queue.length + unreached U s.reach := by
  induction ts generalizing s with
  | nil => exact Nat.le_refl _
  | cons q ts ih =>
    have hts' : ∀ q, q ∈ ts → q ∈ U := fun x hx => hts x (List.mem_cons_of_mem _ hx)
    have h1 : (if s.reach.contains q then s else
          { s with reach := s.reach ++ [q], queue := s.queue ++ [q] }).queue.length +
        unreached U (if s.reach.contains q then s else
          { s with reach := s.reach ++ [q], queue := s.queue ++ [q] }).reach ≤
        s.queue.length + unreached U s.reach := by
      cases hc : s.reach.contains q with
      | true => simp only [if_true]; exact Nat.le_refl _
      | false =>
        simp only [Bool.false_eq_true, if_false]
        have h2 := unreached_snoc_lt (hts q List.mem_cons_self) hc
        simp only [List.length_append, List.length_cons, List.length_nil]
        omega
    simp only [candInner]
    split
    · exact h1
    · exact Nat.le_trans (ih hts' _) h1

/-- fuel above `queue length + unreached targets` is never used by the loop of `GetCandidateTree` -/
theorem candLoop_stable (v : FAVal) (U : List Nat)
    (hU : ∀ act c, v.trans.lookup act = some c → ∀ q, q ∈ targets c → q ∈ U) :
    ∀ (n : Nat) (s : CandSt), s.queue.length + unreached U s.reach ≤ n →
      ∀ k, candLoop v (n + k) s = candLoop v n s := by
  intro n
  induction n with
  | zero =>
    intro s h k
    have hq : s.queue = [] := List.eq_nil_of_length_eq_zero (by omega)
    cases k with
    | zero => rfl
    | succ k =>
      rw [Nat.zero_add]
      simp only [candLoop, hq]
      split <;> rfl
  | succ n ih =>
    intro s h k
    rw [Nat.add_right_comm]
    simp only [candLoop]
    split
    · rfl
    · split
      · rfl
      · rename_i act q hq
        rw [hq] at h
        simp only [List.length_cons] at h
        split
        · exact ih _ (by simp only; omega) k
        · rename_i c hl
          have hm := candInner_measure v U act (targets c) (hU act c hl) { s with queue := q }
          simp only at hm
          exact ih _ (by omega) k

theorem candStart_queue (v : FAVal) (l : List Nat) (s : CandSt) :
    (candStart v l s).queue.length ≤ s.queue.length + l.length := by
  induction l generalizing s with
  | nil => exact Nat.le_refl _
  | cons q l ih =>
    have h1 : (if s.reach.contains q then s else
        { s with reach := s.reach ++ [q], queue := s.queue ++ [q] }).queue.length ≤ s.queue.length + 1 := by
      cases hc : s.reach.contains q with
      | true => simp only [if_true]; omega
      | false => simp only [Bool.false_eq_true, if_false, List.length_append, List.length_cons, List.length_nil]; omega
    simp only [candStart]
    split
    · simp only [List.length_cons]
      exact Nat.le_trans h1 (by omega)
    · have := ih { (if s.reach.contains q then s else
          { s with reach := s.reach ++ [q], queue := s.queue ++ [q] }) with
        mem := { (if s.reach.contains q then s else
            { s with reach := s.reach ++ [q], queue := s.queue ++ [q] }).mem with
          start := Vata.insN (if s.reach.contains q then s else
            { s with reach := s.reach ++ [q], queue := s.queue ++ [q] }).mem.start q,
          ssym := smInsert (if s.reach.contains q then s else
            { s with reach := s.reach ++ [q], queue := s.queue ++ [q] }).mem.ssym q (smGet v.mem.ssym q) } }
      simp only [List.length_cons] at this ⊢
      omega

/-- `candSearch` runs the loop of `GetCandidateTree` to its end (a `return`, or `newStates.empty()`): any larger fuel gives
    the same result -/
theorem candSearch_fuel (v : FAVal) (k : Nat) :
    candLoop v (v.mem.start.length + (transOf v.trans).length + 1 + k)
        (candStart v v.mem.start ⟨[], [], ⟨[], [], []⟩, [], false⟩) = candSearch v := by
  unfold candSearch
  simp only
  apply candLoop_stable v ((transOf v.trans).map (fun e => e.2.2)) (targets_in_trans v.trans)
  have h1 := candStart_queue v v.mem.start ⟨[], [], ⟨[], [], []⟩, [], false⟩
  have h2 := unreached_le ((transOf v.trans).map (fun e => e.2.2))
    (candStart v v.mem.start ⟨[], [], ⟨[], [], []⟩, [], false⟩).reach
  simp only [List.length_map, List.length_nil, Nat.zero_add] at h1 h2 ⊢
  omega

end Vata.CowHeapFA
