import Vata.Proofs.StoreInternedCache
import Vata.Proofs.Store
/-!
# The interned store refines the value store (`Vata/StoreInterned.lean`) – store level

`Inv s` = `CInv s.cache (refs s)`: the cache is consistent with the pointers in the tuple sets plus those of the
environment.  Every step of `Mode.lib` keeps it and commutes with dereferencing (`stepI_lib`).
-/
namespace Vata.StoreI
open Vata.Store (upsert insN insTuple addToCluster addToMap)
open Vata.CM

def Inv (s : Sys) : Prop := CInv s.cache (refs s)

theorem inv_empty : Inv empty := cinv_nil

/-! ### generic facts about `upsert` -/

theorem map_upsert {β γ : Type} (h : β → γ) (k : Nat) (g : Option β → β) (g' : Option γ → γ) (l : List (Nat × β))
    (h0 : h (g none) = g' none) (h1 : ∀ v, (k, v) ∈ l → h (g (some v)) = g' (some (h v))) :
    (upsert k g l).map (fun kv => (kv.1, h kv.2)) = upsert k g' (l.map (fun kv => (kv.1, h kv.2))) := by
  induction l with
  | nil => simp [upsert, h0]
  | cons kv l ih =>
    obtain ⟨k0, v0⟩ := kv
    simp only [upsert, List.map_cons]
    by_cases e : k0 = k
    · subst e
      simp only [if_true, List.map_cons]
      rw [h1 v0 (List.mem_cons_self ..)]
    · simp only [e, if_false, List.map_cons]
      rw [ih (fun v hv => h1 v (List.mem_cons_of_mem _ hv))]

theorem lookup_map_snd {β γ : Type} (h : β → γ) (k : Nat) (l : List (Nat × β)) :
    (l.map (fun kv => (kv.1, h kv.2))).lookup k = (l.lookup k).map h := by
  induction l with
  | nil => simp
  | cons kv l ih =>
    obtain ⟨k0, v0⟩ := kv
    simp only [List.map_cons, Store.lookup_cons', ih]
    split <;> simp

theorem count_flatMap_upsert {β : Type} (x : Nat) (h : β → List Nat) (k : Nat) (g : Option β → β)
    (l : List (Nat × β)) (d : Nat)
    (hg : List.count x (h (g (l.lookup k))) = (match l.lookup k with | none => 0 | some v => List.count x (h v)) + d) :
    List.count x ((upsert k g l).flatMap (fun kv => h kv.2)) = List.count x (l.flatMap (fun kv => h kv.2)) + d := by
  induction l with
  | nil => simpa [upsert] using hg
  | cons kv l ih =>
    obtain ⟨k0, v0⟩ := kv
    simp only [upsert]
    by_cases e : k0 = k
    · subst e
      simp only [Store.lookup_cons', if_true] at hg
      simp only [if_true, List.flatMap_cons, List.count_append, hg]
      omega
    · have e' : ¬ k = k0 := fun x => e x.symm
      simp only [Store.lookup_cons', e', if_false] at hg
      simp only [e, if_false, List.flatMap_cons, List.count_append, ih hg]
      omega

/-! ### the pointers in the tuple sets -/

theorem mem_allIds_of_idSetAt {m : List (Nat × ClusterI)} {q f p : Nat} (h : p ∈ idSetAt m q f) : p ∈ allIds m := by
  unfold idSetAt at h
  cases hq : m.lookup q with
  | none => simp [hq] at h
  | some c =>
    cases hf : c.lookup f with
    | none => simp [hq, hf] at h
    | some ps =>
      simp only [hq, hf, Option.getD_some] at h
      have h1 := Store.mem_of_lookup hq
      have h2 := Store.mem_of_lookup hf
      unfold allIds idsOfCluster
      simp only [List.mem_flatMap]
      exact ⟨_, h1, _, h2, h⟩

theorem count_insN (x p : Nat) (ps : List Nat) :
    List.count x (insN p ps) = List.count x ps + (if ps.contains p then 0 else if x = p then 1 else 0) := by
  unfold insN
  by_cases hc : p ∈ ps
  · simp [hc]
  · by_cases e : x = p
    · subst e; simp [hc, List.count_append]
    · have : ¬ p = x := fun h => e h.symm
      simp [hc, e, this, List.count_append]

theorem count_addToMapI (x q f p : Nat) (m : List (Nat × ClusterI)) :
    List.count x (allIds (addToMapI q f p m)) =
      List.count x (allIds m) + (if (idSetAt m q f).contains p then 0 else if x = p then 1 else 0) := by
  unfold allIds addToMapI
  apply count_flatMap_upsert x idsOfCluster q
  unfold idsOfCluster addToClusterI
  have key : ∀ c : ClusterI, List.count x ((upsert f (fun o => insN p (o.getD [])) c).flatMap (fun ft => ft.2)) =
      List.count x (c.flatMap (fun ft => ft.2)) +
        (if ((c.lookup f).getD []).contains p then 0 else if x = p then 1 else 0) := by
    intro c
    apply count_flatMap_upsert x (fun ps => ps) f
    rw [count_insN]
    cases c.lookup f <;> simp
  unfold idSetAt
  cases hq : m.lookup q with
  | none => simpa using key []
  | some c => simpa using key c

/-! ### dereferencing commutes with insertion -/

theorem absMap_congr {c c' : CacheSt} {m : List (Nat × ClusterI)}
    (h : ∀ p, p ∈ allIds m → derefC c' p = derefC c p) : absMap c' m = absMap c m := by
  unfold absMap
  apply List.map_congr_left
  intro qc hqc
  congr 1
  apply List.map_congr_left
  intro ft hft
  congr 1
  apply List.map_congr_left
  intro p hp
  apply h
  unfold allIds idsOfCluster
  simp only [List.mem_flatMap]
  exact ⟨qc, hqc, ft, hft, hp⟩

theorem map_insN {d : Nat → List Nat} {p : Nat} {ps : List Nat}
    (hinj : ∀ a, a ∈ ps → d a = d p → a = p) : (insN p ps).map d = insTuple (d p) (ps.map d) := by
  unfold insN insTuple
  have : (ps.map d).contains (d p) = ps.contains p := by
    rw [Bool.eq_iff_iff]
    simp only [List.contains_iff_mem, List.mem_map]
    constructor
    · rintro ⟨a, ha, e⟩
      rw [← hinj a ha e]
      exact ha
    · intro h
      exact ⟨p, h, rfl⟩
  rw [this]
  split <;> simp

theorem absMap_addToMapI {c : CacheSt} {q f p : Nat} {m : List (Nat × ClusterI)}
    (hinj : ∀ a, a ∈ allIds m → derefC c a = derefC c p → a = p) :
    absMap c (addToMapI q f p m) = addToMap q f (derefC c p) (absMap c m) := by
  unfold absMap addToMapI addToMap
  apply map_upsert (fun (cl : ClusterI) => cl.map (fun ft => (ft.1, ft.2.map (derefC c))))
  · simp [addToClusterI, addToCluster, upsert, insN, insTuple]
  · intro cl hcl
    simp only [Option.getD_some]
    unfold addToClusterI addToCluster
    apply map_upsert (fun (ps : List Nat) => ps.map (derefC c))
    · simp [insN, insTuple]
    · intro ps hps
      simp only [Option.getD_some]
      apply map_insN
      intro a ha
      apply hinj
      unfold allIds idsOfCluster
      simp only [List.mem_flatMap]
      exact ⟨_, hcl, _, hps, ha⟩

/-- the as-coded iteration dereferences what the value iteration sees -/
theorem iterateI_eq (s : Sys) : iterateI s = Store.iterate (abs s) := by
  unfold iterateI Store.iterate abs absMap Store.flatCluster
  simp [List.flatMap_map, List.map_map, Function.comp_def]

/-! ### the steps -/

/-- dereferencing of the pointers the automaton holds is not disturbed when the cache changes consistently -/
theorem deref_stable {c c' : CacheSt} {R R' : List Nat} (h : CInv c R) (h' : CInv c' R') {p : Nat} (hp : p ∈ R)
    (hk : ∀ v' id' rc', id' ∈ R → (v', id', rc') ∈ c → ∃ rc'', (v', id', rc'') ∈ c') : derefC c' p = derefC c p := by
  obtain ⟨v, rc, hm⟩ := h.live p hp
  obtain ⟨rc', hm'⟩ := hk v p rc hp hm
  rw [h.derefC_eq hm, h'.derefC_eq hm']

theorem addI_lib {s s' : Sys} {r : Rule} {ch : Nat} (h : Inv s) (hs : addI .lib s r ch = some s') :
    Inv s' ∧ abs s' = Store.addTransition (abs s) r := by
  unfold addI at hs
  cases hl : lookupC s.cache r.kids ch with
  | none => simp [hl] at hs
  | some x =>
    obtain ⟨c₁, p⟩ := x
    simp only [hl, Option.some.injEq] at hs
    subst hs
    unfold Inv refs at h
    obtain ⟨h1, ⟨rc1, hp1⟩, k1⟩ := CInv.lookupC h hl
    -- the cache after the (possible) copy into the set node and the death of the temporary
    have hfin : ∃ c₃, releaseC .lib (if (!(idSetAt s.clusters r.parent r.sym).contains p && Mode.lib != Mode.rawSets) = true
          then acquireC c₁ p else c₁) p = c₃ ∧
        CInv c₃ (allIds (addToMapI r.parent r.sym p s.clusters) ++ s.ext) ∧
        (∃ rc, (r.kids, p, rc) ∈ c₃) ∧
        (∀ v' id' rc', id' ∈ allIds s.clusters ++ s.ext → (v', id', rc') ∈ s.cache → ∃ rc'', (v', id', rc'') ∈ c₃) := by
      refine ⟨_, rfl, ?_⟩
      by_cases hc : (idSetAt s.clusters r.parent r.sym).contains p = true
      · -- the pointer is in the set already
        simp only [hc, Bool.not_true, Bool.false_and, Bool.false_eq_true, if_false]
        have h3 := CInv.releaseC h1
        have hpR : p ∈ allIds s.clusters ++ s.ext :=
          List.mem_append_left _ (mem_allIds_of_idSetAt (List.contains_iff_mem.1 hc))
        refine ⟨h3.1.congr ?_, ?_, ?_⟩
        · intro id
          have hc' : p ∈ idSetAt s.clusters r.parent r.sym := List.contains_iff_mem.1 hc
          simp [List.count_append, count_addToMapI, hc']
        · exact h3.2 _ _ _ hpR hp1
        · intro v' id' rc' hi hm
          obtain ⟨r1, hr1⟩ := k1 v' id' rc' hm
          exact h3.2 v' id' r1 hi hr1
      · simp only [hc, Bool.not_false, Bool.true_and, show (Mode.lib != Mode.rawSets) = true from rfl, if_true]
        have h2 := CInv.acquireC h1 (List.mem_cons_self ..)
        have h3 := CInv.releaseC h2.1
        refine ⟨h3.1.congr ?_, ?_, ?_⟩
        · intro id
          simp only [List.count_append, count_addToMapI, hc, Bool.false_eq_true, if_false, List.count_cons]
          by_cases e : id = p
          · subst e; simp; omega
          · have : ¬ p = id := fun x => e x.symm
            simp [e, this]
        · obtain ⟨r2, hr2⟩ := h2.2 _ _ _ hp1
          exact h3.2 _ _ _ (List.mem_cons_self ..) hr2
        · intro v' id' rc' hi hm
          obtain ⟨r1, hr1⟩ := k1 v' id' rc' hm
          obtain ⟨r2, hr2⟩ := h2.2 v' id' r1 hr1
          exact h3.2 v' id' r2 (List.mem_cons_of_mem _ hi) hr2
    obtain ⟨c₃, e3, hinv3, ⟨rc3, hp3⟩, k3⟩ := hfin
    simp only [e3]
    refine ⟨hinv3, ?_⟩
    have hstab : ∀ a, a ∈ allIds s.clusters → derefC c₃ a = derefC s.cache a := fun a ha =>
      deref_stable h hinv3 (List.mem_append_left _ ha) k3
    have hdp : derefC c₃ p = r.kids := hinv3.derefC_eq hp3
    have hplive : p ∈ allIds (addToMapI r.parent r.sym p s.clusters) ++ s.ext := by
      obtain ⟨v, rc, hm⟩ : ∃ v rc, (v, p, rc) ∈ c₃ := ⟨_, _, hp3⟩
      have := (hinv3.cnt _ _ _ hm).2
      rw [(hinv3.cnt _ _ _ hm).1] at this
      exact List.count_pos_iff.1 this
    have hsub : ∀ a, a ∈ allIds s.clusters → a ∈ allIds (addToMapI r.parent r.sym p s.clusters) ++ s.ext := by
      intro a ha
      apply List.count_pos_iff.1
      have : 0 < List.count a (allIds s.clusters) := List.count_pos_iff.2 ha
      simp only [List.count_append, count_addToMapI]
      omega
    unfold abs Store.addTransition
    simp only
    congr 1
    rw [absMap_addToMapI (fun a ha e => hinv3.deref_inj (hsub a ha) hplive e), hdp, absMap_congr hstab]

theorem lookup_absMap (c : CacheSt) (m : List (Nat × ClusterI)) (q : Nat) :
    (absMap c m).lookup q = (m.lookup q).map (fun cl => cl.map (fun ft => (ft.1, ft.2.map (derefC c)))) :=
  lookup_map_snd _ q m

theorem containsI_lib {s s' : Sys} {r : Rule} {ch : Nat} {b : Bool} (h : Inv s)
    (hs : containsI .lib s r ch = some (s', b)) :
    Inv s' ∧ abs s' = abs s ∧ b = Store.contains (abs s) r := by
  unfold containsI at hs
  unfold Store.contains abs
  simp only [lookup_absMap]
  cases hq : s.clusters.lookup r.parent with
  | none =>
    simp only [hq, Option.some.injEq, Prod.mk.injEq] at hs
    obtain ⟨e1, e2⟩ := hs
    subst e1; subst e2
    exact ⟨h, rfl, by simp⟩
  | some cl =>
    simp only [Option.map_some, lookup_map_snd]
    cases hf : cl.lookup r.sym with
    | none =>
      simp only [hq, hf, Option.some.injEq, Prod.mk.injEq] at hs
      obtain ⟨e1, e2⟩ := hs
      subst e1; subst e2
      exact ⟨h, rfl, by simp⟩
    | some ps =>
      simp only [hq, hf] at hs
      cases hl : lookupC s.cache r.kids ch with
      | none => simp [hl] at hs
      | some x =>
        obtain ⟨c₁, p⟩ := x
        simp only [hl, Option.some.injEq, Prod.mk.injEq] at hs
        obtain ⟨e1, e2⟩ := hs
        subst e1; subst e2
        obtain ⟨h1, ⟨rc1, hp1⟩, k1⟩ := CInv.lookupC h hl
        have h3 := CInv.releaseC h1
        have hps : ∀ a, a ∈ ps → a ∈ allIds s.clusters := by
          intro a ha
          unfold allIds idsOfCluster
          simp only [List.mem_flatMap]
          exact ⟨_, Store.mem_of_lookup hq, _, Store.mem_of_lookup hf, ha⟩
        refine ⟨h3.1, ?_, ?_⟩
        · simp only
          congr 1
          apply absMap_congr
          intro a ha
          have haR : a ∈ refs s := List.mem_append_left _ ha
          obtain ⟨v, rc, hm⟩ := CInv.live h a haR
          obtain ⟨r1, hr1⟩ := k1 v a rc hm
          obtain ⟨r2, hr2⟩ := h3.2 v a r1 haR hr1
          rw [CInv.derefC_eq h hm, CInv.derefC_eq h3.1 hr2]
        · simp only [Option.map_some]
          rw [Bool.eq_iff_iff]
          simp only [List.contains_iff_mem, List.mem_map]
          constructor
          · intro hp
            refine ⟨p, hp, ?_⟩
            have hpR : p ∈ refs s := List.mem_append_left _ (hps p hp)
            obtain ⟨v, rc, hm⟩ := CInv.live h p hpR
            obtain ⟨r1, hr1⟩ := k1 v p rc hm
            have := h1.fid _ _ _ _ _ hr1 hp1
            subst this
            exact CInv.derefC_eq h hm
          · rintro ⟨a, ha, e⟩
            have haR : a ∈ refs s := List.mem_append_left _ (hps a ha)
            obtain ⟨v, rc, hm⟩ := CInv.live h a haR
            rw [CInv.derefC_eq h hm] at e
            subst e
            obtain ⟨r1, hr1⟩ := k1 _ a rc hm
            have := h1.fk _ _ _ hr1 hp1
            simp only [Prod.mk.injEq] at this
            rw [← this.1]
            exact ha

theorem clearI_lib {s : Sys} (h : Inv s) : Inv (clearI .lib s) ∧ abs (clearI .lib s) = Store.clear (abs s) := by
  unfold Inv refs at h
  have h1 := CInv.foldl_releaseC (allIds s.clusters) h
  refine ⟨?_, rfl⟩
  unfold Inv refs clearI
  simpa [allIds] using h1.1

theorem copyOutI_lib {s : Sys} (h : Inv s) : Inv (copyOutI .lib s) ∧ abs (copyOutI .lib s) = abs s := by
  unfold Inv refs at h
  have h1 := CInv.foldl_acquireC (allIds s.clusters) h (fun p hp => List.mem_append_left _ hp)
  have hinv : Inv (copyOutI .lib s) := by
    unfold Inv refs copyOutI
    simp only [show (Mode.lib = Mode.rawSets) = False from by simp, if_false]
    apply h1.1.congr
    intro id
    simp only [List.count_append, List.count_reverse]
    omega
  refine ⟨hinv, ?_⟩
  unfold abs
  have : (copyOutI .lib s).clusters = s.clusters ∧ (copyOutI .lib s).final = s.final := by
    unfold copyOutI; simp
  rw [this.1, this.2]
  congr 1
  apply absMap_congr
  intro a ha
  have hk : ∀ v' id' rc', id' ∈ allIds s.clusters ++ s.ext → (v', id', rc') ∈ s.cache →
      ∃ rc'', (v', id', rc'') ∈ (copyOutI .lib s).cache := by
    intro v' id' rc' _ hm
    have := h1.2 v' id' rc' hm
    unfold copyOutI
    simpa using this
  exact deref_stable h hinv (List.mem_append_left _ ha) hk

theorem envLookupI_lib {s s' : Sys} {t : List Nat} {ch : Nat} (h : Inv s) (hs : envLookupI s t ch = some s') :
    Inv s' ∧ abs s' = abs s := by
  unfold envLookupI at hs
  cases hl : lookupC s.cache t ch with
  | none => simp [hl] at hs
  | some x =>
    obtain ⟨c₁, p⟩ := x
    simp only [hl, Option.some.injEq] at hs
    subst hs
    obtain ⟨h1, _, k1⟩ := CInv.lookupC h hl
    have hinv : Inv { s with cache := c₁, ext := p :: s.ext } := by
      unfold Inv refs
      apply h1.congr
      intro id
      unfold refs
      simp only [List.count_append, List.count_cons]
      omega
    refine ⟨hinv, ?_⟩
    unfold abs
    simp only
    congr 1
    apply absMap_congr
    intro a ha
    exact deref_stable h hinv (List.mem_append_left _ ha) (fun v' id' rc' _ hm => k1 v' id' rc' hm)

theorem envReleaseI_lib {s : Sys} {p : Nat} (h : Inv s) :
    Inv (envReleaseI .lib s p) ∧ abs (envReleaseI .lib s p) = abs s := by
  unfold envReleaseI
  by_cases hp : p ∈ s.ext
  · simp only [hp, if_true]
    have h0 : CInv s.cache (p :: (allIds s.clusters ++ s.ext.erase p)) := by
      apply CInv.congr h
      intro id
      unfold refs
      simp only [List.count_append, List.count_cons, List.count_erase]
      by_cases e : p = id
      · subst e
        have : 0 < List.count p s.ext := List.count_pos_iff.2 hp
        simp
        omega
      · have : (p == id) = false := by simpa using e
        simp [this]
    have h3 := CInv.releaseC h0
    have hinv : Inv { s with cache := releaseC .lib s.cache p, ext := s.ext.erase p } := h3.1
    refine ⟨hinv, ?_⟩
    unfold abs
    simp only
    congr 1
    apply absMap_congr
    intro a ha
    obtain ⟨v, rc, hm⟩ := CInv.live h a (List.mem_append_left _ ha)
    obtain ⟨r2, hr2⟩ := h3.2 v a rc (List.mem_append_left _ ha) hm
    rw [CInv.derefC_eq h hm, CInv.derefC_eq h3.1 hr2]
  · simp only [hp, if_false]
    first | exact ⟨h, rfl⟩ | exact ⟨h, trivial⟩

/-- the effect of a call on the value store -/
def absStep (a : Store.Store) (op : OpI) : Store.Store :=
  match toStoreOp op with
  | some o => Store.step a o
  | none => a

theorem stepI_lib {s s' : Sys} {op : OpI} (h : Inv s) (hs : stepI .lib s op = some s') :
    Inv s' ∧ abs s' = absStep (abs s) op := by
  cases op with
  | add r ch => exact addI_lib h hs
  | setFinal q =>
    simp only [stepI, Option.some.injEq] at hs
    subst hs
    exact ⟨h, rfl⟩
  | setFinals qs =>
    simp only [stepI, Option.some.injEq] at hs
    subst hs
    exact ⟨h, rfl⟩
  | eraseFinal =>
    simp only [stepI, Option.some.injEq] at hs
    subst hs
    exact ⟨h, rfl⟩
  | clear =>
    simp only [stepI, Option.some.injEq] at hs
    subst hs
    exact clearI_lib h
  | query r ch =>
    simp only [stepI] at hs
    cases hc : containsI .lib s r ch with
    | none => simp [hc] at hs
    | some x =>
      obtain ⟨s₁, b⟩ := x
      simp only [hc, Option.map_some, Option.some.injEq] at hs
      subst hs
      have := containsI_lib h hc
      exact ⟨this.1, this.2.1⟩
  | copyOut =>
    simp only [stepI, Option.some.injEq] at hs
    subst hs
    exact copyOutI_lib h
  | envLookup t ch => exact envLookupI_lib h hs
  | envRelease p =>
    simp only [stepI, Option.some.injEq] at hs
    subst hs
    exact envReleaseI_lib h

theorem runFrom_lib {s s' : Sys} {ops : List OpI} (h : Inv s) (hs : runFrom .lib s ops = some s') :
    Inv s' ∧ abs s' = (ops.filterMap toStoreOp).foldl Store.step (abs s) := by
  induction ops generalizing s with
  | nil =>
    simp only [runFrom, Option.some.injEq] at hs
    subst hs
    exact ⟨h, rfl⟩
  | cons op ops ih =>
    simp only [runFrom] at hs
    cases h1 : stepI .lib s op with
    | none => simp [h1] at hs
    | some s₁ =>
      simp only [h1] at hs
      obtain ⟨hi, ha⟩ := stepI_lib h h1
      obtain ⟨hi', ha'⟩ := ih hi hs
      refine ⟨hi', ?_⟩
      rw [ha', ha]
      unfold absStep
      cases ht : toStoreOp op <;> simp [ht]

theorem runI_lib {s : Sys} {ops : List OpI} (hs : runI .lib ops = some s) :
    Inv s ∧ abs s = Store.run (ops.filterMap toStoreOp) := by
  have := runFrom_lib inv_empty hs
  exact this

/-! ### totality: a step fails only on an impossible allocator choice -/

/-- the address a call offers for a new cache node -/
def opChoice : OpI → Option Nat
  | .add _ ch => some ch
  | .query _ ch => some ch
  | .envLookup _ ch => some ch
  | _ => none

theorem lookupC_isSome {c : CacheSt} {t : List Nat} {ch : Nat} (h : ch ∉ liveIds c) : (lookupC c t ch).isSome = true := by
  unfold lookupC
  split
  · rfl
  · simp [h]

theorem stepI_isSome (m : Mode) (s : Sys) (op : OpI) (h : ∀ ch, opChoice op = some ch → ch ∉ liveIds s.cache) :
    (stepI m s op).isSome = true := by
  cases op with
  | add r ch =>
    have := lookupC_isSome (t := r.kids) (h ch rfl)
    simp only [stepI, addI]
    cases hl : lookupC s.cache r.kids ch with
    | none => simp [hl] at this
    | some x => simp
  | query r ch =>
    have := lookupC_isSome (t := r.kids) (h ch rfl)
    simp only [stepI, containsI]
    split
    · simp
    · split
      · simp
      · cases hl : lookupC s.cache r.kids ch with
        | none => simp [hl] at this
        | some x => simp
  | envLookup t ch =>
    have := lookupC_isSome (t := t) (h ch rfl)
    simp only [stepI, envLookupI]
    cases hl : lookupC s.cache t ch with
    | none => simp [hl] at this
    | some x => simp
  | setFinal q => rfl
  | setFinals qs => rfl
  | eraseFinal => rfl
  | clear => rfl
  | copyOut => rfl
  | envRelease p => rfl

theorem opChoice_setChoice {ch ch' : Nat} {op : OpI} (h : opChoice (setChoice ch op) = some ch') : ch' = ch := by
  cases op <;> simp [setChoice, opChoice] at h <;> exact h.symm

theorem toStoreOp_setChoice (ch : Nat) (op : OpI) : toStoreOp (setChoice ch op) = toStoreOp op := by
  cases op <;> rfl

/-- against a fair allocator (never the address of a live tuple) every history runs to the end, keeps the invariant
    and refines the value store -/
theorem runA_lib {alloc : List Nat → Nat} (hf : ∀ l, alloc l ∉ l) {s : Sys} (h : Inv s) (ops : List OpI) :
    ∃ s', runA .lib alloc s ops = some s' ∧ Inv s' ∧
      abs s' = (ops.filterMap toStoreOp).foldl Store.step (abs s) := by
  induction ops generalizing s with
  | nil => exact ⟨s, rfl, h, rfl⟩
  | cons op ops ih =>
    have hsome := stepI_isSome .lib s (setChoice (alloc (liveIds s.cache)) op) (by
      intro ch hch
      rw [opChoice_setChoice hch]
      exact hf _)
    cases h1 : stepI .lib s (setChoice (alloc (liveIds s.cache)) op) with
    | none => simp [h1] at hsome
    | some s₁ =>
      obtain ⟨hi, ha⟩ := stepI_lib h h1
      obtain ⟨s', hr, hi', ha'⟩ := ih hi
      refine ⟨s', ?_, hi', ?_⟩
      · simp only [runA, h1]
        exact hr
      · rw [ha', ha]
        unfold absStep
        rw [toStoreOp_setChoice]
        cases ht : toStoreOp op <;> simp [ht]

theorem le_sum_of_mem {l : List Nat} {x : Nat} (h : x ∈ l) : x ≤ l.sum := by
  induction l with
  | nil => cases h
  | cons a l ih =>
    rw [List.sum_cons]
    rcases List.mem_cons.1 h with e | h'
    · omega
    · have := ih h'
      omega

theorem lowAlloc_fair (l : List Nat) : lowAlloc l ∉ l := by
  unfold lowAlloc
  split
  · rename_i n hn
    have := List.find?_some hn
    simpa using this
  · intro hm
    have := le_sum_of_mem hm
    omega

/-- `filterMap toStoreOp` undoes `liftOps` -/
theorem filterMap_liftOps (al : Nat → Nat) (n : Nat) (ops : List Store.Op) :
    (liftOps al n ops).filterMap toStoreOp = ops := by
  induction ops generalizing n with
  | nil => rfl
  | cons op ops ih => cases op <;> simp [liftOps, toStoreOp, ih]

/-- nothing leaks: when the automaton is cleared (or destroyed) and nobody else holds a tuple, the cache is empty
    (the `assert(this->empty())` of `~Cache()`) -/
theorem no_leak {s : Sys} (h : Inv s) (hc : s.clusters = []) (he : s.ext = []) : s.cache = [] := by
  unfold Inv refs at h
  rw [hc, he] at h
  cases hcache : s.cache with
  | nil => rfl
  | cons e l =>
    obtain ⟨v, id, rc⟩ := e
    have := h.cnt v id rc (by rw [hcache]; exact List.mem_cons_self ..)
    simp [allIds] at this
    omega

/-! ### the invariant as a test -/

theorem invB_of_inv_aux {c : CacheSt} {R : List Nat} (h : cacheInvB c R = true) : CInv c R := by
  unfold cacheInvB at h
  simp only [Bool.and_eq_true, Store.nodupB_iff, Store.nodupNB_iff, List.all_eq_true, decide_eq_true_eq,
    List.contains_iff_mem] at h
  obtain ⟨⟨⟨hk, hi⟩, hc⟩, hl⟩ := h
  have key : ∀ (l : List (List Nat × Nat × Nat)), (l.map (·.1)).Nodup → ∀ v x y, (v, x) ∈ l → (v, y) ∈ l → x = y := by
    intro l
    induction l with
    | nil => intro _ v x y hx; cases hx
    | cons e l ih =>
      intro hn v x y hx hy
      simp only [List.map_cons, List.nodup_cons, List.mem_map, not_exists, not_and] at hn
      rcases List.mem_cons.1 hx with hx | hx <;> rcases List.mem_cons.1 hy with hy | hy
      · rw [← hy] at hx; simp only [Prod.mk.injEq] at hx; exact hx.2
      · exact absurd (by rw [← hx]) (hn.1 _ hy)
      · exact absurd (by rw [← hy]) (hn.1 _ hx)
      · exact ih hn.2 v x y hx hy
  have keyi : ∀ (l : List (List Nat × Nat × Nat)), (ids l).Nodup →
      ∀ v v' id rc rc', (v, id, rc) ∈ l → (v', id, rc') ∈ l → v = v' := by
    intro l
    induction l with
    | nil => intro _ v v' id rc rc' hx; cases hx
    | cons e l ih =>
      intro hn v v' id rc rc' hx hy
      simp only [ids, List.map_cons, List.nodup_cons, List.mem_map, not_exists, not_and] at hn
      rcases List.mem_cons.1 hx with hx | hx <;> rcases List.mem_cons.1 hy with hy | hy
      · rw [← hy] at hx; simp only [Prod.mk.injEq] at hx; exact hx.1
      · exact absurd (by rw [← hx]) (hn.1 _ hy)
      · exact absurd (by rw [← hy]) (hn.1 _ hx)
      · exact ih hn.2 v v' id rc rc' hx hy
  refine ⟨key c hk, keyi c hi, ?_, ?_⟩
  · intro v id rc hm
    exact hc _ hm
  · intro id hid
    exact mem_ids'.1 (hl id hid)

theorem inv_of_invB {s : Sys} (h : invB s = true) : Inv s := invB_of_inv_aux h

/-! ### the cache component is the `Util::Cache` model of `Vata/CacheModel.lean`

`Sys.cache` has the type of `CM.Sys.store`, and the three primitives used by the store are the map-effects of the three
primitives of the class model (`intern`, `dupTmp`, `dropTmp` with the default user deleter). -/

/-- the destructor of a `TuplePtr` is the `dropTmp` of the cache class model (default user deleter) on the map -/
theorem releaseC_eq_dropTmp (s : CM.Sys (List Nat)) (id : Nat) (h : s.tmp = some id) :
    (CM.dropTmp .none s).store = releaseC .lib s.store id := by
  unfold CM.dropTmp releaseC
  rw [h]
  simp only
  cases byId s.store id with
  | none => rfl
  | some x =>
    obtain ⟨v, rc⟩ := x
    simp only
    split <;> simp [CM.userDeleter]

theorem liveIds_eq_ids {c : CacheSt} (hl : ∀ e, e ∈ c → 0 < e.2.2) : liveIds c = ids c := by
  unfold liveIds
  congr 1
  apply List.filter_eq_self.2
  intro e he
  simpa using hl e he

/-- `Cache::lookup` is the `intern` of the cache class model on the map -/
theorem lookupC_eq_intern (s : CM.Sys (List Nat)) (v : List Nat) (ch : Nat) (ht : s.tmp = none)
    (hl : ∀ e, e ∈ s.store → 0 < e.2.2) :
    (CM.intern s v ch).map (fun r => (r.1.store, r.2)) = lookupC s.store v ch := by
  unfold CM.intern lookupC
  rw [ht, liveIds_eq_ids hl]
  simp only
  cases aget s.store v with
  | none => simp only; split <;> simp
  | some x => obtain ⟨id, rc⟩ := x; simp

/-- the copy of a `TuplePtr` is the `dupTmp` of the cache class model on the map -/
theorem acquireC_eq_dupTmp (s : CM.Sys (List Nat)) (i id : Nat) (ht : s.tmp = none) (hi : s.slots[i]? = some (some id))
    (hlive : (byId s.store id).isSome = true) : (CM.dupTmp s i).map (·.store) = some (acquireC s.store id) := by
  unfold CM.dupTmp acquireC
  rw [ht, hi]
  simp only
  cases hb : byId s.store id with
  | none => simp [hb] at hlive
  | some x => obtain ⟨v, rc⟩ := x; simp

end Vata.StoreI
