import Vata.IsectBU
import Vata.Proofs.IsectModel
/-!
# Property C02 – `IntersectionBU`: the bottom-up product (`Vata/IsectBU.lean`) accepts exactly the intersection

* `BUClosed`, `isect_bu_cert`    the certificate principle: the product on a BOTTOM-UP closed set `D` of pairs (all product
                                 rules whose children pairs are in `D`; final = pairs of `D` with two final components),
                                 numbered injectively on `D`, accepts exactly `L(A) ∩ L(B)`.  It is the mirror image of
                                 `isect_cert`: there `D` is closed downwards and contains `F_A × F_B`, here every pair
                                 `(p, q)` with `p ∈ reach A t`, `q ∈ reach B t` is in `D`.
* `buCertB_sound`                what the final Boolean check of the model establishes
* `isectBU_lang`                 whenever the model returns, the product accepts exactly the intersection
* `isectBU_map_inj`, `isectBU_spec`   the reported translation map
The theorems about the loop itself (the check cannot fail) are in `Vata/Proofs/IsectBUInv.lean`.
-/
namespace Vata

/-- `D` is bottom-up closed: it contains the parent pair of matching rules all of whose children pairs are in `D` -/
def BUClosed (A B : TA) (D : List (Nat × Nat)) : Prop :=
  ∀ r, r ∈ A.rules → ∀ r', r' ∈ B.rules → r'.sym = r.sym → r'.kids.length = r.kids.length →
    (∀ pr, pr ∈ r.kids.zip r'.kids → pr ∈ D) → (r.parent, r'.parent) ∈ D

namespace Ibu

theorem mem_prodRulesBU {A B : TA} {D : List (Nat × Nat)} {m : Nat × Nat → Nat} {ρ : Rule} :
    ρ ∈ prodRulesBU A B D m ↔ ∃ r, r ∈ A.rules ∧ ∃ r', r' ∈ B.rules ∧ r'.sym = r.sym ∧ r'.kids.length = r.kids.length ∧
      (∀ pr, pr ∈ r.kids.zip r'.kids → pr ∈ D) ∧ ρ = ⟨r.sym, (r.kids.zip r'.kids).map m, m (r.parent, r'.parent)⟩ := by
  simp only [prodRulesBU, List.mem_flatMap, List.mem_map, List.mem_filter, Bool.and_eq_true, beq_iff_eq,
    List.all_eq_true, List.contains_iff_mem]
  constructor
  · rintro ⟨r, hr, r', ⟨hr', ⟨hs, hl⟩, hd⟩, rfl⟩; exact ⟨r, hr, r', hr', hs, hl, hd, rfl⟩
  · rintro ⟨r, hr, r', hr', hs, hl, hd, rfl⟩; exact ⟨r, hr, r', ⟨hr', ⟨hs, hl⟩, hd⟩, rfl⟩

theorem mem_prodFinalBU {A B : TA} {D : List (Nat × Nat)} {m : Nat × Nat → Nat} {x : Nat} :
    x ∈ prodFinalBU A B D m ↔ ∃ pr, pr ∈ D ∧ pr.1 ∈ A.final ∧ pr.2 ∈ B.final ∧ m pr = x := by
  simp only [prodFinalBU, List.mem_map, List.mem_filter, Bool.and_eq_true, List.contains_iff_mem]
  constructor
  · rintro ⟨pr, ⟨h1, h2, h3⟩, h4⟩; exact ⟨pr, h1, h2, h3, h4⟩
  · rintro ⟨pr, h1, h2, h3, h4⟩; exact ⟨pr, ⟨h1, h2, h3⟩, h4⟩

/-- the statement proved by mutual induction: componentwise characterisation of `reach` of the product `P`, and
every pair of states reached by the two operands on the same tree is in `D` -/
def Good (A B : TA) (D : List (Nat × Nat)) (m : Nat × Nat → Nat) (P : TA) (t : Tree) : Prop :=
  (∀ x, x ∈ reach P t → ∃ pr, pr ∈ D ∧ m pr = x ∧ pr.1 ∈ reach A t ∧ pr.2 ∈ reach B t) ∧
  (∀ p q, p ∈ reach A t → q ∈ reach B t → (p, q) ∈ D ∧ m (p, q) ∈ reach P t)

/-- list version for `matchKids` -/
theorem matchKids_zip (A B : TA) (D : List (Nat × Nat)) (m : Nat × Nat → Nat) (P : TA) (hinj : InjOn m D) :
    ∀ (ts : List Tree), (∀ t, t ∈ ts → Good A B D m P t) →
    ∀ (ks ks' : List Nat), ks'.length = ks.length → (∀ pr, pr ∈ ks.zip ks' → pr ∈ D) →
      (matchKids ((ks.zip ks').map m) (reachL P ts) = true ↔
        matchKids ks (reachL A ts) = true ∧ matchKids ks' (reachL B ts) = true)
  | [], _, ks, ks', hl, _ => by
    cases ks with
    | nil => cases ks' with
      | nil => simp [matchKids, reachL]
      | cons _ _ => simp at hl
    | cons k ks => cases ks' with
      | nil => simp at hl
      | cons k' ks' => simp [matchKids, reachL]
  | t :: ts, hg, ks, ks', hl, hd => by
    cases ks with
    | nil => cases ks' with
      | nil => simp [matchKids, reachL]
      | cons _ _ => simp at hl
    | cons k ks => cases ks' with
      | nil => simp at hl
      | cons k' ks' =>
        have ih := matchKids_zip A B D m P hinj ts (fun t ht => hg t (List.mem_cons_of_mem _ ht)) ks ks'
          (by simpa using hl) (fun pr hp => hd pr (by simp [List.zip_cons_cons, hp]))
        have hkd : (k, k') ∈ D := hd (k, k') (by simp [List.zip_cons_cons])
        obtain ⟨g1, g2⟩ := hg t List.mem_cons_self
        simp only [List.zip_cons_cons, List.map_cons, reachL, matchKids, Bool.and_eq_true,
          List.contains_iff_mem, ih]
        constructor
        · rintro ⟨hx, h1, h2⟩
          obtain ⟨pr, hpr, hm, ha, hb⟩ := g1 _ hx
          have : pr = (k, k') := hinj pr hpr (k, k') hkd hm
          subst this
          exact ⟨⟨ha, h1⟩, ⟨hb, h2⟩⟩
        · rintro ⟨⟨ha, h1⟩, ⟨hb, h2⟩⟩
          exact ⟨(g2 k k' ha hb).2, h1, h2⟩

/-- the children pairs of two rules that match the same trees are in `D` -/
theorem zip_mem (A B : TA) (D : List (Nat × Nat)) (m : Nat × Nat → Nat) (P : TA) :
    ∀ (ts : List Tree), (∀ t, t ∈ ts → Good A B D m P t) →
    ∀ (ks ks' : List Nat), matchKids ks (reachL A ts) = true → matchKids ks' (reachL B ts) = true →
      ∀ pr, pr ∈ ks.zip ks' → pr ∈ D
  | [], _, ks, ks', h1, h2, pr, hpr => by
    cases ks with
    | nil => simp at hpr
    | cons k ks => simp [matchKids, reachL] at h1
  | t :: ts, hg, ks, ks', h1, h2, pr, hpr => by
    cases ks with
    | nil => simp at hpr
    | cons k ks => cases ks' with
      | nil => simp at hpr
      | cons k' ks' =>
        simp only [reachL, matchKids, Bool.and_eq_true, List.contains_iff_mem] at h1 h2
        simp only [List.zip_cons_cons, List.mem_cons] at hpr
        rcases hpr with h | h
        · rw [h]; exact ((hg t List.mem_cons_self).2 k k' h1.1 h2.1).1
        · exact zip_mem A B D m P ts (fun t ht => hg t (List.mem_cons_of_mem _ ht)) ks ks' h1.2 h2.2 pr h

mutual
theorem good (A B : TA) (D : List (Nat × Nat)) (m : Nat × Nat → Nat) (hc : BUClosed A B D) (hinj : InjOn m D) :
    ∀ t : Tree, Good A B D m (prodBU A B D m) t
  | .node f ts => by
    have hts := goodL A B D m hc hinj ts
    constructor
    · intro x hx
      rw [reach, mem_post] at hx
      obtain ⟨ρ, hρ, hs, hm, hp⟩ := hx
      obtain ⟨r, hr, r', hr', hs', hl, hd, he⟩ := mem_prodRulesBU.mp hρ
      rw [he] at hs hm hp
      have hz := (matchKids_zip A B D m _ hinj ts hts r.kids r'.kids hl hd).mp hm
      refine ⟨(r.parent, r'.parent), hc r hr r' hr' hs' hl hd, hp, ?_, ?_⟩
      · rw [reach, mem_post]; exact ⟨r, hr, hs, hz.1, rfl⟩
      · rw [reach, mem_post]; exact ⟨r', hr', hs'.trans hs, hz.2, rfl⟩
    · intro p q ha hb
      rw [reach, mem_post] at ha hb
      obtain ⟨r, hr, hs, hm, hp⟩ := ha
      obtain ⟨r', hr', hs', hm', hp'⟩ := hb
      have hl : r'.kids.length = r.kids.length := by
        rw [matchKids_length hm, matchKids_length hm', reachL_eq_map, reachL_eq_map]; simp
      have hd := zip_mem A B D m _ ts hts r.kids r'.kids hm hm'
      have hpar : (r.parent, r'.parent) ∈ D := hc r hr r' hr' (hs'.trans hs.symm) hl hd
      rw [← hp, ← hp']
      refine ⟨hpar, ?_⟩
      rw [reach, mem_post]
      refine ⟨⟨r.sym, (r.kids.zip r'.kids).map m, m (r.parent, r'.parent)⟩,
        mem_prodRulesBU.mpr ⟨r, hr, r', hr', hs'.trans hs.symm, hl, hd, rfl⟩, hs, ?_, rfl⟩
      exact (matchKids_zip A B D m _ hinj ts hts r.kids r'.kids hl hd).mpr ⟨hm, hm'⟩
theorem goodL (A B : TA) (D : List (Nat × Nat)) (m : Nat × Nat → Nat) (hc : BUClosed A B D) (hinj : InjOn m D) :
    ∀ ts : List Tree, ∀ t, t ∈ ts → Good A B D m (prodBU A B D m) t
  | [], _, h => by simp at h
  | t :: ts, t', h => by
    rcases List.mem_cons.mp h with h | h
    · rw [h]; exact good A B D m hc hinj t
    · exact goodL A B D m hc hinj ts t' h
end

end Ibu

/-- the certificate principle of the bottom-up product -/
theorem isect_bu_cert (A B : TA) (D : List (Nat × Nat)) (m : Nat × Nat → Nat)
    (hc : BUClosed A B D) (hinj : InjOn m D) (t : Tree) :
    accepts (prodBU A B D m) t = true ↔ accepts A t = true ∧ accepts B t = true := by
  obtain ⟨g1, g2⟩ := Ibu.good A B D m hc hinj t
  simp only [accepts, accepting, List.any_eq_true, List.contains_iff_mem]
  constructor
  · rintro ⟨x, hx, hf⟩
    obtain ⟨pr, hpr, hm, ha, hb⟩ := g1 x hx
    obtain ⟨pr', hpr', hfa, hfb, hm'⟩ := Ibu.mem_prodFinalBU.mp hf
    have : pr' = pr := hinj _ hpr' _ hpr (hm'.trans hm.symm)
    subst this
    exact ⟨⟨pr'.1, ha, hfa⟩, ⟨pr'.2, hb, hfb⟩⟩
  · rintro ⟨⟨p, ha, hp⟩, ⟨q, hb, hq⟩⟩
    obtain ⟨hd, hr⟩ := g2 p q ha hb
    exact ⟨m (p, q), hr, Ibu.mem_prodFinalBU.mpr ⟨(p, q), hd, hp, hq, rfl⟩⟩

/-- every pair of states that the two operands reach on a common tree is in a bottom-up closed set -/
theorem buClosed_reach (A B : TA) (D : List (Nat × Nat)) (m : Nat × Nat → Nat) (hc : BUClosed A B D) (hinj : InjOn m D)
    (t : Tree) (p q : Nat) (hp : p ∈ reach A t) (hq : q ∈ reach B t) : (p, q) ∈ D :=
  ((Ibu.good A B D m hc hinj t).2 p q hp hq).1

namespace Ibu

/-! ### the Boolean certificate check -/

theorem buClosedB_iff {A B : TA} {D : List (Nat × Nat)} : buClosedB A B D = true ↔ BUClosed A B D := by
  unfold buClosedB BUClosed
  simp only [List.all_eq_true, Bool.or_eq_true, Bool.not_eq_true', ← Bool.not_eq_true, Bool.and_eq_true,
    List.contains_iff_mem, beq_iff_eq]
  constructor
  · intro h r hr r' hr' hs hl hd
    rcases h r hr r' hr' with h1 | h1
    · exact absurd ⟨⟨hs, hl⟩, hd⟩ h1
    · exact h1
  · intro h r hr r' hr'
    by_cases hc : (r'.sym = r.sym ∧ r'.kids.length = r.kids.length) ∧ ∀ pr, pr ∈ r.kids.zip r'.kids → pr ∈ D
    · exact Or.inr (h r hr r' hr' hc.1.1 hc.1.2 hc.2)
    · exact Or.inl hc

theorem mem_of_lookup : ∀ {m : PMap} {p : Nat × Nat} {n : Nat}, m.lookup p = some n → (p, n) ∈ m
  | [], _, _, h => by simp at h
  | (k, v) :: m, p, n, h => by
    rw [List.lookup_cons] at h
    by_cases hk : p = k
    · subst hk
      simp only [beq_self_eq_true, Option.some.injEq] at h
      subst h
      exact List.mem_cons_self
    · have : (p == k) = false := by simpa using hk
      rw [this] at h
      exact List.mem_cons_of_mem _ (mem_of_lookup h)

theorem pmapInjB_sound {m : PMap} (h : pmapInjB m = true) : InjOn (lookupF m) m.dom := by
  intro x hx y hy he
  obtain ⟨n, hn⟩ := Isx.mem_dom_iff.mp hx
  obtain ⟨n', hn'⟩ := Isx.mem_dom_iff.mp hy
  simp only [lookupF, hn, hn', Option.getD_some] at he
  subst he
  simp only [pmapInjB, List.all_eq_true, Bool.or_eq_true, bne_iff_ne, beq_iff_eq] at h
  rcases h _ (mem_of_lookup hn) _ (mem_of_lookup hn') with h1 | h1
  · exact absurd rfl h1
  · exact h1

theorem rulesEq_iff {R₁ R₂ : List Rule} : rulesEq R₁ R₂ = true ↔ ∀ r, r ∈ R₁ ↔ r ∈ R₂ := by
  simp only [rulesEq, rulesSub, Bool.and_eq_true, List.all_eq_true, List.contains_iff_mem]
  constructor
  · rintro ⟨h1, h2⟩ r; exact ⟨h1 r, h2 r⟩
  · intro h; exact ⟨fun r => (h r).1, fun r => (h r).2⟩

/-- what the final check establishes -/
theorem buCertB_sound {A B : TA} {m : PMap} {rs : List Rule} {fs : List Nat} (h : buCertB A B m rs fs = true) :
    InjOn (lookupF m) m.dom ∧ BUClosed A B m.dom ∧ (∀ ρ, ρ ∈ rs ↔ ρ ∈ (prodBU A B m.dom (lookupF m)).rules) ∧
    (∀ x, x ∈ fs ↔ x ∈ (prodBU A B m.dom (lookupF m)).final) := by
  simp only [buCertB, Bool.and_eq_true] at h
  obtain ⟨⟨⟨h1, h2⟩, h3⟩, h4⟩ := h
  exact ⟨pmapInjB_sound h1, buClosedB_iff.mp h2, rulesEq_iff.mp h3, seteq_iff.mp h4⟩

end Ibu

/-- everything the model establishes about its output -/
theorem isectBU_spec {A B : TA} {fuel : Nat} {P : TA} {m : PMap} (h : isectBU A B fuel = some (P, m)) :
    InjOn (lookupF m) m.dom ∧ BUClosed A B m.dom ∧ (∀ ρ, ρ ∈ P.rules ↔ ρ ∈ (prodBU A B m.dom (lookupF m)).rules) ∧
    (∀ x, x ∈ P.final ↔ x ∈ (prodBU A B m.dom (lookupF m)).final) := by
  unfold isectBU at h
  simp only at h
  split at h
  · cases h
  · rename_i m1 rs fs _
    split at h
    · rename_i hc
      simp only [Option.some.injEq, Prod.mk.injEq] at h
      obtain ⟨rfl, rfl⟩ := h
      exact Ibu.buCertB_sound hc
    · cases h

/-- the bottom-up product accepts exactly the intersection -/
theorem isectBU_lang {A B : TA} {fuel : Nat} {P : TA} {m : PMap} (h : isectBU A B fuel = some (P, m)) :
    ∀ t, accepts P t = (accepts A t && accepts B t) := by
  intro t
  obtain ⟨hinj, hcl, hr, hf⟩ := isectBU_spec h
  rw [Isx.accepts_congr_sets hr hf t, Bool.eq_iff_iff, Bool.and_eq_true]
  exact isect_bu_cert A B m.dom (lookupF m) hcl hinj t

/-- the reported translation map is injective: different pairs have different numbers -/
theorem isectBU_map_inj {A B : TA} {fuel : Nat} {P : TA} {m : PMap} (h : isectBU A B fuel = some (P, m)) :
    InjOn (lookupF m) m.dom := (isectBU_spec h).1

/-- every pair of states the operands reach on a common tree has been discovered -/
theorem isectBU_dom_complete {A B : TA} {fuel : Nat} {P : TA} {m : PMap} (h : isectBU A B fuel = some (P, m))
    (t : Tree) (p q : Nat) (hp : p ∈ reach A t) (hq : q ∈ reach B t) : (p, q) ∈ m.dom :=
  buClosed_reach A B m.dom (lookupF m) (isectBU_spec h).2.1 (isectBU_spec h).1 t p q hp hq

/-- the bottom-up and the top-down product agree on every tree -/
theorem isectBU_eq_isectTD {A B : TA} {fuel fuel' : Nat} {P P' : TA} {m m' : PMap} (h : isectBU A B fuel = some (P, m))
    (h' : isectTD A B fuel' = some (P', m')) (t : Tree) : accepts P t = accepts P' t := by
  rw [isectBU_lang h t, isectTD_lang h' t]

/-! ### non-vacuity -/
namespace IsectBUEx

/-- `a → 0`, `f(0) → 1`, `f(1) → 1`, `f(2) → 2`; final `1`, `2`: the language is `f⁺(a)` (state `2` is unproductive) -/
def exS : TA := ⟨[⟨0, [], 0⟩, ⟨1, [0], 1⟩, ⟨1, [1], 1⟩, ⟨1, [2], 2⟩], [1, 2]⟩
/-- `a → 0`, `f(0) → 0`, `f(5) → 5`; final `0`, `5`: the language is `f*(a)` -/
def exL : TA := ⟨[⟨0, [], 0⟩, ⟨1, [0], 0⟩, ⟨1, [5], 5⟩], [0, 5]⟩
def exFA : Tree := .node 1 [.node 0 []]
def exA0 : Tree := .node 0 []

-- the example of `IsectModel`: three pairs are bottom-up reachable (the top-down product discovers four)
example : (isectBU IsectEx.exA IsectEx.exB 20).map (fun r => (r.1.rules, r.1.final, r.2)) =
    some ([⟨0, [], 0⟩, ⟨2, [0, 0], 1⟩, ⟨2, [0, 0], 1⟩, ⟨3, [1], 2⟩, ⟨3, [2], 1⟩], [1],
      [((0, 0), 0), ((1, 1), 1), ((1, 2), 2)]) := by decide
-- with too little fuel there is no result
example : (isectBU IsectEx.exA IsectEx.exB 3).isNone = true := by decide
example : (isectBURef IsectEx.exA IsectEx.exB).isSome = true := by decide
-- self-loop rules on both sides: the tentative insertion of `(2, 5)` for `f(2) → 2`, `f(5) → 5` is erased again
example : (isectBU exS exL 20).map (fun r => (r.1.rules, r.1.final, r.2)) =
    some ([⟨0, [], 0⟩, ⟨1, [0], 1⟩, ⟨1, [1], 1⟩], [1], [((0, 0), 0), ((1, 0), 1)]) := by decide
-- the hypothesis of `isectBU_lang` is satisfiable and the conclusion distinguishes trees
example : ∃ P m, isectBU IsectEx.exA IsectEx.exB 20 = some (P, m) ∧ accepts P IsectEx.exT = true ∧
    accepts P IsectEx.exT' = false := by
  cases h : isectBU IsectEx.exA IsectEx.exB 20 with
  | none => exact absurd h (by decide)
  | some r =>
    refine ⟨r.1, r.2, rfl, ?_, ?_⟩
    · rw [isectBU_lang h]; decide
    · rw [isectBU_lang h]; decide
example : ∃ P m, isectBU exS exL 20 = some (P, m) ∧ accepts P exFA = true ∧ accepts P exA0 = false := by
  cases h : isectBU exS exL 20 with
  | none => exact absurd h (by decide)
  | some r =>
    refine ⟨r.1, r.2, rfl, ?_, ?_⟩
    · rw [isectBU_lang h]; decide
    · rw [isectBU_lang h]; decide
-- the closure check is not vacuous, and a bottom-up closed set need not be closed in the top-down sense
example : buClosedB IsectEx.exA IsectEx.exB [(0, 0)] = false ∧
    buClosedB IsectEx.exA IsectEx.exB [(0, 0), (1, 1), (1, 2)] = true ∧
    isClosedB IsectEx.exA IsectEx.exB [(0, 0), (1, 1), (1, 2)] = false := by decide
example : BUClosed IsectEx.exA IsectEx.exB [(0, 0), (1, 1), (1, 2)] := Ibu.buClosedB_iff.mp (by decide)

end IsectBUEx

end Vata
