import Vata.Proofs.TimbukGrammarTrim
/-!
# The one-pass parser with flags computes what the stateless two-pass reader computes (property C13)

`parseC_eq_read : optOk (parseC t) = (readText t).map Reading.desc`.
-/
namespace Vata.Timbuk
open Vata.T (splitDelim)

/-! ## line level -/

theorem stepLhs_read (st : PState) (line lhs rhs : Str) :
    stepLhs st line lhs rhs = (match readLhs lhs with
      | none => .error (errInvalidTrans line)
      | some (kids, lab) => .ok (addTrans st (kids, lab, rhs))) := by
  unfold stepLhs readLhs
  cases h1 : lhs.dropWhile (fun c => c != '(') with
  | nil =>
    simp only
    by_cases h2 : (lhs.contains ')' || containsWs lhs || lhs.isEmpty) = true
    · simp only [if_pos h2]
    · simp only [if_neg h2]
  | cons x inner =>
    simp only
    by_cases h2 : (lhs.takeWhile (fun c => c != '(')).contains ')' = true
    · simp only [if_pos h2]
    · simp only [if_neg h2]
      cases h3 : inner.dropWhile (fun c => c != ')') with
      | nil => rfl
      | cons y after =>
        simp only
        by_cases h4 : after ≠ []
        · simp only [if_pos h4]
        · simp only [if_neg h4]
          by_cases h5 : (trim (lhs.takeWhile (fun c => c != '('))).isEmpty = true
          · simp only [if_pos h5]
          · simp only [if_neg h5]
            by_cases h6 : ((splitDelim ',' (inner.takeWhile (fun c => c != ')'))).map trim).any containsWs = true
            · simp only [if_pos h6]
            · simp only [if_neg h6]

theorem stepTrans_read (st : PState) (line l : Str) :
    optOk (stepTrans st line (trim l)) = (readTransLine l).map (addTrans st) := by
  unfold stepTrans readTransLine
  cases splitArrow (trim l) with
  | none => rfl
  | some p =>
    obtain ⟨a, b⟩ := p
    simp only
    split
    · rfl
    · rw [stepLhs_read]
      cases readLhs (trim a) with
      | none => rfl
      | some q => rfl

theorem map_fst_neg1 (l : List Str) : (l.map (fun n => (n, (-1 : Int)))).map (·.1) = l := by
  induction l with
  | nil => rfl
  | cons a r ih => simp only [List.map_cons, ih]

theorem stepHeaderW_read (st : PState) (line : Str) (ws : List Str) (h : ws.headD [] ≠ kwTransitions) :
    optOk (stepHeaderW st line ws) =
      (readHeader ws).bind (fun h => if st.flag h.1 then none else some (applyItem st h)) := by
  unfold stepHeaderW readHeader
  simp only [if_neg h]
  by_cases h1 : ws.headD [] = kwAutomaton
  · simp only [if_pos h1]
    by_cases h2 : ws.tail.tail ≠ []
    · simp only [if_pos h2]
      cases hf : st.autP <;> rfl
    · simp only [if_neg h2]
      cases hf : st.autP
      · simp only [optOk, Option.bind_some, PState.flag, hf, applyItem, map_fst_neg1, Bool.false_eq_true, if_false]
      · simp only [optOk, Option.bind_some, PState.flag, hf, if_true]
  simp only [if_neg h1]
  by_cases h2 : ws.headD [] = kwOps
  · simp only [if_pos h2]
    cases hf : st.opsP <;> cases parseTokens ws.tail <;>
      simp only [optOk, Option.map_some, Option.map_none, Option.bind_some, Option.bind_none, PState.flag, hf, applyItem,
        Bool.false_eq_true, if_false, if_true]
  simp only [if_neg h2]
  by_cases h3 : ws.headD [] = kwStates
  · simp only [if_pos h3]
    cases hf : st.statesP <;> cases parseTokens ws.tail <;>
      simp only [optOk, Option.map_some, Option.map_none, Option.bind_some, Option.bind_none, PState.flag, hf, applyItem,
        Bool.false_eq_true, if_false, if_true]
  simp only [if_neg h3]
  by_cases h4 : ws.headD [] = kwFinal
  · simp only [if_pos h4]
    by_cases h5 : ws.tail.headD [] ≠ kwStates
    · simp only [if_pos h5]; rfl
    · simp only [if_neg h5]
      cases hf : st.finalP <;> cases parseTokens ws.tail.tail <;>
        simp only [optOk, Option.map_some, Option.map_none, Option.bind_some, Option.bind_none, PState.flag, hf, applyItem,
          Bool.false_eq_true, if_false, if_true]
  simp only [if_neg h4]; rfl

/-! ## the rule part -/

theorem foldl_addTrans_areTrans (rs : List Trans) : ∀ st : PState, (rs.foldl addTrans st).areTrans = st.areTrans := by
  induction rs with
  | nil => intro st; rfl
  | cons r rs ih => intro st; rw [List.foldl_cons, ih]; rfl

theorem parseLines_rules : ∀ (ls : List Str) (st : PState), st.areTrans = true →
    optOk (parseLines st ls) = (readRulePart ls).map (fun rs => rs.foldl addTrans st) := by
  intro ls
  induction ls with
  | nil => intro st _; rfl
  | cons l ls ih =>
    intro st ht
    rw [parseLines, readRulePart]
    by_cases hb : trim l = []
    · simp only [hb, if_true, isBlankLine, decide_true]
      exact ih st ht
    · simp only [hb, if_false, isBlankLine, decide_false, ht, if_true, Bool.false_eq_true]
      have hs := stepTrans_read st l l
      cases hr : readTransLine l with
      | none =>
        rw [hr] at hs
        cases hx : stepTrans st l (trim l) with
        | error e => rfl
        | ok s => rw [hx] at hs; cases hs
      | some r =>
        rw [hr] at hs
        cases hx : stepTrans st l (trim l) with
        | error e => rw [hx] at hs; cases hs
        | ok s =>
          rw [hx] at hs
          simp only [optOk, Option.map_some, Option.some.injEq] at hs
          subst hs
          simp only
          rw [ih _ (by exact ht)]
          cases readRulePart ls with
          | none => rfl
          | some rs => rfl

/-! ## the header part -/

/-- what the reader's result means for the parser started in `st` -/
def finishFrom (st : PState) (p : List (HKind × List (Str × Int)) × List Str) : Option PState :=
  (runItems st p.1).bind (fun st1 =>
    (readRulePart p.2).map (fun rs => rs.foldl addTrans { st1 with areTrans := true }))

theorem applyItem_areTrans (st : PState) (h : HKind × List (Str × Int)) : (applyItem st h).areTrans = st.areTrans := by
  unfold applyItem; split <;> rfl

theorem parseLines_hdrPart : ∀ (ls : List Str) (st : PState), st.areTrans = false →
    (optOk (parseLines st ls)).filter (·.areTrans) = (readHeaderPart ls).bind (finishFrom st) := by
  intro ls
  induction ls with
  | nil =>
    intro st ht
    simp [parseLines, optOk, readHeaderPart, ht]
  | cons l ls ih =>
    intro st ht
    rw [parseLines, readHeaderPart]
    by_cases hb : trim l = []
    · simp only [hb, if_true, isBlankLine, decide_true]
      exact ih st ht
    · simp only [hb, if_false, isBlankLine, decide_false, ht, Bool.false_eq_true]
      rw [stepHeader_eq_W]
      by_cases hT : (readWords (trim l)).headD [] = kwTransitions
      · -- the `Transitions` line
        have e : stepHeaderW st l (readWords (trim l)) = .ok { st with areTrans := true } := by
          unfold stepHeaderW; simp only [hT, if_true]
        simp only [e, isTransitionsLine, hT, decide_true, if_true]
        rw [parseLines_rules ls _ rfl]
        simp only [Option.bind_some, finishFrom, runItems]
        cases readRulePart ls with
        | none => rfl
        | some rs => simp [foldl_addTrans_areTrans]
      · simp only [isTransitionsLine, hT, decide_false, Bool.false_eq_true, if_false]
        have hs := stepHeaderW_read st l _ hT
        cases hr : readHeader (readWords (trim l)) with
        | none =>
          rw [hr] at hs
          cases hx : stepHeaderW st l (readWords (trim l)) with
          | error e => rfl
          | ok s => rw [hx] at hs; cases hs
        | some h =>
          rw [hr] at hs
          simp only [Option.bind_some] at hs
          cases hf : st.flag h.1
          · simp only [hf, Bool.false_eq_true, if_false] at hs
            cases hx : stepHeaderW st l (readWords (trim l)) with
            | error e => rw [hx] at hs; cases hs
            | ok s =>
              rw [hx] at hs
              simp only [optOk, Option.some.injEq] at hs
              subst hs
              simp only
              rw [ih _ (by rw [applyItem_areTrans]; exact ht)]
              cases readHeaderPart ls with
              | none => rfl
              | some p =>
                obtain ⟨hs', rest⟩ := p
                simp [finishFrom, runItems, hf]
          · simp only [hf, if_true] at hs
            cases hx : stepHeaderW st l (readWords (trim l)) with
            | ok s => rw [hx] at hs; cases hs
            | error e =>
              simp only [optOk, Option.filter]
              cases readHeaderPart ls with
              | none => rfl
              | some p =>
                obtain ⟨hs', rest⟩ := p
                simp [finishFrom, runItems, hf]

/-! ## the flags: at most once -/

theorem applyItem_flag (st : PState) (h : HKind × List (Str × Int)) (k : HKind) :
    (applyItem st h).flag k = (decide (k = h.1) || st.flag k) := by
  obtain ⟨k', ps⟩ := h
  cases k' <;> cases k <;> simp [applyItem, PState.flag]

theorem runItems_eq : ∀ (hs : List (HKind × List (Str × Int))) (st : PState),
    runItems st hs = if (hs.map (·.1)).Nodup ∧ ∀ h ∈ hs, st.flag h.1 = false then some (hs.foldl applyItem st) else none := by
  intro hs
  induction hs with
  | nil => intro st; simp [runItems]
  | cons h hs ih =>
    intro st
    rw [runItems]
    cases hf : st.flag h.1
    · simp only [Bool.false_eq_true, if_false, ih, List.foldl_cons]
      have key : ((hs.map (·.1)).Nodup ∧ ∀ x ∈ hs, (applyItem st h).flag x.1 = false) ↔
          (((h :: hs).map (·.1)).Nodup ∧ ∀ x ∈ h :: hs, st.flag x.1 = false) := by
        simp only [applyItem_flag, Bool.or_eq_false_iff, decide_eq_false_iff_not, List.map_cons, List.nodup_cons,
          List.mem_map, List.mem_cons, forall_eq_or_imp, hf, true_and]
        constructor
        · rintro ⟨h1, h2⟩
          refine ⟨⟨?_, h1⟩, fun x hx => (h2 x hx).2⟩
          rintro ⟨x, hx, e⟩
          exact (h2 x hx).1 e
        · rintro ⟨⟨h1, h2⟩, h3⟩
          exact ⟨h2, fun x hx => ⟨fun e => h1 ⟨x, hx, e⟩, h3 x hx⟩⟩
      by_cases hc : (hs.map (·.1)).Nodup ∧ ∀ x ∈ hs, (applyItem st h).flag x.1 = false
      · rw [if_pos hc, if_pos (key.mp hc)]
      · rw [if_neg hc, if_neg (fun h' => hc (key.mpr h'))]
    · simp only [if_true]
      rw [if_neg]
      rintro ⟨_, h2⟩
      have := h2 h List.mem_cons_self
      rw [hf] at this; cases this

/-! ## the description -/

theorem foldl_addTrans_d (rs : List Trans) : ∀ st : PState,
    (rs.foldl addTrans st).d = { st.d with trans := setInsertAll ltTrans st.d.trans rs } := by
  induction rs with
  | nil => intro st; rfl
  | cons r rs ih =>
    intro st
    rw [List.foldl_cons, ih]
    simp [addTrans, setInsertAll]

theorem setInsertAll_append {α : Type} [DecidableEq α] (lt : α → α → Bool) (acc a b : List α) :
    setInsertAll lt (setInsertAll lt acc a) b = setInsertAll lt acc (a ++ b) := by
  simp [setInsertAll, List.foldl_append]

theorem secToks_cons (h : HKind × List (Str × Int)) (hs : List (HKind × List (Str × Int))) (k : HKind) :
    secToks (h :: hs) k = (if h.1 = k then h.2 else []) ++ secToks hs k := by
  unfold secToks
  by_cases e : h.1 = k
  · simp [e]
  · simp [e]

/-- the name after the header items, started from the name `n` -/
def nameFrom (n : Str) (hs : List (HKind × List (Str × Int))) : Str :=
  hs.foldl (fun n h => if h.1 = .aut then (h.2.map (·.1)).headD [] else n) n

theorem foldl_applyItem_d : ∀ (hs : List (HKind × List (Str × Int))) (st : PState),
    (hs.foldl applyItem st).d =
      { name := nameFrom st.d.name hs
        symbols := setInsertAll ltSym st.d.symbols (secToks hs .ops)
        states := setInsertAll ltStr st.d.states ((secToks hs .states).map (·.1))
        final := setInsertAll ltStr st.d.final ((secToks hs .final).map (·.1))
        trans := st.d.trans } := by
  intro hs
  induction hs with
  | nil => intro st; simp [secToks, nameFrom, setInsertAll]
  | cons h hs ih =>
    intro st
    rw [List.foldl_cons, ih]
    obtain ⟨k, ps⟩ := h
    cases k <;>
      simp [applyItem, secToks_cons, nameFrom, List.map_append, setInsertAll]

/-! ## the whole -/

theorem optOk_eq_some {α : Type} {x : Except String α} {a : α} : optOk x = some a ↔ x = .ok a := by
  cases x <;> simp [optOk]

theorem optOk_parseC (t : Str) :
    optOk (parseC t) = ((optOk (parseLines {} (splitDelim '\n' t))).filter (·.areTrans)).map (·.d) := by
  unfold parseC
  cases parseLines {} (splitDelim '\n' t) with
  | error e => rfl
  | ok st =>
    simp only [optOk, Option.filter]
    by_cases ha : st.areTrans = true
    · simp only [if_pos ha]; rfl
    · simp only [if_neg ha]; rfl

theorem init_flag (k : HKind) : ({} : PState).flag k = false := by cases k <;> rfl

theorem finish_desc (hs : List (HKind × List (Str × Int))) (rs : List Trans) :
    (rs.foldl addTrans { hs.foldl applyItem {} with areTrans := true }).d = Reading.desc ⟨hs, rs⟩ := by
  rw [foldl_addTrans_d]
  simp only [foldl_applyItem_d]
  rfl

theorem finishFrom_init (ls : List Str) :
    ((readHeaderPart ls).bind (finishFrom {})).map (·.d) = (readLines ls).map Reading.desc := by
  unfold readLines
  cases readHeaderPart ls with
  | none => rfl
  | some p =>
    obtain ⟨hs, rest⟩ := p
    simp only [Option.bind_some, finishFrom, runItems_eq]
    by_cases hn : (hs.map (·.1)).Nodup
    · rw [if_pos ⟨hn, fun x _ => init_flag x.1⟩]
      cases readRulePart rest with
      | none => rfl
      | some rs =>
        simp only [Option.bind_some, Option.map_some, if_pos hn, finish_desc]
    · rw [if_neg (fun h' => hn h'.1)]
      cases readRulePart rest with
      | none => rfl
      | some rs => simp only [Option.bind_none, Option.map_none, if_neg hn]

/-- **the parser and the reader agree**: the parser succeeds exactly on the texts that have a reading, with the
description of the reading -/
theorem parseC_eq_read (t : Str) : optOk (parseC t) = (readText t).map Reading.desc := by
  rw [optOk_parseC, parseLines_hdrPart _ _ rfl, finishFrom_init]
  rfl

/-- the parser succeeds with `d` iff the text has a reading whose description is `d` -/
theorem parseC_ok_iff (t : Str) (d : Desc) : parseC t = .ok d ↔ ∃ R, readText t = some R ∧ d = R.desc := by
  rw [← optOk_eq_some, parseC_eq_read]
  cases readText t with
  | none => simp
  | some R => simp [eq_comm]

end Vata.Timbuk
