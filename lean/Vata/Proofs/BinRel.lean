import Vata.BinRel
import Vata.Proofs.ReduceModel
/-!
# Theorems about the model of `binary_relation.hh` (`Vata/BinRel.lean`)

The model is the C++ as coded: a flat vector of `rowSize²` cells, entry `(r, c)` in cell `r * rowSize + c`, `realloc`
copying row by row, the in-place loops of `split`, `transposed`, `RestrictToSymmetric`, ….  `WF m` is the class
invariant (`size ≤ rowSize`, `data.size = rowSize * rowSize`).  Main results (namespace `Vata.BinRel`):

* addressing: `addr_inj`, `cell_set`; `Mat.get_set` (`get (set m r c v) r' c' = if (r', c') = (r, c) then v else get m r' c'`).
* `Mat.realloc_spec`, `Mat.growRow_spec`, `Mat.get_resize_old` (every old entry survives), `Mat.get_resize_new` /
  `Mat.resize_grow` (beyond the capacity all new cells hold `defVal`), `Mat.resize_nogrow` (inside the capacity `data_`
  is untouched – nothing is promised for the new entries; `BinRelEx.stale1_shows_old_entry`, `stale2_all_true`).
* `Mat.alloc_spec`, `Mat.split_spec` (row and column copied as coded, diagonal bit, returned index).
* `Mat.mk'_spec`, `Mat.ofRows_spec` (constructors), `Mat.transposedInto_spec`, `Mat.transposedSelf_spec` (aliasing: NOT
  the transposed relation), `Mat.andWith_spec`, `Mat.andSelf_spec`.
* `Mat.buildIndex_spec`, `Mat.buildInvIndex_spec`, `Mat.buildIndex2_spec`: exactly the related columns / rows in
  increasing order, appended to what the output vector held.
* `Mat.restrictToSymmetric_refines` (the flat loops are `Vata.restrictToSymmetric` of `Vata/ReduceModel.lean` on the
  corner) and `Mat.restrictToSymmetric_spec` (= R ∩ R⁻¹).
* `Mat.quotProj_refines` (= `Vata.quotientProjectionIdx`), `Mat.quotProj_equiv` (least index of the class on an
  equivalence), `Mat.quotProj_general` (what it computes on any relation).
* `classes1_equiv`, `classes1_classes2`, `Mat.quotProj_eq_classes1`, `Ident.classes1_eq_range`, `Ident.classes2_eq_range`.
* the abstract model `ARel` (size, capacity, a function `Nat → Nat → Bool`), `Refines`, `step_refines`, and the history
  theorem `runC_refines` / `history`.
* `Disc.get_ofRel`, `Disc.quotProj_eq_projToMap` (refines `projToMap` of `Vata/ReduceModel.lean`).
* `Mat.isEquivB_iff`, `Mat.isSymEquivB_sound`: the Boolean tests `Driver/BinRelChk.lean` uses to decide whether a
  difference is a `violation` (theorem applies) or a `mismatch`.
-/
namespace Vata
namespace BinRel

/-! ## loops -/

theorem forN_zero {σ : Type} (f : Nat → σ → σ) (s : σ) : forN 0 f s = s := rfl

theorem forN_succ {σ : Type} (n : Nat) (f : Nat → σ → σ) (s : σ) : forN (n + 1) f s = f n (forN n f s) := by
  simp [forN, List.range_succ, List.foldl_append]

/-- loop invariant rule for `for (i = 0; i < n; ++i)` -/
theorem forN_ind {σ : Type} (P : Nat → σ → Prop) {n : Nat} {f : Nat → σ → σ} {s : σ} (h0 : P 0 s)
    (hs : ∀ i s, i < n → P i s → P (i + 1) (f i s)) : P n (forN n f s) := by
  have : ∀ k, k ≤ n → P k (forN k f s) := by
    intro k
    induction k with
    | zero => intro _; exact h0
    | succ k ih => intro hk; rw [forN_succ]; exact hs k _ (by omega) (ih (by omega))
  exact this n (Nat.le_refl _)

theorem forR_empty {σ : Type} {lo hi : Nat} (f : Nat → σ → σ) (s : σ) (h : hi ≤ lo) : forR lo hi f s = s := by
  have : hi - lo = 0 := by omega
  simp [forR, this]

theorem forR_succ {σ : Type} {lo hi : Nat} (f : Nat → σ → σ) (s : σ) (h : lo ≤ hi) :
    forR lo (hi + 1) f s = f hi (forR lo hi f s) := by
  have : hi + 1 - lo = (hi - lo) + 1 := by omega
  simp only [forR, this, List.range'_concat, List.foldl_append, List.foldl_cons, List.foldl_nil]
  have : lo + 1 * (hi - lo) = hi := by omega
  rw [this]

/-- loop invariant rule for `for (i = lo; i < hi; ++i)` -/
theorem forR_ind {σ : Type} (P : Nat → σ → Prop) {lo hi : Nat} {f : Nat → σ → σ} {s : σ} (hle : lo ≤ hi) (h0 : P lo s)
    (hs : ∀ i s, lo ≤ i → i < hi → P i s → P (i + 1) (f i s)) : P hi (forR lo hi f s) := by
  have : ∀ k, lo + k ≤ hi → P (lo + k) (forR lo (lo + k) f s) := by
    intro k
    induction k with
    | zero => intro _; rw [Nat.add_zero, forR_empty f s (Nat.le_refl _)]; exact h0
    | succ k ih =>
      intro hk
      rw [← Nat.add_assoc, forR_succ f s (by omega)]
      exact hs _ _ (by omega) (by omega) (ih (by omega))
  have h := this (hi - lo) (by omega)
  have e : lo + (hi - lo) = hi := by omega
  rw [e] at h
  exact h

/-- two folds step in a simulation -/
theorem foldl_sim {α β γ : Type} (R : α → β → Prop) (f : α → γ → α) (g : β → γ → β) :
    ∀ (l : List γ) (a : α) (b : β), (∀ a b x, x ∈ l → R a b → R (f a x) (g b x)) → R a b → R (l.foldl f a) (l.foldl g b)
  | [], _, _, _, h => h
  | x :: l, a, b, hs, h => by
    simp only [List.foldl_cons]
    exact foldl_sim R f g l _ _ (fun a b y hy => hs a b y (List.mem_cons_of_mem _ hy)) (hs a b x List.mem_cons_self h)

/-- the index pairs in the order of two nested loops `for i < n, for j < k` -/
def pairs (n k : Nat) : List (Nat × Nat) := (List.range n).flatMap (fun i => (List.range k).map (fun j => (i, j)))

theorem mem_pairs {n k : Nat} {p : Nat × Nat} : p ∈ pairs n k ↔ p.1 < n ∧ p.2 < k := by
  simp only [pairs, List.mem_flatMap, List.mem_map, List.mem_range]
  constructor
  · rintro ⟨i, hi, j, hj, e⟩; rw [← e]; exact ⟨hi, hj⟩
  · intro h; exact ⟨p.1, h.1, p.2, h.2, rfl⟩

/-- nested loops as one fold over the index pairs -/
theorem forN_forN {σ : Type} (n k : Nat) (f : Nat → Nat → σ → σ) (s : σ) :
    forN n (fun i s => forN k (fun j s => f i j s) s) s = (pairs n k).foldl (fun s p => f p.1 p.2 s) s := by
  simp only [forN, pairs, List.foldl_flatMap, List.foldl_map]

theorem nodup_pairs (n k : Nat) : (pairs n k).Nodup := by
  unfold pairs List.Nodup
  rw [List.pairwise_flatMap]
  refine ⟨?_, ?_⟩
  · intro i _
    rw [List.pairwise_map]
    apply List.Pairwise.imp _ (List.nodup_range (n := k))
    intro a b hab e
    exact hab (congrArg Prod.snd e)
  · apply List.Pairwise.imp _ (List.nodup_range (n := n))
    intro a b hab x hx1 y hx2 e
    simp only [List.mem_map] at hx1 hx2
    obtain ⟨_, _, e1⟩ := hx1
    obtain ⟨_, _, e2⟩ := hx2
    rw [← e1, ← e2] at e
    exact hab (congrArg Prod.fst e)

/-! ## addressing: entry `(r, c)` lives in cell `r * rowSize + c` -/

theorem addr_inj {rs r c r' c' : Nat} (hc : c < rs) (hc' : c' < rs) : r * rs + c = r' * rs + c' ↔ r = r' ∧ c = c' := by
  constructor
  · intro h
    have h1 := congrArg (· / rs) h
    have h2 := congrArg (· % rs) h
    have hp : 0 < rs := by omega
    simp only [Nat.mul_comm _ rs, Nat.mul_add_div hp, Nat.mul_add_mod, Nat.div_eq_of_lt hc, Nat.div_eq_of_lt hc',
      Nat.mod_eq_of_lt hc, Nat.mod_eq_of_lt hc', Nat.add_zero] at h1 h2
    exact ⟨h1, h2⟩
  · rintro ⟨rfl, rfl⟩; rfl

theorem addr_lt {rs r c : Nat} (hr : r < rs) (hc : c < rs) : r * rs + c < rs * rs := by
  have : (r + 1) * rs ≤ rs * rs := Nat.mul_le_mul_right rs hr
  rw [Nat.add_mul, Nat.one_mul] at this
  omega

/-- the cell of entry `(r, c)` in a flat vector with rows of `rs` cells -/
def cell (t : Array Bool) (rs r c : Nat) : Bool := t.getD (r * rs + c) false

theorem cell_set {t : Array Bool} {rs r c : Nat} {v : Bool} {r' c' : Nat} (hc : c < rs) (hc' : c' < rs)
    (hin : r * rs + c < t.size) :
    cell (t.setIfInBounds (r * rs + c) v) rs r' c' = if r' = r ∧ c' = c then v else cell t rs r' c' := by
  simp only [cell, Array.getD_eq_getD_getElem?, Array.getElem?_setIfInBounds]
  by_cases h : r' = r ∧ c' = c
  · obtain ⟨rfl, rfl⟩ := h
    simp [hin]
  · have : ¬ r * rs + c = r' * rs + c' := by
      intro e
      have := (addr_inj hc hc').mp e
      exact h ⟨this.1.symm, this.2.symm⟩
    simp [h, this]

theorem get_eq_cell (m : Mat) (r c : Nat) : m.get r c = cell m.data m.rowSize r c := rfl


/-! ## the class invariant, `get`, `set`, `reset` -/

/-- the invariant of the class: the corner fits into the capacity and `data_` has `rowSize_²` cells -/
def WF (m : Mat) : Prop := m.size ≤ m.rowSize ∧ m.data.size = m.rowSize * m.rowSize

namespace Mat

theorem wf_set {m : Mat} (h : WF m) (r c : Nat) (v : Bool) : WF (m.set r c v) := by
  refine ⟨h.1, ?_⟩
  simp only [set, Array.size_setIfInBounds]
  exact h.2

@[simp] theorem set_size (m : Mat) (r c : Nat) (v : Bool) : (m.set r c v).size = m.size := rfl
@[simp] theorem set_rowSize (m : Mat) (r c : Nat) (v : Bool) : (m.set r c v).rowSize = m.rowSize := rfl

/-- `get` after `set`, for every row and every column inside the capacity -/
theorem get_set_cap {m : Mat} (h : WF m) {r c : Nat} (hr : r < m.size) (hc : c < m.size) (v : Bool) (r' : Nat) {c' : Nat}
    (hc' : c' < m.rowSize) : (m.set r c v).get r' c' = if r' = r ∧ c' = c then v else m.get r' c' := by
  have hin : r * m.rowSize + c < m.data.size := by
    rw [h.2]; exact addr_lt (by have := h.1; omega) (by have := h.1; omega)
  exact cell_set (by have := h.1; omega) hc' hin

/-- **`get` after `set`** inside the bounds -/
theorem get_set {m : Mat} (h : WF m) {r c r' c' : Nat} (hr : r < m.size) (hc : c < m.size) (_hr' : r' < m.size)
    (hc' : c' < m.size) (v : Bool) : (m.set r c v).get r' c' = if (r', c') = (r, c) then v else m.get r' c' := by
  rw [get_set_cap h hr hc v r' (by have := h.1; omega)]
  simp only [Prod.mk.injEq]

theorem wf_reset {m : Mat} (h : WF m) (v : Bool) : WF (m.reset v) := by
  refine ⟨h.1, ?_⟩
  simp only [reset, Array.size_replicate]
  exact h.2

/-- `reset` fills the whole capacity -/
theorem get_reset {m : Mat} (h : WF m) (v : Bool) {r c : Nat} (hr : r < m.rowSize) (hc : c < m.rowSize) :
    (m.reset v).get r c = v := by
  have : r * m.rowSize + c < m.data.size := by rw [h.2]; exact addr_lt hr hc
  simp [get, reset, Array.getD_eq_getD_getElem?, this]

end Mat


/-! ## `realloc`, `grow`, `resize` -/

namespace Mat

theorem copyCells_spec (src : Array Bool) (rs nrs i n : Nat) (t : Array Bool) (hn : n ≤ nrs) (hi : i < nrs)
    (ht : t.size = nrs * nrs) :
    (copyCells src (i * rs) n t (i * nrs)).size = nrs * nrs ∧
    ∀ r c, c < nrs → cell (copyCells src (i * rs) n t (i * nrs)) nrs r c =
      if r = i ∧ c < n then cell src rs i c else cell t nrs r c := by
  unfold copyCells
  refine forN_ind (fun j t' => t'.size = nrs * nrs ∧ ∀ r c, c < nrs → cell t' nrs r c =
      if r = i ∧ c < j then cell src rs i c else cell t nrs r c) ⟨ht, fun r c _ => by simp⟩ ?_
  intro j t' hj ⟨h1, h2⟩
  refine ⟨by rw [Array.size_setIfInBounds]; exact h1, ?_⟩
  intro r c hc
  have hin : i * nrs + j < t'.size := by rw [h1]; exact addr_lt hi (by omega)
  rw [cell_set (by omega) hc hin, h2 r c hc]
  by_cases hr : r = i
  · subst hr
    by_cases hcj : c = j
    · subst hcj; simp [cell]
    · have e : (c < j + 1) = (c < j) := by apply propext; omega
      simp [hcj, e]
  · simp [hr]

theorem cell_replicate {k rs r c : Nat} {d : Bool} (h : r * rs + c < k) : cell (Array.replicate k d) rs r c = d := by
  simp [cell, Array.getD_eq_getD_getElem?, h]

/-- `realloc`: a fresh `nrs × nrs` vector filled with `d`, the old corner copied row by row -/
theorem realloc_spec {m : Mat} (nrs : Nat) (d : Bool) (hn : m.size ≤ nrs) :
    (m.realloc nrs d).rowSize = nrs ∧ (m.realloc nrs d).size = m.size ∧ (m.realloc nrs d).data.size = nrs * nrs ∧
    ∀ r c, r < nrs → c < nrs → (m.realloc nrs d).get r c = if r < m.size ∧ c < m.size then m.get r c else d := by
  have key : (fun (st : Array Bool × Nat × Nat) => st.2.1 = m.size * m.rowSize ∧ st.2.2 = m.size * nrs ∧
      st.1.size = nrs * nrs ∧ ∀ r c, r < nrs → c < nrs →
        cell st.1 nrs r c = if r < m.size ∧ c < m.size then cell m.data m.rowSize r c else d)
      (forN m.size (fun _ (st : Array Bool × Nat × Nat) =>
        (copyCells m.data st.2.1 m.size st.1 st.2.2, st.2.1 + m.rowSize, st.2.2 + nrs)) (Array.replicate (nrs * nrs) d, 0, 0)) := by
    refine forN_ind (fun i (st : Array Bool × Nat × Nat) => st.2.1 = i * m.rowSize ∧ st.2.2 = i * nrs ∧
      st.1.size = nrs * nrs ∧ ∀ r c, r < nrs → c < nrs →
        cell st.1 nrs r c = if r < i ∧ c < m.size then cell m.data m.rowSize r c else d) ?_ ?_
    · refine ⟨by simp, by simp, by simp, ?_⟩
      intro r c hr hc
      rw [cell_replicate (addr_lt hr hc)]
      simp
    · intro i st hi ⟨h1, h2, h3, h4⟩
      obtain ⟨c1, c2⟩ := copyCells_spec m.data m.rowSize nrs i m.size st.1 hn (by omega) h3
      refine ⟨by simp only [h1, Nat.add_mul, Nat.one_mul], by simp only [h2, Nat.add_mul, Nat.one_mul], ?_, ?_⟩
      · simp only [h1, h2]; exact c1
      · intro r c hr hc
        simp only [h1, h2]
        rw [c2 r c hc, h4 r c hr hc]
        by_cases hri : r = i
        · subst hri
          by_cases hcn : c < m.size
          · simp [hcn]
          · simp [hcn]
        · have e : (r < i + 1) = (r < i) := by apply propext; omega
          simp [hri, e]
  refine ⟨rfl, rfl, key.2.2.1, ?_⟩
  intro r c hr hc
  exact key.2.2.2 r c hr hc

theorem growRow_of_lt {rs n : Nat} (h : n < rs) : growRow rs n = rs := by
  unfold growRow growRowF
  rw [if_neg (by omega)]

theorem growRow_zero (n : Nat) : growRow 0 n = 0 := by
  unfold growRow growRowF
  rw [if_neg (by omega)]

theorem growRowF_spec (n : Nat) : ∀ (f rs : Nat), 0 < rs → n < rs * 2 ^ f → n < growRowF f rs n ∧ rs ≤ growRowF f rs n
  | 0, rs, _, h => by
    unfold growRowF
    simp at h
    exact ⟨h, Nat.le_refl _⟩
  | f + 1, rs, hp, h => by
    unfold growRowF
    by_cases hc : 0 < rs ∧ rs ≤ n
    · rw [if_pos hc]
      have e : rs <<< 1 = rs * 2 := by rw [Nat.shiftLeft_eq]
      rw [e]
      have := growRowF_spec n f (rs * 2) (by omega) (by rw [Nat.mul_assoc, ← Nat.pow_succ']; exact h)
      exact ⟨this.1, by omega⟩
    · rw [if_neg hc]
      omega

/-- the doubling loop ends strictly above the requested size and never shrinks -/
theorem growRow_spec (rs n : Nat) (hp : 0 < rs) : n < growRow rs n ∧ rs ≤ growRow rs n := by
  unfold growRow
  apply growRowF_spec n (n + 1) rs hp
  have h1 : n < 2 ^ (n + 1) := by
    have := Nat.lt_two_pow_self (n := n + 1)
    omega
  calc n < 2 ^ (n + 1) := h1
    _ = 1 * 2 ^ (n + 1) := by rw [Nat.one_mul]
    _ ≤ rs * 2 ^ (n + 1) := Nat.mul_le_mul_right _ hp

theorem wf_realloc {m : Mat} {nrs : Nat} (d : Bool) (hn : m.size ≤ nrs) : WF (m.realloc nrs d) := by
  obtain ⟨h1, h2, h3, _⟩ := realloc_spec (m := m) nrs d hn
  exact ⟨by rw [h1, h2]; exact hn, by rw [h1, h3]⟩

/-- `grow(newSize, defVal)` from a positive capacity that is at most `newSize` -/
theorem grow_spec {m : Mat} (h : WF m) (hp : 0 < m.rowSize) (n : Nat) (d : Bool) :
    WF (m.grow n d) ∧ n < (m.grow n d).rowSize ∧ m.rowSize ≤ (m.grow n d).rowSize ∧ (m.grow n d).size = m.size ∧
    (m.grow n d).rowSize = growRow m.rowSize n ∧
    ∀ r c, r < (m.grow n d).rowSize → c < (m.grow n d).rowSize →
      (m.grow n d).get r c = if r < m.size ∧ c < m.size then m.get r c else d := by
  obtain ⟨g1, g2⟩ := growRow_spec m.rowSize n hp
  have hn : m.size ≤ growRow m.rowSize n := by have := h.1; omega
  obtain ⟨h1, h2, _, h4⟩ := realloc_spec (m := m) (growRow m.rowSize n) d hn
  refine ⟨wf_realloc d hn, ?_, ?_, h2, h1, ?_⟩
  · unfold grow; rw [h1]; exact g1
  · unfold grow; rw [h1]; exact g2
  · intro r c hr hc
    unfold grow at hr hc ⊢
    rw [h1] at hr hc
    exact h4 r c hr hc

@[simp] theorem resize_size (m : Mat) (n : Nat) (d : Bool) : (m.resize n d).size = n := rfl

/-- `resize` inside the capacity only moves `size_`: `data_` is not touched, new entries are NOT initialised -/
theorem resize_nogrow {m : Mat} {n : Nat} (d : Bool) (hn : n ≤ m.rowSize) : m.resize n d = { m with size := n } := by
  unfold resize
  rw [if_neg (by omega)]

/-- … so every cell reads as before, whatever `defVal` is -/
theorem get_resize_nogrow {m : Mat} {n : Nat} (d : Bool) (hn : n ≤ m.rowSize) (r c : Nat) :
    (m.resize n d).get r c = m.get r c := by
  rw [resize_nogrow d hn]; rfl

/-- `resize` beyond the capacity: the old corner is kept, every other cell of the new capacity holds `defVal` -/
theorem resize_grow {m : Mat} (h : WF m) (hp : 0 < m.rowSize) {n : Nat} (d : Bool) (hn : m.rowSize < n) :
    (m.resize n d).rowSize = growRow m.rowSize n ∧ n < (m.resize n d).rowSize ∧
    ∀ r c, r < (m.resize n d).rowSize → c < (m.resize n d).rowSize →
      (m.resize n d).get r c = if r < m.size ∧ c < m.size then m.get r c else d := by
  obtain ⟨_, g2, _, _, g5, g6⟩ := grow_spec h hp n d
  unfold resize
  rw [if_pos hn]
  exact ⟨g5, g2, g6⟩

theorem wf_resize {m : Mat} (h : WF m) (hp : 0 < m.rowSize) (n : Nat) (d : Bool) :
    WF (m.resize n d) ∧ 0 < (m.resize n d).rowSize := by
  by_cases hn : m.rowSize < n
  · obtain ⟨g1, g2, g3, _⟩ := grow_spec h hp n d
    unfold resize
    rw [if_pos hn]
    exact ⟨⟨by show n ≤ (m.grow n d).rowSize; omega, g1.2⟩, by show 0 < (m.grow n d).rowSize; omega⟩
  · rw [resize_nogrow d (by omega)]
    exact ⟨⟨by show n ≤ m.rowSize; omega, h.2⟩, hp⟩

/-- **`resize` keeps every old entry** (growing or not, enlarging or shrinking) -/
theorem get_resize_old {m : Mat} (h : WF m) (hp : 0 < m.rowSize) (n : Nat) (d : Bool) {r c : Nat} (hr : r < m.size)
    (hc : c < m.size) : (m.resize n d).get r c = m.get r c := by
  by_cases hn : m.rowSize < n
  · obtain ⟨_, g2, g3⟩ := resize_grow h hp d hn
    have := h.1
    rw [g3 r c (by omega) (by omega), if_pos ⟨hr, hc⟩]
  · exact get_resize_nogrow d (by omega) r c

/-- **new entries after a reallocating `resize`** hold `defVal` -/
theorem get_resize_new {m : Mat} (h : WF m) (hp : 0 < m.rowSize) {n : Nat} (d : Bool) (hn : m.rowSize < n) {r c : Nat}
    (hr : r < n) (hc : c < n) (hnew : m.size ≤ r ∨ m.size ≤ c) : (m.resize n d).get r c = d := by
  obtain ⟨_, g2, g3⟩ := resize_grow h hp d hn
  rw [g3 r c (by omega) (by omega), if_neg (by omega)]

end Mat


/-! ## `alloc`, `split` -/

namespace Mat

/-- the prologue `if (size_ >= rowSize_) grow(size_ + 1)`: afterwards there is room for one more row and column -/
theorem ensure_spec {m : Mat} (h : WF m) (hp : 0 < m.rowSize) :
    WF m.ensure ∧ 0 < m.ensure.rowSize ∧ m.ensure.size = m.size ∧ m.size < m.ensure.rowSize ∧
    (m.size < m.rowSize → m.ensure = m) ∧
    (m.rowSize ≤ m.size → m.ensure.rowSize = growRow m.rowSize (m.size + 1) ∧
      ∀ r c, r < m.ensure.rowSize → c < m.ensure.rowSize →
        m.ensure.get r c = if r < m.size ∧ c < m.size then m.get r c else false) := by
  unfold ensure
  by_cases hg : m.size ≥ m.rowSize
  · rw [if_pos hg]
    obtain ⟨g1, g2, g3, g4, g5, g6⟩ := grow_spec h hp (m.size + 1) false
    exact ⟨g1, by omega, g4, by omega, fun hh => by omega, fun _ => ⟨g5, g6⟩⟩
  · rw [if_neg hg]
    exact ⟨h, hp, rfl, by omega, fun _ => rfl, fun hh => by omega⟩

/-- **`alloc`**: returns the old size, the relation has one more element, old entries are kept; the new row and column are
`false` when the capacity had to grow and otherwise whatever the cells held -/
theorem alloc_spec {m : Mat} (h : WF m) (hp : 0 < m.rowSize) :
    m.alloc.2 = m.size ∧ m.alloc.1.size = m.size + 1 ∧ WF m.alloc.1 ∧ 0 < m.alloc.1.rowSize ∧
    (∀ r c, r < m.size → c < m.size → m.alloc.1.get r c = m.get r c) ∧
    (m.size < m.rowSize → m.alloc.1 = { m with size := m.size + 1 }) ∧
    (m.rowSize ≤ m.size → ∀ r c, r < m.alloc.1.rowSize → c < m.alloc.1.rowSize →
      m.alloc.1.get r c = if r < m.size ∧ c < m.size then m.get r c else false) := by
  obtain ⟨e1, e2, e3, e4, e5, e6⟩ := ensure_spec h hp
  refine ⟨e3, by show m.ensure.size + 1 = _; rw [e3], ⟨by show m.ensure.size + 1 ≤ m.ensure.rowSize; omega, e1.2⟩, e2, ?_, ?_, ?_⟩
  · intro r c hr hc
    show m.ensure.get r c = _
    by_cases hg : m.size < m.rowSize
    · rw [e5 hg]
    · rw [(e6 (by omega)).2 r c (by omega) (by omega), if_pos ⟨hr, hc⟩]
  · intro hg
    show ({ m.ensure with size := m.ensure.size + 1 } : Mat) = _
    rw [e5 hg]
  · intro hg r c hr hc
    exact (e6 hg).2 r c hr hc

/-- the in-place part of `split` when there is room: the new column `n` copies column `i`, the new row `n` copies row
`i`, the new diagonal entry is `reflexive`; every other cell of the capacity is untouched -/
theorem splitCore_spec {m : Mat} (h : WF m) (hroom : m.size < m.rowSize) {i : Nat} (hi : i < m.size) (refl : Bool) :
    (m.splitCore i refl).2 = m.size ∧ (m.splitCore i refl).1.size = m.size + 1 ∧
    (m.splitCore i refl).1.rowSize = m.rowSize ∧ WF (m.splitCore i refl).1 ∧
    ∀ r c, c < m.rowSize → (m.splitCore i refl).1.get r c =
      if r = m.size ∧ c = m.size then refl
      else if r = m.size ∧ c < m.size then m.get i c
      else if c = m.size ∧ r < m.size then m.get r i
      else m.get r c := by
  -- the column loop
  have hd1 : (fun t : Array Bool => t.size = m.rowSize * m.rowSize ∧ ∀ r c, c < m.rowSize →
      cell t m.rowSize r c = if c = m.size ∧ r < m.size then m.get r i else m.get r c)
      (forN m.size (fun r t => t.setIfInBounds (r * m.rowSize + m.size) (t.getD (r * m.rowSize + i) false)) m.data) := by
    refine forN_ind (fun r0 t => t.size = m.rowSize * m.rowSize ∧ ∀ r c, c < m.rowSize →
      cell t m.rowSize r c = if c = m.size ∧ r < r0 then m.get r i else m.get r c) ⟨h.2, fun r c _ => by simp [get_eq_cell]⟩ ?_
    intro r0 t hr0 ⟨t1, t2⟩
    refine ⟨by rw [Array.size_setIfInBounds]; exact t1, ?_⟩
    intro r c hc
    have hin : r0 * m.rowSize + m.size < t.size := by rw [t1]; exact addr_lt (by omega) hroom
    rw [cell_set hroom hc hin, t2 r c hc]
    have hread : t.getD (r0 * m.rowSize + i) false = m.get r0 i := by
      have := t2 r0 i (by omega)
      rw [if_neg (by omega)] at this
      exact this
    rw [hread]
    by_cases hrc : r = r0 ∧ c = m.size
    · obtain ⟨rfl, rfl⟩ := hrc
      simp
    · rw [if_neg hrc]
      by_cases hcn : c = m.size
      · have hne : r ≠ r0 := fun e => hrc ⟨e, hcn⟩
        have e : (r < r0 + 1) = (r < r0) := by apply propext; omega
        simp [hcn, e]
      · simp [hcn]
  obtain ⟨s1, c1⟩ := hd1
  -- the row copy
  have hd2 : (fun t : Array Bool => t.size = m.rowSize * m.rowSize ∧ ∀ r c, c < m.rowSize →
      cell t m.rowSize r c = if r = m.size ∧ c < m.size then m.get i c
        else if c = m.size ∧ r < m.size then m.get r i else m.get r c)
      (forN m.size (fun c t => t.setIfInBounds (m.size * m.rowSize + c) (t.getD (i * m.rowSize + c) false))
        (forN m.size (fun r t => t.setIfInBounds (r * m.rowSize + m.size) (t.getD (r * m.rowSize + i) false)) m.data)) := by
    refine forN_ind (fun c0 t => t.size = m.rowSize * m.rowSize ∧ ∀ r c, c < m.rowSize →
      cell t m.rowSize r c = if r = m.size ∧ c < c0 then m.get i c
        else if c = m.size ∧ r < m.size then m.get r i else m.get r c) ⟨s1, fun r c hc => by rw [c1 r c hc]; simp⟩ ?_
    intro c0 t hc0 ⟨t1, t2⟩
    refine ⟨by rw [Array.size_setIfInBounds]; exact t1, ?_⟩
    intro r c hc
    have hin : m.size * m.rowSize + c0 < t.size := by rw [t1]; exact addr_lt hroom (by omega)
    rw [cell_set (by omega) hc hin, t2 r c hc]
    have hread : t.getD (i * m.rowSize + c0) false = m.get i c0 := by
      have := t2 i c0 (by omega)
      rw [if_neg (by omega), if_neg (by omega)] at this
      exact this
    rw [hread]
    by_cases hrc : r = m.size ∧ c = c0
    · obtain ⟨rfl, rfl⟩ := hrc
      simp
    · rw [if_neg hrc]
      by_cases hrn : r = m.size
      · have hne : c ≠ c0 := fun e => hrc ⟨hrn, e⟩
        have e : (c < c0 + 1) = (c < c0) := by apply propext; omega
        simp [hrn, e]
      · simp [hrn]
  obtain ⟨s2, c2⟩ := hd2
  refine ⟨rfl, rfl, rfl, ⟨by show m.size + 1 ≤ m.rowSize; omega, ?_⟩, ?_⟩
  · show (Array.setIfInBounds _ _ _).size = _
    rw [Array.size_setIfInBounds]; exact s2
  · intro r c hc
    show cell (Array.setIfInBounds _ _ _) m.rowSize r c = _
    have hin : m.size * m.rowSize + m.size < (forN m.size
        (fun c t => t.setIfInBounds (m.size * m.rowSize + c) (t.getD (i * m.rowSize + c) false))
        (forN m.size (fun r t => t.setIfInBounds (r * m.rowSize + m.size) (t.getD (r * m.rowSize + i) false)) m.data)).size := by
      rw [s2]; exact addr_lt hroom hroom
    rw [cell_set hroom hc hin, c2 r c hc]

/-- **`split(i, reflexive)`** inside the bounds: the new element `n = size` is a copy of `i` (row and column), its
diagonal entry is `reflexive`, all old entries are kept; the function returns `n` -/
theorem split_spec {m : Mat} (h : WF m) (hp : 0 < m.rowSize) {i : Nat} (hi : i < m.size) (refl : Bool) :
    (m.split i refl).2 = m.size ∧ (m.split i refl).1.size = m.size + 1 ∧ WF (m.split i refl).1 ∧
    0 < (m.split i refl).1.rowSize ∧
    ∀ r c, r ≤ m.size → c ≤ m.size → (m.split i refl).1.get r c =
      if r = m.size ∧ c = m.size then refl
      else m.get (if r = m.size then i else r) (if c = m.size then i else c) := by
  obtain ⟨e1, e2, e3, e4, e5, e6⟩ := ensure_spec h hp
  obtain ⟨k1, k2, k3, k4, k5⟩ := splitCore_spec e1 (by omega) (i := i) (by omega) refl
  have hold : ∀ r c, r < m.size → c < m.size → m.ensure.get r c = m.get r c := by
    intro r c hr hc
    by_cases hg : m.size < m.rowSize
    · rw [e5 hg]
    · rw [(e6 (by omega)).2 r c (by omega) (by omega), if_pos ⟨hr, hc⟩]
  unfold split
  refine ⟨by rw [k1, e3], by rw [k2, e3], k4, by rw [k3]; exact e2, ?_⟩
  intro r c hr hc
  rw [k5 r c (by omega), e3]
  by_cases h1 : r = m.size ∧ c = m.size
  · rw [if_pos h1, if_pos h1]
  · rw [if_neg h1, if_neg h1]
    by_cases hr' : r = m.size
    · have hcn : c < m.size := by omega
      rw [if_pos ⟨hr', hcn⟩, if_pos hr', if_neg (by omega), hold i c hi hcn]
    · rw [if_neg (fun hh => hr' hh.1), if_neg hr']
      have hrn : r < m.size := by omega
      by_cases hc' : c = m.size
      · rw [if_pos ⟨hc', hrn⟩, if_pos hc', hold r i hrn hi]
      · rw [if_neg (fun hh => hc' hh.1), if_neg hc', hold r c hrn (by omega)]

end Mat


/-! ## runs of `set`: the constructors, `transposed`, `operator&=` -/

namespace Mat

/-- a run of `set`s whose value depends on the target entry only: the last write wins, so it does not matter how often
an entry is written -/
theorem foldl_set_fun (g : Nat → Nat → Bool) : ∀ (cs : List (Nat × Nat)) (m : Mat), WF m →
    (∀ p, p ∈ cs → p.1 < m.size ∧ p.2 < m.size) →
    (cs.foldl (fun m p => m.set p.1 p.2 (g p.1 p.2)) m).size = m.size ∧
    (cs.foldl (fun m p => m.set p.1 p.2 (g p.1 p.2)) m).rowSize = m.rowSize ∧
    WF (cs.foldl (fun m p => m.set p.1 p.2 (g p.1 p.2)) m) ∧
    ∀ r c, c < m.rowSize →
      (cs.foldl (fun m p => m.set p.1 p.2 (g p.1 p.2)) m).get r c = if (r, c) ∈ cs then g r c else m.get r c
  | [], m, h, _ => ⟨rfl, rfl, h, fun r c _ => by simp⟩
  | p :: cs, m, h, hb => by
    have hp := hb p List.mem_cons_self
    obtain ⟨i1, i2, i3, i4⟩ := foldl_set_fun g cs (m.set p.1 p.2 (g p.1 p.2)) (wf_set h _ _ _)
      (fun q hq => hb q (List.mem_cons_of_mem _ hq))
    simp only [List.foldl_cons]
    refine ⟨i1, i2, i3, ?_⟩
    intro r c hc
    rw [i4 r c hc, get_set_cap h hp.1 hp.2 _ r hc]
    by_cases hin : (r, c) ∈ cs
    · simp [hin]
    · by_cases he : r = p.1 ∧ c = p.2
      · simp [he]
      · have : ¬ (r, c) = p := fun e => he ⟨by rw [← e], by rw [← e]⟩
        simp [hin, he, this]

/-- a run of `set`s over distinct entries, each value computed from the entry's own current value -/
theorem foldl_set_own (g : Nat → Nat → Bool → Bool) : ∀ (cs : List (Nat × Nat)) (m : Mat), WF m → cs.Nodup →
    (∀ p, p ∈ cs → p.1 < m.size ∧ p.2 < m.size) →
    (cs.foldl (fun m p => m.set p.1 p.2 (g p.1 p.2 (m.get p.1 p.2))) m).size = m.size ∧
    (cs.foldl (fun m p => m.set p.1 p.2 (g p.1 p.2 (m.get p.1 p.2))) m).rowSize = m.rowSize ∧
    WF (cs.foldl (fun m p => m.set p.1 p.2 (g p.1 p.2 (m.get p.1 p.2))) m) ∧
    ∀ r c, c < m.rowSize →
      (cs.foldl (fun m p => m.set p.1 p.2 (g p.1 p.2 (m.get p.1 p.2))) m).get r c =
        if (r, c) ∈ cs then g r c (m.get r c) else m.get r c
  | [], m, h, _, _ => ⟨rfl, rfl, h, fun r c _ => by simp⟩
  | p :: cs, m, h, hnd, hb => by
    have hp := hb p List.mem_cons_self
    obtain ⟨hpn, hnd'⟩ := List.nodup_cons.mp hnd
    obtain ⟨i1, i2, i3, i4⟩ := foldl_set_own g cs (m.set p.1 p.2 (g p.1 p.2 (m.get p.1 p.2))) (wf_set h _ _ _) hnd'
      (fun q hq => hb q (List.mem_cons_of_mem _ hq))
    simp only [List.foldl_cons]
    refine ⟨i1, i2, i3, ?_⟩
    intro r c hc
    rw [i4 r c hc, get_set_cap h hp.1 hp.2 _ r hc]
    by_cases hin : (r, c) ∈ cs
    · have : ¬ (r = p.1 ∧ c = p.2) := by
        rintro ⟨e1, e2⟩
        apply hpn
        have : p = (r, c) := by rw [e1, e2]
        rw [this]; exact hin
      simp [hin, this]
    · by_cases he : r = p.1 ∧ c = p.2
      · obtain ⟨e1, e2⟩ := he
        subst e1 e2
        rw [if_neg hin, if_pos ⟨rfl, rfl⟩, if_pos List.mem_cons_self]
      · have : ¬ (r, c) = p := fun e => he ⟨by rw [← e], by rw [← e]⟩
        simp [hin, he, this]

/-- **the constructor** `BinaryRelation(size, defVal, rowSize)`: every cell of the capacity holds `defVal` -/
theorem mk'_spec (size : Nat) (d : Bool) {rs : Nat} (hp : 0 < rs) :
    WF (mk' size d rs) ∧ 0 < (mk' size d rs).rowSize ∧ (mk' size d rs).size = size ∧
    (mk' size d rs).rowSize = (if rs < size then growRow rs size else rs) ∧
    ∀ r c, r < (mk' size d rs).rowSize → c < (mk' size d rs).rowSize → (mk' size d rs).get r c = d := by
  have h0 : WF ({ data := Array.replicate (rs * rs) d, rowSize := rs, size := 0 } : Mat) := ⟨Nat.zero_le _, by simp⟩
  have hget0 : ∀ r c, r < rs → c < rs →
      ({ data := Array.replicate (rs * rs) d, rowSize := rs, size := 0 } : Mat).get r c = d := by
    intro r c hr hc
    exact cell_replicate (addr_lt hr hc)
  obtain ⟨w1, w2⟩ := wf_resize h0 hp size d
  refine ⟨w1, w2, rfl, ?_, ?_⟩
  · by_cases hg : rs < size
    · rw [if_pos hg]; exact (resize_grow h0 hp d hg).1
    · rw [if_neg hg]; unfold mk'; rw [resize_nogrow d (by show size ≤ rs; omega)]
  · intro r c hr hc
    unfold mk' at hr hc ⊢
    by_cases hg : rs < size
    · rw [(resize_grow h0 hp d hg).2.2 r c hr hc]
      simp
    · rw [resize_nogrow d (by show size ≤ rs; omega)] at hr hc ⊢
      exact hget0 r c hr hc

/-- **the constructor from a vector of rows**: the corner is the given square matrix -/
theorem ofRows_spec (rows : List (List Bool)) :
    WF (ofRows rows) ∧ 0 < (ofRows rows).rowSize ∧ (ofRows rows).size = rows.length ∧
    ∀ r c, r < rows.length → c < rows.length → (ofRows rows).get r c = (rows.getD r []).getD c false := by
  obtain ⟨w1, w2, w3, _, _⟩ := mk'_spec 0 false (rs := 16) (by omega)
  obtain ⟨v1, v2⟩ := wf_resize w1 w2 rows.length false
  have hb : ∀ p, p ∈ pairs rows.length rows.length →
      p.1 < ((mk' 0 false 16).resize rows.length false).size ∧ p.2 < ((mk' 0 false 16).resize rows.length false).size :=
    fun p hp => mem_pairs.mp hp
  obtain ⟨i1, i2, i3, i4⟩ := foldl_set_fun (fun r c => (rows.getD r []).getD c false) (pairs rows.length rows.length)
    ((mk' 0 false 16).resize rows.length false) v1 hb
  unfold ofRows
  rw [forN_forN]
  refine ⟨i3, by rw [i2]; exact v2, i1, ?_⟩
  intro r c hr hc
  rw [i4 r c (by have := v1.1; rw [resize_size] at this; omega), if_pos (mem_pairs.mpr ⟨hr, hc⟩)]

/-- **`transposed(dst)`** into another object: `dst` is resized (with the rules of `resize`) and its corner becomes the
transposed corner of `*this`; `*this` is a value here, so it is unchanged -/
theorem transposedInto_spec {m dst : Mat} (hd : WF dst) (hp : 0 < dst.rowSize) :
    (m.transposedInto dst).size = m.size ∧ (m.transposedInto dst).rowSize = (dst.resize m.size false).rowSize ∧
    WF (m.transposedInto dst) ∧ 0 < (m.transposedInto dst).rowSize ∧
    ∀ r c, c < (m.transposedInto dst).rowSize → (m.transposedInto dst).get r c =
      if r < m.size ∧ c < m.size then m.get c r else (dst.resize m.size false).get r c := by
  obtain ⟨v1, v2⟩ := wf_resize hd hp m.size false
  have hb : ∀ p, p ∈ (pairs m.size m.size).map (fun p => (p.2, p.1)) →
      p.1 < (dst.resize m.size false).size ∧ p.2 < (dst.resize m.size false).size := by
    intro p hp
    obtain ⟨q, hq, e⟩ := List.mem_map.mp hp
    have := mem_pairs.mp hq
    rw [← e]; exact ⟨this.2, this.1⟩
  obtain ⟨i1, i2, i3, i4⟩ := foldl_set_fun (fun r c => m.get c r) ((pairs m.size m.size).map (fun p => (p.2, p.1)))
    (dst.resize m.size false) v1 hb
  have e : m.transposedInto dst = ((pairs m.size m.size).map (fun p => (p.2, p.1))).foldl
      (fun d p => d.set p.1 p.2 (m.get p.2 p.1)) (dst.resize m.size false) := by
    unfold transposedInto
    rw [forN_forN, List.foldl_map]
  rw [e]
  refine ⟨i1, i2, i3, by rw [i2]; exact v2, ?_⟩
  intro r c hc
  rw [i2] at hc
  rw [i4 r c hc]
  have : ((r, c) ∈ (pairs m.size m.size).map (fun p => (p.2, p.1))) = (r < m.size ∧ c < m.size) := by
    apply propext
    constructor
    · intro hh
      obtain ⟨q, hq, e⟩ := List.mem_map.mp hh
      have := mem_pairs.mp hq
      rw [Prod.mk.injEq] at e
      rw [← e.1, ← e.2]; exact ⟨this.2, this.1⟩
    · intro hh
      exact List.mem_map.mpr ⟨(c, r), mem_pairs.mpr ⟨hh.2, hh.1⟩, rfl⟩
  simp only [this]

/-- **`operator&=`** with another object -/
theorem andWith_spec {m : Mat} (h : WF m) (rhs : Mat) :
    (m.andWith rhs).size = m.size ∧ (m.andWith rhs).rowSize = m.rowSize ∧ WF (m.andWith rhs) ∧
    ∀ r c, c < m.rowSize → (m.andWith rhs).get r c =
      if r < m.size ∧ c < m.size then (m.get r c && rhs.get r c) else m.get r c := by
  obtain ⟨i1, i2, i3, i4⟩ := foldl_set_own (fun r c b => b && rhs.get r c) (pairs m.size m.size) m h (nodup_pairs _ _)
    (fun p hp => mem_pairs.mp hp)
  have e : m.andWith rhs = (pairs m.size m.size).foldl
      (fun m' p => m'.set p.1 p.2 (m'.get p.1 p.2 && rhs.get p.1 p.2)) m := by
    unfold andWith
    simp only []
    rw [forN_forN]
  rw [e]
  refine ⟨i1, i2, i3, ?_⟩
  intro r c hc
  rw [i4 r c hc]
  have : ((r, c) ∈ pairs m.size m.size) = (r < m.size ∧ c < m.size) := propext mem_pairs
  simp only [this]

/-- `r &= r` leaves every cell as it is -/
theorem andSelf_spec {m : Mat} (h : WF m) :
    (m.andSelf).size = m.size ∧ (m.andSelf).rowSize = m.rowSize ∧ WF m.andSelf ∧
    ∀ r c, c < m.rowSize → m.andSelf.get r c = m.get r c := by
  obtain ⟨i1, i2, i3, i4⟩ := foldl_set_own (fun _ _ b => b && b) (pairs m.size m.size) m h (nodup_pairs _ _)
    (fun p hp => mem_pairs.mp hp)
  have e : m.andSelf = (pairs m.size m.size).foldl
      (fun m' p => m'.set p.1 p.2 (m'.get p.1 p.2 && m'.get p.1 p.2)) m := by
    unfold andSelf
    simp only []
    rw [forN_forN]
  rw [e]
  refine ⟨i1, i2, i3, ?_⟩
  intro r c hc
  rw [i4 r c hc]
  simp

end Mat

/-! ## the index builders -/

theorem flatMap_ite_singleton (q : Nat → Bool) : ∀ (l : List Nat), l.flatMap (fun i => if q i then [i] else []) = l.filter q
  | [] => rfl
  | x :: l => by
    rw [List.flatMap_cons, flatMap_ite_singleton q l, List.filter_cons]
    cases q x <;> simp

theorem flatMap_ite_eq (k : Nat) (L : List Nat) : ∀ (n : Nat),
    (List.range n).flatMap (fun i => if i = k then L else []) = if k < n then L else []
  | 0 => by simp
  | n + 1 => by
    rw [List.range_succ, List.flatMap_append, flatMap_ite_eq k L n]
    by_cases h1 : k < n
    · have : ¬ n = k := by omega
      simp [h1, this]; omega
    · by_cases h2 : n = k
      · subst h2; simp
      · have : ¬ k < n + 1 := by omega
        simp [h1, h2, this]

theorem pairs_filter_row (f : Nat → Nat → Bool) (n k : Nat) :
    ((pairs n n).filter (fun p => f p.1 p.2 && p.1 == k)).map Prod.snd =
      if k < n then (List.range n).filter (fun c => f k c) else [] := by
  unfold pairs
  rw [List.filter_flatMap, List.map_flatMap, ← flatMap_ite_eq k _ n]
  congr 1
  funext i
  rw [List.filter_map, List.map_map]
  by_cases h : i = k
  · subst h
    simp [Function.comp_def]
  · have : (i == k) = false := by simp [h]
    simp [Function.comp_def, this, h]

theorem range_filter_eq (k : Nat) : ∀ (n : Nat), (List.range n).filter (fun j => j == k) = if k < n then [k] else []
  | 0 => by simp
  | n + 1 => by
    rw [List.range_succ, List.filter_append, range_filter_eq k n]
    by_cases h1 : k < n
    · have : ¬ n = k := by omega
      simp [h1, this]; omega
    · by_cases h2 : n = k
      · subst h2; simp
      · have : ¬ k < n + 1 := by omega
        simp [h1, h2, this]

theorem pairs_filter_col (f : Nat → Nat → Bool) (n k : Nat) :
    ((pairs n n).filter (fun p => f p.1 p.2 && p.2 == k)).map Prod.fst =
      if k < n then (List.range n).filter (fun r => f r k) else [] := by
  unfold pairs
  rw [List.filter_flatMap, List.map_flatMap]
  have inner : ∀ i, List.map Prod.fst (List.filter (fun p => f p.1 p.2 && p.2 == k) (List.map (fun j => (i, j)) (List.range n))) =
      if k < n ∧ f i k = true then [i] else [] := by
    intro i
    rw [List.filter_map, List.map_map]
    have e : List.filter ((fun p : Nat × Nat => f p.1 p.2 && p.2 == k) ∘ fun j => (i, j)) (List.range n) =
        List.filter (fun j => f i k && j == k) (List.range n) := by
      apply List.filter_congr
      intro j _
      simp only [Function.comp_def]
      by_cases hj : j = k
      · subst hj; rfl
      · have : (j == k) = false := by simp [hj]
        simp [this]
    rw [e]
    cases hf : f i k
    · simp
    · simp only [Bool.true_and, range_filter_eq]
      by_cases hk : k < n <;> simp [hk]
  simp only [inner]
  by_cases hk : k < n
  · simp only [hk, true_and, if_true]
    exact flatMap_ite_singleton (fun r => f r k) _
  · simp [hk]


theorem getD_pushAt (dst : List (List Nat)) (r x k : Nat) :
    (Mat.pushAt dst r x).getD k [] = if k = r ∧ k < dst.length then dst.getD k [] ++ [x] else dst.getD k [] := by
  simp only [Mat.pushAt, List.getD_eq_getElem?_getD, List.getElem?_modify]
  by_cases hk : k < dst.length
  · rw [List.getElem?_eq_getElem hk]
    by_cases hr : r = k
    · subst hr; simp [hk]
    · have : ¬ k = r := fun e => hr e.symm
      simp [hr, this]
  · have : dst[k]? = none := List.getElem?_eq_none_iff.mpr (by omega)
    simp [hk]

theorem length_pushAt (dst : List (List Nat)) (r x : Nat) : (Mat.pushAt dst r x).length = dst.length := by
  simp [Mat.pushAt]

/-- a run of conditional `push_back`s: row `k` receives, in order, the values of the steps that address it -/
theorem foldl_push (cond : Nat × Nat → Bool) (key val : Nat × Nat → Nat) : ∀ (ps : List (Nat × Nat)) (dst : List (List Nat)),
    (ps.foldl (fun dst p => if cond p then Mat.pushAt dst (key p) (val p) else dst) dst).length = dst.length ∧
    ∀ k, k < dst.length → (ps.foldl (fun dst p => if cond p then Mat.pushAt dst (key p) (val p) else dst) dst).getD k [] =
      dst.getD k [] ++ (ps.filter (fun p => cond p && key p == k)).map val
  | [], dst => ⟨rfl, fun k _ => by simp⟩
  | p :: ps, dst => by
    simp only [List.foldl_cons]
    by_cases hc : cond p = true
    · obtain ⟨i1, i2⟩ := foldl_push cond key val ps (Mat.pushAt dst (key p) (val p))
      rw [if_pos hc]
      refine ⟨by rw [i1, length_pushAt], ?_⟩
      intro k hk
      rw [i2 k (by rw [length_pushAt]; exact hk), getD_pushAt, List.filter_cons]
      by_cases hkk : key p = k
      · subst hkk
        simp [hc, hk]
      · have h1 : ¬ k = key p := fun e => hkk e.symm
        have h2 : (key p == k) = false := by simp [hkk]
        simp [hc, h1, h2]
    · obtain ⟨i1, i2⟩ := foldl_push cond key val ps dst
      rw [if_neg hc]
      refine ⟨i1, ?_⟩
      intro k hk
      rw [i2 k hk, List.filter_cons]
      have : cond p = false := by simpa using hc
      simp [this]

theorem length_resizeL {α : Type} (l : List α) (n : Nat) (d : α) : (resizeL l n d).length = n := by
  simp only [resizeL, List.length_append, List.length_take, List.length_replicate]
  omega

theorem getD_resizeL (l : List (List Nat)) (n k : Nat) (hk : k < n) : (resizeL l n []).getD k [] = l.getD k [] := by
  simp only [resizeL, List.getD_eq_getElem?_getD, List.getElem?_append, List.length_take, List.getElem?_take,
    List.getElem?_replicate]
  by_cases h : k < l.length
  · have : k < min n l.length := by omega
    simp [this, hk]
  · have h1 : ¬ k < min n l.length := by omega
    have h2 : l[k]? = none := List.getElem?_eq_none_iff.mpr (by omega)
    simp only [h1, if_false, h2]
    split <;> rfl

theorem ext_getD {l l' : List (List Nat)} (hl : l.length = l'.length) (h : ∀ k, k < l.length → l.getD k [] = l'.getD k []) :
    l = l' := by
  apply List.ext_getElem hl
  intro k h1 h2
  have := h k h1
  simp only [List.getD_eq_getElem?_getD, List.getElem?_eq_getElem h1, List.getElem?_eq_getElem h2, Option.getD_some] at this
  exact this

namespace Mat

/-- **`buildIndex(dst)`**: row `r` of the result is what `dst[r]` held before (nothing, for a fresh vector) followed by
exactly the columns related to `r`, in increasing order -/
theorem buildIndex_spec (m : Mat) (dst : List (List Nat)) :
    m.buildIndex dst = (List.range m.size).map (fun r => dst.getD r [] ++ (List.range m.size).filter (fun c => m.get r c)) := by
  have e : m.buildIndex dst = (pairs m.size m.size).foldl
      (fun dst p => if (fun p : Nat × Nat => m.get p.1 p.2) p then pushAt dst (Prod.fst p) (Prod.snd p) else dst)
      (resizeL dst m.size []) := by
    unfold buildIndex
    rw [forN_forN]
    rfl
  obtain ⟨i1, i2⟩ := foldl_push (fun p => m.get p.1 p.2) Prod.fst Prod.snd (pairs m.size m.size) (resizeL dst m.size [])
  rw [e]
  apply ext_getD
  · rw [i1, length_resizeL]; simp
  · intro k hk
    rw [i1, length_resizeL] at hk
    rw [i2 k (by rw [length_resizeL]; exact hk), getD_resizeL _ _ _ hk, pairs_filter_row, if_pos hk]
    simp [List.getD_eq_getElem?_getD, hk]

theorem buildIndex_nil (m : Mat) :
    m.buildIndex [] = (List.range m.size).map (fun r => (List.range m.size).filter (fun c => m.get r c)) := by
  rw [buildIndex_spec]; simp

/-- **`buildInvIndex(dst)`**: row `c` of the result is the old `dst[c]` followed by exactly the rows related to `c`, in
increasing order -/
theorem buildInvIndex_spec (m : Mat) (dst : List (List Nat)) :
    m.buildInvIndex dst =
      (List.range m.size).map (fun c => dst.getD c [] ++ (List.range m.size).filter (fun r => m.get r c)) := by
  have e : m.buildInvIndex dst = (pairs m.size m.size).foldl
      (fun dst p => if (fun p : Nat × Nat => m.get p.1 p.2) p then pushAt dst (Prod.snd p) (Prod.fst p) else dst)
      (resizeL dst m.size []) := by
    unfold buildInvIndex
    rw [forN_forN]
  obtain ⟨i1, i2⟩ := foldl_push (fun p => m.get p.1 p.2) Prod.snd Prod.fst (pairs m.size m.size) (resizeL dst m.size [])
  rw [e]
  apply ext_getD
  · rw [i1, length_resizeL]; simp
  · intro k hk
    rw [i1, length_resizeL] at hk
    rw [i2 k (by rw [length_resizeL]; exact hk), getD_resizeL _ _ _ hk, pairs_filter_col, if_pos hk]
    simp [List.getD_eq_getElem?_getD, hk]

theorem buildInvIndex_nil (m : Mat) :
    m.buildInvIndex [] = (List.range m.size).map (fun c => (List.range m.size).filter (fun r => m.get r c)) := by
  rw [buildInvIndex_spec]; simp

/-- **`buildIndex(ind, inv)`** computes both at once -/
theorem buildIndex2_spec (m : Mat) (ind inv : List (List Nat)) :
    m.buildIndex2 ind inv = (m.buildIndex ind, m.buildInvIndex inv) := by
  have e1 : m.buildIndex ind = (pairs m.size m.size).foldl
      (fun dst p => if m.get p.1 p.2 then pushAt dst p.1 p.2 else dst) (resizeL ind m.size []) := by
    unfold buildIndex
    rw [forN_forN]
    rfl
  have e2 : m.buildInvIndex inv = (pairs m.size m.size).foldl
      (fun dst p => if m.get p.1 p.2 then pushAt dst p.2 p.1 else dst) (resizeL inv m.size []) := by
    unfold buildInvIndex
    rw [forN_forN]
  have e : m.buildIndex2 ind inv = (pairs m.size m.size).foldl
      (fun (st : List (List Nat) × List (List Nat)) p =>
        if m.get p.1 p.2 then (pushAt st.1 p.1 p.2, pushAt st.2 p.2 p.1) else st)
      (resizeL ind m.size [], resizeL inv m.size []) := by
    unfold buildIndex2
    rw [forN_forN]
  rw [e, e1, e2]
  generalize pairs m.size m.size = ps
  generalize resizeL ind m.size [] = a
  generalize resizeL inv m.size [] = b
  induction ps generalizing a b with
  | nil => rfl
  | cons p ps ih =>
    simp only [List.foldl_cons]
    by_cases h : m.get p.1 p.2 = true
    · simp only [h, if_true]; exact ih _ _
    · simp only [h]; exact ih _ _

end Mat

/-! ## refinement of the relation-level models of `Vata/ReduceModel.lean` -/

/-! ### the corner as the matrix of `Vata/ReduceModel.lean` -/

theorem foldl_congr_mem {α β : Type} {f g : α → β → α} : ∀ (l : List β) (a : α), (∀ a x, x ∈ l → f a x = g a x) →
    l.foldl f a = l.foldl g a
  | [], _, _ => rfl
  | x :: l, a, h => by
    simp only [List.foldl_cons]
    rw [h a x List.mem_cons_self]
    exact foldl_congr_mem l _ (fun a y hy => h a y (List.mem_cons_of_mem _ hy))

namespace Mat

@[simp] theorem length_toBMat (m : Mat) : m.toBMat.length = m.size := by simp [toBMat]

theorem square_toBMat (m : Mat) : RM.Square m.size m.toBMat := by
  refine ⟨length_toBMat m, ?_⟩
  intro row hrow
  simp only [toBMat, List.mem_map] at hrow
  obtain ⟨_, _, e⟩ := hrow
  rw [← e]; simp

theorem mget_toBMat {m : Mat} {r c : Nat} (hr : r < m.size) (hc : c < m.size) : mget m.toBMat r c = m.get r c := by
  simp [mget, toBMat, List.getD_eq_getElem?_getD, hr, hc]

theorem bmat_ext {n : Nat} {a b : BMat} (ha : RM.Square n a) (hb : RM.Square n b)
    (h : ∀ i j, i < n → j < n → mget a i j = mget b i j) : a = b := by
  apply List.ext_getElem (by rw [ha.1, hb.1])
  intro i h1 h2
  have la := ha.2 a[i] (List.getElem_mem h1)
  have lb := hb.2 b[i] (List.getElem_mem h2)
  apply List.ext_getElem (by rw [la, lb])
  intro j g1 g2
  have := h i j (by rw [← ha.1]; exact h1) (by rw [← la]; exact g1)
  simp only [mget, List.getD_eq_getElem?_getD, List.getElem?_eq_getElem h1, List.getElem?_eq_getElem h2,
    List.getElem?_eq_getElem g1, List.getElem?_eq_getElem g2, Option.getD_some] at this
  exact this

/-- `set` on the flat vector is `mset` on the matrix -/
theorem toBMat_set {m : Mat} (h : WF m) {r c : Nat} (hr : r < m.size) (hc : c < m.size) (v : Bool) :
    (m.set r c v).toBMat = mset m.toBMat r c v := by
  apply bmat_ext (n := m.size) (square_toBMat (m.set r c v)) (RM.square_mset (square_toBMat m) _ _ _)
  intro i j hi hj
  rw [RM.mget_mset (square_toBMat m) hr hc, mget_toBMat (m := m.set r c v) hi hj, mget_toBMat hi hj,
    get_set_cap h hr hc v i (by have := h.1; omega)]

/-! ### `RestrictToSymmetric` -/

theorem symStep_refines {m : Mat} (h : WF m) {row col : Nat} (hr : row < m.size) (hc : col < m.size) :
    WF (symStep row m col) ∧ (symStep row m col).size = m.size ∧ (symStep row m col).rowSize = m.rowSize ∧
    (symStep row m col).toBMat = Vata.symStep row m.toBMat col ∧
    ∀ r c, c < m.rowSize → ¬ (r < m.size ∧ c < m.size) → (symStep row m col).get r c = m.get r c := by
  refine ⟨wf_set (wf_set h _ _ _) _ _ _, rfl, rfl, ?_, ?_⟩
  · unfold symStep Vata.symStep
    simp only []
    rw [toBMat_set (wf_set h _ _ _) (by exact hc) (by exact hr), toBMat_set h hr hc, mget_toBMat hr hc, mget_toBMat hc hr]
  · intro r c hcc hout
    unfold symStep
    simp only []
    rw [get_set_cap (wf_set h _ _ _) (by exact hc) (by exact hr) _ r (by exact hcc), get_set_cap h hr hc _ r hcc,
      if_neg (fun hh => hout ⟨by omega, by omega⟩), if_neg (fun hh => hout ⟨by omega, by omega⟩)]

/-- the flat `RestrictToSymmetric` **refines** `Vata.restrictToSymmetric` of `Vata/ReduceModel.lean`; cells outside
the corner are not touched -/
theorem restrictToSymmetric_refines {m : Mat} (h : WF m) :
    WF m.restrictToSymmetric ∧ m.restrictToSymmetric.size = m.size ∧ m.restrictToSymmetric.rowSize = m.rowSize ∧
    m.restrictToSymmetric.toBMat = Vata.restrictToSymmetric m.toBMat ∧
    ∀ r c, c < m.rowSize → ¬ (r < m.size ∧ c < m.size) → m.restrictToSymmetric.get r c = m.get r c := by
  have key := foldl_sim (fun (a : Mat) (b : BMat) => WF a ∧ a.size = m.size ∧ a.rowSize = m.rowSize ∧ a.toBMat = b ∧
      ∀ r c, c < m.rowSize → ¬ (r < m.size ∧ c < m.size) → a.get r c = m.get r c)
    (fun a row => symRow m.size a row) (Vata.symRow m.size) (List.range m.size) m m.toBMat ?_ ⟨h, rfl, rfl, rfl, fun _ _ _ _ => rfl⟩
  · unfold restrictToSymmetric Vata.restrictToSymmetric
    rw [length_toBMat]
    exact key
  · intro a b row hrow hab
    have hrow' : row < m.size := List.mem_range.mp hrow
    unfold symRow Vata.symRow forR
    refine foldl_sim (fun (a : Mat) (b : BMat) => WF a ∧ a.size = m.size ∧ a.rowSize = m.rowSize ∧ a.toBMat = b ∧
      ∀ r c, c < m.rowSize → ¬ (r < m.size ∧ c < m.size) → a.get r c = m.get r c)
      _ _ _ a b ?_ hab
    intro a' b' col hcol ⟨w, s, rs, e, fr⟩
    have hcol' : col < m.size := by have := List.mem_range'_1.mp hcol; omega
    obtain ⟨k1, k2, k3, k4, k5⟩ := symStep_refines w (row := row) (col := col) (by omega) (by omega)
    refine ⟨k1, by rw [k2, s], by rw [k3, rs], by rw [k4, e], ?_⟩
    intro r c hc hout
    rw [k5 r c (by rw [rs]; exact hc) (by rw [s]; exact hout), fr r c hc hout]

end Mat

/-- `Vata.restrictToSymmetric` on a square matrix, every entry (the diagonal included) -/
theorem RM_restrictToSymmetric_full {n : Nat} {m : BMat} (h : RM.Square n m) {r c : Nat} (hr : r < n) (hc : c < n) :
    mget (Vata.restrictToSymmetric m) r c = (mget m r c && mget m c r) := by
  have hinv : RM.SymInv m n m := ⟨h, fun _ _ => Or.inl rfl⟩
  have hb : ∀ p, p ∈ RM.pairsFrom 0 m.length → p.1 < n ∧ p.2 < n := by
    intro p hp
    have := RM.mem_pairsFrom.mp hp
    rw [h.1] at this; omega
  obtain ⟨_, i2, i3⟩ := RM.symPairs_spec (RM.pairsFrom 0 m.length) m hinv hb
  rw [RM.restrictToSymmetric_eq]
  rcases Nat.lt_trichotomy r c with hlt | heq | hgt
  · exact (i2 (r, c) (RM.mem_pairsFrom.mpr ⟨Nat.zero_le _, hlt, by rw [h.1]; exact hc⟩)).1
  · subst heq
    have := i3 r r (by simp [RM.symOf])
    rw [this]; rfl
  · have := (i2 (c, r) (RM.mem_pairsFrom.mpr ⟨Nat.zero_le _, hgt, by rw [h.1]; exact hr⟩)).2
    rw [this, RM.symOf, Bool.and_comm]

namespace Mat

/-- **`RestrictToSymmetric` = R ∩ R⁻¹** on the corner -/
theorem restrictToSymmetric_spec {m : Mat} (h : WF m) {r c : Nat} (hr : r < m.size) (hc : c < m.size) :
    m.restrictToSymmetric.get r c = (m.get r c && m.get c r) := by
  obtain ⟨_, k2, _, k4, _⟩ := restrictToSymmetric_refines h
  rw [← mget_toBMat (m := m.restrictToSymmetric) (by rw [k2]; exact hr) (by rw [k2]; exact hc), k4,
    RM_restrictToSymmetric_full (square_toBMat m) hr hc, mget_toBMat hr hc, mget_toBMat hc hr]

end Mat


/-! ### `GetQuotientProjection` -/

namespace Mat

/-- the flat `GetQuotientProjection` **refines** (is equal to) `Vata.quotientProjectionIdx` on the corner -/
theorem quotProj_refines (m : Mat) : m.quotProj = quotientProjectionIdx m.toBMat := by
  unfold quotProj quotientProjectionIdx forN
  rw [length_toBMat]
  apply foldl_congr_mem
  intro proj row hrow
  have hrow' : row < m.size := List.mem_range.mp hrow
  show m.qpRow proj row = Vata.qpRow m.toBMat m.size proj row
  unfold qpRow Vata.qpRow
  split
  · rfl
  · unfold forR
    apply foldl_congr_mem
    intro proj' col hcol
    have hcol' : col < m.size := by have := List.mem_range'_1.mp hcol; omega
    unfold qpStep Vata.qpStep
    rw [mget_toBMat hrow' hcol']

/-- the corner is an equivalence relation on the indices below `size` -/
structure IsEquiv (m : Mat) : Prop where
  refl : ∀ i, i < m.size → m.get i i = true
  symm : ∀ i j, i < m.size → j < m.size → m.get i j = true → m.get j i = true
  trans : ∀ i j k, i < m.size → j < m.size → k < m.size → m.get i j = true → m.get j k = true → m.get i k = true

theorem idxEquiv_of_isEquiv {m : Mat} (h : IsEquiv m) :
    RM.IdxEquiv m.toBMat m.toBMat.length (fun i j => i = j ∨ (i < m.size ∧ j < m.size ∧ m.get i j = true)) := by
  refine ⟨fun i => Or.inl rfl, ?_, ?_, ?_⟩
  · rintro i j (e | ⟨hi, hj, hg⟩)
    · exact Or.inl e.symm
    · exact Or.inr ⟨hj, hi, h.symm i j hi hj hg⟩
  · rintro i j k (e | ⟨hi, hj, hg⟩) (e' | ⟨hj', hk, hg'⟩)
    · exact Or.inl (e.trans e')
    · rw [e]; exact Or.inr ⟨hj', hk, hg'⟩
    · rw [← e']; exact Or.inr ⟨hi, hj, hg⟩
    · exact Or.inr ⟨hi, hk, h.trans i j k hi hj hk hg hg'⟩
  · intro r c hrc hc
    rw [length_toBMat] at hc
    rw [mget_toBMat (by omega) hc]
    constructor
    · intro hg; exact Or.inr ⟨by omega, hc, hg⟩
    · rintro (e | ⟨_, _, hg⟩)
      · omega
      · exact hg

/-- **`GetQuotientProjection` on an equivalence**: every index is mapped to the LEAST index of its class (so two
indices get the same image iff they are equivalent) -/
theorem quotProj_equiv {m : Mat} (h : IsEquiv m) :
    m.quotProj.length = m.size ∧
    ∀ i, i < m.size → ∃ k, m.quotProj.getD i none = some k ∧ k ≤ i ∧ m.get k i = true ∧
      (∀ j, j < m.size → m.get j i = true → k ≤ j) ∧
      (∀ j, j < m.size → (m.get i j = true ↔ m.quotProj.getD j none = some k)) := by
  obtain ⟨s1, s2, s3⟩ := RM.quotientProjectionIdx_spec (idxEquiv_of_isEquiv h)
  rw [← quotProj_refines] at s1 s2 s3
  rw [length_toBMat] at s1 s2 s3
  refine ⟨s1, ?_⟩
  intro i hi
  obtain ⟨k, hk1, hk2, hk3⟩ := s2 i hi
  have hki : m.get k i = true := by
    rcases hk3 with e | ⟨_, _, hg⟩
    · rw [e]; exact h.refl i hi
    · exact hg
  refine ⟨k, hk1, hk2, hki, ?_, ?_⟩
  · intro j hj hji
    obtain ⟨k', hk1', hk2', _⟩ := s2 j hj
    have := s3 j i hj hi (Or.inr ⟨hj, hi, hji⟩)
    unfold RM.pget at this hk1 hk1'
    rw [hk1, hk1'] at this
    cases this
    exact hk2'
  · intro j hj
    constructor
    · intro hij
      have := s3 i j hi hj (Or.inr ⟨hi, hj, hij⟩)
      unfold RM.pget at this hk1
      rw [← this, hk1]
    · intro hjk
      obtain ⟨k', hk1', _, hk3'⟩ := s2 j hj
      unfold RM.pget at hk1'
      rw [hjk] at hk1'
      cases hk1'
      have hkj : m.get k j = true := by
        rcases hk3' with e | ⟨_, _, hg⟩
        · rw [e]; exact h.refl j hj
        · exact hg
      have hk : k < m.size := by omega
      exact h.trans i k j hi hk hj (h.symm k i hk hi hki) hkj

end Mat

/-! ## the abstract model: a size, a capacity and a function `Nat → Nat → Bool` -/

/-- the abstract model of a `BinaryRelation`: the size, the capacity and a two-dimensional Boolean function (what the
cells below the capacity hold; the relation proper is its restriction to the indices below `size`) -/
structure ARel where
  size : Nat
  cap : Nat
  rel : Nat → Nat → Bool

namespace ARel

def mk' (size : Nat) (d : Bool) (rs : Nat) : ARel :=
  ⟨size, if rs < size then Mat.growRow rs size else rs, fun _ _ => d⟩

def set (a : ARel) (r c : Nat) (v : Bool) : ARel :=
  { a with rel := fun r' c' => if r' = r ∧ c' = c then v else a.rel r' c' }

def reset (a : ARel) (v : Bool) : ARel := { a with rel := fun _ _ => v }

/-- beyond the capacity: the corner survives, everything else is `d`; inside the capacity: only the size moves -/
def resize (a : ARel) (n : Nat) (d : Bool) : ARel :=
  if a.cap < n then ⟨n, Mat.growRow a.cap n, fun r c => if r < a.size ∧ c < a.size then a.rel r c else d⟩
  else { a with size := n }

def ensure (a : ARel) : ARel :=
  if a.size ≥ a.cap then
    ⟨a.size, Mat.growRow a.cap (a.size + 1), fun r c => if r < a.size ∧ c < a.size then a.rel r c else false⟩
  else a

def alloc (a : ARel) : ARel × Nat := ({ a.ensure with size := a.ensure.size + 1 }, a.ensure.size)

def split (a : ARel) (i : Nat) (refl : Bool) : ARel × Nat :=
  (⟨a.ensure.size + 1, a.ensure.cap, fun r c =>
      if r = a.size ∧ c = a.size then refl
      else if r = a.size ∧ c < a.size then a.ensure.rel i c
      else if c = a.size ∧ r < a.size then a.ensure.rel r i
      else a.ensure.rel r c⟩, a.size)

def ofRows (rows : List (List Bool)) : ARel :=
  { (mk' 0 false 16).resize rows.length false with
    rel := fun r c => if r < rows.length ∧ c < rows.length then (rows.getD r []).getD c false
      else ((mk' 0 false 16).resize rows.length false).rel r c }

def transposedInto (a dst : ARel) : ARel :=
  { dst.resize a.size false with
    rel := fun r c => if r < a.size ∧ c < a.size then a.rel c r else (dst.resize a.size false).rel r c }

/-- `r.transposed(r)`: the part above the diagonal is mirrored onto the part below it -/
def transposedSelf (a : ARel) : ARel :=
  { a with rel := fun r c => if r < a.size ∧ c < a.size ∧ c < r then a.rel c r else a.rel r c }

def andWith (a b : ARel) : ARel :=
  { a with rel := fun r c => if r < a.size ∧ c < a.size then (a.rel r c && b.rel r c) else a.rel r c }

/-- R ∩ R⁻¹ on the corner -/
def rsym (a : ARel) : ARel :=
  { a with rel := fun r c => if r < a.size ∧ c < a.size then (a.rel r c && a.rel c r) else a.rel r c }

/-- the relation as a matrix -/
def rows (a : ARel) : BMat := (List.range a.size).map (fun r => (List.range a.size).map (fun c => a.rel r c))

def sym (a : ARel) (r c : Nat) : Bool := a.rel r c && a.rel c r

def index (a : ARel) (pre : List (List Nat)) : List (List Nat) :=
  (List.range a.size).map (fun r => pre.getD r [] ++ (List.range a.size).filter (fun c => a.rel r c))

def invIndex (a : ARel) (pre : List (List Nat)) : List (List Nat) :=
  (List.range a.size).map (fun c => pre.getD c [] ++ (List.range a.size).filter (fun r => a.rel r c))

def print (a : ARel) : String :=
  forN a.size (fun i s => forN a.size (fun j s => s ++ (if a.rel i j then "1" else "0")) s ++ "\n") ""

end ARel

/-- the flat matrix **denotes** the abstract relation: same size and capacity, and every cell below the capacity holds
the value of the two-dimensional function -/
def Refines (m : Mat) (a : ARel) : Prop :=
  WF m ∧ 0 < m.rowSize ∧ m.size = a.size ∧ m.rowSize = a.cap ∧ ∀ r c, r < a.cap → c < a.cap → m.get r c = a.rel r c

namespace Refines

theorem mk' (size : Nat) (d : Bool) {rs : Nat} (hp : 0 < rs) : Refines (Mat.mk' size d rs) (ARel.mk' size d rs) := by
  obtain ⟨w1, w2, w3, w4, w5⟩ := Mat.mk'_spec size d hp
  refine ⟨w1, w2, w3, w4, ?_⟩
  intro r c hr hc
  have e : (ARel.mk' size d rs).cap = (Mat.mk' size d rs).rowSize := w4.symm
  rw [e] at hr hc
  exact w5 r c hr hc

theorem set {m : Mat} {a : ARel} (h : Refines m a) {r c : Nat} (hr : r < a.size) (hc : c < a.size) (v : Bool) :
    Refines (m.set r c v) (a.set r c v) := by
  obtain ⟨w, p, s, rs, g⟩ := h
  refine ⟨Mat.wf_set w _ _ _, p, s, rs, ?_⟩
  intro r' c' hr' hc'
  have hr'' : r' < a.cap := hr'
  have hc'' : c' < a.cap := hc'
  show (m.set r c v).get r' c' = if r' = r ∧ c' = c then v else a.rel r' c'
  rw [Mat.get_set_cap w (by omega) (by omega) v r' (by omega), g r' c' hr'' hc'']

theorem reset {m : Mat} {a : ARel} (h : Refines m a) (v : Bool) : Refines (m.reset v) (a.reset v) := by
  obtain ⟨w, p, s, rs, g⟩ := h
  refine ⟨Mat.wf_reset w v, p, s, rs, ?_⟩
  intro r c hr hc
  have hr'' : r < a.cap := hr
  have hc'' : c < a.cap := hc
  exact Mat.get_reset w v (by show r < m.rowSize; omega) (by show c < m.rowSize; omega)

theorem resize {m : Mat} {a : ARel} (h : Refines m a) (n : Nat) (d : Bool) : Refines (m.resize n d) (a.resize n d) := by
  obtain ⟨w, p, s, rs, g⟩ := h
  obtain ⟨v1, v2⟩ := Mat.wf_resize w p n d
  by_cases hn : a.cap < n
  · obtain ⟨g1, g2, g3⟩ := Mat.resize_grow w p d (n := n) (by omega)
    have e : a.resize n d = ⟨n, Mat.growRow a.cap n, fun r c => if r < a.size ∧ c < a.size then a.rel r c else d⟩ := by
      unfold ARel.resize; rw [if_pos hn]
    rw [e]
    refine ⟨v1, v2, rfl, by rw [g1, rs], ?_⟩
    intro r c hr hc
    show (m.resize n d).get r c = if r < a.size ∧ c < a.size then a.rel r c else d
    rw [g3 r c (by rw [g1, rs]; exact hr) (by rw [g1, rs]; exact hc), s]
    by_cases hin : r < a.size ∧ c < a.size
    · have := w.1
      rw [if_pos hin, if_pos hin, g r c (by omega) (by omega)]
    · rw [if_neg hin, if_neg hin]
  · have e : a.resize n d = { a with size := n } := by unfold ARel.resize; rw [if_neg hn]
    rw [e, Mat.resize_nogrow d (by omega)]
    exact ⟨⟨by show n ≤ m.rowSize; omega, w.2⟩, p, rfl, rs, g⟩

theorem ensure {m : Mat} {a : ARel} (h : Refines m a) : Refines m.ensure a.ensure ∧ a.ensure.size = a.size ∧ a.size < a.ensure.cap := by
  obtain ⟨w, p, s, rs, g⟩ := h
  obtain ⟨e1, e2, e3, e4, e5, e6⟩ := Mat.ensure_spec w p
  by_cases hg : a.size ≥ a.cap
  · have e : a.ensure = ⟨a.size, Mat.growRow a.cap (a.size + 1),
        fun r c => if r < a.size ∧ c < a.size then a.rel r c else false⟩ := by unfold ARel.ensure; rw [if_pos hg]
    obtain ⟨f1, f2⟩ := e6 (by omega)
    rw [e]
    refine ⟨⟨e1, e2, by rw [e3, s], by rw [f1, rs, s], ?_⟩, rfl, by show a.size < Mat.growRow a.cap (a.size + 1); rw [← rs, ← s, ← f1]; exact e4⟩
    intro r c hr hc
    show m.ensure.get r c = if r < a.size ∧ c < a.size then a.rel r c else false
    rw [f2 r c (by rw [f1, rs, s]; exact hr) (by rw [f1, rs, s]; exact hc), s]
    by_cases hin : r < a.size ∧ c < a.size
    · have := w.1
      rw [if_pos hin, if_pos hin, g r c (by omega) (by omega)]
    · rw [if_neg hin, if_neg hin]
  · have e : a.ensure = a := by unfold ARel.ensure; rw [if_neg hg]
    rw [e, e5 (by omega)]
    exact ⟨⟨w, p, s, rs, g⟩, rfl, by omega⟩

theorem alloc {m : Mat} {a : ARel} (h : Refines m a) : Refines m.alloc.1 a.alloc.1 ∧ m.alloc.2 = a.alloc.2 := by
  obtain ⟨⟨w, p, s, rs, g⟩, hs, hc⟩ := ensure h
  refine ⟨⟨⟨?_, w.2⟩, p, ?_, rs, g⟩, s⟩
  · show m.ensure.size + 1 ≤ m.ensure.rowSize
    rw [s, rs, hs]; omega
  · show m.ensure.size + 1 = a.ensure.size + 1
    rw [s]

theorem split {m : Mat} {a : ARel} (h : Refines m a) {i : Nat} (hi : i < a.size) (refl : Bool) :
    Refines (m.split i refl).1 (a.split i refl).1 ∧ (m.split i refl).2 = (a.split i refl).2 := by
  have hsz := h.2.2.1
  obtain ⟨⟨w, p, s, rs, g⟩, hs, hc⟩ := ensure h
  have hes : m.ensure.size = m.size := by rw [s, hs, hsz]
  obtain ⟨k1, k2, k3, k4, k5⟩ := Mat.splitCore_spec w (by rw [s, rs, hs]; exact hc) (i := i) (by rw [s, hs]; exact hi) refl
  unfold Mat.split
  refine ⟨⟨k4, by rw [k3]; exact p, by rw [k2, s]; rfl, by rw [k3, rs]; rfl, ?_⟩, by rw [k1, s, hs]; rfl⟩
  intro r c hr hc'
  have hr' : r < a.ensure.cap := hr
  have hc'' : c < a.ensure.cap := hc'
  rw [k5 r c (by rw [rs]; exact hc''), s, hs]
  show _ = if r = a.size ∧ c = a.size then refl
      else if r = a.size ∧ c < a.size then a.ensure.rel i c
      else if c = a.size ∧ r < a.size then a.ensure.rel r i
      else a.ensure.rel r c
  rw [g i c (by omega) hc'', g r i hr' (by omega), g r c hr' hc'']


theorem ofRows (rows : List (List Bool)) : Refines (Mat.ofRows rows) (ARel.ofRows rows) := by
  have hb := resize (mk' 0 false (rs := 16) (by omega)) rows.length false
  obtain ⟨w, p, s, rs, g⟩ := hb
  have hbd : ∀ q, q ∈ pairs rows.length rows.length →
      q.1 < ((Mat.mk' 0 false 16).resize rows.length false).size ∧ q.2 < ((Mat.mk' 0 false 16).resize rows.length false).size :=
    fun q hq => mem_pairs.mp hq
  obtain ⟨i1, i2, i3, i4⟩ := Mat.foldl_set_fun (fun r c => (rows.getD r []).getD c false) (pairs rows.length rows.length)
    ((Mat.mk' 0 false 16).resize rows.length false) w hbd
  unfold Mat.ofRows
  rw [forN_forN]
  refine ⟨i3, by rw [i2]; exact p, by rw [i1]; exact s, by rw [i2]; exact rs, ?_⟩
  intro r c hr hc
  have hr' : r < ((ARel.mk' 0 false 16).resize rows.length false).cap := hr
  have hc' : c < ((ARel.mk' 0 false 16).resize rows.length false).cap := hc
  rw [i4 r c (by rw [rs]; exact hc')]
  show _ = if r < rows.length ∧ c < rows.length then (rows.getD r []).getD c false
      else ((ARel.mk' 0 false 16).resize rows.length false).rel r c
  have e : ((r, c) ∈ pairs rows.length rows.length) = (r < rows.length ∧ c < rows.length) := propext mem_pairs
  simp only [e]
  rw [g r c hr' hc']

theorem transposedInto {m dst : Mat} {a d : ARel} (hm : Refines m a) (hd : Refines dst d) :
    Refines (m.transposedInto dst) (a.transposedInto d) := by
  obtain ⟨w, p, s, rs, g⟩ := resize hd a.size false
  obtain ⟨t1, t2, t3, t4, t5⟩ := Mat.transposedInto_spec (m := m) hd.1 hd.2.1
  have hsz : m.size = a.size := hm.2.2.1
  rw [hsz] at t1 t2 t5
  have e1 : (a.transposedInto d).size = (d.resize a.size false).size := rfl
  have e2 : (a.transposedInto d).cap = (d.resize a.size false).cap := rfl
  refine ⟨t3, t4, by rw [t1, e1, ← s]; rfl, by rw [t2, rs, e2], ?_⟩
  intro r c hr hc
  rw [e2] at hr hc
  rw [t5 r c (by rw [t2, rs]; exact hc)]
  show _ = if r < a.size ∧ c < a.size then a.rel c r else (d.resize a.size false).rel r c
  by_cases hin : r < a.size ∧ c < a.size
  · have := hm.1.1
    have hcap := hm.2.2.2.1
    rw [if_pos hin, if_pos hin, hm.2.2.2.2 c r (by omega) (by omega)]
  · rw [if_neg hin, if_neg hin]
    exact g r c hr hc

theorem andWith {m rhs : Mat} {a b : ARel} (hm : Refines m a) (hr : Refines rhs b) (hs : a.size = b.size) :
    Refines (m.andWith rhs) (a.andWith b) := by
  obtain ⟨w, p, s, rs, g⟩ := hm
  obtain ⟨i1, i2, i3, i4⟩ := Mat.andWith_spec w rhs
  refine ⟨i3, by rw [i2]; exact p, by rw [i1]; exact s, by rw [i2]; exact rs, ?_⟩
  intro r c hr' hc'
  have hr'' : r < a.cap := hr'
  have hc'' : c < a.cap := hc'
  rw [i4 r c (by omega), s]
  show _ = if r < a.size ∧ c < a.size then (a.rel r c && b.rel r c) else a.rel r c
  rw [g r c hr'' hc'']
  by_cases hin : r < a.size ∧ c < a.size
  · have h1 := hr.1.1
    have h2 := hr.2.2.1
    have h3 := hr.2.2.2.1
    rw [if_pos hin, if_pos hin, hr.2.2.2.2 r c (by omega) (by omega)]
  · rw [if_neg hin, if_neg hin]

theorem andSelf {m : Mat} {a : ARel} (hm : Refines m a) : Refines m.andSelf (a.andWith a) := by
  obtain ⟨w, p, s, rs, g⟩ := hm
  obtain ⟨i1, i2, i3, i4⟩ := Mat.andSelf_spec w
  refine ⟨i3, by rw [i2]; exact p, by rw [i1]; exact s, by rw [i2]; exact rs, ?_⟩
  intro r c hr' hc'
  have hr'' : r < a.cap := hr'
  have hc'' : c < a.cap := hc'
  rw [i4 r c (by omega), g r c hr'' hc'']
  show _ = if r < a.size ∧ c < a.size then (a.rel r c && a.rel r c) else a.rel r c
  simp

theorem rsym {m : Mat} {a : ARel} (hm : Refines m a) : Refines m.restrictToSymmetric a.rsym := by
  obtain ⟨w, p, s, rs, g⟩ := hm
  obtain ⟨k1, k2, k3, _, k5⟩ := Mat.restrictToSymmetric_refines w
  refine ⟨k1, by rw [k3]; exact p, by rw [k2]; exact s, by rw [k3]; exact rs, ?_⟩
  intro r c hr' hc'
  have hr'' : r < a.cap := hr'
  have hc'' : c < a.cap := hc'
  show _ = if r < a.size ∧ c < a.size then (a.rel r c && a.rel c r) else a.rel r c
  by_cases hin : r < a.size ∧ c < a.size
  · have := w.1
    rw [if_pos hin, Mat.restrictToSymmetric_spec w (by omega) (by omega), g r c hr'' hc'', g c r hc'' hr'']
  · rw [if_neg hin, k5 r c (by omega) (by rw [s]; exact hin), g r c hr'' hc'']

end Refines


namespace Mat

/-- **`r.transposed(r)`** (source and destination the same object): the loop reads entries it has already overwritten;
the outcome is that the part above the diagonal is mirrored onto the part below it – not the transposed relation -/
theorem transposedSelf_spec {m : Mat} (h : WF m) :
    m.transposedSelf.size = m.size ∧ m.transposedSelf.rowSize = m.rowSize ∧ WF m.transposedSelf ∧
    ∀ r c, c < m.rowSize → m.transposedSelf.get r c =
      if r < m.size ∧ c < m.size ∧ c < r then m.get c r else m.get r c := by
  have e0 : m.resize m.size false = m := by rw [resize_nogrow false h.1]
  unfold transposedSelf
  rw [e0]
  refine forN_ind (fun i (d : Mat) => d.size = m.size ∧ d.rowSize = m.rowSize ∧ WF d ∧
    ∀ r c, c < m.rowSize → d.get r c = if r < m.size ∧ c < m.size ∧ c < i ∧ c < r then m.get c r else m.get r c)
    ⟨rfl, rfl, h, fun r c _ => by simp⟩ ?_ |> fun hh => ⟨hh.1, hh.2.1, hh.2.2.1, fun r c hc => by
      rw [hh.2.2.2 r c hc]
      by_cases hin : r < m.size ∧ c < m.size ∧ c < r
      · rw [if_pos hin, if_pos ⟨hin.1, hin.2.1, hin.2.1, hin.2.2⟩]
      · rw [if_neg hin, if_neg (fun x => hin ⟨x.1, x.2.1, x.2.2.2⟩)]⟩
  intro i d hi ⟨d1, d2, d3, d4⟩
  refine forN_ind (fun j (d' : Mat) => d'.size = m.size ∧ d'.rowSize = m.rowSize ∧ WF d' ∧
    ∀ r c, c < m.rowSize → d'.get r c =
      if r < m.size ∧ c < m.size ∧ (c < i ∨ (c = i ∧ r < j)) ∧ c < r then m.get c r else m.get r c)
    ⟨d1, d2, d3, fun r c hc => by
      rw [d4 r c hc]
      have e : (c < i ∨ (c = i ∧ r < 0)) = (c < i) := by apply propext; omega
      simp only [e]⟩ ?_ |> fun hh => ⟨hh.1, hh.2.1, hh.2.2.1, fun r c hc => by
      rw [hh.2.2.2 r c hc]
      by_cases hr : r < m.size
      · have e : (c < i ∨ (c = i ∧ r < m.size)) = (c < i + 1) := by apply propext; omega
        simp only [e]
      · simp [hr]⟩
  intro j d' hj ⟨f1, f2, f3, f4⟩
  refine ⟨rfl.trans f1, rfl.trans f2, wf_set f3 _ _ _, ?_⟩
  intro r c hc
  have hrs := h.1
  rw [get_set_cap f3 (by rw [f1]; exact hj) (by rw [f1]; exact hi) _ r (by rw [f2]; exact hc), f4 r c hc,
    f4 i j (by omega)]
  by_cases hrc : r = j ∧ c = i
  · obtain ⟨rfl, rfl⟩ := hrc
    rw [if_pos ⟨rfl, rfl⟩]
    by_cases hlt : c < r
    · rw [if_neg (by omega), if_pos ⟨hj, hi, Or.inr ⟨rfl, by omega⟩, hlt⟩]
    · by_cases hgt : r < c
      · rw [if_pos ⟨hi, hj, Or.inl hgt, hgt⟩, if_neg (by omega)]
      · have : r = c := by omega
        subst this
        rw [if_neg (by omega), if_neg (by omega)]
  · rw [if_neg hrc]
    have e : (c < i ∨ (c = i ∧ r < j + 1)) = (c < i ∨ (c = i ∧ r < j)) := by
      apply propext
      constructor
      · rintro (x | ⟨x, y⟩)
        · exact Or.inl x
        · exact Or.inr ⟨x, by
            have : r ≠ j := fun e => hrc ⟨e, x⟩
            omega⟩
      · rintro (x | ⟨x, y⟩)
        · exact Or.inl x
        · exact Or.inr ⟨x, by omega⟩
    simp only [e]

end Mat

theorem Refines.transposedSelf {m : Mat} {a : ARel} (hm : Refines m a) : Refines m.transposedSelf a.transposedSelf := by
  obtain ⟨w, p, s, rs, g⟩ := hm
  obtain ⟨i1, i2, i3, i4⟩ := Mat.transposedSelf_spec w
  refine ⟨i3, by rw [i2]; exact p, by rw [i1]; exact s, by rw [i2]; exact rs, ?_⟩
  intro r c hr' hc'
  have hr'' : r < a.cap := hr'
  have hc'' : c < a.cap := hc'
  rw [i4 r c (by omega), s]
  show _ = if r < a.size ∧ c < a.size ∧ c < r then a.rel c r else a.rel r c
  rw [g r c hr'' hc'', g c r hc'' hr'']

/-! ## `buildClasses` -/

/-- two loops in lockstep -/
theorem forN_sim {σ τ : Type} (R : Nat → σ → τ → Prop) {n : Nat} {f : Nat → σ → σ} {g : Nat → τ → τ} {s : σ} {t : τ}
    (h0 : R 0 s t) (hs : ∀ i s t, i < n → R i s t → R (i + 1) (f i s) (g i t)) : R n (forN n f s) (forN n g t) := by
  have : ∀ k, k ≤ n → R k (forN k f s) (forN k g t) := by
    intro k
    induction k with
    | zero => intro _; exact h0
    | succ k ih => intro hk; rw [forN_succ, forN_succ]; exact hs k _ _ (by omega) (ih (by omega))
  exact this n (Nat.le_refl _)

theorem findIdx_congr {p q : Nat → Bool} : ∀ (l : List Nat), (∀ x, x ∈ l → p x = q x) → l.findIdx p = l.findIdx q
  | [], _ => rfl
  | x :: l, h => by
    rw [List.findIdx_cons, List.findIdx_cons, h x List.mem_cons_self,
      findIdx_congr l (fun y hy => h y (List.mem_cons_of_mem _ hy))]

/-- the body of `buildClasses(index, head)` -/
def cl2Step (sym : Nat → Nat → Bool) (i : Nat) (st : List Nat × List Nat) : List Nat × List Nat :=
  let j := findHead sym i st.2
  if j < st.2.length then (st.1.set i j, st.2) else (st.1.set i st.2.length, st.2 ++ [i])

/-- the body of `buildClasses(headIndex)` -/
def cl1Step (sym : Nat → Nat → Bool) (i : Nat) (st : List Nat × List Nat) : List Nat × List Nat :=
  let j := findHead sym i st.2
  if j < st.2.length then (st.1.set i (st.2.getD j 0), st.2) else (st.1.set i i, st.2 ++ [i])

theorem classes2_eq (sym : Nat → Nat → Bool) (n : Nat) : classes2 sym n = forN n (cl2Step sym) (List.replicate n 0, []) := rfl
theorem classes1_eq (sym : Nat → Nat → Bool) (n : Nat) : classes1 sym n = (forN n (cl1Step sym) (List.replicate n 0, [])).1 := rfl

/-- the heads found before round `i` are below `i` -/
theorem cl1_heads_lt (sym : Nat → Nat → Bool) (n : Nat) :
    ∀ h, h ∈ (forN n (cl1Step sym) (List.replicate n 0, [])).2 → h < n := by
  refine forN_ind (fun i (st : List Nat × List Nat) => ∀ h, h ∈ st.2 → h < i) (by simp) ?_
  intro i st _ ih h hh
  unfold cl1Step at hh
  simp only [] at hh
  split at hh
  · have := ih h hh; omega
  · rcases List.mem_append.mp hh with x | x
    · have := ih h x; omega
    · simp at x; omega

/-- `buildClasses` looks at `sym` below `n` only -/
theorem cl1_congr {sym sym' : Nat → Nat → Bool} {n : Nat} (h : ∀ i j, i < n → j < n → sym i j = sym' i j) :
    forN n (cl1Step sym) (List.replicate n 0, []) = forN n (cl1Step sym') (List.replicate n 0, []) := by
  have := forN_sim (fun i (s t : List Nat × List Nat) => s = t ∧ ∀ x, x ∈ s.2 → x < i)
    (f := cl1Step sym) (g := cl1Step sym') (s := (List.replicate n 0, [])) (t := (List.replicate n 0, [])) (n := n)
    ⟨rfl, by simp⟩ ?_
  · exact this.1
  · intro i s t hi ⟨e, hl⟩
    subst e
    have hf : findHead sym i s.2 = findHead sym' i s.2 :=
      findIdx_congr s.2 (fun x hx => h i x hi (by have := hl x hx; omega))
    unfold cl1Step
    simp only [hf]
    refine ⟨trivial, ?_⟩
    intro x hx
    split at hx
    · have := hl x hx; omega
    · rcases List.mem_append.mp hx with y | y
      · have := hl x y; omega
      · simp at y; omega

theorem cl2_congr {sym sym' : Nat → Nat → Bool} {n : Nat} (h : ∀ i j, i < n → j < n → sym i j = sym' i j) :
    forN n (cl2Step sym) (List.replicate n 0, []) = forN n (cl2Step sym') (List.replicate n 0, []) := by
  have := forN_sim (fun i (s t : List Nat × List Nat) => s = t ∧ ∀ x, x ∈ s.2 → x < i)
    (f := cl2Step sym) (g := cl2Step sym') (s := (List.replicate n 0, [])) (t := (List.replicate n 0, [])) (n := n)
    ⟨rfl, by simp⟩ ?_
  · exact this.1
  · intro i s t hi ⟨e, hl⟩
    subst e
    have hf : findHead sym i s.2 = findHead sym' i s.2 :=
      findIdx_congr s.2 (fun x hx => h i x hi (by have := hl x hx; omega))
    unfold cl2Step
    simp only [hf]
    refine ⟨trivial, ?_⟩
    intro x hx
    split at hx
    · have := hl x hx; omega
    · rcases List.mem_append.mp hx with y | y
      · have := hl x y; omega
      · simp at y; omega

theorem classes1_congr {sym sym' : Nat → Nat → Bool} {n : Nat} (h : ∀ i j, i < n → j < n → sym i j = sym' i j) :
    classes1 sym n = classes1 sym' n := by rw [classes1_eq, classes1_eq, cl1_congr h]

theorem classes2_congr {sym sym' : Nat → Nat → Bool} {n : Nat} (h : ∀ i j, i < n → j < n → sym i j = sym' i j) :
    classes2 sym n = classes2 sym' n := by rw [classes2_eq, classes2_eq, cl2_congr h]


theorem getD_set_nat (l : List Nat) (i k v : Nat) :
    (l.set i v).getD k 0 = if i = k ∧ i < l.length then v else l.getD k 0 := by
  simp only [List.getD_eq_getElem?_getD, List.getElem?_set]
  by_cases h : i = k
  · subst h
    by_cases h2 : i < l.length
    · simp [h2]
    · have : l[i]? = none := List.getElem?_eq_none_iff.mpr (by omega)
      simp [h2]
  · simp [h]

/-- `sym` is an equivalence on the indices below `n` -/
structure SymEquiv (sym : Nat → Nat → Bool) (n : Nat) : Prop where
  refl : ∀ i, i < n → sym i i = true
  symm : ∀ i j, i < n → j < n → sym i j = true → sym j i = true
  trans : ∀ i j k, i < n → j < n → k < n → sym i j = true → sym j k = true → sym i k = true

/-- no smaller index is related -/
def Least (sym : Nat → Nat → Bool) (l : Nat) : Prop := ∀ k, k < l → sym l k = false

/-- invariant of `buildClasses(headIndex)` on an equivalence -/
structure Cl1Inv (sym : Nat → Nat → Bool) (n i : Nat) (st : List Nat × List Nat) : Prop where
  len : st.1.length = n
  heads : ∀ h, h ∈ st.2 ↔ (h < i ∧ Least sym h)
  done : ∀ k, k < i → Least sym (st.1.getD k 0) ∧ st.1.getD k 0 ≤ k ∧ sym k (st.1.getD k 0) = true

theorem cl1_step {sym : Nat → Nat → Bool} {n : Nat} (hE : SymEquiv sym n) {i : Nat} (hi : i < n)
    {st : List Nat × List Nat} (h : Cl1Inv sym n i st) : Cl1Inv sym n (i + 1) (cl1Step sym i st) := by
  unfold cl1Step
  simp only []
  by_cases hf : findHead sym i st.2 < st.2.length
  · rw [if_pos hf]
    have hl : st.2.getD (findHead sym i st.2) 0 = st.2[findHead sym i st.2] := by
      simp [List.getD_eq_getElem?_getD, List.getElem?_eq_getElem hf]
    have hmem : st.2[findHead sym i st.2] ∈ st.2 := List.getElem_mem hf
    have hsym : sym i (st.2[findHead sym i st.2]) = true := List.findIdx_getElem (p := fun h => sym i h) (w := hf)
    obtain ⟨hlt, hleast⟩ := (h.heads _).mp hmem
    refine ⟨by simp [h.len], ?_, ?_⟩
    · intro x
      constructor
      · intro hx
        have := (h.heads x).mp hx
        exact ⟨by omega, this.2⟩
      · rintro ⟨hx1, hx2⟩
        by_cases hxi : x = i
        · subst hxi
          have := hx2 _ hlt
          rw [hsym] at this; cases this
        · exact (h.heads x).mpr ⟨by omega, hx2⟩
    · intro k hk
      rw [getD_set_nat, h.len, hl]
      by_cases hki : i = k
      · subst hki
        rw [if_pos ⟨rfl, hi⟩]
        exact ⟨hleast, by omega, hsym⟩
      · rw [if_neg (fun x => hki x.1)]
        exact h.done k (by omega)
  · rw [if_neg hf]
    have hnone : ∀ x, x ∈ st.2 → sym i x = false := by
      have : findHead sym i st.2 = st.2.length := by
        have := List.findIdx_le_length (p := fun h => sym i h) (xs := st.2)
        unfold findHead at hf ⊢
        omega
      exact List.findIdx_eq_length.mp this
    have hleast : Least sym i := by
      intro k hk
      cases hs : sym i k with
      | false => rfl
      | true =>
        obtain ⟨d1, d2, d3⟩ := h.done k hk
        have hmem := (h.heads _).mpr ⟨by omega, d1⟩
        have := hE.trans i k _ hi (by omega) (by omega) hs d3
        rw [hnone _ hmem] at this; cases this
    refine ⟨by simp [h.len], ?_, ?_⟩
    · intro x
      rw [List.mem_append]
      constructor
      · rintro (hx | hx)
        · have := (h.heads x).mp hx
          exact ⟨by omega, this.2⟩
        · simp at hx; subst hx; exact ⟨by omega, hleast⟩
      · rintro ⟨hx1, hx2⟩
        by_cases hxi : x = i
        · right; simp [hxi]
        · left; exact (h.heads x).mpr ⟨by omega, hx2⟩
    · intro k hk
      rw [getD_set_nat, h.len]
      by_cases hki : i = k
      · subst hki
        rw [if_pos ⟨rfl, hi⟩]
        exact ⟨hleast, Nat.le_refl _, hE.refl i hi⟩
      · rw [if_neg (fun x => hki x.1)]
        exact h.done k (by omega)

/-- **`buildClasses(headIndex)` on an equivalence**: every index is mapped to the least index of its class -/
theorem classes1_equiv {sym : Nat → Nat → Bool} {n : Nat} (hE : SymEquiv sym n) :
    (classes1 sym n).length = n ∧
    ∀ k, k < n → (classes1 sym n).getD k 0 ≤ k ∧ sym k ((classes1 sym n).getD k 0) = true ∧
      ∀ j, j < n → sym k j = true → (classes1 sym n).getD k 0 ≤ j := by
  have inv : Cl1Inv sym n n (forN n (cl1Step sym) (List.replicate n 0, [])) :=
    forN_ind (fun i st => Cl1Inv sym n i st) ⟨by simp, by simp, by intro k hk; omega⟩
      (fun i st hi h => cl1_step hE hi h)
  rw [classes1_eq]
  refine ⟨inv.len, ?_⟩
  intro k hk
  obtain ⟨d1, d2, d3⟩ := inv.done k hk
  refine ⟨d2, d3, ?_⟩
  intro j hj hkj
  apply Classical.byContradiction
  intro hn
  have hlt : j < (forN n (cl1Step sym) (List.replicate n 0, [])).1.getD k 0 := by omega
  have h1 := d1 j hlt
  have h2 := hE.trans _ k j (by omega) hk hj (hE.symm k _ hk (by omega) d3) hkj
  rw [h1] at h2; cases h2

/-- the two overloads of `buildClasses` agree: `headIndex[i] = head[index[i]]` -/
theorem classes1_classes2 (sym : Nat → Nat → Bool) (n : Nat) :
    classes1 sym n = (classes2 sym n).1.map (fun j => (classes2 sym n).2.getD j 0) := by
  have key := forN_sim (fun i (s t : List Nat × List Nat) => s.2 = t.2 ∧ s.1.length = n ∧ t.1.length = n ∧
      (∀ k, k < i → t.1.getD k 0 < t.2.length ∧ s.1.getD k 0 = t.2.getD (t.1.getD k 0) 0) ∧
      (∀ k, i ≤ k → s.1.getD k 0 = 0 ∧ t.1.getD k 0 = 0))
    (f := cl1Step sym) (g := cl2Step sym) (s := (List.replicate n 0, [])) (t := (List.replicate n 0, [])) (n := n)
    ⟨rfl, by simp, by simp, by intro k hk; omega, by
      intro k _
      simp only [List.getD_eq_getElem?_getD, List.getElem?_replicate]
      split <;> simp⟩ ?_
  · obtain ⟨_, k2, k3, k4, _⟩ := key
    rw [classes1_eq, classes2_eq]
    apply List.ext_getElem (by rw [k2, List.length_map, k3])
    intro k h1 h2
    have hk : k < n := by rw [← k2]; exact h1
    have := (k4 k hk).2
    rw [List.length_map] at h2
    simp only [List.getD_eq_getElem?_getD, List.getElem?_eq_getElem h1, List.getElem?_eq_getElem h2,
      Option.getD_some] at this
    rw [List.getElem_map, this]
    simp [List.getD_eq_getElem?_getD]
  · intro i s t hi ⟨e, l1, l2, hd, hz⟩
    unfold cl1Step cl2Step
    simp only []
    rw [e]
    by_cases hf : findHead sym i t.2 < t.2.length
    · rw [if_pos hf, if_pos hf]
      refine ⟨rfl, by simp [l1], by simp [l2], ?_, ?_⟩
      · intro k hk
        simp only [getD_set_nat, l1, l2]
        by_cases hki : i = k
        · subst hki; simp [hi, hf]
        · simp only [hki, false_and, if_false]
          exact hd k (by omega)
      · intro k hk
        simp only [getD_set_nat, l1, l2]
        have : ¬ i = k := by omega
        simp only [this, false_and, if_false]
        exact hz k (by omega)
    · rw [if_neg hf, if_neg hf]
      refine ⟨rfl, by simp [l1], by simp [l2], ?_, ?_⟩
      · intro k hk
        simp only [getD_set_nat, l1, l2]
        by_cases hki : i = k
        · subst hki
          simp [hi, List.getD_eq_getElem?_getD]
        · simp only [hki, false_and, if_false]
          obtain ⟨a1, a2⟩ := hd k (by omega)
          rw [a2]
          generalize t.1.getD k 0 = x at a1 ⊢
          refine ⟨by rw [List.length_append]; omega, ?_⟩
          simp only [List.getD_eq_getElem?_getD, List.getElem?_append, a1, if_true]
      · intro k hk
        simp only [getD_set_nat, l1, l2]
        have : ¬ i = k := by omega
        simp only [this, false_and, if_false]
        exact hz k (by omega)


/-! ### `Identity` -/

namespace Ident

theorem symEquiv (a : Ident) : SymEquiv a.sym a.size := by
  refine ⟨fun i _ => by simp [sym], fun i j _ _ h => ?_, fun i j k _ _ _ h1 h2 => ?_⟩
  · simp only [sym, beq_iff_eq] at h ⊢; exact h.symm
  · simp only [sym, beq_iff_eq] at h1 h2 ⊢; exact h1.trans h2

/-- **`Identity::buildClasses(headIndex)`**: every index is its own class -/
theorem classes1_eq_range (a : Ident) : a.classes1 = List.range a.size := by
  obtain ⟨h1, h2⟩ := classes1_equiv a.symEquiv
  unfold classes1
  apply List.ext_getElem (by rw [h1, List.length_range])
  intro k g1 g2
  have hk : k < a.size := by rw [← h1]; exact g1
  have := (h2 k hk).2.1
  simp only [sym, beq_iff_eq, List.getD_eq_getElem?_getD, List.getElem?_eq_getElem g1, Option.getD_some] at this
  rw [List.getElem_range, ← this]

/-- **`Identity::buildClasses(index, head)`**: `index[i] = i`, `head = 0, 1, …, size-1` -/
theorem classes2_eq_range (a : Ident) : a.classes2 = (List.range a.size, List.range a.size) := by
  have key : (fun (st : List Nat × List Nat) => st.2 = List.range a.size ∧ st.1.length = a.size ∧
      ∀ k, st.1.getD k 0 = if k < a.size then k else 0) (forN a.size (cl2Step a.sym) (List.replicate a.size 0, [])) := by
    refine forN_ind (fun i (st : List Nat × List Nat) => st.2 = List.range i ∧ st.1.length = a.size ∧
      ∀ k, st.1.getD k 0 = if k < i then k else 0) ⟨rfl, by simp, ?_⟩ ?_
    · intro k
      simp only [List.getD_eq_getElem?_getD, List.getElem?_replicate]
      split <;> simp
    · intro i st hi ⟨h1, h2, h3⟩
      have hnf : findHead a.sym i st.2 = st.2.length := by
        unfold findHead
        apply List.findIdx_eq_length.mpr
        intro x hx
        rw [h1, List.mem_range] at hx
        simp [sym]; omega
      unfold cl2Step
      simp only [hnf, Nat.lt_irrefl, if_false]
      refine ⟨by rw [h1, List.range_succ], by simp [h2], ?_⟩
      intro k
      rw [getD_set_nat, h2, h3 k, h1, List.length_range]
      by_cases hki : i = k
      · subst hki; simp [hi]
      · simp only [hki, false_and, if_false]
        by_cases hk : k < i
        · rw [if_pos hk, if_pos (by omega)]
        · rw [if_neg hk, if_neg (by omega)]
  obtain ⟨k1, k2, k3⟩ := key
  unfold classes2
  rw [classes2_eq]
  apply Prod.ext
  · apply List.ext_getElem (by rw [k2, List.length_range])
    intro k g1 g2
    have hk : k < a.size := by rw [← k2]; exact g1
    have := k3 k
    simp only [List.getD_eq_getElem?_getD, List.getElem?_eq_getElem g1, Option.getD_some, hk, if_true] at this
    rw [List.getElem_range, this]
  · exact k1

end Ident

/-! ### `buildClasses` and `GetQuotientProjection` on an equivalence coincide -/

namespace Mat

theorem symEquiv_of_isEquiv {m : Mat} (h : IsEquiv m) : SymEquiv m.sym m.size := by
  refine ⟨?_, ?_, ?_⟩
  · intro i hi; simp [sym, h.refl i hi]
  · intro i j _ _ hs
    simp only [sym, Bool.and_eq_true] at hs ⊢
    exact ⟨hs.2, hs.1⟩
  · intro i j k hi hj hk h1 h2
    simp only [sym, Bool.and_eq_true] at h1 h2 ⊢
    exact ⟨h.trans i j k hi hj hk h1.1 h2.1, h.trans k j i hk hj hi h2.2 h1.2⟩

/-- on an equivalence `GetQuotientProjection` and `buildClasses(headIndex)` compute the same vector -/
theorem quotProj_eq_classes1 {m : Mat} (h : IsEquiv m) : m.quotProj = (classes1 m.sym m.size).map some := by
  obtain ⟨q1, q2⟩ := quotProj_equiv h
  obtain ⟨c1, c2⟩ := classes1_equiv (symEquiv_of_isEquiv h)
  apply List.ext_getElem (by rw [q1, List.length_map, c1])
  intro k g1 g2
  have hk : k < m.size := by rw [← q1]; exact g1
  obtain ⟨a, ha1, ha2, ha3, ha4, _⟩ := q2 k hk
  obtain ⟨b1, b2, b3⟩ := c2 k hk
  rw [List.length_map] at g2
  simp only [List.getD_eq_getElem?_getD, List.getElem?_eq_getElem g1, List.getElem?_eq_getElem g2, Option.getD_some]
    at ha1 b1 b2 b3
  rw [List.getElem_map, ha1]
  congr 1
  have hb : (classes1 m.sym m.size)[k] < m.size := by omega
  have ha : a < m.size := by omega
  simp only [sym, Bool.and_eq_true] at b2
  have le1 : a ≤ (classes1 m.sym m.size)[k] := ha4 _ hb b2.2
  have le2 : (classes1 m.sym m.size)[k] ≤ a := b3 a ha (by simp [sym, ha3, h.symm a k ha hk ha3])
  omega

end Mat

/-! ## histories: the flat matrices denote the abstract relations -/

abbrev APool := List ARel

/-- the same history interpreter on the abstract model -/
def stepA (p : APool) : Op → Option (APool × Out)
  | .new size d rs => if 0 < rs then some (p ++ [ARel.mk' size d rs], .none) else none
  | .ofRows rows => if rows.all (fun r => r.length == rows.length) then some (p ++ [ARel.ofRows rows], .none) else none
  | .copy k => do let a ← p[k]?; some (p ++ [a], .none)
  | .assign k j => do let _ ← p[k]?; let a ← p[j]?; some (p.set k a, .none)
  | .set k r c v => do
    let a ← p[k]?
    if r < a.size ∧ c < a.size then some (p.set k (a.set r c v), .none) else none
  | .reset k v => do let a ← p[k]?; some (p.set k (a.reset v), .none)
  | .resize k n d => do let a ← p[k]?; some (p.set k (a.resize n d), .none)
  | .alloc k => do let a ← p[k]?; let r := a.alloc; some (p.set k r.1, .nat r.2)
  | .split k i refl => do
    let a ← p[k]?
    if i < a.size then let r := a.split i refl; some (p.set k r.1, .nat r.2) else none
  | .transp k j => do
    let a ← p[k]?
    let d ← p[j]?
    some (p.set j (if k = j then a.transposedSelf else a.transposedInto d), .none)
  | .and k j => do
    let a ← p[k]?
    let d ← p[j]?
    if a.size = d.size then some (p.set k (if k = j then a.andWith a else a.andWith d), .none) else none
  | .rsym k => do let a ← p[k]?; some (p.set k a.rsym, .none)
  | .get k r c => do
    let a ← p[k]?
    if r < a.size ∧ c < a.size then some (p, .bool (a.rel r c)) else none
  | .sym k r c => do
    let a ← p[k]?
    if r < a.size ∧ c < a.size then some (p, .bool (a.sym r c)) else none
  | .index k pre => do let a ← p[k]?; some (p, .idx (a.index pre))
  | .invIndex k pre => do let a ← p[k]?; some (p, .idx (a.invIndex pre))
  | .index2 k pre1 pre2 => do let a ← p[k]?; some (p, .idx2 (a.index pre1) (a.invIndex pre2))
  | .quot k => do let a ← p[k]?; some (p, .onats (quotientProjectionIdx a.rows))
  | .classes1 k => do let a ← p[k]?; some (p, .nats (classes1 a.sym a.size))
  | .classes2 k => do let a ← p[k]?; let r := classes2 a.sym a.size; some (p, .classes r.1 r.2)
  | .print k => do let a ← p[k]?; some (p, .text a.print)

def runA (p : APool) : List Op → APool × List (Option Out)
  | [] => (p, [])
  | op :: ops =>
    match stepA p op with
    | some (p', o) => let r := runA p' ops; (r.1, some o :: r.2)
    | none => let r := runA p ops; (r.1, none :: r.2)

/-- every live flat matrix denotes the abstract relation in the same slot -/
def PoolRef (pc : Pool) (pa : APool) : Prop :=
  pc.length = pa.length ∧ ∀ (k : Nat) (m : Mat) (a : ARel), pc[k]? = some m → pa[k]? = some a → Refines m a

namespace PoolRef

theorem lookup_some {pc : Pool} {pa : APool} (h : PoolRef pc pa) {k : Nat} {m : Mat} (hk : pc[k]? = some m) :
    ∃ a, pa[k]? = some a ∧ Refines m a := by
  have hlt : k < pc.length := by
    apply Classical.byContradiction
    intro hn
    rw [List.getElem?_eq_none_iff.mpr (by omega)] at hk; cases hk
  have hlt' : k < pa.length := by rw [← h.1]; exact hlt
  exact ⟨pa[k], List.getElem?_eq_getElem hlt', h.2 k m _ hk (List.getElem?_eq_getElem hlt')⟩

theorem lookup_none {pc : Pool} {pa : APool} (h : PoolRef pc pa) {k : Nat} (hk : pc[k]? = none) : pa[k]? = none := by
  have := List.getElem?_eq_none_iff.mp hk
  exact List.getElem?_eq_none_iff.mpr (by rw [← h.1]; exact this)

theorem append {pc : Pool} {pa : APool} (h : PoolRef pc pa) {m : Mat} {a : ARel} (hm : Refines m a) :
    PoolRef (pc ++ [m]) (pa ++ [a]) := by
  refine ⟨by simp [h.1], ?_⟩
  intro k m' a' h1 h2
  rw [List.getElem?_append] at h1 h2
  by_cases hk : k < pc.length
  · rw [if_pos hk] at h1
    rw [if_pos (by rw [← h.1]; exact hk)] at h2
    exact h.2 k m' a' h1 h2
  · rw [if_neg hk] at h1
    rw [if_neg (by rw [← h.1]; exact hk)] at h2
    rw [← h.1] at h2
    by_cases h0 : k - pc.length = 0
    · rw [h0] at h1 h2
      simp at h1 h2
      rw [← h1, ← h2]; exact hm
    · have : [m][k - pc.length]? = none := List.getElem?_eq_none_iff.mpr (by simp; omega)
      rw [this] at h1; cases h1

theorem set {pc : Pool} {pa : APool} (h : PoolRef pc pa) (k : Nat) {m : Mat} {a : ARel} (hm : Refines m a) :
    PoolRef (pc.set k m) (pa.set k a) := by
  refine ⟨by simp [h.1], ?_⟩
  intro j m' a' h1 h2
  rw [List.getElem?_set] at h1 h2
  by_cases hj : k = j
  · rw [if_pos hj] at h1 h2
    by_cases hl : k < pc.length
    · rw [if_pos hl] at h1
      rw [if_pos (by rw [← h.1]; exact hl)] at h2
      cases h1; cases h2; exact hm
    · rw [if_neg hl] at h1; cases h1
  · rw [if_neg hj] at h1 h2
    exact h.2 j m' a' h1 h2

end PoolRef


theorem forN_congr {σ : Type} {n : Nat} {f g : Nat → σ → σ} (h : ∀ i s, i < n → f i s = g i s) (s : σ) :
    forN n f s = forN n g s := by
  unfold forN
  apply foldl_congr_mem
  intro a x hx
  exact h x a (List.mem_range.mp hx)

namespace Refines

theorem get_eq {m : Mat} {a : ARel} (h : Refines m a) {r c : Nat} (hr : r < a.size) (hc : c < a.size) :
    m.get r c = a.rel r c := by
  obtain ⟨w, _, s, rs, g⟩ := h
  have := w.1
  exact g r c (by omega) (by omega)

theorem sym_eq {m : Mat} {a : ARel} (h : Refines m a) {r c : Nat} (hr : r < a.size) (hc : c < a.size) :
    m.sym r c = a.sym r c := by
  unfold Mat.sym ARel.sym
  rw [h.get_eq hr hc, h.get_eq hc hr]

/-- the observable state: the corner as a matrix -/
theorem toBMat_eq {m : Mat} {a : ARel} (h : Refines m a) : m.toBMat = a.rows := by
  unfold Mat.toBMat ARel.rows
  rw [h.2.2.1]
  apply List.map_congr_left
  intro r hr
  apply List.map_congr_left
  intro c hc
  exact h.get_eq (List.mem_range.mp hr) (List.mem_range.mp hc)

theorem index_eq {m : Mat} {a : ARel} (h : Refines m a) (pre : List (List Nat)) : m.buildIndex pre = a.index pre := by
  rw [Mat.buildIndex_spec]
  unfold ARel.index
  rw [h.2.2.1]
  apply List.map_congr_left
  intro r hr
  congr 1
  apply List.filter_congr
  intro c hc
  exact h.get_eq (List.mem_range.mp hr) (List.mem_range.mp hc)

theorem invIndex_eq {m : Mat} {a : ARel} (h : Refines m a) (pre : List (List Nat)) :
    m.buildInvIndex pre = a.invIndex pre := by
  rw [Mat.buildInvIndex_spec]
  unfold ARel.invIndex
  rw [h.2.2.1]
  apply List.map_congr_left
  intro c hc
  congr 1
  apply List.filter_congr
  intro r hr
  exact h.get_eq (List.mem_range.mp hr) (List.mem_range.mp hc)

theorem quot_eq {m : Mat} {a : ARel} (h : Refines m a) : m.quotProj = quotientProjectionIdx a.rows := by
  rw [Mat.quotProj_refines, h.toBMat_eq]

theorem classes1_eq {m : Mat} {a : ARel} (h : Refines m a) : classes1 m.sym m.size = classes1 a.sym a.size := by
  rw [h.2.2.1]
  exact classes1_congr (fun i j hi hj => h.sym_eq hi hj)

theorem classes2_eq {m : Mat} {a : ARel} (h : Refines m a) : classes2 m.sym m.size = classes2 a.sym a.size := by
  rw [h.2.2.1]
  exact classes2_congr (fun i j hi hj => h.sym_eq hi hj)

theorem print_eq {m : Mat} {a : ARel} (h : Refines m a) : m.print = a.print := by
  unfold Mat.print ARel.print
  rw [h.2.2.1]
  apply forN_congr
  intro i s hi
  congr 1
  apply forN_congr
  intro j s' hj
  rw [h.get_eq hi hj]

end Refines


/-- what it means for one step of the two interpreters to agree -/
def StepAgree (rc : Option (Pool × Out)) (ra : Option (APool × Out)) : Prop :=
  match rc, ra with
  | some (pc', o), some (pa', o') => PoolRef pc' pa' ∧ o = o'
  | none, none => True
  | _, _ => False

theorem stepAgree_none : StepAgree none none := trivial

theorem stepAgree_some {pc' : Pool} {pa' : APool} {o o' : Out} (h : PoolRef pc' pa') (e : o = o') :
    StepAgree (some (pc', o)) (some (pa', o')) := ⟨h, e⟩

/-- a step that reads one entry `k` of the pool -/
theorem step_one {pc : Pool} {pa : APool} (h : PoolRef pc pa) (k : Nat)
    (fc : Mat → Option (Pool × Out)) (fa : ARel → Option (APool × Out))
    (hf : ∀ m a, pc[k]? = some m → pa[k]? = some a → Refines m a → StepAgree (fc m) (fa a)) :
    StepAgree (pc[k]? >>= fc) (pa[k]? >>= fa) := by
  cases hk : pc[k]? with
  | none => rw [h.lookup_none hk]; exact stepAgree_none
  | some m =>
    obtain ⟨a, ha, hr⟩ := h.lookup_some hk
    rw [ha]
    exact hf m a hk ha hr

theorem step_refines {pc : Pool} {pa : APool} (h : PoolRef pc pa) (op : Op) : StepAgree (stepC pc op) (stepA pa op) := by
  cases op with
  | new size d rs =>
    simp only [stepC, stepA]
    by_cases hp : 0 < rs
    · rw [if_pos hp, if_pos hp]; exact stepAgree_some (h.append (Refines.mk' size d hp)) rfl
    · rw [if_neg hp, if_neg hp]; exact stepAgree_none
  | ofRows rows =>
    simp only [stepC, stepA]
    by_cases hp : rows.all (fun r => r.length == rows.length) = true
    · rw [if_pos hp, if_pos hp]; exact stepAgree_some (h.append (Refines.ofRows rows)) rfl
    · rw [if_neg hp, if_neg hp]; exact stepAgree_none
  | copy k =>
    exact step_one h k _ _ (fun m a _ _ hr => stepAgree_some (h.append hr) rfl)
  | assign k j =>
    refine step_one h k _ _ (fun _ _ _ _ _ => ?_)
    exact step_one h j _ _ (fun m a _ _ hr => stepAgree_some (h.set k hr) rfl)
  | set k r c v =>
    refine step_one h k _ _ (fun m a _ _ hr => ?_)
    show StepAgree (if r < m.size ∧ c < m.size then _ else none) (if r < a.size ∧ c < a.size then _ else none)
    rw [hr.2.2.1]
    by_cases hb : r < a.size ∧ c < a.size
    · rw [if_pos hb, if_pos hb]; exact stepAgree_some (h.set k (hr.set hb.1 hb.2 v)) rfl
    · rw [if_neg hb, if_neg hb]; exact stepAgree_none
  | reset k v =>
    exact step_one h k _ _ (fun m a _ _ hr => stepAgree_some (h.set k (hr.reset v)) rfl)
  | resize k n d =>
    exact step_one h k _ _ (fun m a _ _ hr => stepAgree_some (h.set k (hr.resize n d)) rfl)
  | alloc k =>
    exact step_one h k _ _ (fun m a _ _ hr => stepAgree_some (h.set k hr.alloc.1) (by rw [hr.alloc.2]))
  | split k i refl =>
    refine step_one h k _ _ (fun m a _ _ hr => ?_)
    show StepAgree (if i < m.size then _ else none) (if i < a.size then _ else none)
    rw [hr.2.2.1]
    by_cases hb : i < a.size
    · rw [if_pos hb, if_pos hb]
      exact stepAgree_some (h.set k (hr.split hb refl).1) (by rw [(hr.split hb refl).2])
    · rw [if_neg hb, if_neg hb]; exact stepAgree_none
  | transp k j =>
    refine step_one h k _ _ (fun m a _ _ hr => ?_)
    refine step_one h j _ _ (fun d b _ _ hd => ?_)
    by_cases hkj : k = j
    · simp only [hkj, if_true]
      exact stepAgree_some (h.set j hr.transposedSelf) rfl
    · simp only [hkj, if_false]
      exact stepAgree_some (h.set j (hr.transposedInto hd)) rfl
  | and k j =>
    refine step_one h k _ _ (fun m a _ _ hr => ?_)
    refine step_one h j _ _ (fun d b _ _ hd => ?_)
    show StepAgree (if m.size = d.size then _ else none) (if a.size = b.size then _ else none)
    rw [hr.2.2.1, hd.2.2.1]
    by_cases hs : a.size = b.size
    · rw [if_pos hs, if_pos hs]
      by_cases hkj : k = j
      · simp only [hkj, if_true]
        exact stepAgree_some (h.set j hr.andSelf) rfl
      · simp only [hkj, if_false]
        exact stepAgree_some (h.set k (hr.andWith hd hs)) rfl
    · rw [if_neg hs, if_neg hs]; exact stepAgree_none
  | rsym k =>
    exact step_one h k _ _ (fun m a _ _ hr => stepAgree_some (h.set k hr.rsym) rfl)
  | get k r c =>
    refine step_one h k _ _ (fun m a _ _ hr => ?_)
    show StepAgree (if r < m.size ∧ c < m.size then _ else none) (if r < a.size ∧ c < a.size then _ else none)
    rw [hr.2.2.1]
    by_cases hb : r < a.size ∧ c < a.size
    · rw [if_pos hb, if_pos hb]; exact stepAgree_some h (by rw [hr.get_eq hb.1 hb.2])
    · rw [if_neg hb, if_neg hb]; exact stepAgree_none
  | sym k r c =>
    refine step_one h k _ _ (fun m a _ _ hr => ?_)
    show StepAgree (if r < m.size ∧ c < m.size then _ else none) (if r < a.size ∧ c < a.size then _ else none)
    rw [hr.2.2.1]
    by_cases hb : r < a.size ∧ c < a.size
    · rw [if_pos hb, if_pos hb]; exact stepAgree_some h (by rw [hr.sym_eq hb.1 hb.2])
    · rw [if_neg hb, if_neg hb]; exact stepAgree_none
  | index k pre =>
    exact step_one h k _ _ (fun m a _ _ hr => stepAgree_some h (by rw [hr.index_eq]))
  | invIndex k pre =>
    exact step_one h k _ _ (fun m a _ _ hr => stepAgree_some h (by rw [hr.invIndex_eq]))
  | index2 k pre1 pre2 =>
    exact step_one h k _ _ (fun m a _ _ hr => stepAgree_some h
      (by rw [Mat.buildIndex2_spec, hr.index_eq, hr.invIndex_eq]))
  | quot k =>
    exact step_one h k _ _ (fun m a _ _ hr => stepAgree_some h (by rw [hr.quot_eq]))
  | classes1 k =>
    exact step_one h k _ _ (fun m a _ _ hr => stepAgree_some h (by rw [hr.classes1_eq]))
  | classes2 k =>
    exact step_one h k _ _ (fun m a _ _ hr => stepAgree_some h (by rw [hr.classes2_eq]))
  | print k =>
    exact step_one h k _ _ (fun m a _ _ hr => stepAgree_some h (by rw [hr.print_eq]))

/-- **the history theorem**: whatever operations are applied to a pool of relations, in whatever order, the flat
matrices (cells `r * rowSize + c`, reallocation, in-place loops) keep denoting the abstract relations, the two
interpreters refuse the same steps, and every step returns the same value -/
theorem runC_refines : ∀ (ops : List Op) {pc : Pool} {pa : APool}, PoolRef pc pa →
    PoolRef (runC pc ops).1 (runA pa ops).1 ∧ (runC pc ops).2 = (runA pa ops).2
  | [], _, _, h => ⟨h, rfl⟩
  | op :: ops, pc, pa, h => by
    have hs := step_refines h op
    unfold runC runA
    cases hc : stepC pc op with
    | none =>
      cases ha : stepA pa op with
      | none =>
        obtain ⟨i1, i2⟩ := runC_refines ops h
        exact ⟨i1, by simp only [i2]⟩
      | some ra => rw [hc, ha] at hs; exact absurd hs id
    | some rc =>
      cases ha : stepA pa op with
      | none => rw [hc, ha] at hs; exact absurd hs id
      | some ra =>
        rw [hc, ha] at hs
        obtain ⟨pc', o⟩ := rc
        obtain ⟨pa', o'⟩ := ra
        obtain ⟨i1, i2⟩ := runC_refines ops hs.1
        exact ⟨i1, by simp only [i2, hs.2]⟩

/-- from the empty pool: the observable state of every live relation (size and all entries below it) and all returned
values are those of the abstract model -/
theorem history (ops : List Op) :
    (runC [] ops).2 = (runA [] ops).2 ∧ (runC [] ops).1.map (fun m => (m.size, m.toBMat)) =
      (runA [] ops).1.map (fun a => (a.size, a.rows)) := by
  obtain ⟨h1, h2⟩ := runC_refines ops (pc := []) (pa := []) ⟨rfl, fun k m a hk _ => by simp at hk⟩
  refine ⟨h2, ?_⟩
  apply List.ext_getElem (by simp [h1.1])
  intro k g1 g2
  simp only [List.length_map] at g1 g2
  have hr := h1.2 k _ _ (List.getElem?_eq_getElem g1) (List.getElem?_eq_getElem g2)
  simp only [List.getElem_map]
  rw [hr.2.2.1, hr.toBMat_eq]

/-! ## `GetQuotientProjection` on an arbitrary relation -/

open RM in
/-- invariant of the outer loop of `GetQuotientProjection` before row `r`, for ANY matrix -/
structure QGen (b : BMat) (n r : Nat) (proj : List (Option Nat)) : Prop where
  len : proj.length = n
  rep : ∀ i k, pget proj i = some k → k < r ∧ k ≤ i ∧ pget proj k = some k ∧ (k = i ∨ (k < i ∧ mget b k i = true))
  done : ∀ i, i < r → i < n → pget proj i ≠ none
  last : ∀ i k k', pget proj i = some k → pget proj k' = some k' → k < k' → k' < i → mget b k' i = false
  undef : ∀ i k', i < n → pget proj i = none → pget proj k' = some k' → mget b k' i = false
  self : ∀ i k', pget proj i = some i → pget proj k' = some k' → k' < i → mget b k' i = false

open RM in
theorem qgen_step {b : BMat} {n r : Nat} {proj : List (Option Nat)} (h : QGen b n r proj) (hr : r < n) :
    QGen b n (r + 1) (Vata.qpRow b n proj r) := by
  obtain ⟨hl, hs⟩ := qpRow_spec b n proj r h.len hr
  cases hp : pget proj r with
  | some k0 =>
    have hs' : ∀ i, pget (Vata.qpRow b n proj r) i = pget proj i := by
      intro i; rw [hs, hp]; simp
    refine ⟨hl, ?_, ?_, ?_, ?_, ?_⟩
    · intro i k hi
      rw [hs'] at hi ⊢
      have := h.rep i k hi
      exact ⟨by omega, this.2⟩
    · intro i hi hin
      rw [hs']
      by_cases hir : i = r
      · rw [hir, hp]; simp
      · exact h.done i (by omega) hin
    · intro i k k' h1 h2 h3 h4
      rw [hs'] at h1 h2
      exact h.last i k k' h1 h2 h3 h4
    · intro i k' hin h1 h2
      rw [hs'] at h1 h2
      exact h.undef i k' hin h1 h2
    · intro i k' h1 h2 h3
      rw [hs'] at h1 h2
      exact h.self i k' h1 h2 h3
  | none =>
    have hin : ∀ i, (i = r ∨ (r < i ∧ i < n ∧ mget b r i = true)) → pget (Vata.qpRow b n proj r) i = some r := by
      intro i hi; rw [hs, hp, if_pos ⟨rfl, hi⟩]
    have hout : ∀ i, ¬ (i = r ∨ (r < i ∧ i < n ∧ mget b r i = true)) → pget (Vata.qpRow b n proj r) i = pget proj i := by
      intro i hi; rw [hs, hp, if_neg (fun x => hi x.2)]
    have hlow : ∀ i, i < r → pget (Vata.qpRow b n proj r) i = pget proj i := fun i hi => hout i (by omega)
    -- the heads after the round: the old ones and `r`
    have hheads : ∀ k', pget (Vata.qpRow b n proj r) k' = some k' → k' = r ∨ (k' < r ∧ pget proj k' = some k') := by
      intro k' hk
      by_cases hs' : (k' = r ∨ (r < k' ∧ k' < n ∧ mget b r k' = true))
      · rw [hin k' hs'] at hk; cases hk; exact Or.inl rfl
      · rw [hout k' hs'] at hk
        exact Or.inr ⟨(h.rep k' k' hk).1, hk⟩
    have hlt : ∀ i k, pget (Vata.qpRow b n proj r) i = some k → i < n := by
      intro i k hk; have := pget_lt hk; omega
    refine ⟨hl, ?_, ?_, ?_, ?_, ?_⟩
    · intro i k hi
      by_cases hs' : (i = r ∨ (r < i ∧ i < n ∧ mget b r i = true))
      · rw [hin i hs'] at hi; cases hi
        refine ⟨by omega, by omega, hin _ (Or.inl rfl), ?_⟩
        rcases hs' with e | e
        · exact Or.inl e.symm
        · exact Or.inr ⟨e.1, e.2.2⟩
      · rw [hout i hs'] at hi
        obtain ⟨r1, r2, r3, r4⟩ := h.rep i k hi
        exact ⟨by omega, r2, by rw [hlow k r1]; exact r3, r4⟩
    · intro i hi hin'
      by_cases hir : i = r
      · rw [hin i (Or.inl hir)]; simp
      · rw [hlow i (by omega)]; exact h.done i (by omega) hin'
    · intro i k k' h1 h2 h3 h4
      have hi := hlt i k h1
      by_cases hs' : (i = r ∨ (r < i ∧ i < n ∧ mget b r i = true))
      · rw [hin i hs'] at h1; cases h1
        rcases hheads k' h2 with e | e <;> omega
      · rw [hout i hs'] at h1
        rcases hheads k' h2 with e | ⟨e1, e2⟩
        · subst e
          cases hg : mget b k' i with
          | false => rfl
          | true => exact absurd (Or.inr ⟨h4, hi, hg⟩) hs'
        · exact h.last i k k' h1 e2 h3 h4
    · intro i k' hin' h1 h2
      by_cases hs' : (i = r ∨ (r < i ∧ i < n ∧ mget b r i = true))
      · rw [hin i hs'] at h1; cases h1
      · rw [hout i hs'] at h1
        rcases hheads k' h2 with e | ⟨e1, e2⟩
        · subst e
          have hge : ¬ i < k' := fun x => h.done i x hin' h1
          have hne : i ≠ k' := fun x => hs' (Or.inl x)
          cases hg : mget b k' i with
          | false => rfl
          | true => exact absurd (Or.inr ⟨by omega, hin', hg⟩) hs'
        · exact h.undef i k' hin' h1 e2
    · intro i k' h1 h2 h3
      rcases hheads i h1 with e | ⟨e1, e2⟩
      · subst e
        rcases hheads k' h2 with e' | ⟨e1', e2'⟩
        · omega
        · exact h.undef i k' hr hp e2'
      · rcases hheads k' h2 with e' | ⟨e1', e2'⟩
        · omega
        · exact h.self i k' e2 e2' h3

open RM in
theorem qgen_init (b : BMat) (n : Nat) : QGen b n 0 (List.replicate n none) :=
  ⟨by simp, fun i k h => by (rw [pget_replicate] at h; cases h), fun i h => by omega,
    fun i k k' h => by (rw [pget_replicate] at h; cases h), fun i k' _ _ h => by (rw [pget_replicate] at h; cases h),
    fun i k' h => by (rw [pget_replicate] at h; cases h)⟩

theorem qgen_range (b : BMat) (n : Nat) : ∀ r, r ≤ n → QGen b n r ((List.range r).foldl (Vata.qpRow b n) (List.replicate n none))
  | 0, _ => qgen_init b n
  | r + 1, hr => by
    rw [List.range_succ, List.foldl_append]
    exact qgen_step (qgen_range b n r (by omega)) (by omega)

namespace Mat

/-- `k` ends up as the representative of itself -/
def isHead (m : Mat) (k : Nat) : Prop := m.quotProj.getD k none = some k

/-- **`GetQuotientProjection` on ANY relation** (the documentation calls the result undefined unless the relation is an
equivalence; the release build, which has no `assert`, computes this): only the entries above the diagonal are read;
an index is a *head* iff no earlier head is related to it (row = the head, column = the index); every index is mapped
to itself if it is a head, and otherwise to the LAST earlier head that is related to it (a later row overwrites what
an earlier one wrote) -/
theorem quotProj_general (m : Mat) :
    m.quotProj.length = m.size ∧
    ∀ i, i < m.size → ∃ k, m.quotProj.getD i none = some k ∧ k ≤ i ∧ m.isHead k ∧ (k = i ∨ m.get k i = true) ∧
      (∀ k', m.isHead k' → k < k' → k' < i → m.get k' i = false) ∧
      (k = i → ∀ k', m.isHead k' → k' < i → m.get k' i = false) := by
  have inv := qgen_range m.toBMat m.size m.size (Nat.le_refl _)
  have e : m.quotProj = (List.range m.size).foldl (Vata.qpRow m.toBMat m.size) (List.replicate m.size none) := by
    rw [quotProj_refines, quotientProjectionIdx, length_toBMat]
  rw [← e] at inv
  refine ⟨inv.len, ?_⟩
  intro i hi
  cases hp : m.quotProj.getD i none with
  | none => exact absurd hp (inv.done i hi hi)
  | some k =>
    obtain ⟨r1, r2, r3, r4⟩ := inv.rep i k hp
    refine ⟨k, rfl, r2, r3, ?_, ?_, ?_⟩
    · rcases r4 with e | ⟨e1, e2⟩
      · exact Or.inl e
      · right; rw [← mget_toBMat (by omega) hi]; exact e2
    · intro k' hk' h1 h2
      rw [← mget_toBMat (by omega) hi]
      exact inv.last i k k' hp hk' h1 h2
    · intro hki k' hk' h2
      rw [← mget_toBMat (by omega) hi]
      rw [hki] at hp
      exact inv.self i k' hp hk' h2

end Mat

/-! ## `DiscontBinaryRelation` -/

/-! ### `DiscontBinaryRelation` -/

theorem mapM_ok {α β : Type} {f : α → Except String β} {g : α → β} : ∀ (l : List α), (∀ x, x ∈ l → f x = .ok (g x)) →
    l.mapM f = .ok (l.map g)
  | [], _ => rfl
  | x :: l, h => by
    rw [List.mapM_cons, h x List.mem_cons_self, mapM_ok l (fun y hy => h y (List.mem_cons_of_mem _ hy))]
    rfl

namespace Dict

theorem lookup_append_none {l : List (Nat × Nat)} {k v : Nat} (h : l.lookup k = none) :
    (l ++ [(k, v)]).lookup k = some v := by
  rw [List.lookup_append, h]; simp

/-- filling a dictionary pair by pair from pairs with distinct keys and distinct values stores exactly the pairs -/
theorem ofList_aux : ∀ (ps : List (Nat × Nat)) (d : Dict),
    (∀ p, p ∈ ps → d.fwd.lookup p.1 = none) → (∀ p, p ∈ ps → d.bwd.lookup p.2 = none) →
    (ps.map (·.1)).Nodup → (ps.map (·.2)).Nodup →
    (ps.foldl (fun d p => d.insert p.1 p.2) d).fwd = d.fwd ++ ps ∧
    (ps.foldl (fun d p => d.insert p.1 p.2) d).bwd = d.bwd ++ ps.map (fun p => (p.2, p.1))
  | [], d, _, _, _, _ => by simp
  | p :: ps, d, h1, h2, n1, n2 => by
    simp only [List.map_cons, List.nodup_cons] at n1 n2
    have e1 : (d.insert p.1 p.2).fwd = d.fwd ++ [(p.1, p.2)] := by
      simp [insert, h1 p List.mem_cons_self]
    have e2 : (d.insert p.1 p.2).bwd = d.bwd ++ [(p.2, p.1)] := by
      simp [insert, h2 p List.mem_cons_self]
    have g1 : ∀ q, q ∈ ps → (d.insert p.1 p.2).fwd.lookup q.1 = none := by
      intro q hq
      rw [e1, List.lookup_append, h1 q (List.mem_cons_of_mem _ hq)]
      have : q.1 ≠ p.1 := fun e => n1.1 (List.mem_map.mpr ⟨q, hq, e⟩)
      have hb : (q.1 == p.1) = false := by simp [this]
      simp [List.lookup_cons, hb]
    have g2 : ∀ q, q ∈ ps → (d.insert p.1 p.2).bwd.lookup q.2 = none := by
      intro q hq
      rw [e2, List.lookup_append, h2 q (List.mem_cons_of_mem _ hq)]
      have : q.2 ≠ p.2 := fun e => n2.1 (List.mem_map.mpr ⟨q, hq, e⟩)
      have hb : (q.2 == p.2) = false := by simp [this]
      simp [List.lookup_cons, hb]
    obtain ⟨i1, i2⟩ := ofList_aux ps (d.insert p.1 p.2) g1 g2 n1.2 n2.2
    simp only [List.foldl_cons]
    rw [i1, i2, e1, e2]
    simp

theorem ofList_spec {ps : List (Nat × Nat)} (n1 : (ps.map (·.1)).Nodup) (n2 : (ps.map (·.2)).Nodup) :
    (ofList ps).fwd = ps ∧ (ofList ps).bwd = ps.map (fun p => (p.2, p.1)) := by
  have := ofList_aux ps empty (fun _ _ => rfl) (fun _ _ => rfl) n1 n2
  simpa [ofList, empty] using this

end Dict

theorem lookup_of_mem_nodup : ∀ {l : List (Nat × Nat)} {k v : Nat}, (l.map (·.1)).Nodup → (k, v) ∈ l → l.lookup k = some v
  | [], _, _, _, h => by cases h
  | (a, b) :: l, k, v, hn, h => by
    simp only [List.map_cons, List.nodup_cons] at hn
    rw [List.lookup_cons]
    rcases List.mem_cons.mp h with e | e
    · cases e; simp
    · have : k ≠ a := fun x => hn.1 (List.mem_map.mpr ⟨(k, v), e, x⟩)
      have hb : (k == a) = false := by simp [this]
      rw [hb]
      exact lookup_of_mem_nodup hn.2 e

namespace Disc

/-- **`DiscontBinaryRelation(rel, dict)::get`**: the entry of `rel` at the indices the dictionary gives -/
theorem get_ofRel {rel : Mat} {ps : List (Nat × Nat)} (n1 : (ps.map (·.1)).Nodup) (n2 : (ps.map (·.2)).Nodup)
    {x y i j : Nat} (hx : (x, i) ∈ ps) (hy : (y, j) ∈ ps) :
    (ofRel rel (Dict.ofList ps)).get x y = .ok (rel.get i j) := by
  have hf := (Dict.ofList_spec n1 n2).1
  simp only [get, getIdx, at', ofRel, hf, lookup_of_mem_nodup n1 hx, lookup_of_mem_nodup n1 hy]
  rfl

/-- a state that is not in the dictionary: `get` throws (`std::runtime_error` from the const translator) -/
theorem get_unknown {rel : Mat} {ps : List (Nat × Nat)} (n1 : (ps.map (·.1)).Nodup) (n2 : (ps.map (·.2)).Nodup)
    {x y : Nat} (hx : ps.lookup x = none) : (ofRel rel (Dict.ofList ps)).get x y = .error "runtime_error" := by
  have hf := (Dict.ofList_spec n1 n2).1
  simp only [get, getIdx, at', ofRel, hf, hx]
  rfl

theorem size_ofRel (rel : Mat) (d : Dict) : (ofRel rel d).size = rel.size := rfl

/-- `RestrictToSymmetric` acts on the inner relation only -/
theorem restrictToSymmetric_rel (d : Disc) : d.restrictToSymmetric.rel = d.rel.restrictToSymmetric ∧
    d.restrictToSymmetric.dict = d.dict ∧ d.restrictToSymmetric.cnt = d.cnt := ⟨rfl, rfl, rfl⟩

/-- **`DiscontBinaryRelation::GetQuotientProjection` refines `projToMap`** of `Vata/ReduceModel.lean`: when the
dictionary numbers the states in the order `order` (`order[i]` is the state with inner index `i`), the map produced is
`projToMap order` of the inner vector, which is `quotientProjectionIdx` of the inner matrix -/
theorem quotProj_eq_projToMap (d : Disc) (order : List Nat) (hlen : order.length = d.rel.size)
    (hb : ∀ i, i < order.length → d.dict.bwd.lookup i = order[i]?) :
    d.quotProj = .ok (projToMap order (quotientProjectionIdx d.rel.toBMat)) := by
  rw [← Mat.quotProj_refines]
  obtain ⟨q1, q2⟩ := Mat.quotProj_general d.rel
  have htr : ∀ i, i < order.length → d.dict.translateBwd i = .ok (order.getD i 0) := by
    intro i hi
    unfold Dict.translateBwd
    rw [hb i hi, List.getElem?_eq_getElem hi]
    simp [List.getD_eq_getElem?_getD, List.getElem?_eq_getElem hi]
    rfl
  unfold quotProj
  rw [mapM_ok (g := fun p => (order.getD p.2 0, match p.1 with | some j => order.getD j 0 | none => 0))]
  · congr 1
    unfold projToMap
    apply List.ext_getElem
    · simp [q1, hlen]
    · intro i g1 g2
      simp only [List.length_map, List.length_zip, List.length_range, q1, Nat.min_self] at g1
      have hi : i < order.length := by rw [hlen]; exact g1
      obtain ⟨k, hk1, hk2, _⟩ := q2 i g1
      have hpi : d.rel.quotProj[i]'(by rw [q1]; exact g1) = some k := by
        simp only [List.getD_eq_getElem?_getD, List.getElem?_eq_getElem (show i < d.rel.quotProj.length by rw [q1]; exact g1),
          Option.getD_some] at hk1
        exact hk1
      simp only [List.getElem_map, List.getElem_zip, List.getElem_range, hpi, projTarget]
      have hk : k < order.length := by omega
      simp [List.getD_eq_getElem?_getD, List.getElem?_eq_getElem hi, List.getElem?_eq_getElem hk]
  · intro x hx
    obtain ⟨i, hi, e⟩ := List.mem_iff_getElem.mp hx
    simp only [List.length_zip, List.length_range, q1, Nat.min_self] at hi
    rw [List.getElem_zip, List.getElem_range] at e
    obtain ⟨k, hk1, hk2, _⟩ := q2 i hi
    have hpi : d.rel.quotProj[i]'(by rw [q1]; exact hi) = some k := by
      simp only [List.getD_eq_getElem?_getD, List.getElem?_eq_getElem (show i < d.rel.quotProj.length by rw [q1]; exact hi),
        Option.getD_some] at hk1
      exact hk1
    rw [← e, hpi]
    simp only []
    rw [htr i (by rw [hlen]; exact hi), htr k (by rw [hlen]; omega)]
    rfl

end Disc

/-! ## the Boolean tests of the driver -/

namespace Mat

/-- the Boolean test the driver uses decides `IsEquiv` -/
theorem isEquivB_iff (m : Mat) : m.isEquivB = true ↔ IsEquiv m := by
  simp only [isEquivB, Bool.and_eq_true, List.all_eq_true, List.mem_range, Bool.or_eq_true, Bool.not_eq_true',
    Bool.and_eq_true]
  constructor
  · rintro ⟨⟨h1, h2⟩, h3⟩
    refine ⟨h1, ?_, ?_⟩
    · intro i j hi hj hg
      rcases h2 i hi j hj with x | x
      · rw [hg] at x; cases x
      · exact x
    · intro i j k hi hj hk g1 g2
      rcases h3 i hi j hj k hk with x | x
      · simp only [g1, g2, Bool.and_self] at x; cases x
      · exact x
  · intro h
    refine ⟨⟨h.refl, ?_⟩, ?_⟩
    · intro i hi j hj
      cases hg : m.get i j with
      | false => exact Or.inl rfl
      | true => exact Or.inr (h.symm i j hi hj hg)
    · intro i hi j hj k hk
      cases g1 : m.get i j with
      | false => left; simp
      | true =>
        cases g2 : m.get j k with
        | false => left; simp
        | true => right; exact h.trans i j k hi hj hk g1 g2

theorem isSymEquivB_sound {m : Mat} (h : m.isSymEquivB = true) : SymEquiv m.sym m.size := by
  simp only [isSymEquivB, Bool.and_eq_true, List.all_eq_true, List.mem_range, Bool.or_eq_true, Bool.not_eq_true',
    Bool.and_eq_true] at h
  obtain ⟨h1, h3⟩ := h
  refine ⟨?_, ?_, ?_⟩
  · intro i hi; simp [sym, h1 i hi]
  · intro i j _ _ hs
    simp only [sym, Bool.and_eq_true] at hs ⊢
    exact ⟨hs.2, hs.1⟩
  · intro i j k hi hj hk g1 g2
    rcases h3 i hi j hj k hk with x | x
    · simp only [g1, g2, Bool.and_self] at x; cases x
    · exact x

end Mat

/-! ## concrete instances (non-vacuity) and what the code does NOT promise -/

namespace BinRelEx
open Mat

deriving instance DecidableEq for Except

/-- `BinaryRelation r(3, false, 2)` (the constructor has to grow: capacity 4), three entries set -/
def exM : Mat := (((Mat.mk' 3 false 2).set 0 1 true).set 1 0 true).set 1 2 true

theorem exM_wf : WF exM ∧ 0 < exM.rowSize := by unfold WF; decide
example : exM.rowSize = 4 ∧ exM.size = 3 ∧
    exM.toBMat = [[false, true, false], [true, false, true], [false, false, false]] := by decide

-- `get_set`
example : (exM.set 2 0 true).get 2 0 = true ∧ (exM.set 2 0 true).get 0 1 = exM.get 0 1 :=
  ⟨by rw [get_set exM_wf.1 (by decide) (by decide) (by decide) (by decide)]; simp,
   by rw [get_set exM_wf.1 (by decide) (by decide) (by decide) (by decide)]; simp⟩

-- `resize` beyond the capacity (4 < 6: capacity 8): old entries kept, new ones `defVal`
example : exM.rowSize < 6 := by decide
example : (exM.resize 6 true).rowSize = 8 ∧ (exM.resize 6 true).toBMat =
    [[false, true, false, true, true, true], [true, false, true, true, true, true], [false, false, false, true, true, true],
     [true, true, true, true, true, true], [true, true, true, true, true, true], [true, true, true, true, true, true]] := by
  decide

/-- **stale cells 1**: `BinaryRelation r(2, false, 2); r.set(1,1,true); r.resize(1); r.resize(2, false);` -/
def stale1 : Mat := (((Mat.mk' 2 false 2).set 1 1 true).resize 1 false).resize 2 false
/-- the entry removed by shrinking is back after growing again, although `defVal = false` was asked for -/
theorem stale1_shows_old_entry : stale1.size = 2 ∧ stale1.get 1 1 = true := by decide

/-- **stale cells 2**: `BinaryRelation r(0, true, 4); r.resize(3);` – `resize`'s `defVal` defaults to `false` -/
def stale2 : Mat := (Mat.mk' 0 true 4).resize 3 false
/-- … but all nine entries are `true`, the constructor's `defVal` -/
theorem stale2_all_true : stale2.toBMat = [[true, true, true], [true, true, true], [true, true, true]] := by decide

/-- the same with `alloc()`, which has no `defVal` at all -/
example : ((Mat.mk' 1 true 4).alloc).1.toBMat = [[true, true], [true, true]] := by decide

-- `split` exactly at the capacity (`r(2, true, 2)`: size 2 = rowSize 2): grows to 4, copies row and column 1
example : WF (Mat.mk' 2 true 2) ∧ 0 < (Mat.mk' 2 true 2).rowSize ∧ 1 < (Mat.mk' 2 true 2).size ∧
    (Mat.mk' 2 true 2).size ≥ (Mat.mk' 2 true 2).rowSize := by unfold WF; decide
example : ((exM.split 1 false).1.toBMat, (exM.split 1 false).2) =
    ([[false, true, false, true], [true, false, true, false], [false, false, false, false], [true, false, true, false]], 3) := by
  decide

-- the index builders, into an empty and into a used vector
example : exM.buildIndex [] = [[1], [0, 2], []] ∧ exM.buildInvIndex [] = [[1], [0], [1]] ∧
    exM.buildIndex [[7], [], [8, 9], [5]] = [[7, 1], [0, 2], [8, 9]] ∧
    exM.buildIndex2 [] [[4]] = ([[1], [0, 2], []], [[4, 1], [0], [1]]) := by decide

-- `transposed` into a smaller object, and into itself
example : WF (Mat.mk' 1 true 2) ∧ 0 < (Mat.mk' 1 true 2).rowSize := by unfold WF; decide
example : (exM.transposedInto (Mat.mk' 1 true 2)).toBMat = [[false, true, false], [true, false, false], [false, true, false]] := by
  decide
/-- `r.transposed(r)` is NOT the transposed relation: `(2,1)` gets `(1,2)` but `(1,2)` keeps its value -/
theorem transposedSelf_not_transposed :
    exM.transposedSelf.toBMat = [[false, true, false], [true, false, true], [false, true, false]] := by decide

-- `RestrictToSymmetric`
example : exM.restrictToSymmetric.toBMat = [[false, true, false], [true, false, false], [false, false, false]] := by decide

/-- an equivalence with the classes `{0, 2}` and `{1, 3}` -/
def exE : Mat := Mat.ofRows [[true, false, true, false], [false, true, false, true], [true, false, true, false],
  [false, true, false, true]]
theorem exE_equiv : IsEquiv exE := (isEquivB_iff exE).mp (by decide +kernel)
example : exE.quotProj = [some 0, some 1, some 0, some 1] ∧ classes1 exE.sym exE.size = [0, 1, 0, 1] ∧
    classes2 exE.sym exE.size = ([0, 1, 0, 1], [0, 1]) := by decide +kernel

/-- a preorder that is not symmetric (`0 ≤ 1 ≤ 2`): the two "class" functions disagree – `GetQuotientProjection` sends
`2` to the LAST related head … -/
def exP : Mat := Mat.ofRows [[true, true, true], [false, true, true], [false, false, true]]
example : ¬ IsEquiv exP := fun h => by
  have := (isEquivB_iff exP).mpr h
  revert this; decide +kernel
/-- … here every index goes to `0`, because `1` is claimed by `0` before its own row is reached -/
example : exP.quotProj = [some 0, some 0, some 0] := by decide +kernel
/-- `buildClasses` looks at `sym`, for which every index is alone -/
example : classes1 exP.sym exP.size = [0, 1, 2] := by decide +kernel
/-- a relation where a later head overwrites: heads `0` and `1`, index `2` related to both goes to `1` -/
example : (Mat.ofRows [[true, false, true], [false, true, true], [false, false, true]]).quotProj = [some 0, some 1, some 1] := by
  decide +kernel

-- `Identity`
example : (Ident.mk 3).classes1 = [0, 1, 2] ∧ (Ident.mk 3).classes2 = ([0, 1, 2], [0, 1, 2]) := by decide

/-- a history: construct at capacity 2, grow by `split`, shrink, grow back (stale), copy, transpose into the copy,
`&=`, `RestrictToSymmetric`, queries; one refused step (`set` outside the size) -/
def exOps : List Op :=
  [.new 2 false 2, .set 0 0 1 true, .split 0 1 true, .resize 0 1 false, .resize 0 3 true, .copy 0, .set 1 2 0 true,
   .transp 1 0, .set 0 5 5 true, .and 0 1, .rsym 1, .index 0 [], .quot 1, .alloc 1]

example : (runC [] exOps).2 =
    [some .none, some .none, some (.nat 2), some .none, some .none, some .none, some .none, some .none, none, some .none,
     some .none, some (.idx [[2], [], [0, 2]]), some (.onats [some 0, some 1, some 0]), some (.nat 3)] ∧
    (runC [] exOps).1.map (fun m => m.toBMat) =
      [[[false, false, true], [false, false, false], [true, false, true]],
       [[false, false, true, false], [false, false, false, false], [true, false, true, false], [false, false, false, false]]] := by
  decide +kernel

/-- `DiscontBinaryRelation(exE, {5↦0, 9↦1, 7↦2, 4↦3})` -/
def exD : Disc := Disc.ofRel exE (Dict.ofList [(5, 0), (9, 1), (7, 2), (4, 3)])
example : exD.get 5 7 = .ok true ∧ exD.get 5 9 = .ok false ∧ exD.get 5 6 = .error "runtime_error" := by decide +kernel
example : [5, 9, 7, 4].length = exD.rel.size ∧ ∀ i, i < [5, 9, 7, 4].length → exD.dict.bwd.lookup i = [5, 9, 7, 4][i]? := by
  decide +kernel
example : exD.quotProj = .ok [(5, 5), (9, 9), (7, 5), (4, 9)] := by decide +kernel

/-- **the index counter of a relation built from (relation, dictionary) starts at 0**: `set` on a state the dictionary
does not know gives it the inner index `0` – the index of state `5` – so the new state `6` is an alias of `5`
(`TwoWayDict::Insert` reports "backward mapping for 0 already found" and, without `assert`, carries on) -/
theorem counter_restarts_at_zero :
    (exD.set 6 6 false true).get 5 5 = .ok false ∧ (exD.set 6 6 false true).get 6 7 = .ok true ∧
    (exD.set 6 6 false true).dict.fwd.lookup 6 = some 0 ∧ (exD.set 6 6 false true).dict.bwd.lookup 0 = some 5 := by
  decide +kernel

/-- `set` on two new states translates both in one argument list: the inner numbering depends on the (unspecified)
order of evaluation -/
example : ((Disc.mk' 2 false 2).set 10 20 true true).dict.fwd = [(20, 0), (10, 1)] ∧
    ((Disc.mk' 2 false 2).set 10 20 true false).dict.fwd = [(10, 0), (20, 1)] := by decide +kernel

/-- a relation constructed with a size whose states were not all introduced: the index builders throw -/
example : ((Disc.mk' 2 false 2).set 10 10 true true).buildIndex = .error "out_of_range" := by decide +kernel

end BinRelEx

end BinRel
end Vata
