import Vata.FunctorCachesUpSim
import Vata.Proofs.FunctorCachesUp
import Vata.Proofs.InclUpSim
/-!
# The caches of the upward algorithm with a simulation: heap invariant, `lte` modulo the relation, the antichains

Model: `Vata/FunctorCachesUpSim.lean`.  The invariant of `Vata/Proofs/FunctorCachesUp.lean` with two changes:

* the entries of `lteCache` hold `noncachedLte` MODULO THE RELATION (`lteNC R`) of the current values of two live objects;
* **interning** is part of the invariant (`HInvS.vi`: two live objects with the same value are the same object).  Without the
  relation it was not needed (`⊆` is reflexive, so the pointer test of the lambda `lte` is a shortcut only).  With an arbitrary
  relation `noncachedLte(x, x)` may be `false`; the cache-free model `InclUpSim.lte` says "the same set, or …", the code says
  "the same pointer, or …" – they agree because `biggerTypeCache.lookup` returns the live object with that value if there is one.

No hypothesis on the relation anywhere.  Second half (macro-states, the loops, the theorems): `FunctorCachesUpSim2.lean`.
-/
namespace Vata
namespace FCUS
open Vata.InclUp Vata.CM Vata.FCU

/-! ### the invariant of the heap and of the two memo tables -/

/-- one object per address and per value; the tables are well formed; every entry is about live objects and holds the value of
the memoised function on their values -/
structure HInvS (R : Rel) (B : TA) (h : Heap) : Prop where
  na : h.addrs.Nodup
  vi : ∀ a b, Live h a → Live h b → hval h a = hval h b → a = b
  li : h.lte.Inv
  ei : h.ev.Inv
  sl : ∀ a b r, aget h.lte.store (a, b) = some r → Live h a ∧ Live h b ∧ r = lteNC R (hval h a) (hval h b)
  se : ∀ k b r, aget h.ev.store (k, b) = some r → Live h b ∧ r = evalT B k (hval h b)

theorem HInvS.empty (R : Rel) (B : TA) : HInvS R B {} :=
  ⟨List.nodup_nil, (fun _ _ h => by cases h), BinOp.empty_inv, BinOp.empty_inv, (fun _ _ _ h => by cases h),
    (fun _ _ _ h => by cases h)⟩

/-- the value of a live object is the second component of an object of the store -/
theorem hval_mem {h : Heap} {a : Nat} (ha : Live h a) : ∃ o, o ∈ h.store ∧ o.1 = a ∧ hval h a = o.2 := by
  obtain ⟨o, h1, h2, h3⟩ := find_addr_of_mem ha
  exact ⟨o, h3, h2, by simp only [hval, h1]⟩

/-- `biggerTypeCache.lookup(v)`: the returned object is live and holds `v`; the live objects keep their values -/
theorem hLookupS_spec (pick : List Nat → Nat) {R : Rel} {B : TA} {h : Heap} (hi : HInvS R B h) (v : List Nat) :
    HInvS R B (hLookup pick h v).1 ∧ Live (hLookup pick h v).1 (hLookup pick h v).2 ∧
    hval (hLookup pick h v).1 (hLookup pick h v).2 = v ∧
    (∀ a, Live h a → Live (hLookup pick h v).1 a ∧ hval (hLookup pick h v).1 a = hval h a) := by
  unfold hLookup
  split
  · next o ho =>
    have hm := List.mem_of_find?_eq_some ho
    have hv : o.2 = v := by simpa using List.find?_some ho
    have hlive : Live h o.1 := List.mem_map_of_mem hm
    refine ⟨hi, hlive, ?_, fun a ha => ⟨ha, rfl⟩⟩
    obtain ⟨o', h1, h2, h3⟩ := find_addr_of_mem hlive
    have : o' = o := mem_unique_addr hi.na hm h3 h2
    simp only [hval, h1, this, hv]
  · next hnone =>
    have hfresh := allocA_fresh pick h.addrs
    have hnov : ∀ a, Live h a → hval h a ≠ v := by
      intro a ha e
      obtain ⟨o, hm, _, ho⟩ := hval_mem ha
      have := List.find?_eq_none.mp hnone o hm
      apply this
      simp only [beq_iff_eq]
      rw [← ho]; exact e
    have hlive' : ∀ a, Live { h with store := h.store ++ [(allocA pick h.addrs, v)] } a →
        Live h a ∨ a = allocA pick h.addrs := by
      intro a ha
      simp only [Live, Heap.addrs, List.map_append, List.mem_append, List.map_cons, List.map_nil,
        List.mem_singleton] at ha
      exact ha
    refine ⟨⟨?_, ?_, hi.li, hi.ei, ?_, ?_⟩, ?_, hval_append_new hfresh, ?_⟩
    · simp only [Heap.addrs, List.map_append, List.map_cons, List.map_nil]
      refine List.nodup_append.mpr ⟨hi.na, by simp, ?_⟩
      intro a ha b hb
      simp only [List.mem_singleton] at hb
      subst hb
      intro e; subst e; exact hfresh ha
    · intro a b ha hb e
      rcases hlive' a ha with ha | rfl
      · rcases hlive' b hb with hb | rfl
        · rw [hval_append_old ha, hval_append_old hb] at e
          exact hi.vi a b ha hb e
        · rw [hval_append_old ha, hval_append_new hfresh] at e
          exact (hnov a ha e).elim
      · rcases hlive' b hb with hb | rfl
        · rw [hval_append_old hb, hval_append_new hfresh] at e
          exact (hnov b hb e.symm).elim
        · rfl
    · intro a b r hr
      obtain ⟨ha, hb, he⟩ := hi.sl a b r hr
      refine ⟨?_, ?_, ?_⟩
      · simp only [Live, Heap.addrs, List.map_append, List.mem_append]; exact Or.inl ha
      · simp only [Live, Heap.addrs, List.map_append, List.mem_append]; exact Or.inl hb
      · rw [hval_append_old ha, hval_append_old hb]; exact he
    · intro k b r hr
      obtain ⟨hb, he⟩ := hi.se k b r hr
      refine ⟨?_, ?_⟩
      · simp only [Live, Heap.addrs, List.map_append, List.mem_append]; exact Or.inl hb
      · rw [hval_append_old hb]; exact he
    · simp [Live, Heap.addrs]
    · intro a ha
      refine ⟨?_, hval_append_old ha⟩
      simp only [Live, Heap.addrs, List.map_append, List.mem_append]; exact Or.inl ha

/-- the invariant moves to a heap with the same objects and the same tables up to the one that changed -/
theorem vi_store {h h' : Heap} (hs : h'.store = h.store)
    (hv : ∀ a b, Live h a → Live h b → hval h a = hval h b → a = b) :
    ∀ a b, Live h' a → Live h' b → hval h' a = hval h' b → a = b := by
  intro a b ha hb e
  rw [hval_store hs, hval_store hs] at e
  exact hv a b ((live_store hs a).mp ha) ((live_store hs b).mp hb) e

/-- **the lambda `lte` answers `InclUpSim.lte R (*x) (*y)` on live objects** – pointer equality stands for equality of the sets
because the objects are interned – and keeps the invariant -/
theorem hLteS_spec {R : Rel} {B : TA} {h : Heap} (hi : HInvS R B h) {a b : Nat} (ha : Live h a) (hb : Live h b) :
    (hLteS R h a b).2 = InclUpSim.lte R (hval h a) (hval h b) ∧ HInvS R B (hLteS R h a b).1 ∧
    (hLteS R h a b).1.store = h.store := by
  unfold hLteS
  split
  · next e =>
    subst e
    refine ⟨?_, hi, rfl⟩
    simp [InclUpSim.lte]
  · next hne =>
    simp only
    have hans := BinOp.lookup_ans h.lte a b (fun x y => lteNC R (hval h x) (hval h y))
    have hst := BinOp.lookup_store h.lte a b (fun x y => lteNC R (hval h x) (hval h y))
    have hans' : (h.lte.lookup a b (fun x y => lteNC R (hval h x) (hval h y))).2 = lteNC R (hval h a) (hval h b) := by
      rw [hans]
      cases hg : aget h.lte.store (a, b) with
      | none => rfl
      | some v => exact (hi.sl a b v hg).2.2
    have hvne : (hval h a == hval h b) = false := by
      cases hc : hval h a == hval h b with
      | false => rfl
      | true => exact (hne (hi.vi a b ha hb (by simpa using hc))).elim
    refine ⟨?_, ⟨hi.na, vi_store rfl hi.vi, BinOp.lookup_inv hi.li _ _ _, hi.ei, ?_, hi.se⟩, trivial⟩
    · rw [hans']
      simp only [InclUpSim.lte, hvne, Bool.false_or]
      rfl
    · intro a' b' r hr
      rw [hst] at hr
      split at hr
      · next hk =>
        simp only [Prod.mk.injEq] at hk
        obtain ⟨rfl, rfl⟩ := hk
        simp only [Option.some.injEq] at hr
        exact ⟨ha, hb, by rw [← hr]; exact hans'⟩
      · exact hi.sl a' b' r hr

/-- the lambda `evalTransitions` answers `noncachedEvalTransitions` on a live object and keeps the invariant -/
theorem hEvalS_spec {R : Rel} {B : TA} {h : Heap} (hi : HInvS R B h) (k : EKey) {a : Nat} (ha : Live h a) :
    (hEval B h k a).2 = evalT B k (hval h a) ∧ HInvS R B (hEval B h k a).1 ∧ (hEval B h k a).1.store = h.store := by
  unfold hEval
  simp only
  have hans := BinOp.lookup_ans h.ev k a (fun k' y => evalT B k' (hval h y))
  have hst := BinOp.lookup_store h.ev k a (fun k' y => evalT B k' (hval h y))
  have hans' : (h.ev.lookup k a (fun k' y => evalT B k' (hval h y))).2 = evalT B k (hval h a) := by
    rw [hans]
    cases hg : aget h.ev.store (k, a) with
    | none => rfl
    | some v => exact (hi.se k a v hg).2
  refine ⟨hans', ⟨hi.na, vi_store rfl hi.vi, hi.li, BinOp.lookup_inv hi.ei _ _ _, hi.sl, ?_⟩, trivial⟩
  intro k' b' r hr
  rw [hst] at hr
  split at hr
  · next hk =>
    simp only [Prod.mk.injEq] at hk
    obtain ⟨rfl, rfl⟩ := hk
    simp only [Option.some.injEq] at hr
    exact ⟨ha, by rw [← hr]; exact hans'⟩
  · exact hi.se k' b' r hr

/-- **the deaths, with the library's wiring**: the invariant is kept, the objects with a handle keep their values -/
theorem hCollectS_spec {R : Rel} {B : TA} {h : Heap} (hi : HInvS R B h) (roots : List Nat) :
    HInvS R B (hCollect .lib roots h) ∧
    (∀ a, a ∈ roots → Live h a → Live (hCollect .lib roots h) a ∧ hval (hCollect .lib roots h) a = hval h a) := by
  obtain ⟨i1, i2, _, i4, i5⟩ := fold_deleter_lib ((h.store.filter (fun o => !roots.contains o.1)).map (·.1)) h hi.li hi.ei
  have hkeep : ∀ a, Live h a → a ∉ (h.store.filter (fun o => !roots.contains o.1)).map (·.1) →
      Live (hCollect .lib roots h) a ∧ hval (hCollect .lib roots h) a = hval h a := by
    intro a ha hnd
    obtain ⟨o, ho, hoa, hom⟩ := find_addr_of_mem ha
    have hr : roots.contains a = true := by
      cases hc : roots.contains a with
      | true => rfl
      | false =>
        exfalso; apply hnd
        exact List.mem_map.mpr ⟨o, List.mem_filter.mpr ⟨hom, by rw [hoa, hc]; rfl⟩, hoa⟩
    constructor
    · exact List.mem_map.mpr ⟨o, List.mem_filter.mpr ⟨hom, by rw [hoa]; exact hr⟩, hoa⟩
    · simp only [hval, hCollect, find_filter_roots roots hr]
  -- a survivor was live and is not among the dead
  have hsurv : ∀ a, Live (hCollect .lib roots h) a →
      Live h a ∧ a ∉ (h.store.filter (fun o => !roots.contains o.1)).map (·.1) := by
    intro a ha
    have ha' : a ∈ (h.store.filter (fun o => roots.contains o.1)).map (·.1) := ha
    obtain ⟨o, ho, hoa⟩ := List.mem_map.mp ha'
    obtain ⟨hom, hor⟩ := List.mem_filter.mp ho
    refine ⟨List.mem_map.mpr ⟨o, hom, hoa⟩, ?_⟩
    intro hd
    obtain ⟨o', ho', hoa'⟩ := List.mem_map.mp hd
    have := (List.mem_filter.mp ho').2
    rw [hoa', ← hoa, hor] at this
    cases this
  constructor
  · refine ⟨?_, ?_, i1, i2, ?_, ?_⟩
    · exact (List.filter_sublist.map _).nodup hi.na
    · intro a b ha hb e
      obtain ⟨la, na⟩ := hsurv a ha
      obtain ⟨lb, nb⟩ := hsurv b hb
      rw [(hkeep a la na).2, (hkeep b lb nb).2] at e
      exact hi.vi a b la lb e
    · intro a b r hr
      have hr' : aget ((h.store.filter (fun o => !roots.contains o.1)).map (·.1) |>.foldl (deleter .lib) h).lte.store (a, b)
          = some r := hr
      rw [i4] at hr'
      split at hr'
      · cases hr'
      · next hnd =>
        have hnd' := not_or.mp hnd
        obtain ⟨ha, hb, he⟩ := hi.sl a b r hr'
        obtain ⟨la, va⟩ := hkeep a ha hnd'.1
        obtain ⟨lb, vb⟩ := hkeep b hb hnd'.2
        exact ⟨la, lb, by rw [va, vb]; exact he⟩
    · intro k b r hr
      have hr' : aget ((h.store.filter (fun o => !roots.contains o.1)).map (·.1) |>.foldl (deleter .lib) h).ev.store (k, b)
          = some r := hr
      rw [i5] at hr'
      split at hr'
      · cases hr'
      · next hnd =>
        obtain ⟨hb, he⟩ := hi.se k b r hr'
        obtain ⟨lb, vb⟩ := hkeep b hb hnd
        exact ⟨lb, by rw [vb]; exact he⟩
  · intro a har ha
    apply hkeep a ha
    intro hd
    obtain ⟨o, ho, hoa⟩ := List.mem_map.mp hd
    have := (List.mem_filter.mp ho).2
    rw [hoa] at this
    have hc : roots.contains a = true := by simpa using har
    rw [hc] at this; cases this

/-! ### the antichains -/

theorem acContainsS_spec {R : Rel} {B : TA} (q a : Nat) : ∀ (P : List UIt) (h : Heap), HInvS R B h → Live h a → ULive h P →
    (acContainsS R q a P h).2 = InclUpSim.subsumed R (P.map (UIt.deref h)) q (hval h a) ∧
    HInvS R B (acContainsS R q a P h).1 ∧ (acContainsS R q a P h).1.store = h.store
  | [], h, hi, _, _ => ⟨by simp [acContainsS, InclUpSim.subsumed], hi, rfl⟩
  | i :: P, h, hi, ha, hl => by
    have hlP : ULive h P := fun j hj => hl j (List.mem_cons_of_mem _ hj)
    have hia : Live h i.a := hl i List.mem_cons_self
    unfold acContainsS
    simp only [InclUpSim.subsumed, List.map_cons, List.any_cons]
    split
    · next hq =>
      obtain ⟨e1, m1, c1⟩ := hLteS_spec hi hia ha
      split
      · next ht =>
        refine ⟨?_, m1, c1⟩
        rw [e1] at ht
        simp [UIt.deref, hq, ht]
      · next ht =>
        have ht' : (hLteS R h i.a a).2 = false := by simpa using ht
        obtain ⟨e2, m2, c2⟩ := acContainsS_spec q a P (hLteS R h i.a a).1 m1 ((live_store c1 _).mpr ha) (hlP.store c1)
        refine ⟨?_, m2, c2.trans c1⟩
        rw [e2, map_deref_store c1, hval_store c1]
        rw [e1] at ht'
        simp [UIt.deref, ht', InclUpSim.subsumed]
    · next hq =>
      obtain ⟨e2, m2, c2⟩ := acContainsS_spec q a P h hi ha hlP
      refine ⟨?_, m2, c2⟩
      rw [e2]
      have hq' : InclUpSim.le R q i.q = false := by simpa using hq
      simp [UIt.deref, hq', InclUpSim.subsumed]

/-- the pairs `refine` keeps -/
def keepS (R : Rel) (h : Heap) (q a : Nat) (i : UIt) : Bool :=
  !(InclUpSim.le R i.q q && InclUpSim.lte R (hval h a) (hval h i.a))

theorem keepS_store {R : Rel} {h h' : Heap} (hs : h'.store = h.store) (q a : Nat) : keepS R h' q a = keepS R h q a := by
  funext i; simp only [keepS, hval_store hs]

theorem acRefineS_spec {R : Rel} {B : TA} (q a : Nat) : ∀ (P : List UIt) (h : Heap), HInvS R B h → Live h a → ULive h P →
    (acRefineS R q a P h).2 = P.filter (keepS R h q a) ∧
    HInvS R B (acRefineS R q a P h).1 ∧ (acRefineS R q a P h).1.store = h.store
  | [], h, hi, _, _ => ⟨by simp [acRefineS], hi, rfl⟩
  | i :: P, h, hi, ha, hl => by
    have hlP : ULive h P := fun j hj => hl j (List.mem_cons_of_mem _ hj)
    have hia : Live h i.a := hl i List.mem_cons_self
    unfold acRefineS
    split
    · next hq =>
      obtain ⟨e1, m1, c1⟩ := hLteS_spec hi ha hia
      obtain ⟨e2, m2, c2⟩ := acRefineS_spec q a P (hLteS R h a i.a).1 m1 ((live_store c1 _).mpr ha) (hlP.store c1)
      refine ⟨?_, m2, c2.trans c1⟩
      simp only [e2, keepS_store c1, e1, List.filter_cons, keepS, hq, Bool.true_and]
      cases InclUpSim.lte R (hval h a) (hval h i.a) <;> simp
    · next hq =>
      obtain ⟨e2, m2, c2⟩ := acRefineS_spec q a P h hi ha hlP
      refine ⟨?_, m2, c2⟩
      simp only [e2, List.filter_cons, keepS]
      have : InclUpSim.le R i.q q = false := by simpa using hq
      simp [this]

theorem refineS_map_deref (R : Rel) (h : Heap) (q a : Nat) (P : List UIt) :
    InclUpSim.refine R (P.map (UIt.deref h)) q (hval h a) = (P.filter (keepS R h q a)).map (UIt.deref h) := by
  unfold InclUpSim.refine
  rw [List.filter_map]
  rfl

theorem keepS_pair {R : Rel} {h : Heap} {q a : Nat} {i j : UIt} (hq : j.q = i.q) (ha : j.a = i.a) :
    keepS R h q a j = keepS R h q a i := by
  simp only [keepS, hq, ha]

/-- the `Eraser` removes from `next` exactly the pairs `refine` erased from `processed` -/
theorem filter_hasPairS {R : Rel} {h : Heap} {q a : Nat} {P N : List UIt} (hsub : ∀ i, i ∈ N → hasPair P i = true) :
    N.filter (hasPair (P.filter (keepS R h q a))) = N.filter (keepS R h q a) := by
  apply List.filter_congr
  intro i hi
  rw [Bool.eq_iff_iff, hasPair_iff]
  constructor
  · rintro ⟨j, hj, hq, ha⟩
    rw [← keepS_pair hq ha]; exact (List.mem_filter.mp hj).2
  · intro hk
    obtain ⟨j, hj, hq, ha⟩ := hasPair_iff.mp (hsub i hi)
    exact ⟨j, List.mem_filter.mpr ⟨hj, by rw [keepS_pair hq ha]; exact hk⟩, hq, ha⟩

/-! ### the simulation between the cached and the cache-free state -/

/-- the cached state read through its pointers is the cache-free state (`tmp` = the antichain `temporary`, `QS` = the value
of `Q`); every handle points to a live object; the heap invariant holds -/
structure URelS (R : Rel) (B : TA) (s : USt) (st : St) (tmp : List Item) (QS : List Nat) : Prop where
  pr : s.processed.map (UIt.deref s.h) = st.processed
  nx : s.next.map (UIt.deref s.h) = st.next
  tm : s.temporary.map (UIt.deref s.h) = tmp
  qv : ∀ a, s.Q = some a → hval s.h a = QS
  live : ∀ a, a ∈ s.roots → Live s.h a
  sub : ∀ i, i ∈ s.next → hasPair s.processed i = true
  hi : HInvS R B s.h

theorem URelS.lp {R : Rel} {B : TA} {s : USt} {st : St} {tmp : List Item} {QS : List Nat} (h : URelS R B s st tmp QS) :
    ULive s.h s.processed := fun i hi => h.live _ (by
      simp only [USt.roots, List.mem_append, List.mem_map]; exact Or.inl (Or.inl ⟨i, hi, rfl⟩))

theorem URelS.lt {R : Rel} {B : TA} {s : USt} {st : St} {tmp : List Item} {QS : List Nat} (h : URelS R B s st tmp QS) :
    ULive s.h s.temporary := fun i hi => h.live _ (by
      simp only [USt.roots, List.mem_append, List.mem_map]; exact Or.inl (Or.inr ⟨i, hi, rfl⟩))

/-- a heap in which the live objects are still live with the same values -/
theorem URelS.heap {R : Rel} {B : TA} {s : USt} {st : St} {tmp : List Item} {QS : List Nat} (h : URelS R B s st tmp QS)
    {h' : Heap} (hi' : HInvS R B h') (hst : ∀ a, a ∈ s.roots → Live s.h a → Live h' a ∧ hval h' a = hval s.h a) :
    URelS R B { s with h := h' } st tmp QS := by
  have hroot : ∀ a, a ∈ s.roots → Live h' a ∧ hval h' a = hval s.h a := fun a ha => hst a ha (h.live a ha)
  have hmap : ∀ l : List UIt, (∀ i, i ∈ l → i.a ∈ s.roots) → l.map (UIt.deref h') = l.map (UIt.deref s.h) := by
    intro l hl
    apply List.map_congr_left
    intro i hi
    simp only [UIt.deref, (hroot _ (hl i hi)).2]
  have hp : ∀ i, i ∈ s.processed → i.a ∈ s.roots := fun i hi => by
    simp only [USt.roots, List.mem_append, List.mem_map]; exact Or.inl (Or.inl ⟨i, hi, rfl⟩)
  have ht : ∀ i, i ∈ s.temporary → i.a ∈ s.roots := fun i hi => by
    simp only [USt.roots, List.mem_append, List.mem_map]; exact Or.inl (Or.inr ⟨i, hi, rfl⟩)
  have hn : ∀ i, i ∈ s.next → i.a ∈ s.roots := fun i hi => by
    obtain ⟨j, hj, _, ha⟩ := hasPair_iff.mp (h.sub i hi)
    rw [← ha]; exact hp j hj
  refine ⟨?_, ?_, ?_, ?_, fun a ha => (hroot a ha).1, h.sub, hi'⟩
  · simp only; rw [hmap _ hp]; exact h.pr
  · simp only; rw [hmap _ hn]; exact h.nx
  · simp only; rw [hmap _ ht]; exact h.tm
  · intro a ha
    have : a ∈ s.roots := by
      simp only [USt.roots, List.mem_append]; exact Or.inr (by rw [ha]; simp)
    simp only; rw [(hroot a this).2]; exact h.qv a ha

/-- the dropped handles take effect: nothing the state can see changes -/
theorem URelS.collect {R : Rel} {B : TA} {s : USt} {st : St} {tmp : List Item} {QS : List Nat} (h : URelS R B s st tmp QS) :
    URelS R B (s.collect .lib) st tmp QS := by
  obtain ⟨h1, h2⟩ := hCollectS_spec h.hi s.roots
  exact h.heap h1 h2

/-- `biggerTypeCache.lookup(v)` -/
theorem URelS.lookup {R : Rel} {B : TA} {s : USt} {st : St} {tmp : List Item} {QS : List Nat} (h : URelS R B s st tmp QS)
    (pick : List Nat → Nat) (v : List Nat) :
    URelS R B { s with h := (hLookup pick s.h v).1 } st tmp QS ∧
    Live (hLookup pick s.h v).1 (hLookup pick s.h v).2 ∧ hval (hLookup pick s.h v).1 (hLookup pick s.h v).2 = v := by
  obtain ⟨h1, h2, h3, h4⟩ := hLookupS_spec pick h.hi v
  exact ⟨h.heap h1 (fun a _ ha => h4 a ha), h2, h3⟩

/-- `processed.contains / refine(Eraser(next)) / insert`, `next.insert` -/
theorem addItemS_rel {R : Rel} {B : TA} {s : USt} {st : St} {tmp : List Item} {QS : List Nat} (h : URelS R B s st tmp QS)
    {it : UIt} (hit : Live s.h it.a) : URelS R B (addItemS R s it) (InclUpSim.addItem R st (it.deref s.h)) tmp QS := by
  obtain ⟨e1, m1, c1⟩ := acContainsS_spec (R := R) (B := B) it.q it.a s.processed s.h h.hi hit h.lp
  rw [h.pr] at e1
  unfold addItemS InclUpSim.addItem
  simp only
  rw [e1]
  have hd : (it.deref s.h).q = it.q ∧ (it.deref s.h).S = hval s.h it.a := ⟨rfl, rfl⟩
  rw [hd.1, hd.2]
  by_cases hs : InclUpSim.subsumed R st.processed it.q (hval s.h it.a) = true
  · rw [if_pos hs, if_pos hs]
    exact h.heap m1 (fun a _ ha => ⟨(live_store c1 a).mpr ha, hval_store c1 a⟩)
  · rw [if_neg hs, if_neg hs]
    obtain ⟨e2, m2, c2⟩ := acRefineS_spec (R := R) (B := B) it.q it.a s.processed _ m1 ((live_store c1 _).mpr hit)
      (h.lp.store c1)
    rw [keepS_store c1] at e2
    have c2' := c2.trans c1
    rw [e2, filter_hasPairS h.sub]
    refine ⟨?_, ?_, ?_, ?_, ?_, ?_, m2⟩
    · simp only
      rw [map_deref_store c2', List.map_append, ← refineS_map_deref, h.pr]; rfl
    · simp only
      rw [insNextC_map, map_deref_store c2', ← refineS_map_deref, h.nx]
      simp only [UIt.deref, hval_store c2']
    · simp only; rw [map_deref_store c2']; exact h.tm
    · intro a ha; simp only; rw [hval_store c2']; exact h.qv a ha
    · intro a ha
      apply (live_store c2' a).mpr
      rcases mem_roots.mp ha with ⟨i, hi, rfl⟩ | hr
      · simp only [List.mem_append, List.mem_singleton] at hi
        rcases hi with hi | rfl
        · exact h.lp i (List.mem_filter.mp hi).1
        · exact hit
      · exact h.live a (mem_roots.mpr (Or.inr hr))
    · intro i hi
      simp only at hi ⊢
      rcases mem_insNextC.mp hi with rfl | hi
      · exact hasPair_iff.mpr ⟨i, List.mem_append_right _ List.mem_cons_self, rfl, rfl⟩
      · obtain ⟨hin, hk⟩ := List.mem_filter.mp hi
        obtain ⟨j, hj, hq, ha⟩ := hasPair_iff.mp (h.sub i hin)
        exact hasPair_iff.mpr ⟨j, List.mem_append_left _ (List.mem_filter.mpr ⟨hj, by rw [keepS_pair hq ha]; exact hk⟩), hq, ha⟩

/-- `temporary.contains / refine / insert` -/
theorem addTmpS_rel {R : Rel} {B : TA} {s : USt} {st : St} {tmp : List Item} {QS : List Nat} (h : URelS R B s st tmp QS)
    {it : UIt} (hit : Live s.h it.a) : URelS R B (addTmpS R s it) st (InclUpSim.addTmp R tmp (it.deref s.h)) QS := by
  obtain ⟨e1, m1, c1⟩ := acContainsS_spec (R := R) (B := B) it.q it.a s.temporary s.h h.hi hit h.lt
  rw [h.tm] at e1
  unfold addTmpS InclUpSim.addTmp
  simp only
  rw [e1]
  have hd : (it.deref s.h).q = it.q ∧ (it.deref s.h).S = hval s.h it.a := ⟨rfl, rfl⟩
  rw [hd.1, hd.2]
  by_cases hs : InclUpSim.subsumed R tmp it.q (hval s.h it.a) = true
  · rw [if_pos hs, if_pos hs]
    exact h.heap m1 (fun a _ ha => ⟨(live_store c1 a).mpr ha, hval_store c1 a⟩)
  · rw [if_neg hs, if_neg hs]
    obtain ⟨e2, m2, c2⟩ := acRefineS_spec (R := R) (B := B) it.q it.a s.temporary _ m1 ((live_store c1 _).mpr hit)
      (h.lt.store c1)
    rw [keepS_store c1] at e2
    have c2' := c2.trans c1
    rw [e2]
    refine ⟨?_, ?_, ?_, ?_, ?_, h.sub, m2⟩
    · simp only; rw [map_deref_store c2']; exact h.pr
    · simp only; rw [map_deref_store c2']; exact h.nx
    · simp only
      rw [map_deref_store c2', List.map_append, ← refineS_map_deref, h.tm]; rfl
    · intro a ha; simp only; rw [hval_store c2']; exact h.qv a ha
    · intro a ha
      apply (live_store c2' a).mpr
      rcases mem_roots.mp ha with hr | ⟨i, hi, rfl⟩ | hr
      · exact h.live a (mem_roots.mpr (Or.inl hr))
      · simp only [List.mem_append, List.mem_singleton] at hi
        rcases hi with hi | rfl
        · exact h.lt i (List.mem_filter.mp hi).1
        · exact hit
      · exact h.live a (mem_roots.mpr (Or.inr (Or.inr hr)))

end FCUS
end Vata
