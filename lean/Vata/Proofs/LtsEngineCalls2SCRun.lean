import Vata.Proofs.LtsEngineCalls2SC
/-!
# The `SharedCounter` call discipline along the pruning loops, `split` and `processRemove`

Positivity at every `decr`: before the loops for an erased pair `(b1, col)` the counter of `(b1, a, q)` is its specification
(`JInv.hC` with nothing lagging), the specification is at least the number of `a`-edges from `q` into block `col`
(`cntSpec_erase`), and that number is how often the loops call `decr(a, q)` (`count_decrKeys`).
-/
namespace Vata.LEC2
open Vata.L Vata.LE Vata.LU Vata.LEC

/-! ### the decrements for one erased pair as one fold -/

/-- all `decr` calls (with the `enqueueToRemove`s) for a list of keys -/
def decrAllJ (L : LTS) (b1 : Nat) (et : JE) (ks : List (Nat × Nat)) : JE :=
  ks.foldl (fun et k => decrStepJ L b1 k.1 et k.2) et

theorem decrAllJ_fst (L : LTS) (b1 : Nat) (ks : List (Nat × Nat)) (et : JE) :
    (decrAllJ L b1 et ks).1 = decrAll b1 et.1 ks :=
  foldl_fst (fun (et : JE) (k : Nat × Nat) => decrStepJ L b1 k.1 et k.2)
    (fun (e : Eng) (k : Nat × Nat) => decrStep b1 k.1 e k.2) (fun _ _ => rfl) ks et

theorem decrAllJ_append (L : LTS) (b1 : Nat) (et : JE) (k1 k2 : List (Nat × Nat)) :
    decrAllJ L b1 et (k1 ++ k2) = decrAllJ L b1 (decrAllJ L b1 et k1) k2 := by
  simp [decrAllJ, List.foldl_append]

theorem decr_preJ (L : LTS) (b1 a elem : Nat) (et : JE) :
    (pre L a elem).foldl (decrStepJ L b1 a) et = decrAllJ L b1 et ((pre L a elem).map (fun p => (a, p))) := by
  simp [decrAllJ, List.foldl_map]

theorem decr_blockJ (L : LTS) (b1 a : Nat) (blk : List Nat) (et : JE) :
    blk.foldl (fun (et : JE) elem => (pre L a elem).foldl (decrStepJ L b1 a) et) et =
      decrAllJ L b1 et (blk.flatMap (fun elem => (pre L a elem).map (fun p => (a, p)))) := by
  induction blk generalizing et with
  | nil => rfl
  | cons x blk ih =>
    simp only [List.foldl_cons, List.flatMap_cons]
    rw [decrAllJ_append, ← decr_preJ, ih]

theorem decrBlockJ_eq_aux (L : LTS) (e0 : Eng) (b1 b2 : Nat) (as : List Nat) (et : JE) (hp : et.1.part = e0.part)
    (hi : et.1.inset = e0.inset) :
    as.foldl (fun (et : JE) a =>
      if (et.1.ins b1).contains a then
        (et.1.block b2).foldl (fun (et : JE) elem => (pre L a elem).foldl (decrStepJ L b1 a) et) et
      else et) et =
    decrAllJ L b1 et ((as.filter (fun a => (e0.ins b1).contains a)).flatMap (fun a =>
      (e0.block b2).flatMap (fun elem => (pre L a elem).map (fun p => (a, p))))) := by
  induction as generalizing et with
  | nil => rfl
  | cons a as ih =>
    have hins : et.1.ins b1 = e0.ins b1 := by simp only [Eng.ins, hi]
    have hblk : et.1.block b2 = e0.block b2 := by simp only [Eng.block, hp]
    simp only [List.foldl_cons, List.filter_cons, hins, hblk]
    by_cases hc : (e0.ins b1).contains a = true
    · rw [if_pos hc, if_pos hc, List.flatMap_cons, decrAllJ_append, decr_blockJ]
      obtain ⟨f1, _, f3⟩ := decrAll_frame b1 ((e0.block b2).flatMap (fun elem => (pre L a elem).map (fun p => (a, p)))) et.1
      rw [← decrAllJ_fst L] at f1 f3
      exact ih _ (f1.trans hp) (f3.trans hi)
    · rw [if_neg hc, if_neg hc]
      exact ih et hp hi

theorem decrBlockJ_eq (L : LTS) (et : JE) (b1 b2 : Nat) :
    decrBlockJ L et b1 b2 = decrAllJ L b1 et (decrKeys L et.1 b1 b2) :=
  decrBlockJ_eq_aux L et.1 b1 b2 (et.1.ins b2) et rfl rfl

/-- the counters after one `decr` -/
theorem decrStep_cntv (i a : Nat) (e : Eng) (q : Nat) (i' a' q' : Nat) :
    (decrStep i a e q).cntv i' a' q' = if i' = i ∧ a' = a ∧ q' = q then e.cntv i a q - 1 else e.cntv i' a' q' := by
  have h1 : (decrCnt e i a q).cntv i' a' q' = if i' = i ∧ a' = a ∧ q' = q then e.cntv i a q - 1 else e.cntv i' a' q' := by
    rw [cntv_eq, cntv_eq]; exact cget_setCnt _ _ _ _ _ _ _ _
  rw [decrStep_eq]
  split
  · obtain ⟨_, _, _, p4, _⟩ := enqueue_spec (decrCnt e i a q) i a q
    rw [cntv_eq, p4, ← cntv_eq, h1]
  · exact h1

section
variable {L : LTS} {cfg : SC.Cfg}

/-- all decrements for a list of keys stay inside the discipline when no key is decremented more often than its counter says -/
theorem decrAllJ_good (ok : CfgOK L cfg) {b1 : Nat} : ∀ (ks : List (Nat × Nat)) (et : JE),
    GC L cfg et.1 et.2 running → b1 < et.1.part.length → (∀ a, a ∈ et.1.ins b1 → a < labels L) →
    (∀ k, k ∈ ks → k.1 ∈ et.1.ins b1 ∧ k.2 ∈ delta1 L k.1) → (∀ a q, ks.count (a, q) ≤ et.1.cntv b1 a q) →
    GC L cfg (decrAllJ L b1 et ks).1 (decrAllJ L b1 et ks).2 running
  | [], _, g, _, _, _, _ => g
  | k :: ks, et, g, hb1, hlab, hk, hcnt => by
    obtain ⟨a, q⟩ := k
    obtain ⟨ha, hq⟩ := hk (a, q) List.mem_cons_self
    have hpos : 0 < et.1.cntv b1 a q := by
      have := hcnt a q
      rw [List.count_cons_self] at this
      omega
    obtain ⟨f1, _, f3⟩ := decrStep_frame b1 a et.1 q
    have g1 : GC L cfg (decrStepJ L b1 a et q).1 (decrStepJ L b1 a et q).2 running := by
      have := decr_goodC ok (e' := decrStep b1 a et.1 q) g hb1 hlab ha hq hpos (by rw [f1]) f3
        (fun i a' q' => decrStep_cntv b1 a et.1 q i a' q')
      exact this.congr rfl rfl (fun _ _ _ => rfl) rfl
    have hins : (decrStepJ L b1 a et q).1.ins b1 = et.1.ins b1 := ins_congr f3 b1
    show GC L cfg (decrAllJ L b1 (decrStepJ L b1 a et q) ks).1 (decrAllJ L b1 (decrStepJ L b1 a et q) ks).2 running
    refine decrAllJ_good ok ks _ g1 (by show _ < (decrStep b1 a et.1 q).part.length; rw [f1]; exact hb1)
      (fun a' ha' => hlab a' (by rw [← hins]; exact ha'))
      (fun k' hk' => by rw [hins]; exact hk k' (List.mem_cons_of_mem _ hk')) ?_
    intro a' q'
    show _ ≤ (decrStep b1 a et.1 q).cntv b1 a' q'
    rw [decrStep_cntv]
    have := hcnt a' q'
    by_cases hkk : a' = a ∧ q' = q
    · rw [if_pos ⟨rfl, hkk.1, hkk.2⟩]
      rw [hkk.1, hkk.2, List.count_cons_self] at this
      rw [hkk.1, hkk.2]; omega
    · rw [if_neg (fun h => hkk ⟨h.2.1, h.2.2⟩)]
      rw [List.count_cons_of_ne (fun h => hkk (by injection h with h1 h2; exact ⟨h1.symm, h2.symm⟩))] at this
      exact this

/-! ### the erase loops with the lagging-counter invariant -/

variable {B : Nat} {s1 : Eng}

theorem pruneColJ_mask_good (ok : CfgOK L cfg) (hL : LtsOK L) {b1 col : Nat} {et : JE} (j : JInv L B s1 b1 et.1 [])
    (hb1 : b1 < et.1.part.length) (hcol : col ∈ et.1.row b1) (g : GC L cfg et.1 et.2 running) :
    GC L cfg (decrBlockJ L (eraseRel et.1 b1 col, et.2) b1 col).1 (decrBlockJ L (eraseRel et.1 b1 col, et.2) b1 col).2 running := by
  have w := j.wf
  have hcollt : col < et.1.part.length := w.hrow b1 col hcol
  rw [decrBlockJ_eq]
  have hkeys : decrKeys L (eraseRel et.1 b1 col) b1 col = decrKeys L et.1 b1 col := rfl
  show GC L cfg (decrAllJ L b1 (eraseRel et.1 b1 col, et.2) (decrKeys L (eraseRel et.1 b1 col) b1 col)).1
    (decrAllJ L b1 (eraseRel et.1 b1 col, et.2) (decrKeys L (eraseRel et.1 b1 col) b1 col)).2 running
  rw [hkeys]
  refine decrAllJ_good ok _ (eraseRel et.1 b1 col, et.2) (g.congr rfl rfl (fun _ _ _ => rfl) rfl) hb1
    (fun a ha => w.ins_lt hb1 ha) ?_ ?_
  · intro k hk
    unfold decrKeys at hk
    simp only [List.mem_flatMap, List.mem_map, List.mem_filter] at hk
    obtain ⟨a', ⟨_, ha'⟩, elem, _, p, hp, hk'⟩ := hk
    rw [← hk']
    have hed := (mem_pre L a' elem p).mp hp
    refine ⟨?_, (mem_delta1 L a' p).mpr ⟨(hL _ hed).1, (hasOut_iff L a' p).mpr ⟨elem, hed⟩⟩⟩
    show a' ∈ et.1.ins b1
    simpa using ha'
  · intro a q
    show _ ≤ et.1.cntv b1 a q
    by_cases ha : a ∈ et.1.ins b1
    · rw [count_decrKeys w hcollt a q ha, j.hC b1 a q hb1 ha, if_pos rfl, cntSpec_erase hL w hb1 hcol a q]
      omega
    · have : (decrKeys L et.1 b1 col).count (a, q) = 0 := by
        rw [List.count_eq_zero]
        intro hm
        unfold decrKeys at hm
        simp only [List.mem_flatMap, List.mem_map, List.mem_filter] at hm
        obtain ⟨a', ⟨_, ha'⟩, elem, _, p, _, hk'⟩ := hm
        injection hk' with h1 h2
        exact ha (h1 ▸ (by simpa using ha'))
      rw [this]; exact Nat.zero_le _

theorem pruneColsJ_good (ok : CfgOK L cfg) (hL : LtsOK L) (mask : List Nat) {b1 : Nat} : ∀ (cols : List Nat) (et : JE),
    cols.Nodup → (∀ c, c ∈ cols → c ∈ et.1.row b1) → (∀ c, c ∈ cols → c ∈ mask → c ≠ b1) →
    JInv L B s1 b1 et.1 [] → b1 < et.1.part.length → GC L cfg et.1 et.2 running →
    GC L cfg (cols.foldl (pruneColJ L mask b1) et).1 (cols.foldl (pruneColJ L mask b1) et).2 running
  | [], _, _, _, _, _, _, g => g
  | c :: cols, et, hnd, hin, hne, j, hb1, g => by
    have hnd' := List.nodup_cons.mp hnd
    simp only [List.foldl_cons]
    by_cases hm : mask.contains c = true
    · have hcm : c ∈ mask := by simpa using hm
      have hstep : pruneColJ L mask b1 et c = decrBlockJ L (eraseRel et.1 b1 c, et.2) b1 c := by
        unfold pruneColJ; rw [if_pos hm]; rfl
      obtain ⟨j2, p2, _, r2⟩ := pruneCol_mask_spec hL j hb1 (hin c List.mem_cons_self) (hne c List.mem_cons_self hcm)
      have hfst : (pruneColJ L mask b1 et c).1 = decrBlock L (eraseRel et.1 b1 c) b1 c := by
        rw [hstep, decrBlockJ_fst]
      have g2 : GC L cfg (pruneColJ L mask b1 et c).1 (pruneColJ L mask b1 et c).2 running := by
        rw [hstep]; exact pruneColJ_mask_good ok hL j hb1 (hin c List.mem_cons_self) g
      refine pruneColsJ_good ok hL mask cols _ hnd'.2 ?_ (fun x hx => hne x (List.mem_cons_of_mem _ hx))
        (by rw [hfst]; exact j2) (by rw [hfst, p2]; exact hb1) g2
      intro x hx
      rw [hfst, r2, if_pos rfl]
      refine List.mem_filter.mpr ⟨hin x (List.mem_cons_of_mem _ hx), ?_⟩
      simp only [bne_iff_ne, ne_eq]
      exact fun h => hnd'.1 (h ▸ hx)
    · have hstep : pruneColJ L mask b1 et c = et := by
        unfold pruneColJ; rw [if_neg hm]
      rw [hstep]
      exact pruneColsJ_good ok hL mask cols et hnd'.2 (fun x hx => hin x (List.mem_cons_of_mem _ hx))
        (fun x hx => hne x (List.mem_cons_of_mem _ hx)) j hb1 g

theorem pruneRowJ_goodC (ok : CfgOK L cfg) (hL : LtsOK L) (mask : List Nat) {b1 : Nat} {et : JE}
    (j : JInv L B s1 b1 et.1 []) (hb1 : b1 < et.1.part.length) (hnm : b1 ∉ mask) (g : GC L cfg et.1 et.2 running) :
    GC L cfg (pruneRowJ L mask et b1).1 (pruneRowJ L mask et b1).2 running := by
  unfold pruneRowJ
  exact pruneColsJ_good ok hL mask (et.1.row b1) et (j.wf.hrownd b1) (fun _ h => h) (fun c _ hc h => hnm (h ▸ hc)) j hb1 g

theorem prunePhaseJ_good (ok : CfgOK L cfg) (hL : LtsOK L) (mask : List Nat) : ∀ (pl : List Nat) (et : JE),
    (∀ b, b ∈ pl → b < et.1.part.length ∧ b ∉ mask) → JInv L B s1 0 et.1 [] → GC L cfg et.1 et.2 running →
    GC L cfg (pl.foldl (pruneRowJ L mask) et).1 (pl.foldl (pruneRowJ L mask) et).2 running
  | [], _, _, _, g => g
  | b :: pl, et, hpl, j, g => by
    simp only [List.foldl_cons]
    obtain ⟨hb, hnm⟩ := hpl b List.mem_cons_self
    have g2 := pruneRowJ_goodC ok hL mask (j.change b) hb hnm g
    obtain ⟨j2, p2, _, _⟩ := pruneRow_spec mask hL (j.change b) hb hnm
    rw [← pruneRowJ_fst L] at j2 p2
    exact prunePhaseJ_good ok hL mask pl _ (fun c hc => by rw [p2]; exact hpl c (List.mem_cons_of_mem _ hc)) (j2.change 0) g2

/-! ### `split` -/

/-- one new block of `split`: the copy constructor and `copyLabels` -/
theorem copy_goodCS (ok : CfgOK L cfg) {e : Eng} {t : Tr2} {b : Nat} {rest new : List Nat} (w : WF L e)
    (sok : SplitOK e b rest new) (g : GC L cfg e t running) :
    GC L cfg (copySlots (splitBlockCore L e b rest new) b e.part.length)
      ((t.addSC [SC.Op.copyCtor b, SC.Op.copyLabels e.part.length b ((splitBlockCore L e b rest new).ins e.part.length)]).addSL
        (copyT L (splitBlockCore L e b rest new) b e.part.length)) running := by
  have w1 : WF L (splitBlockCore L e b rest new) := core_wf w sok
  have hlen1 : (splitBlockCore L e b rest new).part.length = e.part.length + 1 := core_length
  have hnblt : e.part.length < (splitBlockCore L e b rest new).part.length := by rw [hlen1]; omega
  have hblt1 : b < (splitBlockCore L e b rest new).part.length := by rw [hlen1]; exact Nat.lt_succ_of_lt sok.hb
  have hnd : ((splitBlockCore L e b rest new).ins e.part.length).Nodup := (w1.hinset _ hnblt).1.1
  have hbn : b < e.part.length := sok.hb
  obtain ⟨s1, _, s3, _, s5, _⟩ := copySlots_spec (splitBlockCore L e b rest new) b e.part.length
    (Ne.symm (Nat.ne_of_lt hbn)) hnd
  have hblk := core_block (L := L) sok
  have hins' : ∀ i, (copySlots (splitBlockCore L e b rest new) b e.part.length).ins i = (splitBlockCore L e b rest new).ins i :=
    fun i => ins_congr s3 i
  have key := copy_goodC ok (e' := copySlots (splitBlockCore L e b rest new) b e.part.length)
    (ls := (splitBlockCore L e b rest new).ins e.part.length) g hbn (by rw [s1, hlen1]) (hins' _)
    (fun a ha => w1.ins_lt hnblt ha) ?_ ?_ ?_ ?_
  · exact key.congr rfl rfl (fun _ _ _ => rfl) rfl
  · intro i hi a ha
    rw [hins'] at ha
    have hi1 : i < (splitBlockCore L e b rest new).part.length := by rw [hlen1]; omega
    obtain ⟨q, hq, hin⟩ := (w1.mem_ins hi1 a).mp ha
    rw [hblk] at hq
    refine (w.mem_ins hi a).mpr ⟨q, ?_, hin⟩
    by_cases hib : i = b
    · rw [if_pos hib] at hq; rw [hib]; exact ((sok.hrest q).mp hq).1
    · rw [if_neg hib, if_neg (Nat.ne_of_lt hi)] at hq; exact hq
  · intro a ha
    obtain ⟨q, hq, hin⟩ := (w1.mem_ins hnblt a).mp ha
    rw [hblk, if_neg (Nat.ne_of_gt hbn), if_pos rfl] at hq
    exact (w.mem_ins hbn a).mpr ⟨q, sok.hnew q hq, hin⟩
  · intro i a q hi
    rw [s5, if_neg (fun h => Nat.ne_of_lt hi h.1)]
    rfl
  · intro a q ha
    rw [s5, if_pos ⟨rfl, ha⟩]
    rfl

section phase
variable {e0 : Eng} {rm : List Nat} (P : Eng → (Nat → Nat) → Prop)

theorem splitJ_traceC (ok : CfgOK L cfg) (hs : StepOK L (stepS L) P) (w0 : WF L e0) (hrm : ∀ q, q ∈ rm → q < L.n)
    (hnd : rm.Nodup) :
    ∀ (todo done : List Nat) (emt : (Eng × List Nat) × Tr2) (par : Nat → Nat), todo.Nodup →
      (∀ b, b ∈ todo → b ∈ modifiedBlocks e0.part rm ∧ b ∉ done) →
      PhaseInv L e0 rm done emt.1 par → P emt.1.1 par → GC L cfg emt.1.1 emt.2 running →
      GC L cfg (todo.foldl (splitStepJ L e0.part rm) emt).1.1 (todo.foldl (splitStepJ L e0.part rm) emt).2 running
  | [], _, _, _, _, _, _, _, g => g
  | b :: todo, done, emt, par, hn, hto, inv, hP, g => by
    have hn' := List.nodup_cons.mp hn
    have hbm := (hto b List.mem_cons_self).1
    have hbd := (hto b List.mem_cons_self).2
    obtain ⟨par1, inv1, hP1⟩ := phase_step (stepS L) P hs w0 hrm hnd inv hP hbm hbd
    rw [← splitStepJ_gfst L] at inv1 hP1
    have g1 : GC L cfg (splitStepJ L e0.part rm emt b).1.1 (splitStepJ L e0.part rm emt b).2 running := by
      obtain ⟨q0, hq0rm, hq0b⟩ := (mem_modifiedBlocks w0 hrm b).mp hbm
      have hb0 : b < e0.part.length := lt_of_mem_block hq0b
      have hbk : b < emt.1.1.part.length := Nat.lt_of_lt_of_le hb0 inv.rs.hlen
      have hblk : emt.1.1.block b = e0.block b := inv.hkeep b hb0 hbd
      have htmp := mem_tmpOf w0 hrm b
      have htnd : (tmpOf e0.part rm b).Nodup := nodup_filter _ hnd
      have htsub : ∀ x, x ∈ tmpOf e0.part rm b → x ∈ emt.1.1.block b := fun x hx => hblk ▸ ((htmp x).mp hx).2
      unfold splitStepJ
      cases hts : trySplit (emt.1.1.block b) (tmpOf e0.part rm b) with
      | none => exact g
      | some rn =>
        obtain ⟨rest, new⟩ := rn
        obtain ⟨t1, t2, t3, t4, t5, t6⟩ := trySplit_some (inv.wf.hnd b) htnd htsub hts
        have sok : SplitOK emt.1.1 b rest new := by
          refine ⟨hbk, fun q hq => htsub q ((t1 q).mp hq), ?_, t3, t4, t5, t6⟩
          intro q
          rw [t2 q, t1 q]
        exact copy_goodCS ok inv.wf sok g
    exact splitJ_traceC ok hs w0 hrm hnd todo (b :: done) _ par1 hn'.2
      (fun c hc => ⟨(hto c (List.mem_cons_of_mem _ hc)).1, fun h => by
        rcases List.mem_cons.mp h with h | h
        · exact hn'.1 (h ▸ hc)
        · exact (hto c (List.mem_cons_of_mem _ hc)).2 h⟩) inv1 hP1 g1

end phase

theorem splitJ_goodC (ok : CfgOK L cfg) {et : JE} {rm : List Nat} (w0 : WF L et.1) (qk : QOK et.1)
    (hrm : ∀ q, q ∈ rm → q < L.n) (hnd : rm.Nodup) (g : GC L cfg et.1 et.2 running) :
    GC L cfg (splitJ L et rm).1.1 (splitJ L et rm).2 running := by
  unfold splitJ
  have inv0 : PhaseInv L et.1 rm [] (et.1, []) id := by
    refine ⟨w0, RefineS.refl L et.1, fun _ _ => rfl, fun _ _ _ => rfl, fun _ _ _ => rfl, ?_, ?_⟩
    · intro i hi hd
      rcases hd with hd | hd
      · cases hd
      · exact absurd hi (Nat.not_lt_of_le hd)
    · intro i
      constructor
      · intro h; cases h
      · rintro ⟨h1, h2 | h2, _⟩
        · cases h2
        · exact absurd h1 (Nat.not_lt_of_le h2)
  exact splitJ_traceC _ ok (stepS_ok L et.1) w0 hrm hnd (modifiedBlocks et.1.part rm) [] ((et.1, []), et.2) id
    (nodup_dedupF _ _) (fun b hb => ⟨hb, fun h => by cases h⟩) inv0 ⟨qk, w0, Refine.refl L et.1, rfl⟩ g

/-! ### `processRemove` and one iteration of `run()` -/

theorem processRemoveJ_goodC (ok : CfgOK L cfg) {S I : Nat → Nat → Prop} (hL : LtsOK L) {e : Eng} {t : Tr2} {b a : Nat}
    {rest : List (Nat × Nat)} (inv : Inv L S I e) (hq : e.queue = (b, a) :: rest) (g : GC L cfg e t running) :
    GC L cfg (processRemoveJ L ({ e with queue := rest }, t) b a).1 (processRemoveJ L ({ e with queue := rest }, t) b a).2
      running := by
  have hb : b < e.part.length := inv.qk.hlt b a (by rw [hq]; exact List.mem_cons_self)
  have hsome : (e.remv b a).isSome = true := (inv.qk.hiff b a).mpr (by rw [hq]; exact List.mem_cons_self)
  obtain ⟨remove, hr⟩ := Option.isSome_iff_exists.mp hsome
  obtain ⟨w0, qk0, sem0, _⟩ := popState_facts hL inv hq hr
  have hrmN := inv.sem.hN b a hb
  rw [slotL_some hr] at hrmN
  rw [processRemoveJ_eq L e t b a rest remove hr]
  have g1 : GC L cfg (popState e b a rest) (t.addSL [SL.Op.take (slot L b a)]) running :=
    g.congr rfl rfl (fun _ _ _ => rfl) rfl
  have g2 := splitJ_goodC ok (et := (popState e b a rest, t.addSL [SL.Op.take (slot L b a)])) w0 qk0 hrmN.2 hrmN.1 g1
  obtain ⟨par, res, qk1, rf, _⟩ := split_spec' w0 qk0 hrmN.2 hrmN.1
  have sem1 := sem_refine hL w0 res.wf rf sem0
  -- states on the list have no `a`-successor in a block of row `b`
  have hF1 : ∀ q, q ∈ flat remove → ∀ q', (q, a, q') ∈ L.edges → ¬ e.U b q' := by
    intro q hqr q' hed
    exact inv.sem.hD b a q q' hb (by rw [slotL_some hr]; exact hqr) hed
  have hF2 : ∀ p s, (p, a, s) ∈ L.edges → s ∈ e.block b → p ∉ flat remove := by
    intro p s hed hs hp
    apply hF1 p hp s hed
    show blockOf e.part s ∈ e.row b
    rw [inv.wf.blockOf_eq hs]
    exact inv.wf.hrefl b hb
  have hF3 := fun c => mem_buildPre (L := L) (e := popState e b a rest) b a c
  have hF4 : ∀ c, c ∈ buildPre L (popState e b a rest) b a →
      c < (split L (popState e b a rest) (flat remove)).1.part.length ∧
      c ∉ (split L (popState e b a rest) (flat remove)).2 := by
    intro c hc
    obtain ⟨s, hs, p, hed, hpc⟩ := (hF3 c).mp hc
    have hpn : p < L.n := (hL _ hed).1
    have hpnot := hF2 p s hed hs
    have hstay := res.hstay p hpn hpnot
    rw [hpc] at hstay
    obtain ⟨hlt, hmem⟩ := res.wf.blockOf_mem hpn
    rw [hstay] at hlt hmem
    refine ⟨hlt, ?_⟩
    intro hm
    exact hpnot (((res.hmask c).mp hm).2 p hmem)
  have jj := jinv_of_sem res.wf qk1 sem1
  have hsf : (splitJ L (popState e b a rest, t.addSL [SL.Op.take (slot L b a)]) (flat remove)).1 =
      split L (popState e b a rest) (flat remove) := splitJ_fst L _ _
  have g3 : GC L cfg (splitJ L (popState e b a rest, t.addSL [SL.Op.take (slot L b a)]) (flat remove)).1.1
      ((splitJ L (popState e b a rest, t.addSL [SL.Op.take (slot L b a)]) (flat remove)).2.addSL [SL.Op.release]) running :=
    g2.congr rfl rfl (fun _ _ _ => rfl) rfl
  have jj' : JInv L (pot L (split L (popState e b a rest) (flat remove)).1) (split L (popState e b a rest) (flat remove)).1 0
      (splitJ L (popState e b a rest, t.addSL [SL.Op.take (slot L b a)]) (flat remove)).1.1 [] := by
    rw [hsf]; exact jj
  refine prunePhaseJ_good ok hL _ _ _ ?_ jj' g3
  intro c hc
  show c < (splitJ L _ _).1.1.part.length ∧ c ∉ (splitJ L _ _).1.2
  rw [hsf]; exact hF4 c hc

theorem stepOnceJ_goodC (ok : CfgOK L cfg) {S I : Nat → Nat → Prop} (hL : LtsOK L) {et : JE} (inv : Inv L S I et.1)
    (g : GC L cfg et.1 et.2 running) : GC L cfg (stepOnceJ L et).1 (stepOnceJ L et).2 running := by
  unfold stepOnceJ
  cases hq : et.1.queue with
  | nil => exact g
  | cons k rest =>
    obtain ⟨b, a⟩ := k
    exact processRemoveJ_goodC ok hL inv hq g

end

end Vata.LEC2
