import Vata.Proofs.LtsUtilSR2

/-!
# `SplittingRelation` — part 3: shapes under construction

`init` and `split` build rows and columns cell by cell; in between some rows / columns are open (the last cell's forward
link and the sentinel's backward link are not set yet).  `GS o n R C cr cc` is `Shape` with closedness required only for
the rows in `cr` and the columns in `cc`; `GS.push` (a new cell at the end of a row and of a column), `GS.closeRow`,
`GS.closeCol`, `GS.alloc` are the steps all three loops are made of.
-/
namespace Vata.LU.SR
namespace P
local notation "cs" => List.map Ptr.cell

/-! ### generalized shape: rows / columns may be open (under construction) -/

def setL (R : Nat → List Nat) (i : Nat) (l : List Nat) : Nat → List Nat := fun k => if k = i then l else R k

@[simp] theorem setL_same (R : Nat → List Nat) (i : Nat) (l : List Nat) : setL R i l i = l := by simp [setL]
theorem setL_ne (R : Nat → List Nat) {i k : Nat} (l : List Nat) (h : k ≠ i) : setL R i l k = R k := by simp [setL, h]

def RowClosed (o : Obs) (R : Nat → List Nat) (i : Nat) : Prop :=
  o.gr (lastP (.rowS i) (R i)) = some (.rowS (i + 1)) ∧ o.gl (.rowS (i + 1)) = some (lastP (.rowS i) (R i))

def ColClosed (o : Obs) (C : Nat → List Nat) (j : Nat) : Prop :=
  o.gd (lastP (.colS j) (C j)) = some (.colS (j + 1)) ∧ o.gu (.colS (j + 1)) = some (lastP (.colS j) (C j))

/-- like `Shape`, but only the rows in `cr` and the columns in `cc` are closed; the memory part is kept apart -/
structure GS (o : Obs) (n : Nat) (R C : Nat → List Nat) (cr cc : Nat → Prop) : Prop where
  data : Data o.col o.row n R C
  rowO : ∀ i, i < n → DL o.gr o.gl (.rowS i :: cs (R i))
  colO : ∀ j, j < n → DL o.gd o.gu (.colS j :: cs (C j))
  rowCl : ∀ i, i < n → cr i → RowClosed o R i
  colCl : ∀ j, j < n → cc j → ColClosed o C j
  nr : n ≤ o.nr
  nc : o.nc = o.nr

theorem RowC_iff (o : Obs) (R : Nat → List Nat) (i : Nat) :
    RowC o R i ↔ DL o.gr o.gl (.rowS i :: cs (R i)) ∧ RowClosed o R i := DL_snoc _ _ _

theorem ColC_iff (o : Obs) (C : Nat → List Nat) (j : Nat) :
    ColC o C j ↔ DL o.gd o.gu (.colS j :: cs (C j)) ∧ ColClosed o C j := DL_snoc _ _ _

theorem Shape_iff_GS (o : Obs) (n : Nat) (R C : Nat → List Nat) :
    Shape o n R C ↔ GS o n R C (fun _ => True) (fun _ => True) ∧ Mem o R ∧ o.size = n := by
  constructor
  · intro h
    exact ⟨⟨h.data, fun i hi => ((RowC_iff _ _ _).1 (h.rowC i hi)).1, fun j hj => ((ColC_iff _ _ _).1 (h.colC j hj)).1,
      fun i hi _ => ((RowC_iff _ _ _).1 (h.rowC i hi)).2, fun j hj _ => ((ColC_iff _ _ _).1 (h.colC j hj)).2,
      h.nr, h.nc⟩, h.mem, h.size⟩
  · rintro ⟨g, m, sz⟩
    exact ⟨g.data, m, fun i hi => (RowC_iff _ _ _).2 ⟨g.rowO i hi, g.rowCl i hi trivial⟩,
      fun j hj => (ColC_iff _ _ _).2 ⟨g.colO j hj, g.colCl j hj trivial⟩, sz, g.nr, g.nc⟩

theorem GS.weaken {o : Obs} {n : Nat} {R C : Nat → List Nat} {cr cc cr' cc' : Nat → Prop} (h : GS o n R C cr cc)
    (h1 : ∀ k, k < n → cr' k → cr k) (h2 : ∀ k, k < n → cc' k → cc k) : GS o n R C cr' cc' :=
  ⟨h.data, h.rowO, h.colO, fun i hi hc => h.rowCl i hi (h1 i hi hc), fun j hj hc => h.colCl j hj (h2 j hj hc), h.nr, h.nc⟩

theorem GS.rowC {o : Obs} {n : Nat} {R C : Nat → List Nat} {cr cc : Nat → Prop} (h : GS o n R C cr cc) {i : Nat}
    (hi : i < n) (hc : cr i) : RowC o R i := (RowC_iff _ _ _).2 ⟨h.rowO i hi, h.rowCl i hi hc⟩

theorem GS.colC {o : Obs} {n : Nat} {R C : Nat → List Nat} {cr cc : Nat → Prop} (h : GS o n R C cr cc) {j : Nat}
    (hj : j < n) (hc : cc j) : ColC o C j := (ColC_iff _ _ _).2 ⟨h.colO j hj, h.colCl j hj hc⟩

/-! ### disjointness of the pointers of different rows / columns -/

theorem Data.not_mem_C {col row : Nat → Nat} {n : Nat} {R C : Nat → List Nat} (d : Data col row n R C) {a : Nat}
    (h : ∀ k, a ∉ R k) (k : Nat) : a ∉ C k := fun hm => h _ (d.cr k a hm)

theorem Data.row_ptr_ne {col row : Nat → Nat} {n : Nat} {R C : Nat → List Nat} (d : Data col row n R C) {i k : Nat}
    (hki : k ≠ i) {p q : Ptr} (hp : p ∈ Ptr.rowS k :: cs (R k)) (hq : q ∈ Ptr.rowS i :: cs (R i)) : p ≠ q := by
  rcases List.mem_cons.1 hp with rfl | hp <;> rcases List.mem_cons.1 hq with rfl | hq
  · simp [hki]
  · obtain ⟨a, _, rfl⟩ := List.mem_map.1 hq; simp
  · obtain ⟨a, _, rfl⟩ := List.mem_map.1 hp; simp
  · obtain ⟨a, ha, rfl⟩ := List.mem_map.1 hp
    obtain ⟨b, hb, rfl⟩ := List.mem_map.1 hq
    intro e
    have := Ptr.cell.inj e
    subst this
    exact hki ((d.rrow k a ha).symm.trans (d.rrow i a hb))

theorem Data.col_ptr_ne {col row : Nat → Nat} {n : Nat} {R C : Nat → List Nat} (d : Data col row n R C) {i k : Nat}
    (hki : k ≠ i) {p q : Ptr} (hp : p ∈ Ptr.colS k :: cs (C k)) (hq : q ∈ Ptr.colS i :: cs (C i)) : p ≠ q := by
  rcases List.mem_cons.1 hp with rfl | hp <;> rcases List.mem_cons.1 hq with rfl | hq
  · simp [hki]
  · obtain ⟨a, _, rfl⟩ := List.mem_map.1 hq; simp
  · obtain ⟨a, _, rfl⟩ := List.mem_map.1 hp; simp
  · obtain ⟨a, ha, rfl⟩ := List.mem_map.1 hp
    obtain ⟨b, hb, rfl⟩ := List.mem_map.1 hq
    intro e
    have := Ptr.cell.inj e
    subst this
    exact hki ((d.ccol k a ha).symm.trans (d.ccol i a hb))

theorem ne_cell_of_mem_row {R : Nat → List Nat} {a k : Nat} (h : a ∉ R k) {p : Ptr} (hp : p ∈ Ptr.rowS k :: cs (R k)) :
    p ≠ .cell a := by
  rcases List.mem_cons.1 hp with rfl | hp
  · simp
  · obtain ⟨b, hb, rfl⟩ := List.mem_map.1 hp
    intro e; exact h (Ptr.cell.inj e ▸ hb)

theorem ne_cell_of_mem_col {C : Nat → List Nat} {a k : Nat} (h : a ∉ C k) {p : Ptr} (hp : p ∈ Ptr.colS k :: cs (C k)) :
    p ≠ .cell a := by
  rcases List.mem_cons.1 hp with rfl | hp
  · simp
  · obtain ⟨b, hb, rfl⟩ := List.mem_map.1 hp
    intro e; exact h (Ptr.cell.inj e ▸ hb)

theorem open_nodup_row (l : List Nat) (i : Nat) (h : l.Nodup) : (Ptr.rowS i :: cs l).Nodup := by
  have := chain_nodup_row l i (i + 1) h (by omega)
  exact (List.nodup_append.1 this).1

theorem open_nodup_col (l : List Nat) (i : Nat) (h : l.Nodup) : (Ptr.colS i :: cs l).Nodup := by
  have := chain_nodup_col l i (i + 1) h (by omega)
  exact (List.nodup_append.1 this).1

theorem map_updN_of_not_mem (f : Nat → Nat) {a : Nat} (v : Nat) {l : List Nat} (h : a ∉ l) :
    l.map (updN f a v) = l.map f :=
  List.map_congr_left (fun _ hx => updN_ne _ _ (fun e => h (e ▸ hx)))

/-! ### adding a cell at the end of a row and of a column -/

theorem Data.push {col row : Nat → Nat} {n : Nat} {R C : Nat → List Nat} (d : Data col row n R C) {a i j : Nat}
    (hfresh : ∀ k, a ∉ R k) (hi : i < n) (hj : j < n) (hc : j ∉ (R i).map col) (hr : ∀ x ∈ C j, row x < i) :
    Data (updN col a j) (updN row a i) n (setL R i (R i ++ [a])) (setL C j (C j ++ [a])) := by
  have hfC := d.not_mem_C hfresh
  have memR : ∀ k x, x ∈ setL R i (R i ++ [a]) k → (x ∈ R k ∧ x ≠ a) ∨ (x = a ∧ k = i) := by
    intro k x hx
    by_cases hk : k = i
    · subst hk; rw [setL_same] at hx
      rcases List.mem_append.1 hx with h | h
      · exact Or.inl ⟨h, fun e => hfresh k (e ▸ h)⟩
      · exact Or.inr ⟨List.mem_singleton.1 h, rfl⟩
    · rw [setL_ne _ _ hk] at hx; exact Or.inl ⟨hx, fun e => hfresh k (e ▸ hx)⟩
  have memC : ∀ k x, x ∈ setL C j (C j ++ [a]) k → (x ∈ C k ∧ x ≠ a) ∨ (x = a ∧ k = j) := by
    intro k x hx
    by_cases hk : k = j
    · subst hk; rw [setL_same] at hx
      rcases List.mem_append.1 hx with h | h
      · exact Or.inl ⟨h, fun e => hfC k (e ▸ h)⟩
      · exact Or.inr ⟨List.mem_singleton.1 h, rfl⟩
    · rw [setL_ne _ _ hk] at hx; exact Or.inl ⟨hx, fun e => hfC k (e ▸ hx)⟩
  have subR : ∀ k x, x ∈ R k → x ∈ setL R i (R i ++ [a]) k := by
    intro k x hx
    by_cases hk : k = i
    · subst hk; rw [setL_same]; exact List.mem_append_left _ hx
    · rw [setL_ne _ _ hk]; exact hx
  have subC : ∀ k x, x ∈ C k → x ∈ setL C j (C j ++ [a]) k := by
    intro k x hx
    by_cases hk : k = j
    · subst hk; rw [setL_same]; exact List.mem_append_left _ hx
    · rw [setL_ne _ _ hk]; exact hx
  refine ⟨?_, ?_, ?_, ?_, ?_, ?_, ?_⟩
  · intro k x hx
    rcases memR k x hx with ⟨h1, h2⟩ | ⟨h1, h2⟩
    · rw [updN_ne _ _ h2]; exact d.rrow k x h1
    · subst h1; subst h2; simp
  · intro k x hx
    rcases memC k x hx with ⟨h1, h2⟩ | ⟨h1, h2⟩
    · rw [updN_ne _ _ h2]; exact d.ccol k x h1
    · subst h1; subst h2; simp
  · intro k x hx
    rcases memR k x hx with ⟨h1, h2⟩ | ⟨h1, h2⟩
    · rw [updN_ne _ _ h2]; exact subC _ x (d.rc k x h1)
    · subst h1; subst h2; simp
  · intro k x hx
    rcases memC k x hx with ⟨h1, h2⟩ | ⟨h1, h2⟩
    · rw [updN_ne _ _ h2]; exact subR _ x (d.cr k x h1)
    · subst h1; subst h2; simp
  · intro k x hx
    rcases memR k x hx with ⟨h1, h2⟩ | ⟨h1, h2⟩
    · rw [updN_ne _ _ h2]; exact d.rlt k x h1
    · subst h1; subst h2; simp [hi, hj]
  · intro k
    by_cases hk : k = i
    · subst hk
      rw [setL_same, List.map_append, map_updN_of_not_mem _ _ (hfresh k)]
      simp only [List.map_cons, updN_same, List.map_nil]
      refine List.nodup_append.2 ⟨d.rnd k, by simp, ?_⟩
      intro x hx y hy e
      rw [List.mem_singleton.1 hy] at e; exact hc (e ▸ hx)
    · rw [setL_ne _ _ hk, map_updN_of_not_mem _ _ (hfresh k)]; exact d.rnd k
  · intro k
    by_cases hk : k = j
    · subst hk
      rw [setL_same, List.map_append, map_updN_of_not_mem _ _ (hfC k)]
      simp only [List.map_cons, updN_same, List.map_nil]
      refine List.pairwise_append.2 ⟨d.csorted k, by simp, ?_⟩
      intro x hx y hy
      rw [List.mem_singleton.1 hy]
      obtain ⟨z, hz, rfl⟩ := List.mem_map.1 hx
      exact hr z hz
    · rw [setL_ne _ _ hk, map_updN_of_not_mem _ _ (hfC k)]; exact d.csorted k

theorem GS.push {o o' : Obs} {n : Nat} {R C : Nat → List Nat} {cr cc : Nat → Prop} (h : GS o n R C cr cc) {a i j : Nat}
    (hfresh : ∀ k, a ∉ R k) (hi : i < n) (hj : j < n) (hc : j ∉ (R i).map o.col) (hr : ∀ x ∈ C j, o.row x < i)
    (e1 : o'.gr = upd o.gr (lastP (.rowS i) (R i)) (.cell a)) (e2 : o'.gl = upd o.gl (.cell a) (lastP (.rowS i) (R i)))
    (e3 : o'.gd = upd o.gd (lastP (.colS j) (C j)) (.cell a)) (e4 : o'.gu = upd o.gu (.cell a) (lastP (.colS j) (C j)))
    (e5 : o'.col = updN o.col a j) (e6 : o'.row = updN o.row a i) (e7 : o'.nr = o.nr) (e8 : o'.nc = o.nc) :
    GS o' n (setL R i (R i ++ [a])) (setL C j (C j ++ [a])) (fun k => cr k ∧ k ≠ i) (fun k => cc k ∧ k ≠ j) := by
  have d := h.data
  have hfC := d.not_mem_C hfresh
  refine ⟨by rw [e5, e6]; exact d.push hfresh hi hj hc hr, ?_, ?_, ?_, ?_, by rw [e7]; exact h.nr, by rw [e7, e8]; exact h.nc⟩
  · intro k hk
    by_cases hki : k = i
    · subst hki
      rw [setL_same]
      have := DL_extend (nxt' := o'.gr) (prv' := o'.gl) (.rowS k) (.cell a) (R k) (h.rowO k hk)
        (open_nodup_row _ _ (d.R_nodup k)) (fun y _ hy => by rw [e1]; exact upd_ne _ _ hy) (by rw [e1]; exact upd_same _ _ _)
        (fun y hy => by
          rw [e2]; refine upd_ne _ _ ?_
          obtain ⟨b, hb, rfl⟩ := List.mem_map.1 hy
          intro e; exact hfresh k (Ptr.cell.inj e ▸ hb))
        (by rw [e2]; exact upd_same _ _ _)
      simpa using this
    · rw [setL_ne _ _ hki]
      refine DL_congr' _ (h.rowO k hk) ?_ ?_
      · intro p hp; rw [e1]
        exact upd_ne _ _ (d.row_ptr_ne hki hp (lastP_mem _ _))
      · intro p hp; rw [e2]
        exact upd_ne _ _ (ne_cell_of_mem_row (hfresh k) hp)
  · intro k hk
    by_cases hkj : k = j
    · subst hkj
      rw [setL_same]
      have := DL_extend (nxt' := o'.gd) (prv' := o'.gu) (.colS k) (.cell a) (C k) (h.colO k hk)
        (open_nodup_col _ _ (d.C_nodup k)) (fun y _ hy => by rw [e3]; exact upd_ne _ _ hy) (by rw [e3]; exact upd_same _ _ _)
        (fun y hy => by
          rw [e4]; refine upd_ne _ _ ?_
          obtain ⟨b, hb, rfl⟩ := List.mem_map.1 hy
          intro e; exact hfC k (Ptr.cell.inj e ▸ hb))
        (by rw [e4]; exact upd_same _ _ _)
      simpa using this
    · rw [setL_ne _ _ hkj]
      refine DL_congr' _ (h.colO k hk) ?_ ?_
      · intro p hp; rw [e3]
        exact upd_ne _ _ (d.col_ptr_ne hkj hp (lastP_mem _ _))
      · intro p hp; rw [e4]
        exact upd_ne _ _ (ne_cell_of_mem_col (hfC k) hp)
  · rintro k hk ⟨hck, hki⟩
    obtain ⟨c1, c2⟩ := h.rowCl k hk hck
    unfold RowClosed
    rw [setL_ne _ _ hki, e1, e2]
    refine ⟨?_, ?_⟩
    · rw [upd_ne _ _ (d.row_ptr_ne hki (lastP_mem _ _) (lastP_mem _ _))]; exact c1
    · rw [upd_ne _ _ (by simp)]; exact c2
  · rintro k hk ⟨hck, hkj⟩
    obtain ⟨c1, c2⟩ := h.colCl k hk hck
    unfold ColClosed
    rw [setL_ne _ _ hkj, e3, e4]
    refine ⟨?_, ?_⟩
    · rw [upd_ne _ _ (d.col_ptr_ne hkj (lastP_mem _ _) (lastP_mem _ _))]; exact c1
    · rw [upd_ne _ _ (by simp)]; exact c2

/-! ### closing a row / a column -/

theorem DL_open_frame {nxt prv nxt' prv' : Ptr → Option Ptr} (b : Ptr) (l : List Nat) (h : DL nxt prv (b :: cs l))
    (hnd : (b :: cs l).Nodup) (h1 : ∀ y ∈ b :: cs l, y ≠ lastP b l → nxt' y = nxt y)
    (h2 : ∀ y ∈ cs l, prv' y = prv y) : DL nxt' prv' (b :: cs l) := by
  obtain ⟨P, hP⟩ := exists_init l b
  refine DL_congr _ h ?_ ?_
  · intro y hy
    rw [hP] at hy hnd
    simp only [List.dropLast_concat] at hy
    refine h1 y (by rw [hP]; exact List.mem_append_left _ hy) ?_
    intro e; subst e
    exact (List.nodup_append.1 hnd).2.2 _ hy _ (List.mem_singleton.2 rfl) rfl
  · intro y hy; exact h2 y (by simpa using hy)

theorem GS.closeRow {o o' : Obs} {n : Nat} {R C : Nat → List Nat} {cr cc : Nat → Prop} (h : GS o n R C cr cc) {i : Nat}
    (e1 : o'.gr = upd o.gr (lastP (.rowS i) (R i)) (.rowS (i + 1)))
    (e2 : o'.gl = upd o.gl (.rowS (i + 1)) (lastP (.rowS i) (R i)))
    (e3 : o'.gd = o.gd) (e4 : o'.gu = o.gu) (e5 : o'.col = o.col) (e6 : o'.row = o.row) (e7 : o'.nr = o.nr)
    (e8 : o'.nc = o.nc) : GS o' n R C (fun k => cr k ∨ k = i) cc := by
  have d := h.data
  refine ⟨by rw [e5, e6]; exact d, ?_, by rw [e3, e4]; exact h.colO, ?_, by unfold ColClosed; rw [e3, e4]; exact h.colCl,
    by rw [e7]; exact h.nr, by rw [e7, e8]; exact h.nc⟩
  · intro k hk
    refine DL_open_frame _ _ (h.rowO k hk) (open_nodup_row _ _ (d.R_nodup k)) ?_ ?_
    · intro y hy hne
      rw [e1]; refine upd_ne _ _ ?_
      by_cases hki : k = i
      · subst hki; exact hne
      · exact d.row_ptr_ne hki hy (lastP_mem _ _)
    · intro y hy
      rw [e2]; refine upd_ne _ _ ?_
      obtain ⟨b, _, rfl⟩ := List.mem_map.1 hy; simp
  · intro k hk hc
    by_cases hki : k = i
    · subst hki
      exact ⟨by rw [e1]; exact upd_same _ _ _, by rw [e2]; exact upd_same _ _ _⟩
    · have hck : cr k := by rcases hc with hc | hc; exact hc; exact absurd hc hki
      obtain ⟨c1, c2⟩ := h.rowCl k hk hck
      refine ⟨?_, ?_⟩
      · rw [e1, upd_ne _ _ (d.row_ptr_ne hki (lastP_mem _ _) (lastP_mem _ _))]; exact c1
      · rw [e2, upd_ne _ _ (by simp [hki])]; exact c2

theorem GS.closeCol {o o' : Obs} {n : Nat} {R C : Nat → List Nat} {cr cc : Nat → Prop} (h : GS o n R C cr cc) {j : Nat}
    (e1 : o'.gd = upd o.gd (lastP (.colS j) (C j)) (.colS (j + 1)))
    (e2 : o'.gu = upd o.gu (.colS (j + 1)) (lastP (.colS j) (C j)))
    (e3 : o'.gr = o.gr) (e4 : o'.gl = o.gl) (e5 : o'.col = o.col) (e6 : o'.row = o.row) (e7 : o'.nr = o.nr)
    (e8 : o'.nc = o.nc) : GS o' n R C cr (fun k => cc k ∨ k = j) := by
  have d := h.data
  refine ⟨by rw [e5, e6]; exact d, by rw [e3, e4]; exact h.rowO, ?_, by unfold RowClosed; rw [e3, e4]; exact h.rowCl, ?_,
    by rw [e7]; exact h.nr, by rw [e7, e8]; exact h.nc⟩
  · intro k hk
    refine DL_open_frame _ _ (h.colO k hk) (open_nodup_col _ _ (d.C_nodup k)) ?_ ?_
    · intro y hy hne
      rw [e1]; refine upd_ne _ _ ?_
      by_cases hkj : k = j
      · subst hkj; exact hne
      · exact d.col_ptr_ne hkj hy (lastP_mem _ _)
    · intro y hy
      rw [e2]; refine upd_ne _ _ ?_
      obtain ⟨b, _, rfl⟩ := List.mem_map.1 hy; simp
  · intro k hk hc
    by_cases hkj : k = j
    · subst hkj
      exact ⟨by rw [e1]; exact upd_same _ _ _, by rw [e2]; exact upd_same _ _ _⟩
    · have hck : cc k := by rcases hc with hc | hc; exact hc; exact absurd hc hkj
      obtain ⟨c1, c2⟩ := h.colCl k hk hck
      refine ⟨?_, ?_⟩
      · rw [e1, upd_ne _ _ (d.col_ptr_ne hkj (lastP_mem _ _) (lastP_mem _ _))]; exact c1
      · rw [e2, upd_ne _ _ (by simp [hkj])]; exact c2

/-! ### allocation does not disturb the shape -/

theorem Data.congr {col row col' row' : Nat → Nat} {n : Nat} {R C : Nat → List Nat} (d : Data col row n R C)
    (h1 : ∀ k, ∀ x ∈ R k, col' x = col x) (h2 : ∀ k, ∀ x ∈ R k, row' x = row x) : Data col' row' n R C := by
  have h1C : ∀ k, ∀ x ∈ C k, col' x = col x := fun k x hx => h1 _ x (d.cr k x hx)
  have h2C : ∀ k, ∀ x ∈ C k, row' x = row x := fun k x hx => h2 _ x (d.cr k x hx)
  refine ⟨?_, ?_, ?_, ?_, ?_, ?_, ?_⟩
  · intro k x hx; rw [h2 k x hx]; exact d.rrow k x hx
  · intro k x hx; rw [h1C k x hx]; exact d.ccol k x hx
  · intro k x hx; rw [h1 k x hx]; exact d.rc k x hx
  · intro k x hx; rw [h2C k x hx]; exact d.cr k x hx
  · intro k x hx; rw [h1 k x hx]; exact d.rlt k x hx
  · intro k; rw [List.map_congr_left (h1 k)]; exact d.rnd k
  · intro k; rw [List.map_congr_left (h2C k)]; exact d.csorted k

theorem Mem.fresh {o o1 : Obs} {R : Nat → List Nat} {t : Nat} (m : Mem o R) (ha : AllocRel o o1 t) (k : Nat) :
    t ∉ R k := by
  intro hm
  rcases ha.t_old with h | h
  · exact m.nfree k t hm h
  · have := m.lt k t hm; omega

theorem Mem.alloc {o o1 : Obs} {R : Nat → List Nat} {t : Nat} (m : Mem o R) (ha : AllocRel o o1 t) : Mem o1 R :=
  ⟨fun k x hx => Nat.lt_of_lt_of_le (m.lt k x hx) ha.next_le, fun k x hx hf => m.nfree k x hx (ha.free_sub x hf),
   ha.free_nd, fun x hx => Nat.lt_of_lt_of_le (m.flt x (ha.free_sub x hx)) ha.next_le⟩

theorem Mem.push {o o' : Obs} {R : Nat → List Nat} {a : Nat} (m : Mem o R) (i : Nat) (hn : o.next ≤ o'.next)
    (hf : o'.free = o.free) (ha : a < o'.next) (haf : a ∉ o.free) : Mem o' (setL R i (R i ++ [a])) := by
  have memR : ∀ k x, x ∈ setL R i (R i ++ [a]) k → x ∈ R k ∨ x = a := by
    intro k x hx
    by_cases hk : k = i
    · subst hk; rw [setL_same] at hx
      rcases List.mem_append.1 hx with h | h
      · exact Or.inl h
      · exact Or.inr (List.mem_singleton.1 h)
    · rw [setL_ne _ _ hk] at hx; exact Or.inl hx
  refine ⟨?_, ?_, by rw [hf]; exact m.fnd, fun x hx => Nat.lt_of_lt_of_le (m.flt x (hf ▸ hx)) hn⟩
  · intro k x hx
    rcases memR k x hx with h | h
    · exact Nat.lt_of_lt_of_le (m.lt k x h) hn
    · rw [h]; exact ha
  · intro k x hx
    rw [hf]
    rcases memR k x hx with h | h
    · exact m.nfree k x h
    · rw [h]; exact haf

theorem Mem.congr {o o' : Obs} {R : Nat → List Nat} (m : Mem o R) (hn : o'.next = o.next) (hf : o'.free = o.free) :
    Mem o' R :=
  ⟨fun k x hx => hn ▸ m.lt k x hx, fun k x hx => hf ▸ m.nfree k x hx, hf ▸ m.fnd, fun x hx => hn ▸ m.flt x (hf ▸ hx)⟩

theorem GS.alloc {o o1 : Obs} {n : Nat} {R C : Nat → List Nat} {cr cc : Nat → Prop} (h : GS o n R C cr cc) {t : Nat}
    (ha : AllocRel o o1 t) (hfresh : ∀ k, t ∉ R k) : GS o1 n R C cr cc := by
  have d := h.data
  have hfC := d.not_mem_C hfresh
  refine ⟨d.congr (fun k x hx => ha.col x (fun e => hfresh k (e ▸ hx))) (fun k x hx => ha.row x (fun e => hfresh k (e ▸ hx))),
    ?_, ?_, ?_, ?_, by rw [ha.nr]; exact h.nr, by rw [ha.nr, ha.nc]; exact h.nc⟩
  · intro k hk
    exact DL_congr' _ (h.rowO k hk) (fun p hp => ha.gr p (ne_cell_of_mem_row (hfresh k) hp))
      (fun p hp => ha.gl p (ne_cell_of_mem_row (hfresh k) hp))
  · intro k hk
    exact DL_congr' _ (h.colO k hk) (fun p hp => ha.gd p (ne_cell_of_mem_col (hfC k) hp))
      (fun p hp => ha.gu p (ne_cell_of_mem_col (hfC k) hp))
  · intro k hk hc
    obtain ⟨c1, c2⟩ := h.rowCl k hk hc
    exact ⟨(ha.gr _ (ne_cell_of_mem_row (hfresh k) (lastP_mem _ _))).trans c1, (ha.gl _ (by simp)).trans c2⟩
  · intro k hk hc
    obtain ⟨c1, c2⟩ := h.colCl k hk hc
    exact ⟨(ha.gd _ (ne_cell_of_mem_col (hfC k) (lastP_mem _ _))).trans c1, (ha.gu _ (by simp)).trans c2⟩

end P
end Vata.LU.SR
