import Vata.TimbukGrammar
/-!
# Specifications of the lexical helpers of the Timbuk parser (property C13)

`trim`, the search for a character, the search for `->`, `split_delim`: what they return, as decompositions.
-/
namespace Vata.Timbuk
open Vata.T (splitDelim joinWith splitDelim_joinWith)

theorem allWs_nil : AllWs [] := by intro c hc; cases hc

theorem mem_takeWhile_imp {α : Type} {p : α → Bool} {l : List α} {a : α} (h : a ∈ l.takeWhile p) : p a = true := by
  induction l with
  | nil => cases h
  | cons x r ih =>
    by_cases hx : p x = true
    · rw [List.takeWhile_cons_of_pos hx] at h
      rcases List.mem_cons.mp h with h | h
      · subst h; exact hx
      · exact ih h
    · rw [List.takeWhile_cons_of_neg hx] at h; cases h

theorem dropWhile_nil_all {α : Type} {p : α → Bool} {l : List α} (h : l.dropWhile p = []) : ∀ a ∈ l, p a = true := by
  induction l with
  | nil => intro a ha; cases ha
  | cons x r ih =>
    by_cases hx : p x = true
    · rw [List.dropWhile_cons_of_pos hx] at h
      intro a ha
      rcases List.mem_cons.mp ha with ha | ha
      · subst ha; exact hx
      · exact ih h a ha
    · rw [List.dropWhile_cons_of_neg hx] at h; cases h

/-- `trimL` removes a white prefix and stops at a non-white character -/
theorem trimL_decomp (s : Str) : ∃ pre, s = pre ++ trimL s ∧ AllWs pre ∧ HeadOk (trimL s) := by
  refine ⟨s.takeWhile isSpace, (List.takeWhile_append_dropWhile (p := isSpace) (l := s)).symm, ?_, ?_⟩
  · intro c hc; exact (mem_takeWhile_imp hc)
  · intro c hc
    unfold trimL at hc
    have := List.head?_dropWhile_not isSpace s
    rw [hc] at this
    simpa using this

/-- `trimR` removes a white suffix and stops at a non-white character -/
theorem trimR_decomp (s : Str) : ∃ post, s = trimR s ++ post ∧ AllWs post ∧ LastOk (trimR s) := by
  refine ⟨(s.reverse.takeWhile isSpace).reverse, ?_, ?_, ?_⟩
  · unfold trimR
    rw [← List.reverse_append, List.takeWhile_append_dropWhile, List.reverse_reverse]
  · intro c hc
    exact mem_takeWhile_imp (List.mem_reverse.mp hc)
  · intro c hc
    unfold trimR at hc
    rw [List.getLast?_reverse] at hc
    have := List.head?_dropWhile_not isSpace s.reverse
    rw [hc] at this
    simpa using this

/-- **`trim`**: the string is `pre ++ trim s ++ post` with white `pre`, `post`, and `trim s` neither starts nor ends with a
white character (with `trim_pad`: this determines `trim s`) -/
theorem trim_decomp (s : Str) : ∃ pre post, s = pre ++ trim s ++ post ∧ AllWs pre ∧ AllWs post ∧
    HeadOk (trim s) ∧ LastOk (trim s) := by
  obtain ⟨pre, h1, hpre, hh⟩ := trimL_decomp s
  obtain ⟨post, h2, hpost, hl⟩ := trimR_decomp (trimL s)
  refine ⟨pre, post, ?_, hpre, hpost, ?_, hl⟩
  · unfold trim
    rw [List.append_assoc, ← h2]; exact h1
  · -- the head of a prefix is the head of the whole
    unfold trim
    intro c hc
    cases ht : trimR (trimL s) with
    | nil => rw [ht] at hc; cases hc
    | cons x r =>
      rw [ht] at hc
      simp only [List.head?_cons, Option.some.injEq] at hc
      subst hc
      apply hh
      rw [h2, ht]; rfl

theorem trim_eq_nil_iff (s : Str) : trim s = [] ↔ AllWs s := by
  constructor
  · intro h
    obtain ⟨pre, post, hs, hpre, hpost, _, _⟩ := trim_decomp s
    rw [h, List.append_nil] at hs
    rw [hs]; exact allWs_append hpre hpost
  · exact trim_allWs

theorem trim_ne_nil_head {s : Str} (h : trim s ≠ []) : ∃ c r, trim s = c :: r ∧ isSpace c = false := by
  obtain ⟨_, _, _, _, _, hh, _⟩ := trim_decomp s
  cases ht : trim s with
  | nil => exact absurd ht h
  | cons c r => exact ⟨c, r, rfl, hh c (by rw [ht]; rfl)⟩

/-- searching for the character `x`: either it does not occur, or the string is `p ++ x :: q` with `x ∉ p` -/
theorem find_char (x : Char) (s : Str) :
    (s.dropWhile (fun c => c != x) = [] ∧ x ∉ s) ∨
    ∃ q, s.dropWhile (fun c => c != x) = x :: q ∧ s = s.takeWhile (fun c => c != x) ++ x :: q ∧
      x ∉ s.takeWhile (fun c => c != x) := by
  cases h : s.dropWhile (fun c => c != x) with
  | nil =>
    left
    refine ⟨rfl, ?_⟩
    intro hx
    simpa using dropWhile_nil_all h x hx
  | cons y q =>
    right
    have hy : y = x := by
      have := List.head?_dropWhile_not (fun c => c != x) s
      rw [h] at this
      simpa using this
    subst hy
    refine ⟨q, rfl, ?_, ?_⟩
    · rw [← h, List.takeWhile_append_dropWhile]
    · intro hx
      simpa using mem_takeWhile_imp hx

/-- the text before the first `->` contains no `->` -/
theorem splitArrow_some_none {s l r : Str} (h : splitArrow s = some (l, r)) : splitArrow l = none := by
  induction s using splitArrow.induct generalizing l with
  | case1 => simp [splitArrow] at h
  | case2 c => simp [splitArrow] at h
  | case3 c c' r' hc =>
    simp only [splitArrow, hc, and_self, if_true, Option.some.injEq, Prod.mk.injEq] at h
    obtain ⟨rfl, _⟩ := h
    rfl
  | case4 c c' r' hc hn ih => simp [splitArrow, hc, hn] at h
  | case5 c c' r' hc p' s' hr ih =>
    simp only [splitArrow, hc, if_false, hr, Option.some.injEq, Prod.mk.injEq] at h
    obtain ⟨rfl, rfl⟩ := h
    have ihn := ih hr
    -- `c :: p'` : no arrow in `p'`, and `c`, head of `p'` are not `-`, `>` together
    cases p' with
    | nil => rfl
    | cons d p'' =>
      have hs := splitArrow_some hr
      simp only [List.cons_append, List.cons.injEq] at hs
      obtain ⟨rfl, _⟩ := hs
      simp [splitArrow, hc, ihn]

/-- **the search for `->`**: `splitArrow s = some (l, r)` iff `s = l -> r` and `l` contains no `->` -/
theorem splitArrow_eq_some_iff (s l r : Str) :
    splitArrow s = some (l, r) ↔ s = l ++ '-' :: '>' :: r ∧ NoArrowIn l := by
  constructor
  · intro h
    exact ⟨splitArrow_some h, (splitArrow_none_iff l).mp (splitArrow_some_none h)⟩
  · rintro ⟨rfl, h⟩
    exact splitArrow_first' ((splitArrow_none_iff l).mpr h) r

/-! ## `split_delim` -/

theorem splitDelim_cons_ne (d : Char) (s : Str) : ∃ p ps, splitDelim d s = p :: ps := by
  cases h : splitDelim d s with
  | nil => exact absurd h (Vata.T.splitDelim_ne_nil d s)
  | cons p ps => exact ⟨p, ps, rfl⟩

/-- the pieces contain no delimiter and joined give the string back -/
theorem splitDelim_spec (d : Char) (s : Str) :
    (∀ p ∈ splitDelim d s, d ∉ p) ∧ joinWith d (splitDelim d s) = s := by
  induction s with
  | nil => simp [splitDelim, joinWith]
  | cons c cs ih =>
    obtain ⟨p, ps, hp⟩ := splitDelim_cons_ne d cs
    rw [hp] at ih
    by_cases hc : c = d
    · subst hc
      simp only [splitDelim, if_true, hp]
      refine ⟨?_, ?_⟩
      · intro x hx
        rcases List.mem_cons.mp hx with hx | hx
        · subst hx; simp
        · exact ih.1 x hx
      · simp only [joinWith, List.nil_append]; rw [ih.2]
    · simp only [splitDelim, hc, if_false, hp]
      refine ⟨?_, ?_⟩
      · intro x hx
        rcases List.mem_cons.mp hx with hx | hx
        · subst hx
          intro hm
          rcases List.mem_cons.mp hm with hm | hm
          · exact hc hm.symm
          · exact ih.1 p List.mem_cons_self hm
        · exact ih.1 x (List.mem_cons_of_mem _ hx)
      · have := ih.2
        cases ps with
        | nil => simp only [joinWith] at this ⊢; rw [this]
        | cons q qs => simp only [joinWith, List.cons_append] at this ⊢; rw [this]

/-- **`split_delim`**: `splitDelim d s = ps` iff `ps` is a non-empty list of `d`-free pieces whose join is `s` -/
theorem splitDelim_eq_iff (d : Char) (s : Str) (ps : List Str) :
    splitDelim d s = ps ↔ ps ≠ [] ∧ (∀ p ∈ ps, d ∉ p) ∧ s = joinWith d ps := by
  constructor
  · rintro rfl
    exact ⟨Vata.T.splitDelim_ne_nil d s, (splitDelim_spec d s).1, (splitDelim_spec d s).2.symm⟩
  · rintro ⟨h1, h2, rfl⟩
    exact splitDelim_joinWith d ps h1 h2

theorem lines_iff (t : Str) (ls : List Str) : Lines t ls ↔ splitDelim '\n' t = ls :=
  (splitDelim_eq_iff '\n' t ls).symm

end Vata.Timbuk
