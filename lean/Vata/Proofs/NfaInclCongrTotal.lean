import Vata.Proofs.NfaInclCongr
import Vata.Proofs.NfaInclTotal
/-!
# Totality of `nfaInclCongr` on operands with disjoint states

* `inCongrB_complete`, `congrCertB_complete` : the Boolean certificate check accepts every bisimulation up to congruence
                                 (the rewriting of `congrCl` reaches the least closed set within `|R|` sweeps);
* `runCongr_terminates`        : the exploration ends within `2^|Q_U| · 2^|Q_B| + 1` picked pairs;
* `nfaInclCongr_total`, `nfaInclCongr_complete` : above that bound `nfaInclCongr` returns a verdict on disjoint operands,
                                 hence the right one;
* `checkNfaInclCongr_total`, `checkNfaInclCongr_complete` : the same for the model of the dispatcher (any operands).
-/
namespace Vata
open Vata.W
namespace NfaIncl

/-! ### the certificate check is complete -/

/-- `C` is closed under the (two-sided) rules of `R` -/
def Closed (R : List CRule) (C : List Nat) : Prop :=
  ∀ r, r ∈ R → ((∀ x, x ∈ r.1 → x ∈ C) ∨ (∀ x, x ∈ r.2 → x ∈ C)) → (∀ x, x ∈ r.1 → x ∈ C) ∧ (∀ x, x ∈ r.2 → x ∈ C)

/-- congruent sets are inside the same closed sets -/
theorem congrCl_closed_iff {R : List CRule} {C : List Nat} (hC : Closed R C) {X Y : List Nat} (h : CongrCl R X Y) :
    (∀ x, x ∈ X → x ∈ C) ↔ (∀ x, x ∈ Y → x ∈ C) := by
  induction h with
  | base hm =>
    constructor
    · intro h; exact (hC _ hm (Or.inl h)).2
    · intro h; exact (hC _ hm (Or.inr h)).1
  | refl he =>
    constructor
    · intro h x hx; exact h x ((he x).mpr hx)
    · intro h x hx; exact h x ((he x).mp hx)
  | symm _ ih => exact ih.symm
  | trans _ _ ih1 ih2 => exact ih1.trans ih2
  | union _ _ ih1 ih2 =>
    simp only [List.mem_append]
    constructor
    · intro h x hx
      rcases hx with hx | hx
      · exact ih1.mp (fun y hy => h y (Or.inl hy)) x hx
      · exact ih2.mp (fun y hy => h y (Or.inr hy)) x hx
    · intro h x hx
      rcases hx with hx | hx
      · exact ih1.mpr (fun y hy => h y (Or.inl hy)) x hx
      · exact ih2.mpr (fun y hy => h y (Or.inr hy)) x hx

/-- firing one rule -/
def fire (S : List Nat) (r : CRule) : List Nat :=
  if Vata.subB r.1 S || Vata.subB r.2 S then normS (S ++ r.1 ++ r.2) else S

theorem clStep_eq (R : List CRule) (S : List Nat) : clStep R S = R.foldl fire S := rfl

theorem sub_fire (S : List Nat) (r : CRule) : ∀ x, x ∈ S → x ∈ fire S r := by
  intro x hx
  unfold fire
  split
  · simp only [mem_normS, List.mem_append]; exact Or.inl (Or.inl hx)
  · exact hx

theorem sub_foldl_fire : ∀ (R : List CRule) (S : List Nat), ∀ x, x ∈ S → x ∈ R.foldl fire S
  | [], _, _, h => h
  | r :: R, S, x, h => by
    simp only [List.foldl_cons]
    exact sub_foldl_fire R _ x (sub_fire S r x h)

theorem sub_clIter (R : List CRule) : ∀ (n : Nat) (S : List Nat), ∀ x, x ∈ S → x ∈ clIter R n S
  | 0, _, _, h => h
  | n+1, S, x, h => sub_clIter R n _ x (sub_foldl_fire R S x h)

/-- the closure is extensive -/
theorem sub_congrCl (R : List CRule) (S : List Nat) : ∀ x, x ∈ S → x ∈ congrCl R S := sub_clIter R _ S

/-- the rule is satisfied: both sides are inside `S` -/
def satB (S : List Nat) (r : CRule) : Bool := Vata.subB r.1 S && Vata.subB r.2 S

theorem satB_iff {S : List Nat} {r : CRule} : satB S r = true ↔ (∀ x, x ∈ r.1 → x ∈ S) ∧ (∀ x, x ∈ r.2 → x ∈ S) := by
  simp only [satB, Bool.and_eq_true, subB_iff]

theorem satB_mono {S S' : List Nat} (h : ∀ x, x ∈ S → x ∈ S') {r : CRule} (hs : satB S r = true) :
    satB S' r = true := by
  rw [satB_iff] at hs ⊢
  exact ⟨fun x hx => h x (hs.1 x hx), fun x hx => h x (hs.2 x hx)⟩

/-- a sweep satisfies every rule that matched at its beginning -/
theorem foldl_fire_sat : ∀ (R : List CRule) (S : List Nat) (r : CRule), r ∈ R →
    ((∀ x, x ∈ r.1 → x ∈ S) ∨ (∀ x, x ∈ r.2 → x ∈ S)) → satB (R.foldl fire S) r = true
  | [], _, _, h, _ => by simp at h
  | r0 :: R, S, r, hr, hm => by
    simp only [List.foldl_cons]
    rcases List.mem_cons.mp hr with rfl | hr
    · apply satB_mono (sub_foldl_fire R _)
      have hc : (Vata.subB r.1 S || Vata.subB r.2 S) = true := by
        simp only [Bool.or_eq_true, subB_iff]; exact hm
      rw [satB_iff]
      unfold fire
      rw [if_pos hc]
      simp only [mem_normS, List.mem_append]
      exact ⟨fun x hx => Or.inl (Or.inr hx), fun x hx => Or.inr hx⟩
    · apply foldl_fire_sat R _ r hr
      rcases hm with hm | hm
      · exact Or.inl (fun x hx => sub_fire S r0 x (hm x hx))
      · exact Or.inr (fun x hx => sub_fire S r0 x (hm x hx))

/-- the number of rules not yet satisfied -/
def unsat (R : List CRule) (S : List Nat) : Nat := R.countP (fun r => !satB S r)

theorem closed_of_unsat_zero {R : List CRule} {S : List Nat} (h : unsat R S = 0) : Closed R S := by
  intro r hr _
  have := List.countP_eq_zero.mp h r hr
  simp only [Bool.not_eq_true', Bool.not_eq_false] at this
  exact satB_iff.mp this

theorem unsat_clStep_lt {R : List CRule} {S : List Nat} (h : ¬ Closed R S) : unsat R (clStep R S) < unsat R S := by
  have hex : ∃ r, r ∈ R ∧ ((∀ x, x ∈ r.1 → x ∈ S) ∨ (∀ x, x ∈ r.2 → x ∈ S)) ∧
      ¬ ((∀ x, x ∈ r.1 → x ∈ S) ∧ (∀ x, x ∈ r.2 → x ∈ S)) := by
    apply Classical.byContradiction
    intro hne
    apply h
    intro r hr hm
    apply Classical.byContradiction
    intro hns
    exact hne ⟨r, hr, hm, hns⟩
  obtain ⟨r, hr, hm, hns⟩ := hex
  apply countP_lt_of_new
  · intro r' _ hr'
    simp only [Bool.not_eq_true'] at hr' ⊢
    cases hs : satB S r' with
    | false => rfl
    | true =>
      have := satB_mono (sub_foldl_fire R S) hs
      rw [clStep_eq] at hr'
      rw [hr'] at this; cases this
  · refine ⟨r, hr, ?_, ?_⟩
    · simp only [Bool.not_eq_true']
      cases hs : satB S r with
      | false => rfl
      | true => exact (hns (satB_iff.mp hs)).elim
    · simp only [ne_eq, Bool.not_eq_true', Bool.not_eq_false]
      rw [clStep_eq]
      exact foldl_fire_sat R S r hr hm

/-- a sweep over a closed set adds nothing -/
theorem foldl_fire_closed {R : List CRule} {C : List Nat} (hC : Closed R C) : ∀ (R' : List CRule) (S : List Nat),
    (∀ r, r ∈ R' → r ∈ R) → (∀ x, x ∈ S → x ∈ C) → ∀ x, x ∈ R'.foldl fire S → x ∈ C
  | [], _, _, hS => hS
  | r :: R', S, hR', hS => by
    simp only [List.foldl_cons]
    apply foldl_fire_closed hC R' _ (fun r' h => hR' r' (List.mem_cons_of_mem _ h))
    intro x hx
    unfold fire at hx
    split at hx
    · next hc =>
      simp only [Bool.or_eq_true, subB_iff] at hc
      have hm : (∀ x, x ∈ r.1 → x ∈ C) ∨ (∀ x, x ∈ r.2 → x ∈ C) := by
        rcases hc with hc | hc
        · exact Or.inl (fun x hx => hS x (hc x hx))
        · exact Or.inr (fun x hx => hS x (hc x hx))
      obtain ⟨h1, h2⟩ := hC r (hR' r List.mem_cons_self) hm
      simp only [mem_normS, List.mem_append] at hx
      rcases hx with (hx | hx) | hx
      · exact hS x hx
      · exact h1 x hx
      · exact h2 x hx
    · exact hS x hx

theorem Closed.congr {R : List CRule} {C C' : List Nat} (h : Closed R C) (he : ∀ x, x ∈ C ↔ x ∈ C') : Closed R C' := by
  intro r hr hm
  have hm' : (∀ x, x ∈ r.1 → x ∈ C) ∨ (∀ x, x ∈ r.2 → x ∈ C) := by
    rcases hm with hm | hm
    · exact Or.inl (fun x hx => (he x).mpr (hm x hx))
    · exact Or.inr (fun x hx => (he x).mpr (hm x hx))
  obtain ⟨h1, h2⟩ := h r hr hm'
  exact ⟨fun x hx => (he x).mp (h1 x hx), fun x hx => (he x).mp (h2 x hx)⟩

theorem closed_clStep {R : List CRule} {S : List Nat} (h : Closed R S) : Closed R (clStep R S) :=
  h.congr (fun x => ⟨sub_foldl_fire R S x, foldl_fire_closed h R S (fun _ h => h) (fun _ h => h) x⟩)

theorem closed_clIter_of_closed {R : List CRule} : ∀ (n : Nat) (S : List Nat), Closed R S → Closed R (clIter R n S)
  | 0, _, h => h
  | n+1, _, h => closed_clIter_of_closed n _ (closed_clStep h)

theorem closed_clIter {R : List CRule} : ∀ (n : Nat) (S : List Nat), unsat R S ≤ n → Closed R (clIter R n S)
  | 0, _, h => closed_of_unsat_zero (Nat.le_zero.mp h)
  | n+1, S, h => by
    by_cases hc : Closed R S
    · exact closed_clIter_of_closed (n+1) S hc
    · have := unsat_clStep_lt hc
      exact closed_clIter n _ (by omega)

/-- `R.length` sweeps reach a closed set -/
theorem closed_congrCl (R : List CRule) (S : List Nat) : Closed R (congrCl R S) :=
  closed_clIter R.length S List.countP_le_length

theorem inCongrB_complete {R : List CRule} {X Y : List Nat} (h : CongrCl R X Y) : inCongrB R X Y = true := by
  simp only [inCongrB, Bool.and_eq_true, subB_iff]
  exact ⟨(congrCl_closed_iff (closed_congrCl R Y) h).mpr (sub_congrCl R Y),
    (congrCl_closed_iff (closed_congrCl R X) h).mp (sub_congrCl R X)⟩

end NfaIncl

open NfaIncl

/-- the Boolean check accepts every certificate -/
theorem congrCertB_complete {A B : NFA} {R : List CRule} (h : CongrCert A B R) : congrCertB A B R = true := by
  obtain ⟨hdis, hinit, hbis⟩ := h
  simp only [congrCertB, Bool.and_eq_true, List.all_eq_true, Bool.not_eq_true', beq_iff_eq]
  refine ⟨⟨?_, inCongrB_complete hinit⟩, ?_⟩
  · intro q hA
    cases hc : (nfaStates B).contains q with
    | false => rfl
    | true => exact (hdis q hA (List.contains_iff_mem.mp hc)).elim
  · intro p hp
    exact ⟨(hbis p hp).1, fun a _ => inCongrB_complete ((hbis p hp).2 a)⟩

theorem congrCertB_iff {A B : NFA} {R : List CRule} : congrCertB A B R = true ↔ CongrCert A B R :=
  ⟨congrCertB_sound, congrCertB_complete⟩

namespace NfaIncl

/-- whenever the exploration ends on disjoint operands, `nfaInclCongr` returns its verdict -/
theorem nfaInclCongr_of_runCongr {A B : NFA} (hdis : ∀ q, q ∈ nfaStates A → q ∈ nfaStates B → False)
    {breadth : Bool} {fuel : Nat} {r : Res (List CItem)}
    (h : runCongr (nfaUnionDisjoint A B) B breadth fuel = some r) : ∃ v, nfaInclCongr A B breadth fuel = some v := by
  unfold nfaInclCongr
  rw [h]
  cases r with
  | ok R =>
    simp only
    rw [if_pos (congrCertB_complete (runCongr_ok_cert hdis h))]
    exact ⟨_, rfl⟩
  | error w =>
    simp only
    obtain ⟨h1, h2⟩ := runCongr_error_ok hdis h
    rw [h1, h2]
    exact ⟨_, rfl⟩

/-! ### termination of the exploration -/

theorem insS_sorted {x : Nat} : ∀ {l : List Nat}, List.Pairwise (· < ·) l → List.Pairwise (· < ·) (insS x l)
  | [], _ => by simp [insS]
  | y :: l, h => by
    have hy := (List.pairwise_cons.mp h).1
    have hl := (List.pairwise_cons.mp h).2
    unfold insS
    split
    · next hxy =>
      refine List.pairwise_cons.mpr ⟨?_, h⟩
      intro z hz
      rcases List.mem_cons.mp hz with rfl | hz
      · exact hxy
      · exact Nat.lt_trans hxy (hy z hz)
    · next hxy =>
      split
      · exact h
      · next hne =>
        refine List.pairwise_cons.mpr ⟨?_, insS_sorted hl⟩
        intro z hz
        rcases mem_insS.mp hz with rfl | hz
        · have : ¬ z = y := by simpa using hne
          omega
        · exact hy z hz

theorem normS_sorted : ∀ l : List Nat, List.Pairwise (· < ·) (normS l)
  | [] => List.Pairwise.nil
  | _ :: l => insS_sorted (normS_sorted l)

theorem nil_mem_subsets : ∀ l : List Nat, [] ∈ subsets l
  | [] => by simp [subsets]
  | _ :: l => by simp only [subsets, List.mem_append]; exact Or.inl (nil_mem_subsets l)

/-- a strictly increasing list inside a strictly increasing list is one of its sublists -/
theorem sorted_mem_subsets : ∀ (D l : List Nat), List.Pairwise (· < ·) D → List.Pairwise (· < ·) l →
    (∀ x, x ∈ l → x ∈ D) → l ∈ subsets D
  | [], l, _, _, hsub => by
    cases l with
    | nil => simp [subsets]
    | cons x l => exact absurd (hsub x List.mem_cons_self) (by simp)
  | d :: D, [], _, _, _ => nil_mem_subsets _
  | d :: D, x :: l, hD, hl, hsub => by
    have hD1 := (List.pairwise_cons.mp hD).1
    have hD2 := (List.pairwise_cons.mp hD).2
    have hl1 := (List.pairwise_cons.mp hl).1
    have hl2 := (List.pairwise_cons.mp hl).2
    simp only [subsets, List.mem_append, List.mem_map]
    by_cases hxd : x = d
    · right
      refine ⟨l, sorted_mem_subsets D l hD2 hl2 ?_, by rw [hxd]⟩
      intro y hy
      rcases List.mem_cons.mp (hsub y (List.mem_cons_of_mem _ hy)) with h | h
      · have := hl1 y hy; omega
      · exact h
    · left
      have hxD : x ∈ D := by
        rcases List.mem_cons.mp (hsub x List.mem_cons_self) with h | h
        · exact (hxd h).elim
        · exact h
      have hdx : d < x := hD1 x hxD
      apply sorted_mem_subsets D (x :: l) hD2 hl
      intro y hy
      rcases List.mem_cons.mp (hsub y hy) with h | h
      · rcases List.mem_cons.mp hy with h' | h'
        · omega
        · have := hl1 y h'; omega
      · exact h

/-- all pairs of a set of states of `U` and a set of states of `B` (as sorted lists) -/
def cuniv (U B : NFA) : List CRule :=
  (subsets (normS (domS U))).flatMap (fun X => (subsets (normS (domS B))).map (fun Y => (X, Y)))

theorem length_cuniv (U B : NFA) :
    (cuniv U B).length = 2 ^ (normS (domS U)).length * 2 ^ (normS (domS B)).length := by
  unfold cuniv
  rw [length_flatMap_const _ (2 ^ (normS (domS B)).length), length_subsets]
  intro a
  simp [length_subsets]

theorem macroStep_mem_subsets (N : NFA) (S : List Nat) (a : Nat) : macroStep N S a ∈ subsets (normS (domS N)) := by
  apply sorted_mem_subsets _ _ (normS_sorted _) (normS_sorted _)
  intro x hx
  obtain ⟨p, _, he⟩ := mem_stepW.mp (mem_normS.mp hx)
  exact mem_normS.mpr (List.mem_append_right _ (List.mem_map.mpr ⟨_, he, rfl⟩))

theorem csucc_mem_cuniv (U B : NFA) (it : CItem) (a : Nat) : ((csucc U B it a).X, (csucc U B it a).Y) ∈ cuniv U B := by
  simp only [cuniv, List.mem_flatMap, List.mem_map, Prod.mk.injEq]
  exact ⟨_, macroStep_mem_subsets U it.X a, _, macroStep_mem_subsets B it.Y a, rfl, rfl⟩

/-- the pairs not yet visited, plus the length of the work-list -/
def psi (U B : NFA) (st : CSt) : Nat := (cuniv U B).countP (fun p => !st.visited.contains p) + st.next.length

theorem length_addNext (breadth : Bool) (next : List CItem) (c : CItem) :
    (addNext breadth next c).length = next.length + 1 := by
  unfold addNext
  split <;> simp

theorem psi_pushSt {U B : NFA} {breadth : Bool} {st : CSt} {c : CItem} (hc : (c.X, c.Y) ∈ cuniv U B)
    (hv : ¬ st.visited.contains (c.X, c.Y) = true) : psi U B (pushSt breadth st c) ≤ psi U B st := by
  have h1 : (cuniv U B).countP (fun p => !(pushSt breadth st c).visited.contains p) <
      (cuniv U B).countP (fun p => !st.visited.contains p) := by
    apply countP_lt_of_new
    · intro p _ hp
      simp only [pushSt, Bool.not_eq_true', List.contains_eq_mem, List.mem_cons, decide_eq_false_iff_not,
        not_or] at hp ⊢
      exact hp.2
    · refine ⟨(c.X, c.Y), hc, ?_, ?_⟩
      · simpa using hv
      · simp [pushSt]
  unfold psi
  have h2 : (pushSt breadth st c).next.length = st.next.length + 1 := length_addNext _ _ _
  omega

theorem psi_congrPost {U B : NFA} {breadth : Bool} {it : CItem} : ∀ (as : List Nat) (st st' : CSt),
    congrPost U B breadth it as st = .ok st' → psi U B st' ≤ psi U B st ∧ st'.relation = st.relation
  | [], st, st', h => by
    simp only [congrPost, Except.ok.injEq] at h
    subst h; exact ⟨Nat.le_refl _, rfl⟩
  | a :: as, st, st', h => by
    rw [congrPost_cons] at h
    split at h
    · cases h
    · split at h
      · exact psi_congrPost as st st' h
      · split at h
        · exact psi_congrPost as st st' h
        · next hv =>
          obtain ⟨h1, h2⟩ := psi_congrPost as _ st' h
          exact ⟨Nat.le_trans h1 (psi_pushSt (csucc_mem_cuniv U B it a) hv), h2⟩

theorem loopCongr_terminates {U B : NFA} {breadth : Bool} : ∀ (n : Nat) (st : CSt), psi U B st < n →
    ∃ r, loopCongr U B breadth n st = some r
  | 0, _, h => absurd h (Nat.not_lt_zero _)
  | n+1, st, h => by
    unfold loopCongr
    split
    · exact ⟨_, rfl⟩
    · next it rest hn =>
      have h2 : psi U B ⟨st.relation, rest, st.visited⟩ + 1 = psi U B st := by
        unfold psi; rw [hn]; simp only [List.length_cons]; omega
      split
      · exact loopCongr_terminates n _ (by omega)
      · split
        · exact ⟨_, rfl⟩
        · next st' h' =>
          apply loopCongr_terminates n
          have h1 := (psi_congrPost _ _ st' h').1
          have h3 : psi U B ⟨st'.relation ++ [it], st'.next, st'.visited⟩ = psi U B st' := rfl
          omega

/-- the number of picked pairs is bounded by the number of pairs of sets of states -/
def fuelBoundCongr (A B : NFA) : Nat :=
  2 ^ (normS (domS (nfaUnionDisjoint A B))).length * 2 ^ (normS (domS B)).length + 1

theorem runCongr_terminates {A B : NFA} {breadth : Bool} {fuel : Nat} (h : fuelBoundCongr A B < fuel) :
    ∃ r, runCongr (nfaUnionDisjoint A B) B breadth fuel = some r := by
  unfold runCongr
  simp only
  split
  · exact ⟨_, rfl⟩
  · apply loopCongr_terminates
    have : psi (nfaUnionDisjoint A B) B ⟨[], [⟨normS (nfaUnionDisjoint A B).start, normS B.start, []⟩],
        [(normS (nfaUnionDisjoint A B).start, normS B.start)]⟩ ≤ (cuniv (nfaUnionDisjoint A B) B).length + 1 := by
      unfold psi
      have := List.countP_le_length (l := cuniv (nfaUnionDisjoint A B) B)
        (p := fun p => !([(normS (nfaUnionDisjoint A B).start, normS B.start)] : List CRule).contains p)
      simp only [List.length_singleton]
      omega
    rw [length_cuniv] at this
    unfold fuelBoundCongr at h
    omega

end NfaIncl

/-! ### totality and completeness -/

/-- above the bound the congruence model returns a verdict on disjoint operands -/
theorem nfaInclCongr_total {A B : NFA} (hdis : ∀ q, q ∈ nfaStates A → q ∈ nfaStates B → False) {breadth : Bool}
    {fuel : Nat} (hf : fuelBoundCongr A B < fuel) : ∃ v, nfaInclCongr A B breadth fuel = some v := by
  obtain ⟨r, hr⟩ := runCongr_terminates (breadth := breadth) hf
  exact nfaInclCongr_of_runCongr hdis hr

/-- … hence the right one -/
theorem nfaInclCongr_complete {A B : NFA} (hdis : ∀ q, q ∈ nfaStates A → q ∈ nfaStates B → False) {breadth : Bool}
    {fuel : Nat} (hf : fuelBoundCongr A B < fuel) :
    (InclW A B → ∃ c, nfaInclCongr A B breadth fuel = some (true, c)) ∧
    (¬ InclW A B → ∃ c, nfaInclCongr A B breadth fuel = some (false, c)) := by
  obtain ⟨⟨b, c⟩, hv⟩ := nfaInclCongr_total hdis (breadth := breadth) hf
  have hiff := nfaInclCongr_iff hv
  constructor
  · intro hi
    have : b = true := hiff.mpr hi
    subst this; exact ⟨c, hv⟩
  · intro hi
    cases b with
    | true => exact (hi (hiff.mp rfl)).elim
    | false => exact ⟨c, hv⟩

theorem checkNfaInclCongr_total (A B : NFA) {breadth : Bool} {fuel : Nat}
    (hf : fuelBoundCongr (nfaSanitize A B).1 (nfaSanitize A B).2 < fuel) :
    ∃ v, checkNfaInclCongr A B breadth fuel = some v :=
  nfaInclCongr_total (sanitize_disjoint A B) hf

theorem checkNfaInclCongr_complete (A B : NFA) {breadth : Bool} {fuel : Nat}
    (hf : fuelBoundCongr (nfaSanitize A B).1 (nfaSanitize A B).2 < fuel) :
    (InclW A B → ∃ c, checkNfaInclCongr A B breadth fuel = some (true, c)) ∧
    (¬ InclW A B → ∃ c, checkNfaInclCongr A B breadth fuel = some (false, c)) := by
  have := nfaInclCongr_complete (sanitize_disjoint A B) (breadth := breadth) hf
  rw [sanitize_incl] at this
  exact this

/-! ### examples (non-vacuity) -/
namespace NfaInclEx

theorem exStar_disjoint : ∀ q, q ∈ nfaStates exAstar → q ∈ nfaStates exABstar → False := by decide

example : fuelBoundCongr exAstar exABstar = 9 := by decide
example : ∃ v, nfaInclCongr exAstar exABstar true 10 = some v := nfaInclCongr_total exStar_disjoint (by decide)
example : ∃ c, nfaInclCongr exAstar exABstar false 10 = some (true, c) :=
  (nfaInclCongr_complete exStar_disjoint (by decide)).1 (nfaUpCertB_incl (X := [(0, [1])]) (by decide))
/-- the relation of a finished run is a certificate, by the invariant -/
example : ∃ R, runCongr (nfaUnionDisjoint exAstar exABstar) exABstar true 10 = some (.ok R) ∧
    CongrCert exAstar exABstar (rulesOf R) :=
  ⟨_, rfl, runCongr_ok_cert exStar_disjoint (breadth := true) (fuel := 10) rfl⟩
example : ∃ w, runCongr (nfaUnionDisjoint exAAB exAplus) exAplus false 10 = some (.error w) ∧
    acceptsW exAAB w = true ∧ acceptsW exAplus w = false :=
  ⟨_, rfl, runCongr_error_ok (by decide) (breadth := false) (fuel := 10) rfl⟩
example : congrCertB exSanA exSanB exSanR = true :=
  congrCertB_complete (congrCertB_sound (by decide +kernel))
/-- the check is complete: it accepts exactly the certificates -/
example : congrCertB exAstar exABstar [([0, 1], [1])] = true ∧ CongrCert exAstar exABstar [([0, 1], [1])] :=
  ⟨by decide, congrCertB_sound (by decide)⟩
-- up-to-congruence pruning at work: with the rule `{3} → {1,2,3}` the pair `({1,2,3,4}, {3,4})` is in the closure
#guard inClosure [([1, 2, 3], [3])] [1, 2, 3, 4] [3, 4]
#guard !inClosure [([1, 2, 3], [3])] [1, 2, 3, 4] [4]
#guard inCongrB [([1, 2, 3], [3]), ([5], [1, 4])] [3, 4] [1, 2, 3, 4, 5]

end NfaInclEx

end Vata
