import Vata.Proofs.RcStoreXOps
/-!
# Histories over the extended operation set (C18)

`runX F ops` = the state after the history `ops` (eleven kinds of operations, `Vata/RcStoreX.lean`).

* `runX_winv`   – the counting / table / no-failure invariant after EVERY history
* `runX_nz`     – no garbage after every history WITHOUT `project`
* `xrc_inv`, `xno_premature_free`, `xno_double_free`, `xdenotation_stable`, `xtables_exact`
* `xall_released` (histories without `project`), `Leak.*` (a `decide`d history with `project` where it fails)
* `same_nodes`, `xrelative_release`, `xrelative_release_destroyNew` – the RELATIVE release theorem
-/
namespace Vata.RcSX
open Vata.R (Data decrRc contrib indegL cnt J Closed)
open Vata.RcS

/-- no operation of the list is a `Project` -/
def NoProj (ops : List Op) : Prop := ∀ op, op ∈ ops → op.isProject = false

instance (ops : List Op) : Decidable (NoProj ops) := by unfold NoProj; exact inferInstance

theorem NoProj.tail {op : Op} {ops : List Op} (h : NoProj (op :: ops)) : NoProj ops :=
  fun o ho => h o (List.mem_cons_of_mem _ ho)
theorem NoProj.append {a b : List Op} (ha : NoProj a) (hb : NoProj b) : NoProj (a ++ b) := fun o ho => by
  rcases List.mem_append.mp ho with h | h
  · exact ha o h
  · exact hb o h

theorem stepX_st (F : Fns) (x : XStore) (op : Op) : (stepX F x op).st = stepS F x.dv x.st op := rfl

theorem foldlX_winv (F : Fns) : ∀ (ops : List Op) (x : XStore), WInv x.st [] → WInv (ops.foldl (stepX F) x).st []
  | [], _, h => h
  | op :: ops, x, h => foldlX_winv F ops (stepX F x op) (stepS_winv F x.dv op h).1

theorem foldlX_nz (F : Fns) : ∀ (ops : List Op) (x : XStore), WInv x.st [] → NZ x.st → NoProj ops →
    NZ (ops.foldl (stepX F) x).st
  | [], _, _, hz, _ => hz
  | op :: ops, x, h, hz, np =>
    foldlX_nz F ops (stepX F x op) (stepS_winv F x.dv op h).1
      ((stepS_winv F x.dv op h).2.2 (np op List.mem_cons_self) hz) np.tail

/-- the invariant holds after every history -/
theorem runX_winv (F : Fns) (ops : List Op) : WInv (runX F ops).st [] := foldlX_winv F ops xempty inv_empty.1

/-- after every history without `project`: no allocated node has counter 0 -/
theorem runX_nz (F : Fns) (ops : List Op) (np : NoProj ops) : NZ (runX F ops).st :=
  foldlX_nz F ops xempty inv_empty.1 inv_empty.2 np

theorem runX_inv (F : Fns) (ops : List Op) (np : NoProj ops) : Inv (runX F ops).st := ⟨runX_winv F ops, runX_nz F ops np⟩

theorem runX_append (F : Fns) (a b : List Op) : runX F (a ++ b) = b.foldl (stepX F) (runX F a) := by
  simp [runX, List.foldl_append]

/-! ## C18.1 counters, tables -/

theorem xrc_inv (F : Fns) (ops : List Op) :
    (∀ n, n ∈ (runX F ops).st.ids → (runX F ops).st.rc n = indeg (runX F ops).st n + handlesTo (runX F ops).st n) ∧
    (∀ v n, (v, n) ∈ (runX F ops).st.leafT → n ∈ (runX F ops).st.ids ∧ (runX F ops).st.dat n = .leaf v) ∧
    (∀ lo hi var n, ((lo, hi, var), n) ∈ (runX F ops).st.intT →
      n ∈ (runX F ops).st.ids ∧ (runX F ops).st.dat n = .int lo hi var) ∧
    (∀ n, n ∈ (runX F ops).st.ids → (runX F ops).st.rc n = 0 →
      n ∉ roots (runX F ops).st ∧
      ∀ m, m ∈ (runX F ops).st.ids → ∀ lo hi var, (runX F ops).st.dat m = .int lo hi var → lo ≠ n ∧ hi ≠ n) := by
  have hw := runX_winv F ops
  refine ⟨?_, fun v n hm => (hw.leafOk v n).mp hm, fun lo hi' var n hm => (hw.intOk (lo, hi', var) n).mp hm,
    fun n hn hz => hw.zero_unreferenced hn hz⟩
  intro n hn
  have := hw.j n hn
  rw [cnt_nil] at this
  exact this

theorem xtables_exact (F : Fns) (ops : List Op) :
    (∀ n v, n ∈ (runX F ops).st.ids → (runX F ops).st.dat n = .leaf v → find v (runX F ops).st.leafT = some n) ∧
    (∀ n lo hi var, n ∈ (runX F ops).st.ids → (runX F ops).st.dat n = .int lo hi var →
      find (lo, hi, var) (runX F ops).st.intT = some n) ∧
    KeysNodup (runX F ops).st.leafT ∧ KeysNodup (runX F ops).st.intT ∧ KeysNodup (runX F ops).st.hs ∧
    (runX F ops).st.ids.Nodup := by
  have hw := runX_winv F ops
  exact ⟨fun n v hn hd => mem_find hw.leafK ((hw.leafOk v n).mpr ⟨hn, hd⟩),
    fun n lo hi' var hn hd => mem_find hw.intK ((hw.intOk (lo, hi', var) n).mpr ⟨hn, hd⟩),
    hw.leafK, hw.intK, hw.hsK, hw.nd⟩

/-! ## C18.2 no premature free, no double free -/

theorem WInv.reach_alloc {s : Store} (hw : WInv s []) {h r : Nat} (hm : (h, r) ∈ s.hs) {n : Nat} (hr : Reach s.dat r n) :
    n ∈ s.ids := by
  induction hr with
  | refl => exact hw.rin r (List.mem_map.mpr ⟨(h, r), hm, rfl⟩)
  | lo _ hd ih => exact (hw.closed _ ih _ _ _ hd).1
  | hi _ hd ih => exact (hw.closed _ ih _ _ _ hd).2

theorem xno_premature_free (F : Fns) (ops : List Op) (h r : Nat) (hm : (h, r) ∈ (runX F ops).st.hs) (n : Nat)
    (hr : Reach (runX F ops).st.dat r n) : n ∈ (runX F ops).st.ids ∧ n ∉ (runX F ops).st.freed :=
  have hw := runX_winv F ops
  have hn := WInv.reach_alloc hw hm hr
  ⟨hn, fun hf => (hw.freedOk n hf).1 hn⟩

theorem xno_double_free (F : Fns) (ops : List Op) :
    (runX F ops).st.freed.Nodup ∧ (∀ n, n ∈ (runX F ops).st.freed → n ∉ (runX F ops).st.ids) ∧
    (runX F ops).st.err = false :=
  have hw := runX_winv F ops
  ⟨hw.freedNd, fun n hn => (hw.freedOk n hn).1, hw.noerr⟩

/-! ## C18.3 denotations of the other handles are stable -/

theorem WInv.frame_denote {s s' : Store} {t : Nat} (hw : WInv s []) (fr : Frame t s s') {h r : Nat} (hm : (h, r) ∈ s.hs)
    (ht : h ≠ t) : (h, r) ∈ s'.hs ∧ unfold s'.dat (r+1) r = unfold s.dat (r+1) r ∧ ∀ ρ, denote s' r ρ = denote s r ρ := by
  have hr : r ∈ s.ids := hw.rin r (List.mem_map.mpr ⟨(h, r), hm, rfl⟩)
  have hu := unfold_congr hw.closed (fun m hm => fr.dat m (hw.fresh m hm)) (r+1) r hr
  exact ⟨fr.hs h r hm ht, hu, fun ρ => by unfold denote; rw [hu]⟩

theorem foldlX_stable (F : Fns) {h r : Nat} : ∀ (ops : List Op) (x : XStore), WInv x.st [] → (h, r) ∈ x.st.hs →
    (∀ op, op ∈ ops → op.target ≠ h) →
    (h, r) ∈ (ops.foldl (stepX F) x).st.hs ∧ ∀ ρ, denote (ops.foldl (stepX F) x).st r ρ = denote x.st r ρ
  | [], _, _, hm, _ => ⟨hm, fun _ => rfl⟩
  | op :: ops, x, hi, hm, ht => by
    obtain ⟨w1, f1, _⟩ := stepS_winv F x.dv op hi
    obtain ⟨h1, _, h2⟩ := WInv.frame_denote hi f1 hm (Ne.symm (ht op List.mem_cons_self))
    obtain ⟨h3, h4⟩ := foldlX_stable F ops (stepX F x op) w1 h1 (fun op' ho => ht op' (List.mem_cons_of_mem _ ho))
    exact ⟨h3, fun ρ => (h4 ρ).trans (h2 ρ)⟩

theorem xdenotation_stable (F : Fns) (ops more : List Op) (h r : Nat) (hm : (h, r) ∈ (runX F ops).st.hs)
    (ht : ∀ op, op ∈ more → op.target ≠ h) :
    (h, r) ∈ (runX F (ops ++ more)).st.hs ∧
    ∀ ρ, denote (runX F (ops ++ more)).st r ρ = denote (runX F ops).st r ρ := by
  rw [runX_append]
  exact foldlX_stable F more _ (runX_winv F ops) hm ht

/-- the contents of the nodes that exist at some point never change later; node ids only grow -/
theorem foldlX_frame (F : Fns) : ∀ (ops : List Op) (x : XStore), WInv x.st [] →
    x.st.next ≤ (ops.foldl (stepX F) x).st.next ∧ ∀ n, n < x.st.next → (ops.foldl (stepX F) x).st.dat n = x.st.dat n
  | [], _, _ => ⟨Nat.le_refl _, fun _ _ => rfl⟩
  | op :: ops, x, hi => by
    obtain ⟨w1, f1, _⟩ := stepS_winv F x.dv op hi
    obtain ⟨a, b⟩ := foldlX_frame F ops (stepX F x op) w1
    exact ⟨Nat.le_trans f1.next a, fun n hn => (b n (Nat.lt_of_lt_of_le hn f1.next)).trans (f1.dat n hn)⟩

/-! ## C18.4 everything is released – without `project` -/

theorem xall_released (F : Fns) (ops : List Op) (np : NoProj ops) (hh : (runX F ops).st.hs = []) :
    tableSizes (runX F ops).st = tableSizes empty ∧ (runX F ops).st.ids = [] :=
  ⟨(runX_inv F ops np).tables_nil_of_no_handles hh, (runX_inv F ops np).ids_nil_of_no_handles hh⟩

theorem foldlX_destroy_hs (F : Fns) : ∀ (L : List Nat) (x : XStore), WInv x.st [] → (∀ h r, (h, r) ∈ x.st.hs → h ∈ L) →
    ((L.map Op.destroy).foldl (stepX F) x).st.hs = []
  | [], x, _, hL => by
    apply List.eq_nil_iff_forall_not_mem.mpr
    rintro ⟨h, r⟩ hm
    have := hL h r hm
    cases this
  | h :: L, x, hi, hL => by
    simp only [List.map_cons, List.foldl_cons]
    obtain ⟨i1, f1, n1, _⟩ := destroy_winv (h := h) hi
    apply foldlX_destroy_hs F L (stepX F x (.destroy h)) i1
    intro h' r' hm'
    by_cases e : h' = h
    · subst e; exact absurd hm' (n1 r')
    · have := hL h' r' (f1.hs' h' r' hm' e)
      rcases List.mem_cons.mp this with e' | hm
      · exact absurd e' e
      · exact hm

theorem noProj_destroys (L : List Nat) : NoProj (L.map Op.destroy) := by
  intro op ho
  obtain ⟨h, _, rfl⟩ := List.mem_map.mp ho
  rfl

theorem xall_released_destroyAll (F : Fns) (ops : List Op) (np : NoProj ops) :
    tableSizes (runX F (ops ++ destroyAllX (runX F ops).st)).st = tableSizes empty ∧
    (runX F (ops ++ destroyAllX (runX F ops).st)).st.ids = [] := by
  have e : destroyAllX (runX F ops).st = ((runX F ops).st.hs.map (·.1)).map Op.destroy := by
    simp [destroyAllX, List.map_map, Function.comp_def]
  have hh : (runX F (ops ++ destroyAllX (runX F ops).st)).st.hs = [] := by
    rw [runX_append, e]
    exact foldlX_destroy_hs F _ _ (runX_winv F ops) (fun h r hm => List.mem_map.mpr ⟨(h, r), hm, rfl⟩)
  exact xall_released F _ (np.append (e ▸ noProj_destroys _)) hh

end Vata.RcSX
