import Vata.Proofs.LtsEnginePrune
/-!
# The LTS simulation engine: `processRemove` preserves the invariant and lowers the termination measure

`Inv L S I e`: the state is well formed, queue and slots agree, the semantic invariant `Sem` holds with no removal in
progress, the induced relation on states stays inside the initial relation `I` and is closed under composition with the
simulation `S` on the right (`hA`: `R x y → S y z → R x z`) – with reflexivity this gives `S ⊆ R`.
-/
namespace Vata.LE
open Vata.L

structure Inv (L : LTS) (S I : Nat → Nat → Prop) (e : Eng) : Prop where
  wf : WF L e
  qk : QOK e
  sem : Sem L e (fun _ _ _ => False)
  hA : ∀ x y z, x < L.n → e.R x y → S y z → e.R x z
  hI : ∀ x y, x < L.n → y < L.n → e.R x y → I x y

/-- the state after `remove = block->remove_[label]; block->remove_[label] = nullptr` (queue already popped) -/
def popState (e : Eng) (b a : Nat) (rest : List (Nat × Nat)) : Eng :=
  { e with queue := rest, rem := setRem e.rem b a none }

theorem processRemove_eq (L : LTS) (e : Eng) (b a : Nat) (rest : List (Nat × Nat)) (remove : RemList)
    (hr : e.remv b a = some remove) :
    processRemove L { e with queue := rest } b a =
      (buildPre L (popState e b a rest) b a).foldl (pruneRow L (split L (popState e b a rest) (flat remove)).2)
        (split L (popState e b a rest) (flat remove)).1 := by
  have h : ({ e with queue := rest } : Eng).remv b a = some remove := hr
  unfold processRemove
  rw [h]
  rfl

theorem popState_slot (e : Eng) (b a : Nat) (rest : List (Nat × Nat)) (i a' : Nat) :
    slotL (popState e b a rest) i a' = if i = b ∧ a' = a then [] else slotL e i a' := by
  have : (popState e b a rest).remv i a' = if i = b ∧ a' = a then none else e.remv i a' := by
    rw [remv_eq]; exact rget_setRem _ _ _ _ _ _
  by_cases hk : i = b ∧ a' = a
  · rw [if_pos hk] at this
    rw [if_pos hk, slotL_none this]
  · rw [if_neg hk] at this
    rw [if_neg hk]
    unfold slotL
    rw [this]

/-- the removals in progress: the states on the list taken off slot `(b, a)`, for the targets in the old block `b` -/
def Ghost (e : Eng) (b a : Nat) (rm : List Nat) : Nat → Nat → Nat → Prop :=
  fun p' a' q => a' = a ∧ p' ∈ e.block b ∧ q ∈ rm

theorem popState_facts {L : LTS} {S I : Nat → Nat → Prop} {e : Eng} {b a : Nat} {rest : List (Nat × Nat)}
    {remove : RemList} (hL : LtsOK L) (inv : Inv L S I e) (hq : e.queue = (b, a) :: rest)
    (hr : e.remv b a = some remove) :
    WF L (popState e b a rest) ∧ QOK (popState e b a rest) ∧
      Sem L (popState e b a rest) (Ghost e b a (flat remove)) ∧ pot L (popState e b a rest) + 1 = pot L e := by
  have hslot := popState_slot e b a rest
  have hnd := inv.qk.hnd
  rw [hq] at hnd
  have hnd' := List.nodup_cons.mp hnd
  refine ⟨WF.congr (e := e) rfl rfl rfl inv.wf, ?_, ?_, ?_⟩
  · refine ⟨hnd'.2, ?_, ?_⟩
    · intro i a'
      have : (popState e b a rest).remv i a' = if i = b ∧ a' = a then none else e.remv i a' := by
        rw [remv_eq]; exact rget_setRem _ _ _ _ _ _
      rw [this]
      show _ ↔ (i, a') ∈ rest
      by_cases hk : i = b ∧ a' = a
      · rw [if_pos hk, hk.1, hk.2]
        simp only [Option.isSome_none, Bool.false_eq_true, false_iff]
        exact hnd'.1
      · rw [if_neg hk, inv.qk.hiff i a', hq, List.mem_cons]
        constructor
        · rintro (h | h)
          · injection h with h1 h2; exact absurd ⟨h1, h2⟩ hk
          · exact h
        · exact Or.inr
    · intro i a' h
      exact inv.qk.hlt i a' (by rw [hq]; exact List.mem_cons_of_mem _ h)
  · refine ⟨inv.sem.hC, ?_, ?_, ?_⟩
    · intro i a' q q' hi hqs hed
      rw [hslot] at hqs
      split at hqs
      · cases hqs
      · exact inv.sem.hD i a' q q' hi hqs hed
    · intro i a' hi
      rw [hslot]
      split
      · exact ⟨List.nodup_nil, fun q hq => by cases hq⟩
      · exact inv.sem.hN i a' hi
    · intro p a' p' q hed hR hqn
      rcases inv.sem.hE p a' p' q hed hR hqn with h | h | h
      · exact Or.inl h
      · show _ ∨ q ∈ slotL (popState e b a rest) (blockOf e.part p') a' ∨ _
        rw [hslot]
        by_cases hk : blockOf e.part p' = b ∧ a' = a
        · refine Or.inr (Or.inr ⟨hk.2, ?_, ?_⟩)
          · rw [← hk.1]; exact (inv.wf.blockOf_mem (hL _ hed).2).2
          · rw [hk.1, hk.2, slotL_some hr] at h; exact h
        · rw [if_neg hk]; exact Or.inr (Or.inl h)
      · exact absurd h id
  · unfold pot posCnt
    show rest.length + _ + _ + 1 = e.queue.length + _ + _
    rw [hq, List.length_cons]
    have : ∀ i a' q, (popState e b a rest).cntv i a' q = e.cntv i a' q := fun _ _ _ => rfl
    have hp : (popState e b a rest).part = e.part := rfl
    simp only [this, hp]
    omega

/-- the `split` phase, with the termination measure -/
theorem split_spec' {L : LTS} {e0 : Eng} {rm : List Nat} (w0 : WF L e0) (qk : QOK e0) (hrm : ∀ q, q ∈ rm → q < L.n)
    (hnd : rm.Nodup) :
    ∃ par, PhaseRes L e0 rm (split L e0 rm) par ∧ QOK (split L e0 rm).1 ∧ Refine L e0 (split L e0 rm).1 par ∧
      pot L (split L e0 rm).1 ≤ pot L e0 := by
  rw [split_eq]
  have hs : StepOK L (stepS L) (fun e par =>
      (QOK e ∧ WF L e ∧ Refine L e0 e par ∧ e.nextId = e0.nextId) ∧ pot L e ≤ pot L e0) := by
    intro e par b rest new w hP sok
    obtain ⟨h1, h2, h3, h4⟩ := stepS_ok L e0 e par b rest new w hP.1 sok
    exact ⟨h1, h2, h3, h4, Nat.le_trans (pot_split w sok) hP.2⟩
  obtain ⟨par, res, ⟨hq, _, hr, _⟩, hp⟩ := phase_all (stepS L) _ hs w0 hrm hnd
    ⟨⟨qk, w0, Refine.refl L e0, rfl⟩, Nat.le_refl _⟩
  exact ⟨par, res, hq, hr, hp⟩

theorem mem_buildPre {L : LTS} {e : Eng} (b a c : Nat) :
    c ∈ buildPre L e b a ↔ ∃ s, s ∈ e.block b ∧ ∃ p, (p, a, s) ∈ L.edges ∧ blockOf e.part p = c := by
  simp only [buildPre, mem_dedupF, List.mem_flatMap, List.mem_map, List.not_mem_nil, not_false_eq_true, and_true,
    mem_pre]

/-- a state without pending removals satisfies the lagging-counter invariant with nothing lagging -/
theorem jinv_of_sem {L : LTS} {s1 : Eng} {G : Nat → Nat → Nat → Prop} (w : WF L s1) (qk : QOK s1)
    (sem : Sem L s1 G) : JInv L (pot L s1) s1 0 s1 [] := by
  refine ⟨w, qk, ?_, sem.hD, sem.hN, ?_, fun _ _ _ => rfl, fun k hk => (by cases hk), fun _ _ _ h => h, Nat.le_refl _⟩
  · intro i a q hi ha
    rw [sem.hC i a q hi ha]; simp
  · intro i a q _ _ h0
    exact Or.inr (Or.inl h0)

section step
variable {L : LTS} {S I : Nat → Nat → Prop}

theorem processRemove_inv (hL : LtsOK L) (hS : IsSim L S) (hSn : ∀ y z, S y z → y < L.n ∧ z < L.n) {e : Eng}
    {b a : Nat} {rest : List (Nat × Nat)} (inv : Inv L S I e) (hq : e.queue = (b, a) :: rest) :
    Inv L S I (processRemove L { e with queue := rest } b a) ∧
      pot L (processRemove L { e with queue := rest } b a) + 1 ≤ pot L e := by
  have hb : b < e.part.length := inv.qk.hlt b a (by rw [hq]; exact List.mem_cons_self)
  have hsome : (e.remv b a).isSome = true := (inv.qk.hiff b a).mpr (by rw [hq]; exact List.mem_cons_self)
  obtain ⟨remove, hr⟩ := Option.isSome_iff_exists.mp hsome
  rw [processRemove_eq L e b a rest remove hr]
  obtain ⟨w0, qk0, sem0, hpot0⟩ := popState_facts hL inv hq hr
  have hrmN := inv.sem.hN b a hb
  rw [slotL_some hr] at hrmN
  obtain ⟨par, res, qk1, rf, hpot1⟩ := split_spec' w0 qk0 hrmN.2 hrmN.1
  have sem1 := sem_refine hL w0 res.wf rf sem0
  have hpart0 : (popState e b a rest).part = e.part := rfl
  have hblock0 : ∀ i, (popState e b a rest).block i = e.block i := fun _ => rfl
  have hrow0 : ∀ i, (popState e b a rest).row i = e.row i := fun _ => rfl
  -- states on the list have no `a`-successor in a block of row `b`
  have hF1 : ∀ q, q ∈ flat remove → ∀ q', (q, a, q') ∈ L.edges → ¬ e.U b q' := by
    intro q hqr q' hed
    exact inv.sem.hD b a q q' hb (by rw [slotL_some hr]; exact hqr) hed
  -- predecessors of the block are not on the list
  have hF2 : ∀ p s, (p, a, s) ∈ L.edges → s ∈ e.block b → p ∉ flat remove := by
    intro p s hed hs hp
    apply hF1 p hp s hed
    show blockOf e.part s ∈ e.row b
    rw [inv.wf.blockOf_eq hs]
    exact inv.wf.hrefl b hb
  have hF3 := fun c => mem_buildPre (L := L) (e := popState e b a rest) b a c
  -- a block of `preList` still contains the predecessor, hence is not marked
  have hF4 : ∀ c, c ∈ buildPre L (popState e b a rest) b a →
      c < (split L (popState e b a rest) (flat remove)).1.part.length ∧
      c ∉ (split L (popState e b a rest) (flat remove)).2 := by
    intro c hc
    obtain ⟨s, hs, p, hed, hpc⟩ := (hF3 c).mp hc
    have hpn : p < L.n := (hL _ hed).1
    have hpnot := hF2 p s hed hs
    have hstay := res.hstay p hpn hpnot
    rw [hpc] at hstay
    obtain ⟨hlt, hmem⟩ := res.wf.blockOf_mem hpn
    rw [hstay] at hlt hmem
    refine ⟨hlt, ?_⟩
    intro hm
    exact hpnot (((res.hmask c).mp hm).2 p hmem)
  obtain ⟨j, hp, hi, hrowf⟩ := prunePhase_spec (split L (popState e b a rest) (flat remove)).2 hL
    (buildPre L (popState e b a rest) b a) (split L (popState e b a rest) (flat remove)).1 hF4
    (jinv_of_sem res.wf qk1 sem1)
  -- abbreviations
  generalize hs1 : (split L (popState e b a rest) (flat remove)).1 = s1 at *
  generalize hmk : (split L (popState e b a rest) (flat remove)).2 = mask at *
  generalize hpl : buildPre L (popState e b a rest) b a = pl at *
  generalize he' : pl.foldl (pruneRow L mask) s1 = e' at *
  have hsplit : (split L (popState e b a rest) (flat remove)) = (s1, mask) := by rw [← hs1, ← hmk]
  rw [hsplit] at res
  have hmask : ∀ i, i ∈ mask ↔ (i < s1.part.length ∧ ∀ q, q ∈ s1.block i → q ∈ flat remove) := res.hmask
  have huni : ∀ i, i < s1.part.length →
      (∀ q, q ∈ s1.block i → q ∈ flat remove) ∨ (∀ q, q ∈ s1.block i → q ∉ flat remove) := res.huni
  have hstay : ∀ q, q < L.n → q ∉ flat remove → blockOf s1.part q = blockOf e.part q := res.hstay
  have w1 : WF L s1 := res.wf
  have rs : RefineS L (popState e b a rest) s1 par := res.rs
  -- the new relation on states
  have hR' : ∀ x y, e'.R x y ↔ s1.R x y ∧ ¬ (blockOf s1.part x ∈ pl ∧ blockOf s1.part y ∈ mask) := by
    intro x y
    show blockOf e'.part y ∈ e'.row (blockOf e'.part x) ↔ _
    rw [hp, hrowf]
    split
    · rename_i h
      rw [List.mem_filter]
      simp only [Bool.not_eq_true', List.contains_eq_mem, decide_eq_false_iff_not]
      constructor
      · rintro ⟨h1, h2⟩; exact ⟨h1, fun hc => h2 hc.2⟩
      · rintro ⟨h1, h2⟩; exact ⟨h1, fun hc => h2 ⟨h, hc⟩⟩
    · rename_i h
      constructor
      · intro h1; exact ⟨h1, fun hc => h hc.1⟩
      · exact fun h1 => h1.1
  have hU' : ∀ i r, e'.U i r → s1.U i r := by
    intro i r h
    have h' : blockOf e'.part r ∈ e'.row i := h
    rw [hp, hrowf] at h'
    split at h'
    · exact (List.mem_filter.mp h').1
    · exact h'
  -- the relation of `s1` is that of `e`
  have hR1 : ∀ x y, x < L.n → y < L.n → (s1.R x y ↔ e.R x y) := fun x y hx hy => rs.rel_iff w0 w1 hx hy
  -- states on the list end up in marked blocks
  have hmarked : ∀ q, q < L.n → q ∈ flat remove → blockOf s1.part q ∈ mask := by
    intro q hqn hqr
    obtain ⟨hlt, hmem⟩ := w1.blockOf_mem hqn
    refine (hmask _).mpr ⟨hlt, ?_⟩
    rcases huni _ hlt with h | h
    · exact h
    · exact absurd hqr (h q hmem)
  have hunmarked : ∀ q, q < L.n → blockOf s1.part q ∉ mask → q ∉ flat remove :=
    fun q hqn h hc => h (hmarked q hqn hc)
  -- predecessors of the old block `b` lie in blocks of `preList`
  have hinpl : ∀ p s, (p, a, s) ∈ L.edges → s ∈ e.block b → blockOf s1.part p ∈ pl := by
    intro p s hed hs
    rw [hstay p (hL _ hed).1 (hF2 p s hed hs)]
    exact (hF3 _).mpr ⟨s, hs, p, hed, rfl⟩
  -- slots of the children of `b` for label `a` are empty in `s1`
  have hslot1 : ∀ s, s ∈ e.block b → slotL s1 (blockOf s1.part s) a = [] := by
    intro s hs
    have hsn : s < L.n := inv.wf.lt_of_mem hs
    obtain ⟨hlt, _⟩ := w1.blockOf_mem hsn
    rcases rf.slot hlt a with h | h
    · exact h
    · rw [h, rs.par_blockOf w0 w1 hsn, hpart0, inv.wf.blockOf_eq hs, popState_slot, if_pos ⟨rfl, rfl⟩]
  -- `U` of a child of `b` in `s1` is `U` of `b` in `e`
  have hUb : ∀ s, s ∈ e.block b → ∀ r, r < L.n → (s1.U (blockOf s1.part s) r ↔ e.U b r) := by
    intro s hs r hrn
    have hsn : s < L.n := inv.wf.lt_of_mem hs
    obtain ⟨hlt, _⟩ := w1.blockOf_mem hsn
    have := rs.hU _ r hlt hrn
    rw [rs.par_blockOf w0 w1 hsn, hpart0, inv.wf.blockOf_eq hs] at this
    exact this
  have hA1 : ∀ x y z, x < L.n → s1.R x y → S y z → s1.R x z := by
    intro x y z hx hxy hyz
    obtain ⟨hy, hz⟩ := hSn y z hyz
    exact (hR1 x z hx hz).mpr (inv.hA x y z hx ((hR1 x y hx hy).mp hxy) hyz)
  refine ⟨⟨j.wf, j.qk, ⟨?_, j.hD, j.hN, ?_⟩, ?_, ?_⟩, ?_⟩
  · intro i a' q hi ha'
    rw [j.hC i a' q hi ha']; simp
  · -- simulation up to pending removals
    intro p a' p' q hed hR hqn
    have hp'n : p' < L.n := (hL _ hed).2
    have hpn : p < L.n := (hL _ hed).1
    by_cases hex : ∃ q', (q, a', q') ∈ L.edges ∧ e'.R p' q'
    · exact Or.inl hex
    · refine Or.inr (Or.inl ?_)
      obtain ⟨hlt, hmem⟩ := j.wf.blockOf_mem hp'n
      have hains : a' ∈ e'.ins (blockOf e'.part p') :=
        (j.wf.mem_ins hlt a').mpr ⟨p', hmem, (hasIn_iff L a' p').mpr ⟨p, hed⟩⟩
      have h0 : cntSpec L e' (blockOf e'.part p') a' q = 0 :=
        cntSpec_eq_zero.mpr (fun q' hq' hu => hex ⟨q', hq', hu⟩)
      rcases j.hF _ a' q hlt hains h0 with h | h | h
      · exact h
      · -- no successor already in `s1`
        have hR1' := ((hR' p q).mp hR).1
        rw [hp] at h
        rcases sem1.hE p a' p' q hed hR1' hqn with ⟨q', hq', hRq'⟩ | hsl | hG
        · exact absurd hRq' (cntSpec_eq_zero.mp h q' hq')
        · rw [hp]; exact j.hmono _ a' q hsl
        · obtain ⟨ha', hp'b, hqr⟩ := hG
          subst ha'
          exact absurd ⟨hinpl p p' hed hp'b, hmarked q hqn hqr⟩ ((hR' p q).mp hR).2
      · simp at h
  · -- closure under the simulation
    intro x y z hx hxy hyz
    obtain ⟨hyn, hzn⟩ := hSn y z hyz
    obtain ⟨hxy1, hxy2⟩ := (hR' x y).mp hxy
    refine (hR' x z).mpr ⟨hA1 x y z hx hxy1 hyz, ?_⟩
    rintro ⟨hxpl, hzm⟩
    have hynot : y ∉ flat remove := hunmarked y hyn (fun hc => hxy2 ⟨hxpl, hc⟩)
    have hzin : z ∈ flat remove := ((hmask _).mp hzm).2 z (w1.blockOf_mem hzn).2
    obtain ⟨s, hs, p, hed, hpc⟩ := (hF3 _).mp hxpl
    have hpn : p < L.n := (hL _ hed).1
    have hsn : s < L.n := (hL _ hed).2
    have hpblk : blockOf s1.part p = blockOf s1.part x := by
      rw [hstay p hpn (hF2 p s hed hs)]; exact hpc
    have hpy : s1.R p y := by
      show blockOf s1.part y ∈ s1.row (blockOf s1.part p)
      rw [hpblk]; exact hxy1
    rcases sem1.hE p a s y hed hpy hyn with ⟨y', hy', hRy'⟩ | hsl | hG
    · obtain ⟨z', hz', hSz'⟩ := hS y z hyz a y' hy'
      have := hA1 s y' z' hsn hRy' hSz'
      exact hF1 z hzin z' hz' ((hUb s hs z' (hL _ hz').2).mp this)
    · rw [hslot1 s hs] at hsl; cases hsl
    · exact hynot hG.2.2
  · intro x y hx hy hxy
    exact inv.hI x y hx hy ((hR1 x y hx hy).mp ((hR' x y).mp hxy).1)
  · have := j.hpot
    omega

end step

end Vata.LE
