import Vata.Proofs.LtsEngineSplit
/-!
# The LTS simulation engine: a whole `split` / `fastSplit` phase

A generic fold (`gStep`) over the blocks hit by the remove list, of which `split` and `fastSplit` are instances; after the
phase every block is inside or disjoint from the remove list, the mask marks the blocks inside, states outside the remove
list keep their block index, and the new state refines the old one.
-/
namespace Vata.LE
open Vata.L

theorem WF.congr {L : LTS} {e e' : Eng} (h1 : e'.part = e.part) (h2 : e'.rel = e.rel) (h3 : e'.inset = e.inset)
    (w : WF L e) : WF L e' := by
  have hb : ∀ i, e'.block i = e.block i := fun i => by simp only [Eng.block, h1]
  have hr : ∀ i, e'.row i = e.row i := fun i => by simp only [Eng.row, h2]
  refine ⟨?_, ?_, ?_, ?_, ?_, ?_, ?_, ?_, ?_, ?_⟩
  · rw [h2, h1]; exact w.hrel
  · rw [h3, h1]; exact w.hins
  · intro i j q; rw [hb, hb]; exact w.hdisj i j q
  · intro i; rw [hb]; exact w.hnd i
  · intro q; simp only [hb]; exact w.hcov q
  · intro i hi; rw [hb]; rw [h1] at hi; exact w.hne i hi
  · intro i j; rw [hr, h1]; exact w.hrow i j
  · intro i hi; rw [hr]; rw [h1] at hi; exact w.hrefl i hi
  · intro i hi; rw [hb, h3]; rw [h1] at hi; exact w.hinset i hi
  · intro i; rw [hr]; exact w.hrownd i

theorem RefineS.congr_right {L : LTS} {e0 e e' : Eng} {par : Nat → Nat} (h1 : e'.part = e.part) (h2 : e'.rel = e.rel)
    (r : RefineS L e0 e par) : RefineS L e0 e' par := by
  have hb : ∀ i, e'.block i = e.block i := fun i => by simp only [Eng.block, h1]
  have hr : ∀ i, e'.row i = e.row i := fun i => by simp only [Eng.row, h2]
  refine ⟨by rw [h1]; exact r.hlen, ?_, ?_, ?_⟩
  · intro i hi; rw [h1] at hi; exact r.hpar i hi
  · intro i q; rw [hb]; exact r.hsub i q
  · intro i x hi hx; rw [h1, hr]; rw [h1] at hi; exact r.hU i x hi hx

/-- one modified block: `trySplit`, then `step` when it splits -/
def gStep (step : Eng → Nat → List Nat → List Nat → Eng) (part0 : List (List Nat)) (rm : List Nat)
    (em : Eng × List Nat) (b : Nat) : Eng × List Nat :=
  match trySplit (em.1.block b) (tmpOf part0 rm b) with
  | none => (em.1, b :: em.2)
  | some (rest, new) => (step em.1 b rest new, em.1.part.length :: em.2)

structure PhaseInv (L : LTS) (e0 : Eng) (rm : List Nat) (done : List Nat) (em : Eng × List Nat) (par : Nat → Nat) :
    Prop where
  wf : WF L em.1
  rs : RefineS L e0 em.1 par
  hparid : ∀ i, i < e0.part.length → par i = i
  hkeep : ∀ i, i < e0.part.length → i ∉ done → em.1.block i = e0.block i
  hstay : ∀ q, q < L.n → q ∉ rm → blockOf em.1.part q = blockOf e0.part q
  huni : ∀ i, i < em.1.part.length → (i ∈ done ∨ e0.part.length ≤ i) →
    (∀ q, q ∈ em.1.block i → q ∈ rm) ∨ (∀ q, q ∈ em.1.block i → q ∉ rm)
  hmask : ∀ i, i ∈ em.2 ↔
    (i < em.1.part.length ∧ (i ∈ done ∨ e0.part.length ≤ i) ∧ ∀ q, q ∈ em.1.block i → q ∈ rm)

theorem mem_tmpOf {L : LTS} {e0 : Eng} (w0 : WF L e0) {rm : List Nat} (hrm : ∀ q, q ∈ rm → q < L.n) (b q : Nat) :
    q ∈ tmpOf e0.part rm b ↔ q ∈ rm ∧ q ∈ e0.block b := by
  simp only [tmpOf, List.mem_filter, beq_iff_eq]
  constructor
  · rintro ⟨h1, h2⟩
    exact ⟨h1, h2 ▸ (w0.blockOf_mem (hrm q h1)).2⟩
  · rintro ⟨h1, h2⟩
    exact ⟨h1, w0.blockOf_eq h2⟩

theorem mem_modifiedBlocks {L : LTS} {e0 : Eng} (w0 : WF L e0) {rm : List Nat} (hrm : ∀ q, q ∈ rm → q < L.n) (b : Nat) :
    b ∈ modifiedBlocks e0.part rm ↔ ∃ q, q ∈ rm ∧ q ∈ e0.block b := by
  simp only [modifiedBlocks, mem_dedupF, List.mem_map, List.not_mem_nil, not_false_eq_true, and_true]
  constructor
  · rintro ⟨q, h1, h2⟩
    exact ⟨q, h1, h2 ▸ (w0.blockOf_mem (hrm q h1)).2⟩
  · rintro ⟨q, h1, h2⟩
    exact ⟨q, h1, w0.blockOf_eq h2⟩

section phase
variable {L : LTS} {e0 : Eng} {rm : List Nat} (step : Eng → Nat → List Nat → List Nat → Eng)
  (P : Eng → (Nat → Nat) → Prop)

/-- what the generic lemma needs from `step` -/
def StepOK (L : LTS) (step : Eng → Nat → List Nat → List Nat → Eng) (P : Eng → (Nat → Nat) → Prop) : Prop :=
  ∀ e par b rest new, WF L e → P e par → SplitOK e b rest new →
    (step e b rest new).part = (splitBlockCore L e b rest new).part ∧
    (step e b rest new).rel = (splitBlockCore L e b rest new).rel ∧
    (step e b rest new).inset = (splitBlockCore L e b rest new).inset ∧
    P (step e b rest new) (par ∘ parOf e.part.length b)

theorem phase_step (hs : StepOK L step P) (w0 : WF L e0) (hrm : ∀ q, q ∈ rm → q < L.n) (hnd : rm.Nodup)
    {done : List Nat} {em : Eng × List Nat} {par : Nat → Nat} (inv : PhaseInv L e0 rm done em par) (hP : P em.1 par)
    {b : Nat} (hb : b ∈ modifiedBlocks e0.part rm) (hbd : b ∉ done) :
    ∃ par', PhaseInv L e0 rm (b :: done) (gStep step e0.part rm em b) par' ∧
      P (gStep step e0.part rm em b).1 par' := by
  obtain ⟨q0, hq0rm, hq0b⟩ := (mem_modifiedBlocks w0 hrm b).mp hb
  have hb0 : b < e0.part.length := lt_of_mem_block hq0b
  have hbk : b < em.1.part.length := Nat.lt_of_lt_of_le hb0 inv.rs.hlen
  have hblk : em.1.block b = e0.block b := inv.hkeep b hb0 hbd
  have htmp := mem_tmpOf w0 hrm b
  have htnd : (tmpOf e0.part rm b).Nodup := nodup_filter _ hnd
  have htsub : ∀ x, x ∈ tmpOf e0.part rm b → x ∈ em.1.block b := fun x hx => hblk ▸ ((htmp x).mp hx).2
  have htne : tmpOf e0.part rm b ≠ [] := by
    intro h
    have := (htmp q0).mpr ⟨hq0rm, hq0b⟩
    rw [h] at this; cases this
  unfold gStep
  cases hts : trySplit (em.1.block b) (tmpOf e0.part rm b) with
  | none =>
    have hall := trySplit_none (inv.wf.hnd b) htnd htsub htne hts
    refine ⟨par, ⟨inv.wf, inv.rs, inv.hparid, ?_, inv.hstay, ?_, ?_⟩, hP⟩
    · intro i hi hid
      exact inv.hkeep i hi (fun h => hid (List.mem_cons_of_mem _ h))
    · intro i hi hd
      by_cases hib : i = b
      · left; intro q hq; rw [hib] at hq; exact ((htmp q).mp (hall q hq)).1
      · refine inv.huni i hi ?_
        rcases hd with hd | hd
        · rcases List.mem_cons.mp hd with h | h
          · exact absurd h hib
          · exact Or.inl h
        · exact Or.inr hd
    · intro i
      simp only [List.mem_cons]
      rw [inv.hmask i]
      constructor
      · rintro (h | ⟨h1, h2, h3⟩)
        · rw [h]
          exact ⟨hbk, Or.inl (Or.inl rfl), fun q hq => ((htmp q).mp (hall q hq)).1⟩
        · exact ⟨h1, h2.elim (fun h => Or.inl (Or.inr h)) Or.inr, h3⟩
      · rintro ⟨h1, (h2 | h2) | h2, h3⟩
        · exact Or.inl h2
        · exact Or.inr ⟨h1, Or.inl h2, h3⟩
        · exact Or.inr ⟨h1, Or.inr h2, h3⟩
  | some rn =>
    obtain ⟨rest, new⟩ := rn
    obtain ⟨t1, t2, t3, t4, t5, t6⟩ := trySplit_some (inv.wf.hnd b) htnd htsub hts
    have sok : SplitOK em.1 b rest new := by
      refine ⟨hbk, fun q hq => htsub q ((t1 q).mp hq), ?_, t3, t4, t5, t6⟩
      intro q
      rw [t2 q, t1 q]
    obtain ⟨s1, s2, s3, s4⟩ := hs em.1 par b rest new inv.wf hP sok
    have wc := core_wf inv.wf sok
    have w' : WF L (step em.1 b rest new) := WF.congr s1 s2 s3 wc
    have hblock' : ∀ i, (step em.1 b rest new).block i =
        if i = b then rest else if i = em.1.part.length then new else em.1.block i := by
      intro i
      have : (step em.1 b rest new).block i = (splitBlockCore L em.1 b rest new).block i := by
        simp only [Eng.block, s1]
      rw [this, core_block sok]
    have hlen' : (step em.1 b rest new).part.length = em.1.part.length + 1 := by rw [s1, core_length]
    have hnewrm : ∀ q, q ∈ new → q ∈ rm := fun q hq => ((htmp q).mp ((t1 q).mp hq)).1
    have hrestrm : ∀ q, q ∈ rest → q ∉ rm := by
      intro q hq hqrm
      have := (t2 q).mp hq
      exact this.2 ((htmp q).mpr ⟨hqrm, hblk ▸ this.1⟩)
    have hbne : b ≠ em.1.part.length := Nat.ne_of_lt hbk
    refine ⟨par ∘ parOf em.1.part.length b, ⟨w', ?_, ?_, ?_, ?_, ?_, ?_⟩, s4⟩
    · exact inv.rs.trans (RefineS.congr_right s1 s2 (core_refineS inv.wf sok))
    · intro i hi
      have : i ≠ em.1.part.length := Nat.ne_of_lt (Nat.lt_of_lt_of_le hi inv.rs.hlen)
      show par (parOf em.1.part.length b i) = i
      rw [parOf, if_neg this]
      exact inv.hparid i hi
    · intro i hi hid
      have hib : i ≠ b := fun h => hid (h ▸ List.mem_cons_self)
      have : i ≠ em.1.part.length := Nat.ne_of_lt (Nat.lt_of_lt_of_le hi inv.rs.hlen)
      rw [hblock', if_neg hib, if_neg this]
      exact inv.hkeep i hi (fun h => hid (List.mem_cons_of_mem _ h))
    · intro q hq hqrm
      rw [s1, core_blockOf inv.wf sok hq, if_neg (fun h => hqrm (hnewrm q h))]
      exact inv.hstay q hq hqrm
    · intro i hi hd
      rw [hlen'] at hi
      rw [hblock']
      by_cases hib : i = b
      · rw [if_pos hib]; exact Or.inr hrestrm
      · rw [if_neg hib]
        by_cases hil : i = em.1.part.length
        · rw [if_pos hil]; exact Or.inl hnewrm
        · rw [if_neg hil]
          refine inv.huni i (by omega) ?_
          rcases hd with hd | hd
          · rcases List.mem_cons.mp hd with h | h
            · exact absurd h hib
            · exact Or.inl h
          · exact Or.inr hd
    · intro i
      simp only [List.mem_cons]
      rw [inv.hmask i, hlen', hblock']
      by_cases hib : i = b
      · subst hib
        rw [if_pos rfl]
        constructor
        · rintro (h | ⟨_, h2, h3⟩)
          · exact absurd h hbne
          · rcases h2 with h2 | h2
            · exact absurd h2 hbd
            · omega
        · rintro ⟨_, _, h3⟩
          obtain ⟨x, hx⟩ := List.exists_mem_of_ne_nil rest t5
          exact absurd (h3 x hx) (hrestrm x hx)
      · rw [if_neg hib]
        by_cases hil : i = em.1.part.length
        · rw [if_pos hil]
          constructor
          · intro _
            exact ⟨by omega, Or.inr (by rw [hil]; exact inv.rs.hlen), hnewrm⟩
          · intro _; exact Or.inl hil
        · rw [if_neg hil]
          constructor
          · rintro (h | ⟨h1, h2, h3⟩)
            · exact absurd h hil
            · exact ⟨by omega, h2.elim (fun h => Or.inl (Or.inr h)) Or.inr, h3⟩
          · rintro ⟨h1, h2, h3⟩
            refine Or.inr ⟨by omega, ?_, h3⟩
            rcases h2 with (h2 | h2) | h2
            · exact absurd h2 hib
            · exact Or.inl h2
            · exact Or.inr h2

theorem phase_fold (hs : StepOK L step P) (w0 : WF L e0) (hrm : ∀ q, q ∈ rm → q < L.n) (hnd : rm.Nodup) :
    ∀ (todo done : List Nat) (em : Eng × List Nat) (par : Nat → Nat), todo.Nodup →
      (∀ b, b ∈ todo → b ∈ modifiedBlocks e0.part rm ∧ b ∉ done) →
      PhaseInv L e0 rm done em par → P em.1 par →
      ∃ par', PhaseInv L e0 rm (todo.reverse ++ done) (todo.foldl (gStep step e0.part rm) em) par' ∧
        P (todo.foldl (gStep step e0.part rm) em).1 par'
  | [], done, em, par, _, _, inv, hP => ⟨par, by simpa using inv, hP⟩
  | b :: todo, done, em, par, hn, hto, inv, hP => by
    have hn' := List.nodup_cons.mp hn
    obtain ⟨par1, inv1, hP1⟩ := phase_step step P hs w0 hrm hnd inv hP (hto b List.mem_cons_self).1
      (hto b List.mem_cons_self).2
    obtain ⟨par2, inv2, hP2⟩ := phase_fold hs w0 hrm hnd todo (b :: done) _ par1 hn'.2
      (fun c hc => ⟨(hto c (List.mem_cons_of_mem _ hc)).1, fun h => by
        rcases List.mem_cons.mp h with h | h
        · exact hn'.1 (h ▸ hc)
        · exact (hto c (List.mem_cons_of_mem _ hc)).2 h⟩) inv1 hP1
    refine ⟨par2, ?_, hP2⟩
    simpa [List.foldl_cons, List.reverse_cons, List.append_assoc] using inv2

/-- the result of a whole phase -/
structure PhaseRes (L : LTS) (e0 : Eng) (rm : List Nat) (em : Eng × List Nat) (par : Nat → Nat) : Prop where
  wf : WF L em.1
  rs : RefineS L e0 em.1 par
  hparid : ∀ i, i < e0.part.length → par i = i
  hstay : ∀ q, q < L.n → q ∉ rm → blockOf em.1.part q = blockOf e0.part q
  huni : ∀ i, i < em.1.part.length → (∀ q, q ∈ em.1.block i → q ∈ rm) ∨ (∀ q, q ∈ em.1.block i → q ∉ rm)
  hmask : ∀ i, i ∈ em.2 ↔ (i < em.1.part.length ∧ ∀ q, q ∈ em.1.block i → q ∈ rm)

theorem phase_all (hs : StepOK L step P) (w0 : WF L e0) (hrm : ∀ q, q ∈ rm → q < L.n) (hnd : rm.Nodup)
    (hP : P e0 id) :
    ∃ par, PhaseRes L e0 rm ((modifiedBlocks e0.part rm).foldl (gStep step e0.part rm) (e0, [])) par ∧
      P ((modifiedBlocks e0.part rm).foldl (gStep step e0.part rm) (e0, [])).1 par := by
  have inv0 : PhaseInv L e0 rm [] (e0, []) id := by
    refine ⟨w0, RefineS.refl L e0, fun _ _ => rfl, fun _ _ _ => rfl, fun _ _ _ => rfl, ?_, ?_⟩
    · intro i hi hd
      rcases hd with hd | hd
      · cases hd
      · exact absurd hi (Nat.not_lt_of_le hd)
    · intro i
      constructor
      · intro h; cases h
      · rintro ⟨h1, h2 | h2, _⟩
        · cases h2
        · exact absurd h1 (Nat.not_lt_of_le h2)
  obtain ⟨par, inv, hPf⟩ := phase_fold step P hs w0 hrm hnd (modifiedBlocks e0.part rm) [] (e0, []) id
    (nodup_dedupF _ _) (fun b hb => ⟨hb, fun h => by cases h⟩) inv0 hP
  refine ⟨par, ⟨inv.wf, inv.rs, inv.hparid, inv.hstay, ?_, ?_⟩, hPf⟩
  · intro i hi
    by_cases hd : i ∈ (modifiedBlocks e0.part rm).reverse ++ [] ∨ e0.part.length ≤ i
    · exact inv.huni i hi hd
    · have hi0 : i < e0.part.length := by
        refine Classical.byContradiction fun h => hd (Or.inr (Nat.le_of_not_lt h))
      have hnm : i ∉ modifiedBlocks e0.part rm := fun h => hd (Or.inl (by simpa using h))
      right
      intro q hq hqrm
      rw [inv.hkeep i hi0 (fun h => hd (Or.inl h))] at hq
      exact hnm ((mem_modifiedBlocks w0 hrm i).mpr ⟨q, hqrm, hq⟩)
  · intro i
    rw [inv.hmask i]
    constructor
    · rintro ⟨h1, _, h3⟩; exact ⟨h1, h3⟩
    · rintro ⟨h1, h3⟩
      refine ⟨h1, ?_, h3⟩
      refine Classical.byContradiction fun hd => ?_
      have hi0 : i < e0.part.length := by
        refine Classical.byContradiction fun h => hd (Or.inr (Nat.le_of_not_lt h))
      have hnm : i ∉ modifiedBlocks e0.part rm := fun h => hd (Or.inl (by simpa using h))
      obtain ⟨x, hx⟩ := List.exists_mem_of_ne_nil _ (inv.wf.hne i h1)
      have hxrm := h3 x hx
      rw [inv.hkeep i hi0 (fun h => hd (Or.inl h))] at hx
      exact hnm ((mem_modifiedBlocks w0 hrm i).mpr ⟨x, hxrm, hx⟩)

end phase

/-! ### the two instances -/

/-- the step of `split` -/
def stepS (L : LTS) (e : Eng) (b : Nat) (rest new : List Nat) : Eng :=
  copySlots (splitBlockCore L e b rest new) b e.part.length

theorem splitStep_eq (L : LTS) (part0 : List (List Nat)) (rm : List Nat) :
    splitStep L part0 rm = gStep (stepS L) part0 rm := by
  funext em b
  unfold splitStep gStep stepS
  cases trySplit (em.1.block b) (tmpOf part0 rm b) with
  | none => rfl
  | some rn => rfl

theorem split_eq (L : LTS) (e : Eng) (rm : List Nat) :
    split L e rm = (modifiedBlocks e.part rm).foldl (gStep (stepS L) e.part rm) (e, []) := by
  unfold split
  rw [splitStep_eq]

theorem stepS_ok (L : LTS) (e0 : Eng) :
    StepOK L (stepS L) (fun e par => QOK e ∧ WF L e ∧ Refine L e0 e par ∧ e.nextId = e0.nextId) := by
  intro e par b rest new w hP sok
  obtain ⟨qk, _, rf, hid⟩ := hP
  obtain ⟨w', qk', rf', h1, h2, h3⟩ := split_refine w qk sok
  have h4 : (stepS L e b rest new).inset = (splitBlockCore L e b rest new).inset :=
    (copySlots_spec (splitBlockCore L e b rest new) b e.part.length (Ne.symm (Nat.ne_of_lt sok.hb))
      ((core_wf w sok).hinset e.part.length (by rw [core_length]; omega)).1.1).2.2.1
  exact ⟨h1, h2, h4, qk', w', Refine.trans w w' rf rf', h3.trans hid⟩

/-- the `split` phase of `processRemove` -/
theorem split_spec {L : LTS} {e0 : Eng} {rm : List Nat} (w0 : WF L e0) (qk : QOK e0) (hrm : ∀ q, q ∈ rm → q < L.n)
    (hnd : rm.Nodup) :
    ∃ par, PhaseRes L e0 rm (split L e0 rm) par ∧ QOK (split L e0 rm).1 ∧ Refine L e0 (split L e0 rm).1 par := by
  rw [split_eq]
  obtain ⟨par, res, hq, _, hr, _⟩ := phase_all (stepS L) _ (stepS_ok L e0) w0 hrm hnd
    ⟨qk, w0, Refine.refl L e0, rfl⟩
  exact ⟨par, res, hq, hr⟩

theorem fastSplit_fold (L : LTS) (part0 : List (List Nat)) (rm : List Nat) (todo : List Nat) (em : Eng × List Nat) :
    (todo.foldl (gStep (splitBlockCore L) part0 rm) em).1 = todo.foldl (fastSplitStep L part0 rm) em.1 := by
  induction todo generalizing em with
  | nil => rfl
  | cons b todo ih =>
    simp only [List.foldl_cons]
    rw [ih]
    congr 1
    unfold gStep fastSplitStep
    cases trySplit (em.1.block b) (tmpOf part0 rm b) with
    | none => rfl
    | some rn => rfl

theorem fastSplit_eq (L : LTS) (e : Eng) (rm : List Nat) :
    fastSplit L e rm = ((modifiedBlocks e.part rm).foldl (gStep (splitBlockCore L) e.part rm) (e, [])).1 := by
  rw [fastSplit_fold]; rfl

theorem stepF_ok (L : LTS) (e0 : Eng) :
    StepOK L (splitBlockCore L) (fun e _ => e.cnt = e0.cnt ∧ e.rem = e0.rem ∧ e.queue = e0.queue ∧
      e.nextId = e0.nextId) := by
  intro e par b rest new _ hP _
  exact ⟨rfl, rfl, rfl, hP⟩

/-- `fastSplit`: the tables are untouched; every block is inside or outside the list -/
theorem fastSplit_spec {L : LTS} {e0 : Eng} {rm : List Nat} (w0 : WF L e0) (hrm : ∀ q, q ∈ rm → q < L.n)
    (hnd : rm.Nodup) :
    ∃ par, WF L (fastSplit L e0 rm) ∧ RefineS L e0 (fastSplit L e0 rm) par ∧
      (∀ i, i < (fastSplit L e0 rm).part.length →
        (∀ q, q ∈ (fastSplit L e0 rm).block i → q ∈ rm) ∨ (∀ q, q ∈ (fastSplit L e0 rm).block i → q ∉ rm)) ∧
      (fastSplit L e0 rm).cnt = e0.cnt ∧ (fastSplit L e0 rm).rem = e0.rem ∧
      (fastSplit L e0 rm).queue = e0.queue ∧ (fastSplit L e0 rm).nextId = e0.nextId := by
  rw [fastSplit_eq]
  obtain ⟨par, res, h1, h2, h3, h4⟩ := phase_all (splitBlockCore L) _ (stepF_ok L e0) w0 hrm hnd ⟨rfl, rfl, rfl, rfl⟩
  exact ⟨par, res.wf, res.rs, res.huni, h1, h2, h3, h4⟩

end Vata.LE
