import Vata.Proofs.BddIsect
/-!
# The symbolic intersections: the apply with a side effect, and the top-down model is total (C08)

* `apply2_congr`, `voidApply2_sub`: `M.apply2` depends on the leaf operation only on the leaf pairs listed by
  `voidApply2`, whose components are leaves of the two diagrams.
* `Good`, `Step`: the invariant of the translator state (numbering; the work-set holds entries of the map) and the
  relation "later state" (the map and the work-set grew by the same fresh pairs); `transl_good`, `transl_step`,
  `translL_spec`, `translLL_spec`; `translL_known`, `leafBU_known`, `leafTD_known`: on known pairs the translator and the
  leaf operations change nothing (the reason why the result cache of `Apply2Functor` need not be modelled).
* `LeafSpec`, `leafSpecBU`, `leafSpecTD`, **`apply2S_spec`**: the apply with the side-effecting leaf operation returns
  `M.apply2` of the PURE pairing operation (`BddAbs.prodS` / `prodTS`) for the translation map it leaves behind, all pairs
  of the visited leaves are in that map, and every new pair of the map comes from a visited leaf pair.
* top-down: `TInv`, `tdLoop_inv`, `tinv_cert`, **`bddIsectTDFrom_of_loop`**, `bddIsectTDFrom_none_iff`: the certificate check
  `tdCertB` never fails on what the loop computes – the model returns `none` only when the fuel runs out;
  `FInv`, `tdLoop_total`, **`bddIsectTDFrom_isSome`**, `bddIsectTDRef_isSome`, **`bddIsectTDRef_lang`**: every entry taken from
  the work-set is a new pair of the universe `tdU` ((final or leaf) states × (final or leaf) states), so the fuel `tdFuel`
  suffices: the reference instance is total and correct.

The bottom-up model is treated in `Vata/Proofs/BddIsectBUTotal.lean`.
-/
namespace Vata
namespace BddIsect
open M BddAbs BddAbsTD

/-! ### `apply2` only depends on the leaf operation on the visited leaf pairs -/

theorem apply2_congr {α β γ : Type} [DecidableEq γ] (f g : α → β → γ) :
    ∀ (a : Node α) (b : Node β), (∀ ll, ll ∈ voidApply2 a b → f ll.1 ll.2 = g ll.1 ll.2) → apply2 f a b = apply2 g a b := by
  intro a b
  induction a, b using voidApply2.induct with
  | case1 v w =>
    intro h
    rw [apply2, apply2, h (v, w) (by simp [voidApply2])]
  | case2 x lo hi w ih1 ih2 =>
    intro h
    rw [voidApply2] at h
    rw [apply2, apply2, ih1 (fun ll hl => h ll (List.mem_append_left _ hl)),
      ih2 (fun ll hl => h ll (List.mem_append_right _ hl))]
  | case3 v y lo hi ih1 ih2 =>
    intro h
    rw [voidApply2] at h
    rw [apply2, apply2, ih1 (fun ll hl => h ll (List.mem_append_left _ hl)),
      ih2 (fun ll hl => h ll (List.mem_append_right _ hl))]
  | case4 x alo ahi blo bhi ih1 ih2 =>
    intro h
    rw [voidApply2] at h; simp only [if_true] at h
    rw [apply2, apply2]; simp only [if_true]
    rw [ih1 (fun ll hl => h ll (List.mem_append_left _ hl)), ih2 (fun ll hl => h ll (List.mem_append_right _ hl))]
  | case5 x alo ahi y blo bhi hne hlt ih1 ih2 =>
    intro h
    rw [voidApply2] at h; simp only [hne, hlt, if_false, if_true] at h
    rw [apply2, apply2]; simp only [hne, hlt, if_false, if_true]
    rw [ih1 (fun ll hl => h ll (List.mem_append_left _ hl)), ih2 (fun ll hl => h ll (List.mem_append_right _ hl))]
  | case6 x alo ahi y blo bhi hne hlt ih1 ih2 =>
    intro h
    rw [voidApply2] at h; simp only [hne, hlt, if_false] at h
    rw [apply2, apply2]; simp only [hne, hlt, if_false]
    rw [ih1 (fun ll hl => h ll (List.mem_append_left _ hl)), ih2 (fun ll hl => h ll (List.mem_append_right _ hl))]

theorem mem_va1_node {α : Type} {x : Nat} {lo hi : Node α} {v : α} :
    v ∈ voidApply1 (Node.node x lo hi) ↔ v ∈ voidApply1 lo ∨ v ∈ voidApply1 hi := by
  rw [voidApply1, List.mem_append]

/-- the components of a visited leaf pair are leaves of the two diagrams -/
theorem voidApply2_sub {α β : Type} : ∀ (a : Node α) (b : Node β) (ll : α × β), ll ∈ voidApply2 a b →
    ll.1 ∈ voidApply1 a ∧ ll.2 ∈ voidApply1 b := by
  intro a b
  induction a, b using voidApply2.induct with
  | case1 v w => intro ll h; simp only [voidApply2, List.mem_singleton] at h; subst h; simp [voidApply1]
  | case2 x lo hi w ih1 ih2 =>
    intro ll h
    rw [voidApply2, List.mem_append] at h
    rcases h with h | h
    · exact ⟨mem_va1_node.mpr (Or.inl (ih1 ll h).1), (ih1 ll h).2⟩
    · exact ⟨mem_va1_node.mpr (Or.inr (ih2 ll h).1), (ih2 ll h).2⟩
  | case3 v y lo hi ih1 ih2 =>
    intro ll h
    rw [voidApply2, List.mem_append] at h
    rcases h with h | h
    · exact ⟨(ih1 ll h).1, mem_va1_node.mpr (Or.inl (ih1 ll h).2)⟩
    · exact ⟨(ih2 ll h).1, mem_va1_node.mpr (Or.inr (ih2 ll h).2)⟩
  | case4 x alo ahi blo bhi ih1 ih2 =>
    intro ll h
    rw [voidApply2] at h; simp only [if_true] at h
    rw [List.mem_append] at h
    rcases h with h | h
    · exact ⟨mem_va1_node.mpr (Or.inl (ih1 ll h).1), mem_va1_node.mpr (Or.inl (ih1 ll h).2)⟩
    · exact ⟨mem_va1_node.mpr (Or.inr (ih2 ll h).1), mem_va1_node.mpr (Or.inr (ih2 ll h).2)⟩
  | case5 x alo ahi y blo bhi hne hlt ih1 ih2 =>
    intro ll h
    rw [voidApply2] at h; simp only [hne, hlt, if_false, if_true] at h
    rw [List.mem_append] at h
    rcases h with h | h
    · exact ⟨mem_va1_node.mpr (Or.inl (ih1 ll h).1), (ih1 ll h).2⟩
    · exact ⟨mem_va1_node.mpr (Or.inr (ih2 ll h).1), (ih2 ll h).2⟩
  | case6 x alo ahi y blo bhi hne hlt ih1 ih2 =>
    intro ll h
    rw [voidApply2] at h; simp only [hne, hlt, if_false] at h
    rw [List.mem_append] at h
    rcases h with h | h
    · exact ⟨(ih1 ll h).1, mem_va1_node.mpr (Or.inl (ih1 ll h).2)⟩
    · exact ⟨(ih2 ll h).1, mem_va1_node.mpr (Or.inr (ih2 ll h).2)⟩

/-! ### the work-set -/

theorem mem_wsInsert_imp {k : Nat} {pr : Nat × Nat} {w : Nat × (Nat × Nat)} : ∀ {ws : WS},
    w ∈ wsInsert k pr ws → w ∈ ws ∨ w = (k, pr)
  | [], h => by simp only [wsInsert, List.mem_singleton] at h; exact Or.inr h
  | e :: l, h => by
    unfold wsInsert at h
    split at h
    · rcases List.mem_cons.mp h with h | h
      · exact Or.inr h
      · exact Or.inl h
    · split at h
      · exact Or.inl h
      · rcases List.mem_cons.mp h with h | h
        · exact Or.inl (h ▸ List.mem_cons_self)
        · rcases mem_wsInsert_imp h with h | h
          · exact Or.inl (List.mem_cons_of_mem _ h)
          · exact Or.inr h

theorem mem_wsInsert_old {k : Nat} {pr : Nat × Nat} {w : Nat × (Nat × Nat)} : ∀ {ws : WS},
    w ∈ ws → w ∈ wsInsert k pr ws
  | [], h => by cases h
  | e :: l, h => by
    unfold wsInsert
    split
    · exact List.mem_cons_of_mem _ h
    · split
      · exact h
      · rcases List.mem_cons.mp h with h | h
        · exact h ▸ List.mem_cons_self
        · exact List.mem_cons_of_mem _ (mem_wsInsert_old h)

theorem mem_wsInsert_new {k : Nat} {pr : Nat × Nat} : ∀ {ws : WS}, (∀ e, e ∈ ws → e.1 ≠ k) →
    (k, pr) ∈ wsInsert k pr ws
  | [], _ => by simp [wsInsert]
  | e :: l, h => by
    unfold wsInsert
    split
    · exact List.mem_cons_self
    · split
      · rename_i hk; exact absurd hk.symm (h e List.mem_cons_self)
      · exact List.mem_cons_of_mem _ (mem_wsInsert_new (fun e' he' => h e' (List.mem_cons_of_mem _ he')))

theorem mem_wsErase {x : Nat} {ws : WS} {w : Nat × (Nat × Nat)} : w ∈ wsErase x ws ↔ w ∈ ws ∧ w.1 ≠ x := by
  simp [wsErase, List.mem_filter]

/-! ### the state of the translator: invariant and extension -/

/-- the numbering invariant, and the work-set only holds entries of the map -/
structure Good (c0 : Nat) (s : St) : Prop where
  num : NumFrom c0 s.map s.cnt
  ws_map : ∀ w, w ∈ s.ws → s.map.lookup w.2 = some w.1

/-- `s'` is a later state than `s`: the map and the work-set grew by the same fresh pairs -/
structure Step (s s' : St) : Prop where
  ext : Isx.Ext s.map s'.map
  cnt : s.cnt ≤ s'.cnt
  new : ∀ pr k, s'.map.lookup pr = some k →
    s.map.lookup pr = some k ∨ (s.map.lookup pr = none ∧ (k, pr) ∈ s'.ws ∧ s.cnt ≤ k)
  ws_mono : ∀ w, w ∈ s.ws → w ∈ s'.ws
  ws_new : ∀ w, w ∈ s'.ws → w ∈ s.ws ∨ s.map.lookup w.2 = none

theorem Step.refl (s : St) : Step s s :=
  ⟨Isx.Ext.refl _, Nat.le_refl _, fun _ _ h => Or.inl h, fun _ h => h, fun _ h => Or.inl h⟩

theorem ext_none {m m' : PMap} (h : Isx.Ext m m') {pr : Nat × Nat} (hn : m'.lookup pr = none) : m.lookup pr = none := by
  cases hl : m.lookup pr with
  | none => rfl
  | some j => rw [h pr j hl] at hn; cases hn

theorem Step.trans {s s' s'' : St} (h : Step s s') (h' : Step s' s'') : Step s s'' := by
  refine ⟨Isx.Ext.trans h.ext h'.ext, Nat.le_trans h.cnt h'.cnt, ?_, fun w hw => h'.ws_mono w (h.ws_mono w hw), ?_⟩
  · intro pr k hk
    rcases h'.new pr k hk with h1 | ⟨h1, h2, h3⟩
    · rcases h.new pr k h1 with h4 | ⟨h4, h5, h6⟩
      · exact Or.inl h4
      · exact Or.inr ⟨h4, h'.ws_mono _ h5, h6⟩
    · exact Or.inr ⟨ext_none h.ext h1, h2, Nat.le_trans h.cnt h3⟩
  · intro w hw
    rcases h'.ws_new w hw with h1 | h1
    · exact h.ws_new w h1
    · exact Or.inr (ext_none h.ext h1)

theorem Good.key_lt {c0 : Nat} {s : St} (h : Good c0 s) {w : Nat × (Nat × Nat)} (hw : w ∈ s.ws) : w.1 < s.cnt :=
  (h.num.lookup_lt (h.ws_map w hw)).2

/-- two pairs with the same number are equal -/
theorem NumFrom.lookup_inj {c0 : Nat} {m : PMap} {c : Nat} (h : NumFrom c0 m c) {p p' : Nat × Nat} {n : Nat}
    (hp : m.lookup p = some n) (hp' : m.lookup p' = some n) : p = p' := by
  apply h.injOn p (Isx.mem_dom_iff.mpr ⟨n, hp⟩) p' (Isx.mem_dom_iff.mpr ⟨n, hp'⟩)
  simp only [lookupF, hp, hp']

theorem lookupF_of_lookup {m : PMap} {p : Nat × Nat} {n : Nat} (h : m.lookup p = some n) : lookupF m p = n := by
  simp only [lookupF, h, Option.getD_some]

theorem transl_good {c0 : Nat} {s : St} (pr : Nat × Nat) (h : Good c0 s) : Good c0 (transl s pr).1 := by
  refine ⟨transl_pres (numFrom_pres c0) s pr h.num, ?_⟩
  unfold transl
  split
  · exact h.ws_map
  · rename_i hn
    intro w hw
    rcases mem_wsInsert_imp hw with hw | hw
    · exact Isx.ext_snoc pr s.cnt _ _ (h.ws_map w hw)
    · subst hw; exact Isx.lookup_snoc_self hn _

theorem transl_step {c0 : Nat} {s : St} (pr : Nat × Nat) (h : Good c0 s) :
    Step s (transl s pr).1 ∧ (transl s pr).1.map.lookup pr = some (transl s pr).2 := by
  unfold transl
  split
  · rename_i n hn; exact ⟨Step.refl s, hn⟩
  · rename_i hn
    refine ⟨⟨Isx.ext_snoc pr s.cnt, Nat.le_succ _, ?_, fun w hw => mem_wsInsert_old hw, ?_⟩,
      Isx.lookup_snoc_self hn _⟩
    · intro pr' k hk
      simp only at hk
      rw [Isx.lookup_snoc, Option.or_eq_some_iff] at hk
      rcases hk with hk | ⟨h1, hk⟩
      · exact Or.inl hk
      · by_cases hp : pr' = pr
        · rw [if_pos hp] at hk
          have : k = s.cnt := (Option.some.inj hk).symm
          subst this
          subst hp
          exact Or.inr ⟨h1, mem_wsInsert_new (fun e he => Nat.ne_of_lt (h.key_lt he)), Nat.le_refl _⟩
        · rw [if_neg hp] at hk; cases hk
    · intro w hw
      rcases mem_wsInsert_imp hw with hw | hw
      · exact Or.inl hw
      · subst hw; exact Or.inr hn

theorem transl_dom {s : St} {pr p : Nat × Nat} (h : p ∈ (transl s pr).1.map.dom) : p ∈ s.map.dom ∨ p = pr := by
  unfold transl at h
  split at h
  · exact Or.inl h
  · exact Isx.dom_snoc.mp h

/-- the translator on a list of pairs: afterwards all of them are in the map and the numbers are those of the map -/
theorem translL_spec {c0 : Nat} : ∀ (ps : List (Nat × Nat)) (s : St), Good c0 s →
    Good c0 (translL s ps).1 ∧ Step s (translL s ps).1 ∧ (∀ p, p ∈ ps → p ∈ (translL s ps).1.map.dom) ∧
    (translL s ps).2 = ps.map (lookupF (translL s ps).1.map) ∧
    (∀ p, p ∈ (translL s ps).1.map.dom → p ∈ s.map.dom ∨ p ∈ ps)
  | [], s, h => by
    refine ⟨h, Step.refl s, ?_, rfl, fun p hp => Or.inl hp⟩
    intro p hp; cases hp
  | pr :: ps, s, h => by
    obtain ⟨hs, hl⟩ := transl_step pr h
    obtain ⟨g, st, hd, hv, hb⟩ := translL_spec ps (transl s pr).1 (transl_good pr h)
    simp only [translL]
    refine ⟨g, hs.trans st, ?_, ?_, ?_⟩
    · intro p hp
      rcases List.mem_cons.mp hp with rfl | hp
      · exact Isx.mem_dom_iff.mpr ⟨_, st.ext _ _ hl⟩
      · exact hd p hp
    · rw [hv, List.map_cons, lookupF_of_lookup (st.ext _ _ hl)]
    · intro p hp
      rcases hb p hp with h1 | h1
      · rcases transl_dom h1 with h2 | h2
        · exact Or.inl h2
        · exact Or.inr (h2 ▸ List.mem_cons_self)
      · exact Or.inr (List.mem_cons_of_mem _ h1)

/-- … on a list of lists of pairs -/
theorem translLL_spec {c0 : Nat} : ∀ (ls : List (List (Nat × Nat))) (s : St), Good c0 s →
    Good c0 (translLL s ls).1 ∧ Step s (translLL s ls).1 ∧ (∀ p, p ∈ ls.flatten → p ∈ (translLL s ls).1.map.dom) ∧
    (translLL s ls).2 = ls.map (fun l => l.map (lookupF (translLL s ls).1.map)) ∧
    (∀ p, p ∈ (translLL s ls).1.map.dom → p ∈ s.map.dom ∨ p ∈ ls.flatten)
  | [], s, h => by
    refine ⟨h, Step.refl s, ?_, rfl, fun p hp => Or.inl hp⟩
    intro p hp; simp at hp
  | l :: ls, s, h => by
    obtain ⟨g1, st1, hd1, hv1, hb1⟩ := translL_spec l s h
    obtain ⟨g, st, hd, hv, hb⟩ := translLL_spec ls (translL s l).1 g1
    simp only [translLL]
    refine ⟨g, st1.trans st, ?_, ?_, ?_⟩
    · intro p hp
      rw [List.flatten_cons, List.mem_append] at hp
      rcases hp with hp | hp
      · exact st.ext.dom (hd1 p hp)
      · exact hd p hp
    · rw [hv, hv1, List.map_cons]
      congr 1
      apply List.map_congr_left
      intro p hp
      exact (st.ext.lookupF (hd1 p hp)).symm
    · intro p hp
      rw [List.flatten_cons, List.mem_append]
      rcases hb p hp with h1 | h1
      · rcases hb1 p h1 with h2 | h2
        · exact Or.inl h2
        · exact Or.inr (Or.inl h2)
      · exact Or.inr (Or.inr h1)

/-- on pairs that are all known the translator changes nothing (this is why the result cache of the apply, which
suppresses the second call of the leaf operation on the same pair of leaves, need not be modelled) -/
theorem translL_known : ∀ (ps : List (Nat × Nat)) (s : St), (∀ p, p ∈ ps → p ∈ s.map.dom) → (translL s ps).1 = s
  | [], _, _ => rfl
  | pr :: ps, s, h => by
    obtain ⟨n, hn⟩ := Isx.mem_dom_iff.mp (h pr List.mem_cons_self)
    have e : (transl s pr).1 = s := by unfold transl; rw [hn]
    simp only [translL]
    rw [e]
    exact translL_known ps s (fun p hp => h p (List.mem_cons_of_mem _ hp))

theorem translLL_known : ∀ (ls : List (List (Nat × Nat))) (s : St), (∀ p, p ∈ ls.flatten → p ∈ s.map.dom) →
    (translLL s ls).1 = s
  | [], _, _ => rfl
  | l :: ls, s, h => by
    simp only [translLL]
    rw [translL_known l s (fun p hp => h p (by rw [List.flatten_cons]; exact List.mem_append_left _ hp))]
    exact translLL_known ls s (fun p hp => h p (by rw [List.flatten_cons]; exact List.mem_append_right _ hp))

/-! ### the leaf operations compute the pure pairing operation for the map they leave behind -/

/-- the leaf operation `f` with a side effect translates the pairs `P v w` and returns the value of the pure operation
`g` for the translation map it leaves behind -/
structure LeafSpec {α β γ : Type} (f : St → α → β → St × γ) (g : (Nat × Nat → Nat) → α → β → γ)
    (P : α → β → List (Nat × Nat)) : Prop where
  good : ∀ c0 s v w, Good c0 s → Good c0 (f s v w).1
  step : ∀ c0 s v w, Good c0 s → Step s (f s v w).1
  dom : ∀ c0 s v w, Good c0 s → ∀ c, c ∈ P v w → c ∈ (f s v w).1.map.dom
  val : ∀ c0 s v w, Good c0 s → (f s v w).2 = g (lookupF (f s v w).1.map) v w
  back : ∀ c0 s v w, Good c0 s → ∀ c, c ∈ (f s v w).1.map.dom → c ∈ s.map.dom ∨ c ∈ P v w
  congr : ∀ tr tr' v w, (∀ c, c ∈ P v w → tr c = tr' c) → g tr v w = g tr' v w

theorem map_allPairs (tr : Nat × Nat → Nat) (a b : List Nat) :
    (allPairs a b).map tr = a.flatMap (fun x => b.map (fun y => tr (x, y))) := by
  simp only [allPairs, List.map_flatMap, List.map_map]
  rfl

theorem map_allZips (tr : Nat × Nat → Nat) (a b : List (List Nat)) :
    (allZips a b).map (fun l => l.map tr) = a.flatMap (fun ks => b.map (fun ks' => (ks.zip ks').map tr)) := by
  simp only [allZips, List.map_flatMap, List.map_map]
  rfl

theorem leafSpecBU : LeafSpec leafBU prodS allPairs where
  good := fun _ s v w h => (translL_spec (allPairs v w) s h).1
  step := fun _ s v w h => (translL_spec (allPairs v w) s h).2.1
  dom := fun _ s v w h => (translL_spec (allPairs v w) s h).2.2.1
  val := fun _ s v w h => by
    show InclUp.normS (translL s (allPairs v w)).2 = _
    rw [(translL_spec (allPairs v w) s h).2.2.2.1, map_allPairs]
    rfl
  back := fun _ s v w h => (translL_spec (allPairs v w) s h).2.2.2.2
  congr := fun tr tr' v w h => by
    unfold prodS
    rw [← map_allPairs, ← map_allPairs, List.map_congr_left h]

theorem leafSpecTD : LeafSpec leafTD prodTS (fun a b => (allZips a b).flatten) where
  good := fun _ s v w h => (translLL_spec (allZips v w) s h).1
  step := fun _ s v w h => (translLL_spec (allZips v w) s h).2.1
  dom := fun _ s v w h => (translLL_spec (allZips v w) s h).2.2.1
  val := fun _ s v w h => by
    show normT (translLL s (allZips v w)).2 = _
    rw [(translLL_spec (allZips v w) s h).2.2.2.1, map_allZips]
    rfl
  back := fun _ s v w h => (translLL_spec (allZips v w) s h).2.2.2.2
  congr := fun tr tr' v w h => by
    unfold prodTS
    rw [← map_allZips, ← map_allZips]
    congr 1
    apply List.map_congr_left
    intro l hl
    apply List.map_congr_left
    intro c hc
    exact h c (List.mem_flatten.mpr ⟨l, hl, hc⟩)

/-- a call of a leaf operation on leaves all of whose pairs are known (in particular a second call on the same leaves,
in any later state) does not change the state and returns the pure product for the current map -/
theorem leafBU_known {c0 : Nat} {s : St} (h : Good c0 s) (a b : List Nat) (hk : ∀ p, p ∈ allPairs a b → p ∈ s.map.dom) :
    leafBU s a b = (s, prodS (lookupF s.map) a b) := by
  have e : (leafBU s a b).1 = s := translL_known _ s hk
  have v := leafSpecBU.val c0 s a b h
  rw [e] at v
  exact Prod.ext e v

theorem leafTD_known {c0 : Nat} {s : St} (h : Good c0 s) (a b : List (List Nat))
    (hk : ∀ p, p ∈ (allZips a b).flatten → p ∈ s.map.dom) : leafTD s a b = (s, prodTS (lookupF s.map) a b) := by
  have e : (leafTD s a b).1 = s := translLL_known _ s hk
  have v := leafSpecTD.val c0 s a b h
  rw [e] at v
  exact Prod.ext e v

/-! ### the apply with a side effect computes the pure apply for the map it leaves behind -/

/-- what an apply with the leaf operation `f`, started in `s` on `a`, `b`, returns -/
structure Spec {α β γ : Type} [DecidableEq γ] (g : (Nat × Nat → Nat) → α → β → γ) (P : α → β → List (Nat × Nat))
    (c0 : Nat) (s : St) (a : Node α) (b : Node β) (r : St × Node γ) : Prop where
  good : Good c0 r.1
  step : Step s r.1
  dom : ∀ ll, ll ∈ voidApply2 a b → ∀ c, c ∈ P ll.1 ll.2 → c ∈ r.1.map.dom
  val : r.2 = apply2 (g (lookupF r.1.map)) a b
  back : ∀ c, c ∈ r.1.map.dom → c ∈ s.map.dom ∨ ∃ ll, ll ∈ voidApply2 a b ∧ c ∈ P ll.1 ll.2

/-- the value computed for an earlier map is the value for every later map -/
theorem apply2_ext {α β γ : Type} [DecidableEq γ] {f : St → α → β → St × γ} {g : (Nat × Nat → Nat) → α → β → γ}
    {P : α → β → List (Nat × Nat)} (hL : LeafSpec f g P) {m m' : PMap} (he : Isx.Ext m m') (a : Node α) (b : Node β)
    (hd : ∀ ll, ll ∈ voidApply2 a b → ∀ c, c ∈ P ll.1 ll.2 → c ∈ m.dom) :
    apply2 (g (lookupF m)) a b = apply2 (g (lookupF m')) a b :=
  apply2_congr _ _ a b (fun ll hl => hL.congr _ _ _ _ (fun c hc => (he.lookupF (hd ll hl c hc)).symm))

theorem spec_node {α β γ : Type} [DecidableEq γ] {f : St → α → β → St × γ} {g : (Nat × Nat → Nat) → α → β → γ}
    {P : α → β → List (Nat × Nat)} (hL : LeafSpec f g P) {c0 : Nat} {s : St} {a a1 a2 : Node α} {b b1 b2 : Node β}
    {r1 r2 : St × Node γ} {x : Nat} (h1 : Spec g P c0 s a1 b1 r1) (h2 : Spec g P c0 r1.1 a2 b2 r2)
    (hv : voidApply2 a b = voidApply2 a1 b1 ++ voidApply2 a2 b2)
    (ha : ∀ G : α → β → γ, apply2 G a b = mk x (apply2 G a1 b1) (apply2 G a2 b2)) :
    Spec g P c0 s a b (r2.1, mk x r1.2 r2.2) := by
  refine ⟨h2.good, h1.step.trans h2.step, ?_, ?_, ?_⟩
  · intro ll hl c hc
    rw [hv, List.mem_append] at hl
    rcases hl with hl | hl
    · exact h2.step.ext.dom (h1.dom ll hl c hc)
    · exact h2.dom ll hl c hc
  · show mk x r1.2 r2.2 = apply2 (g (lookupF r2.1.map)) a b
    rw [ha, h1.val, h2.val, apply2_ext hL h2.step.ext a1 b1 h1.dom]
  · intro c hc
    rw [hv]
    rcases h2.back c hc with h3 | ⟨ll, hl, h3⟩
    · rcases h1.back c h3 with h4 | ⟨ll, hl, h4⟩
      · exact Or.inl h4
      · exact Or.inr ⟨ll, List.mem_append_left _ hl, h4⟩
    · exact Or.inr ⟨ll, List.mem_append_right _ hl, h3⟩

/-- **the apply with a side effect**: it returns `M.apply2` of the pure leaf operation for the translation map it leaves
behind; all pairs of the visited leaves are in that map; the map and the work-set grew by the same fresh pairs -/
theorem apply2S_spec {α β γ : Type} [DecidableEq γ] {f : St → α → β → St × γ} {g : (Nat × Nat → Nat) → α → β → γ}
    {P : α → β → List (Nat × Nat)} (hL : LeafSpec f g P) (c0 : Nat) :
    ∀ (s : St) (a : Node α) (b : Node β), Good c0 s → Spec g P c0 s a b (apply2S f s a b) := by
  intro s a b
  induction s, a, b using apply2S.induct (f := f) with
  | case1 s v w =>
    intro h
    rw [apply2S]
    refine ⟨hL.good c0 s v w h, hL.step c0 s v w h, ?_, ?_, ?_⟩
    · intro ll hl c hc
      simp only [voidApply2, List.mem_singleton] at hl
      subst hl
      exact hL.dom c0 s v w h c hc
    · show Node.leaf (f s v w).2 = _
      rw [apply2, hL.val c0 s v w h]
    · intro c hc
      rcases hL.back c0 s v w h c hc with h1 | h1
      · exact Or.inl h1
      · exact Or.inr ⟨(v, w), by simp [voidApply2], h1⟩
  | case2 s x lo hi w ih1 ih2 =>
    intro h
    rw [apply2S]
    exact spec_node hL (ih1 h) (ih2 (ih1 h).good) (by rw [voidApply2]) (fun G => by rw [apply2])
  | case3 s v y lo hi ih1 ih2 =>
    intro h
    rw [apply2S]
    exact spec_node hL (ih1 h) (ih2 (ih1 h).good) (by rw [voidApply2]) (fun G => by rw [apply2])
  | case4 s x alo ahi blo bhi ih1 ih2 =>
    intro h
    rw [apply2S]; simp only [if_true]
    exact spec_node hL (ih1 h) (ih2 (ih1 h).good) (by rw [voidApply2]; simp only [if_true])
      (fun G => by rw [apply2]; simp only [if_true])
  | case5 s x alo ahi y blo bhi hne hlt ih1 ih2 =>
    intro h
    rw [apply2S]; simp only [hne, hlt, if_false, if_true]
    exact spec_node hL (ih1 h) (ih2 (ih1 h).good) (by rw [voidApply2]; simp only [hne, hlt, if_false, if_true])
      (fun G => by rw [apply2]; simp only [hne, hlt, if_false, if_true])
  | case6 s x alo ahi y blo bhi hne hlt ih1 ih2 =>
    intro h
    rw [apply2S]; simp only [hne, hlt, if_false]
    exact spec_node hL (ih1 h) (ih2 (ih1 h).good) (by rw [voidApply2]; simp only [hne, hlt, if_false])
      (fun G => by rw [apply2]; simp only [hne, hlt, if_false])

/-! ### the top-down loop: the certificate check never fails -/

/-- the pair `pr` with the number `k` has been processed: its tuples only hold discovered pairs and the table holds the
pure product for the current map -/
def DoneTD (TA TB : TableTD) (m : PMap) (R : TableTD) (pr : Nat × Nat) (k : Nat) : Prop :=
  (∀ ll, ll ∈ voidApply2 (getTD TA pr.1) (getTD TB pr.2) → ∀ c, c ∈ (allZips ll.1 ll.2).flatten → c ∈ m.dom) ∧
  getTD R k = apply2 (prodTS (lookupF m)) (getTD TA pr.1) (getTD TB pr.2)

theorem DoneTD.mono {TA TB : TableTD} {m m' : PMap} {R : TableTD} {pr : Nat × Nat} {k : Nat}
    (h : DoneTD TA TB m R pr k) (he : Isx.Ext m m') : DoneTD TA TB m' R pr k :=
  ⟨fun ll hl c hc => he.dom (h.1 ll hl c hc), by rw [h.2]; exact apply2_ext leafSpecTD he _ _ h.1⟩

/-- the invariant of the top-down loop -/
structure TInv (c0 : Nat) (TA TB : TableTD) (s : St) (R : TableTD) : Prop where
  good : Good c0 s
  cov : ∀ pr k, s.map.lookup pr = some k → (k, pr) ∈ s.ws ∨ DoneTD TA TB s.map R pr k
  keys : ∀ x, x ∈ keysTD R → ∃ pr, s.map.lookup pr = some x

theorem Good.erase {c0 : Nat} {s : St} (h : Good c0 s) (x : Nat) : Good c0 (s.erase x) :=
  ⟨h.num, fun w hw => h.ws_map w (mem_wsErase.mp hw).1⟩

/-- one iteration -/
theorem TInv.pop {c0 : Nat} {TA TB : TableTD} {s : St} {R : TableTD} {x : Nat} {pr : Nat × Nat} {rest : WS}
    (h : TInv c0 TA TB s R) (hw : s.ws = (x, pr) :: rest) :
    TInv c0 TA TB ((apply2S leafTD s (getTD TA pr.1) (getTD TB pr.2)).1.erase x)
      (setTD R x (apply2S leafTD s (getTD TA pr.1) (getTD TB pr.2)).2) ∧
    Step s (apply2S leafTD s (getTD TA pr.1) (getTD TB pr.2)).1 := by
  have sp := apply2S_spec leafSpecTD c0 s (getTD TA pr.1) (getTD TB pr.2) h.good
  have hx : s.map.lookup pr = some x := h.good.ws_map (x, pr) (by rw [hw]; exact List.mem_cons_self)
  have hx' := sp.step.ext _ _ hx
  refine ⟨⟨sp.good.erase x, ?_, ?_⟩, sp.step⟩
  · intro pr' k' hk
    change (apply2S leafTD s (getTD TA pr.1) (getTD TB pr.2)).1.map.lookup pr' = some k' at hk
    by_cases hkx : k' = x
    · subst hkx
      have : pr' = pr := sp.good.num.lookup_inj hk hx'
      subst this
      refine Or.inr ⟨sp.dom, ?_⟩
      rw [getTD_setTD, if_pos rfl]
      exact sp.val
    · have keep : (k', pr') ∈ (apply2S leafTD s (getTD TA pr.1) (getTD TB pr.2)).1.ws →
          (k', pr') ∈ ((apply2S leafTD s (getTD TA pr.1) (getTD TB pr.2)).1.erase x).ws :=
        fun hm => mem_wsErase.mpr ⟨hm, hkx⟩
      rcases sp.step.new pr' k' hk with h1 | ⟨_, h2, _⟩
      · rcases h.cov pr' k' h1 with h3 | h3
        · exact Or.inl (keep (sp.step.ws_mono _ h3))
        · refine Or.inr ⟨(h3.mono sp.step.ext).1, ?_⟩
          rw [getTD_setTD, if_neg (fun e => hkx e.symm)]
          exact (h3.mono sp.step.ext).2
      · exact Or.inl (keep h2)
  · intro y hy
    rcases (keysTD_setTD R x _ y).mp hy with rfl | hy
    · exact ⟨pr, hx'⟩
    · obtain ⟨pr', hp⟩ := h.keys y hy
      exact ⟨pr', sp.step.ext _ _ hp⟩

/-- the loop keeps the invariant and ends with an empty work-set and a larger map -/
theorem tdLoop_inv {c0 : Nat} {TA TB : TableTD} : ∀ (fuel : Nat) (s : St) (R : TableTD) (s' : St) (R' : TableTD),
    tdLoop TA TB fuel s R = some (s', R') → TInv c0 TA TB s R → TInv c0 TA TB s' R' ∧ s'.ws = [] ∧ Isx.Ext s.map s'.map
  | 0, s, R, s', R', h, hi => by
    unfold tdLoop at h
    split at h
    · rename_i he
      simp only [Option.some.injEq, Prod.mk.injEq] at h
      obtain ⟨rfl, rfl⟩ := h
      exact ⟨hi, List.isEmpty_iff.mp he, Isx.Ext.refl _⟩
    · cases h
  | fuel + 1, s, R, s', R', h, hi => by
    unfold tdLoop at h
    split at h
    · rename_i he
      simp only [Option.some.injEq, Prod.mk.injEq] at h
      obtain ⟨rfl, rfl⟩ := h
      exact ⟨hi, he, Isx.Ext.refl _⟩
    · rename_i x pr rest he
      obtain ⟨h1, h2⟩ := hi.pop he
      obtain ⟨h3, h4, h5⟩ := tdLoop_inv fuel _ _ s' R' h h1
      exact ⟨h3, h4, Isx.Ext.trans h2.ext h5⟩

theorem mem_flatten_allZips {a b : List (List Nat)} {c : Nat × Nat} :
    c ∈ (allZips a b).flatten ↔ ∃ ks, ks ∈ a ∧ ∃ ks', ks' ∈ b ∧ c ∈ ks.zip ks' := by
  simp only [allZips, List.mem_flatten, List.mem_flatMap, List.mem_map]
  constructor
  · rintro ⟨l, ⟨ks, hk, ks', hk', rfl⟩, hc⟩; exact ⟨ks, hk, ks', hk', hc⟩
  · rintro ⟨ks, hk, ks', hk', hc⟩; exact ⟨_, ⟨ks, hk, ks', hk', rfl⟩, hc⟩

/-- at the end of the loop the certificate check succeeds -/
theorem tinv_cert {c0 : Nat} {TA TB : TableTD} {FA FB : List Nat} {s : St} {R : TableTD} {F : List Nat}
    (h : TInv c0 TA TB s R) (hw : s.ws = []) (hF : ∀ pr, pr ∈ finalPairsL FA FB → pr ∈ s.map.dom)
    (hFe : F = (finalPairsL FA FB).map (lookupF s.map)) : tdCertB TA FA TB FB s.map R F = true := by
  have done : ∀ pr, pr ∈ s.map.dom → DoneTD TA TB s.map R pr (lookupF s.map pr) := by
    intro pr hpr
    obtain ⟨k, hk⟩ := Isx.mem_dom_iff.mp hpr
    rw [lookupF_of_lookup hk]
    rcases h.cov pr k hk with h1 | h1
    · rw [hw] at h1; cases h1
    · exact h1
  simp only [tdCertB, tdClosedB, tdTableB, Bool.and_eq_true, List.all_eq_true, List.contains_iff_mem, beq_iff_eq,
    List.mem_map]
  refine ⟨⟨⟨?_, ?_, ?_⟩, hF⟩, hFe⟩
  · intro pr hpr ll hl ks hk ks' hk' c hc
    exact (done pr hpr).1 ll hl c (mem_flatten_allZips.mpr ⟨ks, hk, ks', hk', hc⟩)
  · intro pr hpr
    exact (done pr hpr).2
  · intro x hx
    obtain ⟨pr, hp⟩ := h.keys x hx
    exact ⟨pr, Isx.mem_dom_iff.mpr ⟨x, hp⟩, lookupF_of_lookup hp⟩

theorem good_init (c0 : Nat) : Good c0 ⟨[], [], c0⟩ := ⟨numFrom_init c0, fun w hw => by cases hw⟩

/-- **the certificate check of the top-down model never fails**: the model returns a result whenever the loop ends -/
theorem bddIsectTDFrom_of_loop {c0 : Nat} {TA : TableTD} {FA : List Nat} {TB : TableTD} {FB : List Nat} {fuel : Nat}
    {s : St} {R : TableTD}
    (h : tdLoop TA TB fuel (translL ⟨[], [], c0⟩ (finalPairsL FA FB)).1 [] = some (s, R)) :
    bddIsectTDFrom c0 TA FA TB FB fuel = some (R, (translL ⟨[], [], c0⟩ (finalPairsL FA FB)).2, s.map) := by
  obtain ⟨g, st, hd, hv, _⟩ := translL_spec (finalPairsL FA FB) _ (good_init c0)
  have hi : TInv c0 TA TB (translL ⟨[], [], c0⟩ (finalPairsL FA FB)).1 [] := by
    refine ⟨g, ?_, fun x hx => by cases hx⟩
    intro pr k hk
    rcases st.new pr k hk with h1 | ⟨_, h2, _⟩
    · cases h1
    · exact Or.inl h2
  obtain ⟨h1, h2, h3⟩ := tdLoop_inv fuel _ _ s R h hi
  have hc : tdCertB TA FA TB FB s.map R (translL ⟨[], [], c0⟩ (finalPairsL FA FB)).2 = true := by
    apply tinv_cert h1 h2 (fun pr hpr => h3.dom (hd pr hpr))
    rw [hv]
    apply List.map_congr_left
    intro pr hpr
    exact (h3.lookupF (hd pr hpr)).symm
  unfold bddIsectTDFrom
  rw [h]
  simp only [hc, if_true]

/-- the model fails only by running out of fuel -/
theorem bddIsectTDFrom_none_iff {c0 : Nat} {TA : TableTD} {FA : List Nat} {TB : TableTD} {FB : List Nat} {fuel : Nat} :
    bddIsectTDFrom c0 TA FA TB FB fuel = none ↔
      tdLoop TA TB fuel (translL ⟨[], [], c0⟩ (finalPairsL FA FB)).1 [] = none := by
  constructor
  · intro h
    cases hl : tdLoop TA TB fuel (translL ⟨[], [], c0⟩ (finalPairsL FA FB)).1 [] with
    | none => rfl
    | some r => rw [bddIsectTDFrom_of_loop (s := r.1) (R := r.2) hl] at h; cases h
  · intro h
    unfold bddIsectTDFrom
    rw [h]

/-! ### the top-down loop terminates within `tdFuel` iterations -/

/-- the universe of pairs: (final or leaf) states of the left table × those of the right table -/
def tdU (TA : TableTD) (FA : List Nat) (TB : TableTD) (FB : List Nat) : List (Nat × Nat) :=
  allPairs (FA ++ tdKids TA) (FB ++ tdKids TB)

theorem mem_tdKids {T : TableTD} {p : Nat} {l : List (List Nat)} {ks : List Nat} {q : Nat} (hl : l ∈ voidApply1 (getTD T p))
    (hk : ks ∈ l) (hq : q ∈ ks) : q ∈ tdKids T := by
  simp only [tdKids, leafTuples, List.mem_flatMap, id]
  refine ⟨p, ?_, ks, ⟨l, hl, hk⟩, hq⟩
  apply Classical.byContradiction
  intro hn
  rw [getTD_not_key hn] at hl
  simp only [voidApply1, List.mem_singleton] at hl
  subst hl
  cases hk

theorem zips_in_U {TA : TableTD} {FA : List Nat} {TB : TableTD} {FB : List Nat} {p q : Nat}
    {ll : List (List Nat) × List (List Nat)} (hl : ll ∈ voidApply2 (getTD TA p) (getTD TB q)) {c : Nat × Nat}
    (hc : c ∈ (allZips ll.1 ll.2).flatten) : c ∈ tdU TA FA TB FB := by
  obtain ⟨ks, hk, ks', hk', hz⟩ := mem_flatten_allZips.mp hc
  obtain ⟨h1, h2⟩ := voidApply2_sub _ _ ll hl
  obtain ⟨c1, c2⟩ := c
  obtain ⟨h3, h4⟩ := List.of_mem_zip hz
  exact mem_allPairs.mpr ⟨List.mem_append_right _ (mem_tdKids h1 hk h3), List.mem_append_right _ (mem_tdKids h2 hk' h4)⟩

/-- the discipline of the work-set w.r.t. the universe `U` and the pairs `done` already taken from it -/
structure FInv (U : List (Nat × Nat)) (s : St) (done : List (Nat × Nat)) : Prop where
  dom_U : ∀ p, p ∈ s.map.dom → p ∈ U
  disj : ∀ w, w ∈ s.ws → w.2 ∉ done
  done_dom : ∀ p, p ∈ done → p ∈ s.map.dom

/-- taking the first entry `(x, pr)` and running something that extends the state by pairs of `U` -/
theorem FInv.pop {c0 : Nat} {U : List (Nat × Nat)} {s s' : St} {done : List (Nat × Nat)} {x : Nat} {pr : Nat × Nat}
    {rest : WS} (h : FInv U s done) (hg : Good c0 s) (hw : s.ws = (x, pr) :: rest) (hg' : Good c0 (s'.erase x))
    (st : Step s s')
    (hU : ∀ c, c ∈ s'.map.dom → c ∈ s.map.dom ∨ c ∈ U) : FInv U (s'.erase x) (pr :: done) := by
  have hx : s.map.lookup pr = some x := hg.ws_map (x, pr) (by rw [hw]; exact List.mem_cons_self)
  refine ⟨?_, ?_, ?_⟩
  · intro c hc
    rcases hU c hc with h1 | h1
    · exact h.dom_U c h1
    · exact h1
  · intro w hw' hd
    obtain ⟨h1, h2⟩ := mem_wsErase.mp hw'
    rcases List.mem_cons.mp hd with h3 | h3
    · have := hg'.ws_map w hw'
      change s'.map.lookup w.2 = some w.1 at this
      rw [h3, st.ext _ _ hx] at this
      exact h2 (Option.some.inj this).symm
    · rcases st.ws_new w h1 with h4 | h4
      · exact h.disj w h4 h3
      · exact Isx.lookup_none_iff.mp h4 (h.done_dom _ h3)
  · intro p hp
    rcases List.mem_cons.mp hp with h1 | h1
    · rw [h1]; exact Isx.mem_dom_iff.mpr ⟨x, st.ext _ _ hx⟩
    · exact st.ext.dom (h.done_dom p h1)

theorem countP_pop {U : List (Nat × Nat)} {done : List (Nat × Nat)} {pr : Nat × Nat} (hU : pr ∈ U) (hd : pr ∉ done) :
    U.countP (fun p => !(pr :: done).contains p) < U.countP (fun p => !done.contains p) := by
  apply countP_lt_of_new
  · intro x _ hx
    simp only [Bool.not_eq_true', ← Bool.not_eq_true, List.contains_iff_mem, List.mem_cons, not_or] at hx ⊢
    exact hx.2
  · refine ⟨pr, hU, ?_, ?_⟩
    · simp only [Bool.not_eq_true', ← Bool.not_eq_true, List.contains_iff_mem]
      exact hd
    · simp

theorem tdLoop_total {c0 : Nat} {TA : TableTD} {FA : List Nat} {TB : TableTD} {FB : List Nat} :
    ∀ (fuel : Nat) (s : St) (R : TableTD) (done : List (Nat × Nat)), Good c0 s → FInv (tdU TA FA TB FB) s done →
      (tdU TA FA TB FB).countP (fun p => !done.contains p) ≤ fuel → (tdLoop TA TB fuel s R).isSome = true
  | fuel, s, R, done, hg, hf, hc => by
    cases hw : s.ws with
    | nil => cases fuel <;> simp [tdLoop, hw]
    | cons e rest =>
      obtain ⟨x, pr⟩ := e
      have hx : s.map.lookup pr = some x := hg.ws_map (x, pr) (by rw [hw]; exact List.mem_cons_self)
      have hlt := countP_pop (U := tdU TA FA TB FB) (done := done) (pr := pr)
        (hf.dom_U pr (Isx.mem_dom_iff.mpr ⟨x, hx⟩)) (hf.disj (x, pr) (by rw [hw]; exact List.mem_cons_self))
      cases fuel with
      | zero => omega
      | succ fuel =>
        have sp := apply2S_spec leafSpecTD c0 s (getTD TA pr.1) (getTD TB pr.2) hg
        unfold tdLoop
        rw [hw]
        simp only
        apply tdLoop_total fuel _ _ (pr :: done) (sp.good.erase x)
        · apply hf.pop hg hw (sp.good.erase x) sp.step
          intro c hc
          rcases sp.back c hc with h1 | ⟨ll, hl, h1⟩
          · exact Or.inl h1
          · exact Or.inr (zips_in_U hl h1)
        · omega

/-- **with the fuel `tdFuel` the top-down model always returns a result** (for every initial value of the counter) -/
theorem bddIsectTDFrom_isSome (c0 : Nat) (TA : TableTD) (FA : List Nat) (TB : TableTD) (FB : List Nat) :
    (bddIsectTDFrom c0 TA FA TB FB (tdFuel TA FA TB FB)).isSome = true := by
  obtain ⟨g, st, hd, hv, hb⟩ := translL_spec (finalPairsL FA FB) _ (good_init c0)
  have hf : FInv (tdU TA FA TB FB) (translL ⟨[], [], c0⟩ (finalPairsL FA FB)).1 [] := by
    refine ⟨?_, ?_, ?_⟩
    rotate_left
    · intro w _ hd; cases hd
    · intro p hp; cases hp
    intro p hp
    rcases hb p hp with h1 | h1
    · cases h1
    · obtain ⟨h2, h3⟩ := mem_allPairs.mp h1
      exact mem_allPairs.mpr ⟨List.mem_append_left _ h2, List.mem_append_left _ h3⟩
  have ht := tdLoop_total (TA := TA) (FA := FA) (TB := TB) (FB := FB) (tdFuel TA FA TB FB) _ [] [] g hf (by
    have := List.countP_le_length (p := fun p => !([] : List (Nat × Nat)).contains p) (l := tdU TA FA TB FB)
    have hl : (tdU TA FA TB FB).length = tdFuel TA FA TB FB := by
      unfold tdU tdFuel
      rw [show allPairs (FA ++ tdKids TA) (FB ++ tdKids TB) = allPairs2 (FA ++ tdKids TA) (FB ++ tdKids TB) from rfl,
        Isx.length_allPairs2, List.length_append, List.length_append]
    omega)
  cases hl : tdLoop TA TB (tdFuel TA FA TB FB) (translL ⟨[], [], c0⟩ (finalPairsL FA FB)).1 [] with
  | none => rw [hl] at ht; simp at ht
  | some r => rw [bddIsectTDFrom_of_loop (s := r.1) (R := r.2) hl]; rfl

theorem bddIsectTDRef_isSome (TA : TableTD) (FA : List Nat) (TB : TableTD) (FB : List Nat) :
    (bddIsectTDRef TA FA TB FB).isSome = true := bddIsectTDFrom_isSome 0 TA FA TB FB

/-- **the top-down symbolic intersection, total and correct**: with the fuel `tdFuel` the model returns a table whose
abstraction accepts exactly the intersection, and a translation map with the values `0 … n-1` -/
theorem bddIsectTDRef_lang (TA : TableTD) (FA : List Nat) (TB : TableTD) (FB : List Nat) (hA : ArityOK TA)
    (hB : ArityOK TB) :
    ∃ R F m, bddIsectTDRef TA FA TB FB = some (R, F, m) ∧
      (∀ syms t, accepts (absTD syms R F) t = (accepts (absTD syms TA FA) t && accepts (absTD syms TB FB) t)) ∧
      m.map Prod.snd = List.range m.length := by
  cases h : bddIsectTDRef TA FA TB FB with
  | none => have := bddIsectTDRef_isSome TA FA TB FB; rw [h] at this; simp at this
  | some r =>
    obtain ⟨R, F, m⟩ := r
    exact ⟨R, F, m, rfl, fun syms t => bddIsectTD_lang h hA hB syms t, (bddIsect_numbers_dense.1 h).1⟩

end BddIsect
end Vata
