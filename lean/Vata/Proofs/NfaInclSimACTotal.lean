import Vata.Proofs.NfaInclSimACInv
/-!
# The exploration of `ANTICHAINS_SIM` terminates

One unit of fuel of `NfaIncl.loopACSim` is one picked pair.  The measure of `Vata/Proofs/NfaInclTotal.lean` works modulo `R`:
`muS` counts the pairs (state of `A`, set of states of `B`) of the finite universe `univ A B` that are NOT covered modulo `R`
by `antichain_`; a pair that `AddNewPairToAntichain` really inserts was not covered and is covered afterwards (`R` reflexive on
the states of the operands), nothing covered gets lost (`R` transitive), and `next_` grows by at most one per inserted pair:
`phiS = 2 · muS + |next_|` never increases in `MakePost` and drops by one per picked pair.

* `runACSim_terminates` : with `R` reflexive on the states of the operands and transitive the run ends within
  `fuelBoundAC A B = 2 · (|I_A| + |Δ_A|) · 2^(|I_B| + |Δ_B|)` picked pairs (that `R` is a simulation is not used, nor that
  the operands are disjoint);
* `nfaInclACSimRaw_total`, `nfaInclACSimRaw_complete`, `nfaInclACSim_complete` : above the bound the unchecked and the checked
  model both return the right verdict (state-disjoint operands, `R` a simulation preorder on `A ⊎ B`);
* without reflexivity the exploration need not terminate: `Vata.Props.C09_antichain_sim_termination_needs_reflexive`
  (`Vata/Properties/C09_SimTotal.lean`).
-/
namespace Vata
open Vata.W
namespace NfaIncl

/-- the pairs of the universe that are not yet covered modulo `R` -/
def muS (A B : NFA) (R : Rel) (P : List Item) : Nat := (univ A B).countP (fun p => !covRB R P p.1 p.2)

def phiS (A B : NFA) (R : Rel) (st : StS) : Nat := 2 * muS A B R st.antichain + st.next.length

theorem muS_addPairSim_lt {A B : NFA} {R : Rel} (hpre : PreOn A B R) {st : StS} {it : Item} (hd : Dom A B it)
    (hso : SingleOK st.single st.antichain)
    (hs : containsSim R st.antichain (candSim R st.single it.q) it.S = false) :
    muS A B R (addPairSim R st it).antichain < muS A B R st.antichain := by
  apply countP_lt_of_new
  · intro p _ hp
    simp only [Bool.not_eq_true'] at hp ⊢
    cases hs' : covRB R st.antichain p.1 p.2 with
    | false => rfl
    | true =>
      have := covRB_iff.mpr (addPairSim_cov_mono hpre.trans (it := it) (covRB_iff.mp hs'))
      rw [hp] at this; cases this
  · refine ⟨(it.q, (domS B).filter (fun x => it.S.contains x)), ?_, ?_, ?_⟩
    · simp only [univ, List.mem_flatMap, List.mem_map, Prod.mk.injEq]
      exact ⟨it.q, hd.1, _, filter_mem_subsets _ _, rfl, rfl⟩
    · simp only [Bool.not_eq_true']
      cases hs' : covRB R st.antichain it.q ((domS B).filter (fun x => it.S.contains x)) with
      | false => rfl
      | true =>
        have : CovR R st.antichain it.q it.S := (covRB_iff.mp hs').mono_right (fun x hx => by
          simp only [List.mem_filter, List.contains_iff_mem] at hx
          exact hx.2)
        rw [(containsSim_iff hso).mpr this] at hs; cases hs
    · simp only [ne_eq, Bool.not_eq_true', Bool.not_eq_false]
      apply covRB_iff.mpr
      exact (cov_self_of_dom hpre st hd).mono_right (fun x hx => by
        simp only [List.mem_filter, List.contains_iff_mem]
        exact ⟨hd.2 x hx, hx⟩)

theorem phiS_addPairSim {A B : NFA} {R : Rel} (hpre : PreOn A B R) {st : StS} {it : Item} (hd : Dom A B it)
    (hso : SingleOK st.single st.antichain) : phiS A B R (addPairSim R st it) ≤ phiS A B R st := by
  cases hs : containsSim R st.antichain (candSim R st.single it.q) it.S with
  | true => rw [addPairSim_pos hs]; exact Nat.le_refl _
  | false =>
    have h1 := muS_addPairSim_lt hpre hd hso hs
    have h2 : (addPairSim R st it).next.length ≤ st.next.length + 1 := by
      rw [addPairSim_neg hs]
      simp only
      split
      · omega
      · rw [length_insNext]
        have : (refineSim R st.next (candRevSim R (addSingle st.single it.q) it.q) it.S).length ≤ st.next.length :=
          List.length_filter_le _ _
        omega
    unfold phiS
    omega

/-- what `MakePost` / `Init` keep: `singleAntichain_` complete, the measure not above that of `st0` -/
def BelowS (A B : NFA) (R : Rel) (st0 st : StS) : Prop :=
  SingleOK st.single st.antichain ∧ phiS A B R st ≤ phiS A B R st0

theorem below_addPairSim {A B : NFA} {R : Rel} (hpre : PreOn A B R) {st0 st : StS} {it : Item} (hd : Dom A B it)
    (h : BelowS A B R st0 st) : BelowS A B R st0 (addPairSim R st it) :=
  ⟨addPairSim_single_ok h.1, Nat.le_trans (phiS_addPairSim hpre hd h.1) h.2⟩

theorem phiS_makePostSim {A B : NFA} {R : Rel} (hpre : PreOn A B R) {it : Item} {st st' : StS}
    (hso : SingleOK st.single st.antichain) (h : makePostSim A B R it A.trans st = .ok st') :
    BelowS A B R st st' :=
  makePostSim_ind (BelowS A B R st) (fun _ _ he _ _ hQ => below_addPairSim hpre (dom_succItem he) hQ) A.trans st st'
    (fun _ h => h) ⟨hso, Nat.le_refl _⟩ h

theorem loopACSim_terminates {A B : NFA} {R : Rel} (hpre : PreOn A B R) : ∀ (n : Nat) (st : StS),
    SingleOK st.single st.antichain → phiS A B R st < n → ∃ r, loopACSim A B R n st = some r
  | 0, _, _, h => absurd h (Nat.not_lt_zero _)
  | n+1, st, hso, h => by
    unfold loopACSim
    split
    · exact ⟨_, rfl⟩
    · next it rest hn =>
      split
      · exact ⟨_, rfl⟩
      · next st' h' =>
        have h1 := phiS_makePostSim hpre (st := ⟨st.antichain, rest, st.single⟩) hso h'
        apply loopACSim_terminates hpre n st' h1.1
        have h2 : phiS A B R ⟨st.antichain, rest, st.single⟩ + 1 = phiS A B R st := by
          unfold phiS; rw [hn]; simp only [List.length_cons]; omega
        have := h1.2
        omega

theorem phiS_initACSim {A B : NFA} {R : Rel} (hpre : PreOn A B R) {st st' : StS}
    (hso : SingleOK st.single st.antichain) (h : initACSim A B R (normS B.start) A.start st = .ok st') :
    BelowS A B R st st' :=
  initACSim_ind (BelowS A B R st) (fun _ _ hs _ hQ => below_addPairSim hpre (dom_initItem hs) hQ) A.start st st'
    (fun _ h => h) ⟨hso, Nat.le_refl _⟩ h

/-- the exploration with a simulation ends within the bound of the exploration without one -/
theorem runACSim_terminates {A B : NFA} {R : Rel} (hpre : PreOn A B R) {fuel : Nat} (h : fuelBoundAC A B < fuel) :
    ∃ r, runACSim A B R fuel = some r := by
  unfold runACSim
  split
  · exact ⟨_, rfl⟩
  · next st hst =>
    have h1 := phiS_initACSim hpre (st := ⟨[], [], []⟩) (fun _ h => by simp at h) hst
    apply loopACSim_terminates hpre fuel st h1.1
    have h2 : phiS A B R ⟨[], [], []⟩ ≤ 2 * (univ A B).length := by
      unfold phiS muS
      have := List.countP_le_length (p := fun p : Nat × List Nat => !covRB R [] p.1 p.2) (l := univ A B)
      simp only [List.length_nil]
      omega
    rw [length_univ] at h2
    unfold fuelBoundAC at h
    have := h1.2
    omega

end NfaIncl

open NfaIncl

/-- above the bound the exploration returns a verdict (`R` reflexive on the states of `A ⊎ B` and transitive) -/
theorem nfaInclACSimRaw_total {A B : NFA} {R : Rel}
    (hrefl : ∀ q, q ∈ nfaStates (nfaUnionDisjoint A B) → (q, q) ∈ R)
    (ht : ∀ p q r, (p, q) ∈ R → (q, r) ∈ R → (p, r) ∈ R) {fuel : Nat} (hf : fuelBoundAC A B < fuel) :
    ∃ b, nfaInclACSimRaw A B R fuel = some b := by
  obtain ⟨r, hr⟩ := runACSim_terminates (preOn_of_pre hrefl ht) hf
  unfold nfaInclACSimRaw
  rw [hr]
  cases r with
  | ok P => exact ⟨_, rfl⟩
  | error w => exact ⟨_, rfl⟩

/-- … hence the right one, when `R` is a simulation preorder on the disjoint union of state-disjoint operands -/
theorem nfaInclACSimRaw_complete {A B : NFA} {R : Rel} (hdis : ∀ q, q ∈ nfaStates A → q ∈ nfaStates B → False)
    (hR : NfaSimPre (nfaUnionDisjoint A B) R) {fuel : Nat} (hf : fuelBoundAC A B < fuel) :
    (InclW A B → nfaInclACSimRaw A B R fuel = some true) ∧
    (¬ InclW A B → nfaInclACSimRaw A B R fuel = some false) := by
  obtain ⟨b, hb⟩ := nfaInclACSimRaw_total hR.2.1 hR.2.2 hf
  have hiff := nfaInclACSimRaw_iff hdis hR hb
  constructor
  · intro hi
    have : b = true := hiff.mpr hi
    rw [hb, this]
  · intro hi
    cases b with
    | true => exact (hi (hiff.mp rfl)).elim
    | false => exact hb

/-- the same for the certify-then-trust model: its final check never fails -/
theorem nfaInclACSim_complete {A B : NFA} {R : Rel} (hdis : ∀ q, q ∈ nfaStates A → q ∈ nfaStates B → False)
    (hR : NfaSimPre (nfaUnionDisjoint A B) R) {fuel : Nat} (hf : fuelBoundAC A B < fuel) :
    (InclW A B → nfaInclACSim A B R fuel = some true) ∧ (¬ InclW A B → nfaInclACSim A B R fuel = some false) := by
  rw [nfaInclACSimRaw_eq hdis hR.2.1 hR.2.2]
  exact nfaInclACSimRaw_complete hdis hR hf

end Vata
