import Vata.Proofs.ArityPrefix
/-!
# The arity prefix in the tables: loading and `GetTopDownAut` for an arbitrary prefix function (proofs)

`addCubeTDWith pre`, `ofRulesTDWith pre`, `getTopDownAutWith pre` for every valuation of the 22 variables; the instances
`pre = arAsgn` (the code), `arAsgnMod63`, `arAsgnShort` (the seeded variants); conversion against loading.
-/
namespace Vata
namespace ArityPrefix
open M BddAbs BddAbsTD BddIsect

/-! ## `pre = arAsgn` is the existing model -/

theorem addCubeTDWith_arAsgn : addCubeTDWith arAsgn = addCubeTD := rfl
theorem ofRulesTDWith_arAsgn (rs : List Rule) : ofRulesTDWith arAsgn rs = ofRulesTD rs := rfl
theorem getTopDownAutWith_arAsgn : getTopDownAutWith arAsgn = getTopDownAut := rfl
theorem preOK_arAsgn (ρ : Nat → Bool) (n : Nat) : preOK ρ (arAsgn n) = arOK ρ n := rfl

/-! ## loading -/

theorem agrees_withPre (ρ : Nat → Bool) (asgn : List (Option Bool)) (h : asgn.length = 16) (c : List (Option Bool)) :
    agrees ρ (asgn ++ c) 0 = (agrees ρ asgn 0 && preOK ρ c) := by
  rw [agrees_append, h, preOK, ← agrees_shift]

theorem hasRuleTD_addCubeTDWith (pre : Nat → List (Option Bool)) (T : TableTD) (p : Nat) (asgn : List (Option Bool))
    (hl : asgn.length = 16) (ks : List Nat) (ρ : Nat → Bool) (p' : Nat) (ks' : List Nat) :
    HasRuleTD (addCubeTDWith pre T p asgn ks) ρ p' ks' ↔
      HasRuleTD T ρ p' ks' ∨ (p' = p ∧ ks' = ks ∧ agrees ρ asgn 0 = true ∧ preOK ρ (pre ks.length) = true) := by
  unfold HasRuleTD addCubeTDWith
  rw [getTD_setTD]
  by_cases h : p = p'
  · subst h
    rw [if_pos rfl, apply2_eval, mem_unionTS, construct_eval_agrees, agrees_withPre ρ asgn hl]
    by_cases ha : (agrees ρ asgn 0 && preOK ρ (pre ks.length)) = true
    · rw [if_pos ha]
      simp only [Bool.and_eq_true] at ha
      simp [ha.1, ha.2]
    · rw [if_neg ha]
      simp only [Bool.and_eq_true] at ha
      constructor
      · rintro (h | h)
        · exact Or.inl h
        · cases h
      · rintro (h | ⟨_, _, h1, h2⟩)
        · exact Or.inl h
        · exact absurd ⟨h1, h2⟩ ha
  · rw [if_neg h]
    have : ¬ p' = p := fun e => h e.symm
    simp [this]

theorem hasRuleTD_foldlWith (pre : Nat → List (Option Bool)) (ρ : Nat → Bool) (p : Nat) (ks : List Nat) :
    ∀ (rs : List Rule) (T : TableTD),
    HasRuleTD (rs.foldl (fun T r => addCubeTDWith pre T r.parent (symAsgn r.sym) r.kids) T) ρ p ks ↔
      HasRuleTD T ρ p ks ∨ ∃ r, r ∈ rs ∧ r.kids = ks ∧ r.parent = p ∧ agrees ρ (symAsgn r.sym) 0 = true ∧
        preOK ρ (pre ks.length) = true
  | [], T => by simp
  | r :: rs, T => by
    rw [List.foldl_cons, hasRuleTD_foldlWith pre ρ p ks rs, hasRuleTD_addCubeTDWith _ _ _ _ (symAsgn_length _)]
    constructor
    · rintro ((h | ⟨h1, h2, h3, h4⟩) | ⟨r', hr', h⟩)
      · exact Or.inl h
      · exact Or.inr ⟨r, List.mem_cons_self, h2.symm, h1.symm, h3, by rw [h2]; exact h4⟩
      · exact Or.inr ⟨r', List.mem_cons_of_mem _ hr', h⟩
    · rintro (h | ⟨r', hr', h1, h2, h3, h4⟩)
      · exact Or.inl (Or.inl h)
      · rcases List.mem_cons.mp hr' with rfl | hr'
        · exact Or.inl (Or.inr ⟨h2.symm, h1.symm, h3, by rw [h1]; exact h4⟩)
        · exact Or.inr ⟨r', hr', h1, h2, h3, h4⟩

/-- the rules of a loaded table, for every valuation and every prefix function -/
theorem hasRuleTD_ofRulesTDWith (pre : Nat → List (Option Bool)) (rs : List Rule) (ρ : Nat → Bool) (p : Nat)
    (ks : List Nat) :
    HasRuleTD (ofRulesTDWith pre rs) ρ p ks ↔
      ∃ r, r ∈ rs ∧ r.kids = ks ∧ r.parent = p ∧ agrees ρ (symAsgn r.sym) 0 = true ∧
        preOK ρ (pre ks.length) = true := by
  unfold ofRulesTDWith
  rw [hasRuleTD_foldlWith]
  simp [hasRuleTD_nil]

/-! ## conversion -/

theorem invertWith_inner (pre : Nat → List (Option Bool)) (p : Nat) (ρ : Nat → Bool) (ks : List Nat) :
    ∀ (es : List (List Nat × MT)) (acc : MTD),
    ks ∈ eval (es.foldl (invertStepWith pre p) acc) ρ ↔
      ks ∈ eval acc ρ ∨ ∃ e, e ∈ es ∧ e.1 = ks ∧ preOK ρ (pre ks.length) = true ∧ p ∈ eval e.2 ρ
  | [], acc => by simp
  | e :: es, acc => by
    rw [List.foldl_cons, invertWith_inner pre p ρ ks es]
    unfold invertStepWith
    rw [apply2_eval, mem_invertLeaf, extendWith_eval]
    constructor
    · rintro ((h | ⟨h1, h2⟩) | ⟨e', he', h⟩)
      · exact Or.inl h
      · refine Or.inr ⟨e, List.mem_cons_self, h1.symm, ?_⟩
        have : preOK ρ (pre e.1.length) = true := by
          apply Classical.byContradiction
          intro hn
          unfold preOK at hn
          rw [if_neg hn] at h2
          cases h2
        rw [h1]
        refine ⟨this, ?_⟩
        unfold preOK at this
        rwa [if_pos this] at h2
      · exact Or.inr ⟨e', List.mem_cons_of_mem _ he', h⟩
    · rintro (h | ⟨e', he', h1, h2, h3⟩)
      · exact Or.inl (Or.inl h)
      · rcases List.mem_cons.mp he' with rfl | he'
        · refine Or.inl (Or.inr ⟨h1.symm, ?_⟩)
          rw [h1]
          unfold preOK at h2
          rw [if_pos h2]
          exact h3
        · exact Or.inr ⟨e', he', h1, h2, h3⟩

theorem invertWith_outer (pre : Nat → List (Option Bool)) (T : Table) (ρ : Nat → Bool) (p : Nat) (ks : List Nat) :
    ∀ (L : List Nat) (R : TableTD),
    ks ∈ eval (getTD (L.foldl (fun R p => setTD R p ((pairs T).foldl (invertStepWith pre p) (getTD R p))) R) p) ρ ↔
      ks ∈ eval (getTD R p) ρ ∨
        (p ∈ L ∧ ∃ e, e ∈ pairs T ∧ e.1 = ks ∧ preOK ρ (pre ks.length) = true ∧ p ∈ eval e.2 ρ)
  | [], R => by simp
  | q :: L, R => by
    rw [List.foldl_cons, invertWith_outer pre T ρ p ks L, getTD_setTD]
    by_cases hq : q = p
    · subst hq
      rw [if_pos rfl, invertWith_inner]
      constructor
      · rintro ((h | h) | ⟨_, h⟩)
        · exact Or.inl h
        · exact Or.inr ⟨List.mem_cons_self, h⟩
        · exact Or.inr ⟨List.mem_cons_self, h⟩
      · rintro (h | ⟨_, h⟩)
        · exact Or.inl (Or.inl h)
        · exact Or.inl (Or.inr h)
    · rw [if_neg hq]
      have : p ∈ q :: L ↔ p ∈ L := by
        rw [List.mem_cons]
        exact ⟨fun h => h.elim (fun e => absurd e.symm hq) id, Or.inr⟩
      rw [this]

/-- **the inversion for every valuation of the 22 variables and every prefix function**: the converted table has the rule
`ρ(ks) → p` iff `p` was collected, the arity variables of `ρ` lie in the prefix computed for `|ks|`, and the bottom-up
table has the rule -/
theorem hasRuleTD_getTopDownAutWith (pre : Nat → List (Option Bool)) {T : Table} (hT : TableOk T) (F : List Nat)
    (ρ : Nat → Bool) (p : Nat) (ks : List Nat) :
    HasRuleTD (getTopDownAutWith pre T F) ρ p ks ↔
      p ∈ tdStates T F ∧ preOK ρ (pre ks.length) = true ∧ HasRule T ρ ks p := by
  unfold HasRuleTD getTopDownAutWith
  rw [invertWith_outer, ← pairs_hasRule hT]
  constructor
  · rintro (h | ⟨h1, e, he, h2, h3, h4⟩)
    · simp [getTD, eval] at h
    · exact ⟨h1, h3, e, he, h2, h4⟩
  · rintro ⟨h1, h3, e, he, h2, h4⟩
    exact Or.inr ⟨h1, e, he, h2, h3, h4⟩

/-! ## conversion against loading -/

/-- **conversion and loading compute the same prefix**: for every prefix function used on both sides, every rule list,
every valuation of the 22 variables: the table `GetTopDownAut` builds from the bottom-up table of the rules holds exactly
the rules of the natively loaded top-down table whose parent is collected (a final state or a child somewhere – the
others are unreachable top-down, `getTopDownAut_dropped`).  No bound on symbols or arities. -/
theorem convertWith_eq_loadWith (pre : Nat → List (Option Bool)) (rs : List Rule) (F : List Nat) (ρ : Nat → Bool)
    (p : Nat) (ks : List Nat) :
    HasRuleTD (getTopDownAutWith pre (ofRules rs) F) ρ p ks ↔
      p ∈ tdStates (ofRules rs) F ∧ HasRuleTD (ofRulesTDWith pre rs) ρ p ks := by
  rw [hasRuleTD_getTopDownAutWith pre (tableOk_ofRules rs), hasRule_ofRules_gen, hasRuleTD_ofRulesTDWith]
  constructor
  · rintro ⟨h1, h2, r, hr, h3, h4, h5⟩
    exact ⟨h1, r, hr, h3, h4, h5, h2⟩
  · rintro ⟨h1, r, hr, h3, h4, h5, h2⟩
    exact ⟨h1, h2, r, hr, h3, h4, h5⟩

/-- the code as it is -/
theorem convert_eq_load (rs : List Rule) (F : List Nat) (ρ : Nat → Bool) (p : Nat) (ks : List Nat) :
    HasRuleTD (getTopDownAut (ofRules rs) F) ρ p ks ↔
      p ∈ tdStates (ofRules rs) F ∧ HasRuleTD (ofRulesTD rs) ρ p ks :=
  convertWith_eq_loadWith arAsgn rs F ρ p ks

/-- on the abstraction `absTD` (the rules read off the arity prefixes `0 … 63` for the symbols `syms`) -/
theorem absRulesTD_convert_load (rs : List Rule) (F syms : List Nat) (r : Rule) :
    r ∈ absRulesTD syms (getTopDownAut (ofRules rs) F) ↔
      r ∈ absRulesTD syms (ofRulesTD rs) ∧ r.parent ∈ tdStates (ofRules rs) F := by
  rw [mem_absRulesTD, mem_absRulesTD]
  constructor
  · rintro ⟨hs, n, hn, h⟩
    have := (convert_eq_load rs F _ _ _).mp h
    exact ⟨⟨hs, n, hn, this.2⟩, this.1⟩
  · rintro ⟨⟨hs, n, hn, h⟩, hp⟩
    exact ⟨hs, n, hn, (convert_eq_load rs F _ _ _).mpr ⟨hp, h⟩⟩

/-- the two tables denote the same language (16-bit symbols of the dictionary `syms`, arities below 64) -/
theorem convert_load_lang (rs : List Rule) (F syms : List Nat)
    (hrs : ∀ r, r ∈ rs → r.sym < 2 ^ 16 ∧ r.kids.length < 64 ∧ r.sym ∈ syms) (hs : ∀ f, f ∈ syms → f < 2 ^ 16) (t : Tree) :
    accepts (absTD syms (getTopDownAut (ofRules rs) F) F) t = accepts (absTD syms (ofRulesTD rs) F) t := by
  rw [getTopDownAut_lang (tableOk_ofRules rs) (tableWF_ofRules rs),
    (absBU_ofRules_setEq rs syms F (fun r hr => ⟨(hrs r hr).1, (hrs r hr).2.2⟩) hs).lang,
    (absTD_ofRulesTD_setEq rs syms F hrs hs).lang]

/-- … and without any bound on symbols or arities (the dump-like abstraction `absTD` reads the rules off all values of
the arity variables, so it does not see that 64 children are stored under the prefix of 0) -/
theorem convert_load_lang_unbounded (rs : List Rule) (F syms : List Nat) (t : Tree) :
    accepts (absTD syms (getTopDownAut (ofRules rs) F) F) t = accepts (absTD syms (ofRulesTD rs) F) t := by
  have hc : TdClosed (absTD syms (ofRulesTD rs) F).rules (tdStates (ofRules rs) F) := by
    intro r hr _ k hk
    obtain ⟨_, n, _, h⟩ := mem_absRulesTD.mp hr
    obtain ⟨r', hr', h1, h2, h3, _⟩ := (hasRuleTD_ofRulesTD_gen rs _ _ _).mp h
    have : HasRule (ofRules rs) (bitsAr r.sym n) r.kids r.parent :=
      (hasRule_ofRules_gen rs _ _ _).mpr ⟨r', hr', h1, h2, h3⟩
    exact mem_tdStates.mpr (Or.inr ⟨r.kids, hasRule_key this, hk⟩)
  rw [← keepParents_lang (absTD syms (ofRulesTD rs) F) (tdStates (ofRules rs) F)
    (fun q hq => mem_tdStates.mpr (Or.inl hq)) hc t]
  apply Isx.accepts_congr_sets
  · intro r
    show r ∈ absRulesTD syms (getTopDownAut (ofRules rs) F) ↔ _
    rw [absRulesTD_convert_load]
    simp only [keepParents, absTD, List.mem_filter, List.contains_iff_mem]
  · intro q; exact Iff.rfl

/-! ## variant 1 in the conversion: arity 63 -/

theorem preOK_mod63_63 (ρ : Nat → Bool) : preOK (withArity ρ 63) (arAsgnMod63 63) = false := by
  rw [arAsgnMod63_63]
  show arOK (withArity ρ 63) 0 = false
  rw [Bool.eq_false_iff]
  intro h
  exact absurd ((arOK_withArity_lt ρ (by decide) (by decide)).mp h) (by decide)

theorem preOK_mod63_0 (ρ : Nat → Bool) : preOK (withArity ρ 0) (arAsgnMod63 63) = true := by
  rw [arAsgnMod63_63]
  exact arOK_withArity_self ρ 0

/-- **the converted table of the variant and the loaded table disagree on the ranked symbol of every rule of arity 63**:
the loaded table has `f(ks) → p` under the ranked symbol `(f, 63)`; the variant of `GetTopDownAut` has NO tuple of length
63 under any ranked symbol `(·, 63)`, it has the rule under `(f, 0)`, among the leaf rules. -/
theorem mod63_tables_disagree (rs : List Rule) (F : List Nat) (r : Rule) (hr : r ∈ rs) (h63 : r.kids.length = 63)
    (hp : r.parent ∈ tdStates (ofRules rs) F) :
    HasRuleTD (ofRulesTD rs) (bitsAr r.sym 63) r.parent r.kids ∧
    HasRuleTD (getTopDownAut (ofRules rs) F) (bitsAr r.sym 63) r.parent r.kids ∧
    (∀ ρ p ks, ks.length = 63 → ¬ HasRuleTD (getTopDownAutWith arAsgnMod63 (ofRules rs) F) (withArity ρ 63) p ks) ∧
    HasRuleTD (getTopDownAutWith arAsgnMod63 (ofRules rs) F) (bitsAr r.sym 0) r.parent r.kids := by
  have hload : HasRuleTD (ofRulesTD rs) (bitsAr r.sym 63) r.parent r.kids := by
    rw [hasRuleTD_ofRulesTD_gen]
    refine ⟨r, hr, rfl, rfl, ?_, ?_⟩
    · rw [bitsAr, agrees_withArity _ _ _ (by rw [symAsgn_length]; omega)]; exact agrees_bits_self _
    · rw [h63]; exact arOK_withArity_self _ _
  refine ⟨hload, (convert_eq_load rs F _ _ _).mpr ⟨hp, hload⟩, ?_, ?_⟩
  · intro ρ p ks hk h
    have := ((hasRuleTD_getTopDownAutWith arAsgnMod63 (tableOk_ofRules rs) F _ p ks).mp h).2.1
    rw [hk, preOK_mod63_63] at this
    cases this
  · rw [hasRuleTD_getTopDownAutWith arAsgnMod63 (tableOk_ofRules rs), h63, hasRule_ofRules_gen]
    refine ⟨hp, preOK_mod63_0 _, r, hr, rfl, rfl, ?_⟩
    rw [bitsAr, agrees_withArity _ _ _ (by rw [symAsgn_length]; omega)]; exact agrees_bits_self _

/-- the invariant `ArityOK` that the top-down `Intersection` (and the inclusion and simulation code, through
`GetMtbddForArity`) relies on is lost -/
theorem mod63_not_arityOK (rs : List Rule) (F : List Nat) (r : Rule) (hr : r ∈ rs) (h63 : r.kids.length = 63)
    (hp : r.parent ∈ tdStates (ofRules rs) F) : ¬ ArityOK (getTopDownAutWith arAsgnMod63 (ofRules rs) F) := by
  intro h
  have := h (bits r.sym) 0 r.parent r.kids (by decide) (mod63_tables_disagree rs F r hr h63 hp).2.2.2
  omega

/-! ## variant 2 in the conversion: ranks `n` and `n + 32` -/

theorem preOK_short_withArity (ρ : Nat → Bool) (m n : Nat) :
    preOK (withArity ρ m) (arAsgnShort n) = true ↔ m % 32 = n % 32 := by
  rw [preOK_short]
  simp only [withArity_hi]
  constructor
  · intro h
    apply Nat.eq_of_testBit_eq
    intro i
    rw [show (32 : Nat) = 2 ^ 5 by rfl, Nat.testBit_mod_two_pow, Nat.testBit_mod_two_pow]
    by_cases hi : i < 5
    · simp [hi, h i hi]
    · simp [hi]
  · intro h j hj
    have h1 := Nat.testBit_mod_two_pow m 5 j
    have h2 := Nat.testBit_mod_two_pow n 5 j
    simp only [hj, decide_true, Bool.true_and] at h1 h2
    rw [← h1, ← h2]
    exact congrArg (fun x => Nat.testBit x j) h

/-- **with the short `append` in the conversion** a rule of arity `n < 32` sits under its own ranked symbol AND under the
ranked symbol of arity `n + 32` (where the loaded table has nothing of that length), and a rule of arity `n + 32` also
under the ranked symbol of arity `n` -/
theorem short_tables_disagree (rs : List Rule) (F : List Nat) (r : Rule) (hr : r ∈ rs) (hp : r.parent ∈ tdStates (ofRules rs) F)
    (m : Nat) (hm : m % 32 = r.kids.length % 32) :
    HasRuleTD (getTopDownAutWith arAsgnShort (ofRules rs) F) (bitsAr r.sym m) r.parent r.kids ∧
    (m < 64 → r.kids.length < 64 → m ≠ r.kids.length → ¬ HasRuleTD (ofRulesTD rs) (bitsAr r.sym m) r.parent r.kids) := by
  constructor
  · rw [hasRuleTD_getTopDownAutWith arAsgnShort (tableOk_ofRules rs), hasRule_ofRules_gen]
    refine ⟨hp, (preOK_short_withArity _ _ _).mpr hm, r, hr, rfl, rfl, ?_⟩
    rw [bitsAr, agrees_withArity _ _ _ (by rw [symAsgn_length]; omega)]; exact agrees_bits_self _
  · intro h1 h2 h3 h
    obtain ⟨_, _, _, _, _, h4⟩ := (hasRuleTD_ofRulesTD_gen rs _ _ _).mp h
    exact h3 ((arOK_withArity_lt (bits r.sym) h1 h2).mp h4)

/-! ## conversion against loading, from a description (`LoadFromAutDesc`, either parameter) -/

open BddLoad in
/-- a description loaded into the bottom-up encoding and converted, against the same description loaded into the
top-down encoding (same alphabet, fresh state dictionaries – the two loads number states and symbols alike,
`loadBU_st_eq_loadTD`): the same rules for every valuation of the 22 variables, up to the parents `GetTopDownAut` does not
collect.  Either parameter, exceptions included (both loads stop at the same transition), no bound on the arities. -/
theorem convert_eq_load_desc (par : Param) (yd : BddLoad.SymDict) (hyd : yd.Ok) (d : AutDesc) (F : List Nat) (ρ : Nat → Bool)
    (p : Nat) (ks : List Nat) :
    HasRuleTD (getTopDownAut (loadBU par {} [] yd d).aut.tbl F) ρ p ks ↔
      p ∈ tdStates (loadBU par {} [] yd d).aut.tbl F ∧ HasRuleTD (loadTD par {} [] yd d).aut.tbl ρ p ks := by
  have hT := (table_loadBU par {} yd hyd d tableOk_empty tableWF_empty).1
  rw [absTD_invert_gen hT, hasRule_loadBU par {} yd hyd d, hasRuleTD_loadTD par {} yd hyd d,
    ← (loadBU_st_eq_loadTD par {} {} [] yd d).1]
  apply and_congr Iff.rfl
  constructor
  · rintro ⟨h1, h | ⟨t, ht, h2, h3, h4⟩⟩
    · exact absurd h (hasRule_empty _ _ _)
    · exact Or.inr ⟨t, ht, h2, h3, h4, h1⟩
  · rintro (h | ⟨t, ht, h2, h3, h4, h1⟩)
    · exact absurd h (hasRuleTD_nil _ _ _)
    · exact ⟨h1, Or.inr ⟨t, ht, h2, h3, h4⟩⟩

end ArityPrefix
end Vata
