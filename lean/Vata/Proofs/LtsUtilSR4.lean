import Vata.Proofs.LtsUtilSR3

/-!
# `SplittingRelation` — part 4: `init`

`init_refines`: inside the call discipline `init(index)` on a new object succeeds and the result represents `index`.
Loop invariants: `InitI` (inner loop over the entries of row `i`), `InitO` (outer loop), `initCols_spec` (closing the
columns).
-/
namespace Vata.LU.SR
namespace P
local notation "cs" => List.map Ptr.cell

/-! ### sentinels inside the vectors can be written -/

theorem gr_rowS_some {s : T} {i : Nat} (h : i < (obs s).nr) : ∃ q, (obs s).gr (.rowS i) = some q := by
  have h' : i < s.rows.length := h
  exact ⟨(s.rows[i]).1, by simp [obs, getRight, h']⟩

theorem gl_rowS_some {s : T} {i : Nat} (h : i < (obs s).nr) : ∃ q, (obs s).gl (.rowS (i + 1)) = some q := by
  have h' : i < s.rows.length := h
  exact ⟨(s.rows[i]).2, by simp [obs, getLeft, h']⟩

theorem gd_colS_some {s : T} {i : Nat} (h : i < (obs s).nc) : ∃ q, (obs s).gd (.colS i) = some q := by
  have h' : i < s.cols.length := h
  exact ⟨(s.cols[i]).1, by simp [obs, getDown, h']⟩

theorem gu_colS_some {s : T} {i : Nat} (h : i < (obs s).nc) : ∃ q, (obs s).gu (.colS (i + 1)) = some q := by
  have h' : i < s.cols.length := h
  exact ⟨(s.cols[i]).2, by simp [obs, getUp, h']⟩

theorem gr_lastP_some {s : T} {i : Nat} (l : List Nat) (h : i < (obs s).nr) :
    ∃ q, (obs s).gr (lastP (.rowS i) l) = some q := by
  rcases lastP_cases l (.rowS i) with ⟨_, h2⟩ | ⟨a, _, h2⟩ <;> rw [h2]
  · exact gr_rowS_some h
  · exact ⟨_, gr_cell s a⟩

theorem gd_lastP_some {s : T} {i : Nat} (l : List Nat) (h : i < (obs s).nc) :
    ∃ q, (obs s).gd (lastP (.colS i) l) = some q := by
  rcases lastP_cases l (.colS i) with ⟨_, h2⟩ | ⟨a, _, h2⟩ <;> rw [h2]
  · exact gd_colS_some h
  · exact ⟨_, gd_cell s a⟩

theorem upd_upd_same (f : Ptr → Option Ptr) (p v w : Ptr) : upd (upd f p w) p v = upd f p v := by
  funext q; unfold upd; split <;> rfl

theorem updN_updN_same (f : Nat → Nat) (a v w : Nat) : updN (updN f a w) a v = updN f a v := by
  funext q; unfold updN; split <;> rfl

/-! ### `init` -/

/-- invariant of the loops of `init` while row `i` is being filled: rows `< i` are closed, rows `> i` are empty, all
columns are open, `lastV[j]` is the last pointer of column `j` -/
structure InitI (o : Obs) (m i : Nat) (R C : Nat → List Nat) (lastV : List Ptr) : Prop where
  gs : GS o m R C (fun k => k < i) (fun _ => False)
  mem : Mem o R
  empty : ∀ k, i < k → R k = []
  len : lastV.length = m
  lastV : ∀ j, j < m → lastV[j]? = some (lastP (.colS j) (C j))

theorem initCell_spec {s : T} {m i j : Nat} {R C : Nat → List Nat} {lastV : List Ptr} (h : InitI (obs s) m i R C lastV)
    (hi : i < m) (hj : j < m) (hc : j ∉ (R i).map (obs s).col) :
    ∃ s', initCell i (s, lastV, lastP (.rowS i) (R i)) j = some (s', lastV.set j (.cell s.next), .cell s.next) ∧
      InitI (obs s') m i (setL R i (R i ++ [s.next])) (setL C j (C j ++ [s.next])) (lastV.set j (.cell s.next)) ∧
      (obs s').col = updN (obs s).col s.next j := by
  have d := h.gs.data
  have hfresh : ∀ k, s.next ∉ R k := fun k hm => Nat.lt_irrefl _ (h.mem.lt k _ hm)
  have hfC := d.not_mem_C hfresh
  have hnf : s.next ∉ s.free := fun hm => Nat.lt_irrefl _ (h.mem.flt _ hm)
  unfold initCell
  simp only [h.lastV j hj]
  -- the new cell
  have e1 := obs_setCell_next s s.next (s.next + 1) ⟨lastP (.colS j) (C j), .null, lastP (.rowS i) (R i), .null, j, i⟩
  rw [obs_setCell] at e1
  dsimp only at e1
  generalize hs1 : T.mk (s.cells.set s.next (Cell.mk (lastP (.colS j) (C j)) .null (lastP (.rowS i) (R i)) .null j i))
    (s.next + 1) s.free s.rows s.cols s.size = s1 at e1 ⊢
  have hU : lastP (.colS j) (C j) ≠ .cell s.next := ne_cell_of_mem_col (hfC j) (lastP_mem _ _)
  have hL : lastP (.rowS i) (R i) ≠ .cell s.next := ne_cell_of_mem_row (hfresh i) (lastP_mem _ _)
  have hal : AllocRel (obs s) (obs s1) s.next := by
    rw [e1]
    exact {
      gr := fun p hp => upd_ne _ _ hp
      gl := fun p hp => upd_ne _ _ hp
      gd := fun p hp => upd_ne _ _ hp
      gu := fun p hp => upd_ne _ _ hp
      col := fun a ha => updN_ne _ _ ha
      row := fun a ha => updN_ne _ _ ha
      size := rfl
      nr := rfl
      nc := rfl
      next_le := Nat.le_succ _
      t_lt := Nat.lt_succ_self _
      t_nfree := hnf
      free_sub := fun a ha => ha
      free_nd := h.mem.fnd
      t_old := Or.inr (Nat.le_refl _) }
  have g1 := h.gs.alloc hal hfresh
  -- the two writes
  have hnc : j < (obs s1).nc := by rw [hal.nc, h.gs.nc]; exact Nat.lt_of_lt_of_le hj h.gs.nr
  obtain ⟨q, hq⟩ := gd_lastP_some (s := s1) (C j) hnc
  obtain ⟨s2, h2, e2⟩ := setDown_obs (.cell s.next) hq
  have hnr : i < (obs s2).nr := by rw [e2]; show i < (obs s1).nr; rw [hal.nr]; exact Nat.lt_of_lt_of_le hi h.gs.nr
  obtain ⟨q', hq'⟩ := gr_lastP_some (s := s2) (R i) hnr
  obtain ⟨s3, h3, e3⟩ := setRight_obs (.cell s.next) hq'
  simp only [h2, h3]
  refine ⟨s3, rfl, ?_, ?_⟩
  · have hcol1 : (obs s1).col = updN (obs s).col s.next j := by rw [e1]
    have hrow1 : (obs s1).row = updN (obs s).row s.next i := by rw [e1]
    have g3 := g1.push (o' := obs s3) (a := s.next) (i := i) (j := j) hfresh hi hj
      (by rw [hcol1, map_updN_of_not_mem _ _ (hfresh i)]; exact hc)
      (by
        intro x hx
        have hxa : x ≠ s.next := by intro e; rw [e] at hx; exact hfC j hx
        rw [hrow1, updN_ne _ _ hxa]
        have h1 := d.cr j x hx
        have h2 := d.rlt _ x h1
        rcases Nat.lt_trichotomy ((obs s).row x) i with hlt | heq | hgt
        · exact hlt
        · exfalso; apply hc
          rw [heq] at h1
          exact List.mem_map.2 ⟨x, h1, d.ccol j x hx⟩
        · exfalso; rw [h.empty _ hgt] at h1; simp at h1)
      (by rw [e3, e2])
      (by rw [e3, e2, e1]; exact (upd_upd_same _ _ _ _).symm)
      (by rw [e3, e2])
      (by rw [e3, e2, e1]; exact (upd_upd_same _ _ _ _).symm)
      (by rw [e3, e2, e1]; exact (updN_updN_same _ _ _ _).symm)
      (by rw [e3, e2, e1]; exact (updN_updN_same _ _ _ _).symm)
      (by rw [e3, e2]) (by rw [e3, e2])
    refine ⟨g3.weaken (fun k hk hc => ⟨hc, Nat.ne_of_lt hc⟩) (fun k _ hc => hc.elim), ?_, ?_, ?_, ?_⟩
    · refine h.mem.push i (o' := obs s3) ?_ ?_ ?_ hnf
      · rw [e3, e2, e1]; exact Nat.le_succ _
      · rw [e3, e2, e1]
      · rw [e3, e2, e1]; exact Nat.lt_succ_self _
    · intro k hk; rw [setL_ne _ _ (Nat.ne_of_gt hk)]; exact h.empty k hk
    · rw [List.length_set]; exact h.len
    · intro j' hj'
      rw [List.getElem?_set]
      by_cases hjj : j = j'
      · subst hjj; simp [h.len, hj]
      · simp only [hjj, if_false]
        rw [setL_ne _ _ (fun e => hjj e.symm)]; exact h.lastV j' hj'
  · rw [e3, e2, e1]

theorem initCells_spec (m i : Nat) (hi : i < m) : ∀ (js : List Nat) (s : T) (R C : Nat → List Nat) (lastV : List Ptr),
    InitI (obs s) m i R C lastV → (∀ j ∈ js, j < m) → ((R i).map (obs s).col ++ js).Nodup →
    ∃ s' R' C' lastV', initCells i (s, lastV, lastP (.rowS i) (R i)) js = some (s', lastV', lastP (.rowS i) (R' i)) ∧
      InitI (obs s') m i R' C' lastV' ∧ (R' i).map (obs s').col = (R i).map (obs s).col ++ js ∧
      ∀ k, k ≠ i → (R' k).map (obs s').col = (R k).map (obs s).col
  | [], s, R, C, lastV, h, _, _ => ⟨s, R, C, lastV, rfl, h, by simp, fun _ _ => rfl⟩
  | j :: js, s, R, C, lastV, h, hjs, hnd => by
    have hj : j < m := hjs j (by simp)
    have hc : j ∉ (R i).map (obs s).col := by
      intro hm
      exact (List.nodup_append.1 hnd).2.2 j hm j (by simp) rfl
    obtain ⟨s1, e1, h1, hcol⟩ := initCell_spec h hi hj hc
    have hfresh : ∀ k, s.next ∉ R k := fun k hm => Nat.lt_irrefl _ (h.mem.lt k _ hm)
    have hmap : ∀ k, (R k).map (obs s1).col = (R k).map (obs s).col := fun k => by
      rw [hcol]; exact map_updN_of_not_mem _ _ (hfresh k)
    have hRi : (setL R i (R i ++ [s.next]) i).map (obs s1).col = (R i).map (obs s).col ++ [j] := by
      rw [setL_same, List.map_append, hmap i, hcol]; simp
    obtain ⟨s', R', C', lastV', e2, h2, hv, hk⟩ := initCells_spec m i hi js s1 _ _ _ h1
      (fun j' hj' => hjs j' (List.mem_cons_of_mem _ hj')) (by rw [hRi]; simpa using hnd)
    refine ⟨s', R', C', lastV', ?_, h2, ?_, ?_⟩
    · simp only [initCells, e1]
      have : lastP (Ptr.rowS i) (setL R i (R i ++ [s.next]) i) = .cell s.next := by rw [setL_same, lastP_snoc]
      rw [this] at e2; exact e2
    · rw [hv, hRi]; simp
    · intro k hki
      rw [hk k hki, setL_ne _ _ hki, hmap k]

/-- invariant of the outer loop of `init` before row `i` -/
structure InitO (o : Obs) (m i : Nat) (R C : Nat → List Nat) (lastV : List Ptr) : Prop where
  inner : InitI o m i R C lastV
  here : R i = []

theorem initRow_spec {s : T} {m i : Nat} {R C : Nat → List Nat} {lastV : List Ptr} (h : InitO (obs s) m i R C lastV)
    (hi : i < m) {row : List Nat} (hrow : ∀ j ∈ row, j < m) (hnd : row.Nodup) :
    ∃ s' R' C' lastV', initRow (s, lastV) (i, row) = some (s', lastV') ∧ InitO (obs s') m (i + 1) R' C' lastV' ∧
      (R' i).map (obs s').col = row ∧ ∀ k, k ≠ i → (R' k).map (obs s').col = (R k).map (obs s).col := by
  obtain ⟨s1, R', C', lastV', e1, h1, hv, hk⟩ := initCells_spec m i hi row s R C lastV h.inner hrow
    (by rw [h.here]; simpa using hnd)
  rw [h.here] at e1 hv
  have hnr1 : i < (obs s1).nr := Nat.lt_of_lt_of_le hi h1.gs.nr
  obtain ⟨q, hq⟩ := gr_lastP_some (s := s1) (R' i) hnr1
  obtain ⟨s2, h2, e2⟩ := setRight_obs (.rowS (i + 1)) hq
  have hnr2 : i < (obs s2).nr := by rw [e2]; exact hnr1
  obtain ⟨q', hq'⟩ := gl_rowS_some hnr2
  obtain ⟨s3, h3, e3⟩ := setLeft_obs (lastP (.rowS i) (R' i)) hq'
  have g3 := h1.gs.closeRow (o' := obs s3) (i := i) (by rw [e3, e2]) (by rw [e3, e2]) (by rw [e3, e2]) (by rw [e3, e2])
    (by rw [e3, e2]) (by rw [e3, e2]) (by rw [e3, e2]) (by rw [e3, e2])
  refine ⟨s3, R', C', lastV', ?_, ⟨⟨g3.weaken (fun k _ hc => by omega) (fun _ _ hc => hc), ?_, ?_, h1.len, h1.lastV⟩, ?_⟩,
    ?_, ?_⟩
  · simp only [initRow, lastP_nil] at e1 ⊢
    simp only [e1, h2, setRowSecond_eq, h3]; rfl
  · exact h1.mem.congr (by rw [e3, e2]) (by rw [e3, e2])
  · intro k hk'; exact h1.empty k (by omega)
  · exact h1.empty (i + 1) (by omega)
  · have : (obs s3).col = (obs s1).col := by rw [e3, e2]
    rw [this, hv]; simp
  · intro k hki
    have : (obs s3).col = (obs s1).col := by rw [e3, e2]
    rw [this]; exact hk k hki

theorem initRows_spec (m : Nat) : ∀ (rows : List (List Nat)) (k : Nat) (s : T) (R C : Nat → List Nat) (lastV : List Ptr),
    InitO (obs s) m k R C lastV → k + rows.length ≤ m → (∀ row ∈ rows, (∀ j ∈ row, j < m) ∧ row.Nodup) →
    ∃ s' R' C' lastV', initRows (s, lastV) ((List.range' k rows.length).zip rows) = some (s', lastV') ∧
      InitO (obs s') m (k + rows.length) R' C' lastV' ∧
      (∀ i, i < rows.length → (R' (k + i)).map (obs s').col = rows.getD i []) ∧
      (∀ i, i < k → (R' i).map (obs s').col = (R i).map (obs s).col)
  | [], k, s, R, C, lastV, h, _, _ => ⟨s, R, C, lastV, rfl, h, fun i hi => by simp at hi, fun _ _ => rfl⟩
  | row :: rows, k, s, R, C, lastV, h, hk, hrows => by
    have hlen : (row :: rows).length = rows.length + 1 := rfl
    rw [hlen] at hk
    obtain ⟨hr1, hr2⟩ := hrows row (by simp)
    obtain ⟨s1, R1, C1, lastV1, e1, h1, hv1, hk1⟩ := initRow_spec h (by omega) hr1 hr2
    obtain ⟨s', R', C', lastV', e2, h2, hv2, hk2⟩ := initRows_spec m rows (k + 1) s1 R1 C1 lastV1 h1 (by omega)
      (fun r hr => hrows r (List.mem_cons_of_mem _ hr))
    refine ⟨s', R', C', lastV', ?_, ?_, ?_, ?_⟩
    · simp only [hlen, List.range'_succ, List.zip_cons_cons, initRows, e1]; exact e2
    · rw [hlen, ← Nat.add_assoc, Nat.add_right_comm]; exact h2
    · intro i hi
      cases i with
      | zero => rw [Nat.add_zero, hk2 k (by omega), hv1]; rfl
      | succ i =>
        have := hv2 i (by simpa [hlen] using hi)
        rw [Nat.add_assoc, Nat.add_comm 1 i] at this
        rw [this]; rfl
    · intro i hi
      rw [hk2 i (by omega), hk1 i (by omega)]

theorem GS.size_irrel {o : Obs} {n : Nat} {R C : Nat → List Nat} {cr cc : Nat → Prop} (h : GS o n R C cr cc) (k : Nat) :
    GS { o with size := k } n R C cr cc :=
  ⟨h.data, h.rowO, h.colO, h.rowCl, h.colCl, h.nr, h.nc⟩

theorem initCols_spec {m : Nat} {R C : Nat → List Nat} {lastV : List Ptr}
    (hl : ∀ j, j < m → lastV[j]? = some (lastP (.colS j) (C j))) {cr : Nat → Prop} :
    ∀ (js : List Nat) (s : T) (cc : Nat → Prop), GS (obs s) m R C cr cc → Mem (obs s) R → (∀ j ∈ js, j < m) →
    ∃ s', initCols lastV s js = some s' ∧ GS (obs s') m R C cr (fun k => cc k ∨ k ∈ js) ∧ Mem (obs s') R ∧
      (obs s').size = (obs s).size ∧ (obs s').col = (obs s).col
  | [], s, cc, h, hm, _ => ⟨s, rfl, h.weaken (fun _ _ hc => hc) (fun _ _ hc => by simpa using hc), hm, rfl, rfl⟩
  | j :: js, s, cc, h, hm, hjs => by
    have hj : j < m := hjs j (by simp)
    have hnc : j < (obs s).nc := by rw [h.nc]; exact Nat.lt_of_lt_of_le hj h.nr
    obtain ⟨q, hq⟩ := gd_lastP_some (s := s) (C j) hnc
    obtain ⟨s1, h1, e1⟩ := setDown_obs (.colS (j + 1)) hq
    have hnc1 : j < (obs s1).nc := by rw [e1]; exact hnc
    obtain ⟨q', hq'⟩ := gu_colS_some hnc1
    obtain ⟨s2, h2, e2⟩ := setUp_obs (lastP (.colS j) (C j)) hq'
    have g2 := h.closeCol (o' := obs s2) (j := j) (by rw [e2, e1]) (by rw [e2, e1]) (by rw [e2, e1]) (by rw [e2, e1])
      (by rw [e2, e1]) (by rw [e2, e1]) (by rw [e2, e1]) (by rw [e2, e1])
    obtain ⟨s', e3, g3, m3, sz3, col3⟩ := initCols_spec hl js s2 _ g2 (hm.congr (by rw [e2, e1]) (by rw [e2, e1]))
      (fun j' hj' => hjs j' (List.mem_cons_of_mem _ hj'))
    refine ⟨s', ?_, g3.weaken (fun _ _ hc => hc) ?_, m3, ?_, ?_⟩
    · simp only [initCols, initCol, hl j hj, h1, setColSecond_eq, h2]; exact e3
    · intro k _ hc
      rcases hc with hc | hc
      · exact Or.inl (Or.inl hc)
      · rcases List.mem_cons.1 hc with hc | hc
        · exact Or.inl (Or.inr hc)
        · exact Or.inr hc
    · rw [sz3, e2, e1]
    · rw [col3, e2, e1]

theorem hasDup_false : ∀ {l : List Nat}, hasDup l = false → l.Nodup
  | [], _ => List.nodup_nil
  | x :: r, h => by
    simp only [hasDup, Bool.or_eq_false_iff] at h
    refine List.nodup_cons.2 ⟨by simpa using h.1, hasDup_false h.2⟩

end P

/-- `init(index)` on a new relation of capacity `m`, inside the call discipline: the result represents `index` -/
theorem init_refines {m : Nat} {index : List (List Nat)} (hok : ok ⟨[], m, false⟩ (.init index) = true) :
    ∃ s', init (mk m) index = some s' ∧ Inv s' index := by
  simp only [ok, Bool.not_false, Bool.true_and, Bool.and_eq_true, decide_eq_true_eq, List.all_eq_true,
    Bool.not_eq_true'] at hok
  obtain ⟨hlen, hrows⟩ := hok
  have h0 : P.InitO (P.obs (mk m)) index.length 0 (fun _ => []) (fun _ => [])
      ((List.range index.length).map Ptr.colB) := by
    refine ⟨⟨⟨⟨?_, ?_, ?_, ?_, ?_, ?_, ?_⟩, ?_, ?_, ?_, ?_, ?_, ?_⟩, ⟨?_, ?_, ?_, ?_⟩, ?_, ?_, ?_⟩, rfl⟩
    any_goals (intros; simp_all; done)
    · simpa [P.obs, mk] using hlen
    · simp [P.obs, mk]
    · simp [P.obs, mk]
    · simp [P.obs, mk]
  obtain ⟨s1, R, C, lastV, e1, h1, hv, -⟩ := P.initRows_spec index.length index 0 (mk m) _ _ _ h0 (by omega)
    (fun row hr => ⟨fun j hj => (hrows row hr).1 j hj, P.hasDup_false (hrows row hr).2⟩)
  rw [Nat.zero_add] at h1
  have g1 := h1.inner.gs.size_irrel index.length
  obtain ⟨s', e2, g2, m2, sz2, col2⟩ := P.initCols_spec (s := { s1 with size := index.length }) h1.inner.lastV
    (List.range index.length) _ g1 (h1.inner.mem.congr rfl rfl) (fun j hj => List.mem_range.1 hj)
  refine ⟨s', ?_, R, C, ?_, ?_⟩
  · unfold init
    have : index.length ≤ (mk m).cols.length ∧ index.length ≤ (mk m).rows.length := by simpa [mk] using hlen
    rw [if_pos this]
    simp only [List.range_eq_range'] at e1 e2 ⊢
    rw [e1]; exact e2
  · rw [P.Shape_iff_GS]
    exact ⟨g2.weaken (fun k hk _ => hk) (fun k hk _ => Or.inr (List.mem_range.2 hk)), m2, sz2⟩
  · intro i hi
    have := hv i hi
    rw [Nat.zero_add] at this
    rw [col2]; exact this

/-- non-vacuity: a concrete `init` inside the discipline (3 rows, capacity 5) -/
example : ok ⟨[], 5, false⟩ (.init [[0, 2], [1], [2, 0, 1]]) = true := by decide

example : ∃ s', init (mk 5) [[0, 2], [1], [2, 0, 1]] = some s' ∧ Inv s' [[0, 2], [1], [2, 0, 1]] :=
  init_refines (by decide)

namespace P

end P
end Vata.LU.SR
