import Vata.LtsUtil

/-!
# `SharedList` (+ the two caching allocators of the engine) as coded refines lists of segments

Part 1: the invariant `P.InvG` (stated for an arbitrary list of handles), the facts that follow from it
(`key`: reference count `> 1` iff the id occurs behind another handle) and the generic transitions
(`addNode`, `push`, `copy`, `move`, `free`, `drop`).  Part 2 (`LtsUtilSL2.lean`) instantiates them for `World`/`A`.
-/

namespace Vata.LU.SL
namespace P

/-! ### handles: `at' l k` = `l.getD k none` -/

def at' {α : Type} (l : List (Option α)) (k : Nat) : Option α := l.getD k none

theorem at'_nil {α : Type} (k : Nat) : at' ([] : List (Option α)) k = none := by
  simp [at']

@[simp] theorem at'_cons_zero {α : Type} (x : Option α) (l : List (Option α)) : at' (x :: l) 0 = x := by
  simp [at']

@[simp] theorem at'_cons_succ {α : Type} (x : Option α) (l : List (Option α)) (k : Nat) :
    at' (x :: l) (k + 1) = at' l k := by
  simp [at']

theorem at'_lt {α : Type} {l : List (Option α)} {k : Nat} {x : α} (h : at' l k = some x) : k < l.length := by
  induction l generalizing k with
  | nil => simp [at'_nil] at h
  | cons y l ih =>
    cases k with
    | zero => simp
    | succ k => simp at h; have := ih h; simp; omega

theorem at'_set_self {α : Type} {l : List (Option α)} {k : Nat} (h : k < l.length) (x : Option α) :
    at' (l.set k x) k = x := by
  induction l generalizing k with
  | nil => simp at h
  | cons y l ih =>
    cases k with
    | zero => simp
    | succ k => simp at h; simp [ih h]

theorem at'_set_ne {α : Type} (l : List (Option α)) {k j : Nat} (h : j ≠ k) (x : Option α) :
    at' (l.set k x) j = at' l j := by
  induction l generalizing k j with
  | nil => simp
  | cons y l ih =>
    cases k with
    | zero =>
      cases j with
      | zero => exact absurd rfl h
      | succ j => simp
    | succ k =>
      cases j with
      | zero => simp
      | succ j => simp; exact ih (by omega)

theorem at'_mem {α : Type} {l : List (Option α)} {k : Nat} {x : α} (h : at' l k = some x) : some x ∈ l := by
  induction l generalizing k with
  | nil => simp [at'_nil] at h
  | cons y l ih =>
    cases k with
    | zero => simp at h; simp [h]
    | succ k => simp at h; exact List.mem_cons_of_mem _ (ih h)

theorem mem_at' {α : Type} {l : List (Option α)} {x : α} (h : some x ∈ l) : ∃ k, at' l k = some x := by
  induction l with
  | nil => simp at h
  | cons y l ih =>
    rcases List.mem_cons.1 h with e | e
    · exact ⟨0, by simp [e]⟩
    · obtain ⟨k, hk⟩ := ih e
      exact ⟨k + 1, by simpa using hk⟩

/-- counting through `set` -/
theorem count_set_at {l : List (Option Nat)} {k : Nat} (h : k < l.length) (a b : Option Nat) :
    (l.set k a).count b + (if at' l k = b then 1 else 0) = l.count b + (if a = b then 1 else 0) := by
  induction l generalizing k with
  | nil => simp at h
  | cons y l ih =>
    cases k with
    | zero =>
      simp only [List.set_cons_zero, List.count_cons, at'_cons_zero, beq_iff_eq]
      omega
    | succ k =>
      simp at h
      have := ih h
      simp only [List.set_cons_succ, List.count_cons, at'_cons_succ, beq_iff_eq]
      omega

theorem count_two {l : List (Option Nat)} {k : Nat} {a : Nat} (h : at' l k = some a) (h2 : 2 ≤ l.count (some a)) :
    ∃ k', k' ≠ k ∧ at' l k' = some a := by
  induction l generalizing k with
  | nil => simp at h2
  | cons y l ih =>
    cases k with
    | zero =>
      simp at h
      subst h
      simp only [List.count_cons, beq_self_eq_true, if_true] at h2
      have : 0 < l.count (some a) := by omega
      obtain ⟨j, hj⟩ := mem_at' (List.count_pos_iff.1 this)
      exact ⟨j + 1, by omega, by simpa using hj⟩
    | succ k =>
      simp at h
      by_cases hy : y = some a
      · exact ⟨0, by omega, by simp [hy]⟩
      · have : 2 ≤ l.count (some a) := by
          simp only [List.count_cons, beq_iff_eq, hy, if_false] at h2
          omega
        obtain ⟨j, hj1, hj2⟩ := ih h this
        exact ⟨j + 1, by omega, by simpa using hj2⟩

theorem two_count {l : List (Option Nat)} {k k' : Nat} {a : Nat} (h : at' l k = some a) (h' : at' l k' = some a)
    (hne : k' ≠ k) : 2 ≤ l.count (some a) := by
  induction l generalizing k k' with
  | nil => simp [at'_nil] at h
  | cons y l ih =>
    cases k with
    | zero =>
      cases k' with
      | zero => exact absurd rfl hne
      | succ k' =>
        simp at h h'
        subst h
        have : 0 < l.count (some a) := List.count_pos_iff.2 (at'_mem h')
        simp only [List.count_cons, beq_self_eq_true, if_true]
        omega
    | succ k =>
      cases k' with
      | zero =>
        simp at h h'
        subst h'
        have : 0 < l.count (some a) := List.count_pos_iff.2 (at'_mem h)
        simp only [List.count_cons, beq_self_eq_true, if_true]
        omega
      | succ k' =>
        simp at h h'
        have := ih h h' (by omega)
        simp only [List.count_cons]
        omega

theorem one_count {l : List (Option Nat)} {k : Nat} {a : Nat} (h : at' l k = some a) : 1 ≤ l.count (some a) :=
  List.count_pos_iff.2 (at'_mem h)

theorem nodup_map_of_inj {l : List Nat} {f : Nat → Nat} (hnd : l.Nodup)
    (hinj : ∀ i ∈ l, ∀ j ∈ l, f i = f j → i = j) : (l.map f).Nodup := by
  induction l with
  | nil => simp
  | cons a l ih =>
    rw [List.nodup_cons] at hnd
    rw [List.map_cons, List.nodup_cons]
    refine ⟨?_, ih hnd.2 (fun i hi j hj => hinj i (by simp [hi]) j (by simp [hj]))⟩
    intro hm
    obtain ⟨b, hb, hab⟩ := List.mem_map.1 hm
    have : b = a := hinj b (by simp [hb]) a (by simp) hab
    subst this
    exact hnd.1 hb

/-! ### the representation relation -/

/-- ids of a value list -/
def ids (L : RemList) : List Nat := L.map (·.1)

@[simp] theorem ids_nil : ids [] = [] := rfl
@[simp] theorem ids_cons (sg : Seg) (L : RemList) : ids (sg :: L) = sg.1 :: ids L := rfl
@[simp] theorem ids_append (L L' : RemList) : ids (L ++ L') = ids L ++ ids L' := by simp [ids]

theorem mem_ids_split {i : Nat} {L : RemList} (h : i ∈ ids L) : ∃ L1 s L2, L = L1 ++ (i, s) :: L2 := by
  unfold ids at h
  obtain ⟨sg, hsg, rfl⟩ := List.mem_map.1 h
  obtain ⟨L1, L2, rfl⟩ := List.append_of_mem hsg
  exact ⟨L1, sg.2, L2, rfl⟩

/-- the chain behind handle `h` carries the value list `L` (`f` : id ↦ address) -/
def Rep (w : W) (f : Nat → Nat) : Option Nat → RemList → Prop
  | none, [] => True
  | some n, sg :: rest =>
    n = f sg.1 ∧ (∃ v, (w.nodes.get n).sub = some v ∧ w.vecs.get v = sg.2) ∧ Rep w f (w.nodes.get n).next rest
  | none, _ :: _ => False
  | some _, [] => False

@[simp] theorem Rep_none_nil (w : W) (f : Nat → Nat) : Rep w f none [] = True := by simp [Rep]
@[simp] theorem Rep_none_cons (w : W) (f : Nat → Nat) (sg : Seg) (r : RemList) : Rep w f none (sg :: r) = False := by
  simp [Rep]
@[simp] theorem Rep_some_nil (w : W) (f : Nat → Nat) (n : Nat) : Rep w f (some n) [] = False := by simp [Rep]
theorem Rep_some_cons (w : W) (f : Nat → Nat) (n : Nat) (sg : Seg) (r : RemList) :
    Rep w f (some n) (sg :: r) =
      (n = f sg.1 ∧ (∃ v, (w.nodes.get n).sub = some v ∧ w.vecs.get v = sg.2) ∧ Rep w f (w.nodes.get n).next r) := by
  simp [Rep]

theorem Rep_none {w : W} {f : Nat → Nat} {L : RemList} (h : Rep w f none L) : L = [] := by
  cases L with
  | nil => rfl
  | cons sg r => simp at h

theorem Rep_none_iff {w : W} {f : Nat → Nat} {h : Option Nat} : Rep w f h [] ↔ h = none := by
  cases h <;> simp

theorem Rep_some {w : W} {f : Nat → Nat} {n : Nat} {L : RemList} (h : Rep w f (some n) L) :
    ∃ i s r, L = (i, s) :: r ∧ n = f i ∧ (∃ v, (w.nodes.get n).sub = some v ∧ w.vecs.get v = s) ∧
      Rep w f (w.nodes.get n).next r := by
  cases L with
  | nil => simp at h
  | cons sg r =>
    rw [Rep_some_cons] at h
    exact ⟨sg.1, sg.2, r, rfl, h⟩

theorem Rep_suffix {w : W} {f : Nat → Nat} {h : Option Nat} {L1 : RemList} {sg : Seg} {L2 : RemList}
    (hr : Rep w f h (L1 ++ sg :: L2)) : Rep w f (some (f sg.1)) (sg :: L2) := by
  induction L1 generalizing h with
  | nil =>
    cases h with
    | none => simp at hr
    | some n =>
      simp only [List.nil_append] at hr
      have := hr
      rw [Rep_some_cons] at this
      rw [← this.1]; exact hr
  | cons x L1 ih =>
    cases h with
    | none => simp at hr
    | some n =>
      simp only [List.cons_append] at hr
      rw [Rep_some_cons] at hr
      exact ih hr.2.2

theorem Rep_det {w : W} {f : Nat → Nat} {h : Option Nat} {L L' : RemList}
    (hinj : ∀ i ∈ ids L, ∀ j ∈ ids L', f i = f j → i = j)
    (hr : Rep w f h L) (hr' : Rep w f h L') : L = L' := by
  induction L generalizing h L' with
  | nil =>
    cases h with
    | none => exact (Rep_none hr').symm
    | some n => simp at hr
  | cons sg r ih =>
    cases h with
    | none => simp at hr
    | some n =>
      obtain ⟨i, s, r', rfl, hn, ⟨v, hv, hs⟩, hrest⟩ := Rep_some hr'
      rw [Rep_some_cons] at hr
      obtain ⟨hn0, ⟨v0, hv0, hs0⟩, hrest0⟩ := hr
      have hi : sg.1 = i := hinj sg.1 (by simp) i (by simp) (by rw [← hn0, ← hn])
      have hvv : v0 = v := by rw [hv0] at hv; exact Option.some.inj hv
      have hss : sg.2 = s := by rw [← hs0, ← hs, hvv]
      have : r = r' := ih (fun a ha b hb => hinj a (by simp [ha]) b (by simp [hb])) hrest0 hrest
      subst this
      cases sg; simp at hi hss; simp [hi, hss]

/-- frame rule -/
theorem Rep_congr {w w' : W} {f f' : Nat → Nat} {h : Option Nat} {L : RemList}
    (hag : ∀ i ∈ ids L, f' i = f i ∧ (w'.nodes.get (f i)).next = (w.nodes.get (f i)).next ∧
      (w'.nodes.get (f i)).sub = (w.nodes.get (f i)).sub ∧
      ∀ v, (w.nodes.get (f i)).sub = some v → w'.vecs.get v = w.vecs.get v)
    (hr : Rep w f h L) : Rep w' f' h L := by
  induction L generalizing h with
  | nil =>
    cases h with
    | none => simp
    | some n => simp at hr
  | cons sg r ih =>
    cases h with
    | none => simp at hr
    | some n =>
      rw [Rep_some_cons] at hr ⊢
      obtain ⟨hn, ⟨v, hv, hs⟩, hrest⟩ := hr
      obtain ⟨h1, h2, h3, h4⟩ := hag sg.1 (by simp)
      subst hn
      refine ⟨h1.symm, ⟨v, by rw [h3]; exact hv, by rw [h4 v hv]; exact hs⟩, ?_⟩
      rw [h2]
      exact ih (fun i hi => hag i (by simp [hi])) hrest

theorem Rep_length {w : W} {f f' : Nat → Nat} {h : Option Nat} {L L' : RemList}
    (hr : Rep w f h L) (hr' : Rep w f' h L') : L.length = L'.length := by
  induction L generalizing h L' with
  | nil =>
    cases h with
    | none => rw [Rep_none hr']
    | some n => simp at hr
  | cons sg r ih =>
    cases h with
    | none => simp at hr
    | some n =>
      obtain ⟨i, s, r', rfl, _, _, hrest⟩ := Rep_some hr'
      rw [Rep_some_cons] at hr
      simp [ih hr.2.2 hrest]

/-- handle / optional value list -/
def RepH (w : W) (f : Nat → Nat) (h : Option Nat) : Option RemList → Prop
  | none => h = none
  | some L => L ≠ [] ∧ Rep w f h L

theorem RepH_none_left {w : W} {f : Nat → Nat} {o : Option RemList} (h : RepH w f none o) : o = none := by
  cases o with
  | none => rfl
  | some L => exact absurd (Rep_none h.2) h.1

theorem RepH_some_left {w : W} {f : Nat → Nat} {n : Nat} {o : Option RemList} (h : RepH w f (some n) o) :
    ∃ i s r, o = some ((i, s) :: r) ∧ n = f i ∧ (∃ v, (w.nodes.get n).sub = some v ∧ w.vecs.get v = s) ∧
      Rep w f (w.nodes.get n).next r := by
  cases o with
  | none => simp [RepH] at h
  | some L =>
    obtain ⟨i, s, r, rfl, h2⟩ := Rep_some h.2
    exact ⟨i, s, r, rfl, h2⟩

/-! ### the invariant -/

structure FreeOK (w : W) : Prop where
  nnd : w.nfree.Nodup
  nlt : ∀ n ∈ w.nfree, n < w.nnext
  nrc : ∀ n ∈ w.nfree, (w.nodes.get n).rc = 1
  vnd : w.vfree.Nodup
  vlt : ∀ v ∈ w.vfree, v < w.vnext

/-- the predecessor predicate used for counting -/
def isPred (w : W) (f : Nat → Nat) (i : Nat) : Nat → Bool :=
  fun j => (w.nodes.get (f j)).next == some (f i)

structure InvG (w : W) (hc : List (Option Nat)) (ha : List (Option RemList)) (nid : Nat)
    (live : List Nat) (f : Nat → Nat) : Prop where
  len : hc.length = ha.length
  rep : ∀ k, RepH w f (at' hc k) (at' ha k)
  nd : live.Nodup
  lt : ∀ i ∈ live, i < nid
  inj : ∀ i ∈ live, ∀ j ∈ live, f i = f j → i = j
  sub : ∀ k L, at' ha k = some L → ∀ i ∈ ids L, i ∈ live
  ndl : ∀ k L, at' ha k = some L → (ids L).Nodup
  reach : ∀ i ∈ live, ∃ k L, at' ha k = some L ∧ i ∈ ids L
  rc : ∀ i ∈ live, (w.nodes.get (f i)).rc = hc.count (some (f i)) + live.countP (isPred w f i)
  node : ∀ i ∈ live, f i < w.nnext ∧ f i ∉ w.nfree ∧
    ∃ v, (w.nodes.get (f i)).sub = some v ∧ v < w.vnext ∧ v ∉ w.vfree ∧ w.vecs.get v ≠ []
  subinj : ∀ i ∈ live, ∀ j ∈ live, (w.nodes.get (f i)).sub = (w.nodes.get (f j)).sub → i = j
  free : FreeOK w

/-! ### facts that follow from the invariant -/

section facts
variable {w : W} {hc : List (Option Nat)} {ha : List (Option RemList)} {nid : Nat} {live : List Nat} {f : Nat → Nat}

theorem InvG.head_none (I : InvG w hc ha nid live f) {k : Nat} (h : at' hc k = none) : at' ha k = none := by
  have := I.rep k
  rw [h] at this
  exact RepH_none_left this

theorem InvG.head (I : InvG w hc ha nid live f) {k n : Nat} (h : at' hc k = some n) :
    ∃ i s r, at' ha k = some ((i, s) :: r) ∧ n = f i ∧ i ∈ live ∧
      (∃ v, (w.nodes.get n).sub = some v ∧ w.vecs.get v = s) ∧ Rep w f (w.nodes.get n).next r := by
  have := I.rep k
  rw [h] at this
  obtain ⟨i, s, r, h1, h2, h3, h4⟩ := RepH_some_left this
  exact ⟨i, s, r, h1, h2, I.sub k _ h1 i (by simp), h3, h4⟩

theorem InvG.head_of_val (I : InvG w hc ha nid live f) {k i : Nat} {s : List Nat} {r : RemList}
    (h : at' ha k = some ((i, s) :: r)) :
    at' hc k = some (f i) ∧ (∃ v, (w.nodes.get (f i)).sub = some v ∧ w.vecs.get v = s) ∧
      Rep w f (w.nodes.get (f i)).next r := by
  have := I.rep k
  rw [h] at this
  have h2 := this.2
  cases hh : at' hc k with
  | none => rw [hh] at h2; simp at h2
  | some n =>
    rw [hh, Rep_some_cons] at h2
    obtain ⟨h3, h4, h5⟩ := h2
    simp only at h3
    subst h3
    exact ⟨rfl, h4, h5⟩

theorem InvG.occ (I : InvG w hc ha nid live f) {k i : Nat} {L1 L2 : RemList} {s : List Nat}
    (h : at' ha k = some (L1 ++ (i, s) :: L2)) : i ∈ live ∧ Rep w f (some (f i)) ((i, s) :: L2) := by
  refine ⟨I.sub k _ h i (by simp), ?_⟩
  have := I.rep k
  rw [h] at this
  exact Rep_suffix this.2

theorem InvG.suffix_eq (I : InvG w hc ha nid live f) {k k' i : Nat} {L1 L2 L1' L2' : RemList} {s s' : List Nat}
    (h : at' ha k = some (L1 ++ (i, s) :: L2)) (h' : at' ha k' = some (L1' ++ (i, s') :: L2')) :
    s = s' ∧ L2 = L2' := by
  have h1 := (I.occ h).2
  have h2 := (I.occ h').2
  have : (i, s) :: L2 = (i, s') :: L2' := by
    refine Rep_det ?_ h1 h2
    intro a ha' b hb hab
    exact I.inj a (I.sub k _ h a (by simp at ha' ⊢; rcases ha' with e | e <;> simp [e]))
      b (I.sub k' _ h' b (by simp at hb ⊢; rcases hb with e | e <;> simp [e])) hab
  simp at this
  exact this

theorem InvG.pred_of_val (I : InvG w hc ha nid live f) {k i j : Nat} {L1 L2 : RemList} {sj si : List Nat}
    (h : at' ha k = some (L1 ++ (j, sj) :: (i, si) :: L2)) : isPred w f i j = true := by
  have := (I.occ h).2
  rw [Rep_some_cons] at this
  have h3 := this.2.2
  cases hn : (w.nodes.get (f j)).next with
  | none => rw [hn] at h3; simp at h3
  | some m =>
    rw [hn, Rep_some_cons] at h3
    simp [isPred, hn, h3.1]

theorem InvG.next_val (I : InvG w hc ha nid live f) {j m : Nat} (hj : j ∈ live)
    (h : (w.nodes.get (f j)).next = some m) :
    ∃ k L1 sj i si L2, at' ha k = some (L1 ++ (j, sj) :: (i, si) :: L2) ∧ m = f i ∧ i ∈ live := by
  obtain ⟨k, L, hk, hjL⟩ := I.reach j hj
  obtain ⟨L1, sj, L2', rfl⟩ := mem_ids_split hjL
  have := (I.occ hk).2
  rw [Rep_some_cons] at this
  have h3 := this.2.2
  rw [h] at h3
  obtain ⟨i, si, L2, rfl, hm, _, _⟩ := Rep_some h3
  refine ⟨k, L1, sj, i, si, L2, hk, hm, I.sub k _ hk i (by simp)⟩

theorem InvG.next_none_val (I : InvG w hc ha nid live f) {k j : Nat} {L1 L2 : RemList} {sj : List Nat}
    (hk : at' ha k = some (L1 ++ (j, sj) :: L2))
    (h : (w.nodes.get (f j)).next = none) : L2 = [] := by
  have := (I.occ hk).2
  rw [Rep_some_cons] at this
  have h3 := this.2.2
  rw [h] at h3
  exact Rep_none h3

theorem InvG.pred_iff (I : InvG w hc ha nid live f) {i j : Nat} (hi : i ∈ live) (hj : j ∈ live) :
    isPred w f i j = true ↔ ∃ k L1 sj si L2, at' ha k = some (L1 ++ (j, sj) :: (i, si) :: L2) := by
  constructor
  · intro h
    simp only [isPred, beq_iff_eq] at h
    obtain ⟨k, L1, sj, i', si, L2, hk, hm, hi'⟩ := I.next_val hj h
    have : i = i' := I.inj i hi i' hi' hm
    subst this
    exact ⟨k, L1, sj, si, L2, hk⟩
  · rintro ⟨k, L1, sj, si, L2, hk⟩
    exact I.pred_of_val hk

/-- the head of a list occurs nowhere else in the same list -/
theorem InvG.head_not_later (I : InvG w hc ha nid live f) {k i j : Nat} {s sj si : List Nat} {r L1 L2 : RemList}
    (h : at' ha k = some ((i, s) :: r)) (h' : at' ha k = some (L1 ++ (j, sj) :: (i, si) :: L2)) : False := by
  have hnd := I.ndl k _ h
  rw [h] at h'
  have e := Option.some.inj h'
  cases L1 with
  | nil =>
    simp at e
    obtain ⟨⟨rfl, _⟩, rfl⟩ := e
    simp at hnd
  | cons x L1 =>
    simp at e
    obtain ⟨_, rfl⟩ := e
    simp at hnd

/-- KEY: the count of a head is `> 1` iff its id occurs behind another handle -/
theorem InvG.key (I : InvG w hc ha nid live f) {k i : Nat} (hk : at' hc k = some (f i)) (hi : i ∈ live) :
    1 < (w.nodes.get (f i)).rc ↔ ∃ k' L, k' ≠ k ∧ at' ha k' = some L ∧ i ∈ ids L := by
  rw [I.rc i hi]
  have h1 := one_count hk
  constructor
  · intro h
    by_cases h2 : 2 ≤ hc.count (some (f i))
    · obtain ⟨k', hne, hk'⟩ := count_two hk h2
      obtain ⟨i', s, r, h3, h4, h5, _⟩ := I.head hk'
      have : i = i' := I.inj i hi i' h5 h4
      subst this
      exact ⟨k', _, hne, h3, by simp⟩
    · have : 0 < live.countP (isPred w f i) := by omega
      obtain ⟨j, hj, hp⟩ := List.countP_pos_iff.1 this
      obtain ⟨k', L1, sj, si, L2, hk'⟩ := (I.pred_iff hi hj).1 hp
      refine ⟨k', _, ?_, hk', by simp⟩
      intro e
      subst e
      obtain ⟨i', s, r, h3, h4, h5, _⟩ := I.head hk
      have : i = i' := I.inj i hi i' h5 h4
      subst this
      exact I.head_not_later h3 hk'
  · rintro ⟨k', L, hne, hk', hiL⟩
    obtain ⟨L1, s, L2, rfl⟩ := mem_ids_split hiL
    rcases List.eq_nil_or_concat L1 with e | ⟨L0, x, e⟩
    · subst e
      have := (I.head_of_val (by simpa using hk')).1
      have := two_count hk this hne
      omega
    · subst e
      have hk2 : at' ha k' = some (L0 ++ (x.1, x.2) :: (i, s) :: L2) := by
        rw [hk']; simp
      have hx : x.1 ∈ live := (I.occ hk2).1
      have := I.pred_of_val hk2
      have : 0 < live.countP (isPred w f i) := List.countP_pos_iff.2 ⟨x.1, hx, this⟩
      omega

/-- all nodes behind a head that has a second referrer are reachable from another handle -/
theorem InvG.shared_sub (I : InvG w hc ha nid live f) {k k' i : Nat} {s : List Nat} {r L : RemList}
    (h : at' ha k = some ((i, s) :: r)) (h' : at' ha k' = some L) (hi : i ∈ ids L) :
    ∀ j ∈ ids ((i, s) :: r), j ∈ ids L := by
  obtain ⟨L1, s', L2, rfl⟩ := mem_ids_split hi
  have h0 : at' ha k = some ([] ++ (i, s) :: r) := by simpa using h
  obtain ⟨rfl, rfl⟩ := I.suffix_eq h0 h'
  intro j hj
  simp at hj ⊢
  rcases hj with e | e
  · simp [e]
  · exact Or.inr (Or.inr e)

theorem InvG.len_le (I : InvG w hc ha nid live f) {k : Nat} {L : RemList} (h : at' ha k = some L) :
    L.length ≤ w.nnext := by
  have h1 : (ids L).length ≤ live.length := List.Nodup.length_le_of_subset (I.ndl k L h) (fun i hi => I.sub k L h i hi)
  have h2 : (live.map f).length ≤ (List.range w.nnext).length := by
    apply List.Nodup.length_le_of_subset
    · exact nodup_map_of_inj I.nd I.inj
    · intro x hx
      obtain ⟨i, hi, rfl⟩ := List.mem_map.1 hx
      exact List.mem_range.2 (I.node i hi).1
  simp [ids] at h1 h2
  omega

end facts

/-! ### generic transition 1: a new node in front of handle `k` -/

/-- `w'` is `w` plus one node `n` (fresh or recycled) with vector `v` (fresh or recycled) -/
structure AddNode (w w' : W) (n v : Nat) (nx : Option Nat) (l : List Nat) : Prop where
  nfresh : n ∈ w.nfree ∨ w.nnext ≤ n
  vfresh : v ∈ w.vfree ∨ w.vnext ≤ v
  nlt : n < w'.nnext
  vlt : v < w'.vnext
  nnf : n ∉ w'.nfree
  vnf : v ∉ w'.vfree
  node : w'.nodes.get n = ⟨nx, some v, 1⟩
  nodes : ∀ m, m ≠ n → w'.nodes.get m = w.nodes.get m
  vec : w'.vecs.get v = l
  vecs : ∀ u, u ≠ v → w'.vecs.get u = w.vecs.get u
  nmono : w.nnext ≤ w'.nnext
  vmono : w.vnext ≤ w'.vnext
  nsub : ∀ m ∈ w'.nfree, m ∈ w.nfree
  vsub : ∀ u ∈ w'.vfree, u ∈ w.vfree
  free : FreeOK w'

section addNode
variable {w w' : W} {hc : List (Option Nat)} {ha : List (Option RemList)} {nid : Nat} {live : List Nat} {f : Nat → Nat}
variable {n v : Nat} {nx : Option Nat} {l : List Nat}

/-- the new id map -/
def upd (f : Nat → Nat) (nid n : Nat) : Nat → Nat := fun i => if i = nid then n else f i

theorem upd_self (f : Nat → Nat) (nid n : Nat) : upd f nid n nid = n := by simp [upd]

theorem upd_live (I : InvG w hc ha nid live f) (n : Nat) {i : Nat} (hi : i ∈ live) : upd f nid n i = f i := by
  have := I.lt i hi
  simp [upd]; omega

theorem AddNode.ne (A : AddNode w w' n v nx l) (I : InvG w hc ha nid live f) {i : Nat} (hi : i ∈ live) : f i ≠ n := by
  obtain ⟨h1, h2, _⟩ := I.node i hi
  intro e
  rcases A.nfresh with h | h
  · exact h2 (e ▸ h)
  · omega

theorem AddNode.vne (A : AddNode w w' n v nx l) (I : InvG w hc ha nid live f) {i u : Nat} (hi : i ∈ live)
    (hu : (w.nodes.get (f i)).sub = some u) : u ≠ v := by
  obtain ⟨_, _, u', h1, h2, h3, _⟩ := I.node i hi
  rw [hu] at h1
  have := Option.some.inj h1
  subst this
  intro e
  rcases A.vfresh with h | h
  · exact h3 (e ▸ h)
  · omega

theorem AddNode.rep (A : AddNode w w' n v nx l) (I : InvG w hc ha nid live f) {h : Option Nat} {L : RemList}
    (hL : ∀ i ∈ ids L, i ∈ live) (hr : Rep w f h L) : Rep w' (upd f nid n) h L := by
  refine Rep_congr ?_ hr
  intro i hi
  have hi' := hL i hi
  have hn := A.nodes _ (A.ne I hi')
  refine ⟨upd_live I n hi', by rw [hn], by rw [hn], ?_⟩
  intro u hu
  exact A.vecs u (A.vne I hi' hu)

theorem AddNode.repH (A : AddNode w w' n v nx l) (I : InvG w hc ha nid live f) {h : Option Nat} {o : Option RemList}
    (hL : ∀ L, o = some L → ∀ i ∈ ids L, i ∈ live) (hr : RepH w f h o) : RepH w' (upd f nid n) h o := by
  cases o with
  | none => exact hr
  | some L => exact ⟨hr.1, A.rep I (hL L rfl) hr.2⟩

theorem AddNode.nx_ne (A : AddNode w w' n v nx l) (I : InvG w hc ha nid live f) {k : Nat} (hk : at' hc k = nx) :
    nx ≠ some n := by
  intro e
  rw [e] at hk
  obtain ⟨i, _, _, _, h2, h3, _⟩ := I.head hk
  exact A.ne I h3 h2.symm

theorem AddNode.isPred_live (A : AddNode w w' n v nx l) (I : InvG w hc ha nid live f) {i j : Nat}
    (hi : i ∈ live) (hj : j ∈ live) : isPred w' (upd f nid n) i j = isPred w f i j := by
  simp only [isPred, upd_live I n hi, upd_live I n hj, A.nodes _ (A.ne I hj)]

theorem AddNode.isPred_new (A : AddNode w w' n v nx l) (I : InvG w hc ha nid live f) {i : Nat}
    (hi : i ∈ live) : isPred w' (upd f nid n) i nid = (nx == some (f i)) := by
  simp only [isPred, upd_live I n hi, upd_self, A.node]

theorem AddNode.isPred_to_new (A : AddNode w w' n v nx l) (I : InvG w hc ha nid live f) {k : Nat}
    (hk : at' hc k = nx) : ∀ j ∈ nid :: live, ¬ isPred w' (upd f nid n) nid j = true := by
  intro j hj hp
  simp only [isPred, upd_self, beq_iff_eq] at hp
  rcases List.mem_cons.1 hj with e | e
  · subst e
    rw [upd_self, A.node] at hp
    exact A.nx_ne I hk hp
  · rw [upd_live I n e, A.nodes _ (A.ne I e)] at hp
    obtain ⟨_, _, _, i, _, _, _, h2, h3⟩ := I.next_val e hp
    exact A.ne I h3 h2.symm

theorem AddNode.count_new (A : AddNode w w' n v nx l) (I : InvG w hc ha nid live f) {k : Nat}
    (hlt : k < hc.length) (hk : at' hc k = nx) : (hc.set k (some n)).count (some n) = 1 := by
  have h0 : hc.count (some n) = 0 := by
    rw [List.count_eq_zero]
    intro hm
    obtain ⟨k', hk'⟩ := mem_at' hm
    obtain ⟨i, _, _, _, h2, h3, _⟩ := I.head hk'
    exact A.ne I h3 h2.symm
  have := count_set_at hlt (some n) (some n)
  have h1 : ¬ at' hc k = some n := by rw [hk]; exact A.nx_ne I hk
  simp only [h1, if_false, if_true] at this
  omega

theorem AddNode.rc_new (A : AddNode w w' n v nx l) (I : InvG w hc ha nid live f) {k : Nat}
    (hlt : k < hc.length) (hk : at' hc k = nx) :
    (w'.nodes.get (upd f nid n nid)).rc =
      (hc.set k (some n)).count (some (upd f nid n nid)) + (nid :: live).countP (isPred w' (upd f nid n) nid) := by
  have h0 : (nid :: live).countP (isPred w' (upd f nid n) nid) = 0 :=
    List.countP_eq_zero.2 (A.isPred_to_new I hk)
  rw [h0, upd_self, A.count_new I hlt hk, A.node]

theorem AddNode.rc_live (A : AddNode w w' n v nx l) (I : InvG w hc ha nid live f) {k : Nat}
    (hlt : k < hc.length) (hk : at' hc k = nx) {i : Nat} (hi : i ∈ live) :
    (w'.nodes.get (upd f nid n i)).rc =
      (hc.set k (some n)).count (some (upd f nid n i)) + (nid :: live).countP (isPred w' (upd f nid n) i) := by
  rw [upd_live I n hi, A.nodes _ (A.ne I hi), I.rc i hi, List.countP_cons, A.isPred_new I hi]
  have h1 : live.countP (isPred w' (upd f nid n) i) = live.countP (isPred w f i) :=
    List.countP_congr (fun j hj => by rw [A.isPred_live I hi hj])
  rw [h1]
  have := count_set_at hlt (some n) (some (f i))
  rw [hk] at this
  have h2 : ¬ (some n = some (f i)) := fun e => A.ne I hi (Option.some.inj e).symm
  simp only [h2, if_false] at this
  simp only [beq_iff_eq]
  omega

theorem AddNode.inv (A : AddNode w w' n v nx l) (I : InvG w hc ha nid live f) {k : Nat}
    (hlt : k < hc.length) (hk : at' hc k = nx) (hl : l ≠ []) :
    InvG w' (hc.set k (some n)) (ha.set k (some ((nid, l) :: (at' ha k).getD []))) (nid + 1) (nid :: live)
      (upd f nid n) := by
  have hlt' : k < ha.length := I.len ▸ hlt
  have hold : ∀ i ∈ ids ((at' ha k).getD []), i ∈ live := by
    intro i hi
    cases ho : at' ha k with
    | none => rw [ho] at hi; simp at hi
    | some L => rw [ho] at hi; exact I.sub k L ho i hi
  have hnid : nid ∉ live := fun h => Nat.lt_irrefl _ (I.lt nid h)
  refine
    { len := by simp [I.len]
      rep := ?_
      nd := List.nodup_cons.2 ⟨hnid, I.nd⟩
      lt := ?_
      inj := ?_
      sub := ?_
      ndl := ?_
      reach := ?_
      rc := ?_
      node := ?_
      subinj := ?_
      free := A.free }
  · intro k'
    by_cases e : k' = k
    · subst e
      rw [at'_set_self hlt, at'_set_self hlt']
      refine ⟨by simp, ?_⟩
      rw [Rep_some_cons, A.node]
      refine ⟨(upd_self _ _ _).symm, ⟨v, rfl, A.vec⟩, ?_⟩
      have hr := I.rep k'
      rw [hk] at hr
      cases ho : at' ha k' with
      | none => rw [ho] at hr; simp [RepH] at hr; simp [hr]
      | some L =>
        rw [ho] at hr
        exact A.rep I (I.sub k' L ho) hr.2
    · rw [at'_set_ne _ e, at'_set_ne _ e]
      exact A.repH I (fun L hL => I.sub k' L hL) (I.rep k')
  · intro i hi
    rcases List.mem_cons.1 hi with e | e
    · omega
    · have := I.lt i e; omega
  · intro i hi j hj hij
    rcases List.mem_cons.1 hi with e | e <;> rcases List.mem_cons.1 hj with e' | e'
    · rw [e, e']
    · subst e
      rw [upd_self, upd_live I n e'] at hij
      exact absurd hij.symm (A.ne I e')
    · subst e'
      rw [upd_self, upd_live I n e] at hij
      exact absurd hij (A.ne I e)
    · rw [upd_live I n e, upd_live I n e'] at hij
      exact I.inj i e j e' hij
  · intro k' L hL i hi
    by_cases e : k' = k
    · subst e
      rw [at'_set_self hlt'] at hL
      have := Option.some.inj hL
      subst this
      simp only [ids_cons, List.mem_cons] at hi
      rcases hi with e | e
      · simp [e]
      · exact List.mem_cons_of_mem _ (hold i e)
    · rw [at'_set_ne _ e] at hL
      exact List.mem_cons_of_mem _ (I.sub k' L hL i hi)
  · intro k' L hL
    by_cases e : k' = k
    · subst e
      rw [at'_set_self hlt'] at hL
      have := Option.some.inj hL
      subst this
      rw [ids_cons, List.nodup_cons]
      refine ⟨fun h => hnid (hold _ h), ?_⟩
      cases ho : at' ha k' with
      | none => simp
      | some L => exact I.ndl k' L ho
    · rw [at'_set_ne _ e] at hL
      exact I.ndl k' L hL
  · intro i hi
    rcases List.mem_cons.1 hi with e | e
    · exact ⟨k, _, at'_set_self hlt' _, by simp [e]⟩
    · obtain ⟨k', L, h1, h2⟩ := I.reach i e
      by_cases e' : k' = k
      · subst e'
        refine ⟨k', _, at'_set_self hlt' _, ?_⟩
        rw [h1]
        simp [h2]
      · exact ⟨k', L, by rw [at'_set_ne _ e']; exact h1, h2⟩
  · intro i hi
    rcases List.mem_cons.1 hi with e | e
    · rw [e]; exact A.rc_new I hlt hk
    · exact A.rc_live I hlt hk e
  · intro i hi
    rcases List.mem_cons.1 hi with e | e
    · subst e
      rw [upd_self, A.node]
      exact ⟨A.nlt, A.nnf, v, rfl, A.vlt, A.vnf, by rw [A.vec]; exact hl⟩
    · rw [upd_live I n e, A.nodes _ (A.ne I e)]
      obtain ⟨h1, h2, u, h3, h4, h5, h6⟩ := I.node i e
      refine ⟨Nat.lt_of_lt_of_le h1 A.nmono, fun h => h2 (A.nsub _ h), u, h3, Nat.lt_of_lt_of_le h4 A.vmono,
        fun h => h5 (A.vsub _ h), ?_⟩
      rw [A.vecs u (A.vne I e h3)]
      exact h6
  · intro i hi j hj hij
    rcases List.mem_cons.1 hi with e | e <;> rcases List.mem_cons.1 hj with e' | e'
    · rw [e, e']
    · subst e
      rw [upd_self, upd_live I n e', A.node, A.nodes _ (A.ne I e')] at hij
      exact absurd rfl (A.vne I e' hij.symm)
    · subst e'
      rw [upd_self, upd_live I n e, A.node, A.nodes _ (A.ne I e)] at hij
      exact absurd rfl (A.vne I e hij)
    · rw [upd_live I n e, upd_live I n e', A.nodes _ (A.ne I e), A.nodes _ (A.ne I e')] at hij
      exact I.subinj i e j e' hij

end addNode

/-! ### the allocators produce an `AddNode` -/

/-- result of `allocNode` (before `setNext` / `pushBack`) -/
structure Alloc (w w' : W) (n v : Nat) : Prop where
  nfresh : n ∈ w.nfree ∨ w.nnext ≤ n
  vfresh : v ∈ w.vfree ∨ w.vnext ≤ v
  nlt : n < w'.nnext
  vlt : v < w'.vnext
  nnf : n ∉ w'.nfree
  vnf : v ∉ w'.vfree
  nsub' : (w'.nodes.get n).sub = some v
  nrc : (w'.nodes.get n).rc = 1
  nodes : ∀ m, m ≠ n → w'.nodes.get m = w.nodes.get m
  vec : w'.vecs.get v = []
  vecs : ∀ u, u ≠ v → w'.vecs.get u = w.vecs.get u
  nmono : w.nnext ≤ w'.nnext
  vmono : w.vnext ≤ w'.vnext
  nsub : ∀ m ∈ w'.nfree, m ∈ w.nfree
  vsub : ∀ u ∈ w'.vfree, u ∈ w.vfree
  free : FreeOK w'

theorem allocNode_alloc {w : W} (F : FreeOK w) : ∃ v, Alloc w (allocNode w).2 (allocNode w).1 v := by
  obtain ⟨nodes, vecs, nfree, vfree, nnext, vnext⟩ := w
  obtain ⟨h1, h2, h3, h4, h5⟩ := F
  simp only at h1 h2 h3 h4 h5
  cases nfree with
  | nil =>
    cases vfree with
    | nil =>
      refine ⟨vnext, ?_⟩
      constructor <;> simp [allocNode, allocVec, Heap.get_set]
      · intro m hm; simp [hm]
      · intro u hu; simp [hu]
      · constructor <;> simp
    | cons v vf =>
      rw [List.nodup_cons] at h4
      refine ⟨v, ?_⟩
      constructor <;> simp [allocNode, allocVec, Heap.get_set]
      · exact h5 v (by simp)
      · exact h4.1
      · intro m hm; simp [hm]
      · intro u hu; simp [hu]
      · intro u hu; exact Or.inr hu
      · constructor <;> simp
        · exact h4.2
        · intro u hu; exact h5 u (by simp [hu])
  | cons n nf =>
    rw [List.nodup_cons] at h1
    have hn1 := h3 n (by simp)
    cases vfree with
    | nil =>
      refine ⟨vnext, ?_⟩
      constructor <;> simp [allocNode, allocVec, Heap.get_set]
      · exact h2 n (by simp)
      · exact h1.1
      · exact hn1
      · intro m hm; simp [hm]
      · intro u hu; simp [hu]
      · intro m hm; exact Or.inr hm
      · constructor <;> simp
        · exact h1.2
        · intro m hm; exact h2 m (by simp [hm])
        · intro m hm
          have : m ≠ n := fun e => h1.1 (e ▸ hm)
          simp [Heap.get_set, this]
          exact h3 m (by simp [hm])
    | cons v vf =>
      rw [List.nodup_cons] at h4
      refine ⟨v, ?_⟩
      constructor <;> simp [allocNode, allocVec, Heap.get_set]
      · exact h2 n (by simp)
      · exact h5 v (by simp)
      · exact h1.1
      · exact h4.1
      · exact hn1
      · intro m hm; simp [hm]
      · intro u hu; simp [hu]
      · intro m hm; exact Or.inr hm
      · intro u hu; exact Or.inr hu
      · constructor <;> simp
        · exact h1.2
        · intro m hm; exact h2 m (by simp [hm])
        · intro m hm
          have : m ≠ n := fun e => h1.1 (e ▸ hm)
          simp [Heap.get_set, this]
          exact h3 m (by simp [hm])
        · exact h4.2
        · intro u hu; exact h5 u (by simp [hu])

theorem Alloc.then {w w1 : W} {n v : Nat} (A : Alloc w w1 n v) (nx : Option Nat) (x : Nat) :
    ∃ w', pushBack (setNext w1 n nx) n x = some w' ∧ AddNode w w' n v nx [x] := by
  have hs : ((setNext w1 n nx).nodes.get n).sub = some v := by simp [setNext, A.nsub']
  refine ⟨{ setNext w1 n nx with
      vecs := (setNext w1 n nx).vecs.set v ((setNext w1 n nx).vecs.get v ++ [x]) }, by simp only [pushBack, hs], ?_⟩
  constructor
  · exact A.nfresh
  · exact A.vfresh
  · exact A.nlt
  · exact A.vlt
  · exact A.nnf
  · exact A.vnf
  · show (w1.nodes.set n _).get n = _
    rw [Heap.get_set_same]
    have h1 := A.nsub'
    have h2 := A.nrc
    cases hh : w1.nodes.get n
    rw [hh] at h1 h2
    simp at h1 h2
    simp [h1, h2]
  · intro m hm
    show (w1.nodes.set n _).get m = _
    rw [Heap.get_set_ne _ _ hm]
    exact A.nodes m hm
  · show (w1.vecs.set v _).get v = _
    rw [Heap.get_set_same]
    show w1.vecs.get v ++ [x] = [x]
    rw [A.vec]; rfl
  · intro u hu
    show (w1.vecs.set v _).get u = _
    rw [Heap.get_set_ne _ _ hu]
    exact A.vecs u hu
  · exact A.nmono
  · exact A.vmono
  · exact A.nsub
  · exact A.vsub
  · obtain ⟨h1, h2, h3, h4, h5⟩ := A.free
    constructor
    · exact h1
    · exact h2
    · intro m hm
      have : m ≠ n := fun e => A.nnf (e ▸ hm)
      show ((w1.nodes.set n _).get m).rc = 1
      rw [Heap.get_set_ne _ _ this]
      exact h3 m hm
    · exact h4
    · exact h5

theorem newList_add {w : W} (F : FreeOK w) (l : List Nat) :
    AddNode w (newList w l).2 (newList w l).1 w.vnext none l := by
  obtain ⟨h1, h2, h3, h4, h5⟩ := F
  constructor <;> simp [newList, Heap.get_set]
  · intro m; exact Nat.lt_irrefl _ (h2 _ m)
  · intro u; exact Nat.lt_irrefl _ (h5 _ u)
  · intro m hm hm'; exact absurd hm' hm
  · intro u hu hu'; exact absurd hu' hu
  · constructor <;> simp
    · exact h1
    · intro m hm; have := h2 m hm; omega
    · intro m hm
      have := h2 m hm
      have : m ≠ w.nnext := by omega
      simp [Heap.get_set, this]
      exact h3 m hm
    · exact h4
    · intro u hu; have := h5 u hu; omega

/-! ### worlds that differ only in parts `Rep` does not read -/

theorem Rep_same {w w' : W} {f : Nat → Nat} {h : Option Nat} {L : RemList}
    (hn : ∀ m, (w'.nodes.get m).next = (w.nodes.get m).next ∧ (w'.nodes.get m).sub = (w.nodes.get m).sub)
    (hv : w'.vecs = w.vecs) (hr : Rep w f h L) : Rep w' f h L :=
  Rep_congr (fun i _ => ⟨rfl, (hn _).1, (hn _).2, fun _ _ => by rw [hv]⟩) hr

theorem RepH_same {w w' : W} {f : Nat → Nat} {h : Option Nat} {o : Option RemList}
    (hn : ∀ m, (w'.nodes.get m).next = (w.nodes.get m).next ∧ (w'.nodes.get m).sub = (w.nodes.get m).sub)
    (hv : w'.vecs = w.vecs) (hr : RepH w f h o) : RepH w' f h o := by
  cases o with
  | none => exact hr
  | some L => exact ⟨hr.1, Rep_same hn hv hr.2⟩

theorem isPred_same {w w' : W} {f : Nat → Nat}
    (hn : ∀ m, (w'.nodes.get m).next = (w.nodes.get m).next) (i j : Nat) : isPred w' f i j = isPred w f i j := by
  simp only [isPred, hn]

/-! ### generic transition 2: `push_back` on an unshared head -/

section push
variable {w : W} {hc : List (Option Nat)} {ha : List (Option RemList)} {nid : Nat} {live : List Nat} {f : Nat → Nat}

def pushW (w : W) (v x : Nat) : W := { w with vecs := w.vecs.set v (w.vecs.get v ++ [x]) }

theorem push_rep (I : InvG w hc ha nid live f) {i v x : Nat} (hi : i ∈ live) (hv : (w.nodes.get (f i)).sub = some v)
    {h : Option Nat} {L : RemList} (hL : ∀ j ∈ ids L, j ∈ live ∧ j ≠ i) (hr : Rep w f h L) :
    Rep (pushW w v x) f h L := by
  refine Rep_congr ?_ hr
  intro j hj
  refine ⟨rfl, rfl, rfl, ?_⟩
  intro u hu
  have : u ≠ v := by
    intro e
    subst e
    exact (hL j hj).2 (I.subinj j (hL j hj).1 i hi (by rw [hu, hv]))
  exact Heap.get_set_ne _ _ this

theorem push_inv (I : InvG w hc ha nid live f) {k i v x : Nat} {s : List Nat} {r : RemList}
    (hk : at' ha k = some ((i, s) :: r)) (hv : (w.nodes.get (f i)).sub = some v)
    (hun : ∀ k' L, k' ≠ k → at' ha k' = some L → i ∉ ids L) :
    InvG (pushW w v x) hc (ha.set k (some ((i, s ++ [x]) :: r))) nid live f := by
  have hlt' : k < ha.length := at'_lt hk
  have hi : i ∈ live := I.sub k _ hk i (by simp)
  obtain ⟨hhead, ⟨v0, hv0, hs0⟩, hrest⟩ := I.head_of_val hk
  have hvv : v0 = v := by rw [hv0] at hv; exact Option.some.inj hv
  subst hvv
  have hnd := I.ndl k _ hk
  rw [ids_cons, List.nodup_cons] at hnd
  refine
    { len := by simp [I.len]
      rep := ?_
      nd := I.nd
      lt := I.lt
      inj := I.inj
      sub := ?_
      ndl := ?_
      reach := ?_
      rc := I.rc
      node := ?_
      subinj := I.subinj
      free := ⟨I.free.nnd, I.free.nlt, I.free.nrc, I.free.vnd, I.free.vlt⟩ }
  · intro k'
    by_cases e : k' = k
    · subst e
      rw [at'_set_self hlt', hhead]
      refine ⟨by simp, ?_⟩
      rw [Rep_some_cons]
      refine ⟨rfl, ⟨v0, hv0, ?_⟩, ?_⟩
      · show (w.vecs.set v0 _).get v0 = _
        rw [Heap.get_set_same, hs0]
      · refine push_rep I hi hv0 ?_ hrest
        intro j hj
        exact ⟨I.sub k' _ hk j (by simp [hj]), fun e => hnd.1 (e ▸ hj)⟩
    · rw [at'_set_ne _ e]
      have hr := I.rep k'
      cases ho : at' ha k' with
      | none => rw [ho] at hr; exact hr
      | some L =>
        rw [ho] at hr
        refine ⟨hr.1, push_rep I hi hv0 ?_ hr.2⟩
        intro j hj
        exact ⟨I.sub k' L ho j hj, fun e' => hun k' L e ho (e' ▸ hj)⟩
  · intro k' L hL j hj
    by_cases e : k' = k
    · subst e
      rw [at'_set_self hlt'] at hL
      have := Option.some.inj hL
      subst this
      exact I.sub k' _ hk j (by simpa using hj)
    · rw [at'_set_ne _ e] at hL
      exact I.sub k' L hL j hj
  · intro k' L hL
    by_cases e : k' = k
    · subst e
      rw [at'_set_self hlt'] at hL
      have := Option.some.inj hL
      subst this
      have := I.ndl k' _ hk
      simpa using this
    · rw [at'_set_ne _ e] at hL
      exact I.ndl k' L hL
  · intro j hj
    obtain ⟨k', L, h1, h2⟩ := I.reach j hj
    by_cases e : k' = k
    · subst e
      refine ⟨k', _, at'_set_self hlt' _, ?_⟩
      rw [hk] at h1
      have := Option.some.inj h1
      subst this
      simpa using h2
    · exact ⟨k', L, by rw [at'_set_ne _ e]; exact h1, h2⟩
  · intro j hj
    obtain ⟨h1, h2, u, h3, h4, h5, h6⟩ := I.node j hj
    refine ⟨h1, h2, u, h3, h4, h5, ?_⟩
    show (w.vecs.set v0 _).get u ≠ []
    rw [Heap.get_set]
    split
    · simp
    · exact h6

end push

/-! ### generic transition 3: `copy()` into an empty handle -/

section copy
variable {w : W} {hc : List (Option Nat)} {ha : List (Option RemList)} {nid : Nat} {live : List Nat} {f : Nat → Nat}

theorem copy_get (w : W) (l m : Nat) :
    ((copy w l).nodes.get m).next = (w.nodes.get m).next ∧ ((copy w l).nodes.get m).sub = (w.nodes.get m).sub := by
  simp only [copy, Heap.get_set]
  split
  · rename_i e; subst e; simp
  · simp

theorem copy_rc (w : W) (l m : Nat) :
    ((copy w l).nodes.get m).rc = (w.nodes.get m).rc + (if m = l then 1 else 0) := by
  simp only [copy, Heap.get_set]
  split
  · rename_i e; subst e; simp
  · simp

theorem copy_inv (I : InvG w hc ha nid live f) {s t l : Nat} (hs : at' hc s = some l) (hlt : t < hc.length)
    (ht : at' hc t = none) : InvG (copy w l) (hc.set t (some l)) (ha.set t (at' ha s)) nid live f := by
  have hlt' : t < ha.length := I.len ▸ hlt
  have hta : at' ha t = none := I.head_none ht
  obtain ⟨i, sg, r, hsa, hl, hi, _, _⟩ := I.head hs
  have hst : s ≠ t := by intro e; rw [e, ht] at hs; simp at hs
  refine
    { len := by simp [I.len]
      rep := ?_
      nd := I.nd
      lt := I.lt
      inj := I.inj
      sub := ?_
      ndl := ?_
      reach := ?_
      rc := ?_
      node := ?_
      subinj := ?_
      free := ?_ }
  · intro k'
    by_cases e : k' = t
    · subst e
      rw [at'_set_self hlt, at'_set_self hlt', ← hs]
      exact RepH_same (copy_get w l) rfl (I.rep s)
    · rw [at'_set_ne _ e, at'_set_ne _ e]
      exact RepH_same (copy_get w l) rfl (I.rep k')
  · intro k' L hL
    by_cases e : k' = t
    · subst e
      rw [at'_set_self hlt'] at hL
      exact I.sub s L hL
    · rw [at'_set_ne _ e] at hL
      exact I.sub k' L hL
  · intro k' L hL
    by_cases e : k' = t
    · subst e
      rw [at'_set_self hlt'] at hL
      exact I.ndl s L hL
    · rw [at'_set_ne _ e] at hL
      exact I.ndl k' L hL
  · intro j hj
    obtain ⟨k', L, h1, h2⟩ := I.reach j hj
    have e : k' ≠ t := by intro e; rw [e, hta] at h1; simp at h1
    exact ⟨k', L, by rw [at'_set_ne _ e]; exact h1, h2⟩
  · intro j hj
    rw [copy_rc, I.rc j hj]
    have h1 : live.countP (isPred (copy w l) f j) = live.countP (isPred w f j) :=
      List.countP_congr (fun a _ => by rw [isPred_same (fun m => (copy_get w l m).1)])
    rw [h1]
    have := count_set_at hlt (some l) (some (f j))
    rw [ht] at this
    simp only [reduceCtorEq, if_false, Option.some.injEq] at this
    by_cases e : f j = l
    · simp only [e, if_true] at this ⊢
      omega
    · have e' : ¬ l = f j := fun h => e h.symm
      simp only [e, e', if_false] at this ⊢
      omega
  · intro j hj
    obtain ⟨h1, h2, u, h3, h4, h5, h6⟩ := I.node j hj
    exact ⟨h1, h2, u, by rw [(copy_get w l _).2]; exact h3, h4, h5, h6⟩
  · intro a ha' b hb hab
    rw [(copy_get w l _).2, (copy_get w l _).2] at hab
    exact I.subinj a ha' b hb hab
  · refine ⟨I.free.nnd, I.free.nlt, ?_, I.free.vnd, I.free.vlt⟩
    intro m hm
    have : m ≠ l := by
      intro e
      subst e
      rw [hl] at hm
      exact (I.node i hi).2.1 hm
    rw [copy_rc]
    simp only [this, if_false]
    exact I.free.nrc m hm

end copy

/-! ### generic transition 4: a handle moves from `k1` to the empty handle `k2` -/

section move
variable {w : W} {hc : List (Option Nat)} {ha : List (Option RemList)} {nid : Nat} {live : List Nat} {f : Nat → Nat}

theorem move_inv (I : InvG w hc ha nid live f) {k1 k2 l : Nat} (h1 : at' hc k1 = some l) (hlt : k2 < hc.length)
    (h2 : at' hc k2 = none) :
    InvG w ((hc.set k1 none).set k2 (some l)) ((ha.set k1 none).set k2 (at' ha k1)) nid live f := by
  have hlt' : k2 < ha.length := I.len ▸ hlt
  have h2a : at' ha k2 = none := I.head_none h2
  have hlt1 : k1 < hc.length := at'_lt h1
  have hlt1' : k1 < ha.length := I.len ▸ hlt1
  have hne : k1 ≠ k2 := by intro e; rw [e, h2] at h1; simp at h1
  have hne' : k2 ≠ k1 := fun e => hne e.symm
  have hA : ∀ k', at' ((ha.set k1 none).set k2 (at' ha k1)) k' =
      if k' = k2 then at' ha k1 else if k' = k1 then none else at' ha k' := by
    intro k'
    by_cases e : k' = k2
    · subst e; rw [at'_set_self (by simpa using hlt')]; simp
    · rw [at'_set_ne _ e]
      by_cases e' : k' = k1
      · subst e'; rw [at'_set_self hlt1']; simp [e]
      · rw [at'_set_ne _ e']; simp [e, e']
  have hC : ∀ k', at' ((hc.set k1 none).set k2 (some l)) k' =
      if k' = k2 then some l else if k' = k1 then none else at' hc k' := by
    intro k'
    by_cases e : k' = k2
    · subst e; rw [at'_set_self (by simpa using hlt)]; simp
    · rw [at'_set_ne _ e]
      by_cases e' : k' = k1
      · subst e'; rw [at'_set_self hlt1]; simp [e]
      · rw [at'_set_ne _ e']; simp [e, e']
  refine
    { len := by simp [I.len]
      rep := ?_
      nd := I.nd
      lt := I.lt
      inj := I.inj
      sub := ?_
      ndl := ?_
      reach := ?_
      rc := ?_
      node := I.node
      subinj := I.subinj
      free := I.free }
  · intro k'
    rw [hA, hC]
    by_cases e : k' = k2
    · simp only [e, if_true]; rw [← h1]; exact I.rep k1
    · by_cases e' : k' = k1
      · rw [e']; simp only [hne, if_false, if_true]; rfl
      · simp only [e, e', if_false]; exact I.rep k'
  · intro k' L hL
    rw [hA] at hL
    by_cases e : k' = k2
    · simp only [e, if_true] at hL; exact I.sub k1 L hL
    · by_cases e' : k' = k1
      · rw [e'] at hL; simp [hne] at hL
      · simp only [e, e', if_false] at hL; exact I.sub k' L hL
  · intro k' L hL
    rw [hA] at hL
    by_cases e : k' = k2
    · simp only [e, if_true] at hL; exact I.ndl k1 L hL
    · by_cases e' : k' = k1
      · rw [e'] at hL; simp [hne] at hL
      · simp only [e, e', if_false] at hL; exact I.ndl k' L hL
  · intro j hj
    obtain ⟨k', L, h3, h4⟩ := I.reach j hj
    by_cases e' : k' = k1
    · subst e'
      exact ⟨k2, L, by rw [hA]; simpa using h3, h4⟩
    · have e : k' ≠ k2 := by intro e; rw [e, h2a] at h3; simp at h3
      exact ⟨k', L, by rw [hA]; simpa [e, e'] using h3, h4⟩
  · intro j hj
    rw [I.rc j hj]
    have c1 := count_set_at hlt1 none (some (f j))
    have c2 := count_set_at (l := hc.set k1 none) (k := k2) (by simpa using hlt) (some l) (some (f j))
    rw [at'_set_ne _ hne', h2] at c2
    rw [h1] at c1
    simp only [reduceCtorEq, if_false] at c1 c2
    omega

end move

/-! ### generic transition 5: the head of handle `k` has count 1 and goes to the free lists -/

section free
variable {w : W} {hc : List (Option Nat)} {ha : List (Option RemList)} {nid : Nat} {live : List Nat} {f : Nat → Nat}

def optL (r : RemList) : Option RemList := if r = [] then none else some r

theorem optL_eq_some {r L : RemList} (h : optL r = some L) : L = r ∧ r ≠ [] := by
  unfold optL at h
  split at h
  · simp at h
  · exact ⟨(Option.some.inj h).symm, by assumption⟩

theorem optL_ne {r : RemList} (h : r ≠ []) : optL r = some r := by simp [optL, h]

def freeW (w : W) (e v : Nat) : W := { w with vfree := v :: w.vfree, nfree := e :: w.nfree }

theorem free_inv (I : InvG w hc ha nid live f) {k i v : Nat} {s : List Nat} {r : RemList}
    (hk : at' ha k = some ((i, s) :: r)) (hv : (w.nodes.get (f i)).sub = some v)
    (hrc : (w.nodes.get (f i)).rc = 1) :
    InvG (freeW w (f i) v) (hc.set k (w.nodes.get (f i)).next) (ha.set k (optL r)) nid (live.erase i) f := by
  have hlt' : k < ha.length := at'_lt hk
  have hlt : k < hc.length := I.len ▸ hlt'
  have hi : i ∈ live := I.sub k _ hk i (by simp)
  obtain ⟨hhead, _, hrest⟩ := I.head_of_val hk
  have hnd := I.ndl k _ hk
  rw [ids_cons, List.nodup_cons] at hnd
  -- nothing else refers to the head
  have hun : ∀ k' L, k' ≠ k → at' ha k' = some L → i ∉ ids L := by
    intro k' L hne hL hiL
    have := (I.key hhead hi).2 ⟨k', L, hne, hL, hiL⟩
    omega
  have hcnt : hc.count (some (f i)) = 1 ∧ live.countP (isPred w f i) = 0 := by
    have h1 := I.rc i hi
    have h2 := one_count hhead
    omega
  have hmem : ∀ j, j ∈ live.erase i ↔ j ≠ i ∧ j ∈ live := fun j => I.nd.mem_erase_iff
  have hperm : live.Perm (i :: live.erase i) := List.perm_cons_erase hi
  have hfne : ∀ j, j ∈ live.erase i → f j ≠ f i := by
    intro j hj e
    exact ((hmem j).1 hj).1 (I.inj j ((hmem j).1 hj).2 i hi e)
  obtain ⟨hn1, hn2, v', hn3, hn4, hn5, hn6⟩ := I.node i hi
  have : v' = v := by rw [hn3] at hv; exact Option.some.inj hv
  subst this
  have hsame : ∀ m, ((freeW w (f i) v').nodes.get m).next = (w.nodes.get m).next ∧
      ((freeW w (f i) v').nodes.get m).sub = (w.nodes.get m).sub := fun m => ⟨rfl, rfl⟩
  refine
    { len := by simp [I.len]
      rep := ?_
      nd := I.nd.erase i
      lt := fun j hj => I.lt j ((hmem j).1 hj).2
      inj := fun a ha' b hb => I.inj a ((hmem a).1 ha').2 b ((hmem b).1 hb).2
      sub := ?_
      ndl := ?_
      reach := ?_
      rc := ?_
      node := ?_
      subinj := fun a ha' b hb => I.subinj a ((hmem a).1 ha').2 b ((hmem b).1 hb).2
      free := ?_ }
  · intro k'
    by_cases e : k' = k
    · subst e
      rw [at'_set_self hlt, at'_set_self hlt']
      by_cases hr : r = []
      · subst hr
        simp only [optL, if_true]
        exact Rep_none_iff.1 hrest
      · rw [optL_ne hr]
        exact ⟨hr, Rep_same hsame rfl hrest⟩
    · rw [at'_set_ne _ e, at'_set_ne _ e]
      exact RepH_same hsame rfl (I.rep k')
  · intro k' L hL j hj
    rw [hmem]
    by_cases e : k' = k
    · subst e
      rw [at'_set_self hlt'] at hL
      obtain ⟨rfl, _⟩ := optL_eq_some hL
      exact ⟨fun e => hnd.1 (e ▸ hj), I.sub k' _ hk j (by simp [hj])⟩
    · rw [at'_set_ne _ e] at hL
      exact ⟨fun e' => hun k' L e hL (e' ▸ hj), I.sub k' L hL j hj⟩
  · intro k' L hL
    by_cases e : k' = k
    · subst e
      rw [at'_set_self hlt'] at hL
      obtain ⟨rfl, _⟩ := optL_eq_some hL
      exact hnd.2
    · rw [at'_set_ne _ e] at hL
      exact I.ndl k' L hL
  · intro j hj
    obtain ⟨hji, hjl⟩ := (hmem j).1 hj
    obtain ⟨k', L, h1, h2⟩ := I.reach j hjl
    by_cases e : k' = k
    · subst e
      rw [hk] at h1
      have := Option.some.inj h1
      subst this
      simp only [ids_cons, List.mem_cons] at h2
      rcases h2 with e | e
      · exact absurd e hji
      · have hr : r ≠ [] := by intro hr; subst hr; simp at e
        exact ⟨k', r, by rw [at'_set_self hlt', optL_ne hr], e⟩
    · exact ⟨k', L, by rw [at'_set_ne _ e]; exact h1, h2⟩
  · intro j hj
    obtain ⟨hji, hjl⟩ := (hmem j).1 hj
    show (w.nodes.get (f j)).rc = _
    rw [I.rc j hjl]
    have h1 : (live.erase i).countP (isPred (freeW w (f i) v') f j) = (live.erase i).countP (isPred w f j) :=
      List.countP_congr (fun a _ => by rw [isPred_same (fun m => (hsame m).1)])
    rw [h1, hperm.countP_eq, List.countP_cons]
    have c := count_set_at hlt (w.nodes.get (f i)).next (some (f j))
    rw [hhead] at c
    have hne : ¬ (some (f i) = some (f j)) := fun e => hfne j hj (Option.some.inj e).symm
    simp only [hne, if_false] at c
    simp only [isPred, beq_iff_eq]
    omega
  · intro j hj
    obtain ⟨hji, hjl⟩ := (hmem j).1 hj
    obtain ⟨h1, h2, u, h3, h4, h5, h6⟩ := I.node j hjl
    refine ⟨h1, ?_, u, h3, h4, ?_, h6⟩
    · show f j ∉ f i :: w.nfree
      simp only [List.mem_cons, not_or]
      exact ⟨hfne j hj, h2⟩
    · show u ∉ v' :: w.vfree
      simp only [List.mem_cons, not_or]
      refine ⟨?_, h5⟩
      intro e
      subst e
      exact hji (I.subinj j hjl i hi (by rw [h3, hn3]))
  · constructor
    · show (f i :: w.nfree).Nodup
      exact List.nodup_cons.2 ⟨hn2, I.free.nnd⟩
    · intro m hm
      have hm' : m ∈ f i :: w.nfree := hm
      rcases List.mem_cons.1 hm' with e | e
      · rw [e]; exact hn1
      · exact I.free.nlt m e
    · intro m hm
      have hm' : m ∈ f i :: w.nfree := hm
      show (w.nodes.get m).rc = 1
      rcases List.mem_cons.1 hm' with e | e
      · rw [e]; exact hrc
      · exact I.free.nrc m e
    · show (v' :: w.vfree).Nodup
      exact List.nodup_cons.2 ⟨hn5, I.free.vnd⟩
    · intro u hu
      have hu' : u ∈ v' :: w.vfree := hu
      rcases List.mem_cons.1 hu' with e | e
      · rw [e]; exact hn4
      · exact I.free.vlt u e

end free

/-! ### generic transition 6: handle `k` is dropped, its head has another referrer -/

section drop
variable {w : W} {hc : List (Option Nat)} {ha : List (Option RemList)} {nid : Nat} {live : List Nat} {f : Nat → Nat}

def decW (w : W) (e : Nat) : W :=
  { w with nodes := w.nodes.set e { w.nodes.get e with rc := dec64 (w.nodes.get e).rc } }

theorem decW_get (w : W) (e m : Nat) :
    ((decW w e).nodes.get m).next = (w.nodes.get m).next ∧ ((decW w e).nodes.get m).sub = (w.nodes.get m).sub := by
  simp only [decW, Heap.get_set]
  split
  · rename_i h; subst h; simp
  · simp

theorem decW_rc (w : W) (e m : Nat) :
    ((decW w e).nodes.get m).rc = if m = e then dec64 (w.nodes.get e).rc else (w.nodes.get m).rc := by
  simp only [decW, Heap.get_set]
  split
  · simp
  · simp

theorem drop_inv (I : InvG w hc ha nid live f) {k e : Nat} (hk : at' hc k = some e)
    (hrc : (w.nodes.get e).rc ≠ 1) : InvG (decW w e) (hc.set k none) (ha.set k none) nid live f := by
  have hlt : k < hc.length := at'_lt hk
  have hlt' : k < ha.length := I.len ▸ hlt
  obtain ⟨i, s, r, hka, he, hi, _, _⟩ := I.head hk
  subst he
  have h1c := one_count hk
  have hrc2 : 1 < (w.nodes.get (f i)).rc := by
    have := I.rc i hi
    omega
  obtain ⟨k0, L0, hne0, hk0, hi0⟩ := (I.key hk hi).1 hrc2
  have hsub := I.shared_sub hka hk0 hi0
  refine
    { len := by simp [I.len]
      rep := ?_
      nd := I.nd
      lt := I.lt
      inj := I.inj
      sub := ?_
      ndl := ?_
      reach := ?_
      rc := ?_
      node := ?_
      subinj := ?_
      free := ?_ }
  · intro k'
    by_cases e : k' = k
    · subst e
      rw [at'_set_self hlt, at'_set_self hlt']
      rfl
    · rw [at'_set_ne _ e, at'_set_ne _ e]
      exact RepH_same (decW_get w (f i)) rfl (I.rep k')
  · intro k' L hL
    by_cases e : k' = k
    · subst e
      rw [at'_set_self hlt'] at hL
      simp at hL
    · rw [at'_set_ne _ e] at hL
      exact I.sub k' L hL
  · intro k' L hL
    by_cases e : k' = k
    · subst e
      rw [at'_set_self hlt'] at hL
      simp at hL
    · rw [at'_set_ne _ e] at hL
      exact I.ndl k' L hL
  · intro j hj
    obtain ⟨k', L, h1, h2⟩ := I.reach j hj
    by_cases e : k' = k
    · subst e
      rw [hka] at h1
      have := Option.some.inj h1
      subst this
      exact ⟨k0, L0, by rw [at'_set_ne _ hne0]; exact hk0, hsub j h2⟩
    · exact ⟨k', L, by rw [at'_set_ne _ e]; exact h1, h2⟩
  · intro j hj
    rw [decW_rc]
    have h1 : live.countP (isPred (decW w (f i)) f j) = live.countP (isPred w f j) :=
      List.countP_congr (fun a _ => by rw [isPred_same (fun m => (decW_get w (f i) m).1)])
    rw [h1]
    have c := count_set_at hlt none (some (f j))
    rw [hk] at c
    simp only [reduceCtorEq, if_false, Option.some.injEq] at c
    by_cases e : f j = f i
    · have hji : j = i := I.inj j hj i hi e
      subst hji
      have := I.rc j hj
      simp only [if_true] at c ⊢
      have hd : dec64 (w.nodes.get (f j)).rc = (w.nodes.get (f j)).rc - 1 := by
        unfold dec64
        split
        · omega
        · rfl
      rw [hd]
      omega
    · have e' : ¬ f i = f j := fun h => e h.symm
      simp only [e, e', if_false] at c ⊢
      rw [I.rc j hj]
      omega
  · intro j hj
    obtain ⟨h1, h2, u, h3, h4, h5, h6⟩ := I.node j hj
    exact ⟨h1, h2, u, by rw [(decW_get w (f i) _).2]; exact h3, h4, h5, h6⟩
  · intro a ha' b hb hab
    rw [(decW_get w (f i) _).2, (decW_get w (f i) _).2] at hab
    exact I.subinj a ha' b hb hab
  · refine ⟨I.free.nnd, I.free.nlt, ?_, I.free.vnd, I.free.vlt⟩
    intro m hm
    have : m ≠ f i := by
      intro e
      subst e
      exact (I.node i hi).2.1 hm
    rw [decW_rc]
    simp only [this, if_false]
    exact I.free.nrc m hm

end drop

/-! ### iteration and release -/

section loops
variable {w : W} {hc : List (Option Nat)} {ha : List (Option RemList)} {nid : Nat} {live : List Nat} {f : Nat → Nat}

theorem iter_spec {h : Option Nat} {L : RemList} (hr : Rep w f h L) (hne : ∀ sg ∈ L, sg.2 ≠ [])
    {fuel : Nat} (hf : L.length ≤ fuel) : iter fuel w h = some (flat L) := by
  induction L generalizing h fuel with
  | nil =>
    rw [Rep_none_iff.1 hr]
    cases fuel <;> simp [iter, flat]
  | cons sg r ih =>
    cases h with
    | none => simp at hr
    | some n =>
      rw [Rep_some_cons] at hr
      obtain ⟨_, ⟨v, hv, hs⟩, hrest⟩ := hr
      cases fuel with
      | zero => simp at hf
      | succ fuel =>
        have h1 : ¬ (w.vecs.get v).isEmpty = true := by
          rw [hs]
          have := hne sg (by simp)
          simpa using this
        simp only [iter, hv, h1]
        rw [ih hrest (fun a ha' => hne a (by simp [ha'])) (by simp at hf; omega)]
        simp [flat, hs]

theorem InvG.seg_ne (I : InvG w hc ha nid live f) {k : Nat} {L : RemList} (h : at' ha k = some L) :
    ∀ sg ∈ L, sg.2 ≠ [] := by
  intro sg hsg
  obtain ⟨L1, L2, rfl⟩ := List.append_of_mem hsg
  obtain ⟨hi, hr⟩ := I.occ (i := sg.1) (s := sg.2) h
  rw [Rep_some_cons] at hr
  obtain ⟨_, ⟨v, hv, hs⟩, _⟩ := hr
  obtain ⟨_, _, u, h3, _, _, h6⟩ := I.node sg.1 hi
  simp only at hv hs
  rw [hv] at h3
  have := Option.some.inj h3
  subst this
  rw [← hs]; exact h6

theorem InvG.iter_eq (I : InvG w hc ha nid live f) (k : Nat) :
    SL.iter w.nnext w (at' hc k) = some (match at' ha k with | some r => flat r | none => []) := by
  have hr := I.rep k
  cases ho : at' ha k with
  | none =>
    rw [ho] at hr
    have : at' hc k = none := hr
    rw [this]
    cases w.nnext <;> simp [SL.iter]
  | some L =>
    rw [ho] at hr
    exact iter_spec hr.2 (I.seg_ne ho) (I.len_le ho)

theorem set_none_self {α : Type} {l : List (Option α)} {k : Nat} (h : at' l k = none) : l.set k none = l := by
  induction l generalizing k with
  | nil => simp
  | cons y l ih =>
    cases k with
    | zero => simp at h; simp [h]
    | succ k => simp at h; simp [ih h]

/-- the ids of `L` that occur behind no other handle than `k` -/
def elsewhere (ha : List (Option RemList)) (k i : Nat) : Prop := ∃ k' L, k' ≠ k ∧ at' ha k' = some L ∧ i ∈ ids L

theorem release_spec (k : Nat) (L : RemList) :
    ∀ {w : W} {hc : List (Option Nat)} {ha : List (Option RemList)} {live : List Nat} {fuel : Nat},
      InvG w hc ha nid live f → at' ha k = optL L → L.length ≤ fuel →
      ∃ w' out live', release fuel w (at' hc k) = some (w', out) ∧
        InvG w' (hc.set k none) (ha.set k none) nid live' f ∧
        (∃ L1 L2, L = L1 ++ L2 ∧ out = (ids L1).map f ∧ (∀ i ∈ ids L1, ¬ elsewhere ha k i) ∧
          (∀ i ∈ ids L2, elsewhere ha k i) ∧ (∀ j, j ∈ live' ↔ j ∈ live ∧ j ∉ ids L1)) := by
  induction L with
  | nil =>
    intro w hc ha live fuel I hk _
    have hk' : at' ha k = none := by simpa [optL] using hk
    have hr := I.rep k
    rw [hk'] at hr
    have hck : at' hc k = none := hr
    refine ⟨w, [], live, ?_, ?_, [], [], rfl, rfl, by simp, by simp, by simp⟩
    · rw [hck]; cases fuel <;> simp [release]
    · rw [set_none_self hck, set_none_self hk']; exact I
  | cons sg r ih =>
    intro w hc ha live fuel I hk hf
    obtain ⟨i, s⟩ := sg
    rw [optL_ne (by simp)] at hk
    have hlt' : k < ha.length := at'_lt hk
    have hlt : k < hc.length := I.len ▸ hlt'
    obtain ⟨hhead, _, _⟩ := I.head_of_val hk
    have hi : i ∈ live := I.sub k _ hk i (by simp)
    obtain ⟨_, _, v, hv, _⟩ := I.node i hi
    cases fuel with
    | zero => simp at hf
    | succ fuel =>
      rw [hhead]
      by_cases hrc : (w.nodes.get (f i)).rc = 1
      · have I' := free_inv I hk hv hrc
        obtain ⟨w', out, live', h1, h2, L1, L2, h3, h4, h5, h6, h7⟩ :=
          ih I' (at'_set_self hlt' _) (by simp at hf; omega)
        rw [at'_set_self hlt] at h1
        have hels : ∀ j, elsewhere (ha.set k (optL r)) k j ↔ elsewhere ha k j := by
          intro j
          constructor
          · rintro ⟨k', L, hne, hL, hj⟩
            exact ⟨k', L, hne, by rw [at'_set_ne _ hne] at hL; exact hL, hj⟩
          · rintro ⟨k', L, hne, hL, hj⟩
            exact ⟨k', L, hne, by rw [at'_set_ne _ hne]; exact hL, hj⟩
        have hnel : ¬ elsewhere ha k i := by
          intro h
          have := (I.key hhead hi).2 h
          omega
        refine ⟨w', f i :: out, live', ?_, ?_, (i, s) :: L1, L2, by simp [h3], by simp [h4], ?_, ?_, ?_⟩
        · simp only [release, hrc, if_true, hv]
          have h1' : release fuel (freeW w (f i) v) (w.nodes.get (f i)).next = some (w', out) := h1
          unfold freeW at h1'
          rw [h1']
        · rw [List.set_set, List.set_set] at h2
          exact h2
        · intro j hj
          simp only [ids_cons, List.mem_cons] at hj
          rcases hj with e | e
          · rw [e]; exact hnel
          · exact fun h => h5 j e ((hels j).2 h)
        · intro j hj
          exact (hels j).1 (h6 j hj)
        · intro j
          rw [h7 j, I.nd.mem_erase_iff]
          simp only [ids_cons, List.mem_cons, not_or]
          constructor
          · rintro ⟨⟨a, b⟩, c⟩; exact ⟨b, a, c⟩
          · rintro ⟨b, a, c⟩; exact ⟨⟨a, b⟩, c⟩
      · have I' := drop_inv I hhead hrc
        have hel : elsewhere ha k i := by
          have h1c := one_count hhead
          have := I.rc i hi
          exact (I.key hhead hi).1 (by omega)
        obtain ⟨k0, L0, hne0, hk0, hi0⟩ := hel
        have hsub := I.shared_sub hk hk0 hi0
        refine ⟨_, [], live, ?_, I', [], (i, s) :: r, rfl, rfl, by simp, ?_, by simp⟩
        · simp only [release, hrc, if_false]
          rfl
        · intro j hj
          exact ⟨k0, L0, hne0, hk0, hsub j hj⟩

end loops

end P
end Vata.LU.SL
