import Vata.Proofs.Rename
import Vata.Proofs.SimModel
import Vata.Proofs.TrimModel
import Vata.Proofs.PropAux
/-!
# Equivariance of simulations, reduction and trimming under renaming (properties C19, C04, C05)

For `f` injective on the states of `A` (`InjOnStates f A`):

* `downSim_image`, `downSim_preimage`, `upSim_image`, `upSim_preimage`   transport of simulations along `reindex f`
* `downSim_equivariant`, `upSim_equivariant`           `(f q, f r) ∈ simRef (reindex f A) ↔ (q, r) ∈ simRef A`
* `downSimRef_reindex_image`, `upSimRef_reindex_image` the computed relation of the renamed automaton is the `f`-image
* `productive_equivariant`, `tdReachable_equivariant`, `prodStates_equivariant`, `tdReach_equivariant`
* `removeUnreachable_reindex_eq`, `removeUseless_reindex_eq` (equalities of automata),
  `removeUnreachable_equivariant`, `removeUseless_equivariant` (the membership forms),
  `trim_states_length_equivariant`, `unreach_states_length_equivariant`
* `simClasses`, `simClasses_equivariant`, `repOf`, `reduceRef`, `reduce_states_le_simClasses`,
  `reduceRef_states_length_equivariant`
* symbols: `translateSymbols_reach_image`, `incl_symbol_equivariant`, `empty_symbol_equivariant`

Helper lemmas live in the namespace `Vata.Eqv`; the main theorems in `Vata`.
-/
namespace Vata

namespace Eqv

/-! ### list helpers -/

/-- `All2` transported to the images, remembering that the members satisfy `P` -/
theorem all2_map_image {S : Nat → Nat → Prop} (f : Nat → Nat) (P : Nat → Prop) :
    ∀ {ks ks' : List Nat}, All2 S ks ks' → (∀ k, k ∈ ks → P k) → (∀ k, k ∈ ks' → P k) →
      All2 (fun x y => ∃ q r, P q ∧ P r ∧ S q r ∧ x = f q ∧ y = f r) (ks.map f) (ks'.map f)
  | _, _, All2.nil, _, _ => All2.nil
  | _, _, All2.cons hd tl, h1, h2 =>
    All2.cons ⟨_, _, h1 _ List.mem_cons_self, h2 _ List.mem_cons_self, hd, rfl, rfl⟩
      (all2_map_image f P tl (fun k hk => h1 k (List.mem_cons_of_mem _ hk))
        (fun k hk => h2 k (List.mem_cons_of_mem _ hk)))

/-- `All2` pulled back from the images -/
theorem all2_of_map {S' : Nat → Nat → Prop} (f : Nat → Nat) (P : Nat → Prop) :
    ∀ (ks ks' : List Nat), All2 S' (ks.map f) (ks'.map f) → (∀ k, k ∈ ks → P k) → (∀ k, k ∈ ks' → P k) →
      All2 (fun q r => P q ∧ P r ∧ S' (f q) (f r)) ks ks'
  | [], [], _, _, _ => All2.nil
  | [], _ :: _, h, _, _ => by cases h
  | _ :: _, [], h, _, _ => by cases h
  | k :: ks, k' :: ks', h, h1, h2 => by
    simp only [List.map_cons] at h
    cases h with
    | cons hd tl =>
      exact All2.cons ⟨h1 _ List.mem_cons_self, h2 _ List.mem_cons_self, hd⟩
        (all2_of_map f P ks ks' tl (fun k hk => h1 k (List.mem_cons_of_mem _ hk))
          (fun k hk => h2 k (List.mem_cons_of_mem _ hk)))

theorem setAt_map (f : Nat → Nat) : ∀ (ks : List Nat) (i r : Nat), (setAt ks i r).map f = setAt (ks.map f) i (f r)
  | [], _, _ => by simp only [setAt, List.map_nil]
  | _ :: _, 0, _ => by simp only [setAt, List.map_cons]
  | k :: ks, i+1, r => by simp only [setAt, List.map_cons, setAt_map f ks i r]

theorem mem_setAt : ∀ (ks : List Nat) (i r x : Nat), x ∈ setAt ks i r → x ∈ ks ∨ x = r
  | [], _, _, _, h => by simp only [setAt, List.not_mem_nil] at h
  | k :: ks, 0, r, x, h => by
    simp only [setAt, List.mem_cons] at h ⊢
    rcases h with h | h
    · exact Or.inr h
    · exact Or.inl (Or.inr h)
  | k :: ks, i+1, r, x, h => by
    simp only [setAt, List.mem_cons] at h ⊢
    rcases h with h | h
    · exact Or.inl (Or.inl h)
    · rcases mem_setAt ks i r x h with h | h
      · exact Or.inl (Or.inr h)
      · exact Or.inr h

/-- `map f` is injective on lists whose members lie in a set on which `f` is injective -/
theorem map_inj_on (f : Nat → Nat) (P : Nat → Prop) (hinj : ∀ a b, P a → P b → f a = f b → a = b) :
    ∀ (l l' : List Nat), (∀ a, a ∈ l → P a) → (∀ a, a ∈ l' → P a) → l.map f = l'.map f → l = l'
  | [], [], _, _, _ => rfl
  | [], _ :: _, _, _, h => by simp at h
  | _ :: _, [], _, _, h => by simp at h
  | a :: l, b :: l', h1, h2, h => by
    simp only [List.map_cons, List.cons.injEq] at h
    rw [hinj a b (h1 _ List.mem_cons_self) (h2 _ List.mem_cons_self) h.1,
      map_inj_on f P hinj l l' (fun x hx => h1 x (List.mem_cons_of_mem _ hx))
        (fun x hx => h2 x (List.mem_cons_of_mem _ hx)) h.2]

theorem getElem?_map_inj (f : Nat → Nat) (ks : List Nat) (i q : Nat) (h : (ks.map f)[i]? = some (f q)) :
    ∃ k, ks[i]? = some k ∧ f k = f q := by
  rw [List.getElem?_map] at h
  cases hk : ks[i]? with
  | none => rw [hk] at h; simp at h
  | some k =>
    rw [hk] at h
    simp only [Option.map_some, Option.some.injEq] at h
    exact ⟨k, rfl, h⟩

/-- the image of a relation on the states of `A` -/
def ImageRel (f : Nat → Nat) (A : TA) (S : Nat → Nat → Prop) : Nat → Nat → Prop :=
  fun x y => ∃ q r, q ∈ A.states ∧ r ∈ A.states ∧ S q r ∧ x = f q ∧ y = f r

/-- the pre-image of a relation, restricted to the states of `A` -/
def PreimageRel (f : Nat → Nat) (A : TA) (S' : Nat → Nat → Prop) : Nat → Nat → Prop :=
  fun q r => q ∈ A.states ∧ r ∈ A.states ∧ S' (f q) (f r)

end Eqv

open Eqv

/-! ### 1. simulations -/

/-- the image of a downward simulation under a renaming injective on the states is a downward simulation of the
renamed automaton -/
theorem downSim_image (f : Nat → Nat) (A : TA) (hinj : InjOnStates f A) (S : Nat → Nat → Prop) (hS : DownSim A S) :
    DownSim (reindex f A) (ImageRel f A S) := by
  intro x y hxy ρ' hρ' hp
  obtain ⟨q, r, hq, hr, hqr, hx, hy⟩ := hxy
  obtain ⟨ρ, hρ, he⟩ := (reindex_rules f A ρ').mp hρ'
  rw [he] at hp ⊢
  have hpq : ρ.parent = q := hinj _ _ (Rn.parent_mem_states hρ) hq (hp.trans hx)
  obtain ⟨σ, hσ, h1, h2, h3⟩ := hS q r hqr ρ hρ hpq
  refine ⟨mapRule f σ, (reindex_rules f A _).mpr ⟨σ, hσ, rfl⟩, ?_, h2, ?_⟩
  · show f σ.parent = y
    rw [h1, hy]
  · exact all2_map_image f (fun k => k ∈ A.states) h3 (fun k hk => Rn.kid_mem_states hρ hk)
      (fun k hk => Rn.kid_mem_states hσ hk)

/-- the pre-image of a downward simulation of the renamed automaton is a downward simulation -/
theorem downSim_preimage (f : Nat → Nat) (A : TA) (hinj : InjOnStates f A) (S' : Nat → Nat → Prop)
    (hS : DownSim (reindex f A) S') : DownSim A (PreimageRel f A S') := by
  intro q r hqr ρ hρ hp
  obtain ⟨_, hr, hqr⟩ := hqr
  have hρ' : mapRule f ρ ∈ (reindex f A).rules := (reindex_rules f A _).mpr ⟨ρ, hρ, rfl⟩
  obtain ⟨σ', hσ', h1, h2, h3⟩ := hS (f q) (f r) hqr (mapRule f ρ) hρ' (by show f ρ.parent = f q; rw [hp])
  obtain ⟨σ, hσ, he⟩ := (reindex_rules f A σ').mp hσ'
  rw [he] at h1 h2 h3
  refine ⟨σ, hσ, hinj _ _ (Rn.parent_mem_states hσ) hr h1, h2, ?_⟩
  exact all2_of_map f (fun k => k ∈ A.states) ρ.kids σ.kids h3 (fun k hk => Rn.kid_mem_states hρ hk)
    (fun k hk => Rn.kid_mem_states hσ hk)

theorem upSim_image (f : Nat → Nat) (A : TA) (hinj : InjOnStates f A) (S : Nat → Nat → Prop) (hS : IsUpSim A S) :
    IsUpSim (reindex f A) (ImageRel f A S) := by
  intro x y hxy
  obtain ⟨q, r, hq, hr, hqr, hx, hy⟩ := hxy
  refine ⟨?_, ?_⟩
  · intro hxf
    obtain ⟨q0, hq0, he⟩ := (reindex_final f A x).mp hxf
    have : q0 = q := hinj _ _ (Rn.final_mem_states hq0) hq (he.symm.trans hx)
    rw [this] at hq0
    rw [hy]
    exact (reindex_final f A _).mpr ⟨r, (hS q r hqr).1 hq0, rfl⟩
  · intro ρ' hρ' i hi
    obtain ⟨ρ, hρ, he⟩ := (reindex_rules f A ρ').mp hρ'
    rw [he] at hi ⊢
    rw [hx] at hi
    obtain ⟨k, hk, hkq⟩ := getElem?_map_inj f ρ.kids i q hi
    have hkmem : k ∈ ρ.kids := List.mem_of_getElem? hk
    have : k = q := hinj _ _ (Rn.kid_mem_states hρ hkmem) hq hkq
    rw [this] at hk
    obtain ⟨σ, hσ, h1, h2, h3⟩ := (hS q r hqr).2 ρ hρ i hk
    refine ⟨mapRule f σ, (reindex_rules f A _).mpr ⟨σ, hσ, rfl⟩, h1, ?_, ?_⟩
    · show σ.kids.map f = setAt (ρ.kids.map f) i y
      rw [h2, setAt_map, hy]
    · exact ⟨ρ.parent, σ.parent, Rn.parent_mem_states hρ, Rn.parent_mem_states hσ, h3, rfl, rfl⟩

theorem upSim_preimage (f : Nat → Nat) (A : TA) (hinj : InjOnStates f A) (S' : Nat → Nat → Prop)
    (hS : IsUpSim (reindex f A) S') : IsUpSim A (PreimageRel f A S') := by
  intro q r hqr
  obtain ⟨_, hr, hqr⟩ := hqr
  refine ⟨?_, ?_⟩
  · intro hqf
    have := (hS _ _ hqr).1 ((reindex_final f A _).mpr ⟨q, hqf, rfl⟩)
    obtain ⟨r0, hr0, he⟩ := (reindex_final f A _).mp this
    have : r0 = r := hinj _ _ (Rn.final_mem_states hr0) hr he.symm
    rw [← this]; exact hr0
  · intro ρ hρ i hi
    have hρ' : mapRule f ρ ∈ (reindex f A).rules := (reindex_rules f A _).mpr ⟨ρ, hρ, rfl⟩
    have hi' : (mapRule f ρ).kids[i]? = some (f q) := by
      show (ρ.kids.map f)[i]? = some (f q)
      rw [List.getElem?_map, hi]; rfl
    obtain ⟨σ', hσ', h1, h2, h3⟩ := (hS _ _ hqr).2 (mapRule f ρ) hρ' i hi'
    obtain ⟨σ, hσ, he⟩ := (reindex_rules f A σ').mp hσ'
    rw [he] at h1 h2 h3
    refine ⟨σ, hσ, h1, ?_, Rn.parent_mem_states hρ, Rn.parent_mem_states hσ, h3⟩
    have h2' : σ.kids.map f = (setAt ρ.kids i r).map f := by rw [setAt_map]; exact h2
    refine map_inj_on f (fun k => k ∈ A.states) (fun a b ha hb => hinj a b ha hb) _ _ ?_ ?_ h2'
    · intro k hk; exact Rn.kid_mem_states hσ hk
    · intro k hk
      rcases mem_setAt _ _ _ _ hk with hk | hk
      · exact Rn.kid_mem_states hρ hk
      · rw [hk]; exact hr

/-- C04/C19: the greatest downward simulation does not depend on the numbering of the states -/
theorem downSim_equivariant (f : Nat → Nat) (A : TA) (hinj : InjOnStates f A) {q r : Nat}
    (hq : q ∈ A.states) (hr : r ∈ A.states) :
    (f q, f r) ∈ downSimRef (reindex f A) ↔ (q, r) ∈ downSimRef A := by
  constructor
  · intro h
    exact downSimRef_contains A _ (downSim_preimage f A hinj _ (downSimRef_sim (reindex f A))) q r hq hr ⟨hq, hr, h⟩
  · intro h
    exact downSimRef_contains (reindex f A) _ (downSim_image f A hinj _ (downSimRef_sim A)) (f q) (f r)
      (mem_states_reindex.mpr ⟨q, hq, rfl⟩) (mem_states_reindex.mpr ⟨r, hr, rfl⟩) ⟨q, r, hq, hr, h, rfl, rfl⟩

theorem upSim_equivariant (f : Nat → Nat) (A : TA) (hinj : InjOnStates f A) {q r : Nat}
    (hq : q ∈ A.states) (hr : r ∈ A.states) :
    (f q, f r) ∈ upSimRef (reindex f A) ↔ (q, r) ∈ upSimRef A := by
  constructor
  · intro h
    exact upSimRef_contains A _ (upSim_preimage f A hinj _ (upSimRef_sim (reindex f A))) q r hq hr ⟨hq, hr, h⟩
  · intro h
    exact upSimRef_contains (reindex f A) _ (upSim_image f A hinj _ (upSimRef_sim A)) (f q) (f r)
      (mem_states_reindex.mpr ⟨q, hq, rfl⟩) (mem_states_reindex.mpr ⟨r, hr, rfl⟩) ⟨q, r, hq, hr, h, rfl, rfl⟩

/-- the computed downward simulation of the renamed automaton is exactly the `f`-image of the computed relation -/
theorem downSimRef_reindex_image (f : Nat → Nat) (A : TA) (hinj : InjOnStates f A) (x y : Nat) :
    (x, y) ∈ downSimRef (reindex f A) ↔ ∃ q r, (q, r) ∈ downSimRef A ∧ x = f q ∧ y = f r := by
  constructor
  · intro h
    obtain ⟨hx, hy⟩ := downSimRef_sub _ h
    obtain ⟨q, hq, hxq⟩ := mem_states_reindex.mp hx
    obtain ⟨r, hr, hyr⟩ := mem_states_reindex.mp hy
    rw [hxq, hyr] at h
    exact ⟨q, r, (downSim_equivariant f A hinj hq hr).mp h, hxq, hyr⟩
  · rintro ⟨q, r, h, hx, hy⟩
    rw [hx, hy]
    exact (downSim_equivariant f A hinj (downSimRef_sub A h).1 (downSimRef_sub A h).2).mpr h

theorem upSimRef_reindex_image (f : Nat → Nat) (A : TA) (hinj : InjOnStates f A) (x y : Nat) :
    (x, y) ∈ upSimRef (reindex f A) ↔ ∃ q r, (q, r) ∈ upSimRef A ∧ x = f q ∧ y = f r := by
  constructor
  · intro h
    obtain ⟨hx, hy⟩ := upSimRef_sub _ h
    obtain ⟨q, hq, hxq⟩ := mem_states_reindex.mp hx
    obtain ⟨r, hr, hyr⟩ := mem_states_reindex.mp hy
    rw [hxq, hyr] at h
    exact ⟨q, r, (upSim_equivariant f A hinj hq hr).mp h, hxq, hyr⟩
  · rintro ⟨q, r, h, hx, hy⟩
    rw [hx, hy]
    exact (upSim_equivariant f A hinj (upSimRef_sub A h).1 (upSimRef_sub A h).2).mpr h

/-! ### 2. productive / reachable states, trimming -/

theorem productive_equivariant (f : Nat → Nat) (A : TA) (hinj : InjOnStates f A) {q : Nat} (hq : q ∈ A.states) :
    Productive (reindex f A) (f q) ↔ Productive A q := by
  constructor
  · rintro ⟨t, ht⟩; exact ⟨t, (reindex_inj_reach f A hinj t q hq).mp ht⟩
  · rintro ⟨t, ht⟩; exact ⟨t, reindex_mono f A t q ht⟩

namespace Eqv

theorem tdReachable_image (f : Nat → Nat) (A : TA) {q : Nat} (h : TdReachable A q) : TdReachable (reindex f A) (f q) := by
  induction h with
  | final hq => exact TdReachable.final ((reindex_final f A _).mpr ⟨_, hq, rfl⟩)
  | @step r k hr _ hk ih =>
    exact TdReachable.step (r := mapRule f r) ((reindex_rules f A _).mpr ⟨r, hr, rfl⟩) ih (List.mem_map.mpr ⟨k, hk, rfl⟩)

theorem tdReachable_preimage (f : Nat → Nat) (A : TA) (hinj : InjOnStates f A) {x : Nat}
    (h : TdReachable (reindex f A) x) : ∀ q, q ∈ A.states → x = f q → TdReachable A q := by
  induction h with
  | @final x hx =>
    intro q hq he
    obtain ⟨q0, hq0, he0⟩ := (reindex_final f A x).mp hx
    have : q0 = q := hinj _ _ (Rn.final_mem_states hq0) hq (he0.symm.trans he)
    rw [← this]; exact TdReachable.final hq0
  | @step r' k' hr' _ hk' ih =>
    intro q hq he
    obtain ⟨r, hr, her⟩ := (reindex_rules f A r').mp hr'
    rw [her] at hk' ih
    have hp : TdReachable A r.parent := ih r.parent (Rn.parent_mem_states hr) rfl
    obtain ⟨k, hk, hkk⟩ := List.mem_map.mp hk'
    have : k = q := hinj _ _ (Rn.kid_mem_states hr hk) hq (hkk.trans he)
    rw [← this]; exact TdReachable.step hr hp hk

theorem injOnStates_mono {f : Nat → Nat} {A B : TA} (hinj : InjOnStates f A) (hsub : ∀ q, q ∈ B.states → q ∈ A.states) :
    InjOnStates f B := fun q q' hq hq' h => hinj q q' (hsub q hq) (hsub q' hq') h

theorem states_restrict_sub {A : TA} {P : List Nat} {q : Nat} (h : q ∈ (restrict A P).states) : q ∈ A.states := by
  rcases Rn.mem_states.mp h with ⟨r, hr, hc⟩ | hf
  · exact Rn.mem_states.mpr (Or.inl ⟨r, (List.mem_filter.mp hr).1, hc⟩)
  · exact Rn.mem_states.mpr (Or.inr (List.mem_filter.mp hf).1)

theorem states_removeUseless_sub {A : TA} {q : Nat} (h : q ∈ (removeUseless A).states) : q ∈ A.states :=
  states_restrict_sub (PropAux.states_removeUnreachable_sub h)

/-- keeping the rules with parent in `S'` in the renamed automaton = renaming the automaton with the rules with parent
in `S`, when `S'` and `S` agree along `f` on the states -/
theorem keepParents_reindex_eq (f : Nat → Nat) (A : TA) (S S' : List Nat)
    (h : ∀ q, q ∈ A.states → S'.contains (f q) = S.contains q) :
    keepParents (reindex f A) S' = reindex f (keepParents A S) := by
  show (⟨(A.rules.map (mapRule f)).filter (fun r => S'.contains r.parent), A.final.map f⟩ : TA) =
    ⟨(A.rules.filter (fun r => S.contains r.parent)).map (mapRule f), A.final.map f⟩
  congr 1
  rw [List.filter_map]
  congr 1
  apply List.filter_congr
  intro r hr
  exact h _ (Rn.parent_mem_states hr)

theorem restrict_reindex_eq (f : Nat → Nat) (A : TA) (P P' : List Nat)
    (h : ∀ q, q ∈ A.states → P'.contains (f q) = P.contains q) :
    restrict (reindex f A) P' = reindex f (restrict A P) := by
  show (⟨(A.rules.map (mapRule f)).filter (fun r => P'.contains r.parent && r.kids.all (fun k => P'.contains k)),
      (A.final.map f).filter (fun q => P'.contains q)⟩ : TA) =
    ⟨(A.rules.filter (fun r => P.contains r.parent && r.kids.all (fun k => P.contains k))).map (mapRule f),
      (A.final.filter (fun q => P.contains q)).map f⟩
  congr 1
  · rw [List.filter_map]
    congr 1
    apply List.filter_congr
    intro r hr
    show (P'.contains (f r.parent) && (r.kids.map f).all (fun k => P'.contains k)) =
      (P.contains r.parent && r.kids.all (fun k => P.contains k))
    rw [h _ (Rn.parent_mem_states hr)]
    congr 1
    rw [Bool.eq_iff_iff, List.all_eq_true, List.all_eq_true]
    constructor
    · intro hh k hk
      rw [← h k (Rn.kid_mem_states hr hk)]
      exact hh (f k) (List.mem_map.mpr ⟨k, hk, rfl⟩)
    · intro hh k' hk'
      obtain ⟨k, hk, he⟩ := List.mem_map.mp hk'
      rw [← he, h k (Rn.kid_mem_states hr hk)]
      exact hh k hk
  · rw [List.filter_map]
    congr 1
    apply List.filter_congr
    intro q hq
    exact h q (Rn.final_mem_states hq)

theorem contains_congr {l l' : List Nat} {x y : Nat} (h : x ∈ l ↔ y ∈ l') : l.contains x = l'.contains y := by
  rw [Bool.eq_iff_iff, List.contains_iff_mem, List.contains_iff_mem]; exact h

end Eqv

theorem tdReachable_equivariant (f : Nat → Nat) (A : TA) (hinj : InjOnStates f A) {q : Nat} (hq : q ∈ A.states) :
    TdReachable (reindex f A) (f q) ↔ TdReachable A q :=
  ⟨fun h => tdReachable_preimage f A hinj h q hq rfl, tdReachable_image f A⟩

theorem prodStates_equivariant (f : Nat → Nat) (A : TA) (hinj : InjOnStates f A) {q : Nat} (hq : q ∈ A.states) :
    f q ∈ prodStates (reindex f A) ↔ q ∈ prodStates A := by
  rw [prodStates_iff, prodStates_iff, productive_equivariant f A hinj hq]

theorem tdReach_equivariant (f : Nat → Nat) (A : TA) (hinj : InjOnStates f A) {q : Nat} (hq : q ∈ A.states) :
    f q ∈ tdReach (reindex f A) ↔ q ∈ tdReach A := by
  rw [tdReach_iff, tdReach_iff, tdReachable_equivariant f A hinj hq]

/-- removing the unreachable states commutes with a renaming that is injective on the states (equality of automata) -/
theorem removeUnreachable_reindex_eq (f : Nat → Nat) (A : TA) (hinj : InjOnStates f A) :
    removeUnreachable (reindex f A) = reindex f (removeUnreachable A) := by
  rw [removeUnreachable_eq, removeUnreachable_eq]
  exact keepParents_reindex_eq f A _ _ (fun q hq => contains_congr (tdReach_equivariant f A hinj hq))

/-- removing the useless states commutes with a renaming that is injective on the states (equality of automata) -/
theorem removeUseless_reindex_eq (f : Nat → Nat) (A : TA) (hinj : InjOnStates f A) :
    removeUseless (reindex f A) = reindex f (removeUseless A) := by
  rw [removeUseless_eq, removeUseless_eq,
    restrict_reindex_eq f A (prodStates A) (prodStates (reindex f A))
      (fun q hq => contains_congr (prodStates_equivariant f A hinj hq))]
  exact removeUnreachable_reindex_eq f _ (injOnStates_mono hinj (fun q hq => states_restrict_sub hq))

/-- membership form: same rule set and same final set -/
theorem removeUnreachable_equivariant (f : Nat → Nat) (A : TA) (hinj : InjOnStates f A) :
    (∀ ρ, ρ ∈ (removeUnreachable (reindex f A)).rules ↔ ρ ∈ (reindex f (removeUnreachable A)).rules) ∧
    (∀ q, q ∈ (removeUnreachable (reindex f A)).final ↔ q ∈ (reindex f (removeUnreachable A)).final) := by
  rw [removeUnreachable_reindex_eq f A hinj]
  exact ⟨fun _ => Iff.rfl, fun _ => Iff.rfl⟩

theorem removeUseless_equivariant (f : Nat → Nat) (A : TA) (hinj : InjOnStates f A) :
    (∀ ρ, ρ ∈ (removeUseless (reindex f A)).rules ↔ ρ ∈ (reindex f (removeUseless A)).rules) ∧
    (∀ q, q ∈ (removeUseless (reindex f A)).final ↔ q ∈ (reindex f (removeUseless A)).final) := by
  rw [removeUseless_reindex_eq f A hinj]
  exact ⟨fun _ => Iff.rfl, fun _ => Iff.rfl⟩

/-- in the Boolean form used by the driver -/
theorem removeUseless_equivariant_taEq (f : Nat → Nat) (A : TA) (hinj : InjOnStates f A) :
    taEq (removeUseless (reindex f A)) (reindex f (removeUseless A)) = true := by
  rw [removeUseless_reindex_eq f A hinj]
  simp only [taEq, rulesEq, rulesSub, Bool.and_self, Bool.and_eq_true, List.all_eq_true, List.contains_iff_mem, seteq, subB]
  exact ⟨fun r hr => hr, fun q hq => hq⟩

/-- C19: the number of states produced by trimming is unchanged under renaming -/
theorem trim_states_length_equivariant (f : Nat → Nat) (A : TA) (hinj : InjOnStates f A) :
    (removeUseless (reindex f A)).states.length = (removeUseless A).states.length := by
  rw [removeUseless_reindex_eq f A hinj]
  exact reindex_states_length f _ (injOnStates_mono hinj (fun q hq => states_removeUseless_sub hq))

theorem unreach_states_length_equivariant (f : Nat → Nat) (A : TA) (hinj : InjOnStates f A) :
    (removeUnreachable (reindex f A)).states.length = (removeUnreachable A).states.length := by
  rw [removeUnreachable_reindex_eq f A hinj]
  exact reindex_states_length f _ (injOnStates_mono hinj (fun q hq => PropAux.states_removeUnreachable_sub hq))

/-- … and so are the numbers of rules -/
theorem trim_rules_length_equivariant (f : Nat → Nat) (A : TA) (hinj : InjOnStates f A) :
    (removeUseless (reindex f A)).rules.length = (removeUseless A).rules.length := by
  rw [removeUseless_reindex_eq f A hinj, reindex_rules_length]

/-! ### 4. renumbering of the symbols -/

-- a tree on which the renumbered automaton reaches a state is the renumbering of a tree: every symbol of it is the
-- image of the symbol of a rule
mutual
theorem translateSymbols_reach_image (g : Nat → Nat) (A : TA) :
    ∀ (t' : Tree) (q : Nat), q ∈ reach (translateSymbols g A) t' → ∃ t, Tree.mapSyms g t = t'
  | .node f' ts', q => by
    rw [reach, mem_post']
    rintro ⟨r', hr', hs, hm, _⟩
    obtain ⟨r, _, he⟩ := List.mem_map.mp hr'
    obtain ⟨ts, hts⟩ := translateSymbols_reachL_image g A ts' r'.kids hm
    refine ⟨.node r.sym ts, ?_⟩
    rw [Tree.mapSyms, hts, ← hs, ← he]
    rfl
theorem translateSymbols_reachL_image (g : Nat → Nat) (A : TA) :
    ∀ (ts' : List Tree) (ks : List Nat), matchKids ks (reachL (translateSymbols g A) ts') = true →
      ∃ ts, Tree.mapSymsL g ts = ts'
  | [], _, _ => ⟨[], by rw [Tree.mapSymsL]⟩
  | _ :: _, [], h => by simp [reachL, matchKids] at h
  | t' :: ts', k :: ks, h => by
    simp only [reachL, matchKids, Bool.and_eq_true, List.contains_iff_mem] at h
    obtain ⟨t, ht⟩ := translateSymbols_reach_image g A t' k h.1
    obtain ⟨ts, hts⟩ := translateSymbols_reachL_image g A ts' ks h.2
    exact ⟨t :: ts, by rw [Tree.mapSymsL, ht, hts]⟩
end

/-- `reach` of the renumbered automaton is empty on every tree that is not a renumbered tree (in particular on every
tree containing a symbol outside the image of `g`) -/
theorem translateSymbols_reach_outside (g : Nat → Nat) (A : TA) (t' : Tree) (h : ¬ ∃ t, Tree.mapSyms g t = t') :
    reach (translateSymbols g A) t' = [] := by
  cases hr : reach (translateSymbols g A) t' with
  | nil => rfl
  | cons q l =>
    exact absurd (translateSymbols_reach_image g A t' q (by rw [hr]; exact List.mem_cons_self)) h

/-- the renumbered automaton accepts only renumbered trees -/
theorem translateSymbols_accepts_image (g : Nat → Nat) (A : TA) (t' : Tree)
    (h : accepts (translateSymbols g A) t' = true) : ∃ t, Tree.mapSyms g t = t' := by
  simp only [accepts, accepting, List.any_eq_true] at h
  obtain ⟨q, hq, _⟩ := h
  exact translateSymbols_reach_image g A t' q hq

/-- C19: renumbering the symbols by an injective map does not change the inclusion verdict -/
theorem incl_symbol_equivariant (g : Nat → Nat) (hg : ∀ a b, g a = g b → a = b) (A B : TA) :
    Incl (translateSymbols g A) (translateSymbols g B) ↔ Incl A B := by
  constructor
  · intro h t ht
    rw [← translateSymbols_lang g hg B t]
    exact h _ (by rw [translateSymbols_lang g hg A t]; exact ht)
  · intro h t' ht'
    obtain ⟨t, he⟩ := translateSymbols_accepts_image g A t' ht'
    rw [← he] at ht' ⊢
    rw [translateSymbols_lang g hg A t] at ht'
    rw [translateSymbols_lang g hg B t]
    exact h t ht'

/-- … nor the emptiness verdict -/
theorem empty_symbol_equivariant (g : Nat → Nat) (hg : ∀ a b, g a = g b → a = b) (A : TA) :
    LangEmpty (translateSymbols g A) ↔ LangEmpty A := by
  constructor
  · intro h t
    rw [← translateSymbols_lang g hg A t]; exact h _
  · intro h t'
    cases ha : accepts (translateSymbols g A) t' with
    | false => rfl
    | true =>
      obtain ⟨t, he⟩ := translateSymbols_accepts_image g A t' ha
      rw [← he, translateSymbols_lang g hg A t, h t] at ha
      exact ha.symm

/-- … nor an equivalence verdict -/
theorem langEq_symbol_equivariant (g : Nat → Nat) (hg : ∀ a b, g a = g b → a = b) (A B : TA) :
    LangEq (translateSymbols g A) (translateSymbols g B) ↔ LangEq A B := by
  constructor
  · intro h t
    rw [← translateSymbols_lang g hg A t, ← translateSymbols_lang g hg B t]; exact h _
  · intro h t'
    rw [Bool.eq_iff_iff]
    have hi := incl_symbol_equivariant g hg A B
    have hi' := incl_symbol_equivariant g hg B A
    exact ⟨hi.mpr (fun t ht => by rw [← h t]; exact ht) t', hi'.mpr (fun t ht => by rw [h t]; exact ht) t'⟩

/-! ### 3. the size of the quotient -/

/-- `p` and `q` are related both ways -/
def simEquivB (R : Rel) (p q : Nat) : Bool := R.contains (p, q) && R.contains (q, p)

/-- one step of the fold: `q` becomes a new representative unless it is equivalent to one already chosen -/
def repStep (R : Rel) (reps : List Nat) (q : Nat) : List Nat :=
  if reps.any (fun p => simEquivB R p q) then reps else reps ++ [q]

def classRepsFrom (R : Rel) (reps : List Nat) (Q : List Nat) : List Nat := Q.foldl (repStep R) reps

/-- representatives (first members in the order of `Q`) of the classes of `R ∩ R⁻¹` on `Q` -/
def classReps (R : Rel) (Q : List Nat) : List Nat := classRepsFrom R [] Q

/-- the number of classes of downward-simulation equivalence on the states of `A` -/
def simClasses (A : TA) : Nat := (classReps (downSimRef A) A.states).length

/-- the representative of the class of `q` (the first state of `A.states` equivalent to it) -/
def repOf (A : TA) (q : Nat) : Nat :=
  ((classReps (downSimRef A) A.states).find? (fun p => simEquivB (downSimRef A) p q)).getD q

/-- the model of `Reduce` with this canonical choice of representatives -/
def reduceRef (A : TA) : TA := removeUnreachable (reindex (repOf A) A)

namespace Eqv

theorem simEquivB_iff {R : Rel} {p q : Nat} : simEquivB R p q = true ↔ (p, q) ∈ R ∧ (q, p) ∈ R := by
  simp only [simEquivB, Bool.and_eq_true, List.contains_iff_mem]

theorem classRepsFrom_nil (R : Rel) (reps : List Nat) : classRepsFrom R reps [] = reps := rfl

theorem classRepsFrom_cons (R : Rel) (reps : List Nat) (q : Nat) (Q : List Nat) :
    classRepsFrom R reps (q :: Q) = classRepsFrom R (repStep R reps q) Q := rfl

theorem any_congr_mem {p p' : Nat → Bool} : ∀ (l : List Nat), (∀ a, a ∈ l → p a = p' a) → l.any p = l.any p'
  | [], _ => rfl
  | a :: l, h => by
    rw [List.any_cons, List.any_cons, h a List.mem_cons_self,
      any_congr_mem l (fun b hb => h b (List.mem_cons_of_mem _ hb))]

theorem find?_congr_mem {p p' : Nat → Bool} : ∀ (l : List Nat), (∀ a, a ∈ l → p a = p' a) → l.find? p = l.find? p'
  | [], _ => rfl
  | a :: l, h => by
    rw [List.find?_cons, List.find?_cons, h a List.mem_cons_self,
      find?_congr_mem l (fun b hb => h b (List.mem_cons_of_mem _ hb))]

theorem mem_repStep {R : Rel} {reps : List Nat} {q x : Nat} (h : x ∈ repStep R reps q) : x ∈ reps ∨ x = q := by
  unfold repStep at h
  split at h
  · exact Or.inl h
  · simpa using h

theorem repStep_sub {R : Rel} {reps : List Nat} {q x : Nat} (h : x ∈ reps) : x ∈ repStep R reps q := by
  unfold repStep
  split
  · exact h
  · exact List.mem_append_left _ h

/-- after the step, `q` has a representative (needs `q ~ q`) -/
theorem repStep_covers {R : Rel} {reps : List Nat} {q : Nat} (hrefl : simEquivB R q q = true) :
    ∃ p, p ∈ repStep R reps q ∧ simEquivB R p q = true := by
  unfold repStep
  split
  · rename_i h
    obtain ⟨p, hp, hpq⟩ := List.any_eq_true.mp h
    exact ⟨p, hp, hpq⟩
  · exact ⟨q, List.mem_append_right _ List.mem_cons_self, hrefl⟩

theorem classRepsFrom_sub (R : Rel) : ∀ (Q reps : List Nat) (x : Nat), x ∈ reps → x ∈ classRepsFrom R reps Q
  | [], _, _, h => h
  | q :: Q, reps, x, h => by
    rw [classRepsFrom_cons]; exact classRepsFrom_sub R Q _ x (repStep_sub h)

theorem mem_classRepsFrom (R : Rel) : ∀ (Q reps : List Nat) (x : Nat), x ∈ classRepsFrom R reps Q → x ∈ reps ∨ x ∈ Q
  | [], _, _, h => Or.inl h
  | q :: Q, reps, x, h => by
    rw [classRepsFrom_cons] at h
    rcases mem_classRepsFrom R Q _ x h with h | h
    · rcases mem_repStep h with h | h
      · exact Or.inl h
      · exact Or.inr (h ▸ List.mem_cons_self)
    · exact Or.inr (List.mem_cons_of_mem _ h)

theorem classRepsFrom_covers (R : Rel) : ∀ (Q reps : List Nat), (∀ q, q ∈ Q → simEquivB R q q = true) →
    ∀ q, q ∈ Q → ∃ p, p ∈ classRepsFrom R reps Q ∧ simEquivB R p q = true
  | [], _, _, q, hq => by cases hq
  | q0 :: Q, reps, hrefl, q, hq => by
    rw [classRepsFrom_cons]
    rcases List.mem_cons.mp hq with hq | hq
    · obtain ⟨p, hp, hpq⟩ := repStep_covers (reps := reps) (hrefl q0 List.mem_cons_self)
      exact ⟨p, classRepsFrom_sub R Q _ p hp, hq ▸ hpq⟩
    · exact classRepsFrom_covers R Q _ (fun q' hq' => hrefl q' (List.mem_cons_of_mem _ hq')) q hq

theorem mem_classReps {R : Rel} {Q : List Nat} {x : Nat} (h : x ∈ classReps R Q) : x ∈ Q := by
  rcases mem_classRepsFrom R Q [] x h with h | h
  · cases h
  · exact h

/-- the fold commutes with a map that preserves and reflects the equivalence on a set `X` containing everything -/
theorem classRepsFrom_map (R R' : Rel) (f : Nat → Nat) (X : Nat → Prop)
    (he : ∀ p q, X p → X q → simEquivB R' (f p) (f q) = simEquivB R p q) :
    ∀ (Q reps : List Nat), (∀ q, q ∈ Q → X q) → (∀ p, p ∈ reps → X p) →
      classRepsFrom R' (reps.map f) (Q.map f) = (classRepsFrom R reps Q).map f
  | [], _, _, _ => rfl
  | q :: Q, reps, hQ, hreps => by
    rw [List.map_cons, classRepsFrom_cons, classRepsFrom_cons]
    have hstep : repStep R' (reps.map f) (f q) = (repStep R reps q).map f := by
      unfold repStep
      have hany : (reps.map f).any (fun p => simEquivB R' p (f q)) = reps.any (fun p => simEquivB R p q) := by
        rw [List.any_map]
        exact any_congr_mem reps (fun p hp => he p q (hreps p hp) (hQ q List.mem_cons_self))
      rw [hany]
      split
      · rfl
      · simp only [List.map_append, List.map_cons, List.map_nil]
    rw [hstep]
    apply classRepsFrom_map R R' f X he Q _ (fun q' hq' => hQ q' (List.mem_cons_of_mem _ hq'))
    intro p hp
    rcases mem_repStep hp with hp | hp
    · exact hreps p hp
    · rw [hp]; exact hQ q List.mem_cons_self

theorem simEquivB_equivariant (f : Nat → Nat) (A : TA) (hinj : InjOnStates f A) {p q : Nat}
    (hp : p ∈ A.states) (hq : q ∈ A.states) :
    simEquivB (downSimRef (reindex f A)) (f p) (f q) = simEquivB (downSimRef A) p q := by
  rw [Bool.eq_iff_iff, simEquivB_iff, simEquivB_iff, downSim_equivariant f A hinj hp hq,
    downSim_equivariant f A hinj hq hp]

theorem simEquivB_refl (A : TA) {q : Nat} (hq : q ∈ A.states) : simEquivB (downSimRef A) q q = true :=
  simEquivB_iff.mpr ⟨(greatest_downSim_preorder A).1 q hq, (greatest_downSim_preorder A).1 q hq⟩

theorem simEquivB_symm {R : Rel} {p q : Nat} (h : simEquivB R p q = true) : simEquivB R q p = true :=
  simEquivB_iff.mpr ⟨(simEquivB_iff.mp h).2, (simEquivB_iff.mp h).1⟩

theorem simEquivB_trans (A : TA) {p q r : Nat} (h1 : simEquivB (downSimRef A) p q = true)
    (h2 : simEquivB (downSimRef A) q r = true) : simEquivB (downSimRef A) p r = true := by
  rw [simEquivB_iff] at h1 h2 ⊢
  exact ⟨(greatest_downSim_preorder A).2 _ _ _ h1.1 h2.1, (greatest_downSim_preorder A).2 _ _ _ h2.2 h1.2⟩

theorem classReps_reindex (f : Nat → Nat) (A : TA) (hinj : InjOnStates f A) :
    classReps (downSimRef (reindex f A)) (reindex f A).states = (classReps (downSimRef A) A.states).map f := by
  rw [reindex_states_eq f A hinj]
  exact classRepsFrom_map (downSimRef A) (downSimRef (reindex f A)) f (fun q => q ∈ A.states)
    (fun p q hp hq => simEquivB_equivariant f A hinj hp hq) A.states [] (fun _ h => h) (fun _ h => by cases h)

/-- every state has a representative among `classReps` -/
theorem classReps_covers (A : TA) {q : Nat} (hq : q ∈ A.states) :
    ∃ p, p ∈ classReps (downSimRef A) A.states ∧ simEquivB (downSimRef A) p q = true :=
  classRepsFrom_covers (downSimRef A) A.states [] (fun _ h => simEquivB_refl A h) q hq

theorem repOf_spec (A : TA) {q : Nat} (hq : q ∈ A.states) :
    repOf A q ∈ classReps (downSimRef A) A.states ∧ simEquivB (downSimRef A) (repOf A q) q = true := by
  unfold repOf
  cases hfind : (classReps (downSimRef A) A.states).find? (fun p => simEquivB (downSimRef A) p q) with
  | none =>
    obtain ⟨p, hp, hpq⟩ := classReps_covers A hq
    exact absurd hpq (List.find?_eq_none.mp hfind p hp)
  | some p =>
    have h2 : simEquivB (downSimRef A) p q = true :=
      List.find?_some (p := fun p => simEquivB (downSimRef A) p q) hfind
    exact ⟨List.mem_of_find?_eq_some hfind, h2⟩

theorem repOf_mem_states (A : TA) {q : Nat} (hq : q ∈ A.states) : repOf A q ∈ A.states :=
  mem_classReps (repOf_spec A hq).1

/-- equivalent states have the same representative -/
theorem repOf_const (A : TA) {p q : Nat} (h : simEquivB (downSimRef A) p q = true) : repOf A p = repOf A q := by
  have hq : q ∈ A.states := (downSimRef_sub A (simEquivB_iff.mp h).1).2
  have hfind : (classReps (downSimRef A) A.states).find? (fun x => simEquivB (downSimRef A) x p) =
      (classReps (downSimRef A) A.states).find? (fun x => simEquivB (downSimRef A) x q) := by
    apply find?_congr_mem
    intro x _
    rw [Bool.eq_iff_iff]
    exact ⟨fun hx => simEquivB_trans A hx h, fun hx => simEquivB_trans A hx (simEquivB_symm h)⟩
  obtain ⟨x, hx, hxq⟩ := classReps_covers A hq
  unfold repOf
  rw [hfind]
  cases hf : (classReps (downSimRef A) A.states).find? (fun x => simEquivB (downSimRef A) x q) with
  | none => exact absurd hxq (List.find?_eq_none.mp hf x hx)
  | some y => rfl

theorem reindex_comp (h f : Nat → Nat) (A : TA) : reindex h (reindex f A) = reindex (fun q => h (f q)) A := by
  simp only [reindex, List.map_map, TA.mk.injEq]
  refine ⟨?_, rfl⟩
  apply List.map_congr_left
  intro r _
  simp only [Function.comp, mapRule, List.map_map]
  rfl

theorem repOf_reindex (f : Nat → Nat) (A : TA) (hinj : InjOnStates f A) {q : Nat} (hq : q ∈ A.states) :
    repOf (reindex f A) (f q) = f (repOf A q) := by
  unfold repOf
  rw [classReps_reindex f A hinj, List.find?_map, Option.getD_map]
  congr 2
  apply find?_congr_mem
  intro p hp
  exact simEquivB_equivariant f A hinj (mem_classReps hp) hq

end Eqv

/-- the number of simulation-equivalence classes does not depend on the numbering of the states -/
theorem simClasses_equivariant (f : Nat → Nat) (A : TA) (hinj : InjOnStates f A) :
    simClasses (reindex f A) = simClasses A := by
  unfold simClasses
  rw [classReps_reindex f A hinj, List.length_map]

theorem simClasses_le_states (A : TA) : simClasses A ≤ A.states.length := by
  unfold simClasses classReps
  suffices h : ∀ (Q reps : List Nat), (classRepsFrom (downSimRef A) reps Q).length ≤ reps.length + Q.length by
    simpa using h A.states []
  intro Q
  induction Q with
  | nil => intro reps; simp [classRepsFrom_nil]
  | cons q Q ih =>
    intro reps
    rw [classRepsFrom_cons]
    have := ih (repStep (downSimRef A) reps q)
    have h2 : (repStep (downSimRef A) reps q).length ≤ reps.length + 1 := by
      unfold repStep; split <;> simp
    simp only [List.length_cons]
    omega

/-- C05: for a collapse map that sends equivalent states to the same state, the model of `Reduce` has at most as many
states as there are simulation-equivalence classes -/
theorem reduce_states_le_simClasses (A : TA) (h : Nat → Nat)
    (hconst : ∀ p q, (p, q) ∈ downSimRef A → (q, p) ∈ downSimRef A → h p = h q) :
    (removeUnreachable (reindex h A)).states.length ≤ simClasses A := by
  have hsub : (removeUnreachable (reindex h A)).states ⊆ (classReps (downSimRef A) A.states).map h := by
    intro x hx
    obtain ⟨q, hq, he⟩ := PropAux.states_reduce hx
    obtain ⟨p, hp, hpq⟩ := classReps_covers A hq
    rw [simEquivB_iff] at hpq
    exact List.mem_map.mpr ⟨p, hp, by rw [he]; exact hconst p q hpq.1 hpq.2⟩
  have := (PropAux.nodup_states _).length_le_of_subset hsub
  rwa [List.length_map] at this

/-- the canonical representative map `repOf A` satisfies the hypothesis of `reduce_lang` (C05) … -/
theorem repOf_equiv (A : TA) : ∀ q, q ∈ A.states → (q, repOf A q) ∈ downSimRef A ∧ (repOf A q, q) ∈ downSimRef A := by
  intro q hq
  have := simEquivB_iff.mp (repOf_spec A hq).2
  exact ⟨this.2, this.1⟩

/-- … and is constant on the classes -/
theorem repOf_const (A : TA) : ∀ p q, (p, q) ∈ downSimRef A → (q, p) ∈ downSimRef A → repOf A p = repOf A q :=
  fun _ _ h1 h2 => Eqv.repOf_const A (simEquivB_iff.mpr ⟨h1, h2⟩)

theorem reduceRef_lang (A : TA) : LangEq (reduceRef A) A :=
  fun t => reduce_trim_lang removeUnreachable_lang A (repOf A) (repOf_equiv A) t

theorem reduceRef_states_le_simClasses (A : TA) : (reduceRef A).states.length ≤ simClasses A :=
  reduce_states_le_simClasses A (repOf A) (repOf_const A)

/-- the model of `Reduce` with the canonical representatives commutes with a renaming injective on the states -/
theorem reduceRef_reindex_eq (f : Nat → Nat) (A : TA) (hinj : InjOnStates f A) :
    reduceRef (reindex f A) = reindex f (reduceRef A) := by
  unfold reduceRef
  have h1 : reindex (repOf (reindex f A)) (reindex f A) = reindex f (reindex (repOf A) A) := by
    rw [reindex_comp, reindex_comp]
    exact SimModel.reindex_congr A _ _ (fun q hq => repOf_reindex f A hinj hq)
  rw [h1]
  apply removeUnreachable_reindex_eq
  apply injOnStates_mono hinj
  intro x hx
  obtain ⟨q, hq, he⟩ := mem_states_reindex.mp hx
  rw [he]; exact repOf_mem_states A hq

theorem reduceRef_states_sub (A : TA) {x : Nat} (hx : x ∈ (reduceRef A).states) : x ∈ A.states := by
  obtain ⟨q, hq, he⟩ := PropAux.states_reduce hx
  rw [he]; exact repOf_mem_states A hq

/-- C19: the number of states (and of rules) produced by reduction is unchanged under renaming -/
theorem reduceRef_states_length_equivariant (f : Nat → Nat) (A : TA) (hinj : InjOnStates f A) :
    (reduceRef (reindex f A)).states.length = (reduceRef A).states.length := by
  rw [reduceRef_reindex_eq f A hinj]
  exact reindex_states_length f _ (injOnStates_mono hinj (fun x hx => reduceRef_states_sub A hx))

theorem reduceRef_rules_length_equivariant (f : Nat → Nat) (A : TA) (hinj : InjOnStates f A) :
    (reduceRef (reindex f A)).rules.length = (reduceRef A).rules.length := by
  rw [reduceRef_reindex_eq f A hinj, reindex_rules_length]

/-! ### the choice of the representatives does not matter -/

/-- `h` is a quotient projection for downward-simulation equivalence on the states of `A`: every state is sent to an
equivalent state, and equivalent states are sent to the same state -/
def IsQuotProj (A : TA) (h : Nat → Nat) : Prop :=
  (∀ q, q ∈ A.states → (q, h q) ∈ downSimRef A ∧ (h q, q) ∈ downSimRef A) ∧
  (∀ p q, (p, q) ∈ downSimRef A → (q, p) ∈ downSimRef A → h p = h q)

theorem repOf_isQuotProj (A : TA) : IsQuotProj A (repOf A) := ⟨repOf_equiv A, repOf_const A⟩

namespace Eqv

/-- the map between the representatives chosen by `h` and those chosen by `h'` -/
def transfer (A : TA) (h h' : Nat → Nat) (x : Nat) : Nat :=
  match A.states.find? (fun q => h q == x) with
  | some q => h' q
  | none => x

theorem quotProj_same_class {A : TA} {h : Nat → Nat} (hh : IsQuotProj A h) {p q : Nat} (hp : p ∈ A.states)
    (hq : q ∈ A.states) (he : h p = h q) : (p, q) ∈ downSimRef A ∧ (q, p) ∈ downSimRef A := by
  have h1 := hh.1 p hp
  have h2 := hh.1 q hq
  rw [he] at h1
  exact ⟨(greatest_downSim_preorder A).2 _ _ _ h1.1 h2.2, (greatest_downSim_preorder A).2 _ _ _ h2.1 h1.2⟩

theorem transfer_spec {A : TA} {h h' : Nat → Nat} (hh : IsQuotProj A h) (hh' : IsQuotProj A h') {q : Nat}
    (hq : q ∈ A.states) : transfer A h h' (h q) = h' q := by
  unfold transfer
  cases hfind : A.states.find? (fun q' => h q' == h q) with
  | none =>
    have := List.find?_eq_none.mp hfind q hq
    simp at this
  | some q0 =>
    have h0 : h q0 = h q := by
      have := List.find?_some (p := fun q' => h q' == h q) hfind
      exact beq_iff_eq.mp this
    have hq0 : q0 ∈ A.states := List.mem_of_find?_eq_some hfind
    have hc := quotProj_same_class hh hq0 hq h0
    exact hh'.2 q0 q hc.1 hc.2

theorem transfer_inj {A : TA} {h h' : Nat → Nat} (hh : IsQuotProj A h) (hh' : IsQuotProj A h') :
    InjOnStates (transfer A h h') (reindex h A) := by
  intro x y hx hy he
  obtain ⟨q, hq, hxq⟩ := mem_states_reindex.mp hx
  obtain ⟨p, hp, hyp⟩ := mem_states_reindex.mp hy
  rw [hxq, hyp, transfer_spec hh hh' hq, transfer_spec hh hh' hp] at he
  have hc := quotProj_same_class hh' hq hp he
  rw [hxq, hyp]
  exact hh.2 q p hc.1 hc.2

theorem transfer_reindex {A : TA} {h h' : Nat → Nat} (hh : IsQuotProj A h) (hh' : IsQuotProj A h') :
    reindex h' A = reindex (transfer A h h') (reindex h A) := by
  rw [reindex_comp]
  exact SimModel.reindex_congr A _ _ (fun q hq => (transfer_spec hh hh' hq).symm)

end Eqv

/-- two quotient projections give the same automaton up to a renaming that is injective on its states -/
theorem quotient_choice_independent (A : TA) (h h' : Nat → Nat) (hh : IsQuotProj A h) (hh' : IsQuotProj A h') :
    ∃ π, InjOnStates π (reindex h A) ∧ reindex h' A = reindex π (reindex h A) :=
  ⟨transfer A h h', transfer_inj hh hh', transfer_reindex hh hh'⟩

/-- hence the size of the model of `Reduce` does not depend on which representatives are chosen -/
theorem reduce_size_choice_independent (A : TA) (h h' : Nat → Nat) (hh : IsQuotProj A h) (hh' : IsQuotProj A h') :
    (removeUnreachable (reindex h' A)).states.length = (removeUnreachable (reindex h A)).states.length ∧
    (removeUnreachable (reindex h' A)).rules.length = (removeUnreachable (reindex h A)).rules.length := by
  rw [transfer_reindex hh hh', removeUnreachable_reindex_eq _ _ (transfer_inj hh hh'), reindex_rules_length]
  exact ⟨reindex_states_length _ _
    (injOnStates_mono (transfer_inj hh hh') (fun q hq => PropAux.states_removeUnreachable_sub hq)), rfl⟩

/-- C19 for every choice of representatives: the numbers of states and rules produced by reduction are unchanged
under a renaming injective on the states, whatever quotient projections are used on the two sides -/
theorem reduce_size_equivariant (f : Nat → Nat) (A : TA) (hinj : InjOnStates f A) (h h' : Nat → Nat)
    (hh : IsQuotProj A h) (hh' : IsQuotProj (reindex f A) h') :
    (removeUnreachable (reindex h' (reindex f A))).states.length = (removeUnreachable (reindex h A)).states.length ∧
    (removeUnreachable (reindex h' (reindex f A))).rules.length = (removeUnreachable (reindex h A)).rules.length := by
  have h1 := reduce_size_choice_independent (reindex f A) (repOf (reindex f A)) h' (repOf_isQuotProj _) hh'
  have h2 := reduce_size_choice_independent A h (repOf A) hh (repOf_isQuotProj A)
  have h3 := reduceRef_states_length_equivariant f A hinj
  have h4 := reduceRef_rules_length_equivariant f A hinj
  unfold reduceRef at h3 h4
  exact ⟨h1.1.trans (h3.trans h2.1), h1.2.trans (h4.trans h2.2)⟩

/-- the size of the model of `Reduce` is bounded by the number of classes for every quotient projection -/
theorem reduce_states_le_simClasses' (A : TA) (h : Nat → Nat) (hh : IsQuotProj A h) :
    (removeUnreachable (reindex h A)).states.length ≤ simClasses A := reduce_states_le_simClasses A h hh.2

/-! ### non-vacuity: concrete inputs satisfying the hypotheses, and both sides of the equivalences exercised -/

namespace EqvEx

/-- a renaming that is injective on `0..4` and reverses the order (so it is not monotone) -/
def exF : Nat → Nat := fun q => 40 - 7 * q

theorem exF_inj (A : TA) (hA : ∀ q, q ∈ A.states → q ≤ 5) : InjOnStates exF A := by
  intro q q' hq hq' h
  have h1 := hA q hq
  have h2 := hA q' hq'
  simp only [exF] at h
  omega

theorem exF_inj_simA : InjOnStates exF SimModel.exA := exF_inj _ (by decide)
theorem exF_inj_trimA : InjOnStates exF TrimEx.exA := exF_inj _ (by decide)

example : (reindex exF SimModel.exA).states = [40, 33, 26, 19, 12] := by decide

-- 1: simulations.  `2 ≤ 3` and `0 ≤ 1` downward, `4 ≰ 2`; `3 ≤ 2`, `4 ≤ 0` upward, `0 ≰ 1`
example : DownSim SimModel.exA (RelOf (downSimRef SimModel.exA)) ∧ 2 ∈ SimModel.exA.states ∧ 3 ∈ SimModel.exA.states :=
  ⟨downSimRef_sim _, by decide, by decide⟩
example : DownSim (reindex exF SimModel.exA) (Eqv.ImageRel exF SimModel.exA (RelOf (downSimRef SimModel.exA))) :=
  downSim_image exF _ exF_inj_simA _ (downSimRef_sim _)
example : DownSim SimModel.exA (Eqv.PreimageRel exF SimModel.exA (RelOf (downSimRef (reindex exF SimModel.exA)))) :=
  downSim_preimage exF _ exF_inj_simA _ (downSimRef_sim _)
example : IsUpSim (reindex exF SimModel.exA) (Eqv.ImageRel exF SimModel.exA (RelOf (upSimRef SimModel.exA))) :=
  upSim_image exF _ exF_inj_simA _ (upSimRef_sim _)
example : IsUpSim SimModel.exA (Eqv.PreimageRel exF SimModel.exA (RelOf (upSimRef (reindex exF SimModel.exA)))) :=
  upSim_preimage exF _ exF_inj_simA _ (upSimRef_sim _)
example : (exF 2, exF 3) ∈ downSimRef (reindex exF SimModel.exA) :=
  (downSim_equivariant exF _ exF_inj_simA (by decide) (by decide)).mpr (by decide)
example : (exF 4, exF 2) ∉ downSimRef (reindex exF SimModel.exA) :=
  fun h => absurd ((downSim_equivariant exF _ exF_inj_simA (by decide) (by decide)).mp h) (by decide)
example : (26, 19) ∈ downSimRef (reindex exF SimModel.exA) ∧ (12, 26) ∉ downSimRef (reindex exF SimModel.exA) := by decide
example : (exF 3, exF 2) ∈ upSimRef (reindex exF SimModel.exA) :=
  (upSim_equivariant exF _ exF_inj_simA (by decide) (by decide)).mpr (by decide)
example : (exF 0, exF 1) ∉ upSimRef (reindex exF SimModel.exA) :=
  fun h => absurd ((upSim_equivariant exF _ exF_inj_simA (by decide) (by decide)).mp h) (by decide)
example : ∃ q r, (q, r) ∈ downSimRef SimModel.exA ∧ 26 = exF q ∧ 19 = exF r :=
  (downSimRef_reindex_image exF _ exF_inj_simA 26 19).mp (by decide)
example : ∃ q r, (q, r) ∈ upSimRef SimModel.exA ∧ 19 = exF q ∧ 26 = exF r :=
  (upSimRef_reindex_image exF _ exF_inj_simA 19 26).mp (by decide)
/-- injectivity matters: collapsing `2` and `4` relates the images of `3` and `4` although `(3, 4)` is not in the
simulation -/
example : let c : Nat → Nat := fun q => if q = 4 then 2 else q
    (c 3, c 4) ∈ downSimRef (reindex c SimModel.exA) ∧ (3, 4) ∉ downSimRef SimModel.exA ∧
      3 ∈ SimModel.exA.states ∧ 4 ∈ SimModel.exA.states := by decide

-- 2: trimming.  In `TrimEx.exA` the states `2`, `3` are unproductive, `4`, `5` are unreachable
example : TrimEx.exA.states = [0, 1, 3, 2, 4, 5] := by decide
example : Productive (reindex exF TrimEx.exA) (exF 5) :=
  (productive_equivariant exF _ exF_inj_trimA (by decide)).mpr ((prodStates_iff _ _).mp (by decide))
example : ¬ Productive (reindex exF TrimEx.exA) (exF 3) := fun h =>
  absurd ((prodStates_iff _ _).mpr ((productive_equivariant exF _ exF_inj_trimA (by decide)).mp h)) (by decide)
example : TdReachable (reindex exF TrimEx.exA) (exF 2) :=
  (tdReachable_equivariant exF _ exF_inj_trimA (by decide)).mpr ((tdReach_iff _ _).mp (by decide))
example : ¬ TdReachable (reindex exF TrimEx.exA) (exF 5) := fun h =>
  absurd ((tdReach_iff _ _).mpr ((tdReachable_equivariant exF _ exF_inj_trimA (by decide)).mp h)) (by decide)
example : exF 5 ∈ prodStates (reindex exF TrimEx.exA) ∧ exF 3 ∉ prodStates (reindex exF TrimEx.exA) ∧
    exF 2 ∈ tdReach (reindex exF TrimEx.exA) ∧ exF 5 ∉ tdReach (reindex exF TrimEx.exA) := by decide
example : removeUseless (reindex exF TrimEx.exA) = reindex exF (removeUseless TrimEx.exA) :=
  removeUseless_reindex_eq exF _ exF_inj_trimA
example : (removeUseless (reindex exF TrimEx.exA)).rules = [⟨0, [], 40⟩, ⟨1, [40, 40], 33⟩] ∧
    (removeUseless (reindex exF TrimEx.exA)).final = [33] ∧ (reindex exF TrimEx.exA).rules.length = 5 := by decide
example : (removeUnreachable (reindex exF TrimEx.exA)).rules.length = 3 ∧
    removeUnreachable (reindex exF TrimEx.exA) = reindex exF (removeUnreachable TrimEx.exA) :=
  ⟨by decide, removeUnreachable_reindex_eq exF _ exF_inj_trimA⟩
example : (removeUseless (reindex exF TrimEx.exA)).states.length = 2 ∧ (removeUseless TrimEx.exA).states.length = 2 ∧
    TrimEx.exA.states.length = 6 := by decide
/-- injectivity matters: merging the unproductive state `2` with the productive state `0` changes what trimming keeps -/
example : let c : Nat → Nat := fun q => if q = 2 then 0 else q
    (removeUseless (reindex c TrimEx.exA)).states.length = 3 ∧ (removeUseless TrimEx.exA).states.length = 2 := by decide

-- 3: the quotient.  `SimModel.exA` has the classes `{0,1}`, `{2,3}`, `{4}`
example : classReps (downSimRef SimModel.exA) SimModel.exA.states = [0, 2, 4] ∧ simClasses SimModel.exA = 3 := by decide
example : classReps (downSimRef (reindex exF SimModel.exA)) (reindex exF SimModel.exA).states = [40, 26, 12] := by decide
example : simClasses (reindex exF SimModel.exA) = 3 := by rw [simClasses_equivariant exF _ exF_inj_simA]; decide
example : (List.map (repOf SimModel.exA) [0, 1, 2, 3, 4] = [0, 0, 2, 2, 4]) ∧
    ∀ q, q ∈ SimModel.exA.states → repOf SimModel.exA q = SimModel.exH q := by decide
example : (reduceRef SimModel.exA).states = [0, 2] ∧ (reduceRef (reindex exF SimModel.exA)).states = [40, 26] := by decide
example : (reduceRef SimModel.exA).states.length ≤ simClasses SimModel.exA := reduceRef_states_le_simClasses _
/-- the hypothesis of `reduce_states_le_simClasses` holds for the collapse map `SimModel.exH` -/
example : ∀ p q, (p, q) ∈ downSimRef SimModel.exA → (q, p) ∈ downSimRef SimModel.exA → SimModel.exH p = SimModel.exH q := by
  intro p q h1 h2
  have hp := (downSimRef_sub _ h1).1
  have hq := (downSimRef_sub _ h1).2
  revert h1 h2
  have : ∀ p, p ∈ SimModel.exA.states → ∀ q, q ∈ SimModel.exA.states → (p, q) ∈ downSimRef SimModel.exA →
      (q, p) ∈ downSimRef SimModel.exA → SimModel.exH p = SimModel.exH q := by decide
  exact this p hp q hq
example : IsQuotProj SimModel.exA SimModel.exH := by
  refine ⟨by decide, ?_⟩
  intro p q h1 h2
  have hp := (downSimRef_sub _ h1).1
  have hq := (downSimRef_sub _ h1).2
  revert h1 h2
  have : ∀ p, p ∈ SimModel.exA.states → ∀ q, q ∈ SimModel.exA.states → (p, q) ∈ downSimRef SimModel.exA →
      (q, p) ∈ downSimRef SimModel.exA → SimModel.exH p = SimModel.exH q := by decide
  exact this p hp q hq
/-- another choice of representatives (`1` for `{0,1}`, `3` for `{2,3}`): same sizes -/
example : let h' : Nat → Nat := fun q => if q = 0 then 1 else if q = 2 then 3 else q
    (removeUnreachable (reindex h' SimModel.exA)).states = [1, 3] ∧ (reduceRef SimModel.exA).states = [0, 2] := by decide
/-- the bound needs a collapse map that is constant on the classes: the identity satisfies the hypothesis of
`reduce_lang` but keeps more states than there are classes -/
example : (∀ q, q ∈ SimModel.exA.states → (q, id q) ∈ downSimRef SimModel.exA ∧ (id q, q) ∈ downSimRef SimModel.exA) ∧
    (removeUnreachable (reindex id SimModel.exA)).states.length = 4 ∧ simClasses SimModel.exA = 3 := by decide

-- 4: symbols.  `RenameEx.exB` (`a → 1`, `g(1) → 1`) is not included in `RenameEx.exA` (witness `g(g(a))`), `exC` is
-- included in `RenameEx.exB`
def exG : Nat → Nat := fun s => 2 * s + 5
theorem exG_inj : ∀ a b, exG a = exG b → a = b := by intro a b h; simp only [exG] at h; omega
/-- `a → 1`, `g(1) → 2`, final `2`: the language `{g(a)}` -/
def exC : TA := ⟨[⟨0, [], 1⟩, ⟨2, [1], 2⟩], [2]⟩

/-- a tree with a symbol (`6`) outside the image of `exG` is rejected, whatever the rest is -/
example : reach (translateSymbols exG RenameEx.exB) (.node 9 [.node 6 []]) = [] ∧
    reach (translateSymbols exG RenameEx.exB) (.node 9 [.node 5 []]) = [1] := by decide
example : ∃ t, Tree.mapSyms exG t = .node 9 [.node 5 []] :=
  translateSymbols_reach_image exG RenameEx.exB _ 1 (by decide)
example : ¬ Incl (translateSymbols exG RenameEx.exB) (translateSymbols exG RenameEx.exA) := fun h =>
  absurd ((incl_symbol_equivariant exG exG_inj _ _).mp h RenameEx.exT' (by decide)) (by decide)
example : ¬ LangEmpty (translateSymbols exG RenameEx.exA) := fun h =>
  absurd ((empty_symbol_equivariant exG exG_inj _).mp h RenameEx.exT) (by decide)
example : LangEmpty (translateSymbols exG TrimEx.exEmpty) :=
  (empty_symbol_equivariant exG exG_inj _).mpr ((isEmptyRef_iff _).mp (by decide))
example : Incl (translateSymbols exG exC) (translateSymbols exG RenameEx.exB) :=
  (incl_symbol_equivariant exG exG_inj _ _).mpr (reindex_Incl (fun _ => 1) exC)
example : reindex (fun _ => 1) exC = RenameEx.exB := rfl
example : accepts (translateSymbols exG exC) (.node 9 [.node 5 []]) = true := by decide

end EqvEx

end Vata
