import Vata.TrimCoded
import Vata.Proofs.TrimModel
/-!
# `RemoveUselessStates` as coded, part 1: the containers and the first loop (`initLoop`)

What holds after the first `k` transitions have been processed (`InitInv`).
-/
namespace Vata.TrimCoded
open Vata

/-! ### duplicate-free lists -/

theorem nodup_snoc {l : List Nat} {x : Nat} (h : l.Nodup) (hx : x ∉ l) : (l ++ [x]).Nodup := by
  rw [List.nodup_append]
  refine ⟨h, List.nodup_cons.mpr ⟨List.not_mem_nil, List.nodup_nil⟩, ?_⟩
  intro a ha b hb
  rw [List.mem_singleton] at hb
  rw [hb]
  intro hab
  exact hx (hab ▸ ha)

theorem nodup_ins' (x : Nat) {l : List Nat} (h : l.Nodup) : (ins x l).Nodup := by
  unfold ins
  split
  · exact h
  · rename_i hc
    exact nodup_snoc h (fun hx => hc (List.contains_iff_mem.mpr hx))

theorem nodup_unionL : ∀ (l S : List Nat), S.Nodup → (unionL S l).Nodup
  | [], _, h => h
  | x :: l, S, h => by
    rw [unionL_cons]
    exact nodup_unionL l _ (nodup_ins' x h)

theorem nodup_dedupL (l : List Nat) : (dedupL l).Nodup := nodup_unionL l [] List.nodup_nil

theorem dedupL_ne_nil {l : List Nat} (h : l ≠ []) : 1 ≤ (dedupL l).length := by
  cases l with
  | nil => exact absurd rfl h
  | cons a l =>
    have : a ∈ dedupL (a :: l) := mem_dedupL.mpr List.mem_cons_self
    exact List.length_pos_of_mem this

/-- pigeonhole: a duplicate-free list of numbers below `n` has at most `n` elements -/
theorem nodup_length_le : ∀ (n : Nat) (l : List Nat), l.Nodup → (∀ j, j ∈ l → j < n) → l.length ≤ n
  | 0, l, _, h => by
    cases l with
    | nil => exact Nat.le_refl _
    | cons a l => exact absurd (h a List.mem_cons_self) (Nat.not_lt_zero _)
  | n+1, l, hn, h => by
    have ih := nodup_length_le n (l.erase n) (hn.erase n) (by
      intro j hj
      rw [hn.mem_erase_iff] at hj
      have := h j hj.2
      omega)
    by_cases hm : n ∈ l
    · rw [List.length_erase_of_mem hm] at ih
      omega
    · rw [List.erase_of_not_mem hm] at ih
      omega

/-! ### `stateMap` -/

theorem smGet_cons (k : Nat) (v : List Nat) (rest : StateMap) (s' : Nat) :
    smGet ((k, v) :: rest) s' = if s' = k then v else smGet rest s' := by
  unfold smGet
  rw [List.lookup_cons]
  by_cases h : s' = k
  · have h' : (s' == k) = true := by simpa using h
    rw [h', if_pos h]; rfl
  · have h' : (s' == k) = false := by simpa using h
    rw [h', if_neg h]

theorem smGet_smPush : ∀ (sm : StateMap) (s i s' : Nat),
    smGet (smPush sm s i) s' = if s' = s then smGet sm s' ++ [i] else smGet sm s'
  | [], s, i, s' => by
    unfold smPush
    rw [smGet_cons]
    by_cases h : s' = s
    · rw [if_pos h, if_pos h]; rfl
    · rw [if_neg h, if_neg h]
  | (k, v) :: rest, s, i, s' => by
    have ih := smGet_smPush rest s i s'
    unfold smPush
    by_cases hk : k = s
    · have hk' : (k == s) = true := by simpa using hk
      rw [hk']
      simp only [if_true]
      rw [smGet_cons, smGet_cons]
      subst hk
      by_cases h : s' = k
      · rw [if_pos h, if_pos h, if_pos h]
      · rw [if_neg h, if_neg h, if_neg h]
    · have hk' : (k == s) = false := by simpa using hk
      rw [hk']
      simp only [Bool.false_eq_true, if_false]
      rw [smGet_cons, smGet_cons, ih]
      by_cases h : s' = k
      · have : ¬ s' = s := by rw [h]; exact hk
        rw [if_pos h, if_neg this, if_pos h]
      · rw [if_neg h, if_neg h]

/-- the registration loop in closed form -/
theorem registerKids_eq (i : Nat) : ∀ (cs : List Nat) (σ : St), registerKids i cs σ =
    { σ with smap := cs.foldl (fun sm s => smPush sm s i) σ.smap, remaining := σ.remaining + cs.length }
  | [], σ => rfl
  | c :: cs, σ => by
    unfold registerKids
    rw [List.foldl_cons]
    have := registerKids_eq i cs { σ with smap := smPush σ.smap c i, remaining := σ.remaining + 1 }
    unfold registerKids at this
    rw [this]
    simp only [List.foldl_cons, List.length_cons]
    congr 1
    omega

theorem smGet_foldl (i : Nat) : ∀ (cs : List Nat) (sm : StateMap) (s' : Nat), cs.Nodup →
    smGet (cs.foldl (fun sm s => smPush sm s i) sm) s' = if s' ∈ cs then smGet sm s' ++ [i] else smGet sm s'
  | [], sm, s', _ => by simp
  | c :: cs, sm, s', h => by
    rw [List.foldl_cons, smGet_foldl i cs _ s' (List.nodup_cons.mp h).2, smGet_smPush]
    by_cases hc : s' = c
    · subst hc
      simp [(List.nodup_cons.mp h).1]
    · simp [hc]

/-! ### `pushState` -/

theorem pushState_infos (σ : St) (q : Nat) : (σ.pushState q).infos = σ.infos := by
  unfold St.pushState; split <;> rfl
theorem pushState_rtrans (σ : St) (q : Nat) : (σ.pushState q).rtrans = σ.rtrans := by
  unfold St.pushState; split <;> rfl
theorem pushState_remaining (σ : St) (q : Nat) : (σ.pushState q).remaining = σ.remaining := by
  unfold St.pushState; split <;> rfl
theorem pushState_smap (σ : St) (q : Nat) : (σ.pushState q).smap = σ.smap := by
  unfold St.pushState; split <;> rfl

theorem mem_pushState_reach (σ : St) (q x : Nat) : x ∈ (σ.pushState q).reach ↔ x ∈ σ.reach ∨ x = q := by
  unfold St.pushState
  split
  · rename_i h
    have hq : q ∈ σ.reach := List.contains_iff_mem.mp h
    constructor
    · exact Or.inl
    · rintro (h | h)
      · exact h
      · rw [h]; exact hq
  · simp

theorem mem_pushState_work (σ : St) (q x : Nat) :
    x ∈ (σ.pushState q).work ↔ x ∈ σ.work ∨ (x = q ∧ q ∉ σ.reach) := by
  unfold St.pushState
  split
  · rename_i h
    have hq : q ∈ σ.reach := List.contains_iff_mem.mp h
    constructor
    · exact Or.inl
    · rintro (h | ⟨_, h⟩)
      · exact h
      · exact absurd hq h
  · rename_i h
    have hq : q ∉ σ.reach := fun hq => h (List.contains_iff_mem.mpr hq)
    simp only [List.mem_cons]
    constructor
    · rintro (h | h)
      · exact Or.inr ⟨h, hq⟩
      · exact Or.inl h
    · rintro (h | ⟨h, _⟩)
      · exact Or.inr h
      · exact Or.inl h

theorem pushState_work_nodup (σ : St) (q : Nat) (hsub : ∀ x, x ∈ σ.work → x ∈ σ.reach) (hnd : σ.work.Nodup) :
    (σ.pushState q).work.Nodup := by
  unfold St.pushState
  split
  · exact hnd
  · rename_i h
    simp only [List.nodup_cons]
    exact ⟨fun hq => h (List.contains_iff_mem.mpr (hsub q hq)), hnd⟩

theorem pushState_work_length (σ : St) (q : Nat) : (σ.pushState q).work.length ≤ σ.work.length + 1 := by
  unfold St.pushState
  split
  · omega
  · simp

/-! ### the first loop -/

structure InitInv (A : TA) (k : Nat) (σ : St) : Prop where
  infos : σ.infos = A.rules.map mkInfo
  workmem : ∀ q, q ∈ σ.work ↔ q ∈ σ.reach
  worknd : σ.work.Nodup
  sound : ∀ q, q ∈ σ.reach → q ∈ prodStates A
  rt : ∀ j, j ∈ σ.rtrans ↔ ∃ r, A.rules[j]? = some r ∧ j < k ∧ r.kids = []
  rtnd : σ.rtrans.Nodup
  leafp : ∀ j r, A.rules[j]? = some r → j < k → r.kids = [] → r.parent ∈ σ.reach
  sm : ∀ s j, j ∈ smGet σ.smap s ↔ ∃ r, A.rules[j]? = some r ∧ j < k ∧ s ∈ r.kids
  smnd : ∀ s, (smGet σ.smap s).Nodup
  cnt : k ≤ σ.remaining + σ.rtrans.length
  wlen : σ.work.length ≤ σ.rtrans.length

theorem initInv_zero (A : TA) : InitInv A 0 (initLoop A 0) := by
  unfold initLoop
  constructor <;> simp [smGet]

theorem getElem?_inj {A : TA} {j : Nat} {r r' : Rule} (h : A.rules[j]? = some r) (h' : A.rules[j]? = some r') : r = r' := by
  rw [h] at h'
  exact Option.some.inj h'

theorem initInv_step {A : TA} {k : Nat} {σ : St} {r : Rule} (hr : A.rules[k]? = some r) (h : InitInv A k σ) :
    InitInv A (k+1) (initStep σ k r) := by
  have hrA : r ∈ A.rules := List.mem_of_getElem? hr
  unfold initStep
  by_cases hleaf : r.kids.isEmpty = true
  · rw [if_pos hleaf]
    have hk : r.kids = [] := List.isEmpty_iff.mp hleaf
    have hknew : k ∉ σ.rtrans := by
      intro hm
      obtain ⟨_, _, hlt, _⟩ := (h.rt k).mp hm
      omega
    constructor
    · rw [pushState_infos]; exact h.infos
    · intro q
      rw [mem_pushState_work, mem_pushState_reach]
      simp only
      rw [h.workmem]
      constructor
      · rintro (h | ⟨h, _⟩)
        · exact Or.inl h
        · exact Or.inr h
      · rintro (h | h)
        · exact Or.inl h
        · by_cases hp : r.parent ∈ σ.reach
          · rw [h]; exact Or.inl hp
          · exact Or.inr ⟨h, hp⟩
    · exact pushState_work_nodup _ _ (fun x hx => (h.workmem x).mp hx) h.worknd
    · intro q hq
      rcases (mem_pushState_reach _ _ _).mp hq with hq | hq
      · exact h.sound q hq
      · rw [hq]
        apply prodStates_closed A r hrA
        intro x hx
        rw [hk] at hx
        exact absurd hx List.not_mem_nil
    · intro j
      rw [pushState_rtrans]
      simp only [List.mem_append, List.mem_singleton]
      rw [h.rt]
      constructor
      · rintro (⟨r', h1, h2, h3⟩ | hj)
        · exact ⟨r', h1, by omega, h3⟩
        · rw [hj]; exact ⟨r, hr, by omega, hk⟩
      · rintro ⟨r', h1, h2, h3⟩
        by_cases hj : j = k
        · exact Or.inr hj
        · exact Or.inl ⟨r', h1, by omega, h3⟩
    · rw [pushState_rtrans]
      simp only
      exact nodup_snoc h.rtnd hknew
    · intro j r' h1 h2 h3
      rw [mem_pushState_reach]
      by_cases hj : j = k
      · subst hj
        rw [getElem?_inj hr h1]
        exact Or.inr rfl
      · exact Or.inl (h.leafp j r' h1 (by omega) h3)
    · intro s j
      rw [pushState_smap]
      simp only
      rw [h.sm]
      constructor
      · rintro ⟨r', h1, h2, h3⟩
        exact ⟨r', h1, by omega, h3⟩
      · rintro ⟨r', h1, h2, h3⟩
        by_cases hj : j = k
        · subst hj
          rw [← getElem?_inj hr h1, hk] at h3
          exact absurd h3 List.not_mem_nil
        · exact ⟨r', h1, by omega, h3⟩
    · intro s
      rw [pushState_smap]
      exact h.smnd s
    · rw [pushState_remaining, pushState_rtrans]
      simp only [List.length_append, List.length_singleton]
      have := h.cnt
      omega
    · rw [pushState_rtrans]
      have := pushState_work_length { σ with rtrans := σ.rtrans ++ [k] } r.parent
      simp only [List.length_append, List.length_singleton] at this ⊢
      have := h.wlen
      omega
  · rw [if_neg hleaf]
    have hk : r.kids ≠ [] := fun hk => hleaf (List.isEmpty_iff.mpr hk)
    rw [registerKids_eq]
    have hget : ∀ s, smGet (List.foldl (fun sm s => smPush sm s k) σ.smap (mkInfo r).cset) s =
        if s ∈ r.kids then smGet σ.smap s ++ [k] else smGet σ.smap s := by
      intro s
      unfold mkInfo
      simp only
      rw [smGet_foldl k _ _ s (nodup_dedupL r.kids)]
      simp only [mem_dedupL]
    constructor
    · exact h.infos
    · exact h.workmem
    · exact h.worknd
    · exact h.sound
    · intro j
      simp only
      rw [h.rt]
      constructor
      · rintro ⟨r', h1, h2, h3⟩
        exact ⟨r', h1, by omega, h3⟩
      · rintro ⟨r', h1, h2, h3⟩
        by_cases hj : j = k
        · subst hj
          rw [getElem?_inj hr h1] at hk
          exact absurd h3 hk
        · exact ⟨r', h1, by omega, h3⟩
    · exact h.rtnd
    · intro j r' h1 h2 h3
      by_cases hj : j = k
      · subst hj
        rw [getElem?_inj hr h1] at hk
        exact absurd h3 hk
      · exact h.leafp j r' h1 (by omega) h3
    · intro s j
      simp only
      rw [hget]
      by_cases hs : s ∈ r.kids
      · rw [if_pos hs, List.mem_append, List.mem_singleton, h.sm]
        constructor
        · rintro (⟨r', h1, h2, h3⟩ | hj)
          · exact ⟨r', h1, by omega, h3⟩
          · rw [hj]; exact ⟨r, hr, by omega, hs⟩
        · rintro ⟨r', h1, h2, h3⟩
          by_cases hj : j = k
          · exact Or.inr hj
          · exact Or.inl ⟨r', h1, by omega, h3⟩
      · rw [if_neg hs, h.sm]
        constructor
        · rintro ⟨r', h1, h2, h3⟩
          exact ⟨r', h1, by omega, h3⟩
        · rintro ⟨r', h1, h2, h3⟩
          by_cases hj : j = k
          · subst hj
            rw [← getElem?_inj hr h1] at h3
            exact absurd h3 hs
          · exact ⟨r', h1, by omega, h3⟩
    · intro s
      simp only
      rw [hget]
      split
      · apply nodup_snoc (h.smnd s)
        intro ha
        obtain ⟨_, _, hlt, _⟩ := (h.sm s k).mp ha
        omega
      · exact h.smnd s
    · simp only
      have := h.cnt
      have := dedupL_ne_nil hk
      unfold mkInfo
      simp only
      omega
    · exact h.wlen

theorem initLoop_inv (A : TA) : ∀ k, k ≤ A.rules.length → InitInv A k (initLoop A k)
  | 0, _ => initInv_zero A
  | k+1, hk => by
    unfold initLoop
    have hlt : k < A.rules.length := by omega
    have hr : A.rules[k]? = some A.rules[k] := List.getElem?_eq_getElem hlt
    rw [hr]
    exact initInv_step hr (initLoop_inv A k (by omega))

end Vata.TrimCoded
