import Vata.LtsContainer
/-!
# `ExplicitLTS` container: vectors, `addTransition`, the loops of `init()` (C16)

Pointwise (`getD`) characterisations of the coded operations; the invariants are in `LtsContainerInv.lean`.
-/
namespace Vata.LC
open Vata.L

/-! ### vectors -/

theorem length_resizeL {α : Type} (d : α) (l : List α) (n : Nat) : (resizeL d l n).length = n := by
  simp [resizeL, List.length_take]; omega

theorem getD_resizeL {α : Type} (d : α) (l : List α) (n i : Nat) (h : l.length ≤ n) :
    (resizeL d l n).getD i d = l.getD i d := by
  unfold resizeL
  rw [List.take_of_length_le h]
  simp only [List.getD_eq_getElem?_getD]
  by_cases hi : i < l.length
  · rw [List.getElem?_append_left hi]
  · rw [List.getElem?_append_right (by omega), List.getElem?_replicate, List.getElem?_eq_none (by omega)]
    split <;> rfl

theorem getD_set {α : Type} (d v : α) (l : List α) (i j : Nat) :
    (l.set i v).getD j d = if i = j ∧ i < l.length then v else l.getD j d := by
  simp only [List.getD_eq_getElem?_getD, List.getElem?_set]
  by_cases h : i = j
  · subst h
    by_cases h2 : i < l.length
    · simp [h2]
    · simp [h2]
  · simp [h]

theorem length_growVec (v : List (List Nat)) (x : Nat) : (growVec v x).length = max v.length (x + 1) := by
  unfold growVec; split
  · rw [length_resizeL]; omega
  · omega

theorem getD_growVec (v : List (List Nat)) (x i : Nat) : (growVec v x).getD i [] = v.getD i [] := by
  unfold growVec; split
  · exact getD_resizeL _ _ _ _ (by omega)
  · rfl

theorem length_pushAt (v : List (List Nat)) (x y : Nat) : (pushAt v x y).length = v.length := by simp [pushAt]

theorem getD_push_grow (v : List (List Nat)) (x y i : Nat) :
    (pushAt (growVec v x) x y).getD i [] = if x = i then v.getD x [] ++ [y] else v.getD i [] := by
  unfold pushAt
  rw [getD_set, getD_growVec, getD_growVec, length_growVec]
  by_cases h : x = i
  · simp [h]; omega
  · simp [h]

theorem growStates_eq (st x len : Nat) (h : len ≤ st) : growStates st x len = max st (x + 1) := by
  unfold growStates; split
  · split <;> omega
  · omega

/-! ### `addTransition` -/

theorem addTransition_data_length (c : LtsC) (q a r : Nat) :
    (addTransition c q a r).data.length = max c.data.length (a + 1) := by
  simp only [addTransition, List.length_set]
  split
  · rw [length_resizeL]; omega
  · omega

/-- the entry of label `a'` after the conditional `data_.resize(a + 1)` -/
theorem getD_data1 (c : LtsC) (a a' : Nat) :
    (if c.data.length ≤ a then resizeL ([], []) c.data (a + 1) else c.data).getD a' ([], []) = c.data.getD a' ([], []) := by
  split
  · exact getD_resizeL _ _ _ _ (by omega)
  · rfl

theorem length_data1 (c : LtsC) (a : Nat) :
    a < (if c.data.length ≤ a then resizeL (([], []) : List (List Nat) × List (List Nat)) c.data (a + 1) else c.data).length := by
  split
  · rw [length_resizeL]; omega
  · omega

theorem addTransition_entry (c : LtsC) (q a r a' : Nat) :
    (addTransition c q a r).data.getD a' ([], []) =
      if a = a' then (pushAt (growVec (c.data.getD a ([], [])).1 q) q r, pushAt (growVec (c.data.getD a ([], [])).2 r) r q)
      else c.data.getD a' ([], []) := by
  simp only [addTransition]
  rw [getD_set, getD_data1, getD_data1]
  by_cases h : a = a'
  · simp [h]; intro h'; have := length_data1 c a'; omega
  · simp [h]

theorem addTransition_post (c : LtsC) (q a r a' q' : Nat) :
    (addTransition c q a r).post a' q' = if a = a' ∧ q = q' then c.post a q ++ [r] else c.post a' q' := by
  unfold LtsC.post
  rw [addTransition_entry]
  by_cases h : a = a'
  · subst h; simp only [if_true, true_and]; rw [getD_push_grow]
  · simp [h]

theorem addTransition_pre (c : LtsC) (q a r a' r' : Nat) :
    (addTransition c q a r).pre a' r' = if a = a' ∧ r = r' then c.pre a r ++ [q] else c.pre a' r' := by
  unfold LtsC.pre
  rw [addTransition_entry]
  by_cases h : a = a'
  · subst h; simp only [if_true, true_and]; rw [getD_push_grow]
  · simp [h]

theorem addTransition_states (c : LtsC) (q a r : Nat)
    (h1 : (c.data.getD a ([], [])).1.length ≤ c.states) (h2 : (c.data.getD a ([], [])).2.length ≤ c.states) :
    (addTransition c q a r).states = max (max c.states (q + 1)) (r + 1) := by
  simp only [addTransition]
  rw [getD_data1, growStates_eq _ _ _ h1, growStates_eq _ _ _ (by omega)]

theorem addTransition_lens (c : LtsC) (q a r a' : Nat)
    (h : ∀ a, (c.data.getD a ([], [])).1.length ≤ c.states ∧ (c.data.getD a ([], [])).2.length ≤ c.states) :
    ((addTransition c q a r).data.getD a' ([], [])).1.length ≤ (addTransition c q a r).states ∧
    ((addTransition c q a r).data.getD a' ([], [])).2.length ≤ (addTransition c q a r).states := by
  rw [addTransition_states c q a r (h a).1 (h a).2, addTransition_entry]
  have := h a; have := h a'
  by_cases e : a = a'
  · simp only [e, if_true, length_pushAt, length_growVec]; subst e; omega
  · simp only [e, if_false]; omega

/-! ### the loops of `init()` -/

/-- the inner loop after `j` rounds -/
theorem initStates_fold (a : Nat) (snd : List (List Nat)) (bw : List SSet) (j : Nat) (hj : j ≤ bw.length) :
    let bw' := (List.range j).foldl (fun bw r => bw.set r ((bw.getD r default).init a (snd.getD r []).length)) bw
    bw'.length = bw.length ∧
    ∀ r, bw'.getD r default = if r < j then (bw.getD r default).init a (snd.getD r []).length else bw.getD r default := by
  induction j with
  | zero => simp
  | succ j ih =>
    have ih' := ih (by omega)
    simp only [List.range_succ, List.foldl_append, List.foldl_cons, List.foldl_nil]
    simp only at ih'
    refine ⟨by rw [List.length_set]; exact ih'.1, fun r => ?_⟩
    rw [getD_set, ih'.1, ih'.2 j, ih'.2 r]
    by_cases e : j = r
    · subst e; simp; omega
    · have : ¬ (j = r ∧ j < bw.length) := fun h => e h.1
      rw [if_neg this]
      by_cases l : r < j
      · simp [l]; omega
      · have : ¬ r < j + 1 := by omega
        simp [l, this]

theorem initStates_spec (st a : Nat) (snd : List (List Nat)) (bw : List SSet) (h : bw.length = st) :
    (initStates st a snd bw).length = st ∧
    ∀ r, (initStates st a snd bw).getD r default =
      if r < st then (bw.getD r default).init a (snd.getD r []).length else bw.getD r default := by
  have := initStates_fold a snd bw st (by omega)
  simp only at this
  unfold initStates
  exact ⟨by rw [this.1, h], this.2⟩

/-- one label's sets after `k` rounds of the outer loop, computed from the ORIGINAL data -/
def initSet (data : Data) (r : Nat) (s : SSet) (k : Nat) : SSet :=
  (List.range k).foldl (fun s a => s.init a ((data.getD a ([], [])).2.getD r []).length) s

theorem initSet_succ (data : Data) (r : Nat) (s : SSet) (k : Nat) :
    initSet data r s (k + 1) = (initSet data r s k).init k ((data.getD k ([], [])).2.getD r []).length := by
  simp [initSet, List.range_succ, List.foldl_append]

def resizeBoth (st : Nat) (p : List (List Nat) × List (List Nat)) : List (List Nat) × List (List Nat) :=
  (resizeL [] p.1 st, resizeL [] p.2 st)

/-- the outer loop after `k` rounds -/
theorem initLabel_fold (st : Nat) (data : Data) (bw0 : List SSet) (hbw : bw0.length = st)
    (hl : ∀ a, ((data.getD a ([], [])).2).length ≤ st) (k : Nat) (hk : k ≤ data.length) :
    let db := (List.range k).foldl (initLabel st) (data, bw0)
    db.1.length = data.length ∧
    (∀ a, db.1.getD a ([], []) = if a < k then resizeBoth st (data.getD a ([], [])) else data.getD a ([], [])) ∧
    db.2.length = st ∧
    ∀ r, db.2.getD r default = if r < st then initSet data r (bw0.getD r default) k else bw0.getD r default := by
  induction k with
  | zero => simp [initSet, hbw]
  | succ k ih =>
    have ih' := ih (by omega)
    simp only [List.range_succ, List.foldl_append, List.foldl_cons, List.foldl_nil]
    simp only at ih'
    obtain ⟨i1, i2, i3, i4⟩ := ih'
    generalize (List.range k).foldl (initLabel st) (data, bw0) = db at *
    have hs := initStates_spec st k (resizeL [] (db.1.getD k ([], [])).2 st) db.2 i3
    refine ⟨by simp [initLabel, i1], fun a => ?_, hs.1, fun r => ?_⟩
    · simp only [initLabel]
      rw [getD_set, i1, i2 a, i2 k]
      by_cases e : k = a
      · subst e; simp [resizeBoth]; omega
      · have : ¬ (k = a ∧ k < data.length) := fun h => e h.1
        rw [if_neg this]
        by_cases l : a < k
        · have : a < k + 1 := by omega
          simp [l, this]
        · have : ¬ a < k + 1 := by omega
          simp [l, this]
    · simp only [initLabel]
      rw [hs.2 r, i4 r, i2 k]
      by_cases l : r < st
      · simp only [l, if_true, Nat.lt_irrefl, if_false]
        rw [initSet_succ, getD_resizeL _ _ _ _ (hl k)]
      · simp [l]

theorem getD_resizeBoth_fst (st : Nat) (p : List (List Nat) × List (List Nat)) (q : Nat) (h : p.1.length ≤ st) :
    (resizeBoth st p).1.getD q [] = p.1.getD q [] := getD_resizeL _ _ _ _ h

theorem getD_resizeBoth_snd (st : Nat) (p : List (List Nat) × List (List Nat)) (q : Nat) (h : p.2.length ≤ st) :
    (resizeBoth st p).2.getD q [] = p.2.getD q [] := getD_resizeL _ _ _ _ h

/-- the loops of `init()` summarised: the data entries are resized to `states_`, set `r` went through
`init(a, |pre(a)[r]|)` for all labels in increasing order, starting from `bw0[r]` -/
theorem initWith_spec (c : LtsC) (bw0 : List SSet) (hbw : bw0.length = c.states)
    (hl : ∀ a, ((c.data.getD a ([], [])).2).length ≤ c.states) :
    (initWith c bw0).states = c.states ∧ (initWith c bw0).transitions = c.transitions ∧
    (initWith c bw0).data.length = c.data.length ∧
    (∀ a, (initWith c bw0).data.getD a ([], []) =
      if a < c.data.length then resizeBoth c.states (c.data.getD a ([], [])) else c.data.getD a ([], [])) ∧
    (initWith c bw0).bw.length = c.states ∧
    (∀ r, r < c.states → (initWith c bw0).bw.getD r default = initSet c.data r (bw0.getD r default) c.data.length) ∧
    (initWith c bw0).ub = (c.ub || (initWith c bw0).bw.any (·.bad)) := by
  have := initLabel_fold c.states c.data bw0 hbw hl c.data.length (Nat.le_refl _)
  simp only at this
  obtain ⟨i1, i2, i3, i4⟩ := this
  refine ⟨rfl, rfl, i1, i2, i3, fun r hr => ?_, rfl⟩
  have := i4 r
  rw [if_pos hr] at this
  exact this

theorem getD_replicate {α : Type} (d d' : α) (n i : Nat) (h : i < n) : (List.replicate n d).getD i d' = d := by
  simp [List.getD_eq_getElem?_getD, h]

/-- the repaired `init()` summarised: every set starts as the empty set with the range of the current labels -/
theorem init_spec (c : LtsC) (hl : ∀ a, ((c.data.getD a ([], [])).2).length ≤ c.states) :
    (init c).states = c.states ∧ (init c).transitions = c.transitions ∧
    (init c).data.length = c.data.length ∧
    (∀ a, (init c).data.getD a ([], []) =
      if a < c.data.length then resizeBoth c.states (c.data.getD a ([], [])) else c.data.getD a ([], [])) ∧
    (init c).bw.length = c.states ∧
    (∀ r, r < c.states → (init c).bw.getD r default = initSet c.data r (SSet.new c.data.length) c.data.length) ∧
    (init c).ub = (c.ub || (init c).bw.any (·.bad)) := by
  have h := initWith_spec c (List.replicate c.states (SSet.new c.data.length)) List.length_replicate hl
  refine ⟨h.1, h.2.1, h.2.2.1, h.2.2.2.1, h.2.2.2.2.1, fun r hr => ?_, h.2.2.2.2.2.2⟩
  have := h.2.2.2.2.2.1 r hr
  rw [getD_replicate _ _ _ _ hr] at this
  exact this

end Vata.LC
