import Vata.InclUpBdd
import Vata.Proofs.InclUp
import Vata.Proofs.InclUpTotal
/-!
# The BDD bottom-up upward inclusion model (property C07)

(a) `inclUpBddOld_counterexample` (the automata of the task), `inclUpBddOld_counterexample_union` : the algorithm as it
    was BEFORE the repair answers `true` on automata with `¬ Incl A B` (the defect: macro-states of `B` reached by
    DIFFERENT trees are combined);
(b) `inclUpBdd_true`, `inclUpBdd_false`, `inclUpBdd_iff`, `inclUpBdd_cert` : every verdict of the repaired, certifying
    model is the truth about `Incl A B`; `checkInclUpBdd_iff` the same for the model of `CheckInclusion` (operands
    sanitised first);
(c) the exploration itself (`InclUpBdd.run`, no certificate involved): `run_ok_cert` (the final antichain of a `true`
    run passes `upCertB`), `run_error_ok` (the tree of a `false` run separates the languages), `run_iff`,
    `inclUpBdd_of_run_ok`, `inclUpBdd_of_run_error`, `inclUpBdd_eq_none` (`none` only when the fuel is exhausted);
(d) `inclUpBddOld_partial` : the old algorithm is exact when every rule of `A` has at most one child.

Not proved: termination (a fuel bound) of `run`.
-/
namespace Vata
open InclUp InclUpBdd

/-! ### (a) the code before the repair is wrong -/

namespace InclUpBddEx

/-- `a → 1`, `b → 1`, `g(1,1) → 2` final: all four trees `g(x,y)` -/
def cexA : TA := ⟨[⟨0, [], 1⟩, ⟨1, [], 1⟩, ⟨2, [1, 1], 2⟩], [2]⟩
/-- `a → 3`, `b → 4`, `g(3,3) → 9`, `g(4,4) → 9` final: only `g(a,a)` and `g(b,b)` -/
def cexB : TA := ⟨[⟨0, [], 3⟩, ⟨1, [], 4⟩, ⟨2, [3, 3], 9⟩, ⟨2, [4, 4], 9⟩], [9]⟩
/-- `g(a,b)` -/
def cexW : Tree := .node 2 [.node 0 [], .node 1 []]

end InclUpBddEx

open InclUpBddEx in
/-- The old algorithm processes `(1,{3})`: both children of `g(1,1)` hold the processed state, so both get `{3}` and
`(2,{9})` is cached; then `(1,{4})`: `(2,{9})` again, implied.  `g(a,b)` (macro-states `{3}` and `{4}`, post `∅`) is
never looked at. -/
theorem inclUpBddOld_counterexample :
    inclUpBddOld cexA cexB 10 = some true ∧ ¬ Incl cexA cexB := by
  refine ⟨by decide, ?_⟩
  intro h
  have h1 : accepts cexA cexW = true := by decide
  have h2 : accepts cexB cexW = false := by decide
  rw [h cexW h1] at h2
  cases h2

namespace InclUpBddEx

/-- `a → 1`, `b → 1`, `c → 5`, `d → 5`, `h(1,5) → 2` final: the four trees `h(a|b, c|d)` -/
def cexA2 : TA := ⟨[⟨0, [], 1⟩, ⟨1, [], 1⟩, ⟨2, [], 5⟩, ⟨3, [], 5⟩, ⟨4, [1, 5], 2⟩], [2]⟩
/-- `a → 3`, `b → 4`, `c → 6`, `d → 7`, `h(3,6) → 9`, `h(4,7) → 9` final: only `h(a,c)` and `h(b,d)` -/
def cexB2 : TA := ⟨[⟨0, [], 3⟩, ⟨1, [], 4⟩, ⟨2, [], 6⟩, ⟨3, [], 7⟩, ⟨4, [3, 6], 9⟩, ⟨4, [4, 7], 9⟩], [9]⟩
/-- `h(a,d)` -/
def cexW2 : Tree := .node 4 [.node 0 [], .node 3 []]

end InclUpBddEx

open InclUpBddEx in
/-- A second counterexample, in which the UNION is what goes wrong: with `(1,{3})` processed the other child gets
`{6} ∪ {7}` and `h({3},{6,7}) = {9}`; likewise for `(1,{4})`, `(5,{6})`, `(5,{7})`.  The choice `{3}`, `{7}` (the tree
`h(a,d)`, post `∅`) is never formed. -/
theorem inclUpBddOld_counterexample_union :
    inclUpBddOld cexA2 cexB2 10 = some true ∧ ¬ Incl cexA2 cexB2 := by
  refine ⟨by decide, ?_⟩
  intro h
  have h1 : accepts cexA2 cexW2 = true := by decide
  have h2 : accepts cexB2 cexW2 = false := by decide
  rw [h cexW2 h1] at h2
  cases h2

/-! ### (b) the repaired, certifying model -/

namespace InclUpBdd

/-- what a returned result consists of -/
theorem inclUpBdd_some {A B : TA} {fuel : Nat} {b : Bool} {c : Cert} (h : inclUpBdd A B fuel = some (b, c)) :
    (b = true ∧ ∃ X, c = .closed X ∧ upCertB A B X = true) ∨
    (b = false ∧ ∃ w, c = .witness w ∧ accepts A w = true ∧ accepts B w = false) := by
  unfold inclUpBdd at h
  split at h
  · cases h
  · next P _ =>
    simp only at h
    split at h
    · next hc =>
      simp only [Option.some.injEq, Prod.mk.injEq] at h
      exact Or.inl ⟨h.1.symm, _, h.2.symm, hc⟩
    · cases h
  · next q t _ =>
    split at h
    · next hc =>
      simp only [Option.some.injEq, Prod.mk.injEq] at h
      simp only [Bool.and_eq_true, Bool.not_eq_true'] at hc
      exact Or.inr ⟨h.1.symm, _, h.2.symm, hc.1, hc.2⟩
    · cases h

end InclUpBdd

theorem inclUpBdd_true {A B : TA} {fuel : Nat} {c : Cert} (h : inclUpBdd A B fuel = some (true, c)) : Incl A B := by
  rcases inclUpBdd_some h with ⟨_, X, _, hX⟩ | ⟨hb, _⟩
  · exact upCertB_incl hX
  · cases hb

theorem inclUpBdd_false {A B : TA} {fuel : Nat} {c : Cert} (h : inclUpBdd A B fuel = some (false, c)) :
    ¬ Incl A B := by
  rcases inclUpBdd_some h with ⟨hb, _⟩ | ⟨_, w, _, hA, hB⟩
  · cases hb
  · intro hincl
    rw [hincl w hA] at hB
    cases hB

/-- every verdict of the repaired model is right -/
theorem inclUpBdd_iff {A B : TA} {fuel : Nat} {b : Bool} {c : Cert} (h : inclUpBdd A B fuel = some (b, c)) :
    (b = true ↔ Incl A B) := by
  cases b with
  | true => exact ⟨fun _ => inclUpBdd_true h, fun _ => rfl⟩
  | false => exact ⟨fun hb => (by cases hb), fun hi => absurd hi (inclUpBdd_false h)⟩

/-- the certificate of a `true` verdict is an `UpCert` without bad pair, that of a `false` verdict a separating tree -/
theorem inclUpBdd_cert {A B : TA} {fuel : Nat} {b : Bool} {c : Cert} (h : inclUpBdd A B fuel = some (b, c)) :
    match c with
    | .closed X => b = true ∧ UpCert A B X ∧ NoBad A B X
    | .witness w => b = false ∧ accepts A w = true ∧ accepts B w = false := by
  rcases inclUpBdd_some h with ⟨hb, X, hc, hX⟩ | ⟨hb, w, hc, hA, hB⟩
  · subst hc; exact ⟨hb, upCertB_sound hX⟩
  · subst hc; exact ⟨hb, hA, hB⟩

/-- the model of `CheckInclusion` (operands sanitised first) -/
theorem checkInclUpBdd_iff {A B : TA} {fuel : Nat} {b : Bool} {c : Cert}
    (h : checkInclUpBdd A B fuel = some (b, c)) : (b = true ↔ Incl A B) :=
  (inclUpBdd_iff h).trans (incl_removeUseless A B)

/-! ### (c) the exploration itself: a finished run always passes the final check

Not needed for `inclUpBdd_iff` (certify-then-trust), but shows that the repaired algorithm proper is right:
`run_ok_cert`, `run_error_ok`, `run_iff`, and that `inclUpBdd` answers `none` only when the fuel is exhausted
(`inclUpBdd_eq_none`).  The lemmas are generic in the step `proc` so that they also serve the old step on automata
whose rules have at most one child (`inclUpBddOld_partial`). -/

namespace InclUpBdd

theorem pairs_eq (P : List Item) : InclUpBdd.pairs P = InclUp.pairs P := rfl

/-- finished pairs: in `antichain`, not (any more) in `workset` -/
def BDone (st : St) (i : Item) : Prop := i ∈ st.antichain ∧ i ∉ st.workset

/-- the work-list is a part of the antichain -/
def WsubP (st : St) : Prop := ∀ i, i ∈ st.workset → i ∈ st.antichain

def Inv (A B : TA) (st : St) : Prop := WsubP st ∧ InclUp.Good A B st.antichain

/-- what every step guarantees: the up-closure of the antichain grows, no pair becomes finished by itself -/
def Step (st st' : St) : Prop :=
  (∀ q S, Subsumed st.antichain q S → Subsumed st'.antichain q S) ∧ (∀ i, BDone st' i → BDone st i)

theorem Step.refl (st : St) : Step st st := ⟨fun _ _ h => h, fun _ h => h⟩

theorem Step.trans {st₁ st₂ st₃ : St} (h₁ : Step st₁ st₂) (h₂ : Step st₂ st₃) : Step st₁ st₃ :=
  ⟨fun q S h => h₂.1 q S (h₁.1 q S h), fun i h => h₁.2 i (h₂.2 i h)⟩

theorem addTmp_of_not {P : List Item} {it : Item} (h : ¬ subsumed P it.q it.S = true) :
    addTmp P it = refine P it.q it.S ++ [it] := by
  unfold addTmp; rw [if_neg h]

theorem mem_addTmp_of_not {P : List Item} {it i : Item} (h : ¬ subsumed P it.q it.S = true) :
    i ∈ addTmp P it ↔ (i ∈ P ∧ ¬ (i.q = it.q ∧ ∀ x, x ∈ it.S → x ∈ i.S)) ∨ i = it := by
  rw [addTmp_of_not h, List.mem_append, mem_refine, List.mem_singleton]

theorem not_subsumed_of_sub {P W : List Item} (hW : ∀ i, i ∈ W → i ∈ P) {q : Nat} {S : List Nat}
    (h : ¬ subsumed P q S = true) : ¬ subsumed W q S = true := by
  intro hw
  apply h
  obtain ⟨i, hi, hq, hs⟩ := subsumed_iff.mp hw
  exact subsumed_iff.mpr ⟨i, hW i hi, hq, hs⟩

/-- the three outcomes of the functor -/
theorem fctor_cases {A B : TA} {st : St} {it : Item} :
    (subsumed st.antichain it.q it.S = true ∧ fctor A B st it = .ok st) ∨
    (¬ subsumed st.antichain it.q it.S = true ∧ it.q ∈ A.final ∧ accepting B it.S = false ∧
      fctor A B st it = .error (it.q, it.t)) ∨
    (¬ subsumed st.antichain it.q it.S = true ∧ (it.q ∈ A.final → accepting B it.S = true) ∧
      fctor A B st it = .ok ⟨addTmp st.antichain it, addTmp st.workset it⟩) := by
  unfold fctor
  by_cases hs : subsumed st.antichain it.q it.S = true
  · exact Or.inl ⟨hs, by rw [if_pos hs]⟩
  · right
    rw [if_neg hs]
    by_cases hb : (A.final.contains it.q && !accepting B it.S) = true
    · left
      rw [if_pos hb]
      simp only [Bool.and_eq_true, List.contains_iff_mem, Bool.not_eq_true'] at hb
      exact ⟨hs, hb.1, hb.2, rfl⟩
    · right
      rw [if_neg hb]
      refine ⟨hs, ?_, rfl⟩
      intro hf
      simp only [Bool.and_eq_true, List.contains_iff_mem, Bool.not_eq_true', not_and, Bool.not_eq_false] at hb
      exact hb hf

theorem fctor_ok {A B : TA} {st st' : St} {it : Item} (h : fctor A B st it = .ok st') (hI : Inv A B st) :
    Inv A B st' ∧ Step st st' ∧ Subsumed st'.antichain it.q it.S := by
  rcases fctor_cases (A := A) (B := B) (st := st) (it := it) with ⟨hs, he⟩ | ⟨_, _, _, he⟩ | ⟨hs, hacc, he⟩
  · rw [he] at h; cases h
    exact ⟨hI, Step.refl _, subsumed_iff.mp hs⟩
  · rw [he] at h; cases h
  · rw [he] at h; cases h
    have hsW := not_subsumed_of_sub hI.1 hs
    refine ⟨⟨?_, ?_⟩, ⟨?_, ?_⟩, addTmp_self _ _⟩
    · intro i hi
      rcases (mem_addTmp_of_not hsW).mp hi with ⟨hi, hc⟩ | hi
      · exact (mem_addTmp_of_not hs).mpr (Or.inl ⟨hI.1 i hi, hc⟩)
      · exact (mem_addTmp_of_not hs).mpr (Or.inr hi)
    · intro i hi hf
      rcases (mem_addTmp_of_not hs).mp hi with ⟨hi, _⟩ | hi
      · exact hI.2 i hi hf
      · subst hi; exact hacc hf
    · intro q S hsub
      exact addTmp_mono hsub
    · rintro i ⟨h1, h2⟩
      rcases (mem_addTmp_of_not hs).mp h1 with ⟨hi, hc⟩ | hi
      · exact ⟨hi, fun hw => h2 ((mem_addTmp_of_not hsW).mpr (Or.inl ⟨hw, hc⟩))⟩
      · exact absurd ((mem_addTmp_of_not hsW).mpr (Or.inr hi)) h2

theorem foreachUp_ok {A B : TA} {ks : List Nat} {Ss : List (List Nat)} {ts : List Tree} :
    ∀ {ρs : List Rule} {st st' : St}, foreachUp A B ks Ss ts ρs st = .ok st' → Inv A B st →
      Inv A B st' ∧ Step st st' ∧
      ∀ ρ, ρ ∈ ρs → ρ.kids = ks → Subsumed st'.antichain ρ.parent (macroPost B ρ.sym Ss)
  | [], st, st', h, hI => by
    simp only [foreachUp, Except.ok.injEq] at h
    subst h
    exact ⟨hI, Step.refl _, fun ρ hρ => by simp at hρ⟩
  | ρ₀ :: ρs, st, st', h, hI => by
    unfold foreachUp at h
    split at h
    · next hk =>
      split at h
      · cases h
      · next st₁ h₁ =>
        obtain ⟨hI₁, hS₁, hsub₁⟩ := fctor_ok h₁ hI
        obtain ⟨hI', hS', hsub'⟩ := foreachUp_ok h hI₁
        refine ⟨hI', hS₁.trans hS', ?_⟩
        intro ρ hρ hkρ
        rcases List.mem_cons.mp hρ with rfl | hρ
        · exact hS'.1 _ _ hsub₁
        · exact hsub' ρ hρ hkρ
    · next hk =>
      obtain ⟨hI', hS', hsub'⟩ := foreachUp_ok h hI
      refine ⟨hI', hS', ?_⟩
      intro ρ hρ hkρ
      rcases List.mem_cons.mp hρ with rfl | hρ
      · exact absurd (by simpa using hkρ) hk
      · exact hsub' ρ hρ hkρ

theorem procCombos_ok {A B : TA} {ks : List Nat} :
    ∀ {iss : List (List Item)} {st st' : St}, procCombos A B ks iss st = .ok st' → Inv A B st →
      Inv A B st' ∧ Step st st' ∧
      ∀ is, is ∈ iss → ∀ ρ, ρ ∈ A.rules → ρ.kids = ks →
        Subsumed st'.antichain ρ.parent (macroPost B ρ.sym (is.map (·.S)))
  | [], st, st', h, hI => by
    simp only [procCombos, Except.ok.injEq] at h
    subst h
    exact ⟨hI, Step.refl _, fun is his => by simp at his⟩
  | is₀ :: iss, st, st', h, hI => by
    unfold procCombos at h
    split at h
    · cases h
    · next st₁ h₁ =>
      obtain ⟨hI₁, hS₁, hsub₁⟩ := foreachUp_ok h₁ hI
      obtain ⟨hI', hS', hsub'⟩ := procCombos_ok h hI₁
      refine ⟨hI', hS₁.trans hS', ?_⟩
      intro is his ρ hρ hkρ
      rcases List.mem_cons.mp his with rfl | his
      · exact hS'.1 _ _ (hsub₁ ρ hρ hkρ)
      · exact hsub' is his ρ hρ hkρ

/-! #### the choices -/

theorem mem_combos_map (f : Nat → List Item) : ∀ {ks : List Nat} {is : List Item},
    is ∈ combos (ks.map f) ↔ All2 (fun k i => i ∈ f k) ks is
  | [], is => by
    simp only [List.map_nil, combos, List.mem_singleton]
    constructor
    · rintro rfl; exact All2.nil
    · intro h; cases h; rfl
  | k :: ks, is => by
    simp only [List.map_cons, combos, List.mem_flatMap, List.mem_map]
    constructor
    · rintro ⟨is', his', i, hi, rfl⟩
      exact All2.cons hi ((mem_combos_map f).mp his')
    · intro h
      cases h with
      | cons hd tl => exact ⟨_, (mem_combos_map f).mpr tl, _, hd, rfl⟩

theorem mem_known {P : List Item} {k : Nat} {i : Item} : i ∈ known P k ↔ i ∈ P ∧ i.q = k := by
  simp only [known, List.mem_filter, beq_iff_eq]

theorem mem_choicesPos {P : List Item} {it : Item} {k : Nat} {i : Item} :
    i ∈ choicesPos P it k ↔ (k = it.q ∧ i = it) ∨ (i ∈ P ∧ i.q = k) := by
  unfold choicesPos
  rw [List.mem_append, mem_known]
  by_cases hk : k = it.q
  · simp [hk]
  · have : (k == it.q) = false := by simpa using hk
    simp [hk, this]

theorem Choice.q_mem {M : Item → Prop} {ks : List Nat} {is : List Item} (h : Choice M ks is) :
    ∀ i, i ∈ is → i.q ∈ ks := by
  induction h with
  | nil => intro i hi; simp at hi
  | cons hd _ ih =>
    intro i hi
    rcases List.mem_cons.mp hi with rfl | hi
    · rw [hd.1]; exact List.mem_cons_self
    · exact List.mem_cons_of_mem _ (ih i hi)

theorem Choice.of_k {M : Item → Prop} {ks : List Nat} {is : List Item} (h : Choice M ks is) :
    ∀ k, k ∈ ks → ∃ i, i ∈ is ∧ i.q = k ∧ M i := by
  induction h with
  | nil => intro k hk; simp at hk
  | cons hd _ ih =>
    intro k hk
    rcases List.mem_cons.mp hk with rfl | hk
    · exact ⟨_, List.mem_cons_self, hd.1, hd.2⟩
    · obtain ⟨i, hi, hq, hm⟩ := ih k hk
      exact ⟨i, List.mem_cons_of_mem _ hi, hq, hm⟩

theorem Choice.imp_mem {M M' : Item → Prop} {ks : List Nat} {is : List Item} (h : Choice M ks is)
    (hM : ∀ i, i ∈ is → M i → M' i) : Choice M' ks is := by
  induction h with
  | nil => exact All2.nil
  | cons hd _ ih =>
    exact All2.cons ⟨hd.1, hM _ List.mem_cons_self hd.2⟩ (ih (fun i hi => hM i (List.mem_cons_of_mem _ hi)))

theorem Choice.to_all2 {M : Item → Prop} {R : Nat → Item → Prop} {ks : List Nat} {is : List Item}
    (h : Choice M ks is) (hR : ∀ k i, i.q = k → M i → R k i) : All2 R ks is := by
  induction h with
  | nil => exact All2.nil
  | cons hd _ ih => exact All2.cons (hR _ _ hd.1 hd.2) ih

theorem Choice.all {M : Item → Prop} {ks : List Nat} {is : List Item} (h : Choice M ks is) :
    ∀ i, i ∈ is → M i := by
  induction h with
  | nil => intro i hi; simp at hi
  | cons hd _ ih =>
    intro i hi
    rcases List.mem_cons.mp hi with rfl | hi
    · exact hd.2
    · exact ih i hi

/-- the condition under which a tuple is processed holds when a choice of antichain pairs contains the picked pair -/
theorem cond_of_choice {P : List Item} {it : Item} {ks : List Nat} {is : List Item}
    (h : Choice (· ∈ P) ks is) (hit : it ∈ is) : (ks.contains it.q && ready P it.q ks) = true := by
  simp only [Bool.and_eq_true, List.contains_iff_mem, ready, List.all_eq_true, Bool.or_eq_true, beq_iff_eq,
    Bool.not_eq_true', List.isEmpty_eq_false_iff]
  refine ⟨Choice.q_mem h it hit, ?_⟩
  intro k hk
  obtain ⟨i, _, hq, hP⟩ := Choice.of_k h k hk
  right
  intro hn
  have : i ∈ known P k := mem_known.mpr ⟨hP, hq⟩
  rw [hn] at this
  simp at this

/-! #### the specification of a step -/

/-- a step function keeps the invariant and handles every choice of finished pairs for the tuple that contains the
picked pair -/
def ProcSpec (A B : TA) (proc : Item → List Nat → St → Res St) : Prop :=
  ∀ it ks st st', proc it ks st = .ok st' → Inv A B st →
    Inv A B st' ∧ Step st st' ∧
    ∀ ρ, ρ ∈ A.rules → ρ.kids = ks → ∀ is, Choice (BDone st) ks is → it ∈ is →
      Subsumed st'.antichain ρ.parent (post B ρ.sym (is.map (·.S)))

theorem procTuple_spec (A B : TA) : ProcSpec A B (procTuple A B) := by
  intro it ks st st' h hI
  unfold procTuple at h
  split at h
  · obtain ⟨hI', hS', hsub⟩ := procCombos_ok h hI
    refine ⟨hI', hS', ?_⟩
    intro ρ hρ hk is his _
    have hm : is ∈ combos (ks.map (choicesPos st.antichain it)) := by
      rw [mem_combos_map]
      exact Choice.to_all2 his (fun k i hq hi => mem_choicesPos.mpr (Or.inr ⟨hi.1, hq⟩))
    exact (hsub is hm ρ hρ hk).mono (fun x hx => mem_macroPost.mp hx)
  · next hc =>
    simp only [Except.ok.injEq] at h
    subst h
    refine ⟨hI, Step.refl _, ?_⟩
    intro ρ hρ hk is his hit
    exact absurd (cond_of_choice (Choice.imp (fun _ h => h.1) his) hit) hc

/-! #### the closure invariant -/

/-- the post-image of every choice of finished pairs is subsumed by the antichain -/
def BClosed (A B : TA) (st : St) : Prop :=
  ∀ ρ, ρ ∈ A.rules → ∀ is, Choice (BDone st) ρ.kids is →
    Subsumed st.antichain ρ.parent (post B ρ.sym (is.map (·.S)))

/-- … except for the choices with the picked pair `it` for a tuple that still waits in `Tl` -/
def BPending (A B : TA) (it : Item) (Tl : List (List Nat)) (st : St) : Prop :=
  ∀ ρ, ρ ∈ A.rules → ∀ is, Choice (BDone st) ρ.kids is → (it ∈ is → ρ.kids ∉ Tl) →
    Subsumed st.antichain ρ.parent (post B ρ.sym (is.map (·.S)))

theorem procTuples_pending {A B : TA} {proc : Item → List Nat → St → Res St} (hp : ProcSpec A B proc) {it : Item} :
    ∀ {Tl : List (List Nat)} {st st' : St}, procTuples proc it Tl st = .ok st' → Inv A B st →
      BPending A B it Tl st → Inv A B st' ∧ BClosed A B st'
  | [], st, st', h, hI, hP => by
    simp only [procTuples, Except.ok.injEq] at h
    subst h
    exact ⟨hI, fun ρ hρ is his => hP ρ hρ is his (fun _ hm => by simp at hm)⟩
  | ks₀ :: Tl, st, st', h, hI, hP => by
    unfold procTuples at h
    split at h
    · cases h
    · next st₁ h₁ =>
      obtain ⟨hI₁, hS₁, hsub₁⟩ := hp it ks₀ st st₁ h₁ hI
      apply procTuples_pending hp h hI₁
      intro ρ hρ is his hT
      have his' : Choice (BDone st) ρ.kids is := Choice.imp hS₁.2 his
      by_cases hc : it ∈ is ∧ ρ.kids = ks₀
      · have := hsub₁ ρ hρ hc.2 is (hc.2 ▸ his') hc.1
        exact this
      · apply hS₁.1
        apply hP ρ hρ is his'
        intro hit hm
        rcases List.mem_cons.mp hm with hm | hm
        · exact hc ⟨hit, hm⟩
        · exact hT hit hm

theorem pending_of_closed {A B : TA} {P : List Item} {it : Item} {rest : List Item} {T : List (List Nat)}
    (hT : ∀ ρ, ρ ∈ A.rules → ρ.kids ∈ T) (h : BClosed A B ⟨P, it :: rest⟩) : BPending A B it T ⟨P, rest⟩ := by
  intro ρ hρ is his hc
  apply h ρ hρ is
  have hn : it ∉ is := fun hit => hc hit (hT ρ hρ)
  refine Choice.imp_mem his (fun i him hi => ⟨hi.1, ?_⟩)
  intro hm
  rcases List.mem_cons.mp hm with hm | hm
  · exact hn (hm ▸ him)
  · exact hi.2 hm

theorem loop_ok {A B : TA} {proc : Item → List Nat → St → Res St} (hp : ProcSpec A B proc) {T : List (List Nat)}
    (hT : ∀ ρ, ρ ∈ A.rules → ρ.kids ∈ T) : ∀ {n : Nat} {st : St} {P : List Item},
    loop proc T n st = some (.ok P) → Inv A B st → BClosed A B st → BClosed A B ⟨P, []⟩ ∧ InclUp.Good A B P
  | 0, _, _, h, _, _ => by simp [loop] at h
  | n+1, st, P, h, hI, hC => by
    unfold loop at h
    split at h
    · next hn =>
      simp only [Option.some.injEq, Except.ok.injEq] at h
      subst h
      refine ⟨?_, hI.2⟩
      have : st = ⟨st.antichain, []⟩ := by cases st; simp_all
      rw [← this]; exact hC
    · next it rest hn =>
      split at h
      · simp at h
      · next st' h' =>
        have hst : st = ⟨st.antichain, it :: rest⟩ := by cases st; simp_all
        have hC' : BClosed A B ⟨st.antichain, it :: rest⟩ := by rw [← hst]; exact hC
        have hI' : Inv A B ⟨st.antichain, rest⟩ :=
          ⟨fun i hi => hI.1 i (by rw [hn]; exact List.mem_cons_of_mem _ hi), hI.2⟩
        obtain ⟨hI'', hC''⟩ := procTuples_pending hp h' hI' (pending_of_closed hT hC')
        exact loop_ok hp hT h hI'' hC''

/-! #### the nullary tuple -/

/-- during the first call every pair of the antichain is still in the work-list -/
def PsubW (st : St) : Prop := ∀ i, i ∈ st.antichain → i ∈ st.workset

theorem fctor_psubw {A B : TA} {st st' : St} {it : Item} (h : fctor A B st it = .ok st') (hW : WsubP st)
    (hP : PsubW st) : PsubW st' := by
  rcases fctor_cases (A := A) (B := B) (st := st) (it := it) with ⟨hs, he⟩ | ⟨_, _, _, he⟩ | ⟨hs, hacc, he⟩
  · rw [he] at h; cases h; exact hP
  · rw [he] at h; cases h
  · rw [he] at h; cases h
    have hsW := not_subsumed_of_sub hW hs
    intro i hi
    rcases (mem_addTmp_of_not hs).mp hi with ⟨hi, hc⟩ | hi
    · exact (mem_addTmp_of_not hsW).mpr (Or.inl ⟨hP i hi, hc⟩)
    · exact (mem_addTmp_of_not hsW).mpr (Or.inr hi)

theorem foreachUp_psubw {A B : TA} {ks : List Nat} {Ss : List (List Nat)} {ts : List Tree} :
    ∀ {ρs : List Rule} {st st' : St}, foreachUp A B ks Ss ts ρs st = .ok st' → Inv A B st → PsubW st → PsubW st'
  | [], st, st', h, _, hP => by
    simp only [foreachUp, Except.ok.injEq] at h
    subst h; exact hP
  | ρ₀ :: ρs, st, st', h, hI, hP => by
    unfold foreachUp at h
    split at h
    · split at h
      · cases h
      · next st₁ h₁ => exact foreachUp_psubw h (fctor_ok h₁ hI).1 (fctor_psubw h₁ hI.1 hP)
    · exact foreachUp_psubw h hI hP

theorem init_ok {A B : TA} {st : St} (h : foreachUp A B [] [] [] A.rules ⟨[], []⟩ = .ok st) :
    Inv A B st ∧ BClosed A B st := by
  have hI₀ : Inv A B ⟨[], []⟩ := by
    constructor
    · intro i hi; cases hi
    · intro i hi; cases hi
  have hP₀ : PsubW ⟨[], []⟩ := by intro i hi; cases hi
  obtain ⟨hI, _, hsub⟩ := foreachUp_ok h hI₀
  have hPW := foreachUp_psubw h hI₀ hP₀
  refine ⟨hI, ?_⟩
  intro ρ hρ is his
  generalize hk : ρ.kids = ks at his
  cases his with
  | nil => exact (hsub ρ hρ hk).mono (fun x hx => mem_macroPost.mp hx)
  | cons hd _ => exact absurd (hPW _ hd.2.1) hd.2.2

theorem mem_tuplesOf_aux : ∀ (rs : List Rule) (acc : List (List Nat)),
    (∀ k, k ∈ acc → k ∈ rs.foldl (fun acc ρ => if acc.contains ρ.kids then acc else acc ++ [ρ.kids]) acc) ∧
    (∀ ρ, ρ ∈ rs → ρ.kids ∈ rs.foldl (fun acc ρ => if acc.contains ρ.kids then acc else acc ++ [ρ.kids]) acc)
  | [], acc => ⟨fun _ h => h, fun _ h => by simp at h⟩
  | ρ₀ :: rs, acc => by
    obtain ⟨h1, h2⟩ := mem_tuplesOf_aux rs (if acc.contains ρ₀.kids then acc else acc ++ [ρ₀.kids])
    have hacc : ∀ k, k ∈ acc → k ∈ (if acc.contains ρ₀.kids then acc else acc ++ [ρ₀.kids]) := by
      intro k hk; split
      · exact hk
      · exact List.mem_append_left _ hk
    have h0 : ρ₀.kids ∈ (if acc.contains ρ₀.kids then acc else acc ++ [ρ₀.kids]) := by
      split
      · next hc => exact List.contains_iff_mem.mp hc
      · exact List.mem_append_right _ (List.mem_singleton.mpr rfl)
    refine ⟨fun k hk => h1 k (hacc k hk), ?_⟩
    intro ρ hρ
    rcases List.mem_cons.mp hρ with rfl | hρ
    · exact h1 _ h0
    · exact h2 ρ hρ

theorem mem_tuplesOf {A : TA} {ρ : Rule} (h : ρ ∈ A.rules) : ρ.kids ∈ tuplesOf A :=
  (mem_tuplesOf_aux A.rules []).2 ρ h

theorem upCertB_of_bclosed {A B : TA} {P : List Item} (hC : BClosed A B ⟨P, []⟩) (hG : InclUp.Good A B P) :
    upCertB A B (InclUpBdd.pairs P) = true := by
  rw [pairs_eq]
  apply upCertB_of_closed (A := A) (B := B) _ hG
  intro ρ hρ is his
  exact hC ρ hρ is (Choice.imp (fun i hi => ⟨hi.1, hi.2⟩) his)

theorem runWith_ok_cert {A B : TA} {proc : TA → TA → Item → List Nat → St → Res St} (hp : ProcSpec A B (proc A B))
    {fuel : Nat} {P : List Item} (h : runWith proc A B fuel = some (.ok P)) :
    upCertB A B (InclUpBdd.pairs P) = true := by
  unfold runWith at h
  split at h
  · simp at h
  · next st hst =>
    obtain ⟨hI, hC⟩ := init_ok hst
    obtain ⟨hC', hG'⟩ := loop_ok hp (fun ρ hρ => mem_tuplesOf hρ) h hI hC
    exact upCertB_of_bclosed hC' hG'

/-- the final antichain of a finished `true` run of the repaired algorithm passes the certificate check -/
theorem run_ok_cert {A B : TA} {fuel : Nat} {P : List Item} (h : run A B fuel = some (.ok P)) :
    upCertB A B (InclUpBdd.pairs P) = true :=
  runWith_ok_cert (procTuple_spec A B) h

/-! #### the trees of the pairs; the `return false` exits -/

/-- `w` separates the languages -/
def Sep (A B : TA) (w : Tree) : Prop := accepts A w = true ∧ accepts B w = false

def BAllOK (A B : TA) (st : St) : Prop :=
  (∀ i, i ∈ st.antichain → TreeOK A B i) ∧ (∀ i, i ∈ st.workset → TreeOK A B i)

/-- the result of a step is fine: good trees everywhere, or an error with a separating tree -/
def ResOK (A B : TA) : Res St → Prop
  | .ok st => BAllOK A B st
  | .error e => Sep A B e.2

theorem sep_of_bad {A B : TA} {it : Item} (hit : TreeOK A B it) (hf : it.q ∈ A.final)
    (hacc : accepting B it.S = false) : Sep A B it.t := by
  constructor
  · simp only [accepts, accepting, List.any_eq_true, List.contains_iff_mem]
    exact ⟨it.q, hit.1, hf⟩
  · rw [accepts, ← accepting_congr B (s := it.S) hit.2]
    exact hacc

theorem fctor_tree {A B : TA} {st : St} {it : Item} (hit : TreeOK A B it) (hst : BAllOK A B st) :
    ResOK A B (fctor A B st it) := by
  rcases fctor_cases (A := A) (B := B) (st := st) (it := it) with ⟨_, he⟩ | ⟨_, hf, hacc, he⟩ | ⟨_, _, he⟩
  · rw [he]; exact hst
  · rw [he]; exact sep_of_bad hit hf hacc
  · rw [he]
    constructor
    · intro i hi
      rcases mem_addTmp hi with hi | hi
      · exact hst.1 i hi
      · exact hi ▸ hit
    · intro i hi
      rcases mem_addTmp hi with hi | hi
      · exact hst.2 i hi
      · exact hi ▸ hit

theorem foreachUp_tree {A B : TA} {ks : List Nat} {Ss : List (List Nat)} {ts : List Tree} :
    ∀ {ρs : List Rule} {st : St},
      (∀ ρ, ρ ∈ ρs → ρ.kids = ks → TreeOK A B ⟨ρ.parent, macroPost B ρ.sym Ss, .node ρ.sym ts⟩) →
      BAllOK A B st → ResOK A B (foreachUp A B ks Ss ts ρs st)
  | [], st, _, hst => hst
  | ρ₀ :: ρs, st, hρ, hst => by
    unfold foreachUp
    split
    · next hk =>
      have h₀ := fctor_tree (hρ ρ₀ List.mem_cons_self (by simpa using hk)) hst
      split
      · next e he => rw [he] at h₀; exact h₀
      · next st₁ h₁ =>
        rw [h₁] at h₀
        exact foreachUp_tree (fun ρ hm => hρ ρ (List.mem_cons_of_mem _ hm)) h₀
    · exact foreachUp_tree (fun ρ hm => hρ ρ (List.mem_cons_of_mem _ hm)) hst

theorem foreachUp_tree_choice {A B : TA} {ks : List Nat} {is : List Item} (his : Choice (TreeOK A B) ks is)
    {st : St} (hst : BAllOK A B st) :
    ResOK A B (foreachUp A B ks (is.map (·.S)) (is.map (·.t)) A.rules st) := by
  apply foreachUp_tree _ hst
  intro ρ hρ hk
  exact mkItem_treeOK (is := is) hρ (hk ▸ his)

theorem procCombos_tree {A B : TA} {ks : List Nat} :
    ∀ {iss : List (List Item)} {st : St}, (∀ is, is ∈ iss → Choice (TreeOK A B) ks is) → BAllOK A B st →
      ResOK A B (procCombos A B ks iss st)
  | [], st, _, hst => hst
  | is₀ :: iss, st, his, hst => by
    unfold procCombos
    have h₀ := foreachUp_tree_choice (his is₀ List.mem_cons_self) hst
    split
    · next e he => rw [he] at h₀; exact h₀
    · next st₁ h₁ =>
      rw [h₁] at h₀
      exact procCombos_tree (fun is hm => his is (List.mem_cons_of_mem _ hm)) h₀

/-- a step function keeps the trees good -/
def TreeSpec (A B : TA) (proc : Item → List Nat → St → Res St) : Prop :=
  ∀ it ks st, TreeOK A B it → BAllOK A B st → ResOK A B (proc it ks st)

theorem all2_to_choice {M : Item → Prop} {R : Nat → Item → Prop} {ks : List Nat} {is : List Item}
    (h : All2 R ks is) (hR : ∀ k i, R k i → i.q = k ∧ M i) : Choice M ks is := by
  induction h with
  | nil => exact All2.nil
  | cons hd _ ih => exact All2.cons (hR _ _ hd) ih

theorem procTuple_tree (A B : TA) : TreeSpec A B (procTuple A B) := by
  intro it ks st hit hst
  unfold procTuple
  split
  · apply procCombos_tree _ hst
    intro is his
    rw [mem_combos_map] at his
    refine all2_to_choice his (fun k i hi => ?_)
    rcases mem_choicesPos.mp hi with ⟨hk, rfl⟩ | ⟨hP, hq⟩
    · exact ⟨hk.symm, hit⟩
    · exact ⟨hq, hst.1 i hP⟩
  · exact hst

theorem procTuples_tree {A B : TA} {proc : Item → List Nat → St → Res St} (hp : TreeSpec A B proc) {it : Item}
    (hit : TreeOK A B it) : ∀ {Tl : List (List Nat)} {st : St}, BAllOK A B st → ResOK A B (procTuples proc it Tl st)
  | [], st, hst => hst
  | ks₀ :: Tl, st, hst => by
    unfold procTuples
    have h₀ := hp it ks₀ st hit hst
    split
    · next e he => rw [he] at h₀; exact h₀
    · next st₁ h₁ =>
      rw [h₁] at h₀
      exact procTuples_tree hp hit h₀

theorem loop_tree {A B : TA} {proc : Item → List Nat → St → Res St} (hp : TreeSpec A B proc) {T : List (List Nat)} :
    ∀ {n : Nat} {st : St} {e : Nat × Tree}, BAllOK A B st → loop proc T n st = some (.error e) → Sep A B e.2
  | 0, _, _, _, h => by simp [loop] at h
  | n+1, st, e, hst, h => by
    unfold loop at h
    split at h
    · simp at h
    · next it rest hn =>
      have hit : TreeOK A B it := hst.2 it (by rw [hn]; exact List.mem_cons_self)
      have hst' : BAllOK A B ⟨st.antichain, rest⟩ :=
        ⟨hst.1, fun i hi => hst.2 i (by rw [hn]; exact List.mem_cons_of_mem _ hi)⟩
      have h₀ := procTuples_tree hp hit (Tl := T) hst'
      split at h
      · next e' he =>
        rw [he] at h₀
        simp only [Option.some.injEq, Except.error.injEq] at h
        subst h; exact h₀
      · next st₁ h₁ =>
        rw [h₁] at h₀
        exact loop_tree hp h₀ h

theorem runWith_error_ok {A B : TA} {proc : TA → TA → Item → List Nat → St → Res St} (hp : TreeSpec A B (proc A B))
    {fuel : Nat} {e : Nat × Tree} (h : runWith proc A B fuel = some (.error e)) : Sep A B e.2 := by
  unfold runWith at h
  have hst₀ : BAllOK A B ⟨[], []⟩ := by
    constructor
    · intro i hi; cases hi
    · intro i hi; cases hi
  have h₀ : ResOK A B (foreachUp A B [] [] [] A.rules ⟨[], []⟩) :=
    foreachUp_tree_choice (is := []) All2.nil hst₀
  split at h
  · next e' he =>
    rw [he] at h₀
    simp only [Option.some.injEq, Except.error.injEq] at h
    subst h; exact h₀
  · next st hst =>
    rw [hst] at h₀
    exact loop_tree hp h₀ h

/-- the tree of a `return false` of the repaired algorithm is accepted by `A` and not by `B` -/
theorem run_error_ok {A B : TA} {fuel : Nat} {e : Nat × Tree} (h : run A B fuel = some (.error e)) :
    accepts A e.2 = true ∧ accepts B e.2 = false :=
  runWith_error_ok (procTuple_tree A B) h

/-- a finished `true` run is never lost by the final check -/
theorem inclUpBdd_of_run_ok {A B : TA} {fuel : Nat} {P : List Item} (h : run A B fuel = some (.ok P)) :
    inclUpBdd A B fuel = some (true, .closed (InclUpBdd.pairs P)) := by
  unfold inclUpBdd
  rw [h]
  simp only
  rw [if_pos (run_ok_cert h)]

/-- … nor a finished `false` run -/
theorem inclUpBdd_of_run_error {A B : TA} {fuel : Nat} {q : Nat} {w : Tree}
    (h : run A B fuel = some (.error (q, w))) : inclUpBdd A B fuel = some (false, .witness w) := by
  unfold inclUpBdd
  rw [h]
  simp only
  obtain ⟨h1, h2⟩ := run_error_ok h
  simp only at h1 h2
  rw [h1, h2]
  rfl

/-- `inclUpBdd` answers `none` only when the fuel is exhausted -/
theorem inclUpBdd_eq_none {A B : TA} {fuel : Nat} : inclUpBdd A B fuel = none ↔ run A B fuel = none := by
  constructor
  · intro h
    cases hr : run A B fuel with
    | none => rfl
    | some r =>
      cases r with
      | ok P => rw [inclUpBdd_of_run_ok hr] at h; cases h
      | error e => obtain ⟨q, w⟩ := e; rw [inclUpBdd_of_run_error hr] at h; cases h
  · intro h
    unfold inclUpBdd
    rw [h]

/-- the raw verdict of the repaired algorithm is right -/
theorem run_iff {A B : TA} {fuel : Nat} {r : Res (List Item)} (h : run A B fuel = some r) :
    (∃ P, r = .ok P) ↔ Incl A B := by
  cases r with
  | ok P =>
    refine ⟨fun _ => upCertB_incl (run_ok_cert h), fun _ => ⟨P, rfl⟩⟩
  | error e =>
    constructor
    · rintro ⟨P, hP⟩; cases hP
    · intro hi
      obtain ⟨h1, h2⟩ := run_error_ok h
      rw [hi _ h1] at h2
      cases h2

/-! ### (d) the old step is right when every rule of `A` has at most one child

Then a tuple that contains the processed state is the 1-tuple of that state, its only position gets the processed
macro-state, and no union is formed. -/

theorem ks_of_arity1 {ks : List Nat} {q : Nat} (hl : ks.length ≤ 1) (hq : q ∈ ks) : ks = [q] := by
  cases ks with
  | nil => simp at hq
  | cons k ks =>
    cases ks with
    | nil => simp only [List.mem_singleton] at hq; rw [hq]
    | cons _ _ => simp at hl

theorem oldSets_single (P : List Item) (it : Item) : oldSets P it [it.q] = [it.S] := by
  simp [oldSets]

theorem oldTrees_single (P : List Item) (it : Item) : oldTrees P it [it.q] = [it.t] := by
  simp [oldTrees]

theorem procTupleOld_spec {A B : TA} (har : ∀ ρ, ρ ∈ A.rules → ρ.kids.length ≤ 1) :
    ProcSpec A B (procTupleOld A B) := by
  intro it ks st st' h hI
  unfold procTupleOld at h
  split at h
  · obtain ⟨hI', hS', hsub⟩ := foreachUp_ok h hI
    refine ⟨hI', hS', ?_⟩
    intro ρ hρ hk is his hit
    have hks : ks = [it.q] := ks_of_arity1 (hk ▸ har ρ hρ) (Choice.q_mem his it hit)
    subst hks
    have his1 : is = [it] := by
      cases his with
      | cons hd tl =>
        cases tl
        simp only [List.mem_singleton] at hit
        rw [hit]
    have := hsub ρ hρ hk
    rw [oldSets_single] at this
    rw [his1]
    exact this.mono (fun x hx => mem_macroPost.mp hx)
  · next hc =>
    simp only [Except.ok.injEq] at h
    subst h
    refine ⟨hI, Step.refl _, ?_⟩
    intro ρ hρ hk is his hit
    exact absurd (cond_of_choice (Choice.imp (fun _ h => h.1) his) hit) hc

theorem procTupleOld_tree {A B : TA} (har : ∀ ρ, ρ ∈ A.rules → ρ.kids.length ≤ 1) :
    TreeSpec A B (procTupleOld A B) := by
  intro it ks st hit hst
  unfold procTupleOld
  split
  · next hc =>
    apply foreachUp_tree _ hst
    intro ρ hρ hk
    simp only [Bool.and_eq_true, List.contains_iff_mem] at hc
    have hks : ks = [it.q] := ks_of_arity1 (hk ▸ har ρ hρ) hc.1
    subst hks
    rw [oldSets_single, oldTrees_single]
    exact mkItem_treeOK (is := [it]) hρ (hk ▸ All2.cons ⟨rfl, hit⟩ All2.nil)
  · exact hst

end InclUpBdd

/-- the algorithm before the repair is exact on automata `A` whose rules have at most one child (word-like automata) -/
theorem inclUpBddOld_partial {A B : TA} (har : ∀ ρ, ρ ∈ A.rules → ρ.kids.length ≤ 1) {fuel : Nat} {b : Bool}
    (h : inclUpBddOld A B fuel = some b) : (b = true ↔ Incl A B) := by
  unfold inclUpBddOld at h
  split at h
  · cases h
  · next P hr =>
    simp only [Option.some.injEq] at h
    subst h
    exact ⟨fun _ => upCertB_incl (runWith_ok_cert (procTupleOld_spec har) hr), fun _ => rfl⟩
  · next e hr =>
    simp only [Option.some.injEq] at h
    subst h
    obtain ⟨h1, h2⟩ := runWith_error_ok (procTupleOld_tree har) hr
    constructor
    · intro hb; cases hb
    · intro hi
      rw [hi _ h1] at h2
      cases h2

/-! ### examples (non-vacuity) -/
namespace InclUpBddEx

def verdict (r : Option (Bool × Cert)) : Option Bool := r.map (·.1)

/-- lists `cons(…cons(nil))` of even length / of any length -/
def exEven : TA := ⟨[⟨0, [], 0⟩, ⟨1, [1], 0⟩, ⟨1, [0], 1⟩], [0]⟩
def exAll : TA := ⟨[⟨0, [], 5⟩, ⟨1, [5], 5⟩], [5]⟩

-- the repaired model on the counterexample: `false` with the witness `g(b,a)`
#guard verdict (inclUpBdd cexA cexB 10) == some false
#guard (match inclUpBdd cexA cexB 10 with | some (_, .witness w) => showTree w == "2(1,0)" | _ => false)
-- the old one: `true`
#guard inclUpBddOld cexA cexB 10 == some true
-- the second counterexample: the repaired model finds `h(b,c)`
#guard inclUpBddOld cexA2 cexB2 10 == some true
#guard (match inclUpBdd cexA2 cexB2 10 with | some (false, .witness w) => showTree w == "4(1,2)" | _ => false)
-- the converse inclusion holds; three pairs
#guard verdict (inclUpBdd cexB cexA 10) == some true
#guard (match inclUpBdd cexB cexA 10 with | some (_, .closed X) => X == [(3, [1]), (4, [1]), (9, [2])] | _ => false)
#guard verdict (inclUpBdd exEven exAll 10) == some true
#guard verdict (inclUpBdd exAll exEven 10) == some false
#guard verdict (inclUpBdd exEven exAll 1) == none
#guard verdict (checkInclUpBdd cexA cexB 10) == some false

example : ¬ Incl cexA cexB :=
  inclUpBdd_false (fuel := 10) (c := .witness (.node 2 [.node 1 [], .node 0 []])) rfl
example : Incl cexB cexA :=
  inclUpBdd_true (fuel := 10) (c := .closed [(3, [1]), (4, [1]), (9, [2])]) rfl
example : (true = true ↔ Incl exEven exAll) :=
  inclUpBdd_iff (fuel := 10) (c := .closed [(0, [5]), (1, [5])]) rfl
example : (false = true ↔ Incl exAll exEven) :=
  inclUpBdd_iff (fuel := 10) (c := .witness (.node 1 [.node 0 []])) rfl


-- the exploration itself (no certificate check involved)
example : upCertB cexB cexA (InclUpBdd.pairs [⟨3, [1], .node 0 []⟩, ⟨4, [1], .node 1 []⟩,
    ⟨9, [2], .node 2 [.node 0 [], .node 0 []]⟩]) = true :=
  InclUpBdd.run_ok_cert (fuel := 10) rfl
example : accepts cexA (.node 2 [.node 1 [], .node 0 []]) = true ∧ accepts cexB (.node 2 [.node 1 [], .node 0 []]) = false :=
  InclUpBdd.run_error_ok (fuel := 10) (e := (2, .node 2 [.node 1 [], .node 0 []])) rfl
example : InclUpBdd.run exEven exAll 1 = none := rfl
example : inclUpBdd exEven exAll 1 = none := InclUpBdd.inclUpBdd_eq_none.mpr rfl

-- the old algorithm on automata with unary rules: both verdicts, and the hypothesis fails on the counterexample
#guard inclUpBddOld exEven exAll 10 == some true
#guard inclUpBddOld exAll exEven 10 == some false
example : (true = true ↔ Incl exEven exAll) := inclUpBddOld_partial (by decide) (fuel := 10) rfl
example : (false = true ↔ Incl exAll exEven) := inclUpBddOld_partial (by decide) (fuel := 10) rfl
example : ¬ ∀ ρ, ρ ∈ cexA.rules → ρ.kids.length ≤ 1 := by decide

end InclUpBddEx

end Vata
