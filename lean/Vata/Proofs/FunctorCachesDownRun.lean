import Vata.Proofs.FunctorCachesDownSim
/-!
# `CheckDownwardTreeInclusion` with its caches returns what the cache-free model returns (C01, C07)

On top of `expandC_rel` (`Vata/Proofs/FunctorCachesDownSim.lean`): the loop over the final states of the smaller automaton
(`rootLoopC_rel`), the whole exploration (`runC_eq`: verdict, the persisting antichain `nonIncl_` by value and the ghost set),
the certify-then-trust models (`inclDown_cached_eq`, `inclDownSim_cached_eq`, `checkInclDownRec_cached_eq`), the invariant of
`lteCache` at the end of a run (`runC_heap_sound`) – all for EVERY allocator, with the library's deleter – and a concrete pair
of automata on which the seeded deleter (`invalidateFirst` twice) or no deleter changes the verdict (`FCDEx`).
-/
namespace Vata
namespace FCD
open Vata.InclDown Vata.CM
open Vata.FCU (Heap hval hLookup hCollect Live pickLeast)
open Vata.InclUp (normS prodWit Wit)

/-- the end of a run: same verdict; on `return true` the heap invariant holds and `nonIncl_` read through the heap and the
ghost set are those of the cache-free run -/
def RFin (o : Ord) : Option (Except Tree StC) → Option (Except Tree St) → Prop
  | none, none => True
  | some (.error t), some (.error t') => t = t'
  | some (.ok s), some (.ok s') =>
    HInvD o s.h ∧ (∀ x, x ∈ s.nonIncl → Live s.h x.2.1) ∧ s.nonIncl.map (derefN s.h) = s'.nonIncl ∧ s.trues = s'.trues
  | _, _ => False

theorem rootLoopC_rel {o : Ord} (hr : ∀ q, o.leB q q = true) (pick : List Nat → Nat) (A B : TA) (wit : Wit) (fuel : Nat)
    (FB : List Nat) : ∀ (fs : List Nat) (ccC : List CP) (stC : StC) (cc : List Pair) (st : St), DRel o [] ccC stC cc st →
    RFin o (rootLoopC o .lib pick A B wit fuel FB fs ccC stC) (rootLoop o A B wit fuel FB fs cc st)
  | [], ccC, stC, cc, st, h => by
    simp only [rootLoopC, rootLoop, RFin]; exact ⟨h.hi, h.lni, h.eni, h.etr⟩
  | f :: fs, ccC, stC, cc, st, h => by
    obtain ⟨l1, _, l3, l4⟩ := hLookupD_spec pick h.hi FB
    have h1 : DRel o [] ccC { stC with h := (hLookup pick stC.h FB).1 } cc st :=
      h.heap l1 (fun a _ ha => l4 a ha) (fun _ hx => hx)
    obtain ⟨g1, g2⟩ := hCollectD_spec l1 (rootsOf [] ccC stC)
    have h2 : DRel o [] ccC { stC with h := hCollect .lib (rootsOf [] ccC stC) (hLookup pick stC.h FB).1 } cc st := by
      refine h1.heap g1 (fun a ha hl => g2 a (mem_rootsOf.mpr ?_) hl) (fun _ hx => hx)
      rcases ha with ⟨x, hx, _⟩ | hcc | hni
      · cases hx
      · exact Or.inr (Or.inl hcc)
      · exact Or.inr (Or.inr hni)
    simp only [rootLoopC, rootLoop]
    rw [l3]
    by_cases hp : byPre o f FB = true
    · rw [if_pos hp, if_pos hp]; exact rootLoopC_rel hr pick A B wit fuel FB fs _ _ _ _ h2
    · rw [if_neg hp, if_neg hp]
      have hcall : CallRel o [] (wrapC .lib pick [] (expandC o .lib pick A B wit fuel [] []))
          (expand o A B wit fuel []) := by
        apply wrapC_rel pick (fun x hx => by cases hx)
        intro q a Q
        apply expandC_rel hr pick A B wit fuel [] [] [] [(a, Q)]
        · intro _ _; rfl
        · intro x hx; cases hx
        · exact List.mem_cons_self
        · intro x hx
          left
          rw [List.mem_singleton.mp hx]
      rcases retRel_elim (bodyC_rel hcall hcall A B wit normS f FB ccC _ cc st h2) with ⟨e1, e2⟩ |
        ⟨v, cc1, st', cc1V, stV, e1, e2, hb⟩
      · rw [e1, e2]; simp [RFin]
      · rw [e1, e2]
        cases v with
        | holds =>
          simp only []
          apply rootLoopC_rel hr pick A B wit fuel FB fs
          exact ⟨hb.hi, hb.ok, hb.lcc, hb.lni, hb.ecc, hb.eni, by show addTrue _ _ = addTrue _ _; rw [hb.etr]⟩
        | fails t => simp [RFin]

theorem DRel.init (o : Ord) : DRel o [] [] ⟨[], [], {}⟩ [] ⟨[], []⟩ :=
  ⟨HInvD.empty o, (fun _ hx => by cases hx), (fun _ hx => by cases hx), (fun _ hx => by cases hx), rfl, rfl, rfl⟩

theorem runC_rel {o : Ord} (hr : ∀ q, o.leB q q = true) (pick : List Nat → Nat) (A B : TA) (fuel : Nat) :
    RFin o (runC o .lib pick A B fuel)
      (rootLoop o A B (prodWit A) fuel (normS B.final) (dedup A.final) [] ⟨[], []⟩) :=
  rootLoopC_rel hr pick A B (prodWit A) fuel (normS B.final) (dedup A.final) [] _ [] _ (DRel.init o)

theorem viewD_of_RFin {o : Ord} {rc : Option (Except Tree StC)} {r : Option (Except Tree St)} (h : RFin o rc r) :
    viewD rc = r := by
  cases rc with
  | none => cases r with
    | none => rfl
    | some y => simp [RFin] at h
  | some x =>
    cases r with
    | none => cases x <;> simp [RFin] at h
    | some y =>
      cases x with
      | error t => cases y with
        | error t' => simp only [RFin] at h; simp [viewD, h]
        | ok s' => simp [RFin] at h
      | ok s => cases y with
        | error t' => simp [RFin] at h
        | ok s' =>
          simp only [RFin] at h
          obtain ⟨_, _, h3, h4⟩ := h
          cases s'
          simp only at h3 h4
          simp [viewD, h3, h4]

/-- **the exploration with its caches = the cache-free exploration**: same `return true` / `return false` (with the same
ghost witness), `none` at the same fuel, and on `return true` the antichain `nonIncl_` read through the heap and the ghost set
are those of `InclDown.rootLoop`; for every allocator -/
theorem runC_eq {o : Ord} (hr : ∀ q, o.leB q q = true) (pick : List Nat → Nat) (A B : TA) (fuel : Nat) :
    viewD (runC o .lib pick A B fuel) =
      rootLoop o A B (prodWit A) fuel (normS B.final) (dedup A.final) [] ⟨[], []⟩ :=
  viewD_of_RFin (runC_rel hr pick A B fuel)

theorem truesOf_eq_view (rc : Option (Except Tree StC)) :
    truesOf rc = match viewD rc with
      | none => none
      | some (.ok st) => some (.ok st.trues)
      | some (.error w) => some (.error w) := by
  cases rc with
  | none => rfl
  | some x => cases x <;> rfl

theorem truesOf_runC_eq {o : Ord} (hr : ∀ q, o.leB q q = true) (pick : List Nat → Nat) (A B : TA) (fuel : Nat) :
    truesOf (runC o .lib pick A B fuel) = InclDown.run o A B fuel := by
  rw [truesOf_eq_view, runC_eq hr]; rfl

theorem rawVerdictD_runC_eq {o : Ord} (hr : ∀ q, o.leB q q = true) (pick : List Nat → Nat) (A B : TA) (fuel : Nat) :
    rawVerdictD (runC o .lib pick A B fuel) = (InclDown.run o A B fuel).map (fun r => match r with
      | .ok _ => true
      | .error _ => false) := by
  rw [← truesOf_runC_eq hr pick]
  cases runC o .lib pick A B fuel with
  | none => rfl
  | some x => cases x <;> rfl

theorem idOrd_refl : ∀ q, idOrd.leB q q = true := fun q => by simp [idOrd]

theorem ordOf_refl (R : Rel) (A B : TA) : ∀ q, (ordOf R A B).leB q q = true := fun q => by simp [ordOf]

/-- **`inclDown_cached_eq`**: for every allocator the recursive downward algorithm (no simulation) with `biggerTypeCache`,
`lteCache` and the library's deleter returns exactly what the cache-free model `inclDownRec` returns -/
theorem inclDown_cached_eq (pick : List Nat → Nat) (A B : TA) (fuel : Nat) :
    inclDownRecC .lib pick A B fuel = inclDownRec A B fuel := by
  unfold inclDownRecC inclDownRec
  rw [truesOf_runC_eq idOrd_refl]

/-- … with the preorder parameter (`ANTICHAINS_DOWN_REC_SIM`) -/
theorem inclDownSim_cached_eq (pick : List Nat → Nat) (A B : TA) (R : Rel) (fuel : Nat) :
    inclDownSimC .lib pick A B R fuel = inclDownSim A B R fuel := by
  unfold inclDownSimC inclDownSim
  rw [truesOf_runC_eq (ordOf_refl R A B)]

theorem checkInclDownRec_cached_eq (pick : List Nat → Nat) (A B : TA) (fuel : Nat) :
    checkInclDownRecC .lib pick A B fuel = checkInclDownRec A B fuel :=
  inclDown_cached_eq pick _ _ fuel

theorem heapOKD_of_HInvD {o : Ord} {h : Heap} (hi : HInvD o h) : heapOKD o h = true := by
  unfold heapOKD
  simp only [List.all_eq_true, Bool.and_eq_true, List.contains_iff_mem, beq_iff_eq]
  intro e he
  have hk : aget h.lte.store (e.1.1, e.1.2) = some e.2 := by
    exact aget_of_mem_nodup hi.li.k0 he
  obtain ⟨ha, hb, hv⟩ := hi.sl _ _ _ hk
  exact ⟨⟨ha, hb⟩, hv⟩

/-- **the invariant at the end of a run** (library's deleter, every allocator): every entry of `lteCache` mentions two live
macro-states and holds `NonCachedLte` of their current values -/
theorem runC_heap_sound {o : Ord} (hr : ∀ q, o.leB q q = true) (pick : List Nat → Nat) (A B : TA) (fuel : Nat) {h : Heap}
    (hf : finalHeapD (runC o .lib pick A B fuel) = some h) : HInvD o h ∧ heapOKD o h = true := by
  have hrel := runC_rel hr pick A B fuel
  cases hc : runC o .lib pick A B fuel with
  | none => rw [hc] at hf; cases hf
  | some x =>
    rw [hc] at hf hrel
    cases x with
    | error t => cases hf
    | ok s =>
      simp only [finalHeapD, Option.some.injEq] at hf
      subst hf
      cases hp : rootLoop o A B (prodWit A) fuel (normS B.final) (dedup A.final) [] ⟨[], []⟩ with
      | none => rw [hp] at hrel; simp [RFin] at hrel
      | some y =>
        rw [hp] at hrel
        cases y with
        | error t => simp [RFin] at hrel
        | ok s' =>
          simp only [RFin] at hrel
          exact ⟨hrel.1, heapOKD_of_HInvD hrel.1⟩

/-! ### the wiring matters: a stale `lteCache` entry changes a verdict of the downward algorithm -/
namespace FCDEx

/-- `A`: one state `0`, `g(0) → 0`, `h(0) → 0`, `c → 0` (symbols `c = 0`, `g = 1`, `h = 2`) -/
def exA : TA := ⟨[⟨1, [0], 0⟩, ⟨2, [0], 0⟩, ⟨0, [], 0⟩], [0]⟩
/-- `B`: final `10`; `L(A) ⊄ L(B)`: `g(h(c))` is missing.  Inside `expand(0, X)`, `X = {11, 12}` (in the work-set), the choice
function of symbol `g` asks `expand(0, D)`, `D = {11, 12, 13}`: `isInWorkset` computes `lte(X, D) = true`, which enters
`lteCache` under `(&X, &D)`; `D` dies when the call returns.  For symbol `h` the set `D' = {11, 13}` is created – at the address
of `D` when the allocator recycles – and `isInWorkset` asks `lte(X, D')`: with `invalidateSecond` skipped the stale `true` is
found, so `expand(0, D')`, `expand(0, X)` and the whole check answer `true`. -/
def exB : TA := ⟨[⟨1, [11], 10⟩, ⟨1, [12], 10⟩, ⟨2, [11], 10⟩, ⟨2, [12], 10⟩, ⟨0, [], 10⟩,
  ⟨1, [11], 11⟩, ⟨1, [13], 11⟩, ⟨2, [11], 11⟩, ⟨1, [12], 12⟩, ⟨2, [13], 12⟩, ⟨0, [], 12⟩], [10]⟩

/-- the tree `g(h(c))` is accepted by `A` and not by `B` -/
theorem ex_not_incl : ¬ Incl exA exB := fun h => by
  have := h (.node 1 [.node 2 [.node 0 []]]) (by decide)
  revert this; decide

/-- **the wiring of the deleter matters for the downward algorithm.**  The allocator recycles the address of a dead
macro-state at once (`pickLeast`).  With the seeded slip (`Wiring.firstTwice`: `invalidateFirst` twice, so the entries with the
dying address in SECOND position survive) and with the default deleter (`Wiring.none`) `CheckDownwardTreeInclusion` on
`exA ⊆ exB` ends with `return true`; with the library's deleter it answers `false`, which is right. -/
theorem wiring_changes_verdict :
    rawVerdictD (runC idOrd .firstTwice pickLeast exA exB 20) = some true ∧
    rawVerdictD (runC idOrd .none pickLeast exA exB 20) = some true ∧
    rawVerdictD (runC idOrd .lib pickLeast exA exB 20) = some false ∧ ¬ Incl exA exB :=
  ⟨by decide +kernel, by decide +kernel, by decide +kernel, ex_not_incl⟩

/-- … the run with the slip ends with a memo table that fails the invariant; the certificate check of the model does not let
the wrong `true` through -/
theorem wiring_breaks_invariant :
    (finalHeapD (runC idOrd .firstTwice pickLeast exA exB 20)).map (heapOKD idOrd) = some false ∧
    inclDownRecC .firstTwice pickLeast exA exB 20 = none ∧ inclDownRecC .none pickLeast exA exB 20 = none := by
  refine ⟨by decide +kernel, by decide +kernel, by decide +kernel⟩

/-- `L(A) ⊆ L(B2)` -/
def exB2 : TA := ⟨[⟨1, [11], 10⟩, ⟨1, [12], 10⟩, ⟨2, [11], 10⟩, ⟨2, [12], 10⟩, ⟨0, [], 10⟩,
  ⟨1, [11], 11⟩, ⟨1, [13], 11⟩, ⟨2, [12], 11⟩, ⟨1, [12], 12⟩, ⟨2, [13], 12⟩, ⟨2, [11], 12⟩, ⟨0, [], 12⟩], [10]⟩

/-! non-vacuity -/
example : inclDownRecC .lib pickLeast exA exB 20 = inclDownRec exA exB 20 := inclDown_cached_eq _ _ _ _
example : (inclDownRecC .lib pickLeast exA exB 20).map (·.1) = some false := by decide +kernel
example : (inclDownRecC .lib pickLeast exA exB2 20).map (·.1) = some true := by decide +kernel
/-- objects die, addresses are reused, memo entries are made and purged in that run: 3 live objects and 4 entries at the end -/
example : (finalHeapD (runC idOrd .lib pickLeast exA exB2 20)).map
    (fun h => (h.store, h.lte.store.length, heapOKD idOrd h)) = some ([(1, [12]), (3, [11, 13]), (0, [11, 12])], 4, true) := by
  decide +kernel

/-- **reflexivity of `leB` cannot be dropped**: `SetComparerSmaller` answers `true` on identical pointers; with a `leB` that
is not reflexive the value-level test `setLe` answers `false` on identical non-empty sets, and the cached run (which ends)
differs from the cache-free one (which never finds its pair in the work-set and runs out of every fuel) -/
def oBad : Ord := ⟨fun q r => q == r, fun _ _ => false, fun _ _ => false⟩

theorem refl_needed :
    rawVerdictD (runC oBad .lib pickLeast exA exB 20) = some false ∧ InclDown.run oBad exA exB 20 = none := by
  refine ⟨by decide +kernel, by decide +kernel⟩

end FCDEx

end FCD
end Vata
