import Vata.Proofs.LtsUtilSR4

/-!
# `SplittingRelation` — part 5: the four phases of `split`

* `splitCol_step` / `splitRow_step`, `phase2_obs`, `phase4_obs`: the code executed (one loop iteration / straight-line part).
* `SC` + `splitCol_spec`: loop invariant and specification of "copy column"; `SW` + `splitRow_spec`: of "copy row"
  (`EL`: what is known about the reflexive cell, which is linked into the new column in phase 2 and into the new row only
  in phase 4); `reflex_shape`, `finish_shape`.
* `split_some`: `split` is the sequence of the four phases.
-/
namespace Vata.LU.SR
namespace P
local notation "cs" => List.map Ptr.cell

/-- overwrite some fields of the cell `a` -/
theorem obs_modCell (s : T) (a : Nat) (c : Cell) :
    obs { s with cells := s.cells.set a c } =
      { obs s with gr := upd (obs s).gr (.cell a) c.right, gl := upd (obs s).gl (.cell a) c.left,
                   gd := upd (obs s).gd (.cell a) c.down, gu := upd (obs s).gu (.cell a) c.up,
                   col := updN (obs s).col a c.col, row := updN (obs s).row a c.row } := obs_setCell s a c

/-- one iteration of the loop "copy column" of `split`, executed -/
theorem splitCol_step {s : T} {idx n fuel e : Nat} {last L q q' : Ptr}
    (h1 : (obs (alloc s).2).gd last = some q)
    (h2 : (obs (alloc s).2).gl (.rowS ((s.cells.get e).row + 1)) = some L)
    (h3 : (obs (alloc s).2).gr L = some q') :
    ∃ s6, splitCol idx n (fuel + 1) s last (.cell e) = splitCol idx n fuel s6 (.cell (alloc s).1) (s6.cells.get e).down ∧
      obs s6 = { obs (alloc s).2 with
        gd := upd (obs (alloc s).2).gd last (.cell (alloc s).1),
        gu := upd (obs (alloc s).2).gu (.cell (alloc s).1) last,
        gr := upd (upd (obs (alloc s).2).gr L (.cell (alloc s).1)) (.cell (alloc s).1) (.rowS ((s.cells.get e).row + 1)),
        gl := upd (upd (obs (alloc s).2).gl (.cell (alloc s).1) L) (.rowS ((s.cells.get e).row + 1)) (.cell (alloc s).1),
        col := updN (obs (alloc s).2).col (alloc s).1 n,
        row := updN (obs (alloc s).2).row (alloc s).1 (s.cells.get e).row } := by
  simp only [splitCol, reduceCtorEq, if_false]
  generalize (alloc s).1 = t at *
  generalize (alloc s).2 = s1 at *
  generalize (s.cells.get e).row = r at *
  obtain ⟨s2, a2, e2⟩ := setDown_obs (.cell t) h1
  simp only [a2]
  generalize hs2u : ({ s2 with cells := s2.cells.set t { s2.cells.get t with up := last } } : T) = s2u
  have e2u : obs s2u = { obs s2 with gu := upd (obs s2).gu (.cell t) last } := by rw [← hs2u, obs_setCell]; simp
  have b2 : (obs s2).gl (.rowS (r + 1)) = some L := by rw [e2]; exact h2
  obtain ⟨rw, hrw1, hrw2⟩ := rows_second b2
  simp only [hrw1, hrw2]
  have c2 : (obs s2u).gr L = some q' := by rw [e2u, e2]; exact h3
  obtain ⟨s3, a3, e3⟩ := setRight_obs (.cell t) c2
  simp only [a3]
  have b3 : (obs s3).gl (.rowS (r + 1)) = some L := by rw [e3, e2u]; exact b2
  rw [rows_second_getD b3]
  generalize hs4 : ({ s3 with cells := s3.cells.set t { s3.cells.get t with left := L, right := .rowE r } } : T) = s4
  have e4 : obs s4 = { obs s3 with gl := upd (obs s3).gl (.cell t) L, gr := upd (obs s3).gr (.cell t) (.rowS (r + 1)) } := by
    rw [← hs4, obs_setCell]; simp
  have b4 : (obs s4).gl (.rowS (r + 1)) = some L := by rw [e4]; simp only []; rw [upd_ne _ _ (by simp)]; exact b3
  obtain ⟨s5, a5, e5⟩ := setLeft_obs (.cell t) b4
  simp only [setRowSecond_eq, a5]
  refine ⟨_, rfl, ?_⟩
  rw [obs_setCell]
  simp only [upd_gr_self, upd_gl_self, upd_gd_self, upd_gu_self]
  rw [e5, e4, e3, e2u, e2]

/-- one iteration of the loop "copy row" of `split`, executed -/
theorem splitRow_step {s : T} {idx n fuel e : Nat} {last U q q' : Ptr} {rw0 : Ptr × Ptr}
    (h0 : s.rows[idx]? = some rw0) (hne : Ptr.cell e ≠ rw0.2)
    (h1 : (obs (alloc s).2).gr last = some q)
    (h2 : (obs (alloc s).2).gu (.colS ((s.cells.get e).col + 1)) = some U)
    (h3 : (obs (alloc s).2).gd U = some q') :
    ∃ s6, splitRow idx n (fuel + 1) s last (.cell e) = splitRow idx n fuel s6 (.cell (alloc s).1) (s6.cells.get e).right ∧
      obs s6 = { obs (alloc s).2 with
        gr := upd (obs (alloc s).2).gr last (.cell (alloc s).1),
        gl := upd (obs (alloc s).2).gl (.cell (alloc s).1) last,
        gd := upd (upd (obs (alloc s).2).gd U (.cell (alloc s).1)) (.cell (alloc s).1) (.colS ((s.cells.get e).col + 1)),
        gu := upd (upd (obs (alloc s).2).gu (.cell (alloc s).1) U) (.colS ((s.cells.get e).col + 1)) (.cell (alloc s).1),
        col := updN (obs (alloc s).2).col (alloc s).1 (s.cells.get e).col,
        row := updN (obs (alloc s).2).row (alloc s).1 n } := by
  simp only [splitRow, h0, hne, if_false]
  generalize (alloc s).1 = t at *
  generalize (alloc s).2 = s1 at *
  generalize (s.cells.get e).col = c at *
  obtain ⟨s2, a2, e2⟩ := setRight_obs (.cell t) h1
  simp only [a2]
  generalize hs2u : ({ s2 with cells := s2.cells.set t { s2.cells.get t with left := last } } : T) = s2u
  have e2u : obs s2u = { obs s2 with gl := upd (obs s2).gl (.cell t) last } := by rw [← hs2u, obs_setCell]; simp
  have b2 : (obs s2).gu (.colS (c + 1)) = some U := by rw [e2]; exact h2
  have b2u : (obs s2u).gu (.colS (c + 1)) = some U := by rw [e2u]; exact b2
  obtain ⟨cl, hcl1, hcl2⟩ := cols_second b2
  simp only [hcl1, hcl2]
  have c2 : (obs s2u).gd U = some q' := by rw [e2u, e2]; exact h3
  obtain ⟨s3, a3, e3⟩ := setDown_obs (.cell t) c2
  simp only [a3]
  have b3 : (obs s3).gu (.colS (c + 1)) = some U := by rw [e3]; exact b2u
  rw [cols_second_getD b3]
  generalize hs4 : ({ s3 with cells := s3.cells.set t { s3.cells.get t with up := U, down := .colE c } } : T) = s4
  have e4 : obs s4 = { obs s3 with gu := upd (obs s3).gu (.cell t) U, gd := upd (obs s3).gd (.cell t) (.colS (c + 1)) } := by
    rw [← hs4, obs_setCell]; simp
  have b4 : (obs s4).gu (.colS (c + 1)) = some U := by rw [e4]; simp only []; rw [upd_ne _ _ (by simp)]; exact b3
  obtain ⟨s5, a5, e5⟩ := setUp_obs (.cell t) b4
  simp only [setColSecond_eq, a5]
  refine ⟨_, rfl, ?_⟩
  rw [obs_setCell]
  simp only [upd_gr_self, upd_gl_self, upd_gd_self, upd_gu_self]
  rw [e5, e4, e3, e2u, e2]

/-! ### phase 1 of `split`: copy column `idx` into the new column `n` -/

theorem GS.grow {o : Obs} {n : Nat} {R C : Nat → List Nat} {cr cc : Nat → Prop} (h : GS o n R C cr cc) (hn : n < o.nr) :
    GS o (n + 1) R C (fun k => cr k ∧ k < n) (fun k => cc k ∧ k < n) ∧ R n = [] ∧ C n = [] := by
  have d := h.data
  have hRn : R n = [] := by
    cases hR : R n with
    | nil => rfl
    | cons a l => exact absurd (d.rlt n a (by rw [hR]; simp)).1 (Nat.lt_irrefl _)
  have hCn : C n = [] := by
    cases hC : C n with
    | nil => rfl
    | cons a l => exact absurd (d.C_lt (j := n) (a := a) (by rw [hC]; simp)).1 (Nat.lt_irrefl _)
  refine ⟨⟨⟨d.rrow, d.ccol, d.rc, d.cr, fun i a ha => ?_, d.rnd, d.csorted⟩, ?_, ?_, ?_, ?_, hn, h.nc⟩, hRn, hCn⟩
  · have := d.rlt i a ha; omega
  · intro i hi
    by_cases hin : i < n
    · exact h.rowO i hin
    · have : i = n := by omega
      subst this; rw [hRn]; simp
  · intro i hi
    by_cases hin : i < n
    · exact h.colO i hin
    · have : i = n := by omega
      subst this; rw [hCn]; simp
  · intro i _ hc; exact h.rowCl i hc.2 hc.1
  · intro i _ hc; exact h.colCl i hc.2 hc.1

/-- loop invariant of "copy column": `done` = the part of column `idx` already copied -/
structure SC (o : Obs) (n idx : Nat) (R C : Nat → List Nat) (done todo : List Nat) : Prop where
  gs : GS o (n + 1) R C (fun k => k < n) (fun k => k < n)
  mem : Mem o R
  cidx : C idx = done ++ todo
  rn : R n = []
  cn : (C n).map o.row = done.map o.row

theorem SC.step {o o1 o6 : Obs} {n idx : Nat} {R C : Nat → List Nat} {done todo : List Nat} {e t : Nat}
    (h : SC o n idx R C done (e :: todo)) (hidx : idx < n) (ha : AllocRel o o1 t)
    (e6 : o6 = { o1 with
        gd := upd o1.gd (lastP (.colS n) (C n)) (.cell t),
        gu := upd o1.gu (.cell t) (lastP (.colS n) (C n)),
        gr := upd (upd o1.gr (lastP (.rowS (o.row e)) (R (o.row e))) (.cell t)) (.cell t) (.rowS (o.row e + 1)),
        gl := upd (upd o1.gl (.cell t) (lastP (.rowS (o.row e)) (R (o.row e)))) (.rowS (o.row e + 1)) (.cell t),
        col := updN o1.col t n,
        row := updN o1.row t (o.row e) }) :
    SC o6 n idx (setL R (o.row e) (R (o.row e) ++ [t])) (setL C n (C n ++ [t])) (done ++ [e]) todo ∧
      (∀ k, t ∉ R k) ∧ (∀ x, x ≠ t → o6.col x = o.col x) ∧ (∀ x, x ≠ t → o6.row x = o.row x) ∧ o6.col t = n ∧
      o.row e < n := by
  have d := h.gs.data
  have hfresh : ∀ k, t ∉ R k := h.mem.fresh ha
  have hfC := d.not_mem_C hfresh
  have g1 := h.gs.alloc ha hfresh
  have m1 := h.mem.alloc ha
  have heC : e ∈ C idx := by rw [h.cidx]; simp
  have hsorted := d.csorted idx
  rw [h.cidx, List.map_append, List.pairwise_append] at hsorted
  have hdone_lt : ∀ x ∈ done, o.row x < o.row e := fun x hx =>
    hsorted.2.2 _ (List.mem_map_of_mem hx) _ (by simp)
  have hr_lt : o.row e < n := by
    have h1 := (d.C_lt heC).2
    have h2 : o.row e ≠ n := by
      intro e'
      have := d.cr idx e heC
      rw [e', h.rn] at this; simp at this
    omega
  have hcn_lt : ∀ x ∈ C n, o.row x < o.row e := by
    intro x hx
    have : o.row x ∈ (C n).map o.row := List.mem_map_of_mem hx
    rw [h.cn] at this
    obtain ⟨y, hy, hyx⟩ := List.mem_map.1 this
    rw [← hyx]; exact hdone_lt y hy
  have hcol1 : ∀ x, x ≠ t → o1.col x = o.col x := ha.col
  have hrow1 : ∀ x, x ≠ t → o1.row x = o.row x := ha.row
  have het : e ≠ t := fun e' => hfC idx (e' ▸ heC)
  -- push, then close the row
  have gp := g1.push (o' := { o1 with
        gr := upd o1.gr (lastP (.rowS (o.row e)) (R (o.row e))) (.cell t),
        gl := upd o1.gl (.cell t) (lastP (.rowS (o.row e)) (R (o.row e))),
        gd := upd o1.gd (lastP (.colS n) (C n)) (.cell t),
        gu := upd o1.gu (.cell t) (lastP (.colS n) (C n)),
        col := updN o1.col t n, row := updN o1.row t (o.row e) })
    (a := t) (i := o.row e) (j := n) hfresh (by omega) (by omega)
    (by
      intro hm
      obtain ⟨x, hx, hxn⟩ := List.mem_map.1 hm
      have hxt : x ≠ t := fun e' => hfresh _ (e' ▸ hx)
      rw [hcol1 x hxt] at hxn
      have h1 := d.rc _ x hx
      rw [hxn] at h1
      have h2 := hcn_lt x h1
      rw [d.rrow _ x hx] at h2
      exact Nat.lt_irrefl _ h2)
    (by
      intro x hx
      rw [hrow1 x (fun e' => hfC n (e' ▸ hx))]
      exact hcn_lt x hx)
    rfl rfl rfl rfl rfl rfl rfl rfl
  have gc := gp.closeRow (o' := o6) (i := o.row e)
    (by rw [e6, setL_same, lastP_snoc]) (by rw [e6, setL_same, lastP_snoc]) (by rw [e6]) (by rw [e6]) (by rw [e6])
    (by rw [e6]) (by rw [e6]) (by rw [e6])
  have hrow6 : ∀ x, x ≠ t → o6.row x = o.row x := by
    intro x hx; rw [e6]; show updN o1.row t (o.row e) x = _; rw [updN_ne _ _ hx]; exact hrow1 x hx
  have hcol6 : ∀ x, x ≠ t → o6.col x = o.col x := by
    intro x hx; rw [e6]; show updN o1.col t n x = _; rw [updN_ne _ _ hx]; exact hcol1 x hx
  refine ⟨⟨gc.weaken (fun k _ hk => ?_) (fun k _ hk => ⟨hk, Nat.ne_of_lt hk⟩), ?_, ?_, ?_, ?_⟩, hfresh, hcol6, hrow6, ?_, hr_lt⟩
  · by_cases hkr : k = o.row e
    · exact Or.inr hkr
    · exact Or.inl ⟨hk, hkr⟩
  · exact m1.push _ (o' := o6) (by rw [e6]; exact Nat.le_refl _) (by rw [e6]) (by rw [e6]; exact ha.t_lt) ha.t_nfree
  · rw [setL_ne _ _ (Nat.ne_of_lt hidx), h.cidx]; simp
  · rw [setL_ne _ _ (Nat.ne_of_gt hr_lt)]; exact h.rn
  · rw [setL_same, List.map_append, List.map_append]
    have e1 : (C n).map o6.row = (C n).map o.row :=
      List.map_congr_left (fun x hx => hrow6 x (fun e' => hfC n (e' ▸ hx)))
    have e2 : done.map o6.row = done.map o.row :=
      List.map_congr_left (fun x hx => hrow6 x (fun e' => hfC idx (by rw [h.cidx]; exact e' ▸ List.mem_append_left _ hx)))
    rw [e1, e2, h.cn]
    simp only [List.map_cons, List.map_nil, List.append_cancel_left_eq, List.cons.injEq, and_true]
    rw [hrow6 e het, e6]; exact updN_same _ _ _
  · rw [e6]; exact updN_same _ _ _

theorem SC.row_lt {o : Obs} {n idx : Nat} {R C : Nat → List Nat} {done todo : List Nat} {e : Nat}
    (h : SC o n idx R C done (e :: todo)) : o.row e < n := by
  have d := h.gs.data
  have heC : e ∈ C idx := by rw [h.cidx]; simp
  have h1 := (d.C_lt heC).2
  have h2 : o.row e ≠ n := by
    intro e'
    have := d.cr idx e heC
    rw [e', h.rn] at this; simp at this
  omega

theorem splitCol_spec (idx n : Nat) (hidx : idx < n) : ∀ (todo : List Nat) (fuel : Nat) (s : T) (R C : Nat → List Nat)
    (done : List Nat), SC (obs s) n idx R C done todo → todo.length < fuel →
    ∃ s' R' C', splitCol idx n fuel s (lastP (.colS n) (C n)) (headP todo (.colS (idx + 1))) =
        some (s', lastP (.colS n) (C' n)) ∧
      SC (obs s') n idx R' C' (done ++ todo) [] ∧
      (∀ k, k < n → (R' k).map (obs s').col =
        (R k).map (obs s).col ++ (if k ∈ todo.map (obs s).row then [n] else [])) ∧
      (∀ x k, x ∈ R k → (obs s').row x = (obs s).row x ∧ (obs s').col x = (obs s).col x) ∧
      (obs s').size = (obs s).size
  | [], fuel + 1, s, R, C, done, h, _ =>
    ⟨s, R, C, by simp [splitCol], by simpa using h, fun k _ => by simp, fun _ _ _ => ⟨rfl, rfl⟩, rfl⟩
  | e :: todo, fuel + 1, s, R, C, done, h, hf => by
    have d := h.gs.data
    have hal := alloc_spec s h.mem.fnd h.mem.flt
    have hfresh : ∀ k, (alloc s).1 ∉ R k := h.mem.fresh hal
    have g1 := h.gs.alloc hal hfresh
    have hr := h.row_lt
    have hnc : n < (obs (alloc s).2).nc := by rw [g1.nc]; exact g1.nr
    obtain ⟨q, hq⟩ := gd_lastP_some (s := (alloc s).2) (C n) hnc
    obtain ⟨c1, c2⟩ := g1.rowCl ((obs s).row e) (by omega) hr
    obtain ⟨s6, e1, e6⟩ := splitCol_step (idx := idx) (n := n) (fuel := fuel) (e := e) hq c2 c1
    obtain ⟨h6, _, hcol6, hrow6, hcolt, _⟩ := h.step hidx hal e6
    -- the next element of the column
    have hcC := h6.gs.colC (j := idx) (by omega) hidx
    unfold ColC at hcC
    rw [h6.cidx, List.append_assoc] at hcC
    obtain ⟨r1, -, -, -⟩ := DL_mid _ _ _ _ _ hcC
    have hdown := down_of r1
    obtain ⟨s', R', C', e2, h', hv, hx, hsz⟩ := splitCol_spec idx n hidx todo fuel s6 _ _ (done ++ [e]) h6 (by simpa using hf)
    have heC : e ∈ C idx := by rw [h.cidx]; simp
    have hsorted := d.csorted idx
    rw [h.cidx, List.map_append, List.pairwise_append] at hsorted
    have hsorted2 := hsorted.2.1
    rw [List.map_cons, List.pairwise_cons] at hsorted2
    have hfC := d.not_mem_C hfresh
    refine ⟨s', R', C', ?_, by simpa using h', ?_, ?_, ?_⟩
    · rw [headP_cons, e1, hdown]
      rw [setL_same, lastP_snoc] at e2
      exact e2
    · intro k hk
      rw [hv k hk]
      have htodo : todo.map (obs s6).row = todo.map (obs s).row :=
        List.map_congr_left (fun x hx => hrow6 x (fun e' => hfC idx (by rw [h.cidx]; exact e' ▸ (by simp [hx]))))
      rw [htodo]
      by_cases hkr : k = (obs s).row e
      · subst hkr
        rw [setL_same, List.map_append, List.map_congr_left (fun x hx => hcol6 x (fun e' => hfresh _ (e' ▸ hx)))]
        have : (obs s).row e ∉ todo.map (obs s).row := fun hm => Nat.lt_irrefl _ (hsorted2.1 _ hm)
        simp [this, hcolt]
      · rw [setL_ne _ _ hkr, List.map_congr_left (fun x hx => hcol6 x (fun e' => hfresh _ (e' ▸ hx)))]
        simp [hkr]
    · intro x k hxk
      have hxt : x ≠ (alloc s).1 := fun e' => hfresh k (e' ▸ hxk)
      have hx' : x ∈ setL R ((obs s).row e) (R ((obs s).row e) ++ [(alloc s).1]) k := by
        by_cases hkr : k = (obs s).row e
        · subst hkr; rw [setL_same]; exact List.mem_append_left _ hxk
        · rw [setL_ne _ _ hkr]; exact hxk
      obtain ⟨a1, a2⟩ := hx x k hx'
      exact ⟨a1.trans (hrow6 x hxt), a2.trans (hcol6 x hxt)⟩
    · rw [hsz, e6]; exact hal.size

/-- "put reflexivity" of `split` -/
def phase2 (s1 : T) (last : Ptr) (newIndex : Nat) : Option T :=
  let es := alloc s1
  let el := Ptr.cell es.1
  match setDown es.2 last el with
  | none => none
  | some s2 =>
    let s3 : T := { s2 with cells := s2.cells.set es.1 { s2.cells.get es.1 with up := last, down := .colE newIndex } }
    match setColSecond s3 newIndex el with
    | none => none
    | some s4 =>
      some { s4 with cells := s4.cells.set es.1 { s4.cells.get es.1 with right := .rowE newIndex, col := newIndex, row := newIndex } }

/-- "finish reflexivity" of `split` -/
def phase4 (s6 : T) (last2 : Ptr) (newIndex : Nat) : Option T :=
  let cSec := (s6.cols.getD newIndex default).2
  match setRight s6 last2 cSec with
  | none => none
  | some s7 =>
    match setLeft s7 cSec last2 with
    | none => none
    | some s8 =>
      match setRowSecond s8 newIndex (s8.cols.getD newIndex default).2 with
      | none => none
      | some s9 => some { s9 with size := s9.size + 1 }

theorem split_some {s : T} {idx : Nat} {cl rw : Ptr × Ptr} {s1 s5 s6 s9 : T} {last last2 : Ptr}
    (hc : idx < s.size ∧ s.size < s.cols.length ∧ s.size < s.rows.length)
    (h0 : s.cols[idx]? = some cl)
    (h1 : splitCol idx s.size (s.next + 1) s (.colB s.size) cl.1 = some (s1, last))
    (h2 : phase2 s1 last s.size = some s5)
    (h3 : s5.rows[idx]? = some rw)
    (h4 : splitRow idx s.size (s5.next + 1) s5 (.rowB s.size) rw.1 = some (s6, last2))
    (h5 : phase4 s6 last2 s.size = some s9) : split s idx = some s9 := by
  unfold split
  rw [if_pos hc]
  simp only [h0, h1]
  unfold phase2 at h2
  simp only [] at h2
  split at h2
  · simp at h2
  · rename_i s2 hs2
    simp only [hs2]
    split at h2
    · simp at h2
    · rename_i s4 hs4
      simp only [hs4]
      obtain rfl := Option.some.inj h2
      simp only [h3, h4]
      unfold phase4 at h5
      simp only [] at h5
      split at h5
      · simp at h5
      · rename_i s7 hs7
        simp only [hs7]
        split at h5
        · simp at h5
        · rename_i s8 hs8
          simp only [hs8]
          split at h5
          · simp at h5
          · rename_i s9' hs9
            simp only [hs9]
            exact h5

/-! ### phase 2 of `split`: the reflexive cell `(n, n)` closes the new column; it is linked into its row only at the end -/

theorem phase2_obs {s1 : T} {last q q' : Ptr} {n : Nat}
    (h1 : (obs (alloc s1).2).gd last = some q) (h2 : (obs (alloc s1).2).gu (.colS (n + 1)) = some q') :
    ∃ s5, phase2 s1 last n = some s5 ∧
      obs s5 = { obs (alloc s1).2 with
        gd := upd (upd (obs (alloc s1).2).gd last (.cell (alloc s1).1)) (.cell (alloc s1).1) (.colS (n + 1)),
        gu := upd (upd (obs (alloc s1).2).gu (.cell (alloc s1).1) last) (.colS (n + 1)) (.cell (alloc s1).1),
        gr := upd (obs (alloc s1).2).gr (.cell (alloc s1).1) (.rowS (n + 1)),
        col := updN (obs (alloc s1).2).col (alloc s1).1 n,
        row := updN (obs (alloc s1).2).row (alloc s1).1 n } := by
  unfold phase2
  simp only []
  generalize (alloc s1).1 = t at *
  generalize (alloc s1).2 = sa at *
  obtain ⟨s2, a2, e2⟩ := setDown_obs (.cell t) h1
  simp only [a2]
  generalize hs3 : ({ s2 with cells := s2.cells.set t { s2.cells.get t with up := last, down := .colE n } } : T) = s3
  have e3 : obs s3 = { obs s2 with gu := upd (obs s2).gu (.cell t) last, gd := upd (obs s2).gd (.cell t) (.colS (n + 1)) } := by
    rw [← hs3, obs_setCell]; simp
  have b3 : (obs s3).gu (.colS (n + 1)) = some q' := by
    rw [e3]; simp only []; rw [upd_ne _ _ (by simp), e2]; exact h2
  obtain ⟨s4, a4, e4⟩ := setUp_obs (.cell t) b3
  simp only [setColSecond_eq, a4]
  refine ⟨_, rfl, ?_⟩
  rw [obs_setCell]
  simp only [upd_gl_self, upd_gd_self, upd_gu_self]
  rw [e4, e3, e2]

/-- what is known about the reflexive cell `el` between phase 2 and phase 4: it closes column `n` (behind the cells of
`C n`), its `right_` is `rowEnd(n)`, it is neither in a row list nor free -/
structure EL (o : Obs) (n el : Nat) (R C : Nat → List Nat) : Prop where
  d1 : o.gd (lastP (.colS n) (C n)) = some (.cell el)
  u1 : o.gu (.cell el) = some (lastP (.colS n) (C n))
  d2 : o.gd (.cell el) = some (.colS (n + 1))
  u2 : o.gu (.colS (n + 1)) = some (.cell el)
  r : o.gr (.cell el) = some (.rowS (n + 1))
  col : o.col el = n
  row : o.row el = n
  nfree : el ∉ o.free
  lt : el < o.next
  fresh : ∀ k, el ∉ R k

theorem reflex_shape {o1 o5 : Obs} {n el : Nat} {R C : Nat → List Nat}
    (h : GS o1 (n + 1) R C (fun k => k < n) (fun k => k < n)) (hfresh : ∀ k, el ∉ R k)
    (e5 : o5 = { o1 with
        gd := upd (upd o1.gd (lastP (.colS n) (C n)) (.cell el)) (.cell el) (.colS (n + 1)),
        gu := upd (upd o1.gu (.cell el) (lastP (.colS n) (C n))) (.colS (n + 1)) (.cell el),
        gr := upd o1.gr (.cell el) (.rowS (n + 1)),
        col := updN o1.col el n, row := updN o1.row el n }) :
    GS o5 (n + 1) R C (fun k => k < n) (fun k => k < n) ∧
      o5.gd (lastP (.colS n) (C n)) = some (.cell el) ∧ o5.gu (.cell el) = some (lastP (.colS n) (C n)) ∧
      o5.gd (.cell el) = some (.colS (n + 1)) ∧ o5.gu (.colS (n + 1)) = some (.cell el) ∧
      o5.gr (.cell el) = some (.rowS (n + 1)) ∧ o5.col el = n ∧ o5.row el = n := by
  have d := h.data
  have hfC := d.not_mem_C hfresh
  have hU : lastP (.colS n) (C n) ≠ .cell el := ne_cell_of_mem_col (hfC n) (lastP_mem _ _)
  have egr : o5.gr = upd o1.gr (.cell el) (.rowS (n + 1)) := by rw [e5]
  have egl : o5.gl = o1.gl := by rw [e5]
  have egd : o5.gd = upd (upd o1.gd (lastP (.colS n) (C n)) (.cell el)) (.cell el) (.colS (n + 1)) := by rw [e5]
  have egu : o5.gu = upd (upd o1.gu (.cell el) (lastP (.colS n) (C n))) (.colS (n + 1)) (.cell el) := by rw [e5]
  have ecol : o5.col = updN o1.col el n := by rw [e5]
  have erow : o5.row = updN o1.row el n := by rw [e5]
  have gd_ne : ∀ p, p ≠ lastP (.colS n) (C n) → p ≠ .cell el → o5.gd p = o1.gd p := by
    intro p h1 h2; rw [egd, upd_ne _ _ h2, upd_ne _ _ h1]
  have gu_ne : ∀ p, p ≠ .colS (n + 1) → p ≠ .cell el → o5.gu p = o1.gu p := by
    intro p h1 h2; rw [egu, upd_ne _ _ h1, upd_ne _ _ h2]
  have gr_ne : ∀ p, p ≠ .cell el → o5.gr p = o1.gr p := by
    intro p h2; rw [egr, upd_ne _ _ h2]
  refine ⟨⟨?_, ?_, ?_, ?_, ?_, by rw [e5]; exact h.nr, by rw [e5]; exact h.nc⟩, ?_, ?_, ?_, ?_, ?_, ?_, ?_⟩
  · rw [ecol, erow]
    exact d.congr (fun k x hx => updN_ne _ _ (fun e' => hfresh k (e' ▸ hx)))
      (fun k x hx => updN_ne _ _ (fun e' => hfresh k (e' ▸ hx)))
  · intro k hk
    refine DL_congr' _ (h.rowO k hk) (fun p hp => gr_ne p (ne_cell_of_mem_row (hfresh k) hp)) (fun p _ => by rw [egl])
  · intro k hk
    by_cases hkn : k = n
    · subst hkn
      refine DL_open_frame _ _ (h.colO k hk) (open_nodup_col _ _ (d.C_nodup k)) ?_ ?_
      · intro y hy hne; exact gd_ne y hne (ne_cell_of_mem_col (hfC k) hy)
      · intro y hy
        obtain ⟨b, hb, rfl⟩ := List.mem_map.1 hy
        exact gu_ne _ (by simp) (fun e' => hfC k (Ptr.cell.inj e' ▸ hb))
    · refine DL_congr' _ (h.colO k hk) ?_ ?_
      · intro p hp
        exact gd_ne p (d.col_ptr_ne hkn hp (lastP_mem _ _)) (ne_cell_of_mem_col (hfC k) hp)
      · intro p hp
        refine gu_ne p ?_ (ne_cell_of_mem_col (hfC k) hp)
        rcases List.mem_cons.1 hp with rfl | hp
        · simp; omega
        · obtain ⟨b, _, rfl⟩ := List.mem_map.1 hp; simp
  · intro k hk hc
    obtain ⟨c1, c2⟩ := h.rowCl k hk hc
    exact ⟨(gr_ne _ (ne_cell_of_mem_row (hfresh k) (lastP_mem _ _))).trans c1, by rw [egl]; exact c2⟩
  · intro k hk hc
    obtain ⟨c1, c2⟩ := h.colCl k hk hc
    have hkn : k ≠ n := Nat.ne_of_lt hc
    refine ⟨(gd_ne _ (d.col_ptr_ne hkn (lastP_mem _ _) (lastP_mem _ _))
      (ne_cell_of_mem_col (hfC k) (lastP_mem _ _))).trans c1, (gu_ne _ (by simp [hkn]) (by simp)).trans c2⟩
  · rw [egd, upd_ne _ _ hU]; exact upd_same _ _ _
  · rw [egu, upd_ne _ _ (by simp)]; exact upd_same _ _ _
  · rw [egd]; exact upd_same _ _ _
  · rw [egu]; exact upd_same _ _ _
  · rw [egr]; exact upd_same _ _ _
  · rw [ecol]; exact updN_same _ _ _
  · rw [erow]; exact updN_same _ _ _

/-! ### phase 3 of `split`: copy row `idx` (all but its last cell `z`, the copy made in phase 1) into the new row `n` -/

/-- loop invariant of "copy row" -/
structure SW (o : Obs) (n idx el : Nat) (R C : Nat → List Nat) (done todo : List Nat) (z : Nat) : Prop where
  gs : GS o (n + 1) R C (fun k => k < n) (fun k => k < n)
  mem : Mem o R
  el : EL o n el R C
  ridx : R idx = done ++ todo ++ [z]
  zcol : o.col z = n
  rn : (R n).map o.col = done.map o.col

theorem SW.col_lt {o : Obs} {n idx el : Nat} {R C : Nat → List Nat} {done todo : List Nat} {e z : Nat}
    (h : SW o n idx el R C done (e :: todo) z) : o.col e < n := by
  have d := h.gs.data
  have heR : e ∈ R idx := by rw [h.ridx]; simp
  have h1 := (d.rlt idx e heR).2
  have hnd := d.rnd idx
  rw [h.ridx] at hnd
  have h2 : o.col e ≠ n := by
    intro e'
    simp only [List.map_append, List.map_cons, List.map_nil, List.append_assoc, List.cons_append] at hnd
    have := (List.nodup_append.1 hnd).2.1
    rw [List.nodup_cons] at this
    apply this.1
    rw [e', ← h.zcol]; simp
  omega

theorem SW.step {o o1 o6 : Obs} {n idx el : Nat} {R C : Nat → List Nat} {done todo : List Nat} {e t z : Nat}
    (h : SW o n idx el R C done (e :: todo) z) (hidx : idx < n) (ha : AllocRel o o1 t)
    (e6 : o6 = { o1 with
        gr := upd o1.gr (lastP (.rowS n) (R n)) (.cell t),
        gl := upd o1.gl (.cell t) (lastP (.rowS n) (R n)),
        gd := upd (upd o1.gd (lastP (.colS (o.col e)) (C (o.col e))) (.cell t)) (.cell t) (.colS (o.col e + 1)),
        gu := upd (upd o1.gu (.cell t) (lastP (.colS (o.col e)) (C (o.col e)))) (.colS (o.col e + 1)) (.cell t),
        col := updN o1.col t (o.col e),
        row := updN o1.row t n }) :
    SW o6 n idx el (setL R n (R n ++ [t])) (setL C (o.col e) (C (o.col e) ++ [t])) (done ++ [e]) todo z ∧
      (∀ k, t ∉ R k) ∧ (∀ x, x ≠ t → o6.col x = o.col x) ∧ (∀ x, x ≠ t → o6.row x = o.row x) := by
  have d := h.gs.data
  have hfresh : ∀ k, t ∉ R k := h.mem.fresh ha
  have hfC := d.not_mem_C hfresh
  have g1 := h.gs.alloc ha hfresh
  have m1 := h.mem.alloc ha
  have hc_lt := h.col_lt
  have heR : e ∈ R idx := by rw [h.ridx]; simp
  have hzR : z ∈ R idx := by rw [h.ridx]; simp
  have hcol1 : ∀ x, x ≠ t → o1.col x = o.col x := ha.col
  have hrow1 : ∀ x, x ≠ t → o1.row x = o.row x := ha.row
  have het : e ≠ t := fun e' => hfresh idx (e' ▸ heR)
  have hzt : z ≠ t := fun e' => hfresh idx (e' ▸ hzR)
  have helt : el ≠ t := by
    intro e'
    rcases ha.t_old with h1 | h1
    · exact h.el.nfree (e' ▸ h1)
    · have := h.el.lt; omega
  have hnd := d.rnd idx
  rw [h.ridx] at hnd
  simp only [List.map_append, List.map_cons, List.map_nil, List.append_assoc, List.cons_append] at hnd
  have hc_done : o.col e ∉ done.map o.col := fun hm => (List.nodup_append.1 hnd).2.2 _ hm _ (by simp) rfl
  have hRn : ∀ x ∈ R n, x ≠ t := fun x hx e' => hfresh n (e' ▸ hx)
  have gp := g1.push (o' := { o1 with
        gr := upd o1.gr (lastP (.rowS n) (R n)) (.cell t),
        gl := upd o1.gl (.cell t) (lastP (.rowS n) (R n)),
        gd := upd o1.gd (lastP (.colS (o.col e)) (C (o.col e))) (.cell t),
        gu := upd o1.gu (.cell t) (lastP (.colS (o.col e)) (C (o.col e))),
        col := updN o1.col t (o.col e), row := updN o1.row t n })
    (a := t) (i := n) (j := o.col e) hfresh (by omega) (by omega)
    (by
      rw [List.map_congr_left (fun x hx => hcol1 x (hRn x hx)), h.rn]; exact hc_done)
    (by
      intro x hx
      rw [hrow1 x (fun e' => hfC _ (e' ▸ hx))]
      have h1 := (d.C_lt hx).2
      have h2 : o.row x ≠ n := by
        intro e'
        have h3 := d.cr _ x hx
        rw [e'] at h3
        apply hc_done
        rw [← h.rn, ← d.ccol _ x hx]
        exact List.mem_map_of_mem h3
      omega)
    rfl rfl rfl rfl rfl rfl rfl rfl
  have gc := gp.closeCol (o' := o6) (j := o.col e)
    (by rw [e6, setL_same, lastP_snoc]) (by rw [e6, setL_same, lastP_snoc]) (by rw [e6]) (by rw [e6]) (by rw [e6])
    (by rw [e6]) (by rw [e6]) (by rw [e6])
  have hrow6 : ∀ x, x ≠ t → o6.row x = o.row x := by
    intro x hx; rw [e6]; show updN o1.row t n x = _; rw [updN_ne _ _ hx]; exact hrow1 x hx
  have hcol6 : ∀ x, x ≠ t → o6.col x = o.col x := by
    intro x hx; rw [e6]; show updN o1.col t (o.col e) x = _; rw [updN_ne _ _ hx]; exact hcol1 x hx
  have hcn : o.col e ≠ n := Nat.ne_of_lt hc_lt
  have egr : o6.gr = upd o1.gr (lastP (.rowS n) (R n)) (.cell t) := by rw [e6]
  have egd : o6.gd = upd (upd o1.gd (lastP (.colS (o.col e)) (C (o.col e))) (.cell t)) (.cell t) (.colS (o.col e + 1)) := by
    rw [e6]
  have egu : o6.gu = upd (upd o1.gu (.cell t) (lastP (.colS (o.col e)) (C (o.col e)))) (.colS (o.col e + 1)) (.cell t) := by
    rw [e6]
  have helC : ∀ k, el ∉ C k := d.not_mem_C h.el.fresh
  refine ⟨⟨gc.weaken (fun k _ hk => ⟨hk, Nat.ne_of_lt hk⟩) (fun k _ hk => ?_), ?_, ?_, ?_, ?_, ?_⟩, hfresh, hcol6, hrow6⟩
  · by_cases hkc : k = o.col e
    · exact Or.inr hkc
    · exact Or.inl ⟨hk, hkc⟩
  · exact m1.push _ (o' := o6) (by rw [e6]; exact Nat.le_refl _) (by rw [e6]) (by rw [e6]; exact ha.t_lt) ha.t_nfree
  · -- the reflexive cell is untouched
    have hUn : lastP (.colS n) (C n) ≠ lastP (.colS (o.col e)) (C (o.col e)) :=
      d.col_ptr_ne (Ne.symm hcn) (lastP_mem _ _) (lastP_mem _ _)
    have hUnt : lastP (.colS n) (C n) ≠ .cell t := ne_cell_of_mem_col (hfC n) (lastP_mem _ _)
    have hUel : Ptr.cell el ≠ lastP (.colS (o.col e)) (C (o.col e)) :=
      (ne_cell_of_mem_col (helC _) (lastP_mem _ _)).symm
    have hLel : Ptr.cell el ≠ lastP (.rowS n) (R n) := (ne_cell_of_mem_row (h.el.fresh n) (lastP_mem _ _)).symm
    have hcel : Ptr.cell el ≠ Ptr.cell t := fun e' => helt (Ptr.cell.inj e')
    refine ⟨?_, ?_, ?_, ?_, ?_, ?_, ?_, ?_, ?_, ?_⟩
    · rw [setL_ne _ _ (Ne.symm hcn), egd, upd_ne _ _ hUnt, upd_ne _ _ hUn, ha.gd _ hUnt]; exact h.el.d1
    · rw [setL_ne _ _ (Ne.symm hcn), egu, upd_ne _ _ (by simp), upd_ne _ _ hcel, ha.gu _ hcel]; exact h.el.u1
    · rw [egd, upd_ne _ _ hcel, upd_ne _ _ hUel, ha.gd _ hcel]; exact h.el.d2
    · rw [egu, upd_ne _ _ (by simp [Ne.symm hcn]), upd_ne _ _ (by simp), ha.gu _ (by simp)]; exact h.el.u2
    · rw [egr, upd_ne _ _ hLel, ha.gr _ hcel]; exact h.el.r
    · rw [hcol6 el helt]; exact h.el.col
    · rw [hrow6 el helt]; exact h.el.row
    · have : o6.free = o1.free := by rw [e6]
      rw [this]; exact fun hm => h.el.nfree (ha.free_sub _ hm)
    · have : o6.next = o1.next := by rw [e6]
      rw [this]; exact Nat.lt_of_lt_of_le h.el.lt ha.next_le
    · intro k hm
      by_cases hkn : k = n
      · subst hkn; rw [setL_same] at hm
        rcases List.mem_append.1 hm with hm | hm
        · exact h.el.fresh k hm
        · exact helt (List.mem_singleton.1 hm)
      · rw [setL_ne _ _ hkn] at hm; exact h.el.fresh k hm
  · rw [setL_ne _ _ (Nat.ne_of_lt hidx), h.ridx]; simp
  · rw [hcol6 z hzt]; exact h.zcol
  · rw [setL_same, List.map_append, List.map_append]
    have e1 : (R n).map o6.col = (R n).map o.col := List.map_congr_left (fun x hx => hcol6 x (hRn x hx))
    have e2 : done.map o6.col = done.map o.col :=
      List.map_congr_left (fun x hx => hcol6 x (fun e' => hfresh idx (by rw [h.ridx]; exact e' ▸ (by simp [hx]))))
    rw [e1, e2, h.rn]
    simp only [List.map_cons, List.map_nil, List.append_cancel_left_eq, List.cons.injEq, and_true]
    rw [hcol6 e het, e6]; exact updN_same _ _ _

theorem headP_append_singleton (l : List Nat) (z : Nat) (e : Ptr) : headP (l ++ [z]) e = headP l (.cell z) := by
  cases l <;> rfl

theorem splitRow_spec (idx n el : Nat) (hidx : idx < n) : ∀ (todo : List Nat) (fuel : Nat) (s : T)
    (R C : Nat → List Nat) (done : List Nat) (z : Nat), SW (obs s) n idx el R C done todo z → todo.length < fuel →
    ∃ s' R' C', splitRow idx n fuel s (lastP (.rowS n) (R n)) (headP todo (.cell z)) =
        some (s', lastP (.rowS n) (R' n)) ∧
      SW (obs s') n idx el R' C' (done ++ todo) [] z ∧
      (∀ k, k ≠ n → R' k = R k) ∧
      (∀ x k, x ∈ R k → (obs s').row x = (obs s).row x ∧ (obs s').col x = (obs s).col x) ∧
      (obs s').size = (obs s).size
  | [], fuel + 1, s, R, C, done, z, h, _ => by
    have hidx' : idx < n + 1 := by omega
    obtain ⟨-, c2⟩ := h.gs.rowCl idx hidx' hidx
    obtain ⟨rw, h1, h2⟩ := rows_second c2
    have hz : lastP (.rowS idx) (R idx) = .cell z := by rw [h.ridx]; simp
    refine ⟨s, R, C, ?_, by simpa using h, fun _ _ => rfl, fun _ _ _ => ⟨rfl, rfl⟩, rfl⟩
    simp [splitRow, h1, h2, hz]
  | e :: todo, fuel + 1, s, R, C, done, z, h, hf => by
    have d := h.gs.data
    have hidx' : idx < n + 1 := by omega
    obtain ⟨-, c2⟩ := h.gs.rowCl idx hidx' hidx
    obtain ⟨rw0, h01, h02⟩ := rows_second c2
    have hz : lastP (.rowS idx) (R idx) = .cell z := by rw [h.ridx]; simp
    have hndR := d.R_nodup idx
    rw [h.ridx] at hndR
    have hez : Ptr.cell e ≠ rw0.2 := by
      rw [h02, hz]; intro e'
      have := Ptr.cell.inj e'
      subst this
      simp only [List.append_assoc, List.cons_append] at hndR
      have := (List.nodup_append.1 hndR).2.1
      rw [List.nodup_cons] at this
      exact this.1 (by simp)
    have hal := alloc_spec s h.mem.fnd h.mem.flt
    have hfresh : ∀ k, (alloc s).1 ∉ R k := h.mem.fresh hal
    have g1 := h.gs.alloc hal hfresh
    have hc := h.col_lt
    have hnr : n < (obs (alloc s).2).nr := g1.nr
    obtain ⟨q, hq⟩ := gr_lastP_some (s := (alloc s).2) (R n) hnr
    obtain ⟨c1', c2'⟩ := g1.colCl ((obs s).col e) (by omega) hc
    obtain ⟨s6, e1, e6⟩ := splitRow_step (idx := idx) (n := n) (fuel := fuel) (e := e) h01 hez hq c2' c1'
    obtain ⟨h6, _, hcol6, hrow6⟩ := h.step hidx hal e6
    have hrC := h6.gs.rowC (i := idx) hidx' hidx
    unfold RowC at hrC
    rw [h6.ridx] at hrC
    simp only [List.append_assoc, List.cons_append, List.nil_append] at hrC
    obtain ⟨r1, -, -, -⟩ := DL_mid _ _ done (todo ++ [z]) e hrC
    have hright := right_of r1
    rw [headP_append_singleton] at hright
    obtain ⟨s', R', C', e2, h', hk, hx, hsz⟩ :=
      splitRow_spec idx n el hidx todo fuel s6 _ _ (done ++ [e]) z h6 (by simpa using hf)
    refine ⟨s', R', C', ?_, by simpa using h', ?_, ?_, ?_⟩
    · rw [headP_cons, e1, hright]
      rw [setL_same, lastP_snoc] at e2
      exact e2
    · intro k hkn; rw [hk k hkn, setL_ne _ _ hkn]
    · intro x k hxk
      have hxt : x ≠ (alloc s).1 := fun e' => hfresh k (e' ▸ hxk)
      have hx' : x ∈ setL R n (R n ++ [(alloc s).1]) k := by
        by_cases hkn : k = n
        · subst hkn; rw [setL_same]; exact List.mem_append_left _ hxk
        · rw [setL_ne _ _ hkn]; exact hxk
      obtain ⟨a1, a2⟩ := hx x k hx'
      exact ⟨a1.trans (hrow6 x hxt), a2.trans (hcol6 x hxt)⟩
    · rw [hsz, e6]; exact hal.size

/-! ### phase 4 of `split`: the reflexive cell becomes the last cell of the new row -/

theorem phase4_obs {s6 : T} {last2 q q' : Ptr} {n el : Nat}
    (hu : (obs s6).gu (.colS (n + 1)) = some (.cell el)) (h1 : (obs s6).gr last2 = some q)
    (h2 : (obs s6).gl (.rowS (n + 1)) = some q') :
    ∃ s9, phase4 s6 last2 n = some s9 ∧
      obs s9 = { obs s6 with gr := upd (obs s6).gr last2 (.cell el),
                             gl := upd (upd (obs s6).gl (.cell el) last2) (.rowS (n + 1)) (.cell el),
                             size := (obs s6).size + 1 } := by
  unfold phase4
  simp only [cols_second_getD hu]
  obtain ⟨s7, a7, e7⟩ := setRight_obs (.cell el) h1
  obtain ⟨s8, a8, e8⟩ := setLeft_obs last2 (gl_cell s7 el)
  have hu8 : (obs s8).gu (.colS (n + 1)) = some (.cell el) := by rw [e8, e7]; exact hu
  have b8 : (obs s8).gl (.rowS (n + 1)) = some q' := by
    rw [e8]; simp only []; rw [upd_ne _ _ (by simp), e7]; exact h2
  obtain ⟨s9, a9, e9⟩ := setLeft_obs (.cell el) b8
  simp only [a7, a8, cols_second_getD hu8, setRowSecond_eq, a9]
  refine ⟨_, rfl, ?_⟩
  show ({ obs s9 with size := (obs s9).size + 1 } : Obs) = _
  rw [e9, e8, e7]

theorem updN_eta' (f : Nat → Nat) {a v : Nat} (h : f a = v) : updN f a v = f := by
  rw [← h]; exact updN_eta f a

theorem finish_shape {o6 o9 : Obs} {n idx el : Nat} {R C : Nat → List Nat} {done : List Nat} {z : Nat}
    (h : SW o6 n idx el R C done [] z) (hsz : o6.size = n)
    (e9 : o9 = { o6 with gr := upd o6.gr (lastP (.rowS n) (R n)) (.cell el),
                         gl := upd (upd o6.gl (.cell el) (lastP (.rowS n) (R n))) (.rowS (n + 1)) (.cell el),
                         size := o6.size + 1 }) :
    Shape o9 (n + 1) (setL R n (R n ++ [el])) (setL C n (C n ++ [el])) := by
  have d := h.gs.data
  have hfresh := h.el.fresh
  have hfC := d.not_mem_C hfresh
  have hndR := d.rnd idx
  rw [h.ridx] at hndR
  simp only [List.append_nil, List.map_append, List.map_cons, List.map_nil, h.zcol] at hndR
  have hn_done : n ∉ done.map o6.col := fun hm => (List.nodup_append.1 hndR).2.2 _ hm _ (by simp) rfl
  have hLel : lastP (.rowS n) (R n) ≠ .cell el := ne_cell_of_mem_row (hfresh n) (lastP_mem _ _)
  have gp := h.gs.push (o' := { o6 with gr := upd o6.gr (lastP (.rowS n) (R n)) (.cell el),
                                         gl := upd o6.gl (.cell el) (lastP (.rowS n) (R n)) })
    (a := el) (i := n) (j := n) hfresh (by omega) (by omega)
    (by rw [h.rn]; exact hn_done)
    (by
      intro x hx
      have h1 := (d.C_lt hx).2
      have h2 : o6.row x ≠ n := by
        intro e'
        have h3 := d.cr _ x hx
        rw [e'] at h3
        apply hn_done
        rw [← h.rn]
        exact List.mem_map.2 ⟨x, h3, d.ccol _ x hx⟩
      omega)
    rfl rfl (upd_eta _ _ _ h.el.d1).symm (upd_eta _ _ _ h.el.u1).symm (updN_eta' _ h.el.col).symm
    (updN_eta' _ h.el.row).symm rfl rfl
  have gr' := gp.closeRow (i := n) (o' :=
      { o6 with
        gr := upd o6.gr (lastP (.rowS n) (R n)) (.cell el),
        gl := upd (upd o6.gl (.cell el) (lastP (.rowS n) (R n))) (.rowS (n + 1)) (.cell el) })
    (by
      rw [setL_same, lastP_snoc]
      refine (upd_eta _ _ _ ?_).symm
      show upd o6.gr (lastP (.rowS n) (R n)) (.cell el) (.cell el) = _
      rw [upd_ne _ _ hLel.symm]; exact h.el.r)
    (by rw [setL_same, lastP_snoc]) rfl rfl rfl rfl rfl rfl
  have gc := gr'.closeCol (j := n) (o' :=
      { o6 with
        gr := upd o6.gr (lastP (.rowS n) (R n)) (.cell el),
        gl := upd (upd o6.gl (.cell el) (lastP (.rowS n) (R n))) (.rowS (n + 1)) (.cell el) })
    (by rw [setL_same, lastP_snoc]; exact (upd_eta _ _ _ h.el.d2).symm)
    (by rw [setL_same, lastP_snoc]; exact (upd_eta _ _ _ h.el.u2).symm) rfl rfl rfl rfl rfl rfl
  rw [Shape_iff_GS]
  refine ⟨?_, ?_, by rw [e9]; show o6.size + 1 = n + 1; rw [hsz]⟩
  · rw [e9]
    refine (gc.size_irrel (o6.size + 1)).weaken (fun k hk _ => ?_) (fun k hk _ => ?_)
    · by_cases hkn : k = n
      · exact Or.inr hkn
      · exact Or.inl ⟨by omega, hkn⟩
    · by_cases hkn : k = n
      · exact Or.inr hkn
      · exact Or.inl ⟨by omega, hkn⟩
  · exact h.mem.push n (o' := o9) (by rw [e9]; exact Nat.le_refl _) (by rw [e9]) (by rw [e9]; exact h.el.lt) h.el.nfree

end P
end Vata.LU.SR
