import Vata.LtsUtil

/-!
# `SmartSet` as coded refines the multiset value

Model: section `namespace SS` of `Vata/LtsUtil.lean` (not edited).  Helpers live in `Vata.LU.SS.P`.

The invariant `P.Inv s es` is stated over a list `es : List E` of triples `(address, key, count)`: the elements behind
`head_` in iteration order.  The `next` field of a cell is not stored in the triple, it is determined by the list
(`P.hd`); `P.Chain` says that the heap holds exactly these linked cells, `P.predOf` is the predecessor address that
`index_[key]` has to hold, `P.lastA` the address `last_` has to hold.

Main results (namespace `Vata.LU.SS`):
* `R s a` – the refinement relation.  Besides the suggested clauses it says that the flag `a.dangling` is EXACT:
  `dangling = false → last_` is the last element, `dangling = true → last_` points to a deleted cell (`Dead`).
* `mk_R`, `add_R`, `remove_R` (strict or not), `init_R`, `clear_R`, `copy_R`, `assign_R`, `assignFlat_R` – each operation
  inside the discipline is defined and re-establishes `R` with the value of `aStep`.
* `toList_R`, `size_R`, `isEmpty_R`, `contains_R`, `count_R` – the observations.
* `step_refines`, `run_refines` – worlds and histories.
* `add_undefined`, `remove_undefined`, `init_undefined`, `assign_undefined`, `step_undefined`, `run_undefined`,
  `run_defined_iff` – the discipline is tight: outside `ok` the model of the class as coded is `none`; in particular
  (THE FINDING) after `erase` removed the last element every insertion of a new key dereferences a deleted cell.
-/
namespace Vata.LU.SS
namespace P

/-- `(address, key, count)` -/
abbrev E := Nat × Nat × Nat

/-- the address of the first element of `l`, `q` if there is none -/
def hd : List E → Option Nat → Option Nat
  | [], q => q
  | x :: _, _ => some x.1

/-- the cells of `l` are in the heap, linked in this order, the last one points to `q` -/
def Chain (h : Heap (Option Cell)) : List E → Option Nat → Prop
  | [], _ => True
  | x :: r, q => h.get x.1 = some ⟨hd r q, x.2.1, x.2.2⟩ ∧ Chain h r q

/-- address of the last element of `l`, `p` if `l` is empty -/
def lastA : Nat → List E → Nat
  | p, [] => p
  | _, x :: r => lastA x.1 r

/-- address of the predecessor of the element of key `k` (`p` = address before the first element) -/
def predOf : Nat → List E → Nat → Option Nat
  | _, [], _ => none
  | p, x :: r, k => if x.2.1 = k then some p else predOf x.1 r k

abbrev Asc (l : List E) : Prop := l.Pairwise (fun x y => x.1 < y.1)

abbrev KeysNodup (l : List E) : Prop := l.Pairwise (fun x y => x.2.1 ≠ y.2.1)

theorem hd_append (l1 l2 : List E) (q : Option Nat) : hd (l1 ++ l2) q = hd l1 (hd l2 q) := by
  cases l1 <;> rfl

theorem chain_append {h : Heap (Option Cell)} :
    ∀ (l1 l2 : List E) (q : Option Nat), Chain h (l1 ++ l2) q ↔ Chain h l1 (hd l2 q) ∧ Chain h l2 q
  | [], l2, q => by simp [Chain]
  | x :: r, l2, q => by simp [Chain, hd_append, chain_append r l2 q, and_assoc]

theorem chain_frame {h : Heap (Option Cell)} {b : Nat} {v : Option Cell} :
    ∀ (l : List E) (q : Option Nat), Chain h l q → (∀ x ∈ l, x.1 ≠ b) → Chain (h.set b v) l q
  | [], _, _, _ => trivial
  | x :: r, q, hc, hne => by
    refine ⟨?_, chain_frame r q hc.2 (fun y hy => hne y (List.mem_cons_of_mem _ hy))⟩
    rw [Heap.get_set_ne h v (hne x (List.mem_cons_self ..))]
    exact hc.1

theorem lastA_append : ∀ (l1 l2 : List E) (p : Nat), lastA p (l1 ++ l2) = lastA (lastA p l1) l2
  | [], _, _ => rfl
  | x :: r, l2, _ => by simp [lastA, lastA_append r l2]

theorem predOf_append : ∀ (l1 l2 : List E) (p k : Nat),
    predOf p (l1 ++ l2) k = (predOf p l1 k).or (predOf (lastA p l1) l2 k)
  | [], _, _, _ => by simp [predOf, lastA]
  | x :: r, l2, p, k => by
    by_cases hk : x.2.1 = k
    · simp [predOf, hk]
    · simp [predOf, hk, lastA, predOf_append r l2]

theorem predOf_eq_none : ∀ (l : List E) (p k : Nat), predOf p l k = none ↔ ∀ x ∈ l, x.2.1 ≠ k
  | [], _, _ => by simp [predOf]
  | x :: r, p, k => by
    by_cases hk : x.2.1 = k
    · simp [predOf, hk]
    · simp [predOf, hk, predOf_eq_none r]

/-- a key with a predecessor splits the list -/
theorem predOf_some : ∀ (l : List E) (p k prev : Nat), predOf p l k = some prev →
    ∃ pre e c post, l = pre ++ (e, k, c) :: post ∧ prev = lastA p pre ∧ ∀ x ∈ pre, x.2.1 ≠ k
  | [], _, _, _, h => by simp [predOf] at h
  | x :: r, p, k, prev, h => by
    by_cases hk : x.2.1 = k
    · refine ⟨[], x.1, x.2.2, r, ?_, ?_, by simp⟩
      · subst hk; rfl
      · simp [predOf, hk] at h; simp [lastA, h]
    · simp [predOf, hk] at h
      obtain ⟨pre, e, c, post, h1, h2, h3⟩ := predOf_some r x.1 k prev h
      refine ⟨x :: pre, e, c, post, by simp [h1], by simp [lastA, h2], ?_⟩
      intro y hy
      rcases List.mem_cons.1 hy with rfl | hy
      · exact hk
      · exact h3 y hy

/-- every address of an ascending list is at most the last one -/
theorem le_lastA : ∀ (l : List E) (x : E), Asc (x :: l) → ∀ z ∈ x :: l, z.1 ≤ lastA x.1 l
  | [], x, _, z, hz => by simp at hz; simp [lastA, hz]
  | y :: r, x, ha, z, hz => by
    have ha' : Asc (y :: r) := (List.pairwise_cons.1 ha).2
    have hxy : x.1 < y.1 := (List.pairwise_cons.1 ha).1 y (List.mem_cons_self ..)
    have hy := le_lastA r y ha' y (List.mem_cons_self ..)
    rcases List.mem_cons.1 hz with rfl | hz
    · simp only [lastA]; omega
    · exact le_lastA r y ha' z hz

/-- the last cell of a chain can be re-linked -/
theorem chain_relink {h : Heap (Option Cell)} : ∀ (pre : List E) (x : E) (q q' : Option Nat),
    Chain h (x :: pre) q → Asc (x :: pre) →
    ∃ pk pc, h.get (lastA x.1 pre) = some ⟨q, pk, pc⟩ ∧
      Chain (h.set (lastA x.1 pre) (some ⟨q', pk, pc⟩)) (x :: pre) q'
  | [], x, q, q', hc, _ => ⟨x.2.1, x.2.2, hc.1, by simp [Chain, lastA, hd]⟩
  | y :: r, x, q, q', hc, ha => by
    have ha' : Asc (y :: r) := (List.pairwise_cons.1 ha).2
    have hxy : x.1 < y.1 := (List.pairwise_cons.1 ha).1 y (List.mem_cons_self ..)
    have hy := le_lastA r y ha' y (List.mem_cons_self ..)
    obtain ⟨pk, pc, h1, h2⟩ := chain_relink r y q q' hc.2 ha'
    refine ⟨pk, pc, h1, ?_, h2⟩
    show (h.set (lastA y.1 r) _).get x.1 = _
    rw [Heap.get_set_ne h _ (show x.1 ≠ lastA y.1 r by omega)]
    exact hc.1

theorem chain_split {h : Heap (Option Cell)} {x : E} {pre post : List E} {e k c : Nat} {q : Option Nat} :
    Chain h (x :: (pre ++ (e, k, c) :: post)) q ↔
      Chain h (x :: pre) (some e) ∧ h.get e = some ⟨hd post q, k, c⟩ ∧ Chain h post q := by
  rw [← List.cons_append, chain_append]
  simp [Chain, hd]

theorem asc_split {x y : E} {pre post : List E} (h : Asc (x :: (pre ++ y :: post))) :
    Asc (x :: pre) ∧ (∀ z ∈ x :: pre, z.1 < y.1) ∧ (∀ z ∈ post, y.1 < z.1) ∧ Asc post ∧
      (∀ z ∈ x :: pre, ∀ w ∈ post, z.1 < w.1) := by
  rw [← List.cons_append] at h
  obtain ⟨h1, h2, h3⟩ := List.pairwise_append.1 h
  obtain ⟨h4, h5⟩ := List.pairwise_cons.1 h2
  exact ⟨h1, fun z hz => h3 z hz y (List.mem_cons_self ..), h4, h5,
    fun z hz w hw => h3 z hz w (List.mem_cons_of_mem _ hw)⟩

theorem getD_set (l : List (Option Nat)) (i j : Nat) (v : Option Nat) :
    (l.set i v).getD j none = if j = i then (if i < l.length then v else none) else l.getD j none := by
  simp only [List.getD_eq_getElem?_getD, List.getElem?_set]
  by_cases hji : j = i
  · subst hji; by_cases hl : j < l.length <;> simp [hl]
  · have : ¬ i = j := fun e => hji e.symm
    simp [hji, this]

/-- the representation invariant (without `size_`, `last_` and the positivity of the counts) -/
structure Inv (s : T) (es : List E) : Prop where
  chain : ∃ hk hc, Chain s.heap ((0, hk, hc) :: es) none
  apos : ∀ x ∈ es, 0 < x.1
  asc : Asc es
  bound : ∀ x ∈ es, x.1 < s.nextAddr
  npos : 0 < s.nextAddr
  keys : KeysNodup es
  krange : ∀ x ∈ es, x.2.1 < s.index.length
  index : ∀ k, s.index.getD k none = predOf 0 es k

theorem Inv.ascFull {s : T} {es : List E} (hi : Inv s es) (hk hc : Nat) : Asc ((0, hk, hc) :: es) :=
  List.pairwise_cons.2 ⟨hi.apos, hi.asc⟩

theorem forall_mem_split {P : E → Prop} {pre post : List E} {y : E} :
    (∀ x ∈ pre ++ y :: post, P x) ↔ (∀ x ∈ pre, P x) ∧ P y ∧ ∀ x ∈ post, P x := by
  constructor
  · intro h
    exact ⟨fun x hx => h x (List.mem_append_left _ hx), h y (by simp), fun x hx => h x (by simp [hx])⟩
  · rintro ⟨h1, h2, h3⟩ x hx
    rcases List.mem_append.1 hx with hx | hx
    · exact h1 x hx
    · rcases List.mem_cons.1 hx with rfl | hx
      · exact h2
      · exact h3 x hx

/-- `setCount` on the element at address `e` -/
theorem setCount_inv {s : T} {pre post : List E} {e k c : Nat} (f : Nat → Nat)
    (hi : Inv s (pre ++ (e, k, c) :: post)) :
    ∃ s', setCount s e f = some s' ∧ Inv s' (pre ++ (e, k, f c) :: post) ∧
      s'.last = s.last ∧ s'.size = s.size ∧ s'.index = s.index := by
  obtain ⟨hk, hc, hch⟩ := hi.chain
  obtain ⟨h1, h2, h3⟩ := chain_split.1 hch
  obtain ⟨a1, a2, a3, a4, a5⟩ := asc_split (hi.ascFull hk hc)
  refine ⟨{ s with heap := s.heap.set e (some ⟨hd post none, k, f c⟩) }, by simp [setCount, h2], ?_, rfl, rfl, rfl⟩
  constructor
  · refine ⟨hk, hc, chain_split.2 ⟨chain_frame (h := s.heap) _ _ h1 ?_, by simp, chain_frame (h := s.heap) _ _ h3 ?_⟩⟩
    · intro z hz; have := a2 z hz; simp at this; omega
    · intro z hz; have := a3 z hz; simp at this; omega
  · have := hi.apos; rw [forall_mem_split] at this ⊢; exact this
  · simpa [Asc, List.pairwise_append] using hi.asc
  · have := hi.bound; rw [forall_mem_split] at this ⊢; exact this
  · exact hi.npos
  · simpa [KeysNodup, List.pairwise_append] using hi.keys
  · have := hi.krange; rw [forall_mem_split] at this ⊢; exact this
  · intro k'
    have := hi.index k'
    simpa [predOf_append, predOf, lastA] using this

theorem lastA_mem : ∀ (l : List E) (x : E), ∃ z ∈ x :: l, z.1 = lastA x.1 l
  | [], x => ⟨x, by simp, rfl⟩
  | y :: r, x => by
    obtain ⟨z, hz, h⟩ := lastA_mem r y
    exact ⟨z, List.mem_cons_of_mem _ hz, by simpa [lastA] using h⟩

theorem keys_split {pre post : List E} {y : E} (h : KeysNodup (pre ++ y :: post)) :
    KeysNodup pre ∧ KeysNodup post ∧ (∀ x ∈ pre, x.2.1 ≠ y.2.1) ∧ (∀ x ∈ post, x.2.1 ≠ y.2.1) ∧
      (∀ x ∈ pre, ∀ z ∈ post, x.2.1 ≠ z.2.1) := by
  obtain ⟨h1, h2, h3⟩ := List.pairwise_append.1 h
  obtain ⟨h4, h5⟩ := List.pairwise_cons.1 h2
  exact ⟨h1, h5, fun x hx => h3 x hx y (List.mem_cons_self ..), fun x hx => (h4 x hx).symm,
    fun x hx z hz => h3 x hx z (List.mem_cons_of_mem _ hz)⟩

/-- what a successful lookup in `index_` tells -/
theorem lookup_some {s : T} {es : List E} {key prev : Nat} (hi : Inv s es)
    (hl : s.index.getD key none = some prev) :
    ∃ pre e c post pk pc, es = pre ++ (e, key, c) :: post ∧ prev = lastA 0 pre ∧
      (∀ x ∈ pre, x.2.1 ≠ key) ∧ (∀ x ∈ post, x.2.1 ≠ key) ∧
      s.heap.get prev = some ⟨some e, pk, pc⟩ ∧ s.heap.get e = some ⟨hd post none, key, c⟩ := by
  rw [hi.index] at hl
  obtain ⟨pre, e, c, post, h1, h2, h3⟩ := predOf_some _ _ _ _ hl
  subst h1
  obtain ⟨hk, hc, hch⟩ := hi.chain
  obtain ⟨c1, c2, c3⟩ := chain_split.1 hch
  obtain ⟨a1, _⟩ := asc_split (hi.ascFull hk hc)
  obtain ⟨pk, pc, r1, _⟩ := chain_relink pre (0, hk, hc) (some e) none c1 a1
  obtain ⟨_, _, _, k4, _⟩ := keys_split hi.keys
  exact ⟨pre, e, c, post, pk, pc, rfl, h2, h3, k4, by rw [h2]; exact r1, c2⟩

theorem lookup_none {s : T} {es : List E} {key : Nat} (hi : Inv s es)
    (hl : s.index.getD key none = none) : ∀ x ∈ es, x.2.1 ≠ key := by
  rw [hi.index] at hl
  exact (predOf_eq_none _ _ _).1 hl

/-- appending a fresh element behind `last_` (shared by `insert` and the copy loops) -/
theorem push_inv {s : T} {es : List E} (hi : Inv s es) (hl : s.last = lastA 0 es) {key : Nat} (c sz : Nat)
    (hkey : key < s.index.length) (habs : ∀ x ∈ es, x.2.1 ≠ key) :
    ∃ lc, s.heap.get s.last = some lc ∧
      Inv ⟨(s.heap.set s.last (some { lc with next := some s.nextAddr })).set s.nextAddr (some ⟨none, key, c⟩),
           s.nextAddr + 1, s.nextAddr, sz, s.index.set key (some s.last)⟩ (es ++ [(s.nextAddr, key, c)]) := by
  obtain ⟨hk, hc, hch⟩ := hi.chain
  obtain ⟨pk, pc, r1, r2⟩ := chain_relink es (0, hk, hc) none (some s.nextAddr) hch (hi.ascFull hk hc)
  rw [← hl] at r1 r2
  refine ⟨_, r1, ?_⟩
  have hnp := hi.npos
  constructor
  · refine ⟨hk, hc, ?_⟩
    rw [← List.cons_append, chain_append]
    refine ⟨chain_frame _ _ r2 ?_, by simp [Chain, hd]⟩
    intro z hz
    rcases List.mem_cons.1 hz with rfl | hz
    · show 0 ≠ s.nextAddr; omega
    · have := hi.bound z hz; omega
  · rw [forall_mem_split]; exact ⟨hi.apos, hnp, by simp⟩
  · refine List.pairwise_append.2 ⟨hi.asc, by simp, ?_⟩
    intro x hx y hy
    simp at hy; subst hy
    exact hi.bound x hx
  · rw [forall_mem_split]
    exact ⟨fun x hx => Nat.lt_succ_of_lt (hi.bound x hx), Nat.lt_succ_self _, by simp⟩
  · exact Nat.succ_pos _
  · refine List.pairwise_append.2 ⟨hi.keys, by simp, ?_⟩
    intro x hx y hy
    simp at hy; subst hy
    exact habs x hx
  · rw [forall_mem_split]
    simp only [List.length_set]
    exact ⟨hi.krange, hkey, by simp⟩
  · intro k'
    show (s.index.set key (some s.last)).getD k' none = _
    rw [getD_set, predOf_append, hi.index k', ← hl]
    by_cases hk' : k' = key
    · subst hk'
      simp [hkey, predOf, (predOf_eq_none es 0 k').2 habs]
    · have : ¬ key = k' := fun e => hk' e.symm
      simp [hk', predOf, this]

/-- unlinking the element `(e, k, c)`: everything of `Inv` except the computation of the new `index_` -/
theorem erase_core {s : T} {pre post : List E} {e k c : Nat} (hi : Inv s (pre ++ (e, k, c) :: post))
    (ix' : List (Option Nat)) (sz : Nat) (hlen : ix'.length = s.index.length)
    (hix : ∀ k', ix'.getD k' none = predOf 0 (pre ++ post) k') :
    ∃ pk pc, s.heap.get (lastA 0 pre) = some ⟨some e, pk, pc⟩ ∧
      s.heap.get e = some ⟨hd post none, k, c⟩ ∧ lastA 0 pre < e ∧ (∀ x ∈ post, e < x.1) ∧
      Chain s.heap post none ∧
      Inv ⟨((s.heap.set (lastA 0 pre) (some ⟨hd post none, pk, pc⟩)).set e none), s.nextAddr, s.last, sz, ix'⟩
        (pre ++ post) := by
  obtain ⟨hk, hc, hch⟩ := hi.chain
  obtain ⟨c1, c2, c3⟩ := chain_split.1 hch
  obtain ⟨a1, a2, a3, a4, a5⟩ := asc_split (hi.ascFull hk hc)
  obtain ⟨pk, pc, r1, r2⟩ := chain_relink pre (0, hk, hc) (some e) (hd post none) c1 a1
  obtain ⟨z, hz, hzl⟩ := lastA_mem pre (0, hk, hc)
  have hlt : lastA 0 pre < e := by have := a2 z hz; simp at this hzl; omega
  have a3' : ∀ x ∈ post, e < x.1 := fun x hx => by have := a3 x hx; simpa using this
  have hap := hi.apos; rw [forall_mem_split] at hap
  have hbd := hi.bound; rw [forall_mem_split] at hbd
  have hkr := hi.krange; rw [forall_mem_split] at hkr
  obtain ⟨k1, k2, k3, k4, k5⟩ := keys_split hi.keys
  refine ⟨pk, pc, r1, c2, hlt, a3', c3, ?_⟩
  constructor
  · refine ⟨hk, hc, ?_⟩
    rw [← List.cons_append, chain_append]
    refine ⟨chain_frame _ _ r2 ?_, chain_frame _ _ (chain_frame _ _ c3 ?_) ?_⟩
    · intro y hy; have := a2 y hy; simp at this; omega
    · intro y hy; have := a3' y hy; omega
    · intro y hy; have := a3' y hy; omega
  · intro x hx
    rcases List.mem_append.1 hx with hx | hx
    · exact hap.1 x hx
    · exact hap.2.2 x hx
  · refine List.pairwise_append.2 ⟨(List.pairwise_cons.1 a1).2, a4, ?_⟩
    intro x hx y hy
    exact a5 x (List.mem_cons_of_mem _ hx) y hy
  · intro x hx
    rcases List.mem_append.1 hx with hx | hx
    · exact hbd.1 x hx
    · exact hbd.2.2 x hx
  · exact hi.npos
  · exact List.pairwise_append.2 ⟨k1, k2, k5⟩
  · intro x hx
    show x.2.1 < ix'.length
    rw [hlen]
    rcases List.mem_append.1 hx with hx | hx
    · exact hkr.1 x hx
    · exact hkr.2.2 x hx
  · exact hix

/-- `erase(index_[k])` -/
theorem erase_inv {s : T} {pre post : List E} {e k c : Nat} (hi : Inv s (pre ++ (e, k, c) :: post))
    (hpre : ∀ x ∈ pre, x.2.1 ≠ k) :
    ∃ s', erase s k (lastA 0 pre) = some s' ∧ Inv s' (pre ++ post) ∧ s'.last = s.last ∧
      s'.size = s.size - 1 ∧ s'.index.length = s.index.length ∧ s'.heap.get e = none := by
  obtain ⟨k1, k2, k3, k4, k5⟩ := keys_split hi.keys
  have hkr := hi.krange; rw [forall_mem_split] at hkr
  have hpn : predOf 0 pre k = none := (predOf_eq_none _ _ _).2 hpre
  cases post with
  | nil =>
    have hix : ∀ k', (s.index.set k none).getD k' none = predOf 0 (pre ++ []) k' := by
      intro k'
      have := hi.index k'
      rw [predOf_append] at this
      rw [getD_set, List.append_nil, this]
      by_cases hk' : k' = k
      · subst hk'; simp [hpn]
      · have : ¬ k = k' := fun e => hk' e.symm
        simp [hk', predOf, this]
    obtain ⟨pk, pc, g1, g2, hlt, _, _, hinv⟩ := erase_core hi _ (s.size - 1) (by simp) hix
    refine ⟨_, ?_, hinv, rfl, rfl, by simp, Heap.get_set_same _ _ _⟩
    simp [erase, g1, g2, hd]
  | cons y post' =>
    obtain ⟨n, nk, nc⟩ := y
    have hnk : nk ≠ k := k4 (n, nk, nc) (List.mem_cons_self ..)
    have hnk' : ¬ k = nk := fun e => hnk e.symm
    have hnlen : nk < s.index.length := hkr.2.2 (n, nk, nc) (List.mem_cons_self ..)
    have hprenk : predOf 0 pre nk = none :=
      (predOf_eq_none _ _ _).2 (fun x hx => k5 x hx (n, nk, nc) (List.mem_cons_self ..))
    have hpostk : predOf n post' k = none :=
      (predOf_eq_none _ _ _).2 (fun x hx => k4 x (List.mem_cons_of_mem _ hx))
    have hix : ∀ k', ((s.index.set nk (some (lastA 0 pre))).set k none).getD k' none
        = predOf 0 (pre ++ (n, nk, nc) :: post') k' := by
      intro k'
      have := hi.index k'
      rw [predOf_append] at this
      rw [getD_set, getD_set, predOf_append, this]
      by_cases hk' : k' = k
      · subst hk'; simp [hpn, predOf, hnk, hpostk]
      · have : ¬ k = k' := fun e => hk' e.symm
        by_cases hk2 : k' = nk
        · subst hk2; simp [hk', hnlen, hprenk, predOf]
        · have : ¬ nk = k' := fun e => hk2 e.symm
          simp [*, predOf]
    obtain ⟨pk, pc, g1, g2, hlt, hpost, hcp, hinv⟩ := erase_core hi _ (s.size - 1) (by simp) hix
    have hn : e < n := hpost (n, nk, nc) (List.mem_cons_self ..)
    have g3 : s.heap.get n = some ⟨hd post' none, nk, nc⟩ := hcp.1
    refine ⟨_, ?_, hinv, rfl, rfl, by simp, Heap.get_set_same _ _ _⟩
    have hne : n ≠ lastA 0 pre := by omega
    simp [erase, g1, g2, hd, Heap.get_set_ne _ _ hne, g3, hnlen]

/-! ### the value side: list lemmas -/

/-- `aAdd` and `aSet` at once: apply `f` to the count of `a` (a new element starts at `0`) -/
def aUpd (f : Nat → Nat) : List (Nat × Nat) → Nat → List (Nat × Nat)
  | [], a => [(a, f 0)]
  | (b, c) :: s, a => if b == a then (b, f c) :: s else (b, c) :: aUpd f s a

theorem aAdd_eq : ∀ (l : List (Nat × Nat)) (k : Nat), aAdd l k = aUpd (· + 1) l k
  | [], _ => rfl
  | (b, c) :: s, k => by simp [aAdd, aUpd, aAdd_eq s k]

theorem aSet_eq (n : Nat) : ∀ (l : List (Nat × Nat)) (k : Nat), aSet l k n = aUpd (fun _ => n) l k
  | [], _ => rfl
  | (b, c) :: s, k => by simp [aSet, aUpd, aSet_eq n s k]

theorem aUpd_present (f : Nat → Nat) : ∀ (l1 l2 : List (Nat × Nat)) (k c : Nat), (∀ x ∈ l1, x.1 ≠ k) →
    aUpd f (l1 ++ (k, c) :: l2) k = l1 ++ (k, f c) :: l2
  | [], _, _, _, _ => by simp [aUpd]
  | (b, c') :: r, l2, k, c, h => by
    have hb : b ≠ k := h (b, c') (List.mem_cons_self ..)
    have := aUpd_present f r l2 k c (fun x hx => h x (List.mem_cons_of_mem _ hx))
    simp [aUpd, hb, this]

theorem aUpd_absent (f : Nat → Nat) : ∀ (l : List (Nat × Nat)) (k : Nat), (∀ x ∈ l, x.1 ≠ k) →
    aUpd f l k = l ++ [(k, f 0)]
  | [], _, _ => rfl
  | (b, c') :: r, k, h => by
    have hb : b ≠ k := h (b, c') (List.mem_cons_self ..)
    have := aUpd_absent f r k (fun x hx => h x (List.mem_cons_of_mem _ hx))
    simp [aUpd, hb, this]

theorem aRemove_present : ∀ (l1 l2 : List (Nat × Nat)) (k c : Nat), (∀ x ∈ l1, x.1 ≠ k) →
    aRemove (l1 ++ (k, c) :: l2) k = if c ≤ 1 then l1 ++ l2 else l1 ++ (k, c - 1) :: l2
  | [], _, _, _, _ => by simp [aRemove]
  | (b, c') :: r, l2, k, c, h => by
    have hb : b ≠ k := h (b, c') (List.mem_cons_self ..)
    have := aRemove_present r l2 k c (fun x hx => h x (List.mem_cons_of_mem _ hx))
    simp only [List.cons_append, aRemove, beq_iff_eq, hb, if_false, this]
    split <;> rfl

theorem aRemove_absent : ∀ (l : List (Nat × Nat)) (k : Nat), (∀ x ∈ l, x.1 ≠ k) → aRemove l k = l
  | [], _, _ => rfl
  | (b, c') :: r, k, h => by
    have hb : b ≠ k := h (b, c') (List.mem_cons_self ..)
    have := aRemove_absent r k (fun x hx => h x (List.mem_cons_of_mem _ hx))
    simp [aRemove, hb, this]

theorem aErase_absent (l : List (Nat × Nat)) (k : Nat) (h : ∀ x ∈ l, x.1 ≠ k) : aErase l k = l := by
  unfold aErase
  rw [List.filter_eq_self]
  intro x hx
  simpa using h x hx

theorem aErase_present (l1 l2 : List (Nat × Nat)) (k c : Nat) (h1 : ∀ x ∈ l1, x.1 ≠ k) (h2 : ∀ x ∈ l2, x.1 ≠ k) :
    aErase (l1 ++ (k, c) :: l2) k = l1 ++ l2 := by
  have e1 := aErase_absent l1 k h1
  have e2 := aErase_absent l2 k h2
  unfold aErase at *
  simp [List.filter_append, e1, e2]

theorem aCount_present : ∀ (l1 l2 : List (Nat × Nat)) (k c : Nat), (∀ x ∈ l1, x.1 ≠ k) →
    aCount (l1 ++ (k, c) :: l2) k = c
  | [], _, _, _, _ => by simp [aCount]
  | (b, c') :: r, l2, k, c, h => by
    have hb : b ≠ k := h (b, c') (List.mem_cons_self ..)
    have := aCount_present r l2 k c (fun x hx => h x (List.mem_cons_of_mem _ hx))
    simpa [aCount, List.find?_cons, hb] using this

theorem aCount_absent : ∀ (l : List (Nat × Nat)) (k : Nat), (∀ x ∈ l, x.1 ≠ k) → aCount l k = 0
  | [], _, _ => rfl
  | (b, c') :: r, k, h => by
    have hb : b ≠ k := h (b, c') (List.mem_cons_self ..)
    have := aCount_absent r k (fun x hx => h x (List.mem_cons_of_mem _ hx))
    simpa [aCount, List.find?_cons, hb] using this

/-- the items of a representation -/
abbrev itemsOf (es : List E) : List (Nat × Nat) := es.map (fun x => x.2)

theorem abs_items {es : List E} {k : Nat} (h : ∀ x ∈ es, x.2.1 ≠ k) : ∀ x ∈ itemsOf es, x.1 ≠ k := by
  intro x hx
  obtain ⟨y, hy, rfl⟩ := List.mem_map.1 hx
  exact h y hy

theorem contains_absent {es : List E} {k : Nat} (h : ∀ x ∈ es, x.2.1 ≠ k) :
    (aKeys (itemsOf es)).contains k = false := by
  rw [Bool.eq_false_iff]
  intro hc
  rw [List.contains_iff_mem] at hc
  obtain ⟨y, hy, hyk⟩ := List.mem_map.1 hc
  exact abs_items h y hy hyk

theorem contains_present (pre post : List E) (e k c : Nat) :
    (aKeys (itemsOf (pre ++ (e, k, c) :: post))).contains k = true := by
  simp [aKeys, itemsOf]

theorem itemsOf_split (pre post : List E) (e k c : Nat) :
    itemsOf (pre ++ (e, k, c) :: post) = itemsOf pre ++ (k, c) :: itemsOf post := by
  simp [itemsOf]

/-- `f(insert(key))`: `add` is `insSet · · (· + 1)`, `init` with a positive count is `insSet · · (fun _ => count)` -/
def insSet (s : T) (key : Nat) (f : Nat → Nat) : Option T :=
  match insert s key with
  | none => none
  | some (s1, a) => setCount s1 a f

theorem add_eq (s : T) (k : Nat) : add s k = insSet s k (· + 1) := rfl

theorem init_pos_eq (s : T) (k c : Nat) (hc : 0 < c) : init s k c = insSet s k (fun _ => c) := by
  simp only [init, gt_iff_lt, hc, if_true, insSet]
  rfl

end P
open P

/-- `last_` points to the last element (to `head_` if there is none) -/
def LastOk (s : T) (es : List E) : Prop := s.last = lastA 0 es

/-- `last_` points to a deleted cell -/
def Dead (s : T) : Prop := s.heap.get s.last = none

/-- the refinement relation: `es` lists `(address, key, count)` of the elements behind `head_` -/
def R (s : T) (a : A) : Prop :=
  ∃ es : List E, Inv s es ∧ s.size = es.length ∧ (∀ x ∈ es, 0 < x.2.2) ∧ itemsOf es = a.items ∧
    s.index.length = a.range ∧ (a.dangling = false → LastOk s es) ∧ (a.dangling = true → Dead s)

namespace P

theorem mk_inv (r : Nat) : Inv (mk r) [] := by
  constructor
  · exact ⟨0, 0, by simp [mk, Chain, hd]⟩
  · simp
  · simp [Asc]
  · simp
  · simp [mk]
  · simp [KeysNodup]
  · simp
  · intro k
    simp only [mk, predOf, List.getD_eq_getElem?_getD, List.getElem?_replicate]
    split <;> rfl

/-! ### `last_` stays dead -/

theorem dead_setCount {s s' : T} {e : Nat} {f : Nat → Nat} (h : setCount s e f = some s') (hd : Dead s) :
    Dead s' := by
  unfold setCount at h
  cases hg : s.heap.get e with
  | none => rw [hg] at h; cases h
  | some c =>
    rw [hg] at h
    simp only [Option.some.injEq] at h
    subst h
    have hne : s.last ≠ e := fun e' => by unfold Dead at hd; rw [e', hg] at hd; cases hd
    show (s.heap.set e _).get s.last = none
    rw [Heap.get_set_ne _ _ hne]; exact hd

theorem dead_erase {s s' : T} {k prev : Nat} (h : erase s k prev = some s') (hd : Dead s) : Dead s' := by
  unfold erase at h
  cases hp : s.heap.get prev with
  | none => simp [hp] at h
  | some pc =>
    cases hn : pc.next with
    | none => simp [hp, hn] at h
    | some el =>
      cases he : s.heap.get el with
      | none => simp [hp, hn, he] at h
      | some ec =>
        simp only [hp, hn, he] at h
        split at h
        · cases h
        · simp only [Option.some.injEq] at h
          subst h
          have hne : s.last ≠ prev := fun e' => by unfold Dead at hd; rw [e', hp] at hd; cases hd
          show ((s.heap.set prev _).set el none).get s.last = none
          by_cases hl : s.last = el
          · rw [hl]; exact Heap.get_set_same _ _ _
          · rw [Heap.get_set_ne _ _ hl, Heap.get_set_ne _ _ hne]; exact hd

/-- with a dead `last_`, inserting a key that is not a member has no defined behaviour -/
theorem insSet_dead_none {s : T} {es : List E} {k : Nat} (f : Nat → Nat) (hi : Inv s es) (hd : Dead s)
    (hk : k < s.index.length) (habs : ∀ x ∈ es, x.2.1 ≠ k) : insSet s k f = none := by
  have hl : s.index.getD k none = none := by rw [hi.index]; exact (predOf_eq_none _ _ _).2 habs
  unfold Dead at hd
  simp only [insSet, insert, hk, hl, hd, if_true]

/-- is `k` the key of the last element? -/
def lastIs (l : List (Nat × Nat)) (k : Nat) : Bool :=
  match l.getLast? with
  | some (b, _) => b == k
  | none => false

theorem lastIs_true {l : List (Nat × Nat)} {k : Nat} (h : lastIs l k = true) : ∃ c', l.getLast? = some (k, c') := by
  unfold lastIs at h
  cases hl : l.getLast? with
  | none => simp [hl] at h
  | some p =>
    obtain ⟨b, c'⟩ := p
    simp [hl] at h
    exact ⟨c', by rw [h]⟩

theorem erasesLast_true {l : List (Nat × Nat)} {k : Nat} (h : erasesLast l k = true) :
    ∃ c', l.getLast? = some (k, c') ∧ c' ≤ 1 := by
  unfold erasesLast at h
  cases hl : l.getLast? with
  | none => simp [hl] at h
  | some p =>
    obtain ⟨b, c'⟩ := p
    simp [hl] at h
    exact ⟨c', by rw [h.1], h.2⟩

theorem last_absent {l : List (Nat × Nat)} {k c' : Nat} (h : ∀ x ∈ l, x.1 ≠ k) (hl : l.getLast? = some (k, c')) :
    False :=
  h (k, c') (List.mem_of_getLast? hl) rfl

theorem last_key {pre post : List E} {e k c c' : Nat} (h4 : ∀ x ∈ post, x.2.1 ≠ k)
    (hl : (itemsOf (pre ++ (e, k, c) :: post)).getLast? = some (k, c')) : post = [] ∧ c' = c := by
  rcases List.eq_nil_or_concat post with rfl | ⟨l', z, rfl⟩
  · have : itemsOf (pre ++ [(e, k, c)]) = itemsOf pre ++ [(k, c)] := by simp [itemsOf]
    rw [this, List.getLast?_concat] at hl
    simp at hl
    exact ⟨rfl, hl.symm⟩
  · exfalso
    have : itemsOf (pre ++ (e, k, c) :: l'.concat z) = itemsOf (pre ++ (e, k, c) :: l') ++ [z.2] := by
      simp [itemsOf]
    rw [this, List.getLast?_concat] at hl
    simp only [Option.some.injEq] at hl
    exact h4 z (by simp) (by rw [hl])

/-- the `Dead` clause of `R` after an `erase` -/
theorem erase_dead {s s' : T} {dg : Bool} {pre post : List E} {e k c prev : Nat}
    (hlast : dg = false → LastOk s (pre ++ (e, k, c) :: post)) (hdead : dg = true → Dead s)
    (e1 : erase s k prev = some s') (e2 : s'.last = s.last) (e5 : s'.heap.get e = none)
    (hnew : dg = false → post = []) : Dead s' := by
  cases dg with
  | true => exact dead_erase e1 (hdead rfl)
  | false =>
    have hp := hnew rfl
    subst hp
    have hl : s.last = _ := hlast rfl
    unfold Dead
    rw [e2, hl]
    simpa [lastA_append, lastA] using e5

theorem insSet_R {s : T} {a : A} {k : Nat} (f : Nat → Nat) (hf : ∀ c, 0 < f c) (hr : R s a) (hk : k < a.range)
    (hd : (aKeys a.items).contains k = true ∨ a.dangling = false) :
    ∃ s', insSet s k f = some s' ∧ R s' { a with items := aUpd f a.items k } := by
  obtain ⟨es, hi, hsz, hpos, hit, hlen, hlast, hdead⟩ := hr
  have hk' : k < s.index.length := by omega
  cases hl : s.index.getD k none with
  | none =>
    have habs := lookup_none hi hl
    have hdang : a.dangling = false := by
      rcases hd with hd | hd
      · rw [← hit, contains_absent habs] at hd; exact absurd hd (by simp)
      · exact hd
    obtain ⟨lc, g1, hinv1⟩ := push_inv hi (hlast hdang) 0 (s.size + 1) hk' habs
    obtain ⟨s', e1, hinv2, e2, e3, e4⟩ := setCount_inv (pre := es) (post := []) f hinv1
    refine ⟨s', ?_, es ++ [(s.nextAddr, k, f 0)], hinv2, ?_, ?_, ?_, ?_, ?_,
      fun h => by rw [show a.dangling = true from h] at hdang; cases hdang⟩
    · simp only [insSet, insert, hk', hl, g1, if_true]
      exact e1
    · simp [e3, hsz]
    · rw [forall_mem_split]; exact ⟨hpos, hf 0, by simp⟩
    · show _ = aUpd f a.items k
      rw [← hit, aUpd_absent f _ k (abs_items habs)]
      simp [itemsOf]
    · show s'.index.length = a.range
      rw [e4]; simp [hlen]
    · intro _
      show s'.last = _
      rw [e2]; simp [lastA_append, lastA]
  | some prev =>
    obtain ⟨pre, e, c, post, pk, pc, rfl, h2, h3, h4, g1, g2⟩ := lookup_some hi hl
    obtain ⟨s', e1, hinv2, e2, e3, e4⟩ := setCount_inv f hi
    refine ⟨s', ?_, pre ++ (e, k, f c) :: post, hinv2, ?_, ?_, ?_, ?_, ?_, fun h => dead_setCount e1 (hdead h)⟩
    · simp only [insSet, insert, hk', hl, g1, if_true]
      exact e1
    · simp [e3, hsz]
    · rw [forall_mem_split] at hpos ⊢; exact ⟨hpos.1, hf c, hpos.2.2⟩
    · show _ = aUpd f a.items k
      rw [← hit, itemsOf_split, itemsOf_split, aUpd_present f _ _ k c (abs_items h3)]
    · show s'.index.length = a.range
      rw [e4]; exact hlen
    · intro hdg
      show s'.last = _
      rw [e2, hlast hdg]; simp [lastA_append, lastA]

theorem lastA_unlink (pre post : List E) (y : E) (p : Nat) (h : post ≠ []) :
    lastA p (pre ++ post) = lastA p (pre ++ y :: post) := by
  cases post with
  | nil => exact absurd rfl h
  | cons z r => simp [lastA_append, lastA]

theorem remove_aux {s : T} {a : A} {k : Nat} (strict : Bool) (hr : R s a) (hk : k < a.range)
    (hs : strict = true → (aKeys a.items).contains k = true) :
    ∃ s', remove s k strict = some s' ∧
      R s' { a with items := aRemove a.items k, dangling := a.dangling || erasesLast a.items k } := by
  obtain ⟨es, hi, hsz, hpos, hit, hlen, hlast, hdead⟩ := hr
  have hk' : k < s.index.length := by omega
  cases hl : s.index.getD k none with
  | none =>
    have habs := lookup_none hi hl
    have hst : strict = false := by
      cases strict with
      | false => rfl
      | true => have := hs rfl; rw [← hit, contains_absent habs] at this; exact absurd this (by simp)
    refine ⟨s, by simp only [remove, hk', hl, hst, if_true]; rfl, es, hi, hsz, hpos, ?_, hlen, ?_, ?_⟩
    · show _ = aRemove a.items k
      rw [← hit, aRemove_absent _ k (abs_items habs)]
    · intro hdg
      have hdg' : (a.dangling || erasesLast a.items k) = false := hdg
      simp only [Bool.or_eq_false_iff] at hdg'
      exact hlast hdg'.1
    · intro hdg
      have hdg' : (a.dangling || erasesLast a.items k) = true := hdg
      simp only [Bool.or_eq_true] at hdg'
      rcases hdg' with h | h
      · exact hdead h
      · obtain ⟨c', h1, _⟩ := erasesLast_true h
        rw [← hit] at h1
        exact (last_absent (abs_items habs) h1).elim
  | some prev =>
    obtain ⟨pre, e, c, post, pk, pc, rfl, h2, h3, h4, g1, g2⟩ := lookup_some hi hl
    have hpos' := hpos; rw [forall_mem_split] at hpos'
    have hc0 : 0 < c := hpos'.2.1
    by_cases hc1 : c = 1
    · subst h2
      obtain ⟨s', e1, hinv2, e2, e3, e4, e5⟩ := erase_inv hi h3
      refine ⟨s', ?_, pre ++ post, hinv2, ?_, ?_, ?_, ?_, ?_, ?_⟩
      · simp only [remove, hk', hl, g1, g2, hc1, if_true]
        exact e1
      · rw [e3, hsz]; simp
      · intro x hx
        rcases List.mem_append.1 hx with hx | hx
        · exact hpos'.1 x hx
        · exact hpos'.2.2 x hx
      · show _ = aRemove a.items k
        rw [← hit, itemsOf_split, aRemove_present _ _ k c (abs_items h3)]
        simp [hc1, itemsOf]
      · show s'.index.length = a.range
        rw [e4]; exact hlen
      · intro hdg
        have hdg' : (a.dangling || erasesLast a.items k) = false := hdg
        simp only [Bool.or_eq_false_iff] at hdg'
        show s'.last = _
        rw [e2, hlast hdg'.1]
        refine (lastA_unlink pre post _ 0 ?_).symm
        intro hp
        subst hp
        have := hdg'.2
        rw [← hit] at this
        simp [erasesLast, itemsOf, hc1] at this
      · intro hdg
        have hdg' : (a.dangling || erasesLast a.items k) = true := hdg
        refine erase_dead hlast hdead e1 e2 e5 ?_
        intro hf
        rw [hf, Bool.false_or] at hdg'
        obtain ⟨c', h1, _⟩ := erasesLast_true hdg'
        rw [← hit] at h1
        exact (last_key h4 h1).1
    · obtain ⟨s', e1, hinv2, e2, e3, e4⟩ := setCount_inv (· - 1) hi
      refine ⟨s', ?_, pre ++ (e, k, c - 1) :: post, hinv2, ?_, ?_, ?_, ?_, ?_, ?_⟩
      · simp only [remove, hk', hl, g1, g2, hc1, if_true, if_false]
        exact e1
      · simp [e3, hsz]
      · rw [forall_mem_split]; exact ⟨hpos'.1, by show 0 < c - 1; omega, hpos'.2.2⟩
      · show _ = aRemove a.items k
        rw [← hit, itemsOf_split, itemsOf_split, aRemove_present _ _ k c (abs_items h3)]
        have : ¬ c ≤ 1 := by omega
        simp [this]
      · show s'.index.length = a.range
        rw [e4]; exact hlen
      · intro hdg
        have hdg' : (a.dangling || erasesLast a.items k) = false := hdg
        simp only [Bool.or_eq_false_iff] at hdg'
        show s'.last = _
        rw [e2, hlast hdg'.1]; simp [lastA_append, lastA]
      · intro hdg
        have hdg' : (a.dangling || erasesLast a.items k) = true := hdg
        simp only [Bool.or_eq_true] at hdg'
        rcases hdg' with h | h
        · exact dead_setCount e1 (hdead h)
        · obtain ⟨c', h1, h1'⟩ := erasesLast_true h
          rw [← hit] at h1
          have := (last_key h4 h1).2
          omega

theorem init0_aux {s : T} {a : A} {k : Nat} (hr : R s a) (hk : k < a.range) :
    ∃ s', init s k 0 = some s' ∧
      R s' { a with items := aErase a.items k, dangling := a.dangling || lastIs a.items k } := by
  obtain ⟨es, hi, hsz, hpos, hit, hlen, hlast, hdead⟩ := hr
  have hk' : k < s.index.length := by omega
  cases hl : s.index.getD k none with
  | none =>
    have habs := lookup_none hi hl
    refine ⟨s, by simp only [init, hk', hl, if_true, Nat.lt_irrefl, gt_iff_lt, if_false], es, hi, hsz, hpos,
      ?_, hlen, ?_, ?_⟩
    · show _ = aErase a.items k
      rw [← hit, aErase_absent _ k (abs_items habs)]
    · intro hdg
      have hdg' : (a.dangling || lastIs a.items k) = false := hdg
      simp only [Bool.or_eq_false_iff] at hdg'
      exact hlast hdg'.1
    · intro hdg
      have hdg' : (a.dangling || lastIs a.items k) = true := hdg
      simp only [Bool.or_eq_true] at hdg'
      rcases hdg' with h | h
      · exact hdead h
      · obtain ⟨c', h1⟩ := lastIs_true h
        rw [← hit] at h1
        exact (last_absent (abs_items habs) h1).elim
  | some prev =>
    obtain ⟨pre, e, c, post, pk, pc, rfl, h2, h3, h4, g1, g2⟩ := lookup_some hi hl
    have hpos' := hpos; rw [forall_mem_split] at hpos'
    subst h2
    obtain ⟨s', e1, hinv2, e2, e3, e4, e5⟩ := erase_inv hi h3
    refine ⟨s', ?_, pre ++ post, hinv2, ?_, ?_, ?_, ?_, ?_, ?_⟩
    · simp only [init, hk', hl, if_true, Nat.lt_irrefl, gt_iff_lt, if_false]
      exact e1
    · rw [e3, hsz]; simp
    · intro x hx
      rcases List.mem_append.1 hx with hx | hx
      · exact hpos'.1 x hx
      · exact hpos'.2.2 x hx
    · show _ = aErase a.items k
      rw [← hit, itemsOf_split, aErase_present _ _ k c (abs_items h3) (abs_items h4)]
      simp [itemsOf]
    · show s'.index.length = a.range
      rw [e4]; exact hlen
    · intro hdg
      have hdg' : (a.dangling || lastIs a.items k) = false := hdg
      simp only [Bool.or_eq_false_iff] at hdg'
      show s'.last = _
      rw [e2, hlast hdg'.1]
      refine (lastA_unlink pre post _ 0 ?_).symm
      intro hp
      subst hp
      have := hdg'.2
      rw [← hit] at this
      simp [lastIs, itemsOf] at this
    · intro hdg
      have hdg' : (a.dangling || lastIs a.items k) = true := hdg
      refine erase_dead hlast hdead e1 e2 e5 ?_
      intro hf
      rw [hf, Bool.false_or] at hdg'
      obtain ⟨c', h1⟩ := lastIs_true hdg'
      rw [← hit] at h1
      exact (last_key h4 h1).1

/-! ### iteration, `clear` -/

/-- the cells the walk from `head_.next` reports -/
def cellsOf : List E → List (Nat × Cell)
  | [] => []
  | x :: r => (x.1, ⟨hd r none, x.2.1, x.2.2⟩) :: cellsOf r

theorem walk_chain {h : Heap (Option Cell)} : ∀ (es : List E) (fuel : Nat), Chain h es none → es.length ≤ fuel →
    walk h fuel (hd es none) = some (cellsOf es)
  | [], fuel, _, _ => by cases fuel <;> rfl
  | x :: r, 0, _, hl => by simp at hl
  | x :: r, fuel + 1, hc, hl => by
    have := walk_chain r fuel hc.2 (by simpa using hl)
    show walk h (fuel + 1) (some x.1) = _
    simp only [walk, hc.1, this, cellsOf]

theorem asc_length {n : Nat} : ∀ (es : List E) (lo : Nat), (∀ x ∈ es, lo < x.1) → Asc es → (∀ x ∈ es, x.1 < n) →
    lo < n → lo + es.length < n
  | [], lo, _, _, _, h => by simpa using h
  | x :: r, lo, h1, h2, h3, _ => by
    have := asc_length r x.1 (List.pairwise_cons.1 h2).1 (List.pairwise_cons.1 h2).2
      (fun y hy => h3 y (List.mem_cons_of_mem _ hy)) (h3 x (List.mem_cons_self ..))
    have := h1 x (List.mem_cons_self ..)
    simp only [List.length_cons]; omega

theorem cellsOf_items : ∀ (es : List E), (cellsOf es).map (fun ac => (ac.2.key, ac.2.count)) = itemsOf es
  | [] => rfl
  | x :: r => by simp [cellsOf, itemsOf, cellsOf_items r]

theorem cellsOf_keys : ∀ (es : List E), (cellsOf es).map (fun ac => ac.2.key) = es.map (fun x => x.2.1)
  | [] => rfl
  | x :: r => by simp [cellsOf, cellsOf_keys r]

theorem head_get {s : T} {es : List E} (hi : Inv s es) : ∃ hk hc, s.heap.get 0 = some ⟨hd es none, hk, hc⟩ := by
  obtain ⟨hk, hc, hch⟩ := hi.chain
  exact ⟨hk, hc, hch.1⟩

theorem cells_eq {s : T} {es : List E} (hi : Inv s es) : cells s = some (cellsOf es) := by
  obtain ⟨hk, hc, hch⟩ := hi.chain
  have hlen := asc_length es 0 hi.apos hi.asc hi.bound hi.npos
  have := walk_chain es s.nextAddr hch.2 (by omega)
  have h0 : s.heap.get 0 = some ⟨hd es none, hk, hc⟩ := hch.1
  simp [cells, h0, this]

theorem toList_eq {s : T} {es : List E} (hi : Inv s es) : toList s = some (itemsOf es) := by
  simp [toList, cells_eq hi, cellsOf_items]

theorem foldl_clear_none : ∀ (cs : List (Nat × Cell)) (ix : List (Option Nat)),
    (∀ k, k ∉ cs.map (fun ac => ac.2.key) → ix.getD k none = none) →
    ∀ k, (cs.foldl (fun ix ac => ix.set ac.2.key none) ix).getD k none = none
  | [], ix, h, k => h k (by simp)
  | x :: r, ix, h, k => by
    refine foldl_clear_none r (ix.set x.2.key none) ?_ k
    intro k' hk'
    rw [getD_set]
    by_cases e : k' = x.2.key
    · simp [e]
    · simp only [e, if_false]
      apply h
      simp only [List.map_cons, List.mem_cons, not_or]
      exact ⟨e, hk'⟩

theorem foldl_clear_length : ∀ (cs : List (Nat × Cell)) (ix : List (Option Nat)),
    (cs.foldl (fun ix ac => ix.set ac.2.key none) ix).length = ix.length
  | [], _ => rfl
  | x :: r, ix => by simp [foldl_clear_length r]

theorem clear_inv {s : T} {es : List E} (hi : Inv s es) :
    ∃ s', clear s = some s' ∧ Inv s' [] ∧ s'.last = 0 ∧ s'.size = 0 ∧ s'.index.length = s.index.length ∧
      (∀ k, s'.index.getD k none = none) := by
  obtain ⟨hk, hc, h0⟩ := head_get hi
  have hall : (cellsOf es).all (fun ac => decide (ac.2.key < s.index.length)) = true := by
    rw [List.all_eq_true]
    intro ac hac
    have : ac.2.key ∈ (cellsOf es).map (fun ac => ac.2.key) := List.mem_map.2 ⟨ac, hac, rfl⟩
    rw [cellsOf_keys] at this
    obtain ⟨x, hx, hxk⟩ := List.mem_map.1 this
    have := hi.krange x hx
    simp only [decide_eq_true_eq]; omega
  have hnone : ∀ k, ((cellsOf es).foldl (fun ix ac => ix.set ac.2.key none) s.index).getD k none = none := by
    apply foldl_clear_none
    intro k hk
    rw [cellsOf_keys] at hk
    rw [hi.index, predOf_eq_none]
    intro x hx e
    exact hk (List.mem_map.2 ⟨x, hx, e⟩)
  refine ⟨_, by simp only [clear, cells_eq hi, h0, hall, if_true]; rfl, ?_, rfl, rfl, foldl_clear_length _ _, hnone⟩
  constructor
  · exact ⟨hk, hc, by simp [Chain, hd]⟩
  · simp
  · simp [Asc]
  · simp
  · exact hi.npos
  · simp [KeysNodup]
  · simp
  · intro k
    exact hnone k

/-! ### the copy loops -/

theorem getD_none_of_allNone {l : List (Option Nat)} (h : ∀ x ∈ l, x = none) (k : Nat) : l.getD k none = none := by
  rw [List.getD_eq_getElem?_getD]
  cases hk : l[k]? with
  | none => rfl
  | some v => exact h v (List.mem_of_getElem? hk)

theorem allNone_of_getD {l : List (Option Nat)} (h : ∀ k, l.getD k none = none) : ∀ x ∈ l, x = none := by
  intro x hx
  obtain ⟨i, hi⟩ := List.getElem?_of_mem hx
  have := h i
  rw [List.getD_eq_getElem?_getD, hi] at this
  exact this

/-- an object whose `head_.next` is null and whose `index_` is all null represents the empty set -/
theorem inv_empty {t : T} (h0 : ∃ hk hc, t.heap.get 0 = some ⟨none, hk, hc⟩) (hn : 0 < t.nextAddr)
    (hix : ∀ x ∈ t.index, x = none) : Inv t [] := by
  obtain ⟨hk, hc, h0⟩ := h0
  constructor
  · exact ⟨hk, hc, by simp [Chain, hd, h0]⟩
  · simp
  · simp [Asc]
  · simp
  · exact hn
  · simp [KeysNodup]
  · simp
  · intro k
    exact getD_none_of_allNone hix k

theorem resizeIndex_length (ix : List (Option Nat)) (n : Nat) : (resizeIndex ix n).length = n := by
  simp only [resizeIndex, List.length_append, List.length_take, List.length_replicate]; omega

theorem resizeIndex_allNone {ix : List (Option Nat)} (h : ∀ x ∈ ix, x = none) (n : Nat) :
    ∀ x ∈ resizeIndex ix n, x = none := by
  intro x hx
  rcases List.mem_append.1 hx with hx | hx
  · exact h x (List.mem_of_mem_take hx)
  · exact (List.mem_replicate.1 hx).2

theorem pushElem_inv {t : T} {es : List E} (hi : Inv t es) (hl : t.last = lastA 0 es) (kc : Nat × Nat)
    (hk : kc.1 < t.index.length) (habs : ∀ x ∈ es, x.2.1 ≠ kc.1) :
    ∃ t', pushElem t kc = some t' ∧ Inv t' (es ++ [(t.nextAddr, kc.1, kc.2)]) ∧ t'.last = t.nextAddr ∧
      t'.size = t.size ∧ t'.index.length = t.index.length := by
  obtain ⟨lc, g1, hinv⟩ := push_inv hi hl kc.2 t.size hk habs
  refine ⟨_, ?_, hinv, rfl, rfl, by simp⟩
  simp only [pushElem, g1, hk, if_true]

theorem fillFrom_inv : ∀ (l : List (Nat × Nat)) (t : T) (es : List E), Inv t es → t.last = lastA 0 es →
    (∀ kc ∈ l, kc.1 < t.index.length) → (∀ kc ∈ l, ∀ x ∈ es, x.2.1 ≠ kc.1) →
    l.Pairwise (fun a b => a.1 ≠ b.1) →
    ∃ t' es', fillFrom t l = some t' ∧ Inv t' es' ∧ t'.last = lastA 0 es' ∧ itemsOf es' = itemsOf es ++ l ∧
      t'.size = t.size ∧ t'.index.length = t.index.length
  | [], t, es, hi, hl, _, _, _ => ⟨t, es, rfl, hi, hl, by simp, rfl, rfl⟩
  | kc :: r, t, es, hi, hl, hlen, hdis, hnd => by
    obtain ⟨t1, e1, hi1, l1, s1, n1⟩ :=
      pushElem_inv hi hl kc (hlen kc (List.mem_cons_self ..)) (hdis kc (List.mem_cons_self ..))
    obtain ⟨hnd1, hnd2⟩ := List.pairwise_cons.1 hnd
    obtain ⟨t', es', f1, hi', l', it', s', n'⟩ := fillFrom_inv r t1 (es ++ [(t.nextAddr, kc.1, kc.2)]) hi1
      (by rw [l1]; simp [lastA_append, lastA])
      (fun kc' hkc' => by rw [n1]; exact hlen kc' (List.mem_cons_of_mem _ hkc'))
      (fun kc' hkc' x hx => by
        rcases List.mem_append.1 hx with hx | hx
        · exact hdis kc' (List.mem_cons_of_mem _ hkc') x hx
        · simp at hx; subst hx; exact hnd1 kc' hkc')
      hnd2
    refine ⟨t', es', ?_, hi', l', ?_, by rw [s', s1], by rw [n', n1]⟩
    · simp only [fillFrom, e1]; exact f1
    · rw [it']; simp [itemsOf]

theorem items_pairwise {es : List E} (h : KeysNodup es) : (itemsOf es).Pairwise (fun a b => a.1 ≠ b.1) := by
  rw [List.pairwise_map]; exact h

theorem pos_of_items {es : List E} {l : List (Nat × Nat)} (h : itemsOf es = l) (hp : ∀ kc ∈ l, 0 < kc.2) :
    ∀ x ∈ es, 0 < x.2.2 := by
  intro x hx
  exact hp x.2 (h ▸ List.mem_map.2 ⟨x, hx, rfl⟩)

theorem length_of_items {es : List E} {l : List (Nat × Nat)} (h : itemsOf es = l) : es.length = l.length := by
  rw [← h]; simp [itemsOf]

/-- the common part of `copy`, `assign`, `assignFlat`: filling an empty object -/
theorem fill_empty {t0 : T} (hi : Inv t0 []) (hl : t0.last = 0) (src : List (Nat × Nat))
    (hk : ∀ kc ∈ src, kc.1 < t0.index.length) (hnd : src.Pairwise (fun a b => a.1 ≠ b.1))
    (hp : ∀ kc ∈ src, 0 < kc.2) :
    ∃ t2, fillFrom t0 src = some t2 ∧ t2.size = t0.size ∧
      ∀ sz, sz = src.length → R { t2 with size := sz } ⟨src, t0.index.length, false⟩ := by
  obtain ⟨t2, es', f1, hi', l', it', s', n'⟩ := fillFrom_inv src t0 [] hi hl hk (by simp) hnd
  have it2 : itemsOf es' = src := by simpa using it'
  refine ⟨t2, f1, s', fun sz hsz => ⟨es', ?_, ?_, pos_of_items it2 hp, it2, n', fun _ => l', fun h => by cases h⟩⟩
  · exact ⟨hi'.chain, hi'.apos, hi'.asc, hi'.bound, hi'.npos, hi'.keys, hi'.krange, hi'.index⟩
  · show sz = es'.length
    rw [hsz, length_of_items it2]

/-- what a source object offers to the copy loops -/
theorem src_facts {s : T} {a : A} (hr : R s a) :
    toList s = some a.items ∧ (∀ kc ∈ a.items, kc.1 < a.range) ∧ a.items.Pairwise (fun x y => x.1 ≠ y.1) ∧
      (∀ kc ∈ a.items, 0 < kc.2) ∧ s.size = a.items.length ∧ s.index.length = a.range := by
  obtain ⟨es, hi, hsz, hpos, hit, hlen, _⟩ := hr
  refine ⟨by rw [toList_eq hi, hit], ?_, by rw [← hit]; exact items_pairwise hi.keys, ?_, ?_, hlen⟩
  · intro kc hkc
    rw [← hit] at hkc
    obtain ⟨x, hx, rfl⟩ := List.mem_map.1 hkc
    rw [← hlen]; exact hi.krange x hx
  · intro kc hkc
    rw [← hit] at hkc
    obtain ⟨x, hx, rfl⟩ := List.mem_map.1 hkc
    exact hpos x hx
  · rw [hsz, length_of_items hit]

end P

/-! ## the operations -/

theorem mk_R (r : Nat) : R (mk r) (aMk r) :=
  ⟨[], mk_inv r, rfl, by simp, rfl, by simp [mk, aMk], fun _ => rfl, fun h => by cases h⟩

example : R (mk 3) ⟨[], 3, false⟩ := mk_R 3

theorem add_R {s : T} {a : A} {k : Nat} (hr : R s a) (hk : k < a.range)
    (hd : (aKeys a.items).contains k = true ∨ a.dangling = false) :
    ∃ s', add s k = some s' ∧ R s' { a with items := aAdd a.items k } := by
  rw [add_eq, aAdd_eq]
  exact insSet_R _ (fun c => Nat.succ_pos c) hr hk hd

/-- non-vacuity: a new key, then the same key again -/
example : ∃ s s', add (mk 4) 1 = some s ∧ add s 1 = some s' ∧ R s' ⟨[(1, 2)], 4, false⟩ := by
  obtain ⟨s, h1, h2⟩ := add_R (k := 1) (mk_R 4) (by decide) (Or.inr rfl)
  obtain ⟨s', h3, h4⟩ := add_R (k := 1) h2 (by decide) (Or.inl (by decide))
  exact ⟨s, s', h1, h3, h4⟩

/-- `remove` (`strict = false`) and `removeStrict` (`strict = true`) -/
theorem remove_R {s : T} {a : A} {k : Nat} (strict : Bool) (hr : R s a) (hk : k < a.range)
    (hs : strict = true → (aKeys a.items).contains k = true) :
    ∃ s', remove s k strict = some s' ∧
      R s' { a with items := aRemove a.items k, dangling := a.dangling || erasesLast a.items k } :=
  remove_aux strict hr hk hs

/-- non-vacuity: `removeStrict` of the only (hence last) element: the value becomes dangling -/
example : ∃ s s', add (mk 4) 1 = some s ∧ remove s 1 true = some s' ∧ R s' ⟨[], 4, true⟩ := by
  obtain ⟨s, h1, h2⟩ := add_R (k := 1) (mk_R 4) (by decide) (Or.inr rfl)
  obtain ⟨s', h3, h4⟩ := remove_R (k := 1) true h2 (by decide) (fun _ => by decide)
  exact ⟨s, s', h1, h3, h4⟩

/-- non-vacuity: `remove` of an absent key -/
example : ∃ s', remove (mk 4) 2 false = some s' ∧ R s' ⟨[], 4, false⟩ :=
  remove_R (k := 2) false (mk_R 4) (by decide) (by simp)

theorem init_R {s : T} {a : A} {k c : Nat} (hr : R s a) (hk : k < a.range)
    (hd : c = 0 ∨ (aKeys a.items).contains k = true ∨ a.dangling = false) :
    ∃ s', init s k c = some s' ∧
      R s' (if c > 0 then { a with items := aSet a.items k c }
            else { a with items := aErase a.items k,
                          dangling := a.dangling ||
                            (match a.items.getLast? with | some (b, _) => b == k | none => false) }) := by
  by_cases hc : c > 0
  · rw [if_pos hc, init_pos_eq s k c hc, aSet_eq]
    exact insSet_R _ (fun _ => hc) hr hk (hd.resolve_left (by omega))
  · rw [if_neg hc]
    have : c = 0 := by omega
    subst this
    exact init0_aux hr hk

example : ∃ s s', init (mk 4) 3 5 = some s ∧ init s 3 0 = some s' ∧ R s' ⟨[], 4, true⟩ := by
  obtain ⟨s, h1, h2⟩ := init_R (k := 3) (c := 5) (mk_R 4) (by decide) (Or.inr (Or.inr rfl))
  obtain ⟨s', h3, h4⟩ := init_R (k := 3) (c := 0) h2 (by decide) (Or.inl rfl)
  exact ⟨s, s', h1, h3, h4⟩

theorem clear_R {s : T} {a : A} (hr : R s a) :
    ∃ s', clear s = some s' ∧ R s' { a with items := [], dangling := false } := by
  obtain ⟨es, hi, hsz, hpos, hit, hlen, _⟩ := hr
  obtain ⟨s', e1, hi', l', s0, n', _⟩ := clear_inv hi
  exact ⟨s', e1, [], hi', s0, by simp, rfl, by rw [n']; exact hlen, fun _ => l', fun h => by cases h⟩

example : ∃ s s', add (mk 4) 1 = some s ∧ clear s = some s' ∧ R s' ⟨[], 4, false⟩ := by
  obtain ⟨s, h1, h2⟩ := add_R (k := 1) (mk_R 4) (by decide) (Or.inr rfl)
  obtain ⟨s', h3, h4⟩ := clear_R h2
  exact ⟨s, s', h1, h3, h4⟩

theorem copy_R {s : T} {a : A} (hr : R s a) :
    ∃ t, copy s = some t ∧ R t { a with dangling := false } := by
  obtain ⟨h1, h2, h3, h4, h5, h6⟩ := src_facts hr
  have hi0 : Inv { mk s.index.length with size := s.size } [] :=
    inv_empty ⟨0, 0, by simp [mk]⟩ (by simp [mk]) (by simp [mk])
  obtain ⟨t2, f1, s2, hR⟩ := fill_empty hi0 rfl a.items (by simpa [mk, h6] using h2) h3 h4
  refine ⟨t2, by simp only [copy, h1, f1], ?_⟩
  have := hR t2.size (by rw [s2]; exact h5)
  simpa [mk, h6] using this

example : ∃ s t, init (mk 4) 3 5 = some s ∧ copy s = some t ∧ R t ⟨[(3, 5)], 4, false⟩ := by
  obtain ⟨s, h1, h2⟩ := init_R (k := 3) (c := 5) (mk_R 4) (by decide) (Or.inr (Or.inr rfl))
  obtain ⟨t, h3, h4⟩ := copy_R h2
  exact ⟨s, t, h1, h3, h4⟩

theorem assign_R {t s : T} {at' a : A} (ht : R t at') (he : at'.items = []) (hr : R s a) :
    ∃ t', assign t s = some t' ∧ R t' ⟨a.items, a.range, false⟩ := by
  obtain ⟨h1, h2, h3, h4, h5, h6⟩ := src_facts hr
  obtain ⟨es, hi, _, _, hit, _, _⟩ := ht
  have hes : es = [] := by rw [he] at hit; simpa [itemsOf] using hit
  subst hes
  obtain ⟨hk, hc, h0⟩ := head_get hi
  have hi0 : Inv { t with index := resizeIndex (t.index.map (fun _ => none)) s.index.length, last := 0 } [] :=
    inv_empty ⟨hk, hc, h0⟩ hi.npos (resizeIndex_allNone (by simp) _)
  obtain ⟨t2, f1, s2, hR⟩ := fill_empty hi0 rfl a.items
    (by simpa [resizeIndex_length, h6] using h2) h3 h4
  refine ⟨{ t2 with size := s.size }, by simp [assign, h1, h0, f1, hd], ?_⟩
  have := hR s.size h5
  simpa [resizeIndex_length, h6] using this

example : ∃ s t, init (mk 4) 3 5 = some s ∧ assign (mk 2) s = some t ∧ R t ⟨[(3, 5)], 4, false⟩ := by
  obtain ⟨s, h1, h2⟩ := init_R (k := 3) (c := 5) (mk_R 4) (by decide) (Or.inr (Or.inr rfl))
  obtain ⟨t, h3, h4⟩ := assign_R (mk_R 2) rfl h2
  exact ⟨s, t, h1, h3, h4⟩

theorem assignFlat_R {t s : T} {at' a : A} (ht : R t at') (hr : R s a) :
    ∃ t', assignFlat t s = some t' ∧ R t' ⟨a.items.map (fun kc => (kc.1, 1)), a.range, false⟩ := by
  obtain ⟨h1, h2, h3, h4, h5, h6⟩ := src_facts hr
  obtain ⟨es, hi, _, _, _, _, _⟩ := ht
  obtain ⟨t1, e1, hi1, _, _, _, hnone⟩ := clear_inv hi
  obtain ⟨hk, hc, h0⟩ := head_get hi1
  have hi0 : Inv { t1 with index := resizeIndex t1.index s.index.length, last := 0 } [] :=
    inv_empty ⟨hk, hc, h0⟩ hi1.npos (resizeIndex_allNone (allNone_of_getD hnone) _)
  obtain ⟨t2, f1, s2, hR⟩ := fill_empty hi0 rfl (a.items.map (fun kc => (kc.1, 1)))
    (by
      intro kc hkc
      obtain ⟨x, hx, rfl⟩ := List.mem_map.1 hkc
      show x.1 < (resizeIndex t1.index s.index.length).length
      rw [resizeIndex_length, h6]; exact h2 x hx)
    (by rw [List.pairwise_map]; exact h3)
    (by
      intro kc hkc
      obtain ⟨x, hx, rfl⟩ := List.mem_map.1 hkc
      exact Nat.one_pos)
  refine ⟨{ t2 with size := s.size }, by simp only [assignFlat, h1, e1, f1], ?_⟩
  have := hR s.size (by simpa using h5)
  simpa [resizeIndex_length, h6] using this

example : ∃ s t u, init (mk 4) 3 5 = some s ∧ add (mk 2) 0 = some t ∧ assignFlat t s = some u ∧
    R u ⟨[(3, 1)], 4, false⟩ := by
  obtain ⟨s, h1, h2⟩ := init_R (k := 3) (c := 5) (mk_R 4) (by decide) (Or.inr (Or.inr rfl))
  obtain ⟨t, h3, h4⟩ := add_R (k := 0) (mk_R 2) (by decide) (Or.inr rfl)
  obtain ⟨u, h5, h6⟩ := assignFlat_R h4 h2
  exact ⟨s, t, u, h1, h3, h5, h6⟩

/-! ## the observations -/

theorem toList_R {s : T} {a : A} (hr : R s a) : toList s = some a.items := (src_facts hr).1

theorem size_R {s : T} {a : A} (hr : R s a) : s.size = a.items.length := (src_facts hr).2.2.2.2.1

theorem isEmpty_R {s : T} {a : A} (hr : R s a) : isEmpty s = some a.items.isEmpty := by
  obtain ⟨es, hi, _, _, hit, _, _⟩ := hr
  obtain ⟨hk, hc, h0⟩ := head_get hi
  rw [← hit]
  cases es <;> simp [isEmpty, h0, hd, itemsOf]

theorem contains_R {s : T} {a : A} {k : Nat} (hr : R s a) (hk : k < a.range) :
    contains s k = some ((aKeys a.items).contains k) := by
  obtain ⟨es, hi, _, _, hit, hlen, _⟩ := hr
  have hk' : k < s.index.length := by omega
  simp only [contains, hk', if_true]
  cases hl : s.index.getD k none with
  | none => rw [← hit, contains_absent (lookup_none hi hl)]; rfl
  | some prev =>
    obtain ⟨pre, e, c, post, pk, pc, rfl, _⟩ := lookup_some hi hl
    rw [← hit, contains_present]; rfl

theorem count_R {s : T} {a : A} {k : Nat} (hr : R s a) (hk : k < a.range) :
    count s k = some (aCount a.items k) := by
  obtain ⟨es, hi, _, _, hit, hlen, _⟩ := hr
  have hk' : k < s.index.length := by omega
  cases hl : s.index.getD k none with
  | none =>
    rw [← hit, aCount_absent _ k (abs_items (lookup_none hi hl))]
    simp only [count, hk', hl, if_true]
  | some prev =>
    obtain ⟨pre, e, c, post, pk, pc, rfl, _, h3, _, g1, g2⟩ := lookup_some hi hl
    rw [← hit, itemsOf_split, aCount_present _ _ k c (abs_items h3)]
    simp only [count, hk', hl, g1, g2, if_true, Option.map]

/-- non-vacuity of the observation lemmas: the object after `init(3, 5)` -/
example : ∃ s, init (mk 4) 3 5 = some s ∧ toList s = some [(3, 5)] ∧ s.size = 1 ∧ isEmpty s = some false ∧
    contains s 3 = some true ∧ contains s 2 = some false ∧ count s 3 = some 5 ∧ count s 0 = some 0 := by
  obtain ⟨s, h1, h2⟩ := init_R (k := 3) (c := 5) (mk_R 4) (by decide) (Or.inr (Or.inr rfl))
  exact ⟨s, h1, toList_R h2, size_R h2, isEmpty_R h2, contains_R (k := 3) h2 (by decide),
    contains_R (k := 2) h2 (by decide), count_R (k := 3) h2 (by decide), count_R (k := 0) h2 (by decide)⟩

/-! ## worlds and histories -/

/-- every live object refines its value -/
def RW (w : World) (aw : AWorld) : Prop :=
  w.length = aw.length ∧ ∀ (i : Nat) (s : T) (a : A), w[i]? = some s → aw[i]? = some a → R s a

namespace P

theorem RW_get {w : World} {aw : AWorld} {i : Nat} {a : A} (h : RW w aw) (ha : aw[i]? = some a) :
    ∃ s, w[i]? = some s ∧ R s a := by
  have hi : i < aw.length := by
    rcases Nat.lt_or_ge i aw.length with h' | h'
    · exact h'
    · rw [List.getElem?_eq_none h'] at ha; exact absurd ha (by simp)
  have hi' : i < w.length := by rw [h.1]; exact hi
  exact ⟨w[i], List.getElem?_eq_getElem hi', h.2 i _ a (List.getElem?_eq_getElem hi') ha⟩

theorem RW_get_lt {w : World} {aw : AWorld} {i : Nat} (h : RW w aw) (hi : i < aw.length) :
    ∃ s a, w[i]? = some s ∧ aw[i]? = some a ∧ R s a := by
  obtain ⟨s, h1, h2⟩ := RW_get h (List.getElem?_eq_getElem hi)
  exact ⟨s, aw[i], h1, List.getElem?_eq_getElem hi, h2⟩

theorem RW_set {w : World} {aw : AWorld} {i : Nat} {s' : T} {a' : A} (h : RW w aw) (hr : R s' a') :
    RW (w.set i s') (aw.set i a') := by
  refine ⟨by simp [h.1], ?_⟩
  intro j s a hs ha
  rw [List.getElem?_set] at hs ha
  by_cases hij : i = j
  · subst hij
    by_cases hl : i < aw.length
    · have hl' : i < w.length := by rw [h.1]; exact hl
      simp only [hl, hl', if_true] at hs ha
      cases hs; cases ha; exact hr
    · simp only [hl, if_true, if_false] at ha
      cases ha
  · simp only [hij, if_false] at hs ha
    exact h.2 j s a hs ha

theorem RW_append {w : World} {aw : AWorld} {s' : T} {a' : A} (h : RW w aw) (hr : R s' a') :
    RW (w ++ [s']) (aw ++ [a']) := by
  refine ⟨by simp [h.1], ?_⟩
  intro j s a hs ha
  rw [List.getElem?_append] at hs ha
  by_cases hl : j < aw.length
  · have hl' : j < w.length := by rw [h.1]; exact hl
    simp only [hl, hl', if_true] at hs ha
    exact h.2 j s a hs ha
  · have hl' : ¬ j < w.length := by rw [h.1]; exact hl
    simp only [hl, hl', if_false] at hs ha
    rw [h.1] at hs
    cases hj : j - aw.length with
    | zero => rw [hj] at hs ha; simp at hs ha; subst hs; subst ha; exact hr
    | succ n => rw [hj] at ha; simp at ha

theorem upd_step {w : World} {aw : AWorld} {i : Nat} {r : Option T} {a' : A} (h : RW w aw)
    (hr : ∃ s', r = some s' ∧ R s' a') : ∃ w', upd1 w i r = some w' ∧ RW w' (aw.set i a') := by
  obtain ⟨s', rfl, hr'⟩ := hr
  exact ⟨w.set i s', rfl, RW_set h hr'⟩

end P

/-- one call inside the discipline: the model is defined and the result refines the abstract step -/
theorem step_refines {w : World} {aw : AWorld} {op : Op} (h : RW w aw) (hok : ok aw op = true) :
    ∃ w', step w op = some w' ∧ RW w' (aStep aw op) := by
  cases op with
  | new r => exact ⟨_, rfl, RW_append h (mk_R r)⟩
  | add i k =>
    cases ha : aw[i]? with
    | none => simp [ok, ha] at hok
    | some a =>
      obtain ⟨s, hs, hr⟩ := RW_get h ha
      simp only [ok, ha, Bool.and_eq_true, Bool.or_eq_true, decide_eq_true_eq, Bool.not_eq_true'] at hok
      simp only [step, hs, aStep, ha]
      exact upd_step h (add_R hr hok.1 hok.2)
  | remove i k =>
    cases ha : aw[i]? with
    | none => simp [ok, ha] at hok
    | some a =>
      obtain ⟨s, hs, hr⟩ := RW_get h ha
      simp only [ok, ha, decide_eq_true_eq] at hok
      simp only [step, hs, aStep, ha]
      exact upd_step h (remove_R false hr hok (by simp))
  | removeStrict i k =>
    cases ha : aw[i]? with
    | none => simp [ok, ha] at hok
    | some a =>
      obtain ⟨s, hs, hr⟩ := RW_get h ha
      simp only [ok, ha, Bool.and_eq_true, decide_eq_true_eq] at hok
      simp only [step, hs, aStep, ha]
      exact upd_step h (remove_R true hr hok.1 (fun _ => hok.2))
  | init i k c =>
    cases ha : aw[i]? with
    | none => simp [ok, ha] at hok
    | some a =>
      obtain ⟨s, hs, hr⟩ := RW_get h ha
      simp only [ok, ha, Bool.and_eq_true, Bool.or_eq_true, decide_eq_true_eq, Bool.not_eq_true',
        beq_iff_eq, or_assoc] at hok
      have := init_R (c := c) hr hok.1 hok.2
      simp only [step, hs, aStep, ha]
      by_cases hc : c > 0
      · simp only [hc, if_true] at this ⊢
        exact upd_step h this
      · simp only [hc, if_false] at this ⊢
        exact upd_step h this
  | clear i =>
    simp only [ok, decide_eq_true_eq] at hok
    obtain ⟨s, a, hs, ha, hr⟩ := RW_get_lt h hok
    simp only [step, hs, aStep, ha]
    exact upd_step h (clear_R hr)
  | assignFlat i j =>
    simp only [ok, Bool.and_eq_true, decide_eq_true_eq, bne_iff_ne, ne_eq] at hok
    obtain ⟨t, at', ht, hat, hrt⟩ := RW_get_lt h hok.1.2
    obtain ⟨s, a, hs, ha, hr⟩ := RW_get_lt h hok.2
    simp only [step, hok.1.1, if_false, ht, hs, aStep, hat, ha]
    exact upd_step h (assignFlat_R hrt hr)
  | copy i =>
    simp only [ok, decide_eq_true_eq] at hok
    obtain ⟨s, a, hs, ha, hr⟩ := RW_get_lt h hok
    obtain ⟨t, e1, hrt⟩ := copy_R hr
    simp only [step, hs, aStep, ha, e1, Option.map]
    exact ⟨_, rfl, RW_append h hrt⟩
  | assign i j =>
    simp only [ok, Bool.and_eq_true, Bool.or_eq_true, decide_eq_true_eq, beq_iff_eq] at hok
    by_cases hij : i = j
    · simp only [step, hij, if_true, aStep]
      exact ⟨w, rfl, h⟩
    · obtain ⟨t, at', ht, hat, hrt⟩ := RW_get_lt h hok.1.1
      obtain ⟨s, a, hs, ha, hr⟩ := RW_get_lt h hok.1.2
      have he : at'.items = [] := by
        rcases hok.2 with e | e
        · exact absurd e hij
        · rw [hat] at e; simpa using e
      simp only [step, hij, if_false, ht, hs, aStep, hat, ha]
      exact upd_step h (assign_R hrt he hr)

/-- running a history on the model -/
def run : World → List Op → Option World
  | w, [] => some w
  | w, op :: r => (step w op).bind (fun w' => run w' r)

/-- running a history on the values -/
def aRun : AWorld → List Op → AWorld
  | aw, [] => aw
  | aw, op :: r => aRun (aStep aw op) r

/-- every call of the history is inside the discipline -/
def okAll : AWorld → List Op → Bool
  | _, [] => true
  | aw, op :: r => ok aw op && okAll (aStep aw op) r

theorem run_refines_from : ∀ (ops : List Op) (w : World) (aw : AWorld), RW w aw → okAll aw ops = true →
    ∃ w', run w ops = some w' ∧ RW w' (aRun aw ops)
  | [], w, _, h, _ => ⟨w, rfl, h⟩
  | op :: r, w, aw, h, hok => by
    simp only [okAll, Bool.and_eq_true] at hok
    obtain ⟨w1, e1, h1⟩ := step_refines h hok.1
    obtain ⟨w', e2, h2⟩ := run_refines_from r w1 (aStep aw op) h1 hok.2
    exact ⟨w', by simp only [run, e1, Option.bind]; exact e2, h2⟩

/-- every history inside the discipline, from the empty world: the model is defined all along and ends in a world
that refines the abstract one -/
theorem run_refines {ops : List Op} (hok : okAll [] ops = true) :
    ∃ w, run [] ops = some w ∧ RW w (aRun [] ops) :=
  run_refines_from ops [] [] ⟨rfl, fun i s a hs _ => by simp at hs⟩ hok

/-! ## the discipline is tight: outside `ok` the model has no defined behaviour -/

namespace P

theorem absent_of_contains {es : List E} {k : Nat} (h : (aKeys (itemsOf es)).contains k = false) :
    ∀ x ∈ es, x.2.1 ≠ k := by
  intro x hx hxk
  have : (aKeys (itemsOf es)).contains k = true := by
    rw [List.contains_iff_mem]
    exact List.mem_map.2 ⟨x.2, List.mem_map.2 ⟨x, hx, rfl⟩, hxk⟩
  rw [h] at this; cases this

theorem insSet_undefined {s : T} {a : A} {k : Nat} (f : Nat → Nat) (hr : R s a)
    (h : ¬ (k < a.range ∧ ((aKeys a.items).contains k = true ∨ a.dangling = false))) : insSet s k f = none := by
  obtain ⟨es, hi, _, _, hit, hlen, _, hdead⟩ := hr
  by_cases hk : k < a.range
  · have hc : (aKeys a.items).contains k = false := by
      cases hc : (aKeys a.items).contains k with
      | false => rfl
      | true => exact absurd ⟨hk, Or.inl hc⟩ h
    have hdg : a.dangling = true := by
      cases hdg : a.dangling with
      | true => rfl
      | false => exact absurd ⟨hk, Or.inr hdg⟩ h
    rw [← hit] at hc
    exact insSet_dead_none f hi (hdead hdg) (by omega) (absent_of_contains hc)
  · have : ¬ k < s.index.length := by omega
    simp only [insSet, insert, this, if_false]

theorem world_none {w : World} {aw : AWorld} {i : Nat} (h : RW w aw) (ha : aw[i]? = none) : w[i]? = none := by
  rw [List.getElem?_eq_none_iff] at ha ⊢
  rw [h.1]; exact ha

end P

theorem add_undefined {s : T} {a : A} {k : Nat} (hr : R s a)
    (h : ¬ (k < a.range ∧ ((aKeys a.items).contains k = true ∨ a.dangling = false))) : add s k = none := by
  rw [add_eq]; exact insSet_undefined _ hr h

theorem remove_undefined {s : T} {a : A} {k : Nat} (strict : Bool) (hr : R s a)
    (h : ¬ (k < a.range ∧ (strict = true → (aKeys a.items).contains k = true))) : remove s k strict = none := by
  obtain ⟨es, hi, _, _, hit, hlen, _, _⟩ := hr
  by_cases hk : k < a.range
  · have hk' : k < s.index.length := by omega
    cases strict with
    | false => exact absurd ⟨hk, fun e => by cases e⟩ h
    | true =>
      have hc : (aKeys a.items).contains k = false := by
        cases hc : (aKeys a.items).contains k with
        | false => rfl
        | true => exact absurd ⟨hk, fun _ => hc⟩ h
      rw [← hit] at hc
      have hl : s.index.getD k none = none := by
        rw [hi.index]; exact (predOf_eq_none _ _ _).2 (absent_of_contains hc)
      simp only [remove, hk', hl, if_true]
  · have : ¬ k < s.index.length := by omega
    simp only [remove, this, if_false]

theorem init_undefined {s : T} {a : A} {k c : Nat} (hr : R s a)
    (h : ¬ (k < a.range ∧ (c = 0 ∨ (aKeys a.items).contains k = true ∨ a.dangling = false))) :
    init s k c = none := by
  by_cases hc : 0 < c
  · rw [init_pos_eq s k c hc]
    refine insSet_undefined _ hr ?_
    rintro ⟨h1, h2⟩
    exact h ⟨h1, Or.inr h2⟩
  · have hc0 : c = 0 := by omega
    subst hc0
    obtain ⟨es, hi, _, _, hit, hlen, _, _⟩ := hr
    have : ¬ k < s.index.length := by
      intro hk; exact h ⟨by omega, Or.inl rfl⟩
    simp only [init, this, if_false, Nat.lt_irrefl, gt_iff_lt]

/-- `operator=` onto a non-empty target violates `assert(nullptr == head_.next)` -/
theorem assign_undefined {t s : T} {at' : A} (ht : R t at') (he : at'.items ≠ []) : assign t s = none := by
  obtain ⟨es, hi, _, _, hit, _, _, _⟩ := ht
  obtain ⟨hk, hc, h0⟩ := head_get hi
  have hes : es ≠ [] := by
    intro e; subst e; exact he hit.symm
  cases es with
  | nil => exact absurd rfl hes
  | cons x r =>
    unfold assign
    cases toList s with
    | none => rfl
    | some src => simp [h0, hd]

/-- outside `ok` the model is undefined (the only exception is the model's own convention that the self-assignment
`assign i i` does nothing even when object `i` does not exist) -/
theorem step_undefined {w : World} {aw : AWorld} {op : Op} (h : RW w aw) (hok : ok aw op = false)
    (hself : ∀ i, op = .assign i i → i < w.length) : step w op = none := by
  cases op with
  | new r => simp [ok] at hok
  | add i k =>
    cases ha : aw[i]? with
    | none => simp only [step, world_none h ha]
    | some a =>
      obtain ⟨s, hs, hr⟩ := RW_get h ha
      simp only [step, hs]
      rw [add_undefined hr]; · rfl
      intro hc
      have : ok aw (.add i k) = true := by
        simp only [ok, ha, Bool.and_eq_true, Bool.or_eq_true, decide_eq_true_eq, Bool.not_eq_true']
        exact hc
      rw [this] at hok; cases hok
  | remove i k =>
    cases ha : aw[i]? with
    | none => simp only [step, world_none h ha]
    | some a =>
      obtain ⟨s, hs, hr⟩ := RW_get h ha
      simp only [step, hs]
      rw [remove_undefined false hr]; · rfl
      intro hc
      have : ok aw (.remove i k) = true := by
        simp only [ok, ha, decide_eq_true_eq]
        exact hc.1
      rw [this] at hok; cases hok
  | removeStrict i k =>
    cases ha : aw[i]? with
    | none => simp only [step, world_none h ha]
    | some a =>
      obtain ⟨s, hs, hr⟩ := RW_get h ha
      simp only [step, hs]
      rw [remove_undefined true hr]; · rfl
      intro hc
      have : ok aw (.removeStrict i k) = true := by
        simp only [ok, ha, Bool.and_eq_true, decide_eq_true_eq]
        exact ⟨hc.1, hc.2 rfl⟩
      rw [this] at hok; cases hok
  | init i k c =>
    cases ha : aw[i]? with
    | none => simp only [step, world_none h ha]
    | some a =>
      obtain ⟨s, hs, hr⟩ := RW_get h ha
      simp only [step, hs]
      rw [init_undefined hr]; · rfl
      intro hc
      have : ok aw (.init i k c) = true := by
        simp only [ok, ha, Bool.and_eq_true, Bool.or_eq_true, decide_eq_true_eq, Bool.not_eq_true',
          beq_iff_eq, or_assoc]
        exact hc
      rw [this] at hok; cases hok
  | clear i =>
    simp only [ok, decide_eq_false_iff_not, Nat.not_lt] at hok
    have : w[i]? = none := by rw [List.getElem?_eq_none_iff, h.1]; exact hok
    simp only [step, this]
  | assignFlat i j =>
    by_cases hij : i = j
    · simp only [step, hij, if_true]
    · simp only [step, hij, if_false]
      simp [ok, hij] at hok
      by_cases hi : i < aw.length
      · have hj : w[j]? = none := by rw [List.getElem?_eq_none_iff, h.1]; exact hok hi
        rw [hj]
        cases w[i]? <;> rfl
      · have hi' : w[i]? = none := by rw [List.getElem?_eq_none_iff, h.1]; omega
        rw [hi']
  | copy i =>
    simp only [ok, decide_eq_false_iff_not, Nat.not_lt] at hok
    have : w[i]? = none := by rw [List.getElem?_eq_none_iff, h.1]; exact hok
    simp only [step, this]
  | assign i j =>
    by_cases hij : i = j
    · subst hij
      have := hself i rfl
      rw [h.1] at this
      simp [ok, this] at hok
    · simp only [step, hij, if_false]
      by_cases hi : i < aw.length
      · by_cases hj : j < aw.length
        · obtain ⟨t, at', ht, hat, hrt⟩ := RW_get_lt h hi
          obtain ⟨s, a, hs, ha, hr⟩ := RW_get_lt h hj
          have he : at'.items ≠ [] := by
            intro e
            have : ok aw (.assign i j) = true := by
              simp only [ok, hat, e, Bool.and_eq_true, Bool.or_eq_true, decide_eq_true_eq, beq_iff_eq]
              exact ⟨⟨hi, hj⟩, Or.inr rfl⟩
            rw [this] at hok; cases hok
          simp only [ht, hs]
          rw [assign_undefined hrt he]; rfl
        · have hj' : w[j]? = none := by rw [List.getElem?_eq_none_iff, h.1]; omega
          rw [hj']
          cases w[i]? <;> rfl
      · have hi' : w[i]? = none := by rw [List.getElem?_eq_none_iff, h.1]; omega
        rw [hi']

/-- a history that leaves the discipline at some call: the model is undefined from that call on.  (`okAll` false and
no self-assignment of a missing object anywhere) -/
theorem run_undefined : ∀ (ops : List Op) (w : World) (aw : AWorld), RW w aw → okAll aw ops = false →
    (∀ i, Op.assign i i ∈ ops → False) → run w ops = none
  | [], _, _, _, hok, _ => by simp [okAll] at hok
  | op :: r, w, aw, h, hok, hself => by
    cases hop : ok aw op with
    | false =>
      have := step_undefined h hop (fun i e => (hself i (e ▸ List.mem_cons_self ..)).elim)
      simp only [run, this, Option.bind]
    | true =>
      obtain ⟨w1, e1, h1⟩ := step_refines h hop
      simp only [okAll, hop, Bool.true_and] at hok
      have := run_undefined r w1 (aStep aw op) h1 hok (fun i hi => hself i (List.mem_cons_of_mem _ hi))
      simp only [run, e1, Option.bind]; exact this

/-- what a client sees after a history inside the discipline: every live object iterates, counts and answers
membership exactly like its value -/
theorem run_observe {ops : List Op} (hok : okAll [] ops = true) :
    ∃ w, run [] ops = some w ∧ w.length = (aRun [] ops).length ∧
      ∀ (i : Nat) (s : T) (a : A), w[i]? = some s → (aRun [] ops)[i]? = some a →
        toList s = some a.items ∧ s.size = a.items.length ∧ isEmpty s = some a.items.isEmpty ∧
        s.index.length = a.range ∧
        ∀ k, k < a.range → contains s k = some ((aKeys a.items).contains k) ∧ count s k = some (aCount a.items k) := by
  obtain ⟨w, e, h⟩ := run_refines hok
  refine ⟨w, e, h.1, fun i s a hs ha => ?_⟩
  have hr := h.2 i s a hs ha
  exact ⟨toList_R hr, size_R hr, isEmpty_R hr, (src_facts hr).2.2.2.2.2,
    fun k hk => ⟨contains_R hr hk, count_R hr hk⟩⟩

theorem RW_nil : RW [] [] := ⟨rfl, fun i s a hs _ => by simp at hs⟩

/-- for histories from the empty world without self-assignments, `okAll` is exactly the domain on which the model of the
class as coded is defined -/
theorem run_defined_iff {ops : List Op} (hself : ∀ i, Op.assign i i ∈ ops → False) :
    (run [] ops).isSome = okAll [] ops := by
  cases hok : okAll [] ops with
  | true => obtain ⟨w, e, _⟩ := run_refines hok; rw [e]; rfl
  | false => rw [run_undefined ops [] [] RW_nil hok hself]; rfl

/-! ## examples and the finding -/
namespace Ex

/-- a history inside the discipline that uses every operation (object 1 is dangling for a while) -/
def h1 : List Op :=
  [.new 4, .add 0 1, .add 0 2, .add 0 1, .remove 0 1, .remove 0 1, .init 0 3 1, .copy 0, .new 2, .add 2 0,
   .assignFlat 2 0, .removeStrict 1 3, .add 1 2, .remove 1 0, .clear 0, .assign 0 1, .assign 0 0, .init 1 2 0,
   .clear 1, .add 1 3]

example : okAll [] h1 = true := by decide

/-- non-vacuity of `run_refines` (and, through its proof, of `step_refines` for every constructor of `Op`) -/
example : ∃ w, run [] h1 = some w ∧ RW w (aRun [] h1) := run_refines (by decide)

example : aRun [] h1 = [⟨[(2, 2)], 4, false⟩, ⟨[(3, 1)], 4, false⟩, ⟨[(2, 1), (3, 1)], 4, false⟩] := by decide

/-- object 1 is dangling after its 12th call -/
example : (aRun [] (h1.take 12))[1]? = some ⟨[(2, 1)], 4, true⟩ := by decide

/-- non-vacuity of `run_observe`: object 2 at the end of `h1` -/
example : ∃ w, run [] h1 = some w ∧ w.length = 3 ∧
    ∀ s, w[2]? = some s → toList s = some [(2, 1), (3, 1)] ∧ s.size = 2 ∧ count s 3 = some 1 ∧
      contains s 0 = some false := by
  obtain ⟨w, e, hl, h⟩ := run_observe (ops := h1) (by decide)
  refine ⟨w, e, hl, fun s hs => ?_⟩
  obtain ⟨o1, o2, _, _, o5⟩ := h 2 s ⟨[(2, 1), (3, 1)], 4, false⟩ hs (by decide)
  exact ⟨o1, o2, (o5 3 (by decide)).2, (o5 0 (by decide)).1⟩

/-- non-vacuity of `step_refines` on a world with a dangling object -/
example : ∃ w, run [] [.new 4, .add 0 1, .add 0 2, .remove 0 2] = some w ∧
    RW w [⟨[(1, 1)], 4, true⟩] ∧ ∃ w', step w (.add 0 1) = some w' ∧ RW w' [⟨[(1, 2)], 4, true⟩] := by
  obtain ⟨w, h1, h2⟩ := run_refines (ops := [.new 4, .add 0 1, .add 0 2, .remove 0 2]) (by decide)
  obtain ⟨w', h3, h4⟩ := step_refines (op := .add 0 1) h2 (by decide)
  exact ⟨w, h1, h2, w', h3, h4⟩

/-- THE FINDING.  `erase` does not repair `last_`: after the last element has been erased, inserting a new key
dereferences the deleted cell.  The history is outside `ok` … -/
example : okAll [] [.new 4, .add 0 1, .remove 0 1, .add 0 2] = false := by decide

/-- … and the model of the class as coded has no defined behaviour on it. -/
example : (run [] [.new 4, .add 0 1, .remove 0 1, .add 0 2]).isNone = true := by decide

example : ((add (mk 4) 1).bind (fun s => remove s 1 false)).bind (fun s => add s 2) = none := by decide

/-- the same with `init(key, 0)` as the erasing call and `init(key', c > 0)` as the inserting one -/
example : ((add (mk 4) 1).bind (fun s => init s 1 0)).bind (fun s => init s 2 7) = none := by decide

/-- re-adding a key that is still a member is fine while `last_` dangles -/
example : ((((add (mk 4) 1).bind (fun s => add s 2)).bind (fun s => remove s 2 false)).bind
    (fun s => add s 1)).bind toList = some [(1, 2)] := by decide

/-- non-vacuity of `step_undefined`: the world after `new 4; add 1; add 2; remove 2` has a dangling object; every
`add` of a new key and every `init` of a new key with a positive count is undefined there -/
example : ∃ w, run [] [.new 4, .add 0 1, .add 0 2, .remove 0 2] = some w ∧
    step w (.add 0 3) = none ∧ step w (.add 0 2) = none ∧ step w (.init 0 0 7) = none ∧
    step w (.removeStrict 0 2) = none ∧ step w (.add 0 4) = none := by
  obtain ⟨w, h1, h2⟩ := run_refines (ops := [.new 4, .add 0 1, .add 0 2, .remove 0 2]) (by decide)
  refine ⟨w, h1, ?_, ?_, ?_, ?_, ?_⟩ <;> exact step_undefined h2 (by decide) (fun i e => by cases e)

/-- non-vacuity of `run_undefined` / `run_defined_iff` -/
example : run [] [.new 4, .add 0 1, .remove 0 1, .add 0 2, .clear 0] = none :=
  run_undefined _ [] [] RW_nil (by decide) (fun i hi => by simp at hi)

/-- assignment onto a non-empty target is outside the discipline, onto a cleared one inside -/
example : (run [] [.new 4, .add 0 1, .copy 0, .assign 0 1]).isSome = false := by
  rw [run_defined_iff (fun i hi => by simp at hi; omega)]; decide

example : (run [] [.new 4, .add 0 1, .copy 0, .clear 0, .assign 0 1]).isSome = true := by
  rw [run_defined_iff (fun i hi => by simp at hi; omega)]; decide

/-- the exception in `step_undefined`: the model (and the harness) treat `x = x` as a no-op before looking `x` up -/
example : ok [] (.assign 0 0) = false ∧ (step [] (.assign 0 0)).isSome = true := by decide

end Ex

end Vata.LU.SS
