import Vata.UnionStoreCoded
import Vata.Proofs.RenameCodedMain
import Vata.Proofs.UnionModel
/-!
# `Union` on the rule store – proofs, part 1

* the weak translator with the counter functor, fed a key sequence, IS `weakTrAll` (`appSeq_weak_counter`);
* one `ReindexStates(res, weak translator)` call: nothing thrown, the container afterwards, the content of the destination
  (`weak_run`, for ALL source stores – no invariant needed);
* the two calls of `Union` (`union_store_sets`).
-/
namespace Vata.UnionStoreCoded
open Vata.Store Vata.RenameCoded

/-- a key sequence through ONE `TranslatorWeak` with `[&cnt]{return cnt++;}` is `weakTrAll` of `Vata/UnionModel.lean` -/
theorem appSeq_weak_counter : ∀ (ks : List Nat) (m : SMap) (c : Nat),
    appSeq (weakT .counter) ks ⟨m, c⟩ = (none, ⟨(weakTrAll ks m c).1, (weakTrAll ks m c).2⟩)
  | [], m, c => rfl
  | k :: ks, m, c => by
    cases h : m.lookup k with
    | some b =>
      have ha : (weakT .counter).app ⟨m, c⟩ k = some (b, ⟨m, c⟩) := by simp [weakT, h]
      have e : Vata.weakTr m c k = (m, c) := by simp [Vata.weakTr, h]
      simp only [appSeq, ha, weakTrAll, e]
      exact appSeq_weak_counter ks m c
    | none =>
      have ha : (weakT .counter).app ⟨m, c⟩ k = some (c, ⟨m ++ [(k, c)], c + 1⟩) := by
        simp [weakT, h, Glue.Alloc.run, Glue.weakMap_of_none _ h]
      have e : Vata.weakTr m c k = (m ++ [(k, c)], c + 1) := by simp [Vata.weakTr, h]
      simp only [appSeq, ha, weakTrAll, e]
      exact appSeq_weak_counter ks (m ++ [(k, c)]) (c + 1)

/-- the states of a rule the iterator yields are among the looked-up keys (no invariant needed) -/
theorem rule_keys_mem_mapKeys {s : Store} {r : Rule} (hr : r ∈ iterate s) :
    r.parent ∈ mapKeys s.clusters ∧ ∀ k, k ∈ r.kids → k ∈ mapKeys s.clusters := by
  obtain ⟨c, hc, ts, hts, ht⟩ := mem_iterate.mp hr
  simp only [mapKeys, clusterKeys, List.mem_flatMap, List.mem_cons, List.mem_flatten]
  exact ⟨⟨(r.parent, c), hc, Or.inl rfl⟩, fun k hk => ⟨(r.parent, c), hc, Or.inr ⟨(r.sym, ts), hts, r.kids, ht, hk⟩⟩⟩

/-- the states of the automaton the store denotes are covered by the lookup order -/
theorem states_sub_lookupOrder (s : Store) : ∀ q, q ∈ (toTA s).states → q ∈ lookupOrder s true := by
  intro q hq
  simp only [lookupOrder, if_true, List.mem_append]
  rcases Rn.mem_states.mp hq with ⟨r, hr, hk⟩ | hf
  · have := rule_keys_mem_mapKeys (s := s) (r := r) hr
    rcases hk with hk | hk
    · exact Or.inr (hk ▸ this.1)
    · exact Or.inr (this.2 q hk)
  · exact Or.inl hf

theorem mapRule_congr {f g : Nat → Nat} {r : Rule} (hp : f r.parent = g r.parent) (hk : ∀ k, k ∈ r.kids → f k = g k) :
    mapRule f r = mapRule g r := by
  simp only [mapRule, hp, Rule.mk.injEq, true_and, and_true]
  exact List.map_congr_left hk

theorem gd_eq_applyMap {m : SMap} {k : Nat} (h : m.lookup k ≠ none) : gd (fun k => m.lookup k) k = applyMap m k := by
  cases hl : m.lookup k with
  | none => exact absurd hl h
  | some v => simp [gd, applyMap, hl]

/-- one `src.ReindexStates(dst, TranslatorWeak(m, [&cnt]{return cnt++;}))`, for EVERY source and destination store -/
theorem weak_run (src dst : Store) (m : SMap) (c : Nat) :
    (reindexInto (weakT .counter) src dst ⟨m, c⟩ true).thrown = none ∧
    (reindexInto (weakT .counter) src dst ⟨m, c⟩ true).tr =
      ⟨(weakTrAll (lookupOrder src true) m c).1, (weakTrAll (lookupOrder src true) m c).2⟩ ∧
    (WInv dst → WInv (reindexInto (weakT .counter) src dst ⟨m, c⟩ true).dst) ∧
    (∀ x, contains (reindexInto (weakT .counter) src dst ⟨m, c⟩ true).dst x = true ↔
      contains dst x = true ∨
        ∃ r, r ∈ iterate src ∧ x = mapRule (applyMap (weakTrAll (lookupOrder src true) m c).1) r) ∧
    (∀ q, q ∈ (reindexInto (weakT .counter) src dst ⟨m, c⟩ true).dst.final ↔
      q ∈ dst.final ∨ ∃ p, p ∈ src.final ∧ q = applyMap (weakTrAll (lookupOrder src true) m c).1 p) := by
  have hg := (reindexInto_gen (lawful_weakT .counter) src dst ⟨m, c⟩ true).1
  rw [appSeq_weak_counter] at hg
  have e1 : (reindexInto (weakT .counter) src dst ⟨m, c⟩ true).thrown = none := congrArg Prod.fst hg
  have e2 : (reindexInto (weakT .counter) src dst ⟨m, c⟩ true).tr =
      ⟨(weakTrAll (lookupOrder src true) m c).1, (weakTrAll (lookupOrder src true) m c).2⟩ := congrArg Prod.snd hg
  have hl := reindexInto_lawful (lawful_weakT .counter) src dst ⟨m, c⟩ true
  rw [e1, e2] at hl
  simp only at hl
  have hhit : ∀ k, k ∈ lookupOrder src true → (weakTrAll (lookupOrder src true) m c).1.lookup k ≠ none := by
    intro k hk
    have := appSeq_hit (lawful_weakT .counter) (lookupOrder src true) ⟨m, c⟩ (appSeq_weak_none _ _ _) k hk
    rw [appSeq_weak_counter] at this
    exact this
  obtain ⟨⟨fpre, fsuf, rpre, rsuf, k1, k2, k3, _, k5, k6⟩, hw⟩ := hl
  obtain ⟨h1, h2⟩ := k3 rfl
  subst h1; subst h2
  rw [List.append_nil] at k1 k2
  simp only [if_true] at k1
  refine ⟨e1, e2, hw, ?_, ?_⟩
  · intro x
    rw [k5, ← k2]
    constructor
    · rintro (h | ⟨r, hr, e⟩)
      · exact Or.inl h
      · refine Or.inr ⟨r, hr, e.trans ?_⟩
        have hk := rule_keys_mem_mapKeys hr
        apply mapRule_congr
        · exact gd_eq_applyMap (hhit _ (by simp only [lookupOrder, if_true, List.mem_append]; exact Or.inr hk.1))
        · intro k hkk
          exact gd_eq_applyMap (hhit _ (by simp only [lookupOrder, if_true, List.mem_append]; exact Or.inr (hk.2 k hkk)))
    · rintro (h | ⟨r, hr, e⟩)
      · exact Or.inl h
      · refine Or.inr ⟨r, hr, e.trans ?_⟩
        have hk := rule_keys_mem_mapKeys hr
        apply mapRule_congr
        · exact (gd_eq_applyMap (hhit _ (by simp only [lookupOrder, if_true, List.mem_append]; exact Or.inr hk.1))).symm
        · intro k hkk
          exact (gd_eq_applyMap
            (hhit _ (by simp only [lookupOrder, if_true, List.mem_append]; exact Or.inr (hk.2 k hkk)))).symm
  · intro q
    rw [k6, ← k1]
    constructor
    · rintro (h | ⟨p, hp, e⟩)
      · exact Or.inl h
      · exact Or.inr ⟨p, hp, e.trans
          (gd_eq_applyMap (hhit _ (by simp only [lookupOrder, if_true, List.mem_append]; exact Or.inl hp)))⟩
    · rintro (h | ⟨p, hp, e⟩)
      · exact Or.inl h
      · exact Or.inr ⟨p, hp, e.trans
          (gd_eq_applyMap (hhit _ (by simp only [lookupOrder, if_true, List.mem_append]; exact Or.inl hp))).symm⟩

theorem contains_empty (x : Rule) : contains empty x = false := rfl

/-- the two calls of `Union`: maps EQUAL to the model's (visiting order = `lookupOrder`), rules and final states the model's as
sets, the weak invariant, each rule yielded once – for ALL stores and ALL maps -/
theorem union_store_sets (A B : Store) (mL mR : SMap) :
    (unionStoreCoded A B mL mR).2 =
      (unionModelOrd (lookupOrder A true) (lookupOrder B true) (toTA A) (toTA B) mL mR).2 ∧
    (∀ x, x ∈ iterate (unionStoreCoded A B mL mR).1 ↔
      x ∈ (unionModelOrd (lookupOrder A true) (lookupOrder B true) (toTA A) (toTA B) mL mR).1.rules) ∧
    (∀ q, q ∈ (unionStoreCoded A B mL mR).1.final ↔
      q ∈ (unionModelOrd (lookupOrder A true) (lookupOrder B true) (toTA A) (toTA B) mL mR).1.final) ∧
    WInv (unionStoreCoded A B mL mR).1 ∧ (iterate (unionStoreCoded A B mL mR).1).Nodup := by
  obtain ⟨_, a2, a3, a4, a5⟩ := weak_run A empty mL (unionCnt mL mR)
  have hc : (reindexInto (weakT .counter) A empty ⟨mL, unionCnt mL mR⟩ true).tr.cnt =
      (weakTrAll (lookupOrder A true) mL (unionCnt mL mR)).2 := by rw [a2]
  have hm : (reindexInto (weakT .counter) A empty ⟨mL, unionCnt mL mR⟩ true).tr.map =
      (weakTrAll (lookupOrder A true) mL (unionCnt mL mR)).1 := by rw [a2]
  obtain ⟨_, b2, b3, b4, b5⟩ := weak_run B (reindexInto (weakT .counter) A empty ⟨mL, unionCnt mL mR⟩ true).dst mR
    (reindexInto (weakT .counter) A empty ⟨mL, unionCnt mL mR⟩ true).tr.cnt
  have hw := b3 (a3 winv_empty)
  have hm2 : (reindexInto (weakT .counter) B (reindexInto (weakT .counter) A empty ⟨mL, unionCnt mL mR⟩ true).dst
      ⟨mR, (reindexInto (weakT .counter) A empty ⟨mL, unionCnt mL mR⟩ true).tr.cnt⟩ true).tr.map =
      (weakTrAll (lookupOrder B true) mR (weakTrAll (lookupOrder A true) mL (unionCnt mL mR)).2).1 := by
    rw [b2, hc]
  refine ⟨?_, ?_, ?_, hw, nodup_iterate_w hw⟩
  · simp only [unionStoreCoded, unionModelOrd]
    rw [hm2, hm]
  · intro x
    simp only [unionStoreCoded] at hw ⊢
    rw [← contains_iff_mem_iterate_w hw, b4, a4, contains_empty, hc]
    simp only [unionModelOrd, unionWith, reindex, List.mem_append, List.mem_map, toTA, Bool.false_eq_true, false_or]
    constructor
    · rintro (⟨r, hr, e⟩ | ⟨r, hr, e⟩)
      · exact Or.inl ⟨r, hr, e.symm⟩
      · exact Or.inr ⟨r, hr, e.symm⟩
    · rintro (⟨r, hr, e⟩ | ⟨r, hr, e⟩)
      · exact Or.inl ⟨r, hr, e.symm⟩
      · exact Or.inr ⟨r, hr, e.symm⟩
  · intro q
    simp only [unionStoreCoded]
    rw [b5, a5, hc]
    simp only [unionModelOrd, unionWith, reindex, List.mem_append, List.mem_map, toTA, empty, List.not_mem_nil, false_or]
    constructor
    · rintro (⟨r, hr, e⟩ | ⟨r, hr, e⟩)
      · exact Or.inl ⟨r, hr, e.symm⟩
      · exact Or.inr ⟨r, hr, e.symm⟩
    · rintro (⟨r, hr, e⟩ | ⟨r, hr, e⟩)
      · exact Or.inl ⟨r, hr, e.symm⟩
      · exact Or.inr ⟨r, hr, e.symm⟩

end Vata.UnionStoreCoded
