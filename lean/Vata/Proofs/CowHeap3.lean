import Vata.CowHeap3
import Vata.Proofs.CowHeap
/-!
# Copy-on-write handles are values, three levels of sharing (proofs for `Vata/CowHeap3.lean`)

The counting invariant is stated once for a generic *level* (`Lvl`: a pool of referrers with outgoing pointers into a pool
of reference-counted targets, plus a multiset of pending references held by temporaries) and instantiated three times
(handles → map nodes, map nodes → cluster nodes, cluster nodes → tuple-set nodes).

Main results: `cow3_refines_values`, `history_isolation3`, `history_inv3`, `no_garbage3`.
-/
namespace Vata.CowHeap3

open Vata.Store (Cluster TupleSet upsert insTuple addToCluster addToMap lookup_cons' lookup_upsert)
open Vata.CowHeap (upd upd_same upd_other indeg indeg_nil indeg_cons indeg_congr indeg_upd_notin indeg_upd indeg_erase
  count_le_indeg indeg_eq_zero not_mem_of_indeg_zero unique_ref count_upsert mem_of_lookup_snd map_upsert_fresh
  map_upsert_inplace HOp Val specStep specInit nodupNB nodupNB_iff)

/-! ### one level of reference counting -/

/-- `R` referrers with outgoing pointers `out`, `T` allocated targets with use counts `rc`, `p` pending references
    (counted in `rc` but held by a temporary / not yet released), identifiers below `nx` -/
structure Lvl (R : List Nat) (out : Nat → List Nat) (T : List Nat) (rc : Nat → Nat) (p : List Nat) (nx : Nat) : Prop where
  rnd : R.Nodup
  tnd : T.Nodup
  /-- pointers go to allocated nodes -/
  pt : ∀ r, r ∈ R → ∀ c, c ∈ out r → c ∈ T
  /-- the use count is the number of references -/
  cnt : ∀ c, c ∈ T → rc c = indeg R out c + p.count c
  pp : ∀ c, c ∈ p → c ∈ T
  lt : ∀ c, c ∈ T → c < nx
  /-- no garbage -/
  pos : ∀ c, c ∈ T → 0 < rc c

variable {R : List Nat} {out : Nat → List Nat} {T : List Nat} {rc : Nat → Nat} {p : List Nat} {nx : Nat}

theorem Lvl.fresh (h : Lvl R out T rc p nx) : nx ∉ T := fun hm => Nat.lt_irrefl _ (h.lt _ hm)

theorem Lvl.mono (h : Lvl R out T rc p nx) {nx' : Nat} (hle : nx ≤ nx') : Lvl R out T rc p nx' :=
  ⟨h.rnd, h.tnd, h.pt, h.cnt, h.pp, fun c hc => Nat.lt_of_lt_of_le (h.lt c hc) hle, h.pos⟩

/-- a new target node held by a temporary -/
theorem Lvl.allocT (h : Lvl R out T rc p nx) : Lvl R out (nx :: T) (upd rc nx 1) (nx :: p) (nx + 1) := by
  have hf := h.fresh
  have hne : ∀ c, c ∈ T → c ≠ nx := fun c hc e => hf (e ▸ hc)
  refine ⟨h.rnd, List.nodup_cons.mpr ⟨hf, h.tnd⟩, ?_, ?_, ?_, ?_, ?_⟩
  · intro r hr c hc
    exact List.mem_cons_of_mem _ (h.pt r hr c hc)
  · intro c hc
    rcases List.mem_cons.mp hc with e | hc'
    · rw [e, upd_same, List.count_cons_self]
      have h1 : indeg R out nx = 0 := indeg_eq_zero (fun r hr hn => hf (h.pt r hr _ hn))
      have h2 : p.count nx = 0 := List.count_eq_zero.mpr (fun hp => hf (h.pp _ hp))
      omega
    · rw [upd_other _ _ (hne c hc'), List.count_cons_of_ne (fun e => hne c hc' e.symm)]
      exact h.cnt c hc'
  · intro c hc
    rcases List.mem_cons.mp hc with e | hc'
    · rw [e]; exact List.mem_cons_self
    · exact List.mem_cons_of_mem _ (h.pp c hc')
  · intro c hc
    rcases List.mem_cons.mp hc with e | hc'
    · omega
    · have := h.lt c hc'; omega
  · intro c hc
    rcases List.mem_cons.mp hc with e | hc'
    · rw [e, upd_same]; omega
    · rw [upd_other _ _ (hne c hc')]; exact h.pos c hc'

/-- copies of pointers into temporaries -/
theorem Lvl.bump (h : Lvl R out T rc p nx) (es : List Nat) (hes : ∀ c, c ∈ es → c ∈ T) :
    Lvl R out T (fun c => rc c + es.count c) (es ++ p) nx := by
  refine ⟨h.rnd, h.tnd, h.pt, ?_, ?_, h.lt, ?_⟩
  · intro c hc
    have := h.cnt c hc
    simp only [List.count_append]
    omega
  · intro c hc
    rcases List.mem_append.mp hc with hc' | hc'
    · exact hes c hc'
    · exact h.pp c hc'
  · intro c hc
    have := h.pos c hc
    show 0 < rc c + es.count c
    omega

theorem Lvl.bump1 (h : Lvl R out T rc p nx) {c : Nat} (hc : c ∈ T) :
    Lvl R out T (upd rc c (rc c + 1)) (c :: p) nx := by
  have := h.bump [c] (by intro x hx; rw [List.mem_singleton.mp hx]; exact hc)
  have e : (fun x => rc x + [c].count x) = upd rc c (rc c + 1) := by
    funext x
    by_cases hx : x = c
    · subst hx; simp
    · rw [upd_other _ _ hx, List.count_eq_zero.mpr (by simpa using hx)]
      rfl
  rw [e] at this
  exact this

/-- a new referrer takes over pending references -/
theorem Lvl.addR (h : Lvl R out T rc (es ++ p) nx) {n : Nat} (hn : n ∉ R) :
    Lvl (n :: R) (upd out n es) T rc p nx := by
  refine ⟨List.nodup_cons.mpr ⟨hn, h.rnd⟩, h.tnd, ?_, ?_, ?_, h.lt, h.pos⟩
  · intro r hr c hc
    by_cases e : r = n
    · subst e
      rw [upd_same] at hc
      exact h.pp c (List.mem_append_left _ hc)
    · rw [upd_other _ _ e] at hc
      rcases List.mem_cons.mp hr with e' | hr'
      · exact absurd e' e
      · exact h.pt r hr' c hc
  · intro c hc
    have := h.cnt c hc
    rw [indeg_cons, upd_same, indeg_upd_notin _ hn]
    simp only [List.count_append] at this
    omega
  · intro c hc
    exact h.pp c (List.mem_append_right _ hc)

/-- the pointers of a referrer are exchanged with pending ones (`new' + old' = out r + new` as multisets) -/
theorem Lvl.setR {new : List Nat} (h : Lvl R out T rc (new ++ p) nx) {r : Nat} (hr : r ∈ R) (new' old' : List Nat)
    (hms : ∀ x, new'.count x + old'.count x = (out r).count x + new.count x) :
    Lvl R (upd out r new') T rc (old' ++ p) nx := by
  have hmem : ∀ x, x ∈ new' ∨ x ∈ old' → x ∈ T := by
    intro x hx
    have h1 : 0 < new'.count x + old'.count x := by
      rcases hx with hx | hx
      · have := List.count_pos_iff.mpr hx; omega
      · have := List.count_pos_iff.mpr hx; omega
    rw [hms x] at h1
    by_cases h2 : 0 < (out r).count x
    · exact h.pt r hr x (List.count_pos_iff.mp h2)
    · have h3 : 0 < new.count x := by omega
      exact h.pp x (List.mem_append_left _ (List.count_pos_iff.mp h3))
  refine ⟨h.rnd, h.tnd, ?_, ?_, ?_, h.lt, h.pos⟩
  · intro r' hr' c hc
    by_cases e : r' = r
    · subst e
      rw [upd_same] at hc
      exact hmem c (Or.inl hc)
    · rw [upd_other _ _ e] at hc
      exact h.pt r' hr' c hc
  · intro c hc
    have h1 := h.cnt c hc
    have h2 := indeg_upd (out := out) new' h.rnd hr c
    have h3 := hms c
    simp only [List.count_append] at h1 ⊢
    omega
  · intro c hc
    rcases List.mem_append.mp hc with hc' | hc'
    · exact hmem c (Or.inr hc')
    · exact h.pp c (List.mem_append_right _ hc')

/-- a referrer goes away, its pointers become pending -/
theorem Lvl.dropR (h : Lvl R out T rc p nx) {r : Nat} (hr : r ∈ R) :
    Lvl (R.erase r) out T rc (out r ++ p) nx := by
  refine ⟨h.rnd.erase r, h.tnd, ?_, ?_, ?_, h.lt, h.pos⟩
  · intro r' hr' c hc
    exact h.pt r' (List.mem_of_mem_erase hr') c hc
  · intro c hc
    have h1 := h.cnt c hc
    have h2 := indeg_erase out h.rnd hr c
    simp only [List.count_append]
    omega
  · intro c hc
    rcases List.mem_append.mp hc with hc' | hc'
    · exact h.pt r hr c hc'
    · exact h.pp c hc'

/-- releasing the last reference frees the node; nobody points to it any more -/
theorem Lvl.relFree {c : Nat} (h : Lvl R out T rc (c :: p) nx) (h0 : rc c - 1 = 0) :
    Lvl R out (T.erase c) (upd rc c 0) p nx := by
  have hc : c ∈ T := h.pp c List.mem_cons_self
  have hrc := h.cnt c hc
  rw [List.count_cons_self] at hrc
  have hi : indeg R out c = 0 := by omega
  have hp : p.count c = 0 := by omega
  refine ⟨h.rnd, h.tnd.erase c, ?_, ?_, ?_, ?_, ?_⟩
  · intro r hr c' hc'
    have hne : c' ≠ c := by
      intro e; rw [e] at hc'
      exact not_mem_of_indeg_zero hi hr hc'
    exact (List.mem_erase_of_ne hne).mpr (h.pt r hr c' hc')
  · intro c' hc'
    obtain ⟨hne', hc''⟩ := (h.tnd.mem_erase_iff).mp hc'
    have := h.cnt c' hc''
    rw [List.count_cons_of_ne (fun e => hne' e.symm)] at this
    rw [upd_other _ _ hne']
    exact this
  · intro c' hc'
    have hne' : c' ≠ c := by
      intro e; rw [e] at hc'
      exact List.count_eq_zero.mp hp hc'
    exact (List.mem_erase_of_ne hne').mpr (h.pp c' (List.mem_cons_of_mem _ hc'))
  · intro c' hc'
    exact h.lt c' (List.mem_of_mem_erase hc')
  · intro c' hc'
    obtain ⟨hne', hc''⟩ := (h.tnd.mem_erase_iff).mp hc'
    rw [upd_other _ _ hne']
    exact h.pos c' hc''

/-- releasing one of several references -/
theorem Lvl.relDec {c : Nat} (h : Lvl R out T rc (c :: p) nx) (h0 : ¬ rc c - 1 = 0) :
    Lvl R out T (upd rc c (rc c - 1)) p nx := by
  have hc : c ∈ T := h.pp c List.mem_cons_self
  have hrc := h.cnt c hc
  rw [List.count_cons_self] at hrc
  refine ⟨h.rnd, h.tnd, h.pt, ?_, ?_, h.lt, ?_⟩
  · intro c' hc'
    by_cases e : c' = c
    · subst e
      rw [upd_same]
      omega
    · rw [upd_other _ _ e]
      have := h.cnt c' hc'
      rw [List.count_cons_of_ne (fun e' => e e'.symm)] at this
      exact this
  · intro c' hc'
    exact h.pp c' (List.mem_cons_of_mem _ hc')
  · intro c' hc'
    by_cases e : c' = c
    · subst e
      rw [upd_same]
      omega
    · rw [upd_other _ _ e]
      exact h.pos c' hc'

/-- a target with at most one reference is pointed to from one place only -/
theorem Lvl.unique (h : Lvl R out T rc [] nx) {c r r' : Nat} (hc : rc c = 1) (hr : r ∈ R) (hcr : c ∈ out r)
    (hr' : r' ∈ R) (hne : r' ≠ r) : c ∉ out r' := by
  have h1 := h.cnt c (h.pt r hr c hcr)
  simp only [List.count_nil] at h1
  exact unique_ref h.rnd (by omega) hr hcr hr' hne

theorem Lvl.count_le_one (h : Lvl R out T rc [] nx) {c r : Nat} (hc : rc c = 1) (hr : r ∈ R) (hcr : c ∈ out r) :
    (out r).count c ≤ 1 := by
  have h1 := h.cnt c (h.pt r hr c hcr)
  simp only [List.count_nil] at h1
  have := count_le_indeg out hr c
  omega

/-! ### the invariant -/

def hout (H : Heap) : Nat → List Nat := fun h => [H.hmap h]

/-- `pm` / `pc` / `pt` : references to map / cluster / tuple-set nodes held by temporaries -/
structure InvP (H : Heap) (pm pc pt : List Nat) : Prop where
  hm : Lvl H.hl (hout H) H.ml H.mrc pm H.next
  mc : Lvl H.ml (mout H) H.cl H.crc pc H.next
  ct : Lvl H.cl (cout H) H.tl H.trc pt H.next

/-- at all three levels: the use count of a node equals the number of handles / parent nodes pointing to it, pointers go to
    allocated nodes, allocated nodes are in use -/
def Inv (H : Heap) : Prop := InvP H [] [] []

theorem lvl_init (out : Nat → List Nat) : Lvl [] out [] (fun _ => 0) [] 0 := by
  refine ⟨List.nodup_nil, List.nodup_nil, ?_, ?_, ?_, ?_, ?_⟩ <;> intro x hx <;> simp at hx

theorem inv_init : Inv init := ⟨lvl_init _, lvl_init _, lvl_init _⟩

/-! ### the primitive actions keep the invariant -/

variable {H : Heap} {pm pc pt : List Nat}

theorem mout_allocMap (H : Heap) (es : List (Nat × Nat)) :
    mout (allocMap H es) = upd (mout H) H.next (es.map Prod.snd) := by
  funext x
  by_cases e : x = H.next
  · rw [e]; simp [mout, allocMap]
  · simp [mout, allocMap, upd_other _ _ e]

theorem allocMap_inv (h : InvP H pm pc pt) (es : List (Nat × Nat)) (hes : ∀ c, c ∈ es.map Prod.snd → c ∈ H.cl) :
    InvP (allocMap H es) (H.next :: pm) pc pt := by
  refine ⟨h.hm.allocT, ?_, h.ct.mono (Nat.le_succ _)⟩
  rw [mout_allocMap]
  exact ((h.mc.bump _ hes).addR h.hm.fresh).mono (Nat.le_succ _)

theorem incMap_inv (h : InvP H pm pc pt) {m : Nat} (hm : m ∈ H.ml) : InvP (incMap H m) (m :: pm) pc pt :=
  ⟨h.hm.bump1 hm, h.mc, h.ct⟩

theorem hout_retarget (H : Heap) (h m' : Nat) : hout (retarget H h m') = upd (hout H) h [m'] := by
  funext x
  by_cases e : x = h
  · subst e; simp [hout, retarget]
  · simp [hout, retarget, upd_other _ _ e]

theorem retarget_inv {h m' : Nat} (hI : InvP H (m' :: pm) pc pt) (hh : h ∈ H.hl) :
    InvP (retarget H h m') (H.hmap h :: pm) pc pt := by
  refine ⟨?_, hI.mc, hI.ct⟩
  rw [hout_retarget]
  exact Lvl.setR (new := [m']) hI.hm hh [m'] [H.hmap h] (by intro x; simp only [hout]; omega)

theorem hout_addHandle (H : Heap) (h m' : Nat) : hout (addHandle H h m') = upd (hout H) h [m'] := by
  funext x
  by_cases e : x = h
  · subst e; simp [hout, addHandle]
  · simp [hout, addHandle, upd_other _ _ e]

theorem addHandle_inv {h m' : Nat} (hI : InvP H (m' :: pm) pc pt) (hh : h ∉ H.hl) :
    InvP (addHandle H h m') pm pc pt := by
  refine ⟨?_, hI.mc, hI.ct⟩
  rw [hout_addHandle]
  exact Lvl.addR (es := [m']) hI.hm hh

theorem dropHandle_inv {h : Nat} (hI : InvP H pm pc pt) (hh : h ∈ H.hl) :
    InvP (dropHandle H h) (H.hmap h :: pm) pc pt :=
  ⟨hI.hm.dropR hh, hI.mc, hI.ct⟩

theorem cout_allocCluster (H : Heap) (es : List (Nat × Nat)) :
    cout (allocCluster H es) = upd (cout H) H.next (es.map Prod.snd) := by
  funext x
  by_cases e : x = H.next
  · rw [e]; simp [cout, allocCluster]
  · simp [cout, allocCluster, upd_other _ _ e]

theorem allocCluster_inv (h : InvP H pm pc pt) (es : List (Nat × Nat)) (hes : ∀ t, t ∈ es.map Prod.snd → t ∈ H.tl) :
    InvP (allocCluster H es) pm (H.next :: pc) pt := by
  refine ⟨h.hm.mono (Nat.le_succ _), h.mc.allocT, ?_⟩
  rw [cout_allocCluster]
  exact ((h.ct.bump _ hes).addR h.mc.fresh).mono (Nat.le_succ _)

theorem mout_setEntry (H : Heap) (m q c' : Nat) :
    mout (setEntry H m q c') = upd (mout H) m ((upsert q (fun _ => c') (H.ment m)).map Prod.snd) := by
  funext x
  by_cases e : x = m
  · subst e; simp [mout, setEntry]
  · simp [mout, setEntry, upd_other _ _ e]

theorem setEntry_inv {m c' : Nat} (q : Nat) (h : InvP H pm (c' :: pc) pt) (hm : m ∈ H.ml) :
    InvP (setEntry H m q c') pm (((H.ment m).lookup q).toList ++ pc) pt := by
  refine ⟨h.hm, ?_, h.ct⟩
  rw [mout_setEntry]
  exact Lvl.setR (new := [c']) h.mc hm _ _ (fun x => count_upsert q c' x (H.ment m))

theorem mout_clearEntries (H : Heap) (m : Nat) : mout (clearEntries H m) = upd (mout H) m [] := by
  funext x
  by_cases e : x = m
  · subst e; simp [mout, clearEntries]
  · simp [mout, clearEntries, upd_other _ _ e]

theorem clearEntries_inv {m : Nat} (h : InvP H pm pc pt) (hm : m ∈ H.ml) :
    InvP (clearEntries H m) pm (mout H m ++ pc) pt := by
  refine ⟨h.hm, ?_, h.ct⟩
  rw [mout_clearEntries]
  exact Lvl.setR (new := []) h.mc hm [] (mout H m) (by intro x; simp)

theorem allocTs_inv (h : InvP H pm pc pt) (d : TupleSet) : InvP (allocTs H d) pm pc (H.next :: pt) :=
  ⟨h.hm.mono (Nat.le_succ _), h.mc.mono (Nat.le_succ _), h.ct.allocT⟩

theorem cout_setCEntry (H : Heap) (c f t' : Nat) :
    cout (setCEntry H c f t') = upd (cout H) c ((upsert f (fun _ => t') (H.cent c)).map Prod.snd) := by
  funext x
  by_cases e : x = c
  · subst e; simp [cout, setCEntry]
  · simp [cout, setCEntry, upd_other _ _ e]

theorem setCEntry_inv {c t' : Nat} (f : Nat) (h : InvP H pm pc (t' :: pt)) (hc : c ∈ H.cl) :
    InvP (setCEntry H c f t') pm pc (((H.cent c).lookup f).toList ++ pt) := by
  refine ⟨h.hm, h.mc, ?_⟩
  rw [cout_setCEntry]
  exact Lvl.setR (new := [t']) h.ct hc _ _ (fun x => count_upsert f t' x (H.cent c))

theorem writeTs_inv (h : InvP H pm pc pt) (t : Nat) (d : TupleSet) : InvP (writeTs H t d) pm pc pt :=
  ⟨h.hm, h.mc, h.ct⟩

theorem releaseTs_inv {t : Nat} (h : InvP H pm pc (t :: pt)) : InvP (releaseTs H t) pm pc pt := by
  unfold releaseTs
  split
  · rename_i h0
    exact ⟨h.hm, h.mc, h.ct.relFree h0⟩
  · rename_i h0
    exact ⟨h.hm, h.mc, h.ct.relDec h0⟩

theorem releaseTss_inv (l : List Nat) {H : Heap} (h : InvP H pm pc (l ++ pt)) : InvP (l.foldl releaseTs H) pm pc pt := by
  induction l generalizing H with
  | nil => exact h
  | cons t l ih => exact ih (releaseTs_inv h)

theorem releaseCluster_inv {c : Nat} (h : InvP H pm (c :: pc) pt) : InvP (releaseCluster H c) pm pc pt := by
  unfold releaseCluster
  split
  · rename_i h0
    apply releaseTss_inv
    exact ⟨h.hm, h.mc.relFree h0, h.ct.dropR (h.mc.pp c List.mem_cons_self)⟩
  · rename_i h0
    exact ⟨h.hm, h.mc.relDec h0, h.ct⟩

theorem releaseClusters_inv (l : List Nat) {H : Heap} (h : InvP H pm (l ++ pc) pt) :
    InvP (l.foldl releaseCluster H) pm pc pt := by
  induction l generalizing H with
  | nil => exact h
  | cons c l ih => exact ih (releaseCluster_inv h)

theorem releaseMap_inv {m : Nat} (h : InvP H (m :: pm) pc pt) : InvP (releaseMap H m) pm pc pt := by
  unfold releaseMap
  split
  · rename_i h0
    apply releaseClusters_inv
    exact ⟨h.hm.relFree h0, h.mc.dropR (h.hm.pp m List.mem_cons_self), h.ct⟩
  · rename_i h0
    exact ⟨h.hm.relDec h0, h.mc, h.ct⟩

/-! ### values: frames -/

/-- `abs` only looks at the handles, the entries and the tuple sets -/
structure SameVals (H' H : Heap) : Prop where
  hl : H'.hl = H.hl
  hmap : H'.hmap = H.hmap
  ment : H'.ment = H.ment
  cent : H'.cent = H.cent
  tdat : H'.tdat = H.tdat

theorem SameVals.refl (H : Heap) : SameVals H H := ⟨rfl, rfl, rfl, rfl, rfl⟩
theorem SameVals.trans {H1 H2 H3 : Heap} (a : SameVals H3 H2) (b : SameVals H2 H1) : SameVals H3 H1 :=
  ⟨a.hl.trans b.hl, a.hmap.trans b.hmap, a.ment.trans b.ment, a.cent.trans b.cent, a.tdat.trans b.tdat⟩

theorem SameVals.eqC {H' H : Heap} (h : SameVals H' H) (c : Nat) : valC H' c = valC H c := by
  simp only [valC, h.cent, h.tdat]
theorem SameVals.eqM {H' H : Heap} (h : SameVals H' H) (m : Nat) : valM H' m = valM H m := by
  simp only [valM, h.ment, valC, h.cent, h.tdat]
theorem SameVals.eqAbs {H' H : Heap} (h : SameVals H' H) : abs H' = abs H := by
  funext x
  simp only [abs, h.hl, h.hmap, h.eqM]

theorem releaseTs_same (H : Heap) (t : Nat) : SameVals (releaseTs H t) H := by
  unfold releaseTs
  split <;> exact ⟨rfl, rfl, rfl, rfl, rfl⟩

theorem releaseTss_same (l : List Nat) (H : Heap) : SameVals (l.foldl releaseTs H) H := by
  induction l generalizing H with
  | nil => exact SameVals.refl H
  | cons t l ih => exact (ih (releaseTs H t)).trans (releaseTs_same H t)

theorem releaseCluster_same (H : Heap) (c : Nat) : SameVals (releaseCluster H c) H := by
  unfold releaseCluster
  split
  · exact (releaseTss_same _ _).trans ⟨rfl, rfl, rfl, rfl, rfl⟩
  · exact ⟨rfl, rfl, rfl, rfl, rfl⟩

theorem releaseClusters_same (l : List Nat) (H : Heap) : SameVals (l.foldl releaseCluster H) H := by
  induction l generalizing H with
  | nil => exact SameVals.refl H
  | cons t l ih => exact (ih (releaseCluster H t)).trans (releaseCluster_same H t)

theorem releaseMap_same (H : Heap) (m : Nat) : SameVals (releaseMap H m) H := by
  unfold releaseMap
  split
  · exact (releaseClusters_same _ _).trans ⟨rfl, rfl, rfl, rfl, rfl⟩
  · exact ⟨rfl, rfl, rfl, rfl, rfl⟩

theorem incMap_same (H : Heap) (m : Nat) : SameVals (incMap H m) H := ⟨rfl, rfl, rfl, rfl, rfl⟩

theorem abs_of_mem {H : Heap} {x : Nat} (hx : x ∈ H.hl) : abs H x = some (valM H (H.hmap x)) := by
  simp [abs, hx]
theorem abs_of_not_mem {H : Heap} {x : Nat} (hx : x ∉ H.hl) : abs H x = none := by
  simp [abs, hx]
theorem abs_isSome {H : Heap} {x : Nat} : (abs H x).isSome = true ↔ x ∈ H.hl := by
  by_cases hx : x ∈ H.hl <;> simp [abs, hx]
theorem abs_isNone {H : Heap} {x : Nat} : (abs H x).isNone = true ↔ x ∉ H.hl := by
  by_cases hx : x ∈ H.hl <;> simp [abs, hx]

/-- a heap that differs from `H` only in nodes no live handle can reach has the same values; more generally:
    same handles, and the value of every map node a live handle points to is the same -/
theorem abs_eq_of_valM {H' H : Heap} (hl : H'.hl = H.hl) (hmap : H'.hmap = H.hmap)
    (hv : ∀ x, x ∈ H.hl → valM H' (H.hmap x) = valM H (H.hmap x)) : abs H' = abs H := by
  funext x
  by_cases hx : x ∈ H.hl
  · rw [abs_of_mem (hl ▸ hx), abs_of_mem hx, hmap, hv x hx]
  · rw [abs_of_not_mem (hl ▸ hx), abs_of_not_mem hx]

theorem abs_allocMap (h : InvP H pm pc pt) (es : List (Nat × Nat)) : abs (allocMap H es) = abs H := by
  apply abs_eq_of_valM (H' := allocMap H es) (H := H) rfl rfl
  intro x hx
  have hne : H.hmap x ≠ H.next := fun e => h.hm.fresh (e ▸ h.hm.pt x hx _ (by simp [hout]))
  simp only [valM, valC, allocMap, upd_other _ _ hne]

theorem valM_allocMap_next (H : Heap) (es : List (Nat × Nat)) :
    valM (allocMap H es) H.next = es.map (fun kc => (kc.1, valC H kc.2)) := by
  simp only [valM, valC, allocMap, upd_same]

theorem abs_retarget {h : Nat} (m' : Nat) (hh : h ∈ H.hl) :
    abs (retarget H h m') = upd (abs H) h (some (valM H m')) := by
  funext x
  by_cases e : x = h
  · subst e
    simp [abs, retarget, valM, valC, hh]
  · simp [abs, retarget, valM, valC, upd_other _ _ e]

theorem abs_addHandle (H : Heap) (h m' : Nat) :
    abs (addHandle H h m') = upd (abs H) h (some (valM H m')) := by
  funext x
  by_cases e : x = h
  · subst e
    simp [abs, addHandle, valM, valC]
  · simp [abs, addHandle, valM, valC, upd_other _ _ e, e]

theorem abs_dropHandle (hnd : H.hl.Nodup) (h : Nat) : abs (dropHandle H h) = upd (abs H) h none := by
  funext x
  by_cases e : x = h
  · subst e
    simp [abs, dropHandle, hnd.not_mem_erase]
  · simp [abs, dropHandle, valM, valC, upd_other _ _ e, List.mem_erase_of_ne e]

/-! ### `uniqueClusterMap` -/

/-- no other live handle uses the map node of `h` -/
def MapUnique (H : Heap) (h : Nat) : Prop := ∀ x, x ∈ H.hl → x ≠ h → H.hmap x ≠ H.hmap h

theorem mapUnique_of_rc (hI : Inv H) {h : Nat} (hh : h ∈ H.hl) (hu : H.mrc (H.hmap h) = 1) : MapUnique H h := by
  intro x hx hne e
  have := hI.hm.unique hu hh (by simp [hout]) hx hne
  apply this
  simp [hout, e]

theorem upd_abs_self {h : Nat} (hh : h ∈ H.hl) : upd (abs H) h (some (valM H (H.hmap h))) = abs H := by
  funext x
  by_cases e : x = h
  · subst e; rw [upd_same, abs_of_mem hh]
  · rw [upd_other _ _ e]

theorem uniqueMap_spec (hI : Inv H) {h : Nat} (hh : h ∈ H.hl) :
    Inv (uniqueMap H h) ∧ abs (uniqueMap H h) = abs H ∧ h ∈ (uniqueMap H h).hl ∧ MapUnique (uniqueMap H h) h := by
  unfold uniqueMap
  simp only
  split
  · rename_i hu
    exact ⟨hI, rfl, hh, mapUnique_of_rc hI hh hu⟩
  · have hm : H.hmap h ∈ H.ml := hI.hm.pt h hh _ (by simp [hout])
    have h1 : InvP (allocMap H (H.ment (H.hmap h))) [H.next] [] [] :=
      allocMap_inv hI _ (fun c hc => hI.mc.pt _ hm c hc)
    have h2 := retarget_inv (h := h) h1 hh
    have h3 := releaseMap_inv h2
    have hfr := releaseMap_same (retarget (allocMap H (H.ment (H.hmap h))) h H.next) (H.hmap h)
    refine ⟨h3, ?_, ?_, ?_⟩
    · rw [hfr.eqAbs, abs_retarget (H := allocMap H (H.ment (H.hmap h))) H.next hh, abs_allocMap hI,
        valM_allocMap_next]
      exact upd_abs_self hh
    · rw [hfr.hl]; exact hh
    · intro x hx hne
      rw [hfr.hl] at hx
      rw [hfr.hmap]
      show upd H.hmap h H.next x ≠ upd H.hmap h H.next h
      rw [upd_same, upd_other _ _ hne]
      intro e
      exact hI.hm.fresh (e ▸ hI.hm.pt x hx _ (by simp [hout]))

/-! ### `uniqueTuplePtrSet` and the insertion: the value of one cluster node changes, the others keep theirs -/

theorem addToClusterUnique_spec (hI : Inv H) {c : Nat} (hc : c ∈ H.cl) (f : Nat) (t : List Nat) :
    Inv (addToClusterUnique H c f t) ∧
    (addToClusterUnique H c f t).hl = H.hl ∧ (addToClusterUnique H c f t).hmap = H.hmap ∧
    (addToClusterUnique H c f t).ment = H.ment ∧
    valC (addToClusterUnique H c f t) c = addToCluster f t (valC H c) ∧
    ∀ c', c' ∈ H.cl → c' ≠ c → valC (addToClusterUnique H c f t) c' = valC H c' := by
  have hfresh : ∀ c', c' ∈ H.cl → ∀ ft, ft ∈ H.cent c' → ft.2 ≠ H.next := by
    intro c' hc' ft hft e
    exact hI.ct.fresh (e ▸ hI.ct.pt c' hc' ft.2 (List.mem_map.mpr ⟨ft, hft, rfl⟩))
  -- the two "fresh tuple set" cases have the same shape
  have fresh_case : ∀ d : TupleSet, d = insTuple t ((((H.cent c).lookup f).map H.tdat).getD []) →
      valC (setCEntry (allocTs H d) c f H.next) c = addToCluster f t (valC H c) ∧
      ∀ c', c' ∈ H.cl → c' ≠ c → valC (setCEntry (allocTs H d) c f H.next) c' = valC H c' := by
    intro d hd
    constructor
    · show ((upd H.cent c (upsert f (fun _ => H.next) (H.cent c))) c).map
        (fun ft => (ft.1, upd H.tdat H.next d ft.2)) = _
      rw [upd_same]
      apply map_upsert_fresh
      · intro ft hft
        exact upd_other _ _ (hfresh c hc ft hft)
      · rw [upd_same, hd]
    · intro c' hc' hne
      show ((upd H.cent c (upsert f (fun _ => H.next) (H.cent c))) c').map
        (fun ft => (ft.1, upd H.tdat H.next d ft.2)) = _
      rw [upd_other _ _ hne]
      apply List.map_congr_left
      intro ft hft
      rw [upd_other _ _ (hfresh c' hc' ft hft)]
  unfold addToClusterUnique
  split
  · rename_i hl
    have h1 := allocTs_inv hI (insTuple t [])
    have h2 := setCEntry_inv f h1 (c := c) hc
    have e : (allocTs H (insTuple t [])).cent = H.cent := rfl
    rw [e, hl] at h2
    obtain ⟨g1, g2⟩ := fresh_case (insTuple t []) (by rw [hl]; rfl)
    exact ⟨h2, rfl, rfl, rfl, g1, g2⟩
  · rename_i ts hl
    have hts : ts ∈ cout H c := mem_of_lookup_snd hl
    split
    · rename_i hrc
      refine ⟨writeTs_inv hI _ _, rfl, rfl, rfl, ?_, ?_⟩
      · show (H.cent c).map (fun ft => (ft.1, upd H.tdat ts (insTuple t (H.tdat ts)) ft.2)) = _
        apply map_upsert_inplace _ _ f ts _ _ hl
        · exact hI.ct.count_le_one hrc hc hts
        · intro ft _ hne
          exact upd_other _ _ hne
        · rw [upd_same]; rfl
      · intro c' hc' hne
        show (H.cent c').map (fun ft => (ft.1, upd H.tdat ts (insTuple t (H.tdat ts)) ft.2)) = _
        apply List.map_congr_left
        intro ft hft
        have hne' : ft.2 ≠ ts := by
          intro e2
          apply hI.ct.unique hrc hc hts hc' hne
          exact List.mem_map.mpr ⟨ft, hft, e2⟩
        rw [upd_other _ _ hne']
    · have h1 := allocTs_inv hI (insTuple t (H.tdat ts))
      have h2 := setCEntry_inv f h1 (c := c) hc
      have e : (allocTs H (insTuple t (H.tdat ts))).cent = H.cent := rfl
      rw [e, hl] at h2
      have hfr := releaseTs_same (setCEntry (allocTs H (insTuple t (H.tdat ts))) c f H.next) ts
      obtain ⟨g1, g2⟩ := fresh_case (insTuple t (H.tdat ts)) (by rw [hl]; rfl)
      refine ⟨releaseTs_inv h2, hfr.hl, hfr.hmap, hfr.ment, ?_, ?_⟩
      · rw [hfr.eqC]; exact g1
      · intro c' hc' hne
        rw [hfr.eqC]; exact g2 c' hc' hne

/-! ### `uniqueCluster` : at the value level "make sure the key exists" -/

theorem abs_setEntry_allocCluster (hI : Inv H) {h : Nat} (hh : h ∈ H.hl) (hu : MapUnique H h) (q : Nat)
    (G : Option Cluster → Cluster) (es : List (Nat × Nat))
    (hd : es.map (fun ft => (ft.1, H.tdat ft.2)) = G (((H.ment (H.hmap h)).lookup q).map (valC H))) :
    abs (setEntry (allocCluster H es) (H.hmap h) q H.next) =
      upd (abs H) h (some (upsert q G (valM H (H.hmap h)))) := by
  have hold : ∀ m, m ∈ H.ml → ∀ kc, kc ∈ H.ment m →
      valC (setEntry (allocCluster H es) (H.hmap h) q H.next) kc.2 = valC H kc.2 := by
    intro m hm kc hkc
    have hne : kc.2 ≠ H.next := fun e =>
      hI.mc.fresh (e ▸ hI.mc.pt m hm kc.2 (List.mem_map.mpr ⟨kc, hkc, rfl⟩))
    show ((upd H.cent H.next es) kc.2).map (fun ft => (ft.1, H.tdat ft.2)) = _
    rw [upd_other _ _ hne]
    rfl
  have hnew : valC (setEntry (allocCluster H es) (H.hmap h) q H.next) H.next =
      es.map (fun ft => (ft.1, H.tdat ft.2)) := by
    show ((upd H.cent H.next es) H.next).map (fun ft => (ft.1, H.tdat ft.2)) = _
    rw [upd_same]
  have hml : ∀ x, x ∈ H.hl → H.hmap x ∈ H.ml := fun x hx => hI.hm.pt x hx _ (by simp [hout])
  funext x
  by_cases hx : x ∈ H.hl
  · have hx' : x ∈ (setEntry (allocCluster H es) (H.hmap h) q H.next).hl := hx
    rw [abs_of_mem hx']
    by_cases e : x = h
    · subst e
      rw [upd_same]
      congr 1
      show ((upd H.ment (H.hmap x) (upsert q (fun _ => H.next) (H.ment (H.hmap x)))) (H.hmap x)).map
        (fun kc => (kc.1, valC (setEntry (allocCluster H es) (H.hmap x) q H.next) kc.2)) = _
      rw [upd_same]
      apply map_upsert_fresh (valC H)
      · exact hold _ (hml x hx)
      · rw [hnew, hd]
    · rw [upd_other _ _ e, abs_of_mem hx]
      congr 1
      show ((upd H.ment (H.hmap h) (upsert q (fun _ => H.next) (H.ment (H.hmap h)))) (H.hmap x)).map
        (fun kc => (kc.1, valC (setEntry (allocCluster H es) (H.hmap h) q H.next) kc.2)) = _
      rw [upd_other _ _ (hu x hx e)]
      apply List.map_congr_left
      intro kc hkc
      rw [hold _ (hml x hx) kc hkc]
  · have hx' : x ∉ (setEntry (allocCluster H es) (H.hmap h) q H.next).hl := hx
    have e : x ≠ h := fun e => hx (e ▸ hh)
    rw [abs_of_not_mem hx', upd_other _ _ e, abs_of_not_mem hx]

theorem lookup_setEntry (H : Heap) (m q c' : Nat) : ((setEntry H m q c').ment m).lookup q = some c' := by
  show ((upd H.ment m (upsert q (fun _ => c') (H.ment m))) m).lookup q = some c'
  rw [upd_same, lookup_upsert, if_pos rfl]

theorem uniqueCluster_spec (hI : Inv H) {h : Nat} (hh : h ∈ H.hl) (hu : MapUnique H h) (q : Nat) :
    Inv (uniqueCluster H (H.hmap h) q).1 ∧
    (uniqueCluster H (H.hmap h) q).1.hl = H.hl ∧ (uniqueCluster H (H.hmap h) q).1.hmap = H.hmap ∧
    ((uniqueCluster H (H.hmap h) q).1.ment (H.hmap h)).lookup q = some (uniqueCluster H (H.hmap h) q).2 ∧
    (uniqueCluster H (H.hmap h) q).1.crc (uniqueCluster H (H.hmap h) q).2 = 1 ∧
    abs (uniqueCluster H (H.hmap h) q).1 =
      upd (abs H) h (some (upsert q (fun o => o.getD []) (valM H (H.hmap h)))) := by
  have hm : H.hmap h ∈ H.ml := hI.hm.pt h hh _ (by simp [hout])
  unfold uniqueCluster
  split
  · rename_i hl
    simp only
    have h1 := allocCluster_inv hI [] (by intro t ht; simp at ht)
    have h2 := setEntry_inv q h1 (m := H.hmap h) hm
    have e : (allocCluster H []).ment = H.ment := rfl
    rw [e, hl] at h2
    refine ⟨h2, rfl, rfl, lookup_setEntry _ _ _ _, ?_, ?_⟩
    · show upd H.crc H.next 1 H.next = 1
      rw [upd_same]
    · apply abs_setEntry_allocCluster hI hh hu
      rw [hl]; rfl
  · rename_i c hl
    have hcm : c ∈ mout H (H.hmap h) := mem_of_lookup_snd hl
    have hc : c ∈ H.cl := hI.mc.pt _ hm c hcm
    split
    · rename_i hrc
      simp only
      refine ⟨hI, trivial, trivial, hl, hrc, ?_⟩
      -- nothing changes: at the value level the key is already there
      have : valM H (H.hmap h) = upsert q (fun o => o.getD []) (valM H (H.hmap h)) := by
        show (H.ment (H.hmap h)).map (fun kc => (kc.1, valC H kc.2)) = _
        apply map_upsert_inplace (valC H) (valC H) q c _ _ hl
        · exact hI.mc.count_le_one hrc hm hcm
        · intro kc _ _; rfl
        · rfl
      rw [← this]
      exact (upd_abs_self hh).symm
    · rename_i hrc
      simp only
      have hcne : c ≠ H.next := fun e => hI.mc.fresh (e ▸ hc)
      have h1 := allocCluster_inv hI (H.cent c) (fun t ht => hI.ct.pt c hc t ht)
      have h2 := setEntry_inv q h1 (m := H.hmap h) hm
      have e : (allocCluster H (H.cent c)).ment = H.ment := rfl
      rw [e, hl] at h2
      have hfr := releaseCluster_same (setEntry (allocCluster H (H.cent c)) (H.hmap h) q H.next) c
      refine ⟨releaseCluster_inv h2, hfr.hl, hfr.hmap, ?_, ?_, ?_⟩
      · rw [hfr.ment]; exact lookup_setEntry _ _ _ _
      · have hpos := hI.mc.pos c hc
        have h0 : ¬ ((setEntry (allocCluster H (H.cent c)) (H.hmap h) q H.next).crc c - 1 = 0) := by
          show ¬ (upd H.crc H.next 1 c - 1 = 0)
          rw [upd_other _ _ hcne]
          omega
        unfold releaseCluster
        rw [if_neg h0]
        show upd (upd H.crc H.next 1) c _ H.next = 1
        rw [upd_other _ _ (fun e => hcne e.symm), upd_same]
      · rw [hfr.eqAbs]
        apply abs_setEntry_allocCluster hI hh hu
        rw [hl]; rfl

theorem upsert_upsert {β : Type} (q : Nat) (g1 g2 : Option β → β) (v : List (Nat × β)) :
    upsert q g2 (upsert q g1 v) = upsert q (fun o => g2 (some (g1 o))) v := by
  induction v with
  | nil => simp [upsert]
  | cons kv v ih =>
    obtain ⟨k0, v0⟩ := kv
    simp only [upsert]
    split
    · rename_i e
      simp only [upsert, if_pos e]
    · rename_i e
      simp only [upsert, if_neg e, ih]

/-! ### the whole insertion -/

theorem addUnique_spec (hI : Inv H) {h : Nat} (hh : h ∈ H.hl) (hu : MapUnique H h) (q : Nat) (v : Nat × List Nat) :
    Inv (addUnique H h q v) ∧
      abs (addUnique H h q v) = upd (abs H) h (some (addToMap q v.1 v.2 (valM H (H.hmap h)))) := by
  obtain ⟨a1, a2, a3, a4, a5, a6⟩ := uniqueCluster_spec hI hh hu q
  unfold addUnique
  simp only
  generalize uniqueCluster H (H.hmap h) q = p at a1 a2 a3 a4 a5 a6
  obtain ⟨HA, c⟩ := p
  simp only at a1 a2 a3 a4 a5 a6 ⊢
  have hmA : H.hmap h ∈ HA.ml := by
    have := a1.hm.pt h (a2 ▸ hh) (HA.hmap h) (by simp [hout])
    rw [a3] at this; exact this
  have hcm : c ∈ mout HA (H.hmap h) := mem_of_lookup_snd a4
  have hc : c ∈ HA.cl := a1.mc.pt _ hmA c hcm
  obtain ⟨b1, b2, b3, b4, b5, b6⟩ := addToClusterUnique_spec a1 hc v.1 v.2
  refine ⟨b1, ?_⟩
  generalize addToClusterUnique HA c v.1 v.2 = HB at b1 b2 b3 b4 b5 b6
  have hvalA : valM HA (H.hmap h) = upsert q (fun o => o.getD []) (valM H (H.hmap h)) := by
    have := congrFun a6 h
    rw [abs_of_mem (a2 ▸ hh), upd_same, a3] at this
    exact Option.some.inj this
  funext x
  by_cases hx : x ∈ H.hl
  · have hxA : x ∈ HA.hl := a2 ▸ hx
    have hxB : x ∈ HB.hl := b2 ▸ hxA
    rw [abs_of_mem hxB, b3, a3]
    by_cases e : x = h
    · subst e
      rw [upd_same]
      congr 1
      show (HB.ment (H.hmap x)).map (fun kc => (kc.1, valC HB kc.2)) = _
      rw [b4]
      have := map_upsert_inplace (valC HA) (valC HB) q c (fun o => addToCluster v.1 v.2 (o.getD []))
        (HA.ment (H.hmap x)) a4 (a1.mc.count_le_one a5 hmA hcm)
        (fun kc hkc hne => b6 kc.2 (a1.mc.pt _ hmA kc.2 (List.mem_map.mpr ⟨kc, hkc, rfl⟩)) hne) b5
      rw [this]
      show upsert q _ (valM HA (H.hmap x)) = _
      rw [hvalA, upsert_upsert]
      rfl
    · rw [upd_other _ _ e]
      have hxm : H.hmap x ∈ HA.ml := by
        have := a1.hm.pt x hxA (HA.hmap x) (by simp [hout])
        rw [a3] at this; exact this
      have hne : H.hmap x ≠ H.hmap h := hu x hx e
      have h1 : valM HB (H.hmap x) = valM HA (H.hmap x) := by
        show (HB.ment (H.hmap x)).map (fun kc => (kc.1, valC HB kc.2)) = _
        rw [b4]
        apply List.map_congr_left
        intro kc hkc
        have hkc' : kc.2 ∈ mout HA (H.hmap x) := List.mem_map.mpr ⟨kc, hkc, rfl⟩
        have hne' : kc.2 ≠ c := by
          intro e2
          apply a1.mc.unique a5 hmA hcm hxm hne
          rw [← e2]; exact hkc'
        rw [b6 kc.2 (a1.mc.pt _ hxm kc.2 hkc') hne']
      rw [h1]
      have := congrFun a6 x
      rw [abs_of_mem hxA, upd_other _ _ e, a3] at this
      exact this
  · have hxB : x ∉ HB.hl := by rw [b2, a2]; exact hx
    have e : x ≠ h := fun e => hx (e ▸ hh)
    rw [abs_of_not_mem hxB, upd_other _ _ e, abs_of_not_mem hx]

/-! ### `Clear` in place -/

theorem abs_clearEntries {h : Nat} (hh : h ∈ H.hl) (hu : MapUnique H h) :
    abs (clearEntries H (H.hmap h)) = upd (abs H) h (some []) := by
  funext x
  by_cases hx : x ∈ H.hl
  · have hx' : x ∈ (clearEntries H (H.hmap h)).hl := hx
    rw [abs_of_mem hx']
    by_cases e : x = h
    · subst e
      rw [upd_same]
      congr 1
      show ((upd H.ment (H.hmap x) []) (H.hmap x)).map _ = []
      rw [upd_same]; rfl
    · rw [upd_other _ _ e, abs_of_mem hx]
      congr 1
      show ((upd H.ment (H.hmap h) []) (H.hmap x)).map _ = _
      rw [upd_other _ _ (hu x hx e)]
      rfl
  · have hx' : x ∉ (clearEntries H (H.hmap h)).hl := hx
    have e : x ≠ h := fun e => hx (e ▸ hh)
    rw [abs_of_not_mem hx', upd_other _ _ e, abs_of_not_mem hx]

/-! ### main theorems -/

theorem hmap_mem (hI : Inv H) {h : Nat} (hh : h ∈ H.hl) : H.hmap h ∈ H.ml := hI.hm.pt h hh _ (by simp [hout])

theorem step_new (hI : Inv H) (h : Nat) :
    abs (step H (.new h)) = specStep (abs H) (.new h) ∧ Inv (step H (.new h)) := by
  simp only [step, specStep]
  by_cases hh : h ∈ H.hl
  · rw [if_pos hh, if_pos (abs_isSome.mpr hh)]
    exact ⟨rfl, hI⟩
  · rw [if_neg hh, if_neg (fun hs => hh (abs_isSome.mp hs))]
    have h1 : InvP (allocMap H []) [H.next] [] [] := allocMap_inv hI [] (by intro c hc; simp at hc)
    refine ⟨?_, addHandle_inv h1 hh⟩
    rw [abs_addHandle, abs_allocMap hI, valM_allocMap_next]
    rfl

theorem step_copy (hI : Inv H) (src dst : Nat) :
    abs (step H (.copy src dst)) = specStep (abs H) (.copy src dst) ∧ Inv (step H (.copy src dst)) := by
  simp only [step, specStep]
  by_cases hc : src ∈ H.hl ∧ dst ∉ H.hl
  · have hc' : (abs H src).isSome = true ∧ (abs H dst).isNone = true := ⟨abs_isSome.mpr hc.1, abs_isNone.mpr hc.2⟩
    rw [if_pos hc, if_pos hc']
    have h1 := incMap_inv hI (hmap_mem hI hc.1)
    refine ⟨?_, addHandle_inv h1 hc.2⟩
    rw [abs_addHandle, (incMap_same _ _).eqAbs, (incMap_same _ _).eqM, abs_of_mem hc.1]
  · have hc' : ¬ ((abs H src).isSome = true ∧ (abs H dst).isNone = true) :=
      fun hs => hc ⟨abs_isSome.mp hs.1, abs_isNone.mp hs.2⟩
    rw [if_neg hc, if_neg hc']
    exact ⟨rfl, hI⟩

theorem step_assign (hI : Inv H) (src dst : Nat) :
    abs (step H (.assign src dst)) = specStep (abs H) (.assign src dst) ∧ Inv (step H (.assign src dst)) := by
  simp only [step, specStep]
  by_cases hc : src ∈ H.hl ∧ dst ∈ H.hl ∧ src ≠ dst
  · have hc' : (abs H src).isSome = true ∧ (abs H dst).isSome = true ∧ src ≠ dst :=
      ⟨abs_isSome.mpr hc.1, abs_isSome.mpr hc.2.1, hc.2.2⟩
    rw [if_pos hc, if_pos hc']
    have h1 := incMap_inv hI (hmap_mem hI hc.1)
    have h2 := retarget_inv (h := dst) h1 hc.2.1
    refine ⟨?_, releaseMap_inv h2⟩
    rw [(releaseMap_same _ _).eqAbs, abs_retarget (H := incMap H (H.hmap src)) _ hc.2.1, (incMap_same _ _).eqAbs,
      (incMap_same _ _).eqM, abs_of_mem hc.1]
  · have hc' : ¬ ((abs H src).isSome = true ∧ (abs H dst).isSome = true ∧ src ≠ dst) :=
      fun hs => hc ⟨abs_isSome.mp hs.1, abs_isSome.mp hs.2.1, hs.2.2⟩
    rw [if_neg hc, if_neg hc']
    exact ⟨rfl, hI⟩

theorem step_add (hI : Inv H) (h q : Nat) (v : Nat × List Nat) :
    abs (step H (.add h q v)) = specStep (abs H) (.add h q v) ∧ Inv (step H (.add h q v)) := by
  simp only [step, specStep]
  by_cases hh : h ∈ H.hl
  · rw [if_pos hh, abs_of_mem hh]
    simp only
    obtain ⟨h1, h2, h3, h4⟩ := uniqueMap_spec hI hh
    obtain ⟨h5, h6⟩ := addUnique_spec h1 h3 h4 q v
    refine ⟨?_, h5⟩
    rw [h6, h2]
    have : abs (uniqueMap H h) h = abs H h := by rw [h2]
    rw [abs_of_mem h3, abs_of_mem hh] at this
    rw [Option.some.inj this]
  · rw [if_neg hh, abs_of_not_mem hh]
    exact ⟨rfl, hI⟩

theorem step_clear (hI : Inv H) (h : Nat) :
    abs (step H (.clear h)) = specStep (abs H) (.clear h) ∧ Inv (step H (.clear h)) := by
  simp only [step, specStep]
  by_cases hh : h ∈ H.hl
  · rw [if_pos hh, if_pos (abs_isSome.mpr hh)]
    have hm := hmap_mem hI hh
    split
    · rename_i hu
      constructor
      · rw [(releaseClusters_same _ _).eqAbs, abs_clearEntries hh (mapUnique_of_rc hI hh hu)]
      · exact releaseClusters_inv _ (clearEntries_inv hI hm)
    · have h1 : InvP (allocMap H []) [H.next] [] [] := allocMap_inv hI [] (by intro c hc; simp at hc)
      have h2 := retarget_inv (h := h) h1 hh
      refine ⟨?_, releaseMap_inv h2⟩
      rw [(releaseMap_same _ _).eqAbs, abs_retarget (H := allocMap H []) H.next hh, abs_allocMap hI,
        valM_allocMap_next]
      rfl
  · rw [if_neg hh, if_neg (fun hs => hh (abs_isSome.mp hs))]
    exact ⟨rfl, hI⟩

theorem step_destroy (hI : Inv H) (h : Nat) :
    abs (step H (.destroy h)) = specStep (abs H) (.destroy h) ∧ Inv (step H (.destroy h)) := by
  simp only [step, specStep]
  by_cases hh : h ∈ H.hl
  · rw [if_pos hh]
    refine ⟨?_, releaseMap_inv (dropHandle_inv hI hh)⟩
    rw [(releaseMap_same _ _).eqAbs, abs_dropHandle hI.hm.rnd]
  · rw [if_neg hh]
    refine ⟨?_, hI⟩
    funext x
    by_cases e : x = h
    · subst e; rw [upd_same, abs_of_not_mem hh]
    · rw [upd_other _ _ e]

/-- every operation of the three-level heap acts on the handle values exactly like the value-level specification (the same
    `specStep` as for the two-level model), and keeps the reference-count invariant at all three levels -/
theorem cow3_refines_values (hI : Inv H) (op : HOp) : abs (step H op) = specStep (abs H) op ∧ Inv (step H op) := by
  cases op with
  | new h => exact step_new hI h
  | copy src dst => exact step_copy hI src dst
  | assign src dst => exact step_assign hI src dst
  | add h q v => exact step_add hI h q v
  | clear h => exact step_clear hI h
  | destroy h => exact step_destroy hI h

theorem abs_init : abs init = specInit := by
  funext x
  simp [abs, init, specInit]

theorem history_refines3 (hI : Inv H) (ops : List HOp) :
    abs (ops.foldl step H) = ops.foldl specStep (abs H) ∧ Inv (ops.foldl step H) := by
  induction ops generalizing H with
  | nil => exact ⟨rfl, hI⟩
  | cons op ops ih =>
    obtain ⟨h1, h2⟩ := cow3_refines_values hI op
    obtain ⟨h3, h4⟩ := ih h2
    exact ⟨by rw [List.foldl_cons, List.foldl_cons, h3, h1], h4⟩

/-- for every operation history the handles behave as independent values -/
theorem history_isolation3 (ops : List HOp) : abs (ops.foldl step init) = ops.foldl specStep specInit := by
  rw [(history_refines3 inv_init ops).1, abs_init]

theorem history_inv3 (ops : List HOp) : Inv (ops.foldl step init) := (history_refines3 inv_init ops).2

/-- the two models agree on every history -/
theorem agrees_with_two_level (ops : List HOp) :
    abs (ops.foldl step init) = Vata.CowHeap.abs (ops.foldl Vata.CowHeap.step Vata.CowHeap.init) := by
  rw [history_isolation3, Vata.CowHeap.history_isolation]

theorem lvl_no_garbage {R : List Nat} {out : Nat → List Nat} {T : List Nat} {rc : Nat → Nat} {nx : Nat}
    (h : Lvl R out T rc [] nx) (hR : R = []) : T = [] := by
  cases hT : T with
  | nil => rfl
  | cons c cs =>
    exfalso
    have hmem : c ∈ T := by rw [hT]; exact List.mem_cons_self
    have h1 := h.cnt c hmem
    have h2 := h.pos c hmem
    rw [hR, indeg_nil] at h1
    simp only [List.count_nil] at h1
    omega

/-- no garbage: when the last handle is gone every node of every level has been freed -/
theorem no_garbage3 (hI : Inv H) (hl : H.hl = []) : H.ml = [] ∧ H.cl = [] ∧ H.tl = [] := by
  have h1 := lvl_no_garbage hI.hm hl
  have h2 := lvl_no_garbage hI.mc h1
  exact ⟨h1, h2, lvl_no_garbage hI.ct h2⟩

/-- the executable checker decides the invariant -/
theorem invB_iff (H : Heap) : invB H = true ↔ Inv H := by
  simp only [invB, Bool.and_eq_true, nodupNB_iff, List.all_eq_true, List.contains_iff_mem, beq_iff_eq,
    decide_eq_true_eq]
  constructor
  · rintro ⟨⟨⟨⟨⟨⟨⟨⟨⟨h1, h2⟩, h3⟩, h4⟩, h5⟩, h6⟩, h7⟩, h8⟩, h9⟩, h10⟩
    refine ⟨⟨h1, h2, ?_, ?_, ?_, ?_, ?_⟩, ⟨h2, h3, h6, ?_, ?_, ?_, ?_⟩, ⟨h3, h4, h7, ?_, ?_, ?_, ?_⟩⟩
    · intro x hx c hc
      simp only [hout, List.mem_singleton] at hc
      rw [hc]; exact h5 x hx
    · intro m hm; rw [(h8 m hm).1.1]; rfl
    · intro m hm; simp at hm
    · intro m hm; exact (h8 m hm).1.2
    · intro m hm; exact (h8 m hm).2
    · intro c hc; rw [(h9 c hc).1.1]; rfl
    · intro c hc; simp at hc
    · intro c hc; exact (h9 c hc).1.2
    · intro c hc; exact (h9 c hc).2
    · intro t ht; rw [(h10 t ht).1.1]; rfl
    · intro t ht; simp at ht
    · intro t ht; exact (h10 t ht).1.2
    · intro t ht; exact (h10 t ht).2
  · intro h
    refine ⟨⟨⟨⟨⟨⟨⟨⟨⟨h.hm.rnd, h.hm.tnd⟩, h.mc.tnd⟩, h.ct.tnd⟩, ?_⟩, h.mc.pt⟩, h.ct.pt⟩, ?_⟩, ?_⟩, ?_⟩
    · intro x hx
      exact h.hm.pt x hx _ (by simp [hout])
    · intro m hm
      have := h.hm.cnt m hm
      simp only [List.count_nil, Nat.add_zero] at this
      exact ⟨⟨this, h.hm.lt m hm⟩, h.hm.pos m hm⟩
    · intro c hc
      have := h.mc.cnt c hc
      simp only [List.count_nil, Nat.add_zero] at this
      exact ⟨⟨this, h.mc.lt c hc⟩, h.mc.pos c hc⟩
    · intro t ht
      have := h.ct.cnt t ht
      simp only [List.count_nil, Nat.add_zero] at this
      exact ⟨⟨this, h.ct.lt t ht⟩, h.ct.pos t ht⟩

/-! ### non-vacuity -/
namespace CowEx3

def ops1 : List HOp :=
  [.new 1, .add 1 5 (7, []), .copy 1 2, .add 2 5 (7, [5, 5]), .add 1 5 (8, []), .add 2 6 (9, [5])]
def H0 : Heap := (ops1.take 3).foldl step init
def H1 : Heap := ops1.foldl step init

/-- after the copy both handles share one map node with use count 2 -/
example : H0.hmap 1 = H0.hmap 2 ∧ H0.mrc (H0.hmap 1) = 2 := by decide
/-- the write through handle 2 cloned the map node, then the cluster node of state 5, then the tuple set of symbol 7
    (each became shared by the clone one level up); the write through handle 1 then happens in place at the map and
    cluster levels and creates one tuple set for the new symbol 8 -/
example : abs H1 1 = some [(5, [(7, [[]]), (8, [[]])])] ∧
    abs H1 2 = some [(5, [(7, [[], [5, 5]])]), (6, [(9, [[5]])])] ∧ abs H1 3 = none :=
  ⟨by decide, by decide, by decide⟩
example : H1.ml = [3, 0] ∧ H1.cl = [7, 4, 1] ∧ H1.tl = [8, 6, 5, 2] ∧ H1.next = 9 := by decide
example : invB H1 = true := by decide
example : Inv H1 := history_inv3 ops1
example : abs H1 = ops1.foldl specStep specInit := history_isolation3 ops1

def ops2 : List HOp :=
  ops1 ++ [.new 3, .assign 2 3, .copy 3 4, .add 3 6 (9, [6]), .clear 4, .clear 1, .destroy 2]
def H2 : Heap := ops2.foldl step init

example : abs H2 1 = some [] ∧ abs H2 2 = none ∧
    abs H2 3 = some [(5, [(7, [[], [5, 5]])]), (6, [(9, [[5], [6]])])] ∧ abs H2 4 = some [] :=
  ⟨by decide, by decide, by decide, by decide⟩
example : invB H2 = true := by decide
/-- destroying the remaining handles frees everything at all three levels -/
example : (((ops2 ++ [HOp.destroy 1, HOp.destroy 3, HOp.destroy 4]).foldl step init).ml = []) ∧
    (((ops2 ++ [HOp.destroy 1, HOp.destroy 3, HOp.destroy 4]).foldl step init).cl = []) ∧
    (((ops2 ++ [HOp.destroy 1, HOp.destroy 3, HOp.destroy 4]).foldl step init).tl = []) := by decide

/-- the invariant is not trivial: in `Hsh` the tuple set of (state 5, symbol 7) is shared by two cluster nodes (use count
    2); with that use count set to 1 the checker rejects the heap, and a write through handle 2 becomes visible through
    handle 1 -/
def Hsh : Heap := ([.new 1, .add 1 5 (7, []), .copy 1 2, .add 2 5 (8, [])] : List HOp).foldl step init
def Hbad : Heap := { Hsh with trc := fun _ => 1 }
example : Hsh.trc 2 = 2 ∧ invB Hsh = true ∧ invB Hbad = false := by decide
example : abs (step Hsh (.add 2 5 (7, [5, 5]))) 1 = some [(5, [(7, [[]])])] := by decide
example : abs (step Hbad (.add 2 5 (7, [5, 5]))) 1 = some [(5, [(7, [[], [5, 5]])])] := by decide

end CowEx3

end Vata.CowHeap3
