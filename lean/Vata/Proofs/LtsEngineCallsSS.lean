import Vata.Proofs.LtsEngineCalls
import Vata.Proofs.LtsUtil
/-!
# The instrumented LTS engine: the `SmartSet` calls of the `Block` constructors are inside the discipline `SS.ok`

`SSInv`: the abstract `SmartSet` world (`SS.AWorld`) after the trace shows, at the object number of every block, the `inset`
of the engine model.  `ctor1_good` / `ctor2_good`: the calls of one `Block` constructor are inside `SS.ok` and re-establish
`SSInv` (second constructor: every `parent.inset_.removeStrict(a)` hits a member – the parent's inset counts the states of the
block with an incoming `a`-edge and the new block is a part of it; every `add` goes to the set under construction, whose
`last_` is intact).
-/
namespace Vata.LEC
open Vata.L Vata.LE Vata.LU

theorem okAll_append : ∀ (t u : List SS.Op) (aw : SS.AWorld),
    SS.okAll aw (t ++ u) = (SS.okAll aw t && SS.okAll (SS.aRun aw t) u)
  | [], _, _ => by simp [SS.okAll, SS.aRun]
  | op :: t, u, aw => by simp only [List.cons_append, SS.okAll, SS.aRun, okAll_append t u, Bool.and_assoc]

theorem aRun_append : ∀ (t u : List SS.Op) (aw : SS.AWorld), SS.aRun aw (t ++ u) = SS.aRun (SS.aRun aw t) u
  | [], _, _ => rfl
  | op :: t, u, aw => by simp only [List.cons_append, SS.aRun, aRun_append t u]

theorem lt_of_get {α : Type} {l : List α} {i : Nat} {x : α} (h : l[i]? = some x) : i < l.length := by
  obtain ⟨h1, _⟩ := List.getElem?_eq_some_iff.1 h
  exact h1

theorem set_of_get {α : Type} {l : List α} {i : Nat} {x : α} (h : l[i]? = some x) : l.set i x = l := by
  apply List.ext_getElem?
  intro j
  rw [List.getElem?_set]
  split
  · rename_i hij; subst hij; rw [if_pos (lt_of_get h), h]
  · rfl

/-! ### runs of `add` on one set -/

theorem adds_ok (o R : Nat) : ∀ (ls : List Nat) (aw : SS.AWorld) (c : List (Nat × Nat)),
    aw[o]? = some ⟨c, R, false⟩ → (∀ a, a ∈ ls → a < R) →
    SS.okAll aw (ls.map (SS.Op.add o)) = true ∧
      SS.aRun aw (ls.map (SS.Op.add o)) = aw.set o ⟨ls.foldl insAdd c, R, false⟩
  | [], aw, c, hc, _ => by
    refine ⟨rfl, ?_⟩
    simp only [List.map_nil, SS.aRun, List.foldl_nil]
    exact (set_of_get hc).symm
  | a :: ls, aw, c, hc, hR => by
    have ho := lt_of_get hc
    have hstep : SS.aStep aw (SS.Op.add o a) = aw.set o ⟨insAdd c a, R, false⟩ := by
      simp only [SS.aStep, hc, Glue.aAdd_eq_insAdd]
    have hok : SS.ok aw (SS.Op.add o a) = true := by
      simp [SS.ok, hc, hR a List.mem_cons_self]
    obtain ⟨h1, h2⟩ := adds_ok o R ls (aw.set o ⟨insAdd c a, R, false⟩) (insAdd c a)
      (by rw [List.getElem?_set_self ho]) (fun x hx => hR x (List.mem_cons_of_mem _ hx))
    simp only [List.map_cons, SS.okAll, SS.aRun, hstep, hok, h1, h2, Bool.and_self, List.foldl_cons, List.set_set, and_self]

/-! ### runs of `removeStrict` on the parent / `add` on the child -/

def moveOps (po o : Nat) (ls : List Nat) : List SS.Op := ls.flatMap (fun a => [SS.Op.removeStrict po a, SS.Op.add o a])

def moveF (pc : List (Nat × Nat) × List (Nat × Nat)) (a : Nat) : List (Nat × Nat) × List (Nat × Nat) :=
  (insRemove pc.1 a, insAdd pc.2 a)

theorem moves_ok (po o R : Nat) (hne : po ≠ o) : ∀ (ls : List Nat) (aw : SS.AWorld) (p c : List (Nat × Nat)) (dg : Bool),
    aw[po]? = some ⟨p, R, dg⟩ → aw[o]? = some ⟨c, R, false⟩ → InsOK p → (∀ a, a ∈ ls → a < R) →
    (∀ a, ls.count a ≤ insCount p a) →
    SS.okAll aw (moveOps po o ls) = true ∧
      ∃ dg', SS.aRun aw (moveOps po o ls) =
        (aw.set po ⟨(ls.foldl moveF (p, c)).1, R, dg'⟩).set o ⟨(ls.foldl moveF (p, c)).2, R, false⟩
  | [], aw, p, c, dg, hp, hc, _, _, _ => by
    refine ⟨rfl, dg, ?_⟩
    simp only [moveOps, List.flatMap_nil, SS.aRun, List.foldl_nil]
    rw [set_of_get hp, set_of_get hc]
  | a :: ls, aw, p, c, dg, hp, hc, hpo, hR, hcnt => by
    have hlp := lt_of_get hp
    have hlo := lt_of_get hc
    have hmem : a ∈ insKeys p := by
      rw [← insCount_pos_iff hpo]
      have := hcnt a
      rw [List.count_cons_self] at this
      omega
    have hok1 : SS.ok aw (SS.Op.removeStrict po a) = true := by
      simp only [SS.ok, hp, Glue.aKeys_eq_insKeys, Bool.and_eq_true, decide_eq_true_eq, List.contains_iff_mem]
      exact ⟨hR a List.mem_cons_self, hmem⟩
    have hst1 : SS.aStep aw (SS.Op.removeStrict po a) =
        aw.set po ⟨insRemove p a, R, dg || SS.erasesLast p a⟩ := by
      simp only [SS.aStep, hp, Glue.aRemove_eq_insRemove]
    have hc1 : (aw.set po ⟨insRemove p a, R, dg || SS.erasesLast p a⟩)[o]? = some ⟨c, R, false⟩ := by
      rw [List.getElem?_set_ne hne]; exact hc
    have hok2 : SS.ok (aw.set po ⟨insRemove p a, R, dg || SS.erasesLast p a⟩) (SS.Op.add o a) = true := by
      simp [SS.ok, hc1, hR a List.mem_cons_self]
    have hst2 : SS.aStep (aw.set po ⟨insRemove p a, R, dg || SS.erasesLast p a⟩) (SS.Op.add o a) =
        (aw.set po ⟨insRemove p a, R, dg || SS.erasesLast p a⟩).set o ⟨insAdd c a, R, false⟩ := by
      simp only [SS.aStep, hc1, Glue.aAdd_eq_insAdd]
    have hcnt' : ∀ x, ls.count x ≤ insCount (insRemove p a) x := by
      intro x
      have := hcnt x
      rw [insCount_insRemove hpo, List.count_cons] at *
      by_cases hx : x = a
      · subst hx; simp at this ⊢; omega
      · have hx' : ¬ (a == x) = true := by simpa using fun h => hx h.symm
        simp only [hx', hx, if_false] at this ⊢
        omega
    obtain ⟨h1, dg', h2⟩ := moves_ok po o R hne ls
      ((aw.set po ⟨insRemove p a, R, dg || SS.erasesLast p a⟩).set o ⟨insAdd c a, R, false⟩) (insRemove p a) (insAdd c a)
      (dg || SS.erasesLast p a)
      (by rw [List.getElem?_set_ne (Ne.symm hne), List.getElem?_set_self hlp])
      (by rw [List.getElem?_set_self (by rw [List.length_set]; exact hlo)])
      (insOK_insRemove hpo a) (fun x hx => hR x (List.mem_cons_of_mem _ hx)) hcnt'
    refine ⟨?_, dg', ?_⟩
    · simp only [moveOps, List.flatMap_cons, List.cons_append, List.nil_append, SS.okAll, hok1, hst1, hok2, hst2,
        Bool.true_and]
      exact h1
    · simp only [moveOps, List.flatMap_cons, List.cons_append, List.nil_append, SS.aRun, hst1, hst2, List.foldl_cons]
      show SS.aRun _ (moveOps po o ls) = _
      rw [h2]
      show _ = (aw.set po ⟨(ls.foldl moveF (moveF (p, c) a)).1, R, dg'⟩).set o ⟨(ls.foldl moveF (moveF (p, c) a)).2, R, false⟩
      simp only [moveF]
      rw [List.set_comm _ _ (Ne.symm hne) (l := aw.set po _), List.set_set, List.set_set]

/-! ### the closed forms of the constructor loops -/

theorem foldl_flatMap' {α β σ : Type} (f : σ → β → σ) (g : α → List β) : ∀ (l : List α) (s : σ),
    (l.flatMap g).foldl f s = l.foldl (fun s x => (g x).foldl f s) s
  | [], _ => rfl
  | x :: l, s => by simp only [List.flatMap_cons, List.foldl_append, List.foldl_cons, foldl_flatMap' f g l]

theorem mkInset_eq (L : LTS) (states : List Nat) : mkInset L states = (states.flatMap (bwLabels L)).foldl insAdd [] := by
  rw [foldl_flatMap']; rfl

theorem moveInset_eq (L : LTS) (states : List Nat) (parent : List (Nat × Nat)) :
    moveInset L states parent = (states.flatMap (bwLabels L)).foldl moveF (parent, []) := by
  rw [foldl_flatMap']; rfl

theorem count_flatMap_bwLabels (L : LTS) (a : Nat) : ∀ (states : List Nat),
    (states.flatMap (bwLabels L)).count a = cntIn L a states
  | [] => rfl
  | q :: states => by
    rw [List.flatMap_cons, List.count_append, count_flatMap_bwLabels L a states, cntIn, cntIn, List.countP_cons]
    have : (bwLabels L q).count a = if hasIn L a q = true then 1 else 0 := by
      rw [← mem_bwLabels_ite]
      exact (nodup_bwLabels L q).count
    omega

theorem bwLabels_lt (L : LTS) {q a : Nat} (h : a ∈ bwLabels L q) : a < labels L := by
  unfold bwLabels at h
  exact List.mem_range.1 (List.mem_filter.1 h).1

/-! ### the invariant -/

/-- the `SmartSet` world shows the engine's insets: object `obj i` is the inset of block `i`, the objects `a + 1` are the sets
`delta1[a]`, and the next set to be created is the inset of the next block -/
structure SSInv (L : LTS) (obj : Nat → Nat) (e : Eng) (aw : SS.AWorld) : Prop where
  hlen : aw.length = obj e.part.length
  hsucc : ∀ k, e.part.length ≤ k → obj (k + 1) = obj k + 1
  hobj : ∀ i, i < e.part.length → ∃ dg, aw[obj i]? = some ⟨e.inset.getD i [], labels L, dg⟩
  hdelta : ∀ a, a < labels L → aw[a + 1]? = some ⟨dItems L a, L.n, false⟩

/-- what the invariant needs from the numbering -/
structure ObjOK (L : LTS) (obj : Nat → Nat) : Prop where
  hinj : ∀ i j, obj i = obj j → i = j
  hbase : ∀ i, labels L < obj i

theorem objI_ok (L : LTS) : ObjOK L (objI L) := ⟨fun i j h => by unfold objI at h; omega, fun i => by unfold objI; omega⟩

theorem objR_ok (L : LTS) (n : Nat) : ObjOK L (objR L n) :=
  ⟨fun i j h => by unfold objR at h; split at h <;> split at h <;> omega, fun i => by unfold objR; split <;> omega⟩

theorem SSInv.congr {L : LTS} {obj : Nat → Nat} {e e' : Eng} {aw : SS.AWorld} (h : SSInv L obj e aw)
    (h1 : e'.part.length = e.part.length) (h2 : e'.inset = e.inset) : SSInv L obj e' aw :=
  ⟨by rw [h1]; exact h.hlen, by rw [h1]; exact h.hsucc, by rw [h1, h2]; exact h.hobj, h.hdelta⟩

/-- the second `Block` constructor -/
theorem ctor2_good {L : LTS} {obj : Nat → Nat} (ho : ObjOK L obj) {e : Eng} {aw : SS.AWorld} (inv : SSInv L obj e aw)
    (w : WF L e) {b : Nat} {rest new : List Nat} (s : SplitOK e b rest new) :
    SS.okAll aw (ctor2T L (obj b) (obj e.part.length) new) = true ∧
      SSInv L obj (splitBlockCore L e b rest new) (SS.aRun aw (ctor2T L (obj b) (obj e.part.length) new)) := by
  obtain ⟨dg, hp⟩ := inv.hobj b s.hb
  have hne : obj b ≠ obj e.part.length := fun h => by have := ho.hinj _ _ h; have := s.hb; omega
  have hp1 : (aw ++ [SS.aMk (labels L)])[obj b]? = some ⟨e.inset.getD b [], labels L, dg⟩ := by
    rw [List.getElem?_append_left (lt_of_get hp)]; exact hp
  have hc1 : (aw ++ [SS.aMk (labels L)])[obj e.part.length]? = some ⟨[], labels L, false⟩ := by
    rw [← inv.hlen, List.getElem?_concat_length]; rfl
  have hins := w.hinset b s.hb
  have hcnt : ∀ a, (new.flatMap (bwLabels L)).count a ≤ insCount (e.inset.getD b []) a := by
    intro a
    rw [count_flatMap_bwLabels, hins.2 a]
    have := countP_split (hasIn L a) (w.hnd b) s.hrn s.hnn (fun x hx hxn => ((s.hrest x).1 hx).2 hxn)
      (fun x => ⟨fun hx => by
        by_cases hxn : x ∈ new
        · exact Or.inr hxn
        · exact Or.inl ((s.hrest x).2 ⟨hx, hxn⟩), fun hx => hx.elim (fun h => ((s.hrest x).1 h).1) (s.hnew x)⟩)
    unfold cntIn
    omega
  obtain ⟨h1, dg', h2⟩ := moves_ok (obj b) (obj e.part.length) (labels L) hne (new.flatMap (bwLabels L))
    (aw ++ [SS.aMk (labels L)]) (e.inset.getD b []) [] dg hp1 hc1 hins.1
    (fun a ha => by obtain ⟨q, _, hq⟩ := List.mem_flatMap.1 ha; exact bwLabels_lt L hq) hcnt
  have hrun : SS.aRun aw (ctor2T L (obj b) (obj e.part.length) new) =
      SS.aRun (aw ++ [SS.aMk (labels L)]) (moveOps (obj b) (obj e.part.length) (new.flatMap (bwLabels L))) := rfl
  refine ⟨?_, ?_⟩
  · show (SS.ok aw (SS.Op.new _) && SS.okAll (aw ++ [SS.aMk (labels L)]) (moveOps _ _ _)) = true
    rw [h1]; rfl
  · rw [hrun, h2, ← moveInset_eq]
    have hlen' : (splitBlockCore L e b rest new).part.length = e.part.length + 1 := core_length
    have hbins : b < e.inset.length := by rw [w.hins]; exact s.hb
    refine ⟨?_, ?_, ?_, ?_⟩
    · rw [hlen', List.length_set, List.length_set, List.length_append, inv.hsucc _ (Nat.le_refl _), ← inv.hlen]; rfl
    · intro k hk; rw [hlen'] at hk; exact inv.hsucc k (by omega)
    · intro i hi
      rw [hlen'] at hi
      have hinset : (splitBlockCore L e b rest new).inset.getD i [] =
          if i = b then (moveInset L new (e.inset.getD b [])).1 else if i = e.part.length then
            (moveInset L new (e.inset.getD b [])).2 else e.inset.getD i [] := by
        show (e.inset.set b _ ++ [_]).getD i [] = _
        rw [getD_set_append [] e.inset b _ _ hbins i, w.hins]
      rw [hinset]
      by_cases hib : i = b
      · subst hib
        refine ⟨dg', ?_⟩
        rw [if_pos rfl, List.getElem?_set_ne (Ne.symm hne), List.getElem?_set_self (lt_of_get hp1)]
      · rw [if_neg hib]
        by_cases hil : i = e.part.length
        · subst hil
          refine ⟨false, ?_⟩
          rw [if_pos rfl, List.getElem?_set_self (by rw [List.length_set]; exact lt_of_get hc1)]
        · rw [if_neg hil]
          obtain ⟨dgi, hi'⟩ := inv.hobj i (by omega)
          refine ⟨dgi, ?_⟩
          rw [List.getElem?_set_ne (fun h => hil (ho.hinj _ _ h).symm),
            List.getElem?_set_ne (fun h => hib (ho.hinj _ _ h).symm), List.getElem?_append_left (lt_of_get hi')]
          exact hi'
    · intro a ha
      have hb1 := ho.hbase b
      have hb2 := ho.hbase e.part.length
      have hd := inv.hdelta a ha
      rw [List.getElem?_set_ne (by omega), List.getElem?_set_ne (by omega), List.getElem?_append_left (lt_of_get hd)]
      exact hd

end Vata.LEC
